#!/usr/bin/env python3
"""symgen.py — the symbolic tie (DESIGN.md section 11).

The harness, run with --sym, executes the *real generic cgmath code* on symbolic scalars and enumerates every path
through it (harness/src/sym.rs).  This module turns each path into a Coq lemma about the model's dispatcher over an
arbitrary field with arbitrary oracles, writes one .v file per function, compiles them (16 coqc in parallel) and
reports which functions are tied for all inputs.

  symgen.py Cnn <sym.jsonl> <workdir>      (developer entry point; ./check calls run_sym_tie)
"""
import os, re, sys, json, subprocess, concurrent.futures, time

ROOT = os.path.dirname(os.path.abspath(__file__))
COQ = os.path.join(ROOT, "coq")

# per property: module that holds the generic table, and the table term (section variables F O T A toNat in scope)
SYMTAB = {
    "C01": ("Exec.RunC01", "(gtab_c01 O toNat)"),
    "C02": ("Exec.RunC01", "(gtab_c01 O toNat)"),
    "C03": ("Exec.RunC03", "(tab_c03 O)"),
    "C04": ("Exec.RunC04", "(gtab_c04 O T)"),
    "C05": ("Exec.RunC04", "(gtab_c04 O T)"),
    "C06": ("Exec.RunC06", "(gtab_c06 O T)"),
    "C07": ("Exec.RunC07", "(gtab_c07 O T)"),
    "C08": ("Exec.RunC01 Exec.RunC08", "(gtab_c08 O A ++ gtab_c01 O toNat)"),
    "C09": ("Exec.RunC09", "(gtab_c09 O T)"),
    "C10": ("Exec.RunC10", "(gtab_c10 O T A)"),
    "C11": ("Exec.RunC11", "(gtab_c11 O T)"),
    "C12": ("Exec.RunC12", "(tab_c12 O)"),
    "C13": ("Exec.RunC13", "(gtab_c13 O T)"),
    "C14": ("Exec.RunC14", "(gtab_c14 O T)"),
    "C15": ("Exec.RunC15", "(gtab_c15 O T A)"),
    "C18": ("Exec.RunC18", "(gtab_c18 O A toNat toN)"),
    "C16": ("Exec.RunC16", "(gtab_c16 toNat)"),
    "C17": (None, None),   # no dispatcher lemmas: the operator-spelling clauses themselves are evaluated symbolically
}

UN_O = {"opp": "opp O", "inv": "inv O"}
UN_T = {k: "%s T" % k for k in ("sqrt", "sin", "cos", "tan", "asin", "acos", "atan")}
BIN_O = {k: "%s O" % k for k in ("add", "sub", "mul", "div", "rem")}
ULPS_DEFAULT = 0x5EED0004   # sentinel: <S as UlpsEq>::default_max_ulps() of the symbolic scalar

MAX_TERM = 400000           # characters of one lemma statement; larger functions are reported as too large


def qlit(s):
    n, d = (s.split("/") + ["1"])[:2]
    return "(mq (%s) %s)" % (n, d)


class Path:
    def __init__(self, p, conc=None):
        self.conc = conc or {}
        self.nodes = p["nodes"]
        self.conds = p["conds"]
        self.out = p["out"]
        self.uses = [0] * len(self.nodes)
        for n in self.nodes:
            for a in n[1:]:
                if isinstance(a, int) and n[0] not in ("in",):
                    self.uses[a] += 1
        for c in self.conds:
            for a in c["args"]:
                self.uses[a] += 1
        if self.out["t"] == "Q":
            for a in self.out["v"]:
                self.uses[a] += 1
        self.named = {}
        self.lets = []

    def leaf(self, i):
        n = self.nodes[i]
        k = n[0]
        if k == "in":
            if str(n[1]) in self.conc:
                return "(ofQ O %s)" % qlit(self.conc[str(n[1])])
            return "x%d" % n[1]
        if k == "const":
            if n[1] == "0":
                return "(zero O)"
            if n[1] == "1":
                return "(one O)"
            return "(ofQ O %s)" % qlit(n[1])
        if k == "cast":
            return "(ofQ O %s)" % qlit(n[1])
        if k == "eps":
            return "(default_epsilon A)"
        if k == "maxrel":
            return "(default_max_relative A)"
        return None

    def term(self, i):
        """name of node i (a let-bound name for shared compound nodes)"""
        if i in self.named:
            return self.named[i]
        l = self.leaf(i)
        if l is not None:
            self.named[i] = l
            return l
        n = self.nodes[i]
        k = n[0]
        if k in UN_O:
            t = "(%s %s)" % (UN_O[k], self.term(n[1]))
        elif k in UN_T:
            t = "(%s %s)" % (UN_T[k], self.term(n[1]))
        elif k in BIN_O:
            t = "(%s %s %s)" % (BIN_O[k], self.term(n[1]), self.term(n[2]))
        elif k == "atan2":
            t = "(atan2 T %s %s)" % (self.term(n[1]), self.term(n[2]))
        else:
            raise ValueError("node kind " + k)
        if self.uses[i] > 1:
            nm = "n%d" % i
            self.lets.append((nm, t))
            self.named[i] = nm
            return nm
        self.named[i] = t
        return t

    def cond(self, c):
        a = [self.term(i) for i in c["args"]]
        v = "true" if c["v"] else "false"
        op = c["op"]
        if op in ("eqb", "ltb", "leb"):
            return "%s O %s %s = %s" % (op, a[0], a[1], v)
        if op == "is_finite":
            return "is_finite A %s = %s" % (a[0], v)
        if op == "abs_diff_eq":
            return "abs_diff_eq A %s %s %s = %s" % (a[0], a[1], a[2], v)
        if op == "relative_eq":
            return "relative_eq A %s %s %s %s = %s" % (a[0], a[1], a[2], a[3], v)
        if op == "ulps_eq":
            u = "(default_max_ulps A)" if c["ulps"] == ULPS_DEFAULT else "%d%%N" % c["ulps"]
            return "ulps_eq A %s %s %s %s = %s" % (a[0], a[1], a[2], u, v)
        raise ValueError("cond " + op)

    def outlit(self):
        o = self.out
        if o["t"] == "Q":
            return "GQ [" + "; ".join(self.term(i) for i in o["v"]) + "]"
        if o["t"] == "None":
            return "GNone"
        if o["t"] == "Panic":
            return "GPanic"
        if o["t"] == "Bool":
            return "GBool %s" % ("true" if o["v"] else "false")
        raise ValueError(o["t"])


def lemma(fn, arity, k, path, table, conc=None):
    conc = conc or {}
    p = Path(path, conc)
    conds = [p.cond(c) for c in p.conds]
    out = p.outlit()
    free = [i for i in range(arity) if str(i) not in conc]
    xs = " ".join("x%d" % i for i in free)
    s = "Lemma sym_%s_%d : " % (re.sub(r"\W", "_", fn), k)
    if free:
        s += "forall %s : F,\n" % xs
    # inputs the code needed as concrete numbers (indices, selectors, counts): constants of the lemma; the dispatcher
    # reads them through toNat / toN, whose values on these constants are hypotheses (true of the Qc instance)
    seen = set()
    for i in sorted(conc, key=int):
        v = conc[i]
        if v in seen or "/" in v or v.startswith("-"):
            continue
        seen.add(v)
        s += "  toNat (ofQ O %s) = %d%%nat ->\n" % (qlit(v), min(int(v), 1000))
        s += "  toN (ofQ O %s) = %s%%N ->\n" % (qlit(v), v)
    for nm, t in p.lets:
        s += "  let %s := %s in\n" % (nm, t)
    for c in conds:
        s += "  %s ->\n" % c
    args = ["(ofQ O %s)" % qlit(conc[str(i)]) if str(i) in conc else "x%d" % i for i in range(arity)]
    s += "  grun %s \"%s\" [%s] = %s.\n" % (table, fn, "; ".join(args), out)
    s += "Proof. sym_tie Fth Hasym HQ O T A. Qed.\n"
    return s


def write_path_file(path, pid, d, k):
    """one lemma (path k of function d) in its own file, so that the paths of a function are proved in parallel"""
    mod, table = SYMTAB[pid]
    l = lemma(d["f"], d["arity"], k, d["paths"][k], table, d.get("conc"))
    if len(l) > MAX_TERM:
        return False
    with open(path, "w") as f:
        f.write("(* generated by symgen.py from the symbolic execution of the compiled cgmath code: function %s, path %d of %d *)\n"
                % (d["f"], k, len(d["paths"])))
        f.write("From Coq Require Import Ring Field ZArith QArith List Bool String.\n")
        f.write("From CG Require Import Scalar Exec.ExecQ Exec.Args %s Proofs.Alg Proofs.SymTac.\n" % mod)
        f.write("Import ListNotations.\nOpen Scope string_scope.\n")
        f.write("Section S.\nVariable F : Type.\nVariable O : Ops F.\nVariable T : Trig F.\nVariable A : Approx F.\n"
                "Variable toNat : F -> nat.\nVariable toN : F -> N.\n"
                "Hypothesis Fth : field_theory (zero O) (one O) (add O) (mul O) (sub O) (opp O) (div O) (inv O) eq.\nAdd Field FF : Fth.\n"
                "Hypothesis Hasym : LtAsym O.\nHypothesis HQ : OfQHom O.\n")
        f.write(l)
        f.write("End S.\n")
    return True


def compile_one(args):
    path, timeout = args
    t0 = time.time()
    try:
        p = subprocess.run("ulimit -v 14000000; timeout %d coqc -noglob -Q %s CG %s 2>&1" % (timeout, COQ, os.path.basename(path)),
                           cwd=os.path.dirname(path), shell=True, stdout=subprocess.PIPE, stderr=subprocess.STDOUT,
                           text=True, timeout=timeout + 30)
        return p.returncode, p.stdout[-1500:], time.time() - t0
    except subprocess.TimeoutExpired:
        return 124, "timeout", time.time() - t0


def run_sym_tie(pid, symfile, workdir, timeout=240, defer=(), workers=16):
    """returns dict(tied=[fn], paths=n, failed=[(fn, msg)], unsupported=[(fn, why)], deferred=[fn], wall);
    `defer`: regexes of functions whose lemmas are too heavy for this tier (they are listed, not attempted)"""
    t0 = time.time()
    os.makedirs(workdir, exist_ok=True)
    res = {"tied": [], "paths": 0, "failed": [], "unsupported": [], "deferred": [], "per_function_paths": {}}
    if SYMTAB[pid][0] is None:
        res["wall"] = 0.0
        return res
    jobs = []      # (record, path index, file)
    recs = []
    for line in open(symfile):
        d = json.loads(line)
        if d["unsupported"]:
            res["unsupported"].append((d["f"], d["unsupported"][:120]))
            continue
        if any(re.fullmatch(rx, d["f"]) for rx in defer):
            if d["f"] not in res["deferred"]:
                res["deferred"].append(d["f"])
            continue
        files = []
        try:
            for k in range(len(d["paths"])):
                sig = ("_c" + "_".join(re.sub(r"\W", "m", v)[:12] for _, v in sorted(d.get("conc", {}).items(), key=lambda kv: int(kv[0])))) if d.get("conc") else ""
                path = os.path.join(workdir, "Sym_%s_%s_%d%s_p%d.v" % (pid, re.sub(r"\W", "_", d["f"]), d["arity"], sig, k))
                if not write_path_file(path, pid, d, k):
                    files = None
                    break
                files.append(path)
        except ValueError as e:
            res["unsupported"].append((d["f"], "generator: %s" % e))
            continue
        if files is None:
            res["unsupported"].append((d["f"], "statement too large"))
            continue
        recs.append((d, files))
        for k, path in enumerate(files):
            jobs.append((d, k, path))
    with concurrent.futures.ThreadPoolExecutor(max_workers=workers) as ex:
        outs = list(ex.map(compile_one, [(p, timeout) for _, _, p in jobs]))
    bad = {}
    for (d, k, path), (rc, out, wall) in zip(jobs, outs):
        if rc != 0:
            bad.setdefault(id(d), []).append((k, rc, out, path))
    for d, files in recs:
        b = bad.get(id(d))
        if not b:
            if d["f"] not in res["tied"]:
                res["tied"].append(d["f"])
            res["paths"] += len(d["paths"])
            res["per_function_paths"][d["f"]] = res["per_function_paths"].get(d["f"], 0) + len(d["paths"])
        else:
            k, rc, out, path = b[0]
            res["failed"].append((d["f"], {"lemma": "sym_%s_%d" % (re.sub(r"\W", "_", d["f"]), k), "file": path, "paths": len(d["paths"]),
                                          "failed_paths": [x[0] for x in b], "rc": rc, "log": out[-600:]}))
    # a function that failed at one arity is not tied
    failed_names = {fn for fn, _ in res["failed"]}
    res["tied"] = [fn for fn in res["tied"] if fn not in failed_names]
    # one generated lemma, as written, for the evidence file
    for d, files in recs:
        if files and len(d["paths"]) > 1 and not bad.get(id(d)):
            try:
                txt = open(files[-1]).read()
                m = re.search(r"(Lemma .*?Qed\.)", txt, flags=re.S)
                if m and len(m.group(1)) < 3000:
                    res["sample_lemma"] = m.group(1)
                    break
            except OSError:
                pass
    res["wall"] = round(time.time() - t0, 1)
    return res


if __name__ == "__main__":
    pid, symfile, workdir = sys.argv[1:4]
    r = run_sym_tie(pid, symfile, workdir, timeout=int(os.environ.get("SYM_TIMEOUT", "240")))
    print("tied functions: %d (paths %d)  failed: %d  unsupported: %d  wall %.1fs" %
          (len(r["tied"]), r["paths"], len(r["failed"]), len(r["unsupported"]), r["wall"]))
    for fn, info in r["failed"]:
        print("FAILED", fn, info["lemma"], info["rc"], info["log"][-400:].replace("\n", " | "))
    for fn, why in r["unsupported"]:
        print("unsupported", fn, why)


# ---------------------------------------------------------------------------------------------------------------
# Search for a concrete failing input when a path lemma no longer proves: inputs that follow the path and inputs
# that sit exactly on (or just beside) each comparison of the path, obtained by solving the comparison for one
# input variable (the expressions are polynomial / rational in the inputs; only the linear case is solved, by
# interpolation — enough for determinants, dot products, bounds and thresholds).  The probes are then run through
# the ordinary correspondence (implementation at the exact scalar vs. the Coq model).
from fractions import Fraction
import random

ORACLE_KINDS = ("sqrt", "sin", "cos", "tan", "asin", "acos", "atan", "atan2")
EPS = Fraction(1, 2 ** 52)


class NotEvaluable(Exception):
    pass


def eval_nodes(nodes, xs):
    """exact values of all evaluable nodes (None where an oracle or a division by zero is involved)"""
    vals = []
    for n in nodes:
        k = n[0]
        try:
            if k == "in":
                v = xs[n[1]]
            elif k in ("const", "cast"):
                v = Fraction(n[1])
            elif k in ("eps", "maxrel"):
                v = EPS
            elif k == "opp":
                v = None if vals[n[1]] is None else -vals[n[1]]
            elif k == "inv":
                v = None if not vals[n[1]] else 1 / vals[n[1]]
            elif k in ("add", "sub", "mul", "div"):
                a, b = vals[n[1]], vals[n[2]]
                if a is None or b is None:
                    v = None
                elif k == "add":
                    v = a + b
                elif k == "sub":
                    v = a - b
                elif k == "mul":
                    v = a * b
                else:
                    v = None if b == 0 else a / b
            elif k == "rem":
                a, b = vals[n[1]], vals[n[2]]
                if a is None or not b:
                    v = None
                else:
                    q = a / b            # truncated remainder (fmod): a - b * trunc(a / b)
                    t = q.numerator // q.denominator if q >= 0 else -((-q.numerator) // q.denominator)
                    v = a - b * t
            else:
                v = None
        except (TypeError, ZeroDivisionError):
            v = None
        vals.append(v)
    return vals


def cond_holds(c, vals):
    """True/False when the recorded outcome is reproduced / contradicted, None when not evaluable"""
    a = [vals[i] for i in c["args"]]
    if any(v is None for v in a):
        return None
    op = c["op"]
    if op == "eqb":
        r = a[0] == a[1]
    elif op == "ltb":
        r = a[0] < a[1]
    elif op == "leb":
        r = a[0] <= a[1]
    elif op == "abs_diff_eq":
        r = abs(a[0] - a[1]) <= a[2]
    elif op == "ulps_eq":
        d = abs(a[0] - a[1])
        r = d <= a[2] or ((a[0] < 0) == (a[1] < 0) and d <= max(abs(a[0]), abs(a[1])) * 4 * EPS)
    elif op == "relative_eq":
        d = abs(a[0] - a[1])
        r = a[0] == a[1] or d <= a[2] or d <= max(abs(a[0]), abs(a[1])) * a[3]
    else:
        return None
    return r == c["v"]


def rnd_generic(rng, n):
    dens = [1, 2, 3, 4, 5, 7, 8]
    seen, out = set(), []
    while len(out) < n:
        q = Fraction(rng.randint(1, 12) * rng.choice((1, -1)), rng.choice(dens))
        if q not in seen:
            seen.add(q)
            out.append(q)
    return out


def solve_linear(nodes, arity, xs, a, b, target, k):
    """x_k such that node a - node b = target with the other inputs fixed, when a - b is affine in x_k"""
    def f(t):
        ys = list(xs)
        ys[k] = t
        v = eval_nodes(nodes, ys)
        if v[a] is None or v[b] is None:
            raise NotEvaluable()
        return v[a] - v[b]
    try:
        f0, f1, f2 = f(Fraction(0)), f(Fraction(1)), f(Fraction(2))
    except NotEvaluable:
        return None
    slope = f1 - f0
    if slope == 0 or f2 - f1 != slope:
        return None
    return (target - f0) / slope


def probe_inputs(d, seed=1, per_path=6, max_total=900):
    """concrete inputs for function record d (from sym.jsonl): on-path samples and boundary points"""
    rng = random.Random(seed)
    arity = d["arity"]
    probes, seen = [], set()
    t_start = time.time()
    budget = 20.0          # seconds of probe generation per explored function

    def push(xs, why):
        key = tuple(xs)
        if key not in seen and len(probes) < max_total:
            seen.add(key)
            probes.append({"f": d["f"], "in": [("%d/%d" % (x.numerator, x.denominator)) if x.denominator != 1 else str(x.numerator) for x in xs],
                           "why": why})
    if arity == 0:
        return probes
    conc = {int(k): Fraction(v) for k, v in d.get("conc", {}).items()}
    _rnd = rnd_generic

    def rnd_fixed(rng_, n):
        xs = _rnd(rng_, n)
        for k_, v_ in conc.items():
            xs[k_] = v_
        return xs
    for pi, p in enumerate(d["paths"]):
        if time.time() - t_start > budget:
            break
        nodes, conds = p["nodes"], p["conds"]
        # (A) rejection sampling of points on the path
        got = 0
        for _ in range(300):
            xs = rnd_fixed(rng, arity)
            vals = eval_nodes(nodes, xs)
            if all(cond_holds(c, vals) is not False for c in conds):
                push(xs, "path %d" % pi)
                got += 1
                if got >= per_path:
                    break
        # (C) sequential solving: walk the conditions in order and, whenever one is not met, solve it for one input
        #     that is still free (affine case) — this reaches paths guarded by several exact equalities
        for attempt in range(12):
            xs = rnd_fixed(rng, arity)
            fixed = set(conc)
            okpath = True
            for c in conds:
                vals = eval_nodes(nodes, xs)
                h = cond_holds(c, vals)
                if h is not False:
                    continue
                a_, b_ = c["args"][0], c["args"][1]
                want_true = c["v"]
                if c["op"] == "eqb":
                    targets = [Fraction(0)] if want_true else [Fraction(rng.randint(1, 5), rng.randint(1, 3))]
                elif c["op"] == "ltb":
                    targets = [Fraction(-rng.randint(1, 7), 3)] if want_true else [Fraction(0), Fraction(rng.randint(1, 7), 3)]
                elif c["op"] == "leb":
                    targets = [Fraction(0), Fraction(-rng.randint(1, 7), 3)] if want_true else [Fraction(rng.randint(1, 7), 3)]
                elif c["op"] in ("abs_diff_eq", "ulps_eq", "relative_eq"):
                    targets = [Fraction(0), EPS / 4] if want_true else [Fraction(rng.randint(1, 7), 3)]
                else:
                    okpath = False
                    break
                done = False
                order = [k_ for k_ in range(arity) if k_ not in fixed]
                rng.shuffle(order)
                for t in targets:
                    for k_ in order:
                        xk = solve_linear(nodes, arity, xs, a_, b_, t, k_)
                        if xk is None:
                            continue
                        ys = list(xs)
                        ys[k_] = xk
                        if cond_holds(c, eval_nodes(nodes, ys)) is True:
                            xs = ys
                            fixed.add(k_)
                            done = True
                            break
                    if done:
                        break
                if not done:
                    okpath = False
                    break
            if okpath:
                vals = eval_nodes(nodes, xs)
                if all(cond_holds(c, vals) is not False for c in conds):
                    push(xs, "path %d (conditions solved in sequence)" % pi)
        # (D) scale probes: a contiguous block of inputs (one vector / point / column argument) made very small, very large
        #     or zero, the rest generic — reaches tests of the form "is this derived vector negligible"
        if pi == 0 and arity <= 24:
            for size in (1, 2, 3, 4):
                for off in range(0, max(arity - size + 1, 0)):
                    for fct in (Fraction(1, 2 ** 30), Fraction(1, 2 ** 70), Fraction(2 ** 30), Fraction(0)):
                        xs = rnd_fixed(rng, arity)
                        if any((off + j) in conc for j in range(size)):
                            continue
                        for j in range(size):
                            xs[off + j] = xs[off + j] * fct
                        push(xs, "inputs %d..%d scaled by %s" % (off, off + size - 1, fct))
        # (B) boundary of each comparison, other comparisons of the path respected where possible
        for ci, c in enumerate(conds):
            if time.time() - t_start > budget:
                break
            if c["op"] not in ("eqb", "ltb", "leb", "abs_diff_eq", "ulps_eq", "relative_eq"):
                continue
            a, b = c["args"][0], c["args"][1]
            targets = [Fraction(0), Fraction(1, 2 ** 60), -Fraction(1, 2 ** 60), EPS / 2, -EPS / 2, 8 * EPS, -8 * EPS]
            for t in targets:
                found = False
                for attempt in range(40):
                    xs = rnd_fixed(rng, arity)
                    k = rng.randrange(arity)
                    if k in conc:
                        continue
                    xk = solve_linear(nodes, arity, xs, a, b, t, k)
                    if xk is None:
                        continue
                    xs[k] = xk
                    vals = eval_nodes(nodes, xs)
                    others = [cond_holds(cc, vals) for j, cc in enumerate(conds) if j < ci]
                    if all(o is not False for o in others):
                        push(xs, "path %d cond %d at %s" % (pi, ci, t))
                        found = True
                        break
                if not found and attempt == 39:
                    pass
    return probes
