(* Model/Layout.v — property C16: the memory image of a value is the list of its components in
   field order; every view (arrays, tuples, references, flat arrays, pointers, indices, ranges,
   mint types) is a lens on that list.  Also map/zip/extend/truncate/swap_elements and the
   swizzle generator of build.rs. *)

From Coq Require Import List Arith Bool.
From CG Require Import Scalar Model.Vector Model.Point Model.Matrix Model.Quaternion.
Import ListNotations.
Set Implicit Arguments.

Section Lists.
  Variable A : Type.
  (* rebuilding a value from its memory image (From<[S; n]>, From<(S, ..)>, transmuted references) *)
  Definition v1_of_list (l : list A) : option (V1 A) := match l with [a] => Some (mkV1 a) | _ => None end.
  Definition v2_of_list (l : list A) : option (V2 A) := match l with [a; b] => Some (mkV2 a b) | _ => None end.
  Definition v3_of_list (l : list A) : option (V3 A) := match l with [a; b; c] => Some (mkV3 a b c) | _ => None end.
  Definition v4_of_list (l : list A) : option (V4 A) := match l with [a; b; c; d] => Some (mkV4 a b c d) | _ => None end.
  Definition p1_of_list (l : list A) : option (P1 A) := match l with [a] => Some (mkP1 a) | _ => None end.
  Definition p2_of_list (l : list A) : option (P2 A) := match l with [a; b] => Some (mkP2 a b) | _ => None end.
  Definition p3_of_list (l : list A) : option (P3 A) := match l with [a; b; c] => Some (mkP3 a b c) | _ => None end.
  Definition m2_of_list (l : list A) : option (M2 A) :=
    match l with [a; b; c; d] => Some (m2_new a b c d) | _ => None end.
  Definition m3_of_list (l : list A) : option (M3 A) :=
    match l with [a0; a1; a2; b0; b1; b2; c0; c1; c2] => Some (m3_new a0 a1 a2 b0 b1 b2 c0 c1 c2) | _ => None end.
  Definition m4_of_list (l : list A) : option (M4 A) :=
    match l with [a0; a1; a2; a3; b0; b1; b2; b3; c0; c1; c2; c3; d0; d1; d2; d3] =>
                 Some (m4_new a0 a1 a2 a3 b0 b1 b2 b3 c0 c1 c2 c3 d0 d1 d2 d3) | _ => None end.
  (* quaternion: memory order x, y, z, s (fields v then s); From<[S;4]> reads [x, y, z, w] *)
  Definition quat_of_list (l : list A) : option (Quat A) :=
    match l with [x; y; z; w] => Some (quat_new w x y z) | _ => None end.

  (* Index<usize> / IndexMut: through the array view; None = panic *)
  Definition idx (l : list A) (i : nat) : option A := nth_error l i.
  Fixpoint set_nth (l : list A) (i : nat) (a : A) : option (list A) :=
    match l, i with
    | [], _ => None
    | _ :: t, 0 => Some (a :: t)
    | h :: t, S i' => match set_nth t i' a with Some t' => Some (h :: t') | None => None end
    end.
  (* Index<Range<usize>> etc.: slices of the array view; None = panic *)
  Definition slice (l : list A) (a b : nat) : option (list A) :=
    if (a <=? b) && (b <=? length l) then Some (firstn (b - a) (skipn a l)) else None.
  Definition slice_to (l : list A) (b : nat) := slice l 0 b.
  Definition slice_from (l : list A) (a : nat) := slice l a (length l).
  Definition slice_full (l : list A) := Some l.
  (* Array::swap_elements *)
  Definition swap_list (l : list A) (i j : nat) : option (list A) :=
    match idx l i, idx l j with
    | Some a, Some b => match set_nth l i b with Some l' => set_nth l' j a | None => None end
    | _, _ => None
    end.
  (* matrices: nested-array view [[S; n]; n] (column by column) *)
  Fixpoint chunks (n fuel : nat) (l : list A) : list (list A) :=
    match fuel with
    | 0 => []
    | S f => match l with [] => [] | _ => firstn n l :: chunks n f (skipn n l) end
    end.
End Lists.

(* ---------- the swizzle generator of build.rs ---------- *)
(* gen_swizzle_nth(variables, i, upto): component indices of the i-th accessor, None if i has a zero digit *)
Fixpoint swz_nth (nvars : nat) (upto : nat) (i : nat) : option (list nat) :=
  match upto with
  | 0 => Some []
  | S u =>
      if i =? 0 then Some []
      else let n := nvars + 1 in
           if i mod n =? 0 then None
           else match swz_nth nvars u (i / n) with
                | Some rest => Some ((i mod n - 1) :: rest)
                | None => None
                end
  end.
Fixpoint filter_some (A : Type) (l : list (option A)) : list A :=
  match l with [] => [] | Some a :: t => a :: filter_some t | None :: t => filter_some t end.
(* gen_swizzle_functions(variables, upto): for i in 1..(n+1)^upto *)
Definition gen_swizzle (nvars upto : nat) : list (list nat) :=
  filter_some (map (swz_nth nvars upto) (seq 1 ((nvars + 1) ^ upto - 1))).
(* textbook: all words of length 1..upto over nvars letters *)
Fixpoint words_len (nvars len : nat) : list (list nat) :=
  match len with
  | 0 => [[]]
  | S l => flat_map (fun w => map (fun c => c :: w) (seq 0 nvars)) (words_len nvars l)
  end.
Definition words (nvars upto : nat) : list (list nat) := flat_map (words_len nvars) (seq 1 upto).
(* what an accessor returns: the named components, in order *)
Definition swizzle_apply (A : Type) (d : A) (comps : list A) (w : list nat) : list A := map (fun i => nth i comps d) w.

(* list-of-lists helpers for the finite checks *)
Fixpoint list_nat_eqb (a b : list nat) : bool :=
  match a, b with [], [] => true | x :: a', y :: b' => (x =? y) && list_nat_eqb a' b' | _, _ => false end.
Definition mem_w (w : list nat) (l : list (list nat)) : bool := existsb (list_nat_eqb w) l.
Fixpoint nodup_w (l : list (list nat)) : bool :=
  match l with [] => true | w :: t => negb (mem_w w t) && nodup_w t end.
Definition same_words (a b : list (list nat)) : bool :=
  (length a =? length b) && nodup_w a && nodup_w b && forallb (fun w => mem_w w b) a && forallb (fun w => mem_w w a) b.
