(* Model/Vector.v — src/vector.rs: Vector1..Vector4 (impl_vector!, ElementWise,
   Array, Zero, InnerSpace::dot, cross, perp_dot, unit_*, extend/truncate).
   One definition per Rust function; `vN_zip f` is the macro pattern
   `$VectorN::new($(lhs.$field OP rhs.$field),+)`, `vN_map f` the pattern
   `$VectorN::new($(OP self.$field),+)`. *)

From Coq Require Import List.
From CG Require Import Scalar.
Import ListNotations.
Set Implicit Arguments.

(* textbook list zip, used on the specification side of the theorems *)
Fixpoint lzip (A B C : Type) (f : A -> B -> C) (l1 : list A) (l2 : list B) : list C :=
  match l1, l2 with
  | a :: l1', b :: l2' => f a b :: lzip f l1' l2'
  | _, _ => []
  end.

Record V1 (F : Type) := mkV1 { v1x : F }.
Record V2 (F : Type) := mkV2 { v2x : F; v2y : F }.
Record V3 (F : Type) := mkV3 { v3x : F; v3y : F; v3z : F }.
Record V4 (F : Type) := mkV4 { v4x : F; v4y : F; v4z : F; v4w : F }.

Section Generic.
  Variables A B C : Type.
  Definition v1_map (f : A -> B) (v : V1 A) : V1 B := mkV1 (f (v1x v)).
  Definition v2_map (f : A -> B) (v : V2 A) : V2 B := mkV2 (f (v2x v)) (f (v2y v)).
  Definition v3_map (f : A -> B) (v : V3 A) : V3 B := mkV3 (f (v3x v)) (f (v3y v)) (f (v3z v)).
  Definition v4_map (f : A -> B) (v : V4 A) : V4 B :=
    mkV4 (f (v4x v)) (f (v4y v)) (f (v4z v)) (f (v4w v)).
  Definition v1_zip (f : A -> B -> C) (a : V1 A) (b : V1 B) : V1 C := mkV1 (f (v1x a) (v1x b)).
  Definition v2_zip (f : A -> B -> C) (a : V2 A) (b : V2 B) : V2 C :=
    mkV2 (f (v2x a) (v2x b)) (f (v2y a) (v2y b)).
  Definition v3_zip (f : A -> B -> C) (a : V3 A) (b : V3 B) : V3 C :=
    mkV3 (f (v3x a) (v3x b)) (f (v3y a) (v3y b)) (f (v3z a) (v3z b)).
  Definition v4_zip (f : A -> B -> C) (a : V4 A) (b : V4 B) : V4 C :=
    mkV4 (f (v4x a) (v4x b)) (f (v4y a) (v4y b)) (f (v4z a) (v4z b)) (f (v4w a) (v4w b)).
  (* Array::from_value *)
  Definition v1_from_value (s : A) : V1 A := mkV1 s.
  Definition v2_from_value (s : A) : V2 A := mkV2 s s.
  Definition v3_from_value (s : A) : V3 A := mkV3 s s s.
  Definition v4_from_value (s : A) : V4 A := mkV4 s s s s.
  (* memory order of the fields (repr(C)) *)
  Definition v1_list (v : V1 A) : list A := [v1x v].
  Definition v2_list (v : V2 A) : list A := [v2x v; v2y v].
  Definition v3_list (v : V3 A) : list A := [v3x v; v3y v; v3z v].
  Definition v4_list (v : V4 A) : list A := [v4x v; v4y v; v4z v; v4w v].
  (* extend / truncate / truncate_n *)
  Definition v2_extend (v : V2 A) (z : A) : V3 A := mkV3 (v2x v) (v2y v) z.
  Definition v3_extend (v : V3 A) (w : A) : V4 A := mkV4 (v3x v) (v3y v) (v3z v) w.
  Definition v3_truncate (v : V3 A) : V2 A := mkV2 (v3x v) (v3y v).
  Definition v4_truncate (v : V4 A) : V3 A := mkV3 (v4x v) (v4y v) (v4z v).
  (* truncate_n(&self, n: isize): panics for n outside 0..=3 *)
  Definition v4_truncate_n (v : V4 A) (n : nat) : option (V3 A) :=
    match n with
    | 0 => Some (mkV3 (v4y v) (v4z v) (v4w v))
    | 1 => Some (mkV3 (v4x v) (v4z v) (v4w v))
    | 2 => Some (mkV3 (v4x v) (v4y v) (v4w v))
    | 3 => Some (mkV3 (v4x v) (v4y v) (v4z v))
    | _ => None
    end.
End Generic.

Section Vec.
  Variable F : Type.
  Variable O : Ops F.
  Local Notation "0" := (zero O).
  Local Notation "1" := (one O).
  Local Infix "+" := (add O).
  Local Infix "-" := (sub O).
  Local Infix "*" := (mul O).
  Local Infix "/" := (div O).
  Local Notation "x %% y" := (rem O x y) (at level 40, left associativity).
  Local Notation "- x" := (opp O x).

  (* ---- Add / Sub / Neg / Mul<S> / Div<S> / Rem<S> ---- *)
  Definition v1_add := v1_zip (add O).  Definition v2_add := v2_zip (add O).
  Definition v3_add := v3_zip (add O).  Definition v4_add := v4_zip (add O).
  Definition v1_sub := v1_zip (sub O).  Definition v2_sub := v2_zip (sub O).
  Definition v3_sub := v3_zip (sub O).  Definition v4_sub := v4_zip (sub O).
  Definition v1_neg := v1_map (opp O).  Definition v2_neg := v2_map (opp O).
  Definition v3_neg := v3_map (opp O).  Definition v4_neg := v4_map (opp O).
  Definition v1_mul_s (v : V1 F) (s : F) := v1_map (fun c => c * s) v.
  Definition v2_mul_s (v : V2 F) (s : F) := v2_map (fun c => c * s) v.
  Definition v3_mul_s (v : V3 F) (s : F) := v3_map (fun c => c * s) v.
  Definition v4_mul_s (v : V4 F) (s : F) := v4_map (fun c => c * s) v.
  Definition v1_div_s (v : V1 F) (s : F) := v1_map (fun c => c / s) v.
  Definition v2_div_s (v : V2 F) (s : F) := v2_map (fun c => c / s) v.
  Definition v3_div_s (v : V3 F) (s : F) := v3_map (fun c => c / s) v.
  Definition v4_div_s (v : V4 F) (s : F) := v4_map (fun c => c / s) v.
  Definition v1_rem_s (v : V1 F) (s : F) := v1_map (fun c => c %% s) v.
  Definition v2_rem_s (v : V2 F) (s : F) := v2_map (fun c => c %% s) v.
  Definition v3_rem_s (v : V3 F) (s : F) := v3_map (fun c => c %% s) v.
  Definition v4_rem_s (v : V4 F) (s : F) := v4_map (fun c => c %% s) v.

  (* ---- ElementWise (vector rhs) ---- *)
  Definition v1_add_ew := v1_zip (add O).  Definition v2_add_ew := v2_zip (add O).
  Definition v3_add_ew := v3_zip (add O).  Definition v4_add_ew := v4_zip (add O).
  Definition v1_sub_ew := v1_zip (sub O).  Definition v2_sub_ew := v2_zip (sub O).
  Definition v3_sub_ew := v3_zip (sub O).  Definition v4_sub_ew := v4_zip (sub O).
  Definition v1_mul_ew := v1_zip (mul O).  Definition v2_mul_ew := v2_zip (mul O).
  Definition v3_mul_ew := v3_zip (mul O).  Definition v4_mul_ew := v4_zip (mul O).
  Definition v1_div_ew := v1_zip (div O).  Definition v2_div_ew := v2_zip (div O).
  Definition v3_div_ew := v3_zip (div O).  Definition v4_div_ew := v4_zip (div O).
  Definition v1_rem_ew := v1_zip (rem O).  Definition v2_rem_ew := v2_zip (rem O).
  Definition v3_rem_ew := v3_zip (rem O).  Definition v4_rem_ew := v4_zip (rem O).
  (* ---- ElementWise<S> (scalar rhs) ---- *)
  Definition v1_add_ews (v : V1 F) (s : F) := v1_map (fun c => c + s) v.
  Definition v2_add_ews (v : V2 F) (s : F) := v2_map (fun c => c + s) v.
  Definition v3_add_ews (v : V3 F) (s : F) := v3_map (fun c => c + s) v.
  Definition v4_add_ews (v : V4 F) (s : F) := v4_map (fun c => c + s) v.
  Definition v1_sub_ews (v : V1 F) (s : F) := v1_map (fun c => c - s) v.
  Definition v2_sub_ews (v : V2 F) (s : F) := v2_map (fun c => c - s) v.
  Definition v3_sub_ews (v : V3 F) (s : F) := v3_map (fun c => c - s) v.
  Definition v4_sub_ews (v : V4 F) (s : F) := v4_map (fun c => c - s) v.
  Definition v1_mul_ews := v1_mul_s.  Definition v2_mul_ews := v2_mul_s.
  Definition v3_mul_ews := v3_mul_s.  Definition v4_mul_ews := v4_mul_s.
  Definition v1_div_ews := v1_div_s.  Definition v2_div_ews := v2_div_s.
  Definition v3_div_ews := v3_div_s.  Definition v4_div_ews := v4_div_s.
  Definition v1_rem_ews := v1_rem_s.  Definition v2_rem_ews := v2_rem_s.
  Definition v3_rem_ews := v3_rem_s.  Definition v4_rem_ews := v4_rem_s.

  (* ---- Array::sum / product: fold_array! is right-nested: x.add(y.add(z.add(w))) ---- *)
  Definition v1_sum (v : V1 F) : F := v1x v.
  Definition v2_sum (v : V2 F) : F := v2x v + v2y v.
  Definition v3_sum (v : V3 F) : F := v3x v + (v3y v + v3z v).
  Definition v4_sum (v : V4 F) : F := v4x v + (v4y v + (v4z v + v4w v)).
  Definition v1_product (v : V1 F) : F := v1x v.
  Definition v2_product (v : V2 F) : F := v2x v * v2y v.
  Definition v3_product (v : V3 F) : F := v3x v * (v3y v * v3z v).
  Definition v4_product (v : V4 F) : F := v4x v * (v4y v * (v4z v * v4w v)).

  (* ---- Zero ---- *)
  Definition v1_zero : V1 F := v1_from_value 0.  Definition v2_zero : V2 F := v2_from_value 0.
  Definition v3_zero : V3 F := v3_from_value 0.  Definition v4_zero : V4 F := v4_from_value 0.

  (* ---- InnerSpace::dot = mul_element_wise(self, other).sum(); magnitude2 = dot(self,self) ---- *)
  Definition v1_dot (a b : V1 F) : F := v1_sum (v1_mul_ew a b).
  Definition v2_dot (a b : V2 F) : F := v2_sum (v2_mul_ew a b).
  Definition v3_dot (a b : V3 F) : F := v3_sum (v3_mul_ew a b).
  Definition v4_dot (a b : V4 F) : F := v4_sum (v4_mul_ew a b).
  Definition v1_magnitude2 (a : V1 F) : F := v1_dot a a.
  Definition v2_magnitude2 (a : V2 F) : F := v2_dot a a.
  Definition v3_magnitude2 (a : V3 F) : F := v3_dot a a.
  Definition v4_magnitude2 (a : V4 F) : F := v4_dot a a.

  (* ---- unit vectors ---- *)
  Definition v1_unit_x : V1 F := mkV1 1.
  Definition v2_unit_x : V2 F := mkV2 1 0.  Definition v2_unit_y : V2 F := mkV2 0 1.
  Definition v3_unit_x : V3 F := mkV3 1 0 0.  Definition v3_unit_y : V3 F := mkV3 0 1 0.
  Definition v3_unit_z : V3 F := mkV3 0 0 1.
  Definition v4_unit_x : V4 F := mkV4 1 0 0 0.  Definition v4_unit_y : V4 F := mkV4 0 1 0 0.
  Definition v4_unit_z : V4 F := mkV4 0 0 1 0.  Definition v4_unit_w : V4 F := mkV4 0 0 0 1.

  (* ---- Vector2::perp_dot, Vector3::cross ---- *)
  Definition v2_perp_dot (a b : V2 F) : F := (v2x a * v2y b) - (v2y a * v2x b).
  Definition v3_cross (a b : V3 F) : V3 F :=
    mkV3 ((v3y a * v3z b) - (v3z a * v3y b))
         ((v3z a * v3x b) - (v3x a * v3z b))
         ((v3x a * v3y b) - (v3y a * v3x b)).

  (* ---- MetricSpace::distance2(self, other) = (other - self).magnitude2() ---- *)
  Definition v1_distance2 (a b : V1 F) : F := v1_magnitude2 (v1_sub b a).
  Definition v2_distance2 (a b : V2 F) : F := v2_magnitude2 (v2_sub b a).
  Definition v3_distance2 (a b : V3 F) : F := v3_magnitude2 (v3_sub b a).
  Definition v4_distance2 (a b : V4 F) : F := v4_magnitude2 (v4_sub b a).

  (* ---- VectorSpace::lerp(self, other, amount) = self + ((other - self) * amount) ---- *)
  Definition v1_lerp (a b : V1 F) (t : F) := v1_add a (v1_mul_s (v1_sub b a) t).
  Definition v2_lerp (a b : V2 F) (t : F) := v2_add a (v2_mul_s (v2_sub b a) t).
  Definition v3_lerp (a b : V3 F) (t : F) := v3_add a (v3_mul_s (v3_sub b a) t).
  Definition v4_lerp (a b : V4 F) (t : F) := v4_add a (v4_mul_s (v4_sub b a) t).

  (* ---- InnerSpace::project_on(self, other) = other * (self.dot(other) / other.magnitude2()) ---- *)
  Definition v1_project_on (a b : V1 F) := v1_mul_s b (v1_dot a b / v1_magnitude2 b).
  Definition v2_project_on (a b : V2 F) := v2_mul_s b (v2_dot a b / v2_magnitude2 b).
  Definition v3_project_on (a b : V3 F) := v3_mul_s b (v3_dot a b / v3_magnitude2 b).
  Definition v4_project_on (a b : V4 F) := v4_mul_s b (v4_dot a b / v4_magnitude2 b).

  (* ---- scalar on the left (impl_scalar_ops!): s * v, s / v, s % v ---- *)
  Definition v1_smul (s : F) (v : V1 F) := v1_map (fun c => s * c) v.
  Definition v2_smul (s : F) (v : V2 F) := v2_map (fun c => s * c) v.
  Definition v3_smul (s : F) (v : V3 F) := v3_map (fun c => s * c) v.
  Definition v4_smul (s : F) (v : V4 F) := v4_map (fun c => s * c) v.
  Definition v1_sdiv (s : F) (v : V1 F) := v1_map (fun c => s / c) v.
  Definition v2_sdiv (s : F) (v : V2 F) := v2_map (fun c => s / c) v.
  Definition v3_sdiv (s : F) (v : V3 F) := v3_map (fun c => s / c) v.
  Definition v4_sdiv (s : F) (v : V4 F) := v4_map (fun c => s / c) v.
  Definition v1_srem (s : F) (v : V1 F) := v1_map (fun c => s %% c) v.
  Definition v2_srem (s : F) (v : V2 F) := v2_map (fun c => s %% c) v.
  Definition v3_srem (s : F) (v : V3 F) := v3_map (fun c => s %% c) v.
  Definition v4_srem (s : F) (v : V4 F) := v4_map (fun c => s %% c) v.

  (* ---- compound-assignment forms: separately written bodies `$(self.$field OP= rhs.$field);+`
     (impl_assignment_operator!, *_assign_element_wise); each updates every field in turn ---- *)
  Definition v1_add_assign (a b : V1 F) : V1 F := v1_zip (add O) a b.
  Definition v1_sub_assign (a b : V1 F) : V1 F := v1_zip (sub O) a b.
  Definition v1_mul_assign (a : V1 F) (s : F) : V1 F := v1_map (fun c => mul O c s) a.
  Definition v1_div_assign (a : V1 F) (s : F) : V1 F := v1_map (fun c => div O c s) a.
  Definition v1_rem_assign (a : V1 F) (s : F) : V1 F := v1_map (fun c => rem O c s) a.
  Definition v1_add_assign_ew (a b : V1 F) : V1 F := v1_zip (add O) a b.
  Definition v1_add_assign_ews (a : V1 F) (s : F) : V1 F := v1_map (fun c => add O c s) a.
  Definition v1_sub_assign_ew (a b : V1 F) : V1 F := v1_zip (sub O) a b.
  Definition v1_sub_assign_ews (a : V1 F) (s : F) : V1 F := v1_map (fun c => sub O c s) a.
  Definition v1_mul_assign_ew (a b : V1 F) : V1 F := v1_zip (mul O) a b.
  Definition v1_mul_assign_ews (a : V1 F) (s : F) : V1 F := v1_map (fun c => mul O c s) a.
  Definition v1_div_assign_ew (a b : V1 F) : V1 F := v1_zip (div O) a b.
  Definition v1_div_assign_ews (a : V1 F) (s : F) : V1 F := v1_map (fun c => div O c s) a.
  Definition v1_rem_assign_ew (a b : V1 F) : V1 F := v1_zip (rem O) a b.
  Definition v1_rem_assign_ews (a : V1 F) (s : F) : V1 F := v1_map (fun c => rem O c s) a.
  Definition v2_add_assign (a b : V2 F) : V2 F := v2_zip (add O) a b.
  Definition v2_sub_assign (a b : V2 F) : V2 F := v2_zip (sub O) a b.
  Definition v2_mul_assign (a : V2 F) (s : F) : V2 F := v2_map (fun c => mul O c s) a.
  Definition v2_div_assign (a : V2 F) (s : F) : V2 F := v2_map (fun c => div O c s) a.
  Definition v2_rem_assign (a : V2 F) (s : F) : V2 F := v2_map (fun c => rem O c s) a.
  Definition v2_add_assign_ew (a b : V2 F) : V2 F := v2_zip (add O) a b.
  Definition v2_add_assign_ews (a : V2 F) (s : F) : V2 F := v2_map (fun c => add O c s) a.
  Definition v2_sub_assign_ew (a b : V2 F) : V2 F := v2_zip (sub O) a b.
  Definition v2_sub_assign_ews (a : V2 F) (s : F) : V2 F := v2_map (fun c => sub O c s) a.
  Definition v2_mul_assign_ew (a b : V2 F) : V2 F := v2_zip (mul O) a b.
  Definition v2_mul_assign_ews (a : V2 F) (s : F) : V2 F := v2_map (fun c => mul O c s) a.
  Definition v2_div_assign_ew (a b : V2 F) : V2 F := v2_zip (div O) a b.
  Definition v2_div_assign_ews (a : V2 F) (s : F) : V2 F := v2_map (fun c => div O c s) a.
  Definition v2_rem_assign_ew (a b : V2 F) : V2 F := v2_zip (rem O) a b.
  Definition v2_rem_assign_ews (a : V2 F) (s : F) : V2 F := v2_map (fun c => rem O c s) a.
  Definition v3_add_assign (a b : V3 F) : V3 F := v3_zip (add O) a b.
  Definition v3_sub_assign (a b : V3 F) : V3 F := v3_zip (sub O) a b.
  Definition v3_mul_assign (a : V3 F) (s : F) : V3 F := v3_map (fun c => mul O c s) a.
  Definition v3_div_assign (a : V3 F) (s : F) : V3 F := v3_map (fun c => div O c s) a.
  Definition v3_rem_assign (a : V3 F) (s : F) : V3 F := v3_map (fun c => rem O c s) a.
  Definition v3_add_assign_ew (a b : V3 F) : V3 F := v3_zip (add O) a b.
  Definition v3_add_assign_ews (a : V3 F) (s : F) : V3 F := v3_map (fun c => add O c s) a.
  Definition v3_sub_assign_ew (a b : V3 F) : V3 F := v3_zip (sub O) a b.
  Definition v3_sub_assign_ews (a : V3 F) (s : F) : V3 F := v3_map (fun c => sub O c s) a.
  Definition v3_mul_assign_ew (a b : V3 F) : V3 F := v3_zip (mul O) a b.
  Definition v3_mul_assign_ews (a : V3 F) (s : F) : V3 F := v3_map (fun c => mul O c s) a.
  Definition v3_div_assign_ew (a b : V3 F) : V3 F := v3_zip (div O) a b.
  Definition v3_div_assign_ews (a : V3 F) (s : F) : V3 F := v3_map (fun c => div O c s) a.
  Definition v3_rem_assign_ew (a b : V3 F) : V3 F := v3_zip (rem O) a b.
  Definition v3_rem_assign_ews (a : V3 F) (s : F) : V3 F := v3_map (fun c => rem O c s) a.
  Definition v4_add_assign (a b : V4 F) : V4 F := v4_zip (add O) a b.
  Definition v4_sub_assign (a b : V4 F) : V4 F := v4_zip (sub O) a b.
  Definition v4_mul_assign (a : V4 F) (s : F) : V4 F := v4_map (fun c => mul O c s) a.
  Definition v4_div_assign (a : V4 F) (s : F) : V4 F := v4_map (fun c => div O c s) a.
  Definition v4_rem_assign (a : V4 F) (s : F) : V4 F := v4_map (fun c => rem O c s) a.
  Definition v4_add_assign_ew (a b : V4 F) : V4 F := v4_zip (add O) a b.
  Definition v4_add_assign_ews (a : V4 F) (s : F) : V4 F := v4_map (fun c => add O c s) a.
  Definition v4_sub_assign_ew (a b : V4 F) : V4 F := v4_zip (sub O) a b.
  Definition v4_sub_assign_ews (a : V4 F) (s : F) : V4 F := v4_map (fun c => sub O c s) a.
  Definition v4_mul_assign_ew (a b : V4 F) : V4 F := v4_zip (mul O) a b.
  Definition v4_mul_assign_ews (a : V4 F) (s : F) : V4 F := v4_map (fun c => mul O c s) a.
  Definition v4_div_assign_ew (a b : V4 F) : V4 F := v4_zip (div O) a b.
  Definition v4_div_assign_ews (a : V4 F) (s : F) : V4 F := v4_map (fun c => div O c s) a.
  Definition v4_rem_assign_ew (a b : V4 F) : V4 F := v4_zip (rem O) a b.
  Definition v4_rem_assign_ews (a : V4 F) (s : F) : V4 F := v4_map (fun c => rem O c s) a.
End Vec.
