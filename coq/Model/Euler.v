(* Model/Euler.v — src/euler.rs and the From<Euler> impls of matrix.rs / quaternion.rs / rotation.rs.
   Euler{x,y,z} carries angles in a unit U; extraction returns radians. *)

From Coq Require Import List ZArith.
From CG Require Import Scalar Model.Vector Model.Point Model.Matrix Model.Angle Model.Quaternion Model.Rotation.
Import ListNotations.
Set Implicit Arguments.

Record Euler (F : Type) := mkEuler { ex : F; ey : F; ez : F }.

Section E.
  Variable F : Type.
  Variable O : Ops F.
  Variable T : Trig F.
  Variable U : Unit F.
  Local Notation "0" := (zero O).
  Local Notation "1" := (one O).
  Local Infix "+" := (add O).
  Local Infix "-" := (sub O).
  Local Infix "*" := (mul O).
  Local Notation "- x" := (opp O x).

  Definition euler_list (e : Euler F) : list F := [ex e; ey e; ez e].

  (* From<Euler<A>> for Matrix3 / Matrix4 *)
  Definition m3_of_euler (e : Euler F) : M3 F :=
    let sx := sin T (to_rad U (ex e)) in let cx := cos T (to_rad U (ex e)) in
    let sy := sin T (to_rad U (ey e)) in let cy := cos T (to_rad U (ey e)) in
    let sz := sin T (to_rad U (ez e)) in let cz := cos T (to_rad U (ez e)) in
    m3_new (cy * cz) (cx * sz + sx * sy * cz) (sx * sz - cx * sy * cz)
           (- cy * sz) (cx * cz - sx * sy * sz) (sx * cz + cx * sy * sz)
           sy (- sx * cy) (cx * cy).
  Definition m4_of_euler (e : Euler F) : M4 F :=
    let sx := sin T (to_rad U (ex e)) in let cx := cos T (to_rad U (ex e)) in
    let sy := sin T (to_rad U (ey e)) in let cy := cos T (to_rad U (ey e)) in
    let sz := sin T (to_rad U (ez e)) in let cz := cos T (to_rad U (ez e)) in
    m4_new (cy * cz) (cx * sz + sx * sy * cz) (sx * sz - cx * sy * cz) 0
           (- cy * sz) (cx * cz - sx * sy * sz) (sx * cz + cx * sy * sz) 0
           sy (- sx * cy) (cx * cy) 0
           0 0 0 1.
  Definition basis3_of_euler := m3_of_euler.
  (* From<Euler<A>> for Quaternion: half angles *)
  Definition quat_of_euler (e : Euler F) : Quat F :=
    let half := ofQ O q_half in
    let sx := sin T (to_rad U (ex e) * half) in let cx := cos T (to_rad U (ex e) * half) in
    let sy := sin T (to_rad U (ey e) * half) in let cy := cos T (to_rad U (ey e) * half) in
    let sz := sin T (to_rad U (ez e) * half) in let cz := cos T (to_rad U (ez e) * half) in
    quat_new (- sx * sy * sz + cx * cy * cz)
             (sx * cy * cz + sy * sz * cx)
             (- sx * sz * cy + sy * cx * cz)
             (sx * sy * cz + sz * cx * cy).

  (* From<Quaternion> for Euler<Rad>: gimbal-lock branches at |test| > 0.499 * unit *)
  Definition euler_of_quat (q : Quat F) : Euler F :=
    let sig := ofQ O q_0499 in
    let two := nat_c O 2%Z in
    let one' := nat_c O 1%Z in
    let qw := qs q in let qx := v3x (qv q) in let qy := v3y (qv q) in let qz := v3z (qv q) in
    let sqw := qw * qw in let sqx := qx * qx in let sqy := qy * qy in let sqz := qz * qz in
    let unit := sqx + sqz + sqy + sqw in
    let test := qx * qz + qy * qw in
    if ltb O (sig * unit) test then
      mkEuler 0 (turn_div_4 O (URad O)) (atan2 T qx qw * two)
    else if ltb O test (- sig * unit) then
      mkEuler 0 (- turn_div_4 O (URad O)) (- atan2 T qx qw * two)
    else
      mkEuler (atan2 T (two * (- qy * qz + qx * qw)) (one' - two * (sqx + sqy)))
              (asin T (two * (qx * qz + qy * qw)))
              (atan2 T (two * (- qx * qy + qz * qw)) (one' - two * (sqy + sqz))).
End E.
