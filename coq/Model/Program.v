(* Model/Program.v — property C17: a small typed register language over cgmath values in which every
   operator can be written in each of its spellings (by value, &a op b, a op &b, &a op &b, op=,
   scalar on the left), with two semantics: `run_forms` dispatches on the spelling to the separately
   written body of that spelling; `run_ref` ignores the spelling.
   Registers: scalars, Vector3, Point3, Matrix3, Quaternion (the other dimensions have the same shape). *)

From Coq Require Import List.
From CG Require Import Scalar Model.Vector Model.Point Model.Matrix Model.Angle Model.Quaternion.
Import ListNotations.
Set Implicit Arguments.

(* the spelling of an operator application *)
Inductive form := ByVal | RefL | RefR | RefLR | AssignOp.
Inductive vop := OAdd | OSub.                 (* compound (+) compound *)
Inductive sop := OMul | ODiv | ORem.          (* compound (op) scalar, scalar (op) compound *)

Inductive instr :=
| IVV (o : vop) (f : form) (d a b : nat)      (* v[d] := v[a] o v[b]          (AssignOp: v[a] o= v[b], d = a) *)
| IVS (o : sop) (f : form) (d a s : nat)      (* v[d] := v[a] o s[s] *)
| ISV (o : sop) (f : form) (d s a : nat)      (* v[d] := s[s] o v[a]          (scalar on the left) *)
| IVNeg (f : form) (d a : nat)                (* v[d] := - v[a] *)
| IPV (o : vop) (f : form) (d a b : nat)      (* p[d] := p[a] o v[b] *)
| IPP (f : form) (d a b : nat)                (* v[d] := p[a] - p[b] *)
| IPS (o : sop) (f : form) (d a s : nat)      (* p[d] := p[a] o s[s] *)
| IMM (o : vop) (f : form) (d a b : nat)      (* m[d] := m[a] o m[b] *)
| IMMul (f : form) (d a b : nat)              (* m[d] := m[a] * m[b] *)
| IMV (f : form) (d a b : nat)                (* v[d] := m[a] * v[b] *)
| IMS (o : sop) (f : form) (d a s : nat)      (* m[d] := m[a] o s[s] *)
| IMNeg (f : form) (d a : nat)
| IQQ (o : vop) (f : form) (d a b : nat)      (* q[d] := q[a] o q[b] *)
| IQMul (f : form) (d a b : nat)              (* q[d] := q[a] * q[b] *)
| IQV (f : form) (d a b : nat)                (* v[d] := q[a] * v[b] *)
| IQS (o : sop) (f : form) (d a s : nat)      (* q[d] := q[a] o s[s] *)
| IQNeg (f : form) (d a : nat)
| IVSum (d : nat) (srcs : list nat)           (* v[d] := srcs.iter().sum()  (values or references) *)
| IQSum (d : nat) (srcs : list nat)
| IMSum (d : nat) (srcs : list nat)
| IMProd (d : nat) (srcs : list nat)          (* m[d] := srcs.iter().product() *)
| IQProd (d : nat) (srcs : list nat).

Section Sem.
  Variable F : Type.
  Variable O : Ops F.

  Record env := mkEnv { es : list F; ev : list (V3 F); ep : list (P3 F); em : list (M3 F); eq_ : list (Quat F) }.

  Fixpoint upd (A : Type) (l : list A) (i : nat) (x : A) : list A :=
    match l, i with
    | [], _ => []
    | _ :: t, 0 => x :: t
    | h :: t, S i' => h :: upd t i' x
    end.
  Definition gs e i := nth i (es e) (zero O).
  Definition gv e i := nth i (ev e) (v3_zero O).
  Definition gp e i := nth i (ep e) (p3_origin O).
  Definition gm e i := nth i (em e) (m3_zero O).
  Definition gq e i := nth i (eq_ e) (quat_zero O).
  Definition sv e i x := mkEnv (es e) (upd (ev e) i x) (ep e) (em e) (eq_ e).
  Definition sp e i x := mkEnv (es e) (ev e) (upd (ep e) i x) (em e) (eq_ e).
  Definition sm e i x := mkEnv (es e) (ev e) (ep e) (upd (em e) i x) (eq_ e).
  Definition sq e i x := mkEnv (es e) (ev e) (ep e) (em e) (upd (eq_ e) i x).

  (* ---- the separately written compound-assignment bodies of the other types (same shape as vectors) ---- *)
  Definition p3_add_assign_v := p3_zipv (add O).   Definition p3_sub_assign_v := p3_zipv (sub O).
  Definition p3_mul_assign (p : P3 F) (s : F) := p3_map (fun c => mul O c s) p.
  Definition p3_div_assign (p : P3 F) (s : F) := p3_map (fun c => div O c s) p.
  Definition p3_rem_assign (p : P3 F) (s : F) := p3_map (fun c => rem O c s) p.
  Definition m3_add_assign := m3_zipc (v3_add_assign O).   Definition m3_sub_assign := m3_zipc (v3_sub_assign O).
  Definition m3_mul_assign (m : M3 F) (s : F) := m3_mapc (fun c => v3_mul_assign O c s) m.
  Definition m3_div_assign (m : M3 F) (s : F) := m3_mapc (fun c => v3_div_assign O c s) m.
  Definition m3_rem_assign (m : M3 F) (s : F) := m3_mapc (fun c => v3_rem_assign O c s) m.
  Definition quat_add_assign (a b : Quat F) := quat_from_sv (add O (qs a) (qs b)) (v3_add_assign O (qv a) (qv b)).
  Definition quat_sub_assign (a b : Quat F) := quat_from_sv (sub O (qs a) (qs b)) (v3_sub_assign O (qv a) (qv b)).
  Definition quat_mul_assign (a : Quat F) (s : F) := quat_from_sv (mul O (qs a) s) (v3_mul_assign O (qv a) s).
  Definition quat_div_assign (a : Quat F) (s : F) := quat_from_sv (div O (qs a) s) (v3_div_assign O (qv a) s).
  Definition quat_rem_assign (a : Quat F) (s : F) := quat_from_sv (rem O (qs a) s) (v3_rem_assign O (qv a) s).

  (* value-form bodies *)
  Definition vv o := match o with OAdd => v3_add O | OSub => v3_sub O end.
  Definition vs o := match o with OMul => v3_mul_s O | ODiv => v3_div_s O | ORem => v3_rem_s O end.
  Definition sv' o := match o with OMul => v3_smul O | ODiv => v3_sdiv O | ORem => v3_srem O end.
  Definition pv o := match o with OAdd => p3_add_v O | OSub => p3_sub_v O end.
  Definition ps o := match o with OMul => p3_mul_s O | ODiv => p3_div_s O | ORem => p3_rem_s O end.
  Definition mm o := match o with OAdd => m3_add O | OSub => m3_sub O end.
  Definition ms o := match o with OMul => m3_mul_s O | ODiv => m3_div_s O | ORem => m3_rem_s O end.
  Definition qq o := match o with OAdd => quat_add O | OSub => quat_sub O end.
  Definition qsc o := match o with OMul => quat_mul_s O | ODiv => quat_div_s O | ORem => quat_rem_s O end.
  (* assign-form bodies *)
  Definition vv_a o := match o with OAdd => v3_add_assign O | OSub => v3_sub_assign O end.
  Definition vs_a o := match o with OMul => v3_mul_assign O | ODiv => v3_div_assign O | ORem => v3_rem_assign O end.
  Definition pv_a o := match o with OAdd => p3_add_assign_v | OSub => p3_sub_assign_v end.
  Definition ps_a o := match o with OMul => p3_mul_assign | ODiv => p3_div_assign | ORem => p3_rem_assign end.
  Definition mm_a o := match o with OAdd => m3_add_assign | OSub => m3_sub_assign end.
  Definition ms_a o := match o with OMul => m3_mul_assign | ODiv => m3_div_assign | ORem => m3_rem_assign end.
  Definition qq_a o := match o with OAdd => quat_add_assign | OSub => quat_sub_assign end.
  Definition qs_a o := match o with OMul => quat_mul_assign | ODiv => quat_div_assign | ORem => quat_rem_assign end.
  Definition is_assign f := match f with AssignOp => true | _ => false end.

  (* Sum / Product: iter.fold(zero(), Add::add) / iter.fold(one(), Mul::mul) *)
  Definition v3_sum_iter (l : list (V3 F)) := fold_left (v3_add O) l (v3_zero O).
  Definition quat_sum_iter (l : list (Quat F)) := fold_left (quat_add O) l (quat_zero O).
  Definition m3_sum_iter (l : list (M3 F)) := fold_left (m3_add O) l (m3_zero O).
  Definition m3_product_iter (l : list (M3 F)) := fold_left (m3_mul O) l (m3_identity O).
  Definition quat_product_iter (l : list (Quat F)) := fold_left (quat_mul O) l (quat_one O).

  (* semantics that dispatches on the spelling *)
  Definition step_forms (e : env) (i : instr) : env :=
    match i with
    | IVV o f d a b => sv e d (if is_assign f then vv_a o (gv e a) (gv e b) else vv o (gv e a) (gv e b))
    | IVS o f d a s => sv e d (if is_assign f then vs_a o (gv e a) (gs e s) else vs o (gv e a) (gs e s))
    | ISV o f d s a => sv e d (sv' o (gs e s) (gv e a))
    | IVNeg f d a => sv e d (v3_neg O (gv e a))
    | IPV o f d a b => sp e d (if is_assign f then pv_a o (gp e a) (gv e b) else pv o (gp e a) (gv e b))
    | IPP f d a b => sv e d (p3_sub_p O (gp e a) (gp e b))
    | IPS o f d a s => sp e d (if is_assign f then ps_a o (gp e a) (gs e s) else ps o (gp e a) (gs e s))
    | IMM o f d a b => sm e d (if is_assign f then mm_a o (gm e a) (gm e b) else mm o (gm e a) (gm e b))
    | IMMul f d a b => sm e d (m3_mul O (gm e a) (gm e b))
    | IMV f d a b => sv e d (m3_mul_v O (gm e a) (gv e b))
    | IMS o f d a s => sm e d (if is_assign f then ms_a o (gm e a) (gs e s) else ms o (gm e a) (gs e s))
    | IMNeg f d a => sm e d (m3_neg O (gm e a))
    | IQQ o f d a b => sq e d (if is_assign f then qq_a o (gq e a) (gq e b) else qq o (gq e a) (gq e b))
    | IQMul f d a b => sq e d (quat_mul O (gq e a) (gq e b))
    | IQV f d a b => sv e d (quat_mul_v O (gq e a) (gv e b))
    | IQS o f d a s => sq e d (if is_assign f then qs_a o (gq e a) (gs e s) else qsc o (gq e a) (gs e s))
    | IQNeg f d a => sq e d (quat_neg O (gq e a))
    | IVSum d srcs => sv e d (v3_sum_iter (map (gv e) srcs))
    | IQSum d srcs => sq e d (quat_sum_iter (map (gq e) srcs))
    | IMSum d srcs => sm e d (m3_sum_iter (map (gm e) srcs))
    | IMProd d srcs => sm e d (m3_product_iter (map (gm e) srcs))
    | IQProd d srcs => sq e d (quat_product_iter (map (gq e) srcs))
    end.
  (* reference semantics: the spelling is ignored, sums and products are textbook left folds *)
  Definition set_form (f : form) (i : instr) : instr :=
    match i with
    | IVV o _ d a b => IVV o f d a b | IVS o _ d a s => IVS o f d a s | ISV o _ d s a => ISV o f d s a
    | IVNeg _ d a => IVNeg f d a | IPV o _ d a b => IPV o f d a b | IPP _ d a b => IPP f d a b
    | IPS o _ d a s => IPS o f d a s | IMM o _ d a b => IMM o f d a b | IMMul _ d a b => IMMul f d a b
    | IMV _ d a b => IMV f d a b | IMS o _ d a s => IMS o f d a s | IMNeg _ d a => IMNeg f d a
    | IQQ o _ d a b => IQQ o f d a b | IQMul _ d a b => IQMul f d a b | IQV _ d a b => IQV f d a b
    | IQS o _ d a s => IQS o f d a s | IQNeg _ d a => IQNeg f d a
    | other => other
    end.
  Definition erase (p : list instr) : list instr := map (set_form ByVal) p.
  Definition run_forms (p : list instr) (e : env) : env := fold_left step_forms p e.
  Definition run_ref (p : list instr) (e : env) : env := fold_left step_forms (erase p) e.
End Sem.
