(* Model/Cast.v — `cast` for vectors, points, matrices and quaternions, parametric in the scalar
   numeric cast `sc : S -> option T` (num_traits::NumCast::from).  Each field is converted in turn
   with an early `return None`. *)
From Coq Require Import List.
From CG Require Import Scalar Model.Vector Model.Point Model.Matrix Model.Quaternion.
Import ListNotations.
Set Implicit Arguments.

Section Cast.
  Variables S T : Type.
  Variable sc : S -> option T.
  Definition bind (A B : Type) (o : option A) (f : A -> option B) : option B :=
    match o with Some a => f a | None => None end.
  Definition v1_cast (v : V1 S) : option (V1 T) := bind (sc (v1x v)) (fun x => Some (mkV1 x)).
  Definition v2_cast (v : V2 S) : option (V2 T) :=
    bind (sc (v2x v)) (fun x => bind (sc (v2y v)) (fun y => Some (mkV2 x y))).
  Definition v3_cast (v : V3 S) : option (V3 T) :=
    bind (sc (v3x v)) (fun x => bind (sc (v3y v)) (fun y => bind (sc (v3z v)) (fun z => Some (mkV3 x y z)))).
  Definition v4_cast (v : V4 S) : option (V4 T) :=
    bind (sc (v4x v)) (fun x => bind (sc (v4y v)) (fun y => bind (sc (v4z v)) (fun z => bind (sc (v4w v)) (fun w => Some (mkV4 x y z w))))).
  Definition p1_cast (v : P1 S) : option (P1 T) := bind (sc (p1x v)) (fun x => Some (mkP1 x)).
  Definition p2_cast (v : P2 S) : option (P2 T) :=
    bind (sc (p2x v)) (fun x => bind (sc (p2y v)) (fun y => Some (mkP2 x y))).
  Definition p3_cast (v : P3 S) : option (P3 T) :=
    bind (sc (p3x v)) (fun x => bind (sc (p3y v)) (fun y => bind (sc (p3z v)) (fun z => Some (mkP3 x y z)))).
  (* matrices: column by column *)
  Definition m2_cast (m : M2 S) : option (M2 T) :=
    bind (v2_cast (m2x m)) (fun x => bind (v2_cast (m2y m)) (fun y => Some (mkM2 x y))).
  Definition m3_cast (m : M3 S) : option (M3 T) :=
    bind (v3_cast (m3x m)) (fun x => bind (v3_cast (m3y m)) (fun y => bind (v3_cast (m3z m)) (fun z => Some (mkM3 x y z)))).
  Definition m4_cast (m : M4 S) : option (M4 T) :=
    bind (v4_cast (m4x m)) (fun x => bind (v4_cast (m4y m)) (fun y => bind (v4_cast (m4z m)) (fun z =>
    bind (v4_cast (m4w m)) (fun w => Some (mkM4 x y z w))))).
  (* quaternion: scalar part first, then the vector part *)
  Definition quat_cast (q : Quat S) : option (Quat T) :=
    bind (sc (qs q)) (fun s => bind (v3_cast (qv q)) (fun v => Some (quat_from_sv s v))).
End Cast.
