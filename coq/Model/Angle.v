(* Model/Angle.v — src/angle.rs (Rad, Deg, impl_angle!) and the Angle trait defaults of
   src/structure.rs.  An angle is its underlying scalar; the unit is a record of
   conversions (`Rad::from(self)`, `Rad(x).into()`) and the full turn. *)

From Coq Require Import QArith.
From CG Require Import Scalar.
Set Implicit Arguments.

(* exact values of the f64 constants the implementation passes to `cast` *)
Definition q_two_pi : Q := 884279719003555 # 140737488355328.            (* f64::consts::PI * 2.0 *)
Definition q_deg_per_rad : Q := 1007958012753983 # 17592186044416.      (* 180.0 / f64::consts::PI *)
Definition q_rad_per_deg : Q := 5030569068109113 # 288230376151711744.  (* f64::consts::PI / 180.0 *)
Definition q_half : Q := 1 # 2.                                         (* 0.5f64 *)
Definition q_0499 : Q := 4494592428115755 # 9007199254740992.           (* 0.499 *)
Definition q_09995 : Q := 4501347827556811 # 4503599627370496.          (* 0.9995f64 *)
Definition q_1em6 : Q := 4722366482869645 # 4722366482869645213696.     (* 1.0e-6f64 *)

Record Unit (F : Type) := mkUnit {
  to_rad : F -> F;       (* Rad::from(self).0 *)
  of_rad : F -> F;       (* Rad(x).into().0 *)
  full_turn : F          (* Angle::full_turn().0 *)
}.

Section Ang.
  Variable F : Type.
  Variable O : Ops F.
  Variable T : Trig F.
  Local Notation "0" := (zero O).
  Local Infix "+" := (add O).
  Local Infix "-" := (sub O).
  Local Infix "*" := (mul O).
  Local Infix "/" := (div O).
  Local Notation "x %% y" := (rem O x y) (at level 40, left associativity).

  Definition c_deg_per_rad : F := ofQ O q_deg_per_rad.
  Definition c_rad_per_deg : F := ofQ O q_rad_per_deg.
  (* From<Rad> for Deg / From<Deg> for Rad *)
  Definition deg_of_rad (r : F) : F := r * c_deg_per_rad.
  Definition rad_of_deg (d : F) : F := d * c_rad_per_deg.

  Definition URad : Unit F := mkUnit (fun x => x) (fun x => x) (ofQ O q_two_pi).
  Definition UDeg : Unit F := mkUnit rad_of_deg deg_of_rad (ofQ O (360 # 1)).

  Variable U : Unit F.
  Definition nat_c (n : Z) : F := ofQ O (inject_Z n).          (* cast(2), cast(3), ... *)
  Definition turn_div_2 : F := full_turn U / nat_c 2.
  Definition turn_div_3 : F := full_turn U / nat_c 3.
  Definition turn_div_4 : F := full_turn U / nat_c 4.
  Definition turn_div_6 : F := full_turn U / nat_c 6.
  Definition ang_normalize (a : F) : F :=
    let r := a %% full_turn U in
    if ltb O r 0 then r + full_turn U else r.
  Definition ang_normalize_signed (a : F) : F :=
    let r := ang_normalize a in
    if ltb O turn_div_2 r then r - full_turn U else r.
  Definition ang_opposite (a : F) : F := ang_normalize (a + turn_div_2).
  (* bisect(self, other) = normalize(self + (other - self).normalize_signed() * half)
     (as repaired by /repo commit "fix: Angle::bisect returns the interior bisector") *)
  Definition ang_bisect (a b : F) : F := ang_normalize (a + ang_normalize_signed (b - a) * ofQ O q_half).
  (* the formula before the repair, kept for the refutation witness *)
  Definition ang_bisect_old (a b : F) : F := ang_normalize ((a - b) * ofQ O q_half + a).
  (* trigonometry goes through Rad *)
  Definition ang_sin (a : F) : F := sin T (to_rad U a).
  Definition ang_cos (a : F) : F := cos T (to_rad U a).
  Definition ang_tan (a : F) : F := tan T (to_rad U a).
  Definition ang_sin_cos (a : F) : F * F := (sin T (to_rad U a), cos T (to_rad U a)).
  Definition ang_csc (a : F) : F := inv O (ang_sin a).
  Definition ang_sec (a : F) : F := inv O (ang_cos a).
  Definition ang_cot (a : F) : F := inv O (ang_tan a).
  Definition ang_asin (x : F) : F := of_rad U (asin T x).
  Definition ang_acos (x : F) : F := of_rad U (acos T x).
  Definition ang_atan (x : F) : F := of_rad U (atan T x).
  Definition ang_atan2 (y x : F) : F := of_rad U (atan2 T y x).
  (* arithmetic acts on the underlying number *)
  Definition ang_add (a b : F) : F := a + b.
  Definition ang_sub (a b : F) : F := a - b.
  Definition ang_neg (a : F) : F := opp O a.
  Definition ang_mul_s (a s : F) : F := a * s.
  Definition ang_div_s (a s : F) : F := a / s.
  Definition ang_div (a b : F) : F := a / b.
  Definition ang_rem (a b : F) : F := a %% b.
End Ang.
