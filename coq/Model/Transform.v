(* Model/Transform.v — src/transform.rs: Decomposed { scale, rot, disp } over an abstract
   rotation record, instantiated with Quaternion, Basis3 (3-D) and Basis2 (2-D);
   conversion to Matrix4 / Matrix3. *)

From Coq Require Import List.
From CG Require Import Scalar Model.Vector Model.Point Model.Matrix Model.Angle Model.Quaternion Model.Metric Model.Rotation.
Import ListNotations.
Set Implicit Arguments.

(* what Decomposed needs from its rotation parameter R (vectors V, points P) *)
Record RotOps (R V P : Type) := mkRotOps {
  r_one : R;
  r_mul : R -> R -> R;
  r_rotate_vector : R -> V -> V;
  r_rotate_point : R -> P -> P;
  r_invert : R -> option R          (* None: Basis*::invert unwraps a singular matrix *)
}.

Record Decomposed (F R V : Type) := mkDec { d_scale : F; d_rot : R; d_disp : V }.

(* what Decomposed needs from the vector / point types *)
Record SpaceOps (F V P : Type) := mkSpaceOps {
  s_zero : V;
  s_vadd : V -> V -> V;
  s_vmul : V -> F -> V;
  s_vdiv : V -> F -> V;
  s_pmul : P -> F -> P;
  s_padd : P -> V -> P;
  s_psub : P -> P -> V;
  s_origin : P
}.

Section D.
  Variables F R V P : Type.
  Variable O : Ops F.
  Variable A : Approx F.
  Variable RO : RotOps R V P.
  Variable SO : SpaceOps F V P.
  Local Notation Dec := (Decomposed F R V).

  Definition dec_one : Dec := mkDec (one O) (r_one RO) (s_zero SO).
  Definition dec_transform_vector (d : Dec) (v : V) : V :=
    r_rotate_vector RO (d_rot d) (s_vmul SO v (d_scale d)).
  Definition dec_transform_point (d : Dec) (p : P) : P :=
    s_padd SO (r_rotate_point RO (d_rot d) (s_pmul SO p (d_scale d))) (d_disp d).
  Definition dec_concat (a b : Dec) : Dec :=
    mkDec (mul O (d_scale a) (d_scale b))
          (r_mul RO (d_rot a) (d_rot b))
          (s_vadd SO (r_rotate_vector RO (d_rot a) (s_vmul SO (d_disp b) (d_scale a))) (d_disp a)).
  Definition dec_mul := dec_concat.
  (* outer option: the call panicked (rot.invert() unwrapped None); inner: the Option returned *)
  Definition dec_inverse_transform (d : Dec) : option (option Dec) :=
    if ulps_eq_d A (d_scale d) (zero O) then Some None
    else
      let s := div O (one O) (d_scale d) in
      match r_invert RO (d_rot d) with
      | None => None
      | Some r =>
          let dd := s_vmul SO (r_rotate_vector RO r (d_disp d)) (opp O s) in
          Some (Some (mkDec s r dd))
      end.
  Definition dec_inverse_transform_vector (d : Dec) (v : V) : option (option V) :=
    if ulps_eq_d A (d_scale d) (zero O) then Some None
    else match r_invert RO (d_rot d) with
         | None => None
         | Some r => Some (Some (r_rotate_vector RO r (s_vdiv SO v (d_scale d))))
         end.
  (* look_at / look_at_rh / look_at_lh, given the rotation's look_at *)
  Variable r_look_at : V -> V -> R.
  Definition dec_look_at_lh (eye center : P) (up : V) : Dec :=
    let rot := r_look_at (s_psub SO center eye) up in
    mkDec (one O) rot (r_rotate_vector RO rot (s_psub SO (s_origin SO) eye)).
  Definition dec_look_at_rh (eye center : P) (up : V) : Dec :=
    let rot := r_look_at (s_psub SO eye center) up in
    mkDec (one O) rot (r_rotate_vector RO rot (s_psub SO (s_origin SO) eye)).
  Definition dec_look_at := dec_look_at_lh.
End D.

Section Inst.
  Variable F : Type.
  Variable O : Ops F.
  Variable T : Trig F.
  Definition Space3 : SpaceOps F (V3 F) (P3 F) :=
    mkSpaceOps (v3_zero O) (v3_add O) (v3_mul_s O) (v3_div_s O) (p3_mul_s O) (p3_add_v O) (p3_sub_p O) (p3_origin O).
  Definition Space2 : SpaceOps F (V2 F) (P2 F) :=
    mkSpaceOps (v2_zero O) (v2_add O) (v2_mul_s O) (v2_div_s O) (p2_mul_s O) (p2_add_v O) (p2_sub_p O) (p2_origin O).
  Definition RotQuat : RotOps (Quat F) (V3 F) (P3 F) :=
    mkRotOps (quat_one O) (quat_mul O) (quat_rotate_vector O) (quat_rotate_point O) (fun q => Some (quat_invert O q)).
  Definition RotBasis3 : RotOps (M3 F) (V3 F) (P3 F) :=
    mkRotOps (basis3_one O) (basis3_mul O) (basis3_rotate_vector O) (basis3_rotate_point O) (basis3_invert O).
  Definition RotBasis2 : RotOps (M2 F) (V2 F) (P2 F) :=
    mkRotOps (basis2_one O) (basis2_mul O) (basis2_rotate_vector O) (basis2_rotate_point O) (basis2_invert O).

  (* From<Decomposed<Vector3, R>> for Matrix4, given R -> Matrix3 *)
  Definition m4_of_dec (R : Type) (to_m3 : R -> M3 F) (d : Decomposed F R (V3 F)) : M4 F :=
    let m := m4_of_m3 O (m3_mul_s O (to_m3 (d_rot d)) (d_scale d)) in
    mkM4 (m4x m) (m4y m) (m4z m) (v3_extend (d_disp d) (one O)).
  Definition m3_of_dec (R : Type) (to_m2 : R -> M2 F) (d : Decomposed F R (V2 F)) : M3 F :=
    let m := m3_of_m2 O (m2_mul_s O (to_m2 (d_rot d)) (d_scale d)) in
    mkM3 (m3x m) (m3y m) (v2_extend (d_disp d) (one O)).
End Inst.
