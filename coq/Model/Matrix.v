(* Model/Matrix.v — src/matrix.rs: Matrix2/3/4 (column-major, column vectors).
   One definition per Rust function, same control flow and operand order.
   Index expressions `self[c][r]` with literal indices are field accesses; the
   functions that take run-time indices (row, swap_*, replace_col, the flat
   array of det_sub_proc_unsafe) return `option` / use `nth` on the column-major
   memory image, `None` standing for the Rust panic. *)

From Coq Require Import List Arith.
From CG Require Import Scalar Model.Vector Model.Point.
Import ListNotations.
Set Implicit Arguments.

Record M2 (F : Type) := mkM2 { m2x : V2 F; m2y : V2 F }.
Record M3 (F : Type) := mkM3 { m3x : V3 F; m3y : V3 F; m3z : V3 F }.
Record M4 (F : Type) := mkM4 { m4x : V4 F; m4y : V4 F; m4z : V4 F; m4w : V4 F }.

Section Generic.
  Variable A : Type.

  (* ---- constructors ---- *)
  Definition m2_from_cols (c0 c1 : V2 A) : M2 A := mkM2 c0 c1.
  Definition m3_from_cols (c0 c1 c2 : V3 A) : M3 A := mkM3 c0 c1 c2.
  Definition m4_from_cols (c0 c1 c2 c3 : V4 A) : M4 A := mkM4 c0 c1 c2 c3.
  Definition m2_new (c0r0 c0r1 c1r0 c1r1 : A) : M2 A :=
    m2_from_cols (mkV2 c0r0 c0r1) (mkV2 c1r0 c1r1).
  Definition m3_new (c0r0 c0r1 c0r2 c1r0 c1r1 c1r2 c2r0 c2r1 c2r2 : A) : M3 A :=
    m3_from_cols (mkV3 c0r0 c0r1 c0r2) (mkV3 c1r0 c1r1 c1r2) (mkV3 c2r0 c2r1 c2r2).
  Definition m4_new (c0r0 c0r1 c0r2 c0r3 c1r0 c1r1 c1r2 c1r3 c2r0 c2r1 c2r2 c2r3 c3r0 c3r1 c3r2 c3r3 : A)
    : M4 A :=
    m4_from_cols (mkV4 c0r0 c0r1 c0r2 c0r3) (mkV4 c1r0 c1r1 c1r2 c1r3)
                 (mkV4 c2r0 c2r1 c2r2 c2r3) (mkV4 c3r0 c3r1 c3r2 c3r3).

  (* ---- memory image: columns in order, each column x,y,z,w (flat [S; n*n]) ---- *)
  Definition m2_list (m : M2 A) : list A := v2_list (m2x m) ++ v2_list (m2y m).
  Definition m3_list (m : M3 A) : list A := v3_list (m3x m) ++ v3_list (m3y m) ++ v3_list (m3z m).
  Definition m4_list (m : M4 A) : list A :=
    v4_list (m4x m) ++ v4_list (m4y m) ++ v4_list (m4z m) ++ v4_list (m4w m).

  (* ---- Index<usize>: vector component / matrix column; None = index out of range (panic) ---- *)
  Definition v2_get (v : V2 A) (i : nat) : option A :=
    match i with 0 => Some (v2x v) | 1 => Some (v2y v) | _ => None end.
  Definition v3_get (v : V3 A) (i : nat) : option A :=
    match i with 0 => Some (v3x v) | 1 => Some (v3y v) | 2 => Some (v3z v) | _ => None end.
  Definition v4_get (v : V4 A) (i : nat) : option A :=
    match i with 0 => Some (v4x v) | 1 => Some (v4y v) | 2 => Some (v4z v) | 3 => Some (v4w v) | _ => None end.
  Definition v2_set (v : V2 A) (i : nat) (a : A) : option (V2 A) :=
    match i with 0 => Some (mkV2 a (v2y v)) | 1 => Some (mkV2 (v2x v) a) | _ => None end.
  Definition v3_set (v : V3 A) (i : nat) (a : A) : option (V3 A) :=
    match i with 0 => Some (mkV3 a (v3y v) (v3z v)) | 1 => Some (mkV3 (v3x v) a (v3z v))
               | 2 => Some (mkV3 (v3x v) (v3y v) a) | _ => None end.
  Definition v4_set (v : V4 A) (i : nat) (a : A) : option (V4 A) :=
    match i with 0 => Some (mkV4 a (v4y v) (v4z v) (v4w v)) | 1 => Some (mkV4 (v4x v) a (v4z v) (v4w v))
               | 2 => Some (mkV4 (v4x v) (v4y v) a (v4w v)) | 3 => Some (mkV4 (v4x v) (v4y v) (v4z v) a)
               | _ => None end.
  Definition m2_col (m : M2 A) (c : nat) : option (V2 A) :=
    match c with 0 => Some (m2x m) | 1 => Some (m2y m) | _ => None end.
  Definition m3_col (m : M3 A) (c : nat) : option (V3 A) :=
    match c with 0 => Some (m3x m) | 1 => Some (m3y m) | 2 => Some (m3z m) | _ => None end.
  Definition m4_col (m : M4 A) (c : nat) : option (V4 A) :=
    match c with 0 => Some (m4x m) | 1 => Some (m4y m) | 2 => Some (m4z m) | 3 => Some (m4w m) | _ => None end.
  Definition m2_set_col (m : M2 A) (c : nat) (v : V2 A) : option (M2 A) :=
    match c with 0 => Some (mkM2 v (m2y m)) | 1 => Some (mkM2 (m2x m) v) | _ => None end.
  Definition m3_set_col (m : M3 A) (c : nat) (v : V3 A) : option (M3 A) :=
    match c with 0 => Some (mkM3 v (m3y m) (m3z m)) | 1 => Some (mkM3 (m3x m) v (m3z m))
               | 2 => Some (mkM3 (m3x m) (m3y m) v) | _ => None end.
  Definition m4_set_col (m : M4 A) (c : nat) (v : V4 A) : option (M4 A) :=
    match c with 0 => Some (mkM4 v (m4y m) (m4z m) (m4w m)) | 1 => Some (mkM4 (m4x m) v (m4z m) (m4w m))
               | 2 => Some (mkM4 (m4x m) (m4y m) v (m4w m)) | 3 => Some (mkM4 (m4x m) (m4y m) (m4z m) v)
               | _ => None end.
  (* element (column c, row r): self[c][r] *)
  Definition m2_e (m : M2 A) (c r : nat) : option A :=
    match m2_col m c with Some v => v2_get v r | None => None end.
  Definition m3_e (m : M3 A) (c r : nat) : option A :=
    match m3_col m c with Some v => v3_get v r | None => None end.
  Definition m4_e (m : M4 A) (c r : nat) : option A :=
    match m4_col m c with Some v => v4_get v r | None => None end.
  Definition m2_set_e (m : M2 A) (c r : nat) (a : A) : option (M2 A) :=
    match m2_col m c with
    | Some v => match v2_set v r a with Some v' => m2_set_col m c v' | None => None end
    | None => None end.
  Definition m3_set_e (m : M3 A) (c r : nat) (a : A) : option (M3 A) :=
    match m3_col m c with
    | Some v => match v3_set v r a with Some v' => m3_set_col m c v' | None => None end
    | None => None end.
  Definition m4_set_e (m : M4 A) (c r : nat) (a : A) : option (M4 A) :=
    match m4_col m c with
    | Some v => match v4_set v r a with Some v' => m4_set_col m c v' | None => None end
    | None => None end.

  (* ---- Array::swap_elements on vectors (ptr::swap(&mut self[i], &mut self[j])) ---- *)
  Definition v2_swap (v : V2 A) (i j : nat) : option (V2 A) :=
    match v2_get v i, v2_get v j with
    | Some a, Some b => match v2_set v i b with Some v' => v2_set v' j a | None => None end
    | _, _ => None end.
  Definition v3_swap (v : V3 A) (i j : nat) : option (V3 A) :=
    match v3_get v i, v3_get v j with
    | Some a, Some b => match v3_set v i b with Some v' => v3_set v' j a | None => None end
    | _, _ => None end.
  Definition v4_swap (v : V4 A) (i j : nat) : option (V4 A) :=
    match v4_get v i, v4_get v j with
    | Some a, Some b => match v4_set v i b with Some v' => v4_set v' j a | None => None end
    | _, _ => None end.

  (* ---- Matrix::row(r) = VectorN::new(self[0][r], self[1][r], ...) ---- *)
  Definition m2_row (m : M2 A) (r : nat) : option (V2 A) :=
    match v2_get (m2x m) r, v2_get (m2y m) r with Some a, Some b => Some (mkV2 a b) | _, _ => None end.
  Definition m3_row (m : M3 A) (r : nat) : option (V3 A) :=
    match v3_get (m3x m) r, v3_get (m3y m) r, v3_get (m3z m) r with
    | Some a, Some b, Some c => Some (mkV3 a b c) | _, _, _ => None end.
  Definition m4_row (m : M4 A) (r : nat) : option (V4 A) :=
    match v4_get (m4x m) r, v4_get (m4y m) r, v4_get (m4z m) r, v4_get (m4w m) r with
    | Some a, Some b, Some c, Some d => Some (mkV4 a b c d) | _, _, _, _ => None end.
  (* rows with literal indices, as used by the operators *)
  Definition m2_row0 (m : M2 A) := mkV2 (v2x (m2x m)) (v2x (m2y m)).
  Definition m2_row1 (m : M2 A) := mkV2 (v2y (m2x m)) (v2y (m2y m)).
  Definition m3_row0 (m : M3 A) := mkV3 (v3x (m3x m)) (v3x (m3y m)) (v3x (m3z m)).
  Definition m3_row1 (m : M3 A) := mkV3 (v3y (m3x m)) (v3y (m3y m)) (v3y (m3z m)).
  Definition m3_row2 (m : M3 A) := mkV3 (v3z (m3x m)) (v3z (m3y m)) (v3z (m3z m)).
  Definition m4_row0 (m : M4 A) := mkV4 (v4x (m4x m)) (v4x (m4y m)) (v4x (m4z m)) (v4x (m4w m)).
  Definition m4_row1 (m : M4 A) := mkV4 (v4y (m4x m)) (v4y (m4y m)) (v4y (m4z m)) (v4y (m4w m)).
  Definition m4_row2 (m : M4 A) := mkV4 (v4z (m4x m)) (v4z (m4y m)) (v4z (m4z m)) (v4z (m4w m)).
  Definition m4_row3 (m : M4 A) := mkV4 (v4w (m4x m)) (v4w (m4y m)) (v4w (m4z m)) (v4w (m4w m)).

  (* ---- swap_rows / swap_columns / swap_elements / replace_col ---- *)
  Definition m2_swap_rows (m : M2 A) (a b : nat) : option (M2 A) :=
    match v2_swap (m2x m) a b, v2_swap (m2y m) a b with
    | Some x, Some y => Some (mkM2 x y) | _, _ => None end.
  Definition m3_swap_rows (m : M3 A) (a b : nat) : option (M3 A) :=
    match v3_swap (m3x m) a b, v3_swap (m3y m) a b, v3_swap (m3z m) a b with
    | Some x, Some y, Some z => Some (mkM3 x y z) | _, _, _ => None end.
  Definition m4_swap_rows (m : M4 A) (a b : nat) : option (M4 A) :=
    match v4_swap (m4x m) a b, v4_swap (m4y m) a b, v4_swap (m4z m) a b, v4_swap (m4w m) a b with
    | Some x, Some y, Some z, Some w => Some (mkM4 x y z w) | _, _, _, _ => None end.
  Definition m2_swap_columns (m : M2 A) (a b : nat) : option (M2 A) :=
    match m2_col m a, m2_col m b with
    | Some ca, Some cb => match m2_set_col m a cb with Some m' => m2_set_col m' b ca | None => None end
    | _, _ => None end.
  Definition m3_swap_columns (m : M3 A) (a b : nat) : option (M3 A) :=
    match m3_col m a, m3_col m b with
    | Some ca, Some cb => match m3_set_col m a cb with Some m' => m3_set_col m' b ca | None => None end
    | _, _ => None end.
  Definition m4_swap_columns (m : M4 A) (a b : nat) : option (M4 A) :=
    match m4_col m a, m4_col m b with
    | Some ca, Some cb => match m4_set_col m a cb with Some m' => m4_set_col m' b ca | None => None end
    | _, _ => None end.
  Definition m2_swap_elements (m : M2 A) (ac ar bc br : nat) : option (M2 A) :=
    match m2_e m ac ar, m2_e m bc br with
    | Some x, Some y => match m2_set_e m ac ar y with Some m' => m2_set_e m' bc br x | None => None end
    | _, _ => None end.
  Definition m3_swap_elements (m : M3 A) (ac ar bc br : nat) : option (M3 A) :=
    match m3_e m ac ar, m3_e m bc br with
    | Some x, Some y => match m3_set_e m ac ar y with Some m' => m3_set_e m' bc br x | None => None end
    | _, _ => None end.
  Definition m4_swap_elements (m : M4 A) (ac ar bc br : nat) : option (M4 A) :=
    match m4_e m ac ar, m4_e m bc br with
    | Some x, Some y => match m4_set_e m ac ar y with Some m' => m4_set_e m' bc br x | None => None end
    | _, _ => None end.
  (* replace_col(c, src) = mem::replace(&mut self[c], src): (new matrix, old column) *)
  Definition m2_replace_col (m : M2 A) (c : nat) (src : V2 A) : option (M2 A * V2 A) :=
    match m2_col m c, m2_set_col m c src with Some old, Some m' => Some (m', old) | _, _ => None end.
  Definition m3_replace_col (m : M3 A) (c : nat) (src : V3 A) : option (M3 A * V3 A) :=
    match m3_col m c, m3_set_col m c src with Some old, Some m' => Some (m', old) | _, _ => None end.
  Definition m4_replace_col (m : M4 A) (c : nat) (src : V4 A) : option (M4 A * V4 A) :=
    match m4_col m c, m4_set_col m c src with Some old, Some m' => Some (m', old) | _, _ => None end.

  (* ---- transpose ---- *)
  Definition m2_transpose (m : M2 A) : M2 A :=
    m2_new (v2x (m2x m)) (v2x (m2y m)) (v2y (m2x m)) (v2y (m2y m)).
  Definition m3_transpose (m : M3 A) : M3 A :=
    m3_new (v3x (m3x m)) (v3x (m3y m)) (v3x (m3z m))
           (v3y (m3x m)) (v3y (m3y m)) (v3y (m3z m))
           (v3z (m3x m)) (v3z (m3y m)) (v3z (m3z m)).
  Definition m4_transpose (m : M4 A) : M4 A :=
    m4_new (v4x (m4x m)) (v4x (m4y m)) (v4x (m4z m)) (v4x (m4w m))
           (v4y (m4x m)) (v4y (m4y m)) (v4y (m4z m)) (v4y (m4w m))
           (v4z (m4x m)) (v4z (m4y m)) (v4z (m4z m)) (v4z (m4w m))
           (v4w (m4x m)) (v4w (m4y m)) (v4w (m4z m)) (v4w (m4w m)).
  (* transpose_self: the sequence of swap_elements calls of the source *)
  Definition obind (X Y : Type) (o : option X) (f : X -> option Y) : option Y :=
    match o with Some x => f x | None => None end.
  Definition m2_transpose_self (m : M2 A) : option (M2 A) := m2_swap_elements m 0 1 1 0.
  Definition m3_transpose_self (m : M3 A) : option (M3 A) :=
    obind (m3_swap_elements m 0 1 1 0) (fun m =>
    obind (m3_swap_elements m 0 2 2 0) (fun m => m3_swap_elements m 1 2 2 1)).
  Definition m4_transpose_self (m : M4 A) : option (M4 A) :=
    obind (m4_swap_elements m 0 1 1 0) (fun m =>
    obind (m4_swap_elements m 0 2 2 0) (fun m =>
    obind (m4_swap_elements m 0 3 3 0) (fun m =>
    obind (m4_swap_elements m 1 2 2 1) (fun m =>
    obind (m4_swap_elements m 1 3 3 1) (fun m => m4_swap_elements m 2 3 3 2))))).

  (* ---- diagonal ---- *)
  Definition m2_diagonal (m : M2 A) : V2 A := mkV2 (v2x (m2x m)) (v2y (m2y m)).
  Definition m3_diagonal (m : M3 A) : V3 A := mkV3 (v3x (m3x m)) (v3y (m3y m)) (v3z (m3z m)).
  Definition m4_diagonal (m : M4 A) : V4 A :=
    mkV4 (v4x (m4x m)) (v4y (m4y m)) (v4z (m4z m)) (v4w (m4w m)).

  (* column-wise map / zip: `$MatrixN { $($field: OP matrix.$field),+ }` *)
  Definition m2_mapc (f : V2 A -> V2 A) (m : M2 A) := mkM2 (f (m2x m)) (f (m2y m)).
  Definition m3_mapc (f : V3 A -> V3 A) (m : M3 A) := mkM3 (f (m3x m)) (f (m3y m)) (f (m3z m)).
  Definition m4_mapc (f : V4 A -> V4 A) (m : M4 A) := mkM4 (f (m4x m)) (f (m4y m)) (f (m4z m)) (f (m4w m)).
  Definition m2_zipc (f : V2 A -> V2 A -> V2 A) (a b : M2 A) := mkM2 (f (m2x a) (m2x b)) (f (m2y a) (m2y b)).
  Definition m3_zipc (f : V3 A -> V3 A -> V3 A) (a b : M3 A) :=
    mkM3 (f (m3x a) (m3x b)) (f (m3y a) (m3y b)) (f (m3z a) (m3z b)).
  Definition m4_zipc (f : V4 A -> V4 A -> V4 A) (a b : M4 A) :=
    mkM4 (f (m4x a) (m4x b)) (f (m4y a) (m4y b)) (f (m4z a) (m4z b)) (f (m4w a) (m4w b)).
End Generic.

Section Mat.
  Variable F : Type.
  Variable O : Ops F.
  Local Notation "0" := (zero O).
  Local Notation "1" := (one O).
  Local Infix "+" := (add O).
  Local Infix "-" := (sub O).
  Local Infix "*" := (mul O).
  Local Infix "/" := (div O).
  Local Notation "- x" := (opp O x).

  (* ---- SquareMatrix::from_value / from_diagonal / identity / zero ---- *)
  Definition m2_from_value (v : F) : M2 F := m2_new v 0 0 v.
  Definition m3_from_value (v : F) : M3 F := m3_new v 0 0 0 v 0 0 0 v.
  Definition m4_from_value (v : F) : M4 F := m4_new v 0 0 0 0 v 0 0 0 0 v 0 0 0 0 v.
  Definition m2_from_diagonal (d : V2 F) : M2 F := m2_new (v2x d) 0 0 (v2y d).
  Definition m3_from_diagonal (d : V3 F) : M3 F := m3_new (v3x d) 0 0 0 (v3y d) 0 0 0 (v3z d).
  Definition m4_from_diagonal (d : V4 F) : M4 F :=
    m4_new (v4x d) 0 0 0 0 (v4y d) 0 0 0 0 (v4z d) 0 0 0 0 (v4w d).
  Definition m2_identity : M2 F := m2_from_value 1.
  Definition m3_identity : M3 F := m3_from_value 1.
  Definition m4_identity : M4 F := m4_from_value 1.
  Definition m2_zero : M2 F := m2_new 0 0 0 0.
  Definition m3_zero : M3 F := m3_new 0 0 0 0 0 0 0 0 0.
  Definition m4_zero : M4 F := m4_new 0 0 0 0 0 0 0 0 0 0 0 0 0 0 0 0.

  (* ---- trace = diagonal().sum() ---- *)
  Definition m2_trace (m : M2 F) : F := v2_sum O (m2_diagonal m).
  Definition m3_trace (m : M3 F) : F := v3_sum O (m3_diagonal m).
  Definition m4_trace (m : M4 F) : F := v4_sum O (m4_diagonal m).

  (* ---- homogeneous constructors ---- *)
  Definition m3_from_translation (v : V2 F) : M3 F := m3_new 1 0 0 0 1 0 (v2x v) (v2y v) 1.
  Definition m3_from_nonuniform_scale (x y : F) : M3 F := m3_new x 0 0 0 y 0 0 0 1.
  Definition m3_from_scale (v : F) : M3 F := m3_from_nonuniform_scale v v.
  Definition m4_from_translation (v : V3 F) : M4 F :=
    m4_new 1 0 0 0 0 1 0 0 0 0 1 0 (v3x v) (v3y v) (v3z v) 1.
  Definition m4_from_nonuniform_scale (x y z : F) : M4 F := m4_new x 0 0 0 0 y 0 0 0 0 z 0 0 0 0 1.
  Definition m4_from_scale (v : F) : M4 F := m4_from_nonuniform_scale v v v.

  (* ---- embeddings From<Matrix2> for Matrix3/4, From<Matrix3> for Matrix4 ---- *)
  Definition m3_of_m2 (m : M2 F) : M3 F :=
    m3_new (v2x (m2x m)) (v2y (m2x m)) 0 (v2x (m2y m)) (v2y (m2y m)) 0 0 0 1.
  Definition m4_of_m2 (m : M2 F) : M4 F :=
    m4_new (v2x (m2x m)) (v2y (m2x m)) 0 0 (v2x (m2y m)) (v2y (m2y m)) 0 0 0 0 1 0 0 0 0 1.
  Definition m4_of_m3 (m : M3 F) : M4 F :=
    m4_new (v3x (m3x m)) (v3y (m3x m)) (v3z (m3x m)) 0
           (v3x (m3y m)) (v3y (m3y m)) (v3z (m3y m)) 0
           (v3x (m3z m)) (v3y (m3z m)) (v3z (m3z m)) 0
           0 0 0 1.

  (* ---- element-wise: Neg, * S, / S, % S, +, - (impl_matrix!) ---- *)
  Definition m2_neg := m2_mapc (v2_neg O).  Definition m3_neg := m3_mapc (v3_neg O).
  Definition m4_neg := m4_mapc (v4_neg O).
  Definition m2_mul_s (m : M2 F) (s : F) := m2_mapc (fun c => v2_mul_s O c s) m.
  Definition m3_mul_s (m : M3 F) (s : F) := m3_mapc (fun c => v3_mul_s O c s) m.
  Definition m4_mul_s (m : M4 F) (s : F) := m4_mapc (fun c => v4_mul_s O c s) m.
  Definition m2_div_s (m : M2 F) (s : F) := m2_mapc (fun c => v2_div_s O c s) m.
  Definition m3_div_s (m : M3 F) (s : F) := m3_mapc (fun c => v3_div_s O c s) m.
  Definition m4_div_s (m : M4 F) (s : F) := m4_mapc (fun c => v4_div_s O c s) m.
  Definition m2_rem_s (m : M2 F) (s : F) := m2_mapc (fun c => v2_rem_s O c s) m.
  Definition m3_rem_s (m : M3 F) (s : F) := m3_mapc (fun c => v3_rem_s O c s) m.
  Definition m4_rem_s (m : M4 F) (s : F) := m4_mapc (fun c => v4_rem_s O c s) m.
  Definition m2_add := m2_zipc (v2_add O).  Definition m3_add := m3_zipc (v3_add O).
  Definition m4_add := m4_zipc (v4_add O).
  Definition m2_sub := m2_zipc (v2_sub O).  Definition m3_sub := m3_zipc (v3_sub O).
  Definition m4_sub := m4_zipc (v4_sub O).
  (* scalar on the left (impl_scalar_ops!) *)
  Definition m2_smul (s : F) (m : M2 F) := m2_mapc (v2_smul O s) m.
  Definition m3_smul (s : F) (m : M3 F) := m3_mapc (v3_smul O s) m.
  Definition m4_smul (s : F) (m : M4 F) := m4_mapc (v4_smul O s) m.
  Definition m2_sdiv (s : F) (m : M2 F) := m2_mapc (v2_sdiv O s) m.
  Definition m3_sdiv (s : F) (m : M3 F) := m3_mapc (v3_sdiv O s) m.
  Definition m4_sdiv (s : F) (m : M4 F) := m4_mapc (v4_sdiv O s) m.
  Definition m2_srem (s : F) (m : M2 F) := m2_mapc (v2_srem O s) m.
  Definition m3_srem (s : F) (m : M3 F) := m3_mapc (v3_srem O s) m.
  Definition m4_srem (s : F) (m : M4 F) := m4_mapc (v4_srem O s) m.

  (* ---- Matrix * Vector (impl_mv_operator!): VectorN::new(row(0).dot(v), row(1).dot(v), ...) ---- *)
  Definition m2_mul_v (m : M2 F) (v : V2 F) : V2 F :=
    mkV2 (v2_dot O (m2_row0 m) v) (v2_dot O (m2_row1 m) v).
  Definition m3_mul_v (m : M3 F) (v : V3 F) : V3 F :=
    mkV3 (v3_dot O (m3_row0 m) v) (v3_dot O (m3_row1 m) v) (v3_dot O (m3_row2 m) v).
  Definition m4_mul_v (m : M4 F) (v : V4 F) : V4 F :=
    mkV4 (v4_dot O (m4_row0 m) v) (v4_dot O (m4_row1 m) v) (v4_dot O (m4_row2 m) v) (v4_dot O (m4_row3 m) v).

  (* ---- Matrix * Matrix ---- *)
  Definition m2_mul (l r : M2 F) : M2 F :=
    m2_new (v2_dot O (m2_row0 l) (m2x r)) (v2_dot O (m2_row1 l) (m2x r))
           (v2_dot O (m2_row0 l) (m2y r)) (v2_dot O (m2_row1 l) (m2y r)).
  Definition m3_mul (l r : M3 F) : M3 F :=
    m3_new (v3_dot O (m3_row0 l) (m3x r)) (v3_dot O (m3_row1 l) (m3x r)) (v3_dot O (m3_row2 l) (m3x r))
           (v3_dot O (m3_row0 l) (m3y r)) (v3_dot O (m3_row1 l) (m3y r)) (v3_dot O (m3_row2 l) (m3y r))
           (v3_dot O (m3_row0 l) (m3z r)) (v3_dot O (m3_row1 l) (m3z r)) (v3_dot O (m3_row2 l) (m3z r)).
  (* Matrix4: a*rhs[c][0] + b*rhs[c][1] + c*rhs[c][2] + d*rhs[c][3] (left-nested sum of scaled columns) *)
  Definition m4_comb (l : M4 F) (v : V4 F) : V4 F :=
    v4_add O (v4_add O (v4_add O (v4_mul_s O (m4x l) (v4x v)) (v4_mul_s O (m4y l) (v4y v)))
                       (v4_mul_s O (m4z l) (v4z v)))
             (v4_mul_s O (m4w l) (v4w v)).
  Definition m4_mul (l r : M4 F) : M4 F :=
    m4_from_cols (m4_comb l (m4x r)) (m4_comb l (m4y r)) (m4_comb l (m4z r)) (m4_comb l (m4w r)).

  (* ---- determinant ---- *)
  Definition m2_determinant (m : M2 F) : F :=
    v2x (m2x m) * v2y (m2y m) - v2x (m2y m) * v2y (m2x m).
  Definition m3_determinant (m : M3 F) : F :=
    (v3x (m3x m) * (v3y (m3y m) * v3z (m3z m) - v3y (m3z m) * v3z (m3y m))
     - v3x (m3y m) * (v3y (m3x m) * v3z (m3z m) - v3y (m3z m) * v3z (m3x m)))
    + v3x (m3z m) * (v3y (m3x m) * v3z (m3y m) - v3y (m3y m) * v3z (m3x m)).
  (* det_sub_proc_unsafe(m, x, y, z): reads the flat [S; 16] image with unchecked indices *)
  Definition flat4 (m : M4 F) (k : nat) : F := nth k (m4_list m) 0.
  Definition det_sub_proc (m : M4 F) (x y z : nat) : V4 F :=
    let s := flat4 m in
    let a := mkV4 (s (4 + x)%nat) (s (12 + x)%nat) (s x) (s (8 + x)%nat) in
    let b := mkV4 (s (8 + y)%nat) (s (8 + y)%nat) (s (4 + y)%nat) (s (4 + y)%nat) in
    let c := mkV4 (s (12 + z)%nat) (s z) (s (12 + z)%nat) (s z) in
    let d := mkV4 (s (8 + x)%nat) (s (8 + x)%nat) (s (4 + x)%nat) (s (4 + x)%nat) in
    let e := mkV4 (s (12 + y)%nat) (s y) (s (12 + y)%nat) (s y) in
    let f := mkV4 (s (4 + z)%nat) (s (12 + z)%nat) (s z) (s (8 + z)%nat) in
    let g := mkV4 (s (12 + x)%nat) (s x) (s (12 + x)%nat) (s x) in
    let h := mkV4 (s (4 + y)%nat) (s (12 + y)%nat) (s y) (s (8 + y)%nat) in
    let i := mkV4 (s (8 + z)%nat) (s (8 + z)%nat) (s (4 + z)%nat) (s (4 + z)%nat) in
    let tmp := v4_mul_ew O a (v4_mul_ew O b c) in
    let tmp := v4_add O tmp (v4_mul_ew O d (v4_mul_ew O e f)) in
    let tmp := v4_add O tmp (v4_mul_ew O g (v4_mul_ew O h i)) in
    let tmp := v4_sub O tmp (v4_mul_ew O a (v4_mul_ew O e i)) in
    let tmp := v4_sub O tmp (v4_mul_ew O d (v4_mul_ew O h c)) in
    v4_sub O tmp (v4_mul_ew O g (v4_mul_ew O b f)).
  Definition m4_determinant (m : M4 F) : F :=
    v4_dot O (det_sub_proc m 1 2 3)
             (mkV4 (v4x (m4x m)) (v4x (m4y m)) (v4x (m4z m)) (v4x (m4w m))).

  (* ---- invert ---- *)
  Definition m2_invert (m : M2 F) : option (M2 F) :=
    let det := m2_determinant m in
    if eqb O det 0 then None
    else Some (m2_new (v2y (m2y m) / det) (- v2y (m2x m) / det)
                      (- v2x (m2y m) / det) (v2x (m2x m) / det)).
  Definition m3_invert (m : M3 F) : option (M3 F) :=
    let det := m3_determinant m in
    if eqb O det 0 then None
    else Some (m3_transpose (m3_from_cols (v3_div_s O (v3_cross O (m3y m) (m3z m)) det)
                                          (v3_div_s O (v3_cross O (m3z m) (m3x m)) det)
                                          (v3_div_s O (v3_cross O (m3x m) (m3y m)) det))).
  (* the `cf` closure of Matrix4::invert; i, j literal in 0..=3 so truncate_n cannot fail *)
  Definition trunc_n (v : V4 F) (j : nat) : V3 F :=
    match v4_truncate_n v j with Some r => r | None => v3_zero O end.
  Definition m4_cf (t : M4 F) (inv_det : F) (i j : nat) : F :=
    let mat := match i with
      | 0 => m3_from_cols (trunc_n (m4y t) j) (trunc_n (m4z t) j) (trunc_n (m4w t) j)
      | 1 => m3_from_cols (trunc_n (m4x t) j) (trunc_n (m4z t) j) (trunc_n (m4w t) j)
      | 2 => m3_from_cols (trunc_n (m4x t) j) (trunc_n (m4y t) j) (trunc_n (m4w t) j)
      | _ => m3_from_cols (trunc_n (m4x t) j) (trunc_n (m4y t) j) (trunc_n (m4z t) j)
      end in
    let sign := if Nat.odd (i + j)%nat then opp O 1 else 1 in
    m3_determinant mat * sign * inv_det.
  Definition m4_invert (m : M4 F) : option (M4 F) :=
    let det := m4_determinant m in
    if eqb O det 0 then None
    else
      let inv_det := 1 / det in
      let t := m4_transpose m in
      let cf := m4_cf t inv_det in
      Some (m4_new (cf 0%nat 0%nat) (cf 0%nat 1%nat) (cf 0%nat 2%nat) (cf 0%nat 3%nat)
                   (cf 1%nat 0%nat) (cf 1%nat 1%nat) (cf 1%nat 2%nat) (cf 1%nat 3%nat)
                   (cf 2%nat 0%nat) (cf 2%nat 1%nat) (cf 2%nat 2%nat) (cf 2%nat 3%nat)
                   (cf 3%nat 0%nat) (cf 3%nat 1%nat) (cf 3%nat 2%nat) (cf 3%nat 3%nat)).

  (* ---- Transform impls: Matrix3 as a 2-D transform, Matrix3 as a 3-D one, Matrix4 ---- *)
  Definition m3_transform_vector2 (m : M3 F) (v : V2 F) : V2 F :=
    v3_truncate (m3_mul_v m (v2_extend v 0)).
  Definition m3_transform_point2 (m : M3 F) (p : P2 F) : P2 F :=
    p2_from_vec (v3_truncate (m3_mul_v m (p3_to_vec (mkP3 (p2x p) (p2y p) 1)))).
  Definition m3_transform_vector3 (m : M3 F) (v : V3 F) : V3 F := m3_mul_v m v.
  Definition m3_transform_point3 (m : M3 F) (p : P3 F) : P3 F := p3_from_vec (m3_mul_v m (p3_to_vec p)).
  Definition m4_transform_vector (m : M4 F) (v : V3 F) : V3 F :=
    v4_truncate (m4_mul_v m (v3_extend v 0)).
  Definition m4_transform_point (m : M4 F) (p : P3 F) : P3 F :=
    p3_from_homogeneous O (m4_mul_v m (p3_to_homogeneous O p)).
  Definition m3_concat := m3_mul.
  Definition m4_concat := m4_mul.
  Definition m3_inverse_transform := m3_invert.
  Definition m4_inverse_transform := m4_invert.

  (* ---- VectorSpace::lerp for matrices ---- *)
  Definition m2_lerp (a b : M2 F) (t : F) := m2_add a (m2_mul_s (m2_sub b a) t).
  Definition m3_lerp (a b : M3 F) (t : F) := m3_add a (m3_mul_s (m3_sub b a) t).
  Definition m4_lerp (a b : M4 F) (t : F) := m4_add a (m4_mul_s (m4_sub b a) t).
End Mat.
