(* Model/Point.v — src/point.rs: Point1..Point3 (impl_point!, EuclideanSpace,
   homogeneous coordinates) and the EuclideanSpace defaults of src/structure.rs
   (midpoint, centroid). *)

From Coq Require Import List ZArith QArith.
From CG Require Import Scalar Model.Vector.
Import ListNotations.
Set Implicit Arguments.

Record P1 (F : Type) := mkP1 { p1x : F }.
Record P2 (F : Type) := mkP2 { p2x : F; p2y : F }.
Record P3 (F : Type) := mkP3 { p3x : F; p3y : F; p3z : F }.

Section Generic.
  Variables A B C : Type.
  Definition p1_map (f : A -> B) (p : P1 A) : P1 B := mkP1 (f (p1x p)).
  Definition p2_map (f : A -> B) (p : P2 A) : P2 B := mkP2 (f (p2x p)) (f (p2y p)).
  Definition p3_map (f : A -> B) (p : P3 A) : P3 B := mkP3 (f (p3x p)) (f (p3y p)) (f (p3z p)).
  Definition p1_zip (f : A -> B -> C) (a : P1 A) (b : P1 B) : P1 C := mkP1 (f (p1x a) (p1x b)).
  Definition p2_zip (f : A -> B -> C) (a : P2 A) (b : P2 B) : P2 C :=
    mkP2 (f (p2x a) (p2x b)) (f (p2y a) (p2y b)).
  Definition p3_zip (f : A -> B -> C) (a : P3 A) (b : P3 B) : P3 C :=
    mkP3 (f (p3x a) (p3x b)) (f (p3y a) (p3y b)) (f (p3z a) (p3z b)).
  Definition p1_from_value (s : A) : P1 A := mkP1 s.
  Definition p2_from_value (s : A) : P2 A := mkP2 s s.
  Definition p3_from_value (s : A) : P3 A := mkP3 s s s.
  Definition p1_list (p : P1 A) : list A := [p1x p].
  Definition p2_list (p : P2 A) : list A := [p2x p; p2y p].
  Definition p3_list (p : P3 A) : list A := [p3x p; p3y p; p3z p].
  (* EuclideanSpace::from_vec / to_vec *)
  Definition p1_from_vec (v : V1 A) : P1 A := mkP1 (v1x v).
  Definition p2_from_vec (v : V2 A) : P2 A := mkP2 (v2x v) (v2y v).
  Definition p3_from_vec (v : V3 A) : P3 A := mkP3 (v3x v) (v3y v) (v3z v).
  Definition p1_to_vec (p : P1 A) : V1 A := mkV1 (p1x p).
  Definition p2_to_vec (p : P2 A) : V2 A := mkV2 (p2x p) (p2y p).
  Definition p3_to_vec (p : P3 A) : V3 A := mkV3 (p3x p) (p3y p) (p3z p).
  (* point op vector -> point ; point - point -> vector *)
  Definition p1_zipv (f : A -> B -> C) (a : P1 A) (b : V1 B) : P1 C := mkP1 (f (p1x a) (v1x b)).
  Definition p2_zipv (f : A -> B -> C) (a : P2 A) (b : V2 B) : P2 C :=
    mkP2 (f (p2x a) (v2x b)) (f (p2y a) (v2y b)).
  Definition p3_zipv (f : A -> B -> C) (a : P3 A) (b : V3 B) : P3 C :=
    mkP3 (f (p3x a) (v3x b)) (f (p3y a) (v3y b)) (f (p3z a) (v3z b)).
  Definition p1_zipp (f : A -> B -> C) (a : P1 A) (b : P1 B) : V1 C := mkV1 (f (p1x a) (p1x b)).
  Definition p2_zipp (f : A -> B -> C) (a : P2 A) (b : P2 B) : V2 C :=
    mkV2 (f (p2x a) (p2x b)) (f (p2y a) (p2y b)).
  Definition p3_zipp (f : A -> B -> C) (a : P3 A) (b : P3 B) : V3 C :=
    mkV3 (f (p3x a) (p3x b)) (f (p3y a) (p3y b)) (f (p3z a) (p3z b)).
End Generic.

Section Pt.
  Variable F : Type.
  Variable O : Ops F.
  Local Notation "0" := (zero O).
  Local Notation "1" := (one O).
  Local Infix "+" := (add O).
  Local Infix "-" := (sub O).
  Local Infix "*" := (mul O).
  Local Infix "/" := (div O).
  Local Notation "x %% y" := (rem O x y) (at level 40, left associativity).

  (* Point + Vector, Point - Vector, Point - Point *)
  Definition p1_add_v := p1_zipv (add O).  Definition p2_add_v := p2_zipv (add O).
  Definition p3_add_v := p3_zipv (add O).
  Definition p1_sub_v := p1_zipv (sub O).  Definition p2_sub_v := p2_zipv (sub O).
  Definition p3_sub_v := p3_zipv (sub O).
  Definition p1_sub_p := p1_zipp (sub O).  Definition p2_sub_p := p2_zipp (sub O).
  Definition p3_sub_p := p3_zipp (sub O).
  (* Point * S, / S, % S *)
  Definition p1_mul_s (p : P1 F) (s : F) := p1_map (fun c => c * s) p.
  Definition p2_mul_s (p : P2 F) (s : F) := p2_map (fun c => c * s) p.
  Definition p3_mul_s (p : P3 F) (s : F) := p3_map (fun c => c * s) p.
  Definition p1_div_s (p : P1 F) (s : F) := p1_map (fun c => c / s) p.
  Definition p2_div_s (p : P2 F) (s : F) := p2_map (fun c => c / s) p.
  Definition p3_div_s (p : P3 F) (s : F) := p3_map (fun c => c / s) p.
  Definition p1_rem_s (p : P1 F) (s : F) := p1_map (fun c => c %% s) p.
  Definition p2_rem_s (p : P2 F) (s : F) := p2_map (fun c => c %% s) p.
  Definition p3_rem_s (p : P3 F) (s : F) := p3_map (fun c => c %% s) p.
  (* ElementWise (point rhs / scalar rhs) *)
  Definition p1_add_ew := p1_zip (add O).  Definition p2_add_ew := p2_zip (add O).  Definition p3_add_ew := p3_zip (add O).
  Definition p1_sub_ew := p1_zip (sub O).  Definition p2_sub_ew := p2_zip (sub O).  Definition p3_sub_ew := p3_zip (sub O).
  Definition p1_mul_ew := p1_zip (mul O).  Definition p2_mul_ew := p2_zip (mul O).  Definition p3_mul_ew := p3_zip (mul O).
  Definition p1_div_ew := p1_zip (div O).  Definition p2_div_ew := p2_zip (div O).  Definition p3_div_ew := p3_zip (div O).
  Definition p1_rem_ew := p1_zip (rem O).  Definition p2_rem_ew := p2_zip (rem O).  Definition p3_rem_ew := p3_zip (rem O).
  Definition p1_add_ews (p : P1 F) (s : F) := p1_map (fun c => c + s) p.
  Definition p2_add_ews (p : P2 F) (s : F) := p2_map (fun c => c + s) p.
  Definition p3_add_ews (p : P3 F) (s : F) := p3_map (fun c => c + s) p.
  Definition p1_sub_ews (p : P1 F) (s : F) := p1_map (fun c => c - s) p.
  Definition p2_sub_ews (p : P2 F) (s : F) := p2_map (fun c => c - s) p.
  Definition p3_sub_ews (p : P3 F) (s : F) := p3_map (fun c => c - s) p.
  Definition p1_mul_ews := p1_mul_s.  Definition p2_mul_ews := p2_mul_s.  Definition p3_mul_ews := p3_mul_s.
  Definition p1_div_ews := p1_div_s.  Definition p2_div_ews := p2_div_s.  Definition p3_div_ews := p3_div_s.
  Definition p1_rem_ews := p1_rem_s.  Definition p2_rem_ews := p2_rem_s.  Definition p3_rem_ews := p3_rem_s.
  (* scalar on the left *)
  Definition p1_smul (s : F) (p : P1 F) := p1_map (fun c => s * c) p.
  Definition p2_smul (s : F) (p : P2 F) := p2_map (fun c => s * c) p.
  Definition p3_smul (s : F) (p : P3 F) := p3_map (fun c => s * c) p.
  Definition p1_sdiv (s : F) (p : P1 F) := p1_map (fun c => s / c) p.
  Definition p2_sdiv (s : F) (p : P2 F) := p2_map (fun c => s / c) p.
  Definition p3_sdiv (s : F) (p : P3 F) := p3_map (fun c => s / c) p.
  Definition p1_srem (s : F) (p : P1 F) := p1_map (fun c => s %% c) p.
  Definition p2_srem (s : F) (p : P2 F) := p2_map (fun c => s %% c) p.
  Definition p3_srem (s : F) (p : P3 F) := p3_map (fun c => s %% c) p.
  (* Array::sum / product *)
  Definition p1_sum (p : P1 F) : F := p1x p.
  Definition p2_sum (p : P2 F) : F := p2x p + p2y p.
  Definition p3_sum (p : P3 F) : F := p3x p + (p3y p + p3z p).
  Definition p1_product (p : P1 F) : F := p1x p.
  Definition p2_product (p : P2 F) : F := p2x p * p2y p.
  Definition p3_product (p : P3 F) : F := p3x p * (p3y p * p3z p).
  (* EuclideanSpace *)
  Definition p1_origin : P1 F := mkP1 0.
  Definition p2_origin : P2 F := mkP2 0 0.
  Definition p3_origin : P3 F := mkP3 0 0 0.
  (* dot(self, v) = VectorN::new(self.x * v.x, ...).sum() *)
  Definition p1_dot (p : P1 F) (v : V1 F) : F := v1_sum (mkV1 (p1x p * v1x v)).
  Definition p2_dot (p : P2 F) (v : V2 F) : F := v2_sum O (mkV2 (p2x p * v2x v) (p2y p * v2y v)).
  Definition p3_dot (p : P3 F) (v : V3 F) : F :=
    v3_sum O (mkV3 (p3x p * v3x v) (p3y p * v3y v) (p3z p * v3z v)).
  (* midpoint(self, other) = self + (other - self) / (1 + 1) *)
  Definition p1_midpoint (p q : P1 F) := p1_add_v p (v1_div_s O (p1_sub_p q p) (1 + 1)).
  Definition p2_midpoint (p q : P2 F) := p2_add_v p (v2_div_s O (p2_sub_p q p) (1 + 1)).
  Definition p3_midpoint (p q : P3 F) := p3_add_v p (v3_div_s O (p3_sub_p q p) (1 + 1)).
  (* centroid(points) = from_vec(fold(zero, acc + p.to_vec()) / cast(points.len()));
     `n` is the scalar the cast of the length produces. *)
  Definition p1_centroid (ps : list (P1 F)) (n : F) : P1 F :=
    p1_from_vec (v1_div_s O (fold_left (fun acc p => v1_add O acc (p1_to_vec p)) ps (v1_zero O)) n).
  Definition p2_centroid (ps : list (P2 F)) (n : F) : P2 F :=
    p2_from_vec (v2_div_s O (fold_left (fun acc p => v2_add O acc (p2_to_vec p)) ps (v2_zero O)) n).
  Definition p3_centroid (ps : list (P3 F)) (n : F) : P3 F :=
    p3_from_vec (v3_div_s O (fold_left (fun acc p => v3_add O acc (p3_to_vec p)) ps (v3_zero O)) n).
  (* the scalar `cast(points.len())` *)
  Definition len_c (A : Type) (l : list A) : F := ofQ O (inject_Z (Z.of_nat (length l))).
  Definition p1_centroid_len (ps : list (P1 F)) := p1_centroid ps (len_c ps).
  Definition p2_centroid_len (ps : list (P2 F)) := p2_centroid ps (len_c ps).
  Definition p3_centroid_len (ps : list (P3 F)) := p3_centroid ps (len_c ps).
  (* MetricSpace::distance2(self, other) = (other - self).magnitude2() *)
  Definition p1_distance2 (a b : P1 F) : F := v1_magnitude2 O (p1_sub_p b a).
  Definition p2_distance2 (a b : P2 F) : F := v2_magnitude2 O (p2_sub_p b a).
  Definition p3_distance2 (a b : P3 F) : F := v3_magnitude2 O (p3_sub_p b a).
  (* homogeneous coordinates *)
  Definition p3_to_homogeneous (p : P3 F) : V4 F := mkV4 (p3x p) (p3y p) (p3z p) 1.
  Definition p3_from_homogeneous (v : V4 F) : P3 F :=
    let e := v3_mul_s O (v4_truncate v) (1 / v4w v) in mkP3 (v3x e) (v3y e) (v3z e).
End Pt.
