(* Model/Metric.v — the MetricSpace / InnerSpace defaults of src/structure.rs that need
   the scalar's sqrt / acos / atan2 (magnitude, distance, normalize, normalize_to,
   angle), for vectors 1-4, points 1-3 and quaternions; the Vector2 / Vector3 `angle`
   overrides of src/vector.rs. *)

From CG Require Import Scalar Model.Vector Model.Point.
Set Implicit Arguments.

Section M.
  Variable F : Type.
  Variable O : Ops F.
  Variable T : Trig F.
  Local Notation "1" := (one O).
  Local Infix "*" := (mul O).
  Local Infix "/" := (div O).

  (* magnitude(self) = sqrt(magnitude2()) *)
  Definition v1_magnitude (v : V1 F) : F := sqrt T (v1_magnitude2 O v).
  Definition v2_magnitude (v : V2 F) : F := sqrt T (v2_magnitude2 O v).
  Definition v3_magnitude (v : V3 F) : F := sqrt T (v3_magnitude2 O v).
  Definition v4_magnitude (v : V4 F) : F := sqrt T (v4_magnitude2 O v).
  (* normalize_to(self, m) = self * (m / self.magnitude()); normalize = normalize_to(1) *)
  Definition v1_normalize_to (v : V1 F) (m : F) := v1_mul_s O v (m / v1_magnitude v).
  Definition v2_normalize_to (v : V2 F) (m : F) := v2_mul_s O v (m / v2_magnitude v).
  Definition v3_normalize_to (v : V3 F) (m : F) := v3_mul_s O v (m / v3_magnitude v).
  Definition v4_normalize_to (v : V4 F) (m : F) := v4_mul_s O v (m / v4_magnitude v).
  Definition v1_normalize (v : V1 F) := v1_normalize_to v 1.
  Definition v2_normalize (v : V2 F) := v2_normalize_to v 1.
  Definition v3_normalize (v : V3 F) := v3_normalize_to v 1.
  Definition v4_normalize (v : V4 F) := v4_normalize_to v 1.
  (* distance(self, other) = sqrt(distance2(self, other)) *)
  Definition v1_distance (a b : V1 F) : F := sqrt T (v1_distance2 O a b).
  Definition v2_distance (a b : V2 F) : F := sqrt T (v2_distance2 O a b).
  Definition v3_distance (a b : V3 F) : F := sqrt T (v3_distance2 O a b).
  Definition v4_distance (a b : V4 F) : F := sqrt T (v4_distance2 O a b).
  Definition p1_distance (a b : P1 F) : F := sqrt T (p1_distance2 O a b).
  Definition p2_distance (a b : P2 F) : F := sqrt T (p2_distance2 O a b).
  Definition p3_distance (a b : P3 F) : F := sqrt T (p3_distance2 O a b).
  (* angle: generic default acos(dot / (|a| |b|)) for Vector1, Vector4 (and quaternions);
     Vector2: atan2(perp_dot, dot); Vector3: atan2(|cross|, dot).  Result in radians. *)
  Definition v1_angle (a b : V1 F) : F := acos T (v1_dot O a b / (v1_magnitude a * v1_magnitude b)).
  Definition v4_angle (a b : V4 F) : F := acos T (v4_dot O a b / (v4_magnitude a * v4_magnitude b)).
  Definition v2_angle (a b : V2 F) : F := atan2 T (v2_perp_dot O a b) (v2_dot O a b).
  Definition v3_angle (a b : V3 F) : F := atan2 T (v3_magnitude (v3_cross O a b)) (v3_dot O a b).
End M.
