(* Model/Projection.v — src/projection.rs.  Every `assert!` is an option guard in source order
   (None = the constructor panics). *)

From Coq Require Import List ZArith.
From CG Require Import Scalar Model.Vector Model.Point Model.Matrix Model.Angle.
Import ListNotations.
Set Implicit Arguments.

Section P.
  Variable F : Type.
  Variable O : Ops F.
  Variable T : Trig F.
  Variable A : Approx F.
  Local Notation "0" := (zero O).
  Local Notation "1" := (one O).
  Local Infix "+" := (add O).
  Local Infix "-" := (sub O).
  Local Infix "*" := (mul O).
  Local Infix "/" := (div O).
  Local Notation "- x" := (opp O x).
  Let two := nat_c O 2%Z.
  Definition abs_diff_ne_d (a b : F) : bool := negb (abs_diff_eq_d A a b).
  Definition guard (b : bool) (k : option (M4 F)) : option (M4 F) := if b then k else None.

  (* From<Ortho> for Matrix4 (no assertions) *)
  Definition m4_ortho (l r b t n f : F) : M4 F :=
    m4_new (two / (r - l)) 0 0 0
           0 (two / (t - b)) 0 0
           0 0 (- two / (f - n)) 0
           (- (r + l) / (r - l)) (- (t + b) / (t - b)) (- (f + n) / (f - n)) 1.

  (* From<Perspective> for Matrix4 *)
  Definition m4_frustum (l r b t n f : F) : option (M4 F) :=
    guard (leb O l r) (guard (leb O b t) (guard (leb O n f)
      (Some (m4_new ((two * n) / (r - l)) 0 0 0
                    0 ((two * n) / (t - b)) 0 0
                    ((r + l) / (r - l)) ((t + b) / (t - b)) (- (f + n) / (f - n)) (opp O 1)
                    0 0 (- (two * f * n) / (f - n)) 0)))).

  (* PerspectiveFov::to_perspective: (left, right, bottom, top, near, far); fovy in radians *)
  Definition to_perspective (fovy aspect n f : F) : list F :=
    let angle := fovy / two in
    let ymax := n * tan T angle in
    let xmax := ymax * aspect in
    [- xmax; xmax; - ymax; ymax; n; f].

  (* From<PerspectiveFov> for Matrix4 *)
  Definition m4_perspective (fovy aspect n f : F) : option (M4 F) :=
    guard (ltb O 0 fovy)
   (guard (ltb O fovy (turn_div_2 O (URad O)))
   (guard (abs_diff_ne_d (fabs O aspect) 0)
   (guard (ltb O 0 n)
   (guard (ltb O 0 f)
   (guard (abs_diff_ne_d f n)
     (let ff := inv O (tan T (fovy / two)) in        (* Rad::cot *)
      Some (m4_new (ff / aspect) 0 0 0
                   0 ff 0 0
                   0 0 ((f + n) / (n - f)) (opp O 1)
                   0 0 ((two * f * n) / (n - f)) 0))))))).

  (* From<PlanarFov> for Matrix4 *)
  Definition m4_planar (fovy aspect h n f : F) : option (M4 F) :=
    guard (ltb O (- turn_div_2 O (URad O)) fovy)
   (guard (ltb O fovy (turn_div_2 O (URad O)))
   (guard (leb O 0 h)
     (let inv_f := tan T (fovy / two) * two / h in
      let focal := - inv O inv_f in
      guard (abs_diff_ne_d (fabs O aspect) 0)
     (guard (abs_diff_ne_d f n)
     (guard (orb (ltb O focal (fmin O f n)) (ltb O (fmax O f n) focal))
       (Some (m4_new (two / (aspect * h)) 0 0 0
                     0 (two / h) 0 0
                     0 0 (((f + n) * inv_f + two) / (n - f)) (- inv_f)
                     0 0 ((two * f * n * inv_f + (f + n)) / (n - f)) 1))))))).
End P.
