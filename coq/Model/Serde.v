(* Model/Serde.v — property C20: the serde data model of the serialisable cgmath types (derive(Serialize,
   Deserialize) on the structs; the hand-written impls for Decomposed in src/transform.rs).
   A serialised value is a tree: leaf scalars are opaque, newtype structs (Rad, Deg) are transparent
   wrappers, structs are lists of (field name, subtree) in declaration order. *)

From Coq Require Import List String Bool Arith.
From CG Require Import Scalar Model.Vector Model.Point Model.Matrix Model.Quaternion Model.Euler Model.Transform.
Import ListNotations.
Open Scope string_scope.
Set Implicit Arguments.

Section Tree.
  Variable L : Type.   (* leaf scalars, opaque *)
  Inductive sval :=
  | SLeaf (x : L)
  | SNewtype (name : string) (s : sval)                   (* Rad(x), Deg(x): "angles as bare numbers" *)
  | SStruct (name : string) (fields : list (string * sval)).

  Definition fld (n : string) (s : sval) := (n, s).
  Definition leaf (x : L) := SLeaf x.
  (* ---- Serialize (derived): fields by their public names, in declaration order ---- *)
  Definition ser_v1 (v : V1 L) := SStruct "Vector1" [fld "x" (leaf (v1x v))].
  Definition ser_v2 (v : V2 L) := SStruct "Vector2" [fld "x" (leaf (v2x v)); fld "y" (leaf (v2y v))].
  Definition ser_v3 (v : V3 L) := SStruct "Vector3" [fld "x" (leaf (v3x v)); fld "y" (leaf (v3y v)); fld "z" (leaf (v3z v))].
  Definition ser_v4 (v : V4 L) :=
    SStruct "Vector4" [fld "x" (leaf (v4x v)); fld "y" (leaf (v4y v)); fld "z" (leaf (v4z v)); fld "w" (leaf (v4w v))].
  Definition ser_p1 (v : P1 L) := SStruct "Point1" [fld "x" (leaf (p1x v))].
  Definition ser_p2 (v : P2 L) := SStruct "Point2" [fld "x" (leaf (p2x v)); fld "y" (leaf (p2y v))].
  Definition ser_p3 (v : P3 L) := SStruct "Point3" [fld "x" (leaf (p3x v)); fld "y" (leaf (p3y v)); fld "z" (leaf (p3z v))].
  Definition ser_m2 (m : M2 L) := SStruct "Matrix2" [fld "x" (ser_v2 (m2x m)); fld "y" (ser_v2 (m2y m))].
  Definition ser_m3 (m : M3 L) := SStruct "Matrix3" [fld "x" (ser_v3 (m3x m)); fld "y" (ser_v3 (m3y m)); fld "z" (ser_v3 (m3z m))].
  Definition ser_m4 (m : M4 L) :=
    SStruct "Matrix4" [fld "x" (ser_v4 (m4x m)); fld "y" (ser_v4 (m4y m)); fld "z" (ser_v4 (m4z m)); fld "w" (ser_v4 (m4w m))].
  Definition ser_quat (q : Quat L) := SStruct "Quaternion" [fld "v" (ser_v3 (qv q)); fld "s" (leaf (qs q))].
  Definition ser_rad (a : L) := SNewtype "Rad" (leaf a).
  Definition ser_deg (a : L) := SNewtype "Deg" (leaf a).
  Definition ser_euler (an : L -> sval) (e : Euler L) := SStruct "Euler" [fld "x" (an (ex e)); fld "y" (an (ey e)); fld "z" (an (ez e))].
  Definition ser_basis2 (b : M2 L) := SStruct "Basis2" [fld "mat" (ser_m2 b)].
  Definition ser_basis3 (b : M3 L) := SStruct "Basis3" [fld "mat" (ser_m3 b)].
  Definition ser_dec (R V : Type) (sr : R -> sval) (sv : V -> sval) (d : Decomposed L R V) :=
    SStruct "Decomposed" [fld "scale" (leaf (d_scale d)); fld "rot" (sr (d_rot d)); fld "disp" (sv (d_disp d))].
  (* projection descriptions: (fovy : Rad, aspect, near, far), (left..far), (fovy, aspect, height, near, far) *)
  Definition ser_perspective_fov (fovy aspect near far : L) :=
    SStruct "PerspectiveFov" [fld "fovy" (ser_rad fovy); fld "aspect" (leaf aspect); fld "near" (leaf near); fld "far" (leaf far)].
  Definition ser_box (name : string) (l r b t n f : L) :=
    SStruct name [fld "left" (leaf l); fld "right" (leaf r); fld "bottom" (leaf b); fld "top" (leaf t); fld "near" (leaf n); fld "far" (leaf f)].
  Definition ser_planar_fov (fovy aspect height near far : L) :=
    SStruct "PlanarFov" [fld "fovy" (ser_rad fovy); fld "aspect" (leaf aspect); fld "height" (leaf height); fld "near" (leaf near); fld "far" (leaf far)].

  (* ---- Deserialize (derived) on a struct tree: every field looked up by name, all must be present ---- *)
  Fixpoint lookup (n : string) (fs : list (string * sval)) : option sval :=
    match fs with [] => None | (k, s) :: t => if String.eqb k n then Some s else lookup n t end.
  Definition de_leaf (s : sval) : option L := match s with SLeaf x => Some x | _ => None end.
  Definition de_newtype (s : sval) : option L := match s with SNewtype _ (SLeaf x) => Some x | SLeaf x => Some x | _ => None end.
  Definition fields_of (s : sval) : option (list (string * sval)) := match s with SStruct _ fs => Some fs | _ => None end.
  Definition ob (A B : Type) (o : option A) (f : A -> option B) : option B := match o with Some a => f a | None => None end.
  Definition get (fs : list (string * sval)) (n : string) (A : Type) (d : sval -> option A) : option A := ob (lookup n fs) d.
  Definition de_v1 (s : sval) : option (V1 L) := ob (fields_of s) (fun fs => ob (get fs "x" de_leaf) (fun x => Some (mkV1 x))).
  Definition de_v2 (s : sval) : option (V2 L) :=
    ob (fields_of s) (fun fs => ob (get fs "x" de_leaf) (fun x => ob (get fs "y" de_leaf) (fun y => Some (mkV2 x y)))).
  Definition de_v3 (s : sval) : option (V3 L) :=
    ob (fields_of s) (fun fs => ob (get fs "x" de_leaf) (fun x => ob (get fs "y" de_leaf) (fun y => ob (get fs "z" de_leaf) (fun z => Some (mkV3 x y z))))).
  Definition de_v4 (s : sval) : option (V4 L) :=
    ob (fields_of s) (fun fs => ob (get fs "x" de_leaf) (fun x => ob (get fs "y" de_leaf) (fun y => ob (get fs "z" de_leaf) (fun z =>
      ob (get fs "w" de_leaf) (fun w => Some (mkV4 x y z w)))))).
  Definition de_p3 (s : sval) : option (P3 L) :=
    ob (fields_of s) (fun fs => ob (get fs "x" de_leaf) (fun x => ob (get fs "y" de_leaf) (fun y => ob (get fs "z" de_leaf) (fun z => Some (mkP3 x y z))))).
  Definition de_p2 (s : sval) : option (P2 L) :=
    ob (fields_of s) (fun fs => ob (get fs "x" de_leaf) (fun x => ob (get fs "y" de_leaf) (fun y => Some (mkP2 x y)))).
  Definition de_p1 (s : sval) : option (P1 L) := ob (fields_of s) (fun fs => ob (get fs "x" de_leaf) (fun x => Some (mkP1 x))).
  Definition de_m2 (s : sval) : option (M2 L) :=
    ob (fields_of s) (fun fs => ob (get fs "x" de_v2) (fun x => ob (get fs "y" de_v2) (fun y => Some (mkM2 x y)))).
  Definition de_m3 (s : sval) : option (M3 L) :=
    ob (fields_of s) (fun fs => ob (get fs "x" de_v3) (fun x => ob (get fs "y" de_v3) (fun y => ob (get fs "z" de_v3) (fun z => Some (mkM3 x y z))))).
  Definition de_m4 (s : sval) : option (M4 L) :=
    ob (fields_of s) (fun fs => ob (get fs "x" de_v4) (fun x => ob (get fs "y" de_v4) (fun y => ob (get fs "z" de_v4) (fun z =>
      ob (get fs "w" de_v4) (fun w => Some (mkM4 x y z w)))))).
  Definition de_quat (s : sval) : option (Quat L) :=
    ob (fields_of s) (fun fs => ob (get fs "v" de_v3) (fun v => ob (get fs "s" de_leaf) (fun sc => Some (mkQuat v sc)))).
  Definition de_euler (s : sval) : option (Euler L) :=
    ob (fields_of s) (fun fs => ob (get fs "x" de_newtype) (fun x => ob (get fs "y" de_newtype) (fun y => ob (get fs "z" de_newtype) (fun z => Some (mkEuler x y z))))).
  Definition de_basis2 (s : sval) : option (M2 L) := ob (fields_of s) (fun fs => get fs "mat" de_m2).
  Definition de_basis3 (s : sval) : option (M3 L) := ob (fields_of s) (fun fs => get fs "mat" de_m3).

  (* ---- the hand-written Decomposed visitor: a loop over the (key, value) entries in document order ----
     unknown key => error; a repeated key overwrites; after the loop every field must have been seen. *)
  Section Dec.
    Variables R V : Type.
    Variable dr : sval -> option R.
    Variable dv : sval -> option V.
    Record acc := mkAcc { a_scale : option L; a_rot : option R; a_disp : option V }.
    Definition visit_entry (a : option acc) (kv : string * sval) : option acc :=
      match a with
      | None => None
      | Some a =>
          let (k, s) := kv in
          if String.eqb k "scale" then ob (de_leaf s) (fun x => Some (mkAcc (Some x) (a_rot a) (a_disp a)))
          else if String.eqb k "rot" then ob (dr s) (fun x => Some (mkAcc (a_scale a) (Some x) (a_disp a)))
          else if String.eqb k "disp" then ob (dv s) (fun x => Some (mkAcc (a_scale a) (a_rot a) (Some x)))
          else None     (* "expected scale, rot or disp" *)
      end.
    Definition de_dec_entries (kvs : list (string * sval)) : option (Decomposed L R V) :=
      match fold_left visit_entry kvs (Some (mkAcc None None None)) with
      | Some (mkAcc (Some s) (Some r) (Some d)) => Some (mkDec s r d)
      | _ => None      (* missing_field / earlier error *)
      end.
    Definition de_dec (s : sval) : option (Decomposed L R V) := ob (fields_of s) de_dec_entries.
  End Dec.
End Tree.
