(* Model/Rotation.v — angle / axis-angle / look-at constructors of src/matrix.rs,
   Basis2 / Basis3 of src/rotation.rs (a basis is modelled by its matrix), the Rotation
   impls for Quaternion (look_at, between_vectors, from_arc) of src/quaternion.rs. *)

From Coq Require Import List ZArith.
From CG Require Import Scalar Model.Vector Model.Point Model.Matrix Model.Angle Model.Quaternion Model.Metric.
Import ListNotations.
Set Implicit Arguments.

Section R.
  Variable F : Type.
  Variable O : Ops F.
  Variable T : Trig F.
  Local Notation "0" := (zero O).
  Local Notation "1" := (one O).
  Local Infix "+" := (add O).
  Local Infix "-" := (sub O).
  Local Infix "*" := (mul O).
  Local Infix "/" := (div O).
  Local Notation "- x" := (opp O x).

  (* ---------- 2-D ---------- *)
  Definition m2_look_at_stable (dir : V2 F) (flip : bool) : M2 F :=
    let b1 := v2_normalize O T dir in
    let b2 := if flip then mkV2 (v2y b1) (- v2x b1) else mkV2 (- v2y b1) (v2x b1) in
    m2_from_cols b1 b2.
  Definition m2_look_at (dir up : V2 F) : M2 F :=
    m2_look_at_stable dir (leb O (v2y up * v2x dir) (v2x up * v2y dir)).   (* up.x*dir.y >= up.y*dir.x *)

  (* ---------- 3-D look_to ---------- *)
  Definition m3_look_to_lh (dir up : V3 F) : M3 F :=
    let dir := v3_normalize O T dir in
    let side := v3_normalize O T (v3_cross O up dir) in
    let up := v3_normalize O T (v3_cross O dir side) in
    m3_transpose (m3_from_cols side up dir).
  Definition m3_look_to_rh (dir up : V3 F) : M3 F := m3_look_to_lh (v3_neg O dir) up.
  Definition m4_look_to_rh (eye : P3 F) (dir up : V3 F) : M4 F :=
    let f := v3_normalize O T dir in
    let s := v3_normalize O T (v3_cross O f up) in
    let u := v3_cross O s f in
    m4_new (v3x s) (v3x u) (- v3x f) 0
           (v3y s) (v3y u) (- v3y f) 0
           (v3z s) (v3z u) (- v3z f) 0
           (- p3_dot O eye s) (- p3_dot O eye u) (p3_dot O eye f) 1.
  Definition m4_look_to_lh (eye : P3 F) (dir up : V3 F) : M4 F := m4_look_to_rh eye (v3_neg O dir) up.
  Definition m4_look_at_rh (eye center : P3 F) (up : V3 F) : M4 F := m4_look_to_rh eye (p3_sub_p O center eye) up.
  Definition m4_look_at_lh (eye center : P3 F) (up : V3 F) : M4 F := m4_look_to_lh eye (p3_sub_p O center eye) up.
  (* Transform::look_at* for Matrix3 as a 2-D transform, Matrix3 as a 3-D one *)
  Definition m3_t2_look_at (eye center : P2 F) (up : V2 F) : M3 F := m3_of_m2 O (m2_look_at (p2_sub_p O center eye) up).
  Definition m3_t2_look_at_rh (eye center : P2 F) (up : V2 F) : M3 F := m3_of_m2 O (m2_look_at (p2_sub_p O eye center) up).
  Definition m3_t2_look_at_lh (eye center : P2 F) (up : V2 F) : M3 F := m3_of_m2 O (m2_look_at (p2_sub_p O center eye) up).
  Definition m3_t3_look_at (eye center : P3 F) (up : V3 F) : M3 F := m3_look_to_lh (p3_sub_p O center eye) up.
  Definition m3_t3_look_at_rh (eye center : P3 F) (up : V3 F) : M3 F := m3_look_to_rh (p3_sub_p O center eye) up.
  Definition m3_t3_look_at_lh (eye center : P3 F) (up : V3 F) : M3 F := m3_look_to_lh (p3_sub_p O center eye) up.

  (* ---------- angle constructors (theta in the unit U) ---------- *)
  Variable U : Unit F.
  Definition sc (theta : F) : F * F := ang_sin_cos T (URad O) (to_rad U theta).
  Definition m2_from_angle (theta : F) : M2 F :=
    let s := fst (sc theta) in let c := snd (sc theta) in m2_new c s (- s) c.
  Definition m3_from_angle_x (theta : F) : M3 F :=
    let s := fst (sc theta) in let c := snd (sc theta) in m3_new 1 0 0 0 c s 0 (- s) c.
  Definition m3_from_angle_y (theta : F) : M3 F :=
    let s := fst (sc theta) in let c := snd (sc theta) in m3_new c 0 (- s) 0 1 0 s 0 c.
  Definition m3_from_angle_z (theta : F) : M3 F :=
    let s := fst (sc theta) in let c := snd (sc theta) in m3_new c s 0 (- s) c 0 0 0 1.
  Definition m3_from_axis_angle (axis : V3 F) (angle : F) : M3 F :=
    let s := fst (sc angle) in let c := snd (sc angle) in
    let k := 1 - c in
    let ax := v3x axis in let ay := v3y axis in let az := v3z axis in
    m3_new (k * ax * ax + c) (k * ax * ay + s * az) (k * ax * az - s * ay)
           (k * ax * ay - s * az) (k * ay * ay + c) (k * ay * az + s * ax)
           (k * ax * az + s * ay) (k * ay * az - s * ax) (k * az * az + c).
  Definition m4_from_angle_x (theta : F) : M4 F :=
    let s := fst (sc theta) in let c := snd (sc theta) in m4_new 1 0 0 0 0 c s 0 0 (- s) c 0 0 0 0 1.
  Definition m4_from_angle_y (theta : F) : M4 F :=
    let s := fst (sc theta) in let c := snd (sc theta) in m4_new c 0 (- s) 0 0 1 0 0 s 0 c 0 0 0 0 1.
  Definition m4_from_angle_z (theta : F) : M4 F :=
    let s := fst (sc theta) in let c := snd (sc theta) in m4_new c s 0 0 (- s) c 0 0 0 0 1 0 0 0 0 1.
  Definition m4_from_axis_angle (axis : V3 F) (angle : F) : M4 F :=
    let s := fst (sc angle) in let c := snd (sc angle) in
    let k := 1 - c in
    let ax := v3x axis in let ay := v3y axis in let az := v3z axis in
    m4_new (k * ax * ax + c) (k * ax * ay + s * az) (k * ax * az - s * ay) 0
           (k * ax * ay - s * az) (k * ay * ay + c) (k * ay * az + s * ax) 0
           (k * ax * az + s * ay) (k * ay * az - s * ax) (k * az * az + c) 0
           0 0 0 1.

  (* ---------- Basis2 (a Matrix2) ---------- *)
  Definition basis2_from_angle := m2_from_angle.
  Definition basis2_look_at := m2_look_at.
  Definition basis2_look_at_stable := m2_look_at_stable.
  Definition basis2_one : M2 F := m2_identity O.
  Definition basis2_mul := m2_mul O.
  Definition basis2_rotate_vector (b : M2 F) (v : V2 F) : V2 F := m2_mul_v O b v.
  Definition basis2_rotate_point (b : M2 F) (p : P2 F) : P2 F := p2_from_vec (basis2_rotate_vector b (p2_to_vec p)).
  Definition basis2_invert (b : M2 F) : option (M2 F) := m2_invert O b.     (* None = unwrap panics *)
  (* ---------- Basis3 (a Matrix3) ---------- *)
  Definition basis3_from_quaternion (q : Quat F) : M3 F := m3_of_quat O q.
  Definition quat_of_basis3 (b : M3 F) : Quat F := quat_of_m3 O T b.
  Definition basis3_look_at := m3_look_to_lh.
  Definition basis3_one : M3 F := m3_identity O.
  Definition basis3_mul := m3_mul O.
  Definition basis3_rotate_vector (b : M3 F) (v : V3 F) : V3 F := m3_mul_v O b v.
  Definition basis3_rotate_point (b : M3 F) (p : P3 F) : P3 F := p3_from_vec (basis3_rotate_vector b (p3_to_vec p)).
  Definition basis3_invert (b : M3 F) : option (M3 F) := m3_invert O b.
  Definition basis3_from_axis_angle := m3_from_axis_angle.
  Definition basis3_from_angle_x := m3_from_angle_x.
  Definition basis3_from_angle_y := m3_from_angle_y.
  Definition basis3_from_angle_z := m3_from_angle_z.

  (* ---------- Rotation for Quaternion ---------- *)
  Definition quat_look_at (dir up : V3 F) : Quat F := quat_of_m3 O T (m3_look_to_lh dir up).

  Variable A : Approx F.
  (* between_vectors(a, b) *)
  Definition quat_between_vectors (a b : V3 F) : Quat F :=
    let k_cos_theta := v3_dot O a b in
    if ulps_eq_d A k_cos_theta 1 then quat_one O
    else
      let k := sqrt T (v3_magnitude2 O a * v3_magnitude2 O b) in
      if ulps_eq_d A (k_cos_theta / k) (opp O 1) then
        let orth := v3_cross O a (v3_unit_x O) in
        let orth := if ulps_eq_d A (v3_magnitude2 O orth) 0 then v3_cross O a (v3_unit_y O) else orth in
        quat_from_sv 0 (v3_normalize O T orth)
      else quat_normalize O T (quat_from_sv (k + k_cos_theta) (v3_cross O a b)).
  Definition basis3_between_vectors (a b : V3 F) : M3 F := m3_of_quat O (quat_between_vectors a b).
  (* Basis2::between_vectors(a, b) = from_angle(a.angle(b))
     (as repaired by /repo commit "fix: Basis2::between_vectors turns the short way from a to b") *)
  Definition basis2_between_vectors (a b : V2 F) : M2 F :=
    let th := v2_angle O T a b in
    let s := sin T th in let c := cos T th in m2_new c s (- s) c.
  (* the formula before the repair: from_angle(Rad::acos(a.dot(b))); kept for the refutation witness *)
  Definition basis2_between_vectors_old (a b : V2 F) : M2 F :=
    let th := acos T (v2_dot O a b) in
    let s := sin T th in let c := cos T th in m2_new c s (- s) c.
  (* Vector3 approx: ulps_eq!(v, &Zero::zero()) *)
  Definition v3_ulps_eq_d (a b : V3 F) : bool :=
    andb (ulps_eq_d A (v3x a) (v3x b)) (andb (ulps_eq_d A (v3y a) (v3y b)) (ulps_eq_d A (v3z a) (v3z b))).
  (* from_arc(src, dst, fallback) *)
  Definition quat_from_arc (src dst : V3 F) (fallback : option (V3 F)) : Quat F :=
    let mag_avg := sqrt T (v3_magnitude2 O src * v3_magnitude2 O dst) in
    let d := v3_dot O src dst in
    if ulps_eq_d A d mag_avg then quat_one O
    else if ulps_eq_d A d (- mag_avg) then
      let axis := match fallback with
        | Some ax => ax
        | None =>
            let v := v3_cross O (v3_unit_x O) src in
            let v := if v3_ulps_eq_d v (v3_zero O) then v3_cross O (v3_unit_y O) src else v in
            v3_normalize O T v
        end in
      quat_from_axis_angle O T (URad O) axis (turn_div_2 O (URad O))
    else quat_normalize O T (quat_from_sv (mag_avg + d) (v3_cross O src dst)).
End R.
