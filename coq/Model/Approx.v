(* Model/Approx.v — the approx::{AbsDiffEq, RelativeEq, UlpsEq} impls and the predicate methods
   (is_finite, is_zero, is_identity, is_diagonal, is_symmetric, is_invertible, is_perpendicular).
   The three relations have the same `&&`-chain for every compound type, so the chain is modelled once,
   parametric in the scalar comparison `sc` (the scalar relation with its tolerances already applied). *)

From Coq Require Import List Bool.
From CG Require Import Scalar Model.Vector Model.Point Model.Matrix Model.Angle Model.Quaternion Model.Euler Model.Transform.
Import ListNotations.
Set Implicit Arguments.

Section Chain.
  Variable F : Type.
  Variable sc : F -> F -> bool.

  Definition v1_cmp (a b : V1 F) : bool := sc (v1x a) (v1x b).
  Definition v2_cmp (a b : V2 F) : bool := sc (v2x a) (v2x b) && sc (v2y a) (v2y b).
  Definition v3_cmp (a b : V3 F) : bool := sc (v3x a) (v3x b) && sc (v3y a) (v3y b) && sc (v3z a) (v3z b).
  Definition v4_cmp (a b : V4 F) : bool :=
    sc (v4x a) (v4x b) && sc (v4y a) (v4y b) && sc (v4z a) (v4z b) && sc (v4w a) (v4w b).
  Definition p1_cmp (a b : P1 F) : bool := sc (p1x a) (p1x b).
  Definition p2_cmp (a b : P2 F) : bool := sc (p2x a) (p2x b) && sc (p2y a) (p2y b).
  Definition p3_cmp (a b : P3 F) : bool := sc (p3x a) (p3x b) && sc (p3y a) (p3y b) && sc (p3z a) (p3z b).
  (* matrices: column by column *)
  Definition m2_cmp (a b : M2 F) : bool := v2_cmp (m2x a) (m2x b) && v2_cmp (m2y a) (m2y b).
  Definition m3_cmp (a b : M3 F) : bool := v3_cmp (m3x a) (m3x b) && v3_cmp (m3y a) (m3y b) && v3_cmp (m3z a) (m3z b).
  Definition m4_cmp (a b : M4 F) : bool :=
    v4_cmp (m4x a) (m4x b) && v4_cmp (m4y a) (m4y b) && v4_cmp (m4z a) (m4z b) && v4_cmp (m4w a) (m4w b).
  (* quaternion: scalar part, then vector part *)
  Definition quat_cmp (a b : Quat F) : bool := sc (qs a) (qs b) && v3_cmp (qv a) (qv b).
  (* angles: the underlying number *)
  Definition ang_cmp (a b : F) : bool := sc a b.
  Definition euler_cmp (a b : Euler F) : bool := sc (ex a) (ex b) && sc (ey a) (ey b) && sc (ez a) (ez b).
  (* Basis2 / Basis3: their matrix *)
  Definition basis2_cmp := m2_cmp.
  Definition basis3_cmp := m3_cmp.
  (* Decomposed: scale, rot, disp *)
  Definition dec_cmp (R V : Type) (rc : R -> R -> bool) (vc : V -> V -> bool) (a b : Decomposed F R V) : bool :=
    sc (d_scale a) (d_scale b) && rc (d_rot a) (d_rot b) && vc (d_disp a) (d_disp b).
End Chain.

Section Pred.
  Variable F : Type.
  Variable O : Ops F.
  Variable A : Approx F.
  Local Notation fin := (is_finite A).

  (* is_finite: every component finite (Matrix4 tests w first, Quaternion the scalar part first) *)
  Definition v1_is_finite (v : V1 F) : bool := fin (v1x v).
  Definition v2_is_finite (v : V2 F) : bool := fin (v2x v) && fin (v2y v).
  Definition v3_is_finite (v : V3 F) : bool := fin (v3x v) && fin (v3y v) && fin (v3z v).
  Definition v4_is_finite (v : V4 F) : bool := fin (v4x v) && fin (v4y v) && fin (v4z v) && fin (v4w v).
  Definition p1_is_finite (v : P1 F) : bool := fin (p1x v).
  Definition p2_is_finite (v : P2 F) : bool := fin (p2x v) && fin (p2y v).
  Definition p3_is_finite (v : P3 F) : bool := fin (p3x v) && fin (p3y v) && fin (p3z v).
  Definition m2_is_finite (m : M2 F) : bool := v2_is_finite (m2x m) && v2_is_finite (m2y m).
  Definition m3_is_finite (m : M3 F) : bool := v3_is_finite (m3x m) && v3_is_finite (m3y m) && v3_is_finite (m3z m).
  Definition m4_is_finite (m : M4 F) : bool :=
    v4_is_finite (m4w m) && v4_is_finite (m4x m) && v4_is_finite (m4y m) && v4_is_finite (m4z m).
  Definition quat_is_finite (q : Quat F) : bool := fin (qs q) && v3_is_finite (qv q).

  (* the scalar comparisons behind the macros with default tolerances *)
  Definition s_ulps (eps : F) (a b : F) : bool := ulps_eq A a b eps (default_max_ulps A).
  Definition s_ulps_d := s_ulps (default_epsilon A).
  Definition mat_eps : F := ofQ O q_1em6.                 (* Matrix*::default_epsilon() = cast(1.0e-6) *)
  Definition s_ulps_m := s_ulps mat_eps.

  (* Zero::is_zero: vectors compare exactly with ==; matrices / quaternions / angles ulps-compare with zero() *)
  Definition v1_is_zero (v : V1 F) : bool := v1_cmp (eqb O) v (v1_zero O).
  Definition v2_is_zero (v : V2 F) : bool := v2_cmp (eqb O) v (v2_zero O).
  Definition v3_is_zero (v : V3 F) : bool := v3_cmp (eqb O) v (v3_zero O).
  Definition v4_is_zero (v : V4 F) : bool := v4_cmp (eqb O) v (v4_zero O).
  Definition m2_is_zero (m : M2 F) : bool := m2_cmp s_ulps_m m (m2_zero O).
  Definition m3_is_zero (m : M3 F) : bool := m3_cmp s_ulps_m m (m3_zero O).
  Definition m4_is_zero (m : M4 F) : bool := m4_cmp s_ulps_m m (m4_zero O).
  Definition quat_is_zero (q : Quat F) : bool := quat_cmp s_ulps_d q (quat_zero O).
  Definition ang_is_zero (a : F) : bool := s_ulps_d a (zero O).

  (* SquareMatrix predicates *)
  Definition m2_is_identity (m : M2 F) : bool := m2_cmp s_ulps_m m (m2_identity O).
  Definition m3_is_identity (m : M3 F) : bool := m3_cmp s_ulps_m m (m3_identity O).
  Definition m4_is_identity (m : M4 F) : bool := m4_cmp s_ulps_m m (m4_identity O).
  Definition m2_is_invertible (m : M2 F) : bool := negb (s_ulps_d (m2_determinant O m) (zero O)).
  Definition m3_is_invertible (m : M3 F) : bool := negb (s_ulps_d (m3_determinant O m) (zero O)).
  Definition m4_is_invertible (m : M4 F) : bool := negb (s_ulps_d (m4_determinant O m) (zero O)).
  Local Notation z := (zero O).
  Local Notation u := s_ulps_d.
  Definition m2_is_diagonal (m : M2 F) : bool := u (v2y (m2x m)) z && u (v2x (m2y m)) z.
  Definition m2_is_symmetric (m : M2 F) : bool := u (v2y (m2x m)) (v2x (m2y m)) && u (v2x (m2y m)) (v2y (m2x m)).
  Definition m3_is_diagonal (m : M3 F) : bool :=
    u (v3y (m3x m)) z && u (v3z (m3x m)) z && u (v3x (m3y m)) z && u (v3z (m3y m)) z && u (v3x (m3z m)) z && u (v3y (m3z m)) z.
  Definition m3_is_symmetric (m : M3 F) : bool :=
    u (v3y (m3x m)) (v3x (m3y m)) && u (v3z (m3x m)) (v3x (m3z m)) && u (v3x (m3y m)) (v3y (m3x m)) &&
    u (v3z (m3y m)) (v3y (m3z m)) && u (v3x (m3z m)) (v3z (m3x m)) && u (v3y (m3z m)) (v3z (m3y m)).
  Definition m4_is_diagonal (m : M4 F) : bool :=
    u (v4y (m4x m)) z && u (v4z (m4x m)) z && u (v4w (m4x m)) z &&
    u (v4x (m4y m)) z && u (v4z (m4y m)) z && u (v4w (m4y m)) z &&
    u (v4x (m4z m)) z && u (v4y (m4z m)) z && u (v4w (m4z m)) z &&
    u (v4x (m4w m)) z && u (v4y (m4w m)) z && u (v4z (m4w m)) z.
  Definition m4_is_symmetric (m : M4 F) : bool :=
    u (v4y (m4x m)) (v4x (m4y m)) && u (v4z (m4x m)) (v4x (m4z m)) && u (v4w (m4x m)) (v4x (m4w m)) &&
    u (v4x (m4y m)) (v4y (m4x m)) && u (v4z (m4y m)) (v4y (m4z m)) && u (v4w (m4y m)) (v4y (m4w m)) &&
    u (v4x (m4z m)) (v4z (m4x m)) && u (v4y (m4z m)) (v4z (m4y m)) && u (v4w (m4z m)) (v4z (m4w m)) &&
    u (v4x (m4w m)) (v4w (m4x m)) && u (v4y (m4w m)) (v4w (m4y m)) && u (v4z (m4w m)) (v4w (m4z m)).
  (* InnerSpace::is_perpendicular *)
  Definition v1_is_perpendicular (a b : V1 F) : bool := u (v1_dot O a b) z.
  Definition v2_is_perpendicular (a b : V2 F) : bool := u (v2_dot O a b) z.
  Definition v3_is_perpendicular (a b : V3 F) : bool := u (v3_dot O a b) z.
  Definition v4_is_perpendicular (a b : V4 F) : bool := u (v4_dot O a b) z.
  Definition quat_is_perpendicular (a b : Quat F) : bool := u (quat_dot O a b) z.
End Pred.
