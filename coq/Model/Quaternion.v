(* Model/Quaternion.v — src/quaternion.rs.  Field order of the struct is {v, s};
   Quaternion::new takes the scalar part first. *)

From Coq Require Import List ZArith.
From CG Require Import Scalar Model.Vector Model.Point Model.Matrix Model.Angle.
Import ListNotations.
Set Implicit Arguments.

Record Quat (F : Type) := mkQuat { qv : V3 F; qs : F }.

Section Generic.
  Variable A : Type.
  Definition quat_from_sv (s : A) (v : V3 A) : Quat A := mkQuat v s.
  Definition quat_new (w xi yj zk : A) : Quat A := quat_from_sv w (mkV3 xi yj zk).
  (* memory order x, y, z, s *)
  Definition quat_list (q : Quat A) : list A := v3_list (qv q) ++ [qs q].
  (* the order used by the harness: s, x, y, z (arguments of Quaternion::new) *)
  Definition quat_sxyz (q : Quat A) : list A := qs q :: v3_list (qv q).
End Generic.

Section Q.
  Variable F : Type.
  Variable O : Ops F.
  Local Notation "0" := (zero O).
  Local Notation "1" := (one O).
  Local Infix "+" := (add O).
  Local Infix "-" := (sub O).
  Local Infix "*" := (mul O).
  Local Infix "/" := (div O).
  Local Notation "- x" := (opp O x).
  Local Notation "x %% y" := (rem O x y) (at level 40, left associativity).

  Definition quat_zero : Quat F := quat_from_sv 0 (v3_zero O).
  Definition quat_one : Quat F := quat_from_sv 1 (v3_zero O).
  Definition quat_conjugate (q : Quat F) : Quat F := quat_from_sv (qs q) (v3_neg O (qv q)).
  Definition quat_neg (q : Quat F) : Quat F := quat_from_sv (- qs q) (v3_neg O (qv q)).
  Definition quat_add (a b : Quat F) : Quat F := quat_from_sv (qs a + qs b) (v3_add O (qv a) (qv b)).
  Definition quat_sub (a b : Quat F) : Quat F := quat_from_sv (qs a - qs b) (v3_sub O (qv a) (qv b)).
  Definition quat_mul_s (a : Quat F) (s : F) : Quat F := quat_from_sv (qs a * s) (v3_mul_s O (qv a) s).
  Definition quat_div_s (a : Quat F) (s : F) : Quat F := quat_from_sv (qs a / s) (v3_div_s O (qv a) s).
  Definition quat_rem_s (a : Quat F) (s : F) : Quat F := quat_from_sv (qs a %% s) (v3_rem_s O (qv a) s).
  (* scalar on the left (f32, f64 only) *)
  Definition quat_smul (s : F) (a : Quat F) : Quat F := quat_from_sv (s * qs a) (v3_smul O s (qv a)).
  Definition quat_sdiv (s : F) (a : Quat F) : Quat F := quat_from_sv (s / qs a) (v3_sdiv O s (qv a)).
  (* Hamilton product, as written *)
  Definition quat_mul (l r : Quat F) : Quat F :=
    let ls := qs l in let lx := v3x (qv l) in let ly := v3y (qv l) in let lz := v3z (qv l) in
    let rs := qs r in let rx := v3x (qv r) in let ry := v3y (qv r) in let rz := v3z (qv r) in
    quat_new (ls * rs - lx * rx - ly * ry - lz * rz)
             (ls * rx + lx * rs + ly * rz - lz * ry)
             (ls * ry + ly * rs + lz * rx - lx * rz)
             (ls * rz + lz * rs + lx * ry - ly * rx).
  (* Quaternion * Vector3: tmp = v x rhs + rhs * s ; (v x tmp) * 2 + rhs *)
  Definition quat_mul_v (q : Quat F) (r : V3 F) : V3 F :=
    let two := nat_c O 2%Z in
    let tmp := v3_add O (v3_cross O (qv q) r) (v3_mul_s O r (qs q)) in
    v3_add O (v3_mul_s O (v3_cross O (qv q) tmp) two) r.
  Definition quat_dot (a b : Quat F) : F := qs a * qs b + v3_dot O (qv a) (qv b).
  Definition quat_magnitude2 (a : Quat F) : F := quat_dot a a.
  Definition quat_distance2 (a b : Quat F) : F := quat_magnitude2 (quat_sub b a).
  Definition quat_lerp (a b : Quat F) (t : F) := quat_add a (quat_mul_s (quat_sub b a) t).
  (* Rotation for Quaternion *)
  Definition quat_rotate_vector (q : Quat F) (v : V3 F) : V3 F := quat_mul_v q v.
  Definition quat_rotate_point (q : Quat F) (p : P3 F) : P3 F := p3_from_vec (quat_rotate_vector q (p3_to_vec p)).
  Definition quat_invert (q : Quat F) : Quat F := quat_div_s (quat_conjugate q) (quat_magnitude2 q).

  (* From<Quaternion> for Matrix3 / Matrix4 *)
  Definition m3_of_quat (q : Quat F) : M3 F :=
    let x := v3x (qv q) in let y := v3y (qv q) in let z := v3z (qv q) in let s := qs q in
    let x2 := x + x in let y2 := y + y in let z2 := z + z in
    let xx2 := x2 * x in let xy2 := x2 * y in let xz2 := x2 * z in
    let yy2 := y2 * y in let yz2 := y2 * z in let zz2 := z2 * z in
    let sy2 := y2 * s in let sz2 := z2 * s in let sx2 := x2 * s in
    m3_new (1 - yy2 - zz2) (xy2 + sz2) (xz2 - sy2)
           (xy2 - sz2) (1 - xx2 - zz2) (yz2 + sx2)
           (xz2 + sy2) (yz2 - sx2) (1 - xx2 - yy2).
  Definition m4_of_quat (q : Quat F) : M4 F :=
    let x := v3x (qv q) in let y := v3y (qv q) in let z := v3z (qv q) in let s := qs q in
    let x2 := x + x in let y2 := y + y in let z2 := z + z in
    let xx2 := x2 * x in let xy2 := x2 * y in let xz2 := x2 * z in
    let yy2 := y2 * y in let yz2 := y2 * z in let zz2 := z2 * z in
    let sy2 := y2 * s in let sz2 := z2 * s in let sx2 := x2 * s in
    m4_new (1 - yy2 - zz2) (xy2 + sz2) (xz2 - sy2) 0
           (xy2 - sz2) (1 - xx2 - zz2) (yz2 + sx2) 0
           (xz2 + sy2) (yz2 - sx2) (1 - xx2 - yy2) 0
           0 0 0 1.

  Variable T : Trig F.
  Definition quat_magnitude (q : Quat F) : F := sqrt T (quat_magnitude2 q).
  Definition quat_normalize_to (q : Quat F) (m : F) : Quat F := quat_mul_s q (m / quat_magnitude q).
  Definition quat_normalize (q : Quat F) : Quat F := quat_normalize_to q 1.
  Definition quat_distance (a b : Quat F) : F := sqrt T (quat_distance2 a b).
  (* InnerSpace defaults: angle = acos(dot / (|a| |b|)); project_on = other * (dot / other.magnitude2()) *)
  Definition quat_angle (a b : Quat F) : F := acos T (quat_dot a b / (quat_magnitude a * quat_magnitude b)).
  Definition quat_project_on (a b : Quat F) : Quat F := quat_mul_s b (quat_dot a b / quat_magnitude2 b).

  (* From<Matrix3> for Quaternion: four branches *)
  Definition quat_of_m3 (m : M3 F) : Quat F :=
    let m00 := v3x (m3x m) in let m01 := v3y (m3x m) in let m02 := v3z (m3x m) in
    let m10 := v3x (m3y m) in let m11 := v3y (m3y m) in let m12 := v3z (m3y m) in
    let m20 := v3x (m3z m) in let m21 := v3y (m3z m) in let m22 := v3z (m3z m) in
    let trace := m3_trace O m in
    let half := ofQ O q_half in
    if leb O 0 trace then
      let s := sqrt T (1 + trace) in
      let w := half * s in
      let s := half / s in
      quat_new w ((m12 - m21) * s) ((m20 - m02) * s) ((m01 - m10) * s)
    else if andb (ltb O m11 m00) (ltb O m22 m00) then
      let s := sqrt T ((m00 - m11 - m22) + 1) in
      let x := half * s in
      let s := half / s in
      quat_new ((m12 - m21) * s) x ((m10 + m01) * s) ((m02 + m20) * s)
    else if ltb O m22 m11 then
      let s := sqrt T ((m11 - m00 - m22) + 1) in
      let y := half * s in
      let s := half / s in
      quat_new ((m20 - m02) * s) ((m10 + m01) * s) y ((m21 + m12) * s)
    else
      let s := sqrt T ((m22 - m00 - m11) + 1) in
      let z := half * s in
      let s := half / s in
      quat_new ((m01 - m10) * s) ((m02 + m20) * s) ((m21 + m12) * s) z.

  (* Rotation3::from_axis_angle for Quaternion: half angle *)
  Variable U : Unit F.
  Definition quat_from_axis_angle (axis : V3 F) (angle : F) : Quat F :=
    let a := to_rad U angle * ofQ O q_half in
    quat_from_sv (cos T a) (v3_mul_s O axis (sin T a)).
  Definition quat_from_angle_x (t : F) := quat_from_axis_angle (v3_unit_x O) t.
  Definition quat_from_angle_y (t : F) := quat_from_axis_angle (v3_unit_y O) t.
  Definition quat_from_angle_z (t : F) := quat_from_axis_angle (v3_unit_z O) t.

  (* nlerp / slerp *)
  Definition quat_nlerp (a b : Quat F) (t : F) : Quat F :=
    let b := if ltb O (quat_dot a b) 0 then quat_neg b else b in
    quat_normalize (quat_add (quat_mul_s a (1 - t)) (quat_mul_s b t)).
  Definition quat_slerp (a b : Quat F) (t : F) : Quat F :=
    let d := quat_dot a b in
    let thr := ofQ O q_09995 in
    let neg := ltb O d 0 in
    let b := if neg then quat_neg b else b in
    let d := if neg then - d else d in
    if ltb O thr d then quat_nlerp a b t
    else
      let robust := fmax O (fmin O d 1) (opp O 1) in
      let theta := acos T robust in
      let scale1 := sin T (theta * (1 - t)) in
      let scale2 := sin T (theta * t) in
      quat_normalize (quat_add (quat_mul_s a scale1) (quat_mul_s b scale2)).
End Q.
