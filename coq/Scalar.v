(* Scalar.v — the scalar interface the cgmath model is parametric in.

   cgmath never looks inside its scalar parameter `S`; every arithmetic
   operation, comparison, `sqrt`, `sin_cos`, `acos`, `atan2`, `ulps_eq!` and
   `NumCast::from` is a call on the scalar.  The model therefore takes three
   records of operations:

     Ops F     ring/field operations, `%`, comparisons, embedding of the
               (dyadic) literals the code obtains through `cast(<f64 literal>)`
     Trig F    sqrt and the (inverse) trigonometric functions   — oracles
     Approx F  the three `approx` comparisons and is_finite     — oracles

   The same polymorphic model definitions are instantiated at
     * an abstract field (Proofs, hypotheses `field_theory`/`ring_theory`),
     * Coq's reals R (Proofs, files ending in R),
     * executable rationals Qc / integers Z (Exec), which is what the
       correspondence check runs against the Rust implementation.           *)

From Coq Require Import ZArith QArith List Bool.

Set Implicit Arguments.

Record Ops (F : Type) : Type := mkOps {
  zero : F;
  one  : F;
  add  : F -> F -> F;
  sub  : F -> F -> F;
  mul  : F -> F -> F;
  div  : F -> F -> F;
  opp  : F -> F;
  inv  : F -> F;                 (* 1/x ; `Float::recip` *)
  rem  : F -> F -> F;            (* `%` : truncated remainder (fmod / Z.rem) *)
  eqb  : F -> F -> bool;         (* `==`  *)
  ltb  : F -> F -> bool;         (* `<`   *)
  leb  : F -> F -> bool;         (* `<=`  *)
  ofQ  : Q -> F                  (* `cast(<literal>)`: exact value of the f64 literal *)
}.

Record Trig (F : Type) : Type := mkTrig {
  sqrt : F -> F;
  sin  : F -> F;
  cos  : F -> F;
  tan  : F -> F;
  asin : F -> F;
  acos : F -> F;
  atan : F -> F;
  atan2 : F -> F -> F            (* atan2 y x *)
}.

Record Approx (F : Type) : Type := mkApprox {
  abs_diff_eq : F -> F -> F -> bool;            (* a b epsilon *)
  relative_eq : F -> F -> F -> F -> bool;       (* a b epsilon max_relative *)
  ulps_eq     : F -> F -> F -> N -> bool;       (* a b epsilon max_ulps *)
  default_epsilon : F;
  default_max_relative : F;
  default_max_ulps : N;
  is_finite : F -> bool
}.

Section Derived.
  Variable F : Type.
  Variable O : Ops F.

  Definition two : F := add O (one O) (one O).
  Definition gtb (a b : F) : bool := ltb O b a.
  Definition geb (a b : F) : bool := leb O b a.
  Definition neqb (a b : F) : bool := negb (eqb O a b).
  (* Float::abs, Float::min, Float::max, partial_min / partial_max *)
  Definition fabs (a : F) : F := if ltb O a (zero O) then opp O a else a.
  Definition fmin (a b : F) : F := if leb O a b then a else b.
  Definition fmax (a b : F) : F := if leb O b a then a else b.
  Definition sqr (a : F) : F := mul O a a.
End Derived.

(* approx's macro defaults: ulps_eq!(a, b) = ulps_eq a b default_epsilon default_max_ulps, ... *)
Section ApproxDefaults.
  Variable F : Type.
  Variable A : Approx F.
  Definition ulps_eq_d (a b : F) : bool := ulps_eq A a b (default_epsilon A) (default_max_ulps A).
  Definition abs_diff_eq_d (a b : F) : bool := abs_diff_eq A a b (default_epsilon A).
  Definition relative_eq_d (a b : F) : bool :=
    relative_eq A a b (default_epsilon A) (default_max_relative A).
End ApproxDefaults.
