(* Exec/RunC13.v — dispatcher for Rad / Deg (src/angle.rs, the Angle defaults of src/structure.rs). *)
From Coq Require Import ZArith QArith Qcanon List Bool Ascii String.
From CG Require Import Scalar Model.Vector Model.Point Model.Matrix Model.Angle Exec.ExecQ Exec.Args Exec.RunC01.
Import ListNotations.
Open Scope string_scope.
Set Implicit Arguments.

Section G.
  Variable F : Type.
  Variable O : Ops F.
  Variable T : Trig F.
  Variable A : Approx F.
  Variable toNat : F -> nat.


  Local Notation rs := (@rd_s F).
Definition rall : rd F (list F) := @rd_rest F.

Definition tab_unit13 (T : Trig F) (U : Unit F) (sfx : string) : list (string * (list F -> gval F)) := [
  ("full_turn" ++ sfx, grun0 (S:=F) (gs (full_turn U)));
  ("turn_div_2" ++ sfx, grun0 (S:=F) (gs (turn_div_2 O U)));
  ("turn_div_3" ++ sfx, grun0 (S:=F) (gs (turn_div_3 O U)));
  ("turn_div_4" ++ sfx, grun0 (S:=F) (gs (turn_div_4 O U)));
  ("turn_div_6" ++ sfx, grun0 (S:=F) (gs (turn_div_6 O U)));
  ("normalize" ++ sfx, grun1 rs (fun a => gs (ang_normalize O U a)));
  ("normalize_signed" ++ sfx, grun1 rs (fun a => gs (ang_normalize_signed O U a)));
  ("opposite" ++ sfx, grun1 rs (fun a => gs (ang_opposite O U a)));
  ("bisect" ++ sfx, grun2 rs rs (fun a b => gs (ang_bisect O U a b)));
  ("to_rad" ++ sfx, grun1 rs (fun a => gs (to_rad U a)));
  ("of_rad" ++ sfx, grun1 rs (fun a => gs (of_rad U a)));
  ("sin" ++ sfx, grun1 rs (fun a => gs (ang_sin T U a)));
  ("cos" ++ sfx, grun1 rs (fun a => gs (ang_cos T U a)));
  ("tan" ++ sfx, grun1 rs (fun a => gs (ang_tan T U a)));
  ("sin_cos" ++ sfx, grun1 rs (fun a => let sc := ang_sin_cos T U a in GQ [fst sc; snd sc]));
  ("csc" ++ sfx, grun1 rs (fun a => gs (ang_csc O T U a)));
  ("sec" ++ sfx, grun1 rs (fun a => gs (ang_sec O T U a)));
  ("cot" ++ sfx, grun1 rs (fun a => gs (ang_cot O T U a)));
  ("asin" ++ sfx, grun1 rs (fun x => gs (ang_asin T U x)));
  ("acos" ++ sfx, grun1 rs (fun x => gs (ang_acos T U x)));
  ("atan" ++ sfx, grun1 rs (fun x => gs (ang_atan T U x)));
  ("atan2" ++ sfx, grun2 rs rs (fun y x => gs (ang_atan2 T U y x)));
  ("add" ++ sfx, grun2 rs rs (fun a b => gs (ang_add O a b)));
  ("sub" ++ sfx, grun2 rs rs (fun a b => gs (ang_sub O a b)));
  ("neg" ++ sfx, grun1 rs (fun a => gs (ang_neg O a)));
  ("mul_s" ++ sfx, grun2 rs rs (fun a s => gs (ang_mul_s O a s)));
  ("div_s" ++ sfx, grun2 rs rs (fun a s => gs (ang_div_s O a s)));
  ("div" ++ sfx, grun2 rs rs (fun a b => gs (ang_div O a b)));
  ("rem" ++ sfx, grun2 rs rs (fun a b => gs (ang_rem O a b)));
  ("sum" ++ sfx, grun1 rall (fun l => gs (fold_left (add O) l (zero O))))
].

(* exact values of the constants at binary32 (what cast yields for f32): checked against the implementation *)
Definition c32 : list (string * (list F -> gval F)) := [
  ("f32_full_turn", grun0 (S:=F) (GQ [ofQ O (13176795 # 2097152)]));
  ("f32_deg_per_rad", grun0 (S:=F) (GQ [ofQ O (15019745 # 262144)]));
  ("f32_rad_per_deg", grun0 (S:=F) (GQ [ofQ O (9370165 # 536870912)]));
  ("f32_full_turn_deg", grun0 (S:=F) (GQ [ofQ O (360 # 1)]));
  ("f64_full_turn", grun0 (S:=F) (GQ [ofQ O (q_two_pi)]));
  ("f64_deg_per_rad", grun0 (S:=F) (GQ [ofQ O (q_deg_per_rad)]));
  ("f64_rad_per_deg", grun0 (S:=F) (GQ [ofQ O (q_rad_per_deg)]));
  ("f64_full_turn_deg", grun0 (S:=F) (GQ [ofQ O (360 # 1)]))
].

Definition gtab_c13 : list (string * (list F -> gval F)) := tab_unit13 T (URad O) "" ++ tab_unit13 T (UDeg O) "_deg" ++ c32.
End G.

Definition tab_c13 (o : Orc) : list (string * (list Qc -> val)) := qtab (gtab_c13 OpsQ (TrigQ o)).

Definition run_c13 : runner := fun f o args =>
  match dispatch (tab_c13 o) f with Some h => h args | None => VBad end.
