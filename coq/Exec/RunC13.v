(* Exec/RunC13.v — dispatcher for Rad / Deg (src/angle.rs, the Angle defaults of src/structure.rs). *)
From Coq Require Import ZArith QArith Qcanon List Bool Ascii String.
From CG Require Import Scalar Model.Vector Model.Point Model.Matrix Model.Angle Exec.ExecQ Exec.Args Exec.RunC01.
Import ListNotations.
Open Scope string_scope.
Set Implicit Arguments.

Local Notation rs := (@rd_s Qc).
Definition rall : rd Qc (list Qc) := @rd_rest Qc.

Definition tab_unit13 (T : Trig Qc) (U : Unit Qc) (sfx : string) : list (string * (list Qc -> val)) := [
  ("full_turn" ++ sfx, run0 (S:=Qc) (os (full_turn U)));
  ("turn_div_2" ++ sfx, run0 (S:=Qc) (os (turn_div_2 O U)));
  ("turn_div_3" ++ sfx, run0 (S:=Qc) (os (turn_div_3 O U)));
  ("turn_div_4" ++ sfx, run0 (S:=Qc) (os (turn_div_4 O U)));
  ("turn_div_6" ++ sfx, run0 (S:=Qc) (os (turn_div_6 O U)));
  ("normalize" ++ sfx, run1 rs (fun a => os (ang_normalize O U a)));
  ("normalize_signed" ++ sfx, run1 rs (fun a => os (ang_normalize_signed O U a)));
  ("opposite" ++ sfx, run1 rs (fun a => os (ang_opposite O U a)));
  ("bisect" ++ sfx, run2 rs rs (fun a b => os (ang_bisect O U a b)));
  ("to_rad" ++ sfx, run1 rs (fun a => os (to_rad U a)));
  ("of_rad" ++ sfx, run1 rs (fun a => os (of_rad U a)));
  ("sin" ++ sfx, run1 rs (fun a => os (ang_sin T U a)));
  ("cos" ++ sfx, run1 rs (fun a => os (ang_cos T U a)));
  ("tan" ++ sfx, run1 rs (fun a => os (ang_tan T U a)));
  ("sin_cos" ++ sfx, run1 rs (fun a => let sc := ang_sin_cos T U a in vq [fst sc; snd sc]));
  ("csc" ++ sfx, run1 rs (fun a => os (ang_csc O T U a)));
  ("sec" ++ sfx, run1 rs (fun a => os (ang_sec O T U a)));
  ("cot" ++ sfx, run1 rs (fun a => os (ang_cot O T U a)));
  ("asin" ++ sfx, run1 rs (fun x => os (ang_asin T U x)));
  ("acos" ++ sfx, run1 rs (fun x => os (ang_acos T U x)));
  ("atan" ++ sfx, run1 rs (fun x => os (ang_atan T U x)));
  ("atan2" ++ sfx, run2 rs rs (fun y x => os (ang_atan2 T U y x)));
  ("add" ++ sfx, run2 rs rs (fun a b => os (ang_add O a b)));
  ("sub" ++ sfx, run2 rs rs (fun a b => os (ang_sub O a b)));
  ("neg" ++ sfx, run1 rs (fun a => os (ang_neg O a)));
  ("mul_s" ++ sfx, run2 rs rs (fun a s => os (ang_mul_s O a s)));
  ("div_s" ++ sfx, run2 rs rs (fun a s => os (ang_div_s O a s)));
  ("div" ++ sfx, run2 rs rs (fun a b => os (ang_div O a b)));
  ("rem" ++ sfx, run2 rs rs (fun a b => os (ang_rem O a b)));
  ("sum" ++ sfx, run1 rall (fun l => os (fold_left (add O) l (zero O))))
].

(* exact values of the constants at binary32 (what cast yields for f32): checked against the implementation *)
Definition c32 : list (string * (list Qc -> val)) := [
  ("f32_full_turn", run0 (S:=Qc) (VQ [13176795 # 2097152]));
  ("f32_deg_per_rad", run0 (S:=Qc) (VQ [15019745 # 262144]));
  ("f32_rad_per_deg", run0 (S:=Qc) (VQ [9370165 # 536870912]));
  ("f32_full_turn_deg", run0 (S:=Qc) (VQ [360 # 1]));
  ("f64_full_turn", run0 (S:=Qc) (VQ [q_two_pi]));
  ("f64_deg_per_rad", run0 (S:=Qc) (VQ [q_deg_per_rad]));
  ("f64_rad_per_deg", run0 (S:=Qc) (VQ [q_rad_per_deg]));
  ("f64_full_turn_deg", run0 (S:=Qc) (VQ [360 # 1]))
].

Definition tab_c13 (o : Orc) : list (string * (list Qc -> val)) :=
  let T := TrigQ o in tab_unit13 T (URad O) "" ++ tab_unit13 T (UDeg O) "_deg" ++ c32.

Definition run_c13 : runner := fun f o args =>
  match dispatch (tab_c13 o) f with Some h => h args | None => VBad end.
