(* Exec/RunC09.v — dispatcher for the look_at / look_to constructors (C09). *)
From Coq Require Import ZArith QArith Qcanon List Bool Ascii String.
From CG Require Import Scalar Model.Vector Model.Point Model.Matrix Model.Angle Model.Quaternion Model.Metric Model.Rotation
                       Model.Transform Exec.ExecQ Exec.Args Exec.RunC01 Exec.RunC04 Exec.RunC08.
Import ListNotations.
Open Scope string_scope.
Set Implicit Arguments.

Section G.
  Variable F : Type.
  Variable O : Ops F.
  Variable T : Trig F.
  Variable A : Approx F.
  Variable toNat : F -> nat.


  Local Notation r2 := (@rd_v2 F).    Local Notation r3 := (@rd_v3 F).
  Local Notation rp2 := (@rd_p2 F).   Local Notation rp3 := (@rd_p3 F).
  Local Notation rs := (@rd_s F).
Definition rflag : rd F bool := rd_map (fun x : F => negb (eqb O x (zero O))) rs.

Definition gtab_c09 : list (string * (list F -> gval F)) :=
  let od3 := odec (@m3_list F) (@v3_list F) in
  let odq := odec (@quat_sxyz F) (@v3_list F) in
  let od2 := odec (@m2_list F) (@v2_list F) in [
  ("m2_look_at", grun2 r2 r2 (fun d u => gm2 (m2_look_at O T d u)));
  ("m2_look_at_stable", grun2 r2 rflag (fun d f => gm2 (m2_look_at_stable O T d f)));
  ("basis2_look_at", grun2 r2 r2 (fun d u => gm2 (basis2_look_at O T d u)));
  ("m3_look_to_lh", grun2 r3 r3 (fun d u => gm3 (m3_look_to_lh O T d u)));
  ("m3_look_to_rh", grun2 r3 r3 (fun d u => gm3 (m3_look_to_rh O T d u)));
  ("m3_look_at_deprecated", grun2 r3 r3 (fun d u => gm3 (m3_look_to_lh O T d u)));
  ("basis3_look_at", grun2 r3 r3 (fun d u => gm3 (basis3_look_at O T d u)));
  ("quat_look_at", grun2 r3 r3 (fun d u => gq (quat_look_at O T d u)));
  ("m4_look_to_rh", grun3 rp3 r3 r3 (fun e d u => gm4 (m4_look_to_rh O T e d u)));
  ("m4_look_to_lh", grun3 rp3 r3 r3 (fun e d u => gm4 (m4_look_to_lh O T e d u)));
  ("m4_look_at_dir_deprecated", grun3 rp3 r3 r3 (fun e d u => gm4 (m4_look_to_rh O T e d u)));
  ("m4_look_at_rh", grun3 rp3 rp3 r3 (fun e c u => gm4 (m4_look_at_rh O T e c u)));
  ("m4_look_at_lh", grun3 rp3 rp3 r3 (fun e c u => gm4 (m4_look_at_lh O T e c u)));
  ("m4_look_at_deprecated", grun3 rp3 rp3 r3 (fun e c u => gm4 (m4_look_at_rh O T e c u)));
  ("m4_t_look_at", grun3 rp3 rp3 r3 (fun e c u => gm4 (m4_look_at_rh O T e c u)));
  ("m3_t3_look_at", grun3 rp3 rp3 r3 (fun e c u => gm3 (m3_t3_look_at O T e c u)));
  ("m3_t3_look_at_rh", grun3 rp3 rp3 r3 (fun e c u => gm3 (m3_t3_look_at_rh O T e c u)));
  ("m3_t3_look_at_lh", grun3 rp3 rp3 r3 (fun e c u => gm3 (m3_t3_look_at_lh O T e c u)));
  ("m3_t2_look_at", grun3 rp2 rp2 r2 (fun e c u => gm3 (m3_t2_look_at O T e c u)));
  ("m3_t2_look_at_rh", grun3 rp2 rp2 r2 (fun e c u => gm3 (m3_t2_look_at_rh O T e c u)));
  ("m3_t2_look_at_lh", grun3 rp2 rp2 r2 (fun e c u => gm3 (m3_t2_look_at_lh O T e c u)));
  ("dec_b3_look_at", grun3 rp3 rp3 r3 (fun e c u => od3 (dec_look_at O (RotBasis3 O) (Space3 O) (basis3_look_at O T) e c u)));
  ("dec_b3_look_at_rh", grun3 rp3 rp3 r3 (fun e c u => od3 (dec_look_at_rh O (RotBasis3 O) (Space3 O) (basis3_look_at O T) e c u)));
  ("dec_b3_look_at_lh", grun3 rp3 rp3 r3 (fun e c u => od3 (dec_look_at_lh O (RotBasis3 O) (Space3 O) (basis3_look_at O T) e c u)));
  ("dec_q_look_at", grun3 rp3 rp3 r3 (fun e c u => odq (dec_look_at O (RotQuat O) (Space3 O) (quat_look_at O T) e c u)));
  ("dec_q_look_at_rh", grun3 rp3 rp3 r3 (fun e c u => odq (dec_look_at_rh O (RotQuat O) (Space3 O) (quat_look_at O T) e c u)));
  ("dec_q_look_at_lh", grun3 rp3 rp3 r3 (fun e c u => odq (dec_look_at_lh O (RotQuat O) (Space3 O) (quat_look_at O T) e c u)));
  ("dec_b2_look_at", grun3 rp2 rp2 r2 (fun e c u => od2 (dec_look_at O (RotBasis2 O) (Space2 O) (basis2_look_at O T) e c u)));
  ("dec_b2_look_at_rh", grun3 rp2 rp2 r2 (fun e c u => od2 (dec_look_at_rh O (RotBasis2 O) (Space2 O) (basis2_look_at O T) e c u)));
  ("dec_b2_look_at_lh", grun3 rp2 rp2 r2 (fun e c u => od2 (dec_look_at_lh O (RotBasis2 O) (Space2 O) (basis2_look_at O T) e c u)))
].
End G.

Definition tab_c09 (o : Orc) : list (string * (list Qc -> val)) := qtab (gtab_c09 OpsQ (TrigQ o)).

Definition run_c09 : runner := fun f o args =>
  match dispatch (tab_c09 o) f with Some h => h args | None => VBad end.
