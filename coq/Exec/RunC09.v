(* Exec/RunC09.v — dispatcher for the look_at / look_to constructors (C09). *)
From Coq Require Import ZArith QArith Qcanon List Bool Ascii String.
From CG Require Import Scalar Model.Vector Model.Point Model.Matrix Model.Angle Model.Quaternion Model.Metric Model.Rotation
                       Model.Transform Exec.ExecQ Exec.Args Exec.RunC01 Exec.RunC04 Exec.RunC08.
Import ListNotations.
Open Scope string_scope.
Set Implicit Arguments.

Local Notation r2 := (@rd_v2 Qc).  Local Notation r3 := (@rd_v3 Qc).
Local Notation rp2 := (@rd_p2 Qc). Local Notation rp3 := (@rd_p3 Qc).
Local Notation rs := (@rd_s Qc).
Definition rflag : rd Qc bool := rd_map (fun x : Qc => negb (qc_eqb x (Q2Qc 0))) rs.

Definition tab_c09 (o : Orc) : list (string * (list Qc -> val)) :=
  let T := TrigQ o in
  let od3 := odec (@m3_list Qc) (@v3_list Qc) in
  let odq := odec (@quat_sxyz Qc) (@v3_list Qc) in
  let od2 := odec (@m2_list Qc) (@v2_list Qc) in [
  ("m2_look_at", run2 r2 r2 (fun d u => om2 (m2_look_at O T d u)));
  ("m2_look_at_stable", run2 r2 rflag (fun d f => om2 (m2_look_at_stable O T d f)));
  ("basis2_look_at", run2 r2 r2 (fun d u => om2 (basis2_look_at O T d u)));
  ("m3_look_to_lh", run2 r3 r3 (fun d u => om3 (m3_look_to_lh O T d u)));
  ("m3_look_to_rh", run2 r3 r3 (fun d u => om3 (m3_look_to_rh O T d u)));
  ("m3_look_at_deprecated", run2 r3 r3 (fun d u => om3 (m3_look_to_lh O T d u)));
  ("basis3_look_at", run2 r3 r3 (fun d u => om3 (basis3_look_at O T d u)));
  ("quat_look_at", run2 r3 r3 (fun d u => oq (quat_look_at O T d u)));
  ("m4_look_to_rh", run3 rp3 r3 r3 (fun e d u => om4 (m4_look_to_rh O T e d u)));
  ("m4_look_to_lh", run3 rp3 r3 r3 (fun e d u => om4 (m4_look_to_lh O T e d u)));
  ("m4_look_at_dir_deprecated", run3 rp3 r3 r3 (fun e d u => om4 (m4_look_to_rh O T e d u)));
  ("m4_look_at_rh", run3 rp3 rp3 r3 (fun e c u => om4 (m4_look_at_rh O T e c u)));
  ("m4_look_at_lh", run3 rp3 rp3 r3 (fun e c u => om4 (m4_look_at_lh O T e c u)));
  ("m4_look_at_deprecated", run3 rp3 rp3 r3 (fun e c u => om4 (m4_look_at_rh O T e c u)));
  ("m4_t_look_at", run3 rp3 rp3 r3 (fun e c u => om4 (m4_look_at_rh O T e c u)));
  ("m3_t3_look_at", run3 rp3 rp3 r3 (fun e c u => om3 (m3_t3_look_at O T e c u)));
  ("m3_t3_look_at_rh", run3 rp3 rp3 r3 (fun e c u => om3 (m3_t3_look_at_rh O T e c u)));
  ("m3_t3_look_at_lh", run3 rp3 rp3 r3 (fun e c u => om3 (m3_t3_look_at_lh O T e c u)));
  ("m3_t2_look_at", run3 rp2 rp2 r2 (fun e c u => om3 (m3_t2_look_at O T e c u)));
  ("m3_t2_look_at_rh", run3 rp2 rp2 r2 (fun e c u => om3 (m3_t2_look_at_rh O T e c u)));
  ("m3_t2_look_at_lh", run3 rp2 rp2 r2 (fun e c u => om3 (m3_t2_look_at_lh O T e c u)));
  ("dec_b3_look_at", run3 rp3 rp3 r3 (fun e c u => od3 (dec_look_at O (RotBasis3 O) (Space3 O) (basis3_look_at O T) e c u)));
  ("dec_b3_look_at_rh", run3 rp3 rp3 r3 (fun e c u => od3 (dec_look_at_rh O (RotBasis3 O) (Space3 O) (basis3_look_at O T) e c u)));
  ("dec_b3_look_at_lh", run3 rp3 rp3 r3 (fun e c u => od3 (dec_look_at_lh O (RotBasis3 O) (Space3 O) (basis3_look_at O T) e c u)));
  ("dec_q_look_at", run3 rp3 rp3 r3 (fun e c u => odq (dec_look_at O (RotQuat O) (Space3 O) (quat_look_at O T) e c u)));
  ("dec_q_look_at_rh", run3 rp3 rp3 r3 (fun e c u => odq (dec_look_at_rh O (RotQuat O) (Space3 O) (quat_look_at O T) e c u)));
  ("dec_q_look_at_lh", run3 rp3 rp3 r3 (fun e c u => odq (dec_look_at_lh O (RotQuat O) (Space3 O) (quat_look_at O T) e c u)));
  ("dec_b2_look_at", run3 rp2 rp2 r2 (fun e c u => od2 (dec_look_at O (RotBasis2 O) (Space2 O) (basis2_look_at O T) e c u)));
  ("dec_b2_look_at_rh", run3 rp2 rp2 r2 (fun e c u => od2 (dec_look_at_rh O (RotBasis2 O) (Space2 O) (basis2_look_at O T) e c u)));
  ("dec_b2_look_at_lh", run3 rp2 rp2 r2 (fun e c u => od2 (dec_look_at_lh O (RotBasis2 O) (Space2 O) (basis2_look_at O T) e c u)))
].

Definition run_c09 : runner := fun f o args =>
  match dispatch (tab_c09 o) f with Some h => h args | None => VBad end.
