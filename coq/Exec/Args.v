(* Exec/Args.v — reading the flattened argument list of a case back into model values. *)
From Coq Require Import ZArith QArith Qcanon List Bool String.
From CG Require Import Scalar Model.Vector Model.Point Model.Matrix Model.Angle Model.Quaternion Exec.ExecQ.
Import ListNotations.
Set Implicit Arguments.

Section Rd.
  Variable S : Type.   (* scalar: Qc or Z *)
  Definition rd (A : Type) := list S -> option (A * list S).
  Definition rd_s : rd S := fun l => match l with x :: r => Some (x, r) | _ => None end.
  Definition rd_v1 : rd (V1 S) := fun l => match l with a :: r => Some (mkV1 a, r) | _ => None end.
  Definition rd_v2 : rd (V2 S) :=
    fun l => match l with a :: b :: r => Some (mkV2 a b, r) | _ => None end.
  Definition rd_v3 : rd (V3 S) :=
    fun l => match l with a :: b :: c :: r => Some (mkV3 a b c, r) | _ => None end.
  Definition rd_v4 : rd (V4 S) :=
    fun l => match l with a :: b :: c :: d :: r => Some (mkV4 a b c d, r) | _ => None end.
  Definition rd_p1 : rd (P1 S) := fun l => match l with a :: r => Some (mkP1 a, r) | _ => None end.
  Definition rd_p2 : rd (P2 S) :=
    fun l => match l with a :: b :: r => Some (mkP2 a b, r) | _ => None end.
  Definition rd_p3 : rd (P3 S) :=
    fun l => match l with a :: b :: c :: r => Some (mkP3 a b c, r) | _ => None end.
  (* quaternion: s, x, y, z (the argument order of Quaternion::new) *)
  Definition rd_quat : rd (Quat S) :=
    fun l => match l with s :: a :: b :: c :: r => Some (quat_new s a b c, r) | _ => None end.
  Definition rd_m2 : rd (M2 S) :=
    fun l => match l with a :: b :: c :: d :: r => Some (m2_new a b c d, r) | _ => None end.
  Definition rd_m3 : rd (M3 S) :=
    fun l => match l with a0 :: a1 :: a2 :: b0 :: b1 :: b2 :: c0 :: c1 :: c2 :: r =>
                            Some (m3_new a0 a1 a2 b0 b1 b2 c0 c1 c2, r) | _ => None end.
  Definition rd_m4 : rd (M4 S) :=
    fun l => match l with a0 :: a1 :: a2 :: a3 :: b0 :: b1 :: b2 :: b3 :: c0 :: c1 :: c2 :: c3 :: d0 :: d1 :: d2 :: d3 :: r =>
                            Some (m4_new a0 a1 a2 a3 b0 b1 b2 b3 c0 c1 c2 c3 d0 d1 d2 d3, r) | _ => None end.
  Definition rd_map (A B : Type) (f : A -> B) (ra : rd A) : rd B :=
    fun l => match ra l with Some (a, r) => Some (f a, r) | None => None end.
  Definition rd_pair (A B : Type) (ra : rd A) (rb : rd B) : rd (A * B) :=
    fun l => match ra l with
             | Some (a, r) => match rb r with Some (b, r') => Some ((a, b), r') | None => None end
             | None => None end.
  (* a list of n values *)
  Fixpoint rd_n (A : Type) (ra : rd A) (n : nat) : rd (list A) :=
    match n with
    | O => fun l => Some ([], l)
    | Datatypes.S n' => fun l =>
        match ra l with
        | Some (a, r) => match rd_n ra n' r with Some (t, r') => Some (a :: t, r') | None => None end
        | None => None end
    end.
  (* all remaining values *)
  Definition rd_rest : rd (list S) := fun l => Some (l, []).

  Definition run1 (A : Type) (ra : rd A) (f : A -> val) (l : list S) : val :=
    match ra l with Some (a, []) => f a | _ => VBad end.
  Definition run2 (A B : Type) (ra : rd A) (rb : rd B) (f : A -> B -> val) (l : list S) : val :=
    match ra l with
    | Some (a, r) => match rb r with Some (b, []) => f a b | _ => VBad end
    | None => VBad end.
  Definition run3 (A B C : Type) (ra : rd A) (rb : rd B) (rc : rd C)
             (f : A -> B -> C -> val) (l : list S) : val :=
    match ra l with
    | Some (a, r) => match rb r with
        | Some (b, r') => match rc r' with Some (c, []) => f a b c | _ => VBad end
        | None => VBad end
    | None => VBad end.
  Definition run4 (A B C D : Type) (ra : rd A) (rb : rd B) (rc : rd C) (rd' : rd D)
             (f : A -> B -> C -> D -> val) (l : list S) : val :=
    match ra l with
    | Some (a, r) => match rb r with
        | Some (b, r') => match rc r' with
            | Some (c, r'') => match rd' r'' with Some (d, []) => f a b c d | _ => VBad end
            | None => VBad end
        | None => VBad end
    | None => VBad end.
  Definition run0 (f : val) (l : list S) : val := match l with [] => f | _ => VBad end.
  Definition run5 (A B C D E : Type) (ra : rd A) (rb : rd B) (rc : rd C) (rd' : rd D) (re : rd E)
             (f : A -> B -> C -> D -> E -> val) (l : list S) : val :=
    match ra l with
    | Some (a, r) => match rb r with
        | Some (b, r') => match rc r' with
            | Some (c, r'') => match rd' r'' with
                | Some (d, r3) => match re r3 with Some (e, []) => f a b c d e | _ => VBad end
                | None => VBad end
            | None => VBad end
        | None => VBad end
    | None => VBad end.
  (* the same, for the generic tables (result type gval S) *)
  Definition grun1 (A : Type) (ra : rd A) (f : A -> gval S) (l : list S) : gval S :=
    match ra l with Some (a, []) => f a | _ => GBad end.
  Definition grun2 (A B : Type) (ra : rd A) (rb : rd B) (f : A -> B -> gval S) (l : list S) : gval S :=
    match ra l with
    | Some (a, r) => match rb r with Some (b, []) => f a b | _ => GBad end
    | None => GBad end.
  Definition grun3 (A B C : Type) (ra : rd A) (rb : rd B) (rc : rd C)
             (f : A -> B -> C -> gval S) (l : list S) : gval S :=
    match ra l with
    | Some (a, r) => match rb r with
        | Some (b, r') => match rc r' with Some (c, []) => f a b c | _ => GBad end
        | None => GBad end
    | None => GBad end.
  Definition grun4 (A B C D : Type) (ra : rd A) (rb : rd B) (rc : rd C) (rd' : rd D)
             (f : A -> B -> C -> D -> gval S) (l : list S) : gval S :=
    match ra l with
    | Some (a, r) => match rb r with
        | Some (b, r') => match rc r' with
            | Some (c, r'') => match rd' r'' with Some (d, []) => f a b c d | _ => GBad end
            | None => GBad end
        | None => GBad end
    | None => GBad end.
  Definition grun0 (f : gval S) (l : list S) : gval S := match l with [] => f | _ => GBad end.
  Definition grun5 (A B C D E : Type) (ra : rd A) (rb : rd B) (rc : rd C) (rd' : rd D) (re : rd E)
             (f : A -> B -> C -> D -> E -> gval S) (l : list S) : gval S :=
    match ra l with
    | Some (a, r) => match rb r with
        | Some (b, r') => match rc r' with
            | Some (c, r'') => match rd' r'' with
                | Some (d, r3) => match re r3 with Some (e, []) => f a b c d e | _ => GBad end
                | None => GBad end
            | None => GBad end
        | None => GBad end
    | None => GBad end.
End Rd.

(* index arguments travel as integral rationals *)
(* clamped: an index like usize::MAX must not be expanded to a unary numeral *)
Definition qc_nat (x : Qc) : nat := Z.to_nat (Z.min (Qnum (this x)) 1000).
Definition qc_Z (x : Qc) : Z := Qnum (this x).

(* flattening of results *)
Definition s_l (S : Type) (x : S) : list S := [x].
