(* Exec/RunC19.v — dispatcher for `cast` (C19).  A case carries, for n components, the source values
   v_1..v_n (special values encoded), success flags f_1..f_n and scalar results r_1..r_n recorded from
   the scalar NumCast; the model is run with the scalar cast given by that table. *)
From Coq Require Import ZArith QArith Qcanon List Bool Ascii String.
From CG Require Import Scalar Model.Vector Model.Point Model.Matrix Model.Quaternion Model.Cast Exec.ExecQ Exec.Args.
Import ListNotations.
Open Scope string_scope.
Set Implicit Arguments.

Fixpoint mk_tab (vs fs rs : list Qc) : list (Qc * option Qc) :=
  match vs, fs, rs with
  | v :: vs', f :: fs', r :: rs' => (v, if qc_eqb f (Q2Qc 0) then None else Some r) :: mk_tab vs' fs' rs'
  | _, _, _ => []
  end.
Fixpoint tab_cast (t : list (Qc * option Qc)) (x : Qc) : option Qc :=
  match t with
  | [] => None
  | (k, r) :: t' => if qc_eqb k x then r else tab_cast t' x
  end.
Definition cast_case (n : nat) (X : Type) (rx : rd Qc X) (f : (Qc -> option Qc) -> X -> option (list Qc)) (l : list Qc) : val :=
  let vs := firstn n l in
  let fs := firstn n (skipn n l) in
  let rs := firstn n (skipn (2 * n) l) in
  if negb (Nat.eqb (List.length l) (3 * n)) then VBad else
  match rx vs with
  | Some (x, []) => match f (tab_cast (mk_tab vs fs rs)) x with Some r => vq r | None => VNone end
  | _ => VBad
  end.
Definition om (A B : Type) (g : A -> B) (o : option A) : option B := match o with Some a => Some (g a) | None => None end.

Definition tab_c19 : list (string * (list Qc -> val)) := [
  ("v1_cast", cast_case 1 (@rd_v1 Qc) (fun sc v => om (@v1_list Qc) (v1_cast sc v)));
  ("v2_cast", cast_case 2 (@rd_v2 Qc) (fun sc v => om (@v2_list Qc) (v2_cast sc v)));
  ("v3_cast", cast_case 3 (@rd_v3 Qc) (fun sc v => om (@v3_list Qc) (v3_cast sc v)));
  ("v4_cast", cast_case 4 (@rd_v4 Qc) (fun sc v => om (@v4_list Qc) (v4_cast sc v)));
  ("p1_cast", cast_case 1 (@rd_p1 Qc) (fun sc v => om (@p1_list Qc) (p1_cast sc v)));
  ("p2_cast", cast_case 2 (@rd_p2 Qc) (fun sc v => om (@p2_list Qc) (p2_cast sc v)));
  ("p3_cast", cast_case 3 (@rd_p3 Qc) (fun sc v => om (@p3_list Qc) (p3_cast sc v)));
  ("m2_cast", cast_case 4 (@rd_m2 Qc) (fun sc v => om (@m2_list Qc) (m2_cast sc v)));
  ("m3_cast", cast_case 9 (@rd_m3 Qc) (fun sc v => om (@m3_list Qc) (m3_cast sc v)));
  ("m4_cast", cast_case 16 (@rd_m4 Qc) (fun sc v => om (@m4_list Qc) (m4_cast sc v)));
  ("quat_cast", cast_case 4 (@rd_quat Qc) (fun sc v => om (@quat_sxyz Qc) (quat_cast sc v)))
].
Definition run_c19 : runner := fun f o args =>
  match dispatch tab_c19 f with Some h => h args | None => VBad end.
