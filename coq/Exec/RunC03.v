(* Exec/RunC03.v — dispatcher for the functions of property C03 (src/vector.rs). *)
From Coq Require Import ZArith QArith Qcanon List Bool Ascii String.
From CG Require Import Scalar Model.Vector Exec.ExecQ Exec.Args.
Import ListNotations.
Open Scope string_scope.
Set Implicit Arguments.

Section Tab.
  Variable S : Type.
  Variable O : Ops S.
  Let out (l : list S) : gval S := GQ l.
  Let o1 (v : V1 S) := out (v1_list v).
  Let o2 (v : V2 S) := out (v2_list v).
  Let o3 (v : V3 S) := out (v3_list v).
  Let o4 (v : V4 S) := out (v4_list v).
  Let os (x : S) := out [x].
  Let r1 := @rd_v1 S.  Let r2 := @rd_v2 S.  Let r3 := @rd_v3 S.  Let r4 := @rd_v4 S.
  Let rs := @rd_s S.

  Definition tab_c03 : list (string * (list S -> gval S)) := [
    ("v1_add", grun2 r1 r1 (fun a b => o1 (v1_add O a b)));
    ("v2_add", grun2 r2 r2 (fun a b => o2 (v2_add O a b)));
    ("v3_add", grun2 r3 r3 (fun a b => o3 (v3_add O a b)));
    ("v4_add", grun2 r4 r4 (fun a b => o4 (v4_add O a b)));
    ("v1_sub", grun2 r1 r1 (fun a b => o1 (v1_sub O a b)));
    ("v2_sub", grun2 r2 r2 (fun a b => o2 (v2_sub O a b)));
    ("v3_sub", grun2 r3 r3 (fun a b => o3 (v3_sub O a b)));
    ("v4_sub", grun2 r4 r4 (fun a b => o4 (v4_sub O a b)));
    ("v1_neg", grun1 r1 (fun a => o1 (v1_neg O a)));
    ("v2_neg", grun1 r2 (fun a => o2 (v2_neg O a)));
    ("v3_neg", grun1 r3 (fun a => o3 (v3_neg O a)));
    ("v4_neg", grun1 r4 (fun a => o4 (v4_neg O a)));
    ("v1_mul_s", grun2 r1 rs (fun a s => o1 (v1_mul_s O a s)));
    ("v2_mul_s", grun2 r2 rs (fun a s => o2 (v2_mul_s O a s)));
    ("v3_mul_s", grun2 r3 rs (fun a s => o3 (v3_mul_s O a s)));
    ("v4_mul_s", grun2 r4 rs (fun a s => o4 (v4_mul_s O a s)));
    ("v1_div_s", grun2 r1 rs (fun a s => o1 (v1_div_s O a s)));
    ("v2_div_s", grun2 r2 rs (fun a s => o2 (v2_div_s O a s)));
    ("v3_div_s", grun2 r3 rs (fun a s => o3 (v3_div_s O a s)));
    ("v4_div_s", grun2 r4 rs (fun a s => o4 (v4_div_s O a s)));
    ("v1_rem_s", grun2 r1 rs (fun a s => o1 (v1_rem_s O a s)));
    ("v2_rem_s", grun2 r2 rs (fun a s => o2 (v2_rem_s O a s)));
    ("v3_rem_s", grun2 r3 rs (fun a s => o3 (v3_rem_s O a s)));
    ("v4_rem_s", grun2 r4 rs (fun a s => o4 (v4_rem_s O a s)));
    ("v1_add_ew", grun2 r1 r1 (fun a b => o1 (v1_add_ew O a b)));
    ("v2_add_ew", grun2 r2 r2 (fun a b => o2 (v2_add_ew O a b)));
    ("v3_add_ew", grun2 r3 r3 (fun a b => o3 (v3_add_ew O a b)));
    ("v4_add_ew", grun2 r4 r4 (fun a b => o4 (v4_add_ew O a b)));
    ("v1_sub_ew", grun2 r1 r1 (fun a b => o1 (v1_sub_ew O a b)));
    ("v2_sub_ew", grun2 r2 r2 (fun a b => o2 (v2_sub_ew O a b)));
    ("v3_sub_ew", grun2 r3 r3 (fun a b => o3 (v3_sub_ew O a b)));
    ("v4_sub_ew", grun2 r4 r4 (fun a b => o4 (v4_sub_ew O a b)));
    ("v1_mul_ew", grun2 r1 r1 (fun a b => o1 (v1_mul_ew O a b)));
    ("v2_mul_ew", grun2 r2 r2 (fun a b => o2 (v2_mul_ew O a b)));
    ("v3_mul_ew", grun2 r3 r3 (fun a b => o3 (v3_mul_ew O a b)));
    ("v4_mul_ew", grun2 r4 r4 (fun a b => o4 (v4_mul_ew O a b)));
    ("v1_div_ew", grun2 r1 r1 (fun a b => o1 (v1_div_ew O a b)));
    ("v2_div_ew", grun2 r2 r2 (fun a b => o2 (v2_div_ew O a b)));
    ("v3_div_ew", grun2 r3 r3 (fun a b => o3 (v3_div_ew O a b)));
    ("v4_div_ew", grun2 r4 r4 (fun a b => o4 (v4_div_ew O a b)));
    ("v1_rem_ew", grun2 r1 r1 (fun a b => o1 (v1_rem_ew O a b)));
    ("v2_rem_ew", grun2 r2 r2 (fun a b => o2 (v2_rem_ew O a b)));
    ("v3_rem_ew", grun2 r3 r3 (fun a b => o3 (v3_rem_ew O a b)));
    ("v4_rem_ew", grun2 r4 r4 (fun a b => o4 (v4_rem_ew O a b)));
    ("v1_add_ews", grun2 r1 rs (fun a s => o1 (v1_add_ews O a s)));
    ("v2_add_ews", grun2 r2 rs (fun a s => o2 (v2_add_ews O a s)));
    ("v3_add_ews", grun2 r3 rs (fun a s => o3 (v3_add_ews O a s)));
    ("v4_add_ews", grun2 r4 rs (fun a s => o4 (v4_add_ews O a s)));
    ("v1_sub_ews", grun2 r1 rs (fun a s => o1 (v1_sub_ews O a s)));
    ("v2_sub_ews", grun2 r2 rs (fun a s => o2 (v2_sub_ews O a s)));
    ("v3_sub_ews", grun2 r3 rs (fun a s => o3 (v3_sub_ews O a s)));
    ("v4_sub_ews", grun2 r4 rs (fun a s => o4 (v4_sub_ews O a s)));
    ("v1_mul_ews", grun2 r1 rs (fun a s => o1 (v1_mul_ews O a s)));
    ("v2_mul_ews", grun2 r2 rs (fun a s => o2 (v2_mul_ews O a s)));
    ("v3_mul_ews", grun2 r3 rs (fun a s => o3 (v3_mul_ews O a s)));
    ("v4_mul_ews", grun2 r4 rs (fun a s => o4 (v4_mul_ews O a s)));
    ("v1_div_ews", grun2 r1 rs (fun a s => o1 (v1_div_ews O a s)));
    ("v2_div_ews", grun2 r2 rs (fun a s => o2 (v2_div_ews O a s)));
    ("v3_div_ews", grun2 r3 rs (fun a s => o3 (v3_div_ews O a s)));
    ("v4_div_ews", grun2 r4 rs (fun a s => o4 (v4_div_ews O a s)));
    ("v1_rem_ews", grun2 r1 rs (fun a s => o1 (v1_rem_ews O a s)));
    ("v2_rem_ews", grun2 r2 rs (fun a s => o2 (v2_rem_ews O a s)));
    ("v3_rem_ews", grun2 r3 rs (fun a s => o3 (v3_rem_ews O a s)));
    ("v4_rem_ews", grun2 r4 rs (fun a s => o4 (v4_rem_ews O a s)));
    ("v1_add_assign", grun2 r1 r1 (fun a b => o1 (v1_add_assign O a b)));
    ("v1_sub_assign", grun2 r1 r1 (fun a b => o1 (v1_sub_assign O a b)));
    ("v1_mul_assign", grun2 r1 rs (fun a s => o1 (v1_mul_assign O a s)));
    ("v1_div_assign", grun2 r1 rs (fun a s => o1 (v1_div_assign O a s)));
    ("v1_rem_assign", grun2 r1 rs (fun a s => o1 (v1_rem_assign O a s)));
    ("v1_add_assign_ew", grun2 r1 r1 (fun a b => o1 (v1_add_assign_ew O a b)));
    ("v1_add_assign_ews", grun2 r1 rs (fun a s => o1 (v1_add_assign_ews O a s)));
    ("v1_sub_assign_ew", grun2 r1 r1 (fun a b => o1 (v1_sub_assign_ew O a b)));
    ("v1_sub_assign_ews", grun2 r1 rs (fun a s => o1 (v1_sub_assign_ews O a s)));
    ("v1_mul_assign_ew", grun2 r1 r1 (fun a b => o1 (v1_mul_assign_ew O a b)));
    ("v1_mul_assign_ews", grun2 r1 rs (fun a s => o1 (v1_mul_assign_ews O a s)));
    ("v1_div_assign_ew", grun2 r1 r1 (fun a b => o1 (v1_div_assign_ew O a b)));
    ("v1_div_assign_ews", grun2 r1 rs (fun a s => o1 (v1_div_assign_ews O a s)));
    ("v1_rem_assign_ew", grun2 r1 r1 (fun a b => o1 (v1_rem_assign_ew O a b)));
    ("v1_rem_assign_ews", grun2 r1 rs (fun a s => o1 (v1_rem_assign_ews O a s)));
    ("v2_add_assign", grun2 r2 r2 (fun a b => o2 (v2_add_assign O a b)));
    ("v2_sub_assign", grun2 r2 r2 (fun a b => o2 (v2_sub_assign O a b)));
    ("v2_mul_assign", grun2 r2 rs (fun a s => o2 (v2_mul_assign O a s)));
    ("v2_div_assign", grun2 r2 rs (fun a s => o2 (v2_div_assign O a s)));
    ("v2_rem_assign", grun2 r2 rs (fun a s => o2 (v2_rem_assign O a s)));
    ("v2_add_assign_ew", grun2 r2 r2 (fun a b => o2 (v2_add_assign_ew O a b)));
    ("v2_add_assign_ews", grun2 r2 rs (fun a s => o2 (v2_add_assign_ews O a s)));
    ("v2_sub_assign_ew", grun2 r2 r2 (fun a b => o2 (v2_sub_assign_ew O a b)));
    ("v2_sub_assign_ews", grun2 r2 rs (fun a s => o2 (v2_sub_assign_ews O a s)));
    ("v2_mul_assign_ew", grun2 r2 r2 (fun a b => o2 (v2_mul_assign_ew O a b)));
    ("v2_mul_assign_ews", grun2 r2 rs (fun a s => o2 (v2_mul_assign_ews O a s)));
    ("v2_div_assign_ew", grun2 r2 r2 (fun a b => o2 (v2_div_assign_ew O a b)));
    ("v2_div_assign_ews", grun2 r2 rs (fun a s => o2 (v2_div_assign_ews O a s)));
    ("v2_rem_assign_ew", grun2 r2 r2 (fun a b => o2 (v2_rem_assign_ew O a b)));
    ("v2_rem_assign_ews", grun2 r2 rs (fun a s => o2 (v2_rem_assign_ews O a s)));
    ("v3_add_assign", grun2 r3 r3 (fun a b => o3 (v3_add_assign O a b)));
    ("v3_sub_assign", grun2 r3 r3 (fun a b => o3 (v3_sub_assign O a b)));
    ("v3_mul_assign", grun2 r3 rs (fun a s => o3 (v3_mul_assign O a s)));
    ("v3_div_assign", grun2 r3 rs (fun a s => o3 (v3_div_assign O a s)));
    ("v3_rem_assign", grun2 r3 rs (fun a s => o3 (v3_rem_assign O a s)));
    ("v3_add_assign_ew", grun2 r3 r3 (fun a b => o3 (v3_add_assign_ew O a b)));
    ("v3_add_assign_ews", grun2 r3 rs (fun a s => o3 (v3_add_assign_ews O a s)));
    ("v3_sub_assign_ew", grun2 r3 r3 (fun a b => o3 (v3_sub_assign_ew O a b)));
    ("v3_sub_assign_ews", grun2 r3 rs (fun a s => o3 (v3_sub_assign_ews O a s)));
    ("v3_mul_assign_ew", grun2 r3 r3 (fun a b => o3 (v3_mul_assign_ew O a b)));
    ("v3_mul_assign_ews", grun2 r3 rs (fun a s => o3 (v3_mul_assign_ews O a s)));
    ("v3_div_assign_ew", grun2 r3 r3 (fun a b => o3 (v3_div_assign_ew O a b)));
    ("v3_div_assign_ews", grun2 r3 rs (fun a s => o3 (v3_div_assign_ews O a s)));
    ("v3_rem_assign_ew", grun2 r3 r3 (fun a b => o3 (v3_rem_assign_ew O a b)));
    ("v3_rem_assign_ews", grun2 r3 rs (fun a s => o3 (v3_rem_assign_ews O a s)));
    ("v4_add_assign", grun2 r4 r4 (fun a b => o4 (v4_add_assign O a b)));
    ("v4_sub_assign", grun2 r4 r4 (fun a b => o4 (v4_sub_assign O a b)));
    ("v4_mul_assign", grun2 r4 rs (fun a s => o4 (v4_mul_assign O a s)));
    ("v4_div_assign", grun2 r4 rs (fun a s => o4 (v4_div_assign O a s)));
    ("v4_rem_assign", grun2 r4 rs (fun a s => o4 (v4_rem_assign O a s)));
    ("v4_add_assign_ew", grun2 r4 r4 (fun a b => o4 (v4_add_assign_ew O a b)));
    ("v4_add_assign_ews", grun2 r4 rs (fun a s => o4 (v4_add_assign_ews O a s)));
    ("v4_sub_assign_ew", grun2 r4 r4 (fun a b => o4 (v4_sub_assign_ew O a b)));
    ("v4_sub_assign_ews", grun2 r4 rs (fun a s => o4 (v4_sub_assign_ews O a s)));
    ("v4_mul_assign_ew", grun2 r4 r4 (fun a b => o4 (v4_mul_assign_ew O a b)));
    ("v4_mul_assign_ews", grun2 r4 rs (fun a s => o4 (v4_mul_assign_ews O a s)));
    ("v4_div_assign_ew", grun2 r4 r4 (fun a b => o4 (v4_div_assign_ew O a b)));
    ("v4_div_assign_ews", grun2 r4 rs (fun a s => o4 (v4_div_assign_ews O a s)));
    ("v4_rem_assign_ew", grun2 r4 r4 (fun a b => o4 (v4_rem_assign_ew O a b)));
    ("v4_rem_assign_ews", grun2 r4 rs (fun a s => o4 (v4_rem_assign_ews O a s)));
    ("v1_sum", grun1 r1 (fun a => os (v1_sum a)));
    ("v2_sum", grun1 r2 (fun a => os (v2_sum O a)));
    ("v3_sum", grun1 r3 (fun a => os (v3_sum O a)));
    ("v4_sum", grun1 r4 (fun a => os (v4_sum O a)));
    ("v1_product", grun1 r1 (fun a => os (v1_product a)));
    ("v2_product", grun1 r2 (fun a => os (v2_product O a)));
    ("v3_product", grun1 r3 (fun a => os (v3_product O a)));
    ("v4_product", grun1 r4 (fun a => os (v4_product O a)));
    ("v1_zero", grun0 (o1 (v1_zero O)));
    ("v2_zero", grun0 (o2 (v2_zero O)));
    ("v3_zero", grun0 (o3 (v3_zero O)));
    ("v4_zero", grun0 (o4 (v4_zero O)));
    ("v1_from_value", grun1 rs (fun s => o1 (v1_from_value s)));
    ("v2_from_value", grun1 rs (fun s => o2 (v2_from_value s)));
    ("v3_from_value", grun1 rs (fun s => o3 (v3_from_value s)));
    ("v4_from_value", grun1 rs (fun s => o4 (v4_from_value s)));
    ("v1_dot", grun2 r1 r1 (fun a b => os (v1_dot O a b)));
    ("v2_dot", grun2 r2 r2 (fun a b => os (v2_dot O a b)));
    ("v3_dot", grun2 r3 r3 (fun a b => os (v3_dot O a b)));
    ("v4_dot", grun2 r4 r4 (fun a b => os (v4_dot O a b)));
    ("v1_magnitude2", grun1 r1 (fun a => os (v1_magnitude2 O a)));
    ("v2_magnitude2", grun1 r2 (fun a => os (v2_magnitude2 O a)));
    ("v3_magnitude2", grun1 r3 (fun a => os (v3_magnitude2 O a)));
    ("v4_magnitude2", grun1 r4 (fun a => os (v4_magnitude2 O a)));
    ("v3_cross", grun2 r3 r3 (fun a b => o3 (v3_cross O a b)));
    ("v2_perp_dot", grun2 r2 r2 (fun a b => os (v2_perp_dot O a b)));
    ("v1_unit_x", grun0 (o1 (v1_unit_x O)));
    ("v2_unit_x", grun0 (o2 (v2_unit_x O)));
    ("v2_unit_y", grun0 (o2 (v2_unit_y O)));
    ("v3_unit_x", grun0 (o3 (v3_unit_x O)));
    ("v3_unit_y", grun0 (o3 (v3_unit_y O)));
    ("v3_unit_z", grun0 (o3 (v3_unit_z O)));
    ("v4_unit_x", grun0 (o4 (v4_unit_x O)));
    ("v4_unit_y", grun0 (o4 (v4_unit_y O)));
    ("v4_unit_z", grun0 (o4 (v4_unit_z O)));
    ("v4_unit_w", grun0 (o4 (v4_unit_w O)))
  ].
End Tab.

Definition run_c03 : runner := fun f _ args =>
  match f with
  | String "z"%char (String ":"%char g) =>
      match dispatch (ztab (tab_c03 OpsZ)) g with Some h => h (map qc_Z args) | None => VBad end
  | _ => match dispatch (qtab (tab_c03 OpsQ)) f with Some h => h args | None => VBad end
  end.
