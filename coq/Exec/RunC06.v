(* Exec/RunC06.v — dispatcher for the angle / axis-angle constructors and Basis2/Basis3 of C06. *)
From Coq Require Import ZArith QArith Qcanon List Bool Ascii String.
From CG Require Import Scalar Model.Vector Model.Point Model.Matrix Model.Angle Model.Quaternion Model.Metric Model.Rotation
                       Exec.ExecQ Exec.Args Exec.RunC01 Exec.RunC04.
Import ListNotations.
Open Scope string_scope.
Set Implicit Arguments.

Local Notation rq := (@rd_quat Qc).
Local Notation r2 := (@rd_v2 Qc).  Local Notation r3 := (@rd_v3 Qc).
Local Notation rp2 := (@rd_p2 Qc). Local Notation rp3 := (@rd_p3 Qc).
Local Notation rm2 := (@rd_m2 Qc). Local Notation rm3 := (@rd_m3 Qc).
Local Notation rs := (@rd_s Qc).

Definition tab_unit (T : Trig Qc) (U : Unit Qc) (sfx : string) : list (string * (list Qc -> val)) := [
  ("m2_from_angle" ++ sfx, run1 rs (fun t => om2 (m2_from_angle O T U t)));
  ("basis2_from_angle" ++ sfx, run1 rs (fun t => om2 (basis2_from_angle O T U t)));
  ("m3_from_angle_x" ++ sfx, run1 rs (fun t => om3 (m3_from_angle_x O T U t)));
  ("m3_from_angle_y" ++ sfx, run1 rs (fun t => om3 (m3_from_angle_y O T U t)));
  ("m3_from_angle_z" ++ sfx, run1 rs (fun t => om3 (m3_from_angle_z O T U t)));
  ("m3_from_axis_angle" ++ sfx, run2 r3 rs (fun a t => om3 (m3_from_axis_angle O T U a t)));
  ("m4_from_angle_x" ++ sfx, run1 rs (fun t => om4 (m4_from_angle_x O T U t)));
  ("m4_from_angle_y" ++ sfx, run1 rs (fun t => om4 (m4_from_angle_y O T U t)));
  ("m4_from_angle_z" ++ sfx, run1 rs (fun t => om4 (m4_from_angle_z O T U t)));
  ("m4_from_axis_angle" ++ sfx, run2 r3 rs (fun a t => om4 (m4_from_axis_angle O T U a t)));
  ("basis3_from_angle_x" ++ sfx, run1 rs (fun t => om3 (basis3_from_angle_x O T U t)));
  ("basis3_from_angle_y" ++ sfx, run1 rs (fun t => om3 (basis3_from_angle_y O T U t)));
  ("basis3_from_angle_z" ++ sfx, run1 rs (fun t => om3 (basis3_from_angle_z O T U t)));
  ("basis3_from_axis_angle" ++ sfx, run2 r3 rs (fun a t => om3 (basis3_from_axis_angle O T U a t)));
  ("quat_from_angle_x" ++ sfx, run1 rs (fun t => oq (quat_from_angle_x O T U t)));
  ("quat_from_angle_y" ++ sfx, run1 rs (fun t => oq (quat_from_angle_y O T U t)));
  ("quat_from_angle_z" ++ sfx, run1 rs (fun t => oq (quat_from_angle_z O T U t)));
  ("quat_from_axis_angle" ++ sfx, run2 r3 rs (fun a t => oq (quat_from_axis_angle O T U a t)))
].

Definition tab_c06 (o : Orc) : list (string * (list Qc -> val)) :=
  let T := TrigQ o in
  tab_unit T (URad O) "" ++ tab_unit T (UDeg O) "_deg" ++ [
  ("basis2_mul", run2 rm2 rm2 (fun a b => om2 (basis2_mul O a b)));
  ("basis2_invert", run1 rm2 (fun a => pn om2 (basis2_invert O a)));
  ("basis2_rotate_vector", run2 rm2 r2 (fun a v => ov2 (basis2_rotate_vector O a v)));
  ("basis2_rotate_point", run2 rm2 rp2 (fun a p => op2 (basis2_rotate_point O a p)));
  ("basis2_one", run0 (S:=Qc) (om2 (basis2_one O)));
  ("basis3_mul", run2 rm3 rm3 (fun a b => om3 (basis3_mul O a b)));
  ("basis3_invert", run1 rm3 (fun a => pn om3 (basis3_invert O a)));
  ("basis3_rotate_vector", run2 rm3 r3 (fun a v => ov3 (basis3_rotate_vector O a v)));
  ("basis3_rotate_point", run2 rm3 rp3 (fun a p => op3 (basis3_rotate_point O a p)));
  ("basis3_one", run0 (S:=Qc) (om3 (basis3_one O)));
  ("q_invert", run1 rq (fun q => oq (quat_invert O q)));
  ("q_rotate_point", run2 rq rp3 (fun q p => op3 (quat_rotate_point O q p)));
  ("q_rotate_vector", run2 rq r3 (fun q v => ov3 (quat_rotate_vector O q v)));
  ("q_mul", run2 rq rq (fun a b => oq (quat_mul O a b)))
].

Definition run_c06 : runner := fun f o args =>
  match dispatch (tab_c06 o) f with Some h => h args | None => VBad end.
