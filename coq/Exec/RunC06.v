(* Exec/RunC06.v — dispatcher for the angle / axis-angle constructors and Basis2/Basis3 of C06. *)
From Coq Require Import ZArith QArith Qcanon List Bool Ascii String.
From CG Require Import Scalar Model.Vector Model.Point Model.Matrix Model.Angle Model.Quaternion Model.Metric Model.Rotation
                       Exec.ExecQ Exec.Args Exec.RunC01 Exec.RunC04.
Import ListNotations.
Open Scope string_scope.
Set Implicit Arguments.

Section G.
  Variable F : Type.
  Variable O : Ops F.
  Variable T : Trig F.
  Variable A : Approx F.
  Variable toNat : F -> nat.


  Local Notation rq := (@rd_quat F).
  Local Notation r2 := (@rd_v2 F).    Local Notation r3 := (@rd_v3 F).
  Local Notation rp2 := (@rd_p2 F).   Local Notation rp3 := (@rd_p3 F).
  Local Notation rm2 := (@rd_m2 F).   Local Notation rm3 := (@rd_m3 F).
  Local Notation rs := (@rd_s F).

Definition tab_unit (T : Trig F) (U : Unit F) (sfx : string) : list (string * (list F -> gval F)) := [
  ("m2_from_angle" ++ sfx, grun1 rs (fun t => gm2 (m2_from_angle O T U t)));
  ("basis2_from_angle" ++ sfx, grun1 rs (fun t => gm2 (basis2_from_angle O T U t)));
  ("m3_from_angle_x" ++ sfx, grun1 rs (fun t => gm3 (m3_from_angle_x O T U t)));
  ("m3_from_angle_y" ++ sfx, grun1 rs (fun t => gm3 (m3_from_angle_y O T U t)));
  ("m3_from_angle_z" ++ sfx, grun1 rs (fun t => gm3 (m3_from_angle_z O T U t)));
  ("m3_from_axis_angle" ++ sfx, grun2 r3 rs (fun a t => gm3 (m3_from_axis_angle O T U a t)));
  ("m4_from_angle_x" ++ sfx, grun1 rs (fun t => gm4 (m4_from_angle_x O T U t)));
  ("m4_from_angle_y" ++ sfx, grun1 rs (fun t => gm4 (m4_from_angle_y O T U t)));
  ("m4_from_angle_z" ++ sfx, grun1 rs (fun t => gm4 (m4_from_angle_z O T U t)));
  ("m4_from_axis_angle" ++ sfx, grun2 r3 rs (fun a t => gm4 (m4_from_axis_angle O T U a t)));
  ("basis3_from_angle_x" ++ sfx, grun1 rs (fun t => gm3 (basis3_from_angle_x O T U t)));
  ("basis3_from_angle_y" ++ sfx, grun1 rs (fun t => gm3 (basis3_from_angle_y O T U t)));
  ("basis3_from_angle_z" ++ sfx, grun1 rs (fun t => gm3 (basis3_from_angle_z O T U t)));
  ("basis3_from_axis_angle" ++ sfx, grun2 r3 rs (fun a t => gm3 (basis3_from_axis_angle O T U a t)));
  ("quat_from_angle_x" ++ sfx, grun1 rs (fun t => gq (quat_from_angle_x O T U t)));
  ("quat_from_angle_y" ++ sfx, grun1 rs (fun t => gq (quat_from_angle_y O T U t)));
  ("quat_from_angle_z" ++ sfx, grun1 rs (fun t => gq (quat_from_angle_z O T U t)));
  ("quat_from_axis_angle" ++ sfx, grun2 r3 rs (fun a t => gq (quat_from_axis_angle O T U a t)))
].

Definition gtab_c06 : list (string * (list F -> gval F)) :=
  tab_unit T (URad O) "" ++ tab_unit T (UDeg O) "_deg" ++ [
  ("basis2_mul", grun2 rm2 rm2 (fun a b => gm2 (basis2_mul O a b)));
  ("basis2_invert", grun1 rm2 (fun a => gpn gm2 (basis2_invert O a)));
  ("basis2_rotate_vector", grun2 rm2 r2 (fun a v => gv2 (basis2_rotate_vector O a v)));
  ("basis2_rotate_point", grun2 rm2 rp2 (fun a p => gp2 (basis2_rotate_point O a p)));
  ("basis2_one", grun0 (S:=F) (gm2 (basis2_one O)));
  ("basis3_mul", grun2 rm3 rm3 (fun a b => gm3 (basis3_mul O a b)));
  ("basis3_invert", grun1 rm3 (fun a => gpn gm3 (basis3_invert O a)));
  ("basis3_rotate_vector", grun2 rm3 r3 (fun a v => gv3 (basis3_rotate_vector O a v)));
  ("basis3_rotate_point", grun2 rm3 rp3 (fun a p => gp3 (basis3_rotate_point O a p)));
  ("basis3_one", grun0 (S:=F) (gm3 (basis3_one O)));
  ("q_invert", grun1 rq (fun q => gq (quat_invert O q)));
  ("q_rotate_point", grun2 rq rp3 (fun q p => gp3 (quat_rotate_point O q p)));
  ("q_rotate_vector", grun2 rq r3 (fun q v => gv3 (quat_rotate_vector O q v)));
  ("q_mul", grun2 rq rq (fun a b => gq (quat_mul O a b)))
].
End G.

Definition tab_c06 (o : Orc) : list (string * (list Qc -> val)) := qtab (gtab_c06 OpsQ (TrigQ o)).

Definition run_c06 : runner := fun f o args =>
  match dispatch (tab_c06 o) f with Some h => h args | None => VBad end.
