(* Exec/RunC11.v — dispatcher for magnitude / distance / normalize / angle / project_on (C11). *)
From Coq Require Import ZArith QArith Qcanon List Bool Ascii String.
From CG Require Import Scalar Model.Vector Model.Point Model.Matrix Model.Angle Model.Quaternion Model.Metric
                       Exec.ExecQ Exec.Args Exec.RunC01 Exec.RunC04.
Import ListNotations.
Open Scope string_scope.
Set Implicit Arguments.

Section G.
  Variable F : Type.
  Variable O : Ops F.
  Variable T : Trig F.
  Variable A : Approx F.
  Variable toNat : F -> nat.


  Local Notation rq := (@rd_quat F).
  Local Notation r1 := (@rd_v1 F).    Local Notation r2 := (@rd_v2 F).    Local Notation r3 := (@rd_v3 F).    Local Notation r4 := (@rd_v4 F).
  Local Notation rp1 := (@rd_p1 F).   Local Notation rp2 := (@rd_p2 F).   Local Notation rp3 := (@rd_p3 F).
  Local Notation rs := (@rd_s F).
Definition gv1' (v : V1 F) := GQ (v1_list v).

Definition gtab_c11 : list (string * (list F -> gval F)) := [
  ("v1_magnitude", grun1 r1 (fun v => gs (v1_magnitude O T v)));
  ("v2_magnitude", grun1 r2 (fun v => gs (v2_magnitude O T v)));
  ("v3_magnitude", grun1 r3 (fun v => gs (v3_magnitude O T v)));
  ("v4_magnitude", grun1 r4 (fun v => gs (v4_magnitude O T v)));
  ("quat_magnitude", grun1 rq (fun v => gs (quat_magnitude O T v)));
  ("v1_magnitude2", grun1 r1 (fun v => gs (v1_magnitude2 O v)));
  ("v2_magnitude2", grun1 r2 (fun v => gs (v2_magnitude2 O v)));
  ("v3_magnitude2", grun1 r3 (fun v => gs (v3_magnitude2 O v)));
  ("v4_magnitude2", grun1 r4 (fun v => gs (v4_magnitude2 O v)));
  ("quat_magnitude2", grun1 rq (fun v => gs (quat_magnitude2 O v)));
  ("v1_normalize", grun1 r1 (fun v => gv1' (v1_normalize O T v)));
  ("v2_normalize", grun1 r2 (fun v => gv2 (v2_normalize O T v)));
  ("v3_normalize", grun1 r3 (fun v => gv3 (v3_normalize O T v)));
  ("v4_normalize", grun1 r4 (fun v => gv4 (v4_normalize O T v)));
  ("quat_normalize", grun1 rq (fun v => gq (quat_normalize O T v)));
  ("v1_normalize_to", grun2 r1 rs (fun v m => gv1' (v1_normalize_to O T v m)));
  ("v2_normalize_to", grun2 r2 rs (fun v m => gv2 (v2_normalize_to O T v m)));
  ("v3_normalize_to", grun2 r3 rs (fun v m => gv3 (v3_normalize_to O T v m)));
  ("v4_normalize_to", grun2 r4 rs (fun v m => gv4 (v4_normalize_to O T v m)));
  ("quat_normalize_to", grun2 rq rs (fun v m => gq (quat_normalize_to O T v m)));
  ("v1_distance", grun2 r1 r1 (fun a b => gs (v1_distance O T a b)));
  ("v2_distance", grun2 r2 r2 (fun a b => gs (v2_distance O T a b)));
  ("v3_distance", grun2 r3 r3 (fun a b => gs (v3_distance O T a b)));
  ("v4_distance", grun2 r4 r4 (fun a b => gs (v4_distance O T a b)));
  ("p1_distance", grun2 rp1 rp1 (fun a b => gs (p1_distance O T a b)));
  ("p2_distance", grun2 rp2 rp2 (fun a b => gs (p2_distance O T a b)));
  ("p3_distance", grun2 rp3 rp3 (fun a b => gs (p3_distance O T a b)));
  ("quat_distance", grun2 rq rq (fun a b => gs (quat_distance O T a b)));
  ("v1_distance2", grun2 r1 r1 (fun a b => gs (v1_distance2 O a b)));
  ("v2_distance2", grun2 r2 r2 (fun a b => gs (v2_distance2 O a b)));
  ("v3_distance2", grun2 r3 r3 (fun a b => gs (v3_distance2 O a b)));
  ("v4_distance2", grun2 r4 r4 (fun a b => gs (v4_distance2 O a b)));
  ("p1_distance2", grun2 rp1 rp1 (fun a b => gs (p1_distance2 O a b)));
  ("p2_distance2", grun2 rp2 rp2 (fun a b => gs (p2_distance2 O a b)));
  ("p3_distance2", grun2 rp3 rp3 (fun a b => gs (p3_distance2 O a b)));
  ("quat_distance2", grun2 rq rq (fun a b => gs (quat_distance2 O a b)));
  ("v1_angle", grun2 r1 r1 (fun a b => gs (v1_angle O T a b)));
  ("v2_angle", grun2 r2 r2 (fun a b => gs (v2_angle O T a b)));
  ("v3_angle", grun2 r3 r3 (fun a b => gs (v3_angle O T a b)));
  ("v4_angle", grun2 r4 r4 (fun a b => gs (v4_angle O T a b)));
  ("quat_angle", grun2 rq rq (fun a b => gs (quat_angle O T a b)));
  ("v1_project_on", grun2 r1 r1 (fun a b => gv1' (v1_project_on O a b)));
  ("v2_project_on", grun2 r2 r2 (fun a b => gv2 (v2_project_on O a b)));
  ("v3_project_on", grun2 r3 r3 (fun a b => gv3 (v3_project_on O a b)));
  ("v4_project_on", grun2 r4 r4 (fun a b => gv4 (v4_project_on O a b)));
  ("quat_project_on", grun2 rq rq (fun a b => gq (quat_project_on O a b)))
].
End G.

Definition tab_c11 (o : Orc) : list (string * (list Qc -> val)) := qtab (gtab_c11 OpsQ (TrigQ o)).

Definition run_c11 : runner := fun f o args =>
  match dispatch (tab_c11 o) f with Some h => h args | None => VBad end.
