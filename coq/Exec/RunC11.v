(* Exec/RunC11.v — dispatcher for magnitude / distance / normalize / angle / project_on (C11). *)
From Coq Require Import ZArith QArith Qcanon List Bool Ascii String.
From CG Require Import Scalar Model.Vector Model.Point Model.Matrix Model.Angle Model.Quaternion Model.Metric
                       Exec.ExecQ Exec.Args Exec.RunC01 Exec.RunC04.
Import ListNotations.
Open Scope string_scope.
Set Implicit Arguments.

Local Notation rq := (@rd_quat Qc).
Local Notation r1 := (@rd_v1 Qc).  Local Notation r2 := (@rd_v2 Qc).  Local Notation r3 := (@rd_v3 Qc).  Local Notation r4 := (@rd_v4 Qc).
Local Notation rp1 := (@rd_p1 Qc). Local Notation rp2 := (@rd_p2 Qc). Local Notation rp3 := (@rd_p3 Qc).
Local Notation rs := (@rd_s Qc).
Definition ov1' (v : V1 Qc) := vq (v1_list v).

Definition tab_c11 (o : Orc) : list (string * (list Qc -> val)) :=
  let T := TrigQ o in [
  ("v1_magnitude", run1 r1 (fun v => os (v1_magnitude O T v)));
  ("v2_magnitude", run1 r2 (fun v => os (v2_magnitude O T v)));
  ("v3_magnitude", run1 r3 (fun v => os (v3_magnitude O T v)));
  ("v4_magnitude", run1 r4 (fun v => os (v4_magnitude O T v)));
  ("quat_magnitude", run1 rq (fun v => os (quat_magnitude O T v)));
  ("v1_magnitude2", run1 r1 (fun v => os (v1_magnitude2 O v)));
  ("v2_magnitude2", run1 r2 (fun v => os (v2_magnitude2 O v)));
  ("v3_magnitude2", run1 r3 (fun v => os (v3_magnitude2 O v)));
  ("v4_magnitude2", run1 r4 (fun v => os (v4_magnitude2 O v)));
  ("quat_magnitude2", run1 rq (fun v => os (quat_magnitude2 O v)));
  ("v1_normalize", run1 r1 (fun v => ov1' (v1_normalize O T v)));
  ("v2_normalize", run1 r2 (fun v => ov2 (v2_normalize O T v)));
  ("v3_normalize", run1 r3 (fun v => ov3 (v3_normalize O T v)));
  ("v4_normalize", run1 r4 (fun v => ov4 (v4_normalize O T v)));
  ("quat_normalize", run1 rq (fun v => oq (quat_normalize O T v)));
  ("v1_normalize_to", run2 r1 rs (fun v m => ov1' (v1_normalize_to O T v m)));
  ("v2_normalize_to", run2 r2 rs (fun v m => ov2 (v2_normalize_to O T v m)));
  ("v3_normalize_to", run2 r3 rs (fun v m => ov3 (v3_normalize_to O T v m)));
  ("v4_normalize_to", run2 r4 rs (fun v m => ov4 (v4_normalize_to O T v m)));
  ("quat_normalize_to", run2 rq rs (fun v m => oq (quat_normalize_to O T v m)));
  ("v1_distance", run2 r1 r1 (fun a b => os (v1_distance O T a b)));
  ("v2_distance", run2 r2 r2 (fun a b => os (v2_distance O T a b)));
  ("v3_distance", run2 r3 r3 (fun a b => os (v3_distance O T a b)));
  ("v4_distance", run2 r4 r4 (fun a b => os (v4_distance O T a b)));
  ("p1_distance", run2 rp1 rp1 (fun a b => os (p1_distance O T a b)));
  ("p2_distance", run2 rp2 rp2 (fun a b => os (p2_distance O T a b)));
  ("p3_distance", run2 rp3 rp3 (fun a b => os (p3_distance O T a b)));
  ("quat_distance", run2 rq rq (fun a b => os (quat_distance O T a b)));
  ("v1_distance2", run2 r1 r1 (fun a b => os (v1_distance2 O a b)));
  ("v2_distance2", run2 r2 r2 (fun a b => os (v2_distance2 O a b)));
  ("v3_distance2", run2 r3 r3 (fun a b => os (v3_distance2 O a b)));
  ("v4_distance2", run2 r4 r4 (fun a b => os (v4_distance2 O a b)));
  ("p1_distance2", run2 rp1 rp1 (fun a b => os (p1_distance2 O a b)));
  ("p2_distance2", run2 rp2 rp2 (fun a b => os (p2_distance2 O a b)));
  ("p3_distance2", run2 rp3 rp3 (fun a b => os (p3_distance2 O a b)));
  ("quat_distance2", run2 rq rq (fun a b => os (quat_distance2 O a b)));
  ("v1_angle", run2 r1 r1 (fun a b => os (v1_angle O T a b)));
  ("v2_angle", run2 r2 r2 (fun a b => os (v2_angle O T a b)));
  ("v3_angle", run2 r3 r3 (fun a b => os (v3_angle O T a b)));
  ("v4_angle", run2 r4 r4 (fun a b => os (v4_angle O T a b)));
  ("quat_angle", run2 rq rq (fun a b => os (quat_angle O T a b)));
  ("v1_project_on", run2 r1 r1 (fun a b => ov1' (v1_project_on O a b)));
  ("v2_project_on", run2 r2 r2 (fun a b => ov2 (v2_project_on O a b)));
  ("v3_project_on", run2 r3 r3 (fun a b => ov3 (v3_project_on O a b)));
  ("v4_project_on", run2 r4 r4 (fun a b => ov4 (v4_project_on O a b)));
  ("quat_project_on", run2 rq rq (fun a b => oq (quat_project_on O a b)))
].

Definition run_c11 : runner := fun f o args =>
  match dispatch (tab_c11 o) f with Some h => h args | None => VBad end.
