(* Exec/RunC01.v — dispatcher for the matrix functions of properties C01 and C02 (src/matrix.rs). *)
From Coq Require Import ZArith QArith Qcanon List Bool Ascii String.
From CG Require Import Scalar Model.Vector Model.Point Model.Matrix Exec.ExecQ Exec.Args.
Import ListNotations.
Open Scope string_scope.
Set Implicit Arguments.

Definition O := OpsQ.
Definition ov2 (v : V2 Qc) := vq (v2_list v).
Definition ov3 (v : V3 Qc) := vq (v3_list v).
Definition ov4 (v : V4 Qc) := vq (v4_list v).
Definition op2 (v : P2 Qc) := vq (p2_list v).
Definition op3 (v : P3 Qc) := vq (p3_list v).
Definition om2 (m : M2 Qc) := vq (m2_list m).
Definition om3 (m : M3 Qc) := vq (m3_list m).
Definition om4 (m : M4 Qc) := vq (m4_list m).
Definition os (x : Qc) := vq [x].
(* functions that panic on a bad index *)
Definition pn (A : Type) (f : A -> val) (o : option A) : val := match o with Some a => f a | None => VPanic end.
(* functions returning Option *)
Definition opt (A : Type) (f : A -> val) (o : option A) : val := match o with Some a => f a | None => VNone end.

Local Notation r2 := (@rd_v2 Qc).  Local Notation r3 := (@rd_v3 Qc).  Local Notation r4 := (@rd_v4 Qc).
Local Notation rp2 := (@rd_p2 Qc). Local Notation rp3 := (@rd_p3 Qc).
Local Notation rm2 := (@rd_m2 Qc). Local Notation rm3 := (@rd_m3 Qc). Local Notation rm4 := (@rd_m4 Qc).
Local Notation rs := (@rd_s Qc).
Definition ri : rd Qc nat := rd_map qc_nat (@rd_s Qc).

Definition tab_c01 : list (string * (list Qc -> val)) := [
  ("m2_new", run1 rm2 om2); ("m3_new", run1 rm3 om3); ("m4_new", run1 rm4 om4);
  ("m2_from_cols", run2 r2 r2 (fun a b => om2 (m2_from_cols a b)));
  ("m3_from_cols", run3 r3 r3 r3 (fun a b c => om3 (m3_from_cols a b c)));
  ("m4_from_cols", run4 r4 r4 r4 r4 (fun a b c d => om4 (m4_from_cols a b c d)));
  ("m2_col", run2 rm2 ri (fun m c => pn ov2 (m2_col m c)));
  ("m3_col", run2 rm3 ri (fun m c => pn ov3 (m3_col m c)));
  ("m4_col", run2 rm4 ri (fun m c => pn ov4 (m4_col m c)));
  ("m2_e", run3 rm2 ri ri (fun m c r => pn os (m2_e m c r)));
  ("m3_e", run3 rm3 ri ri (fun m c r => pn os (m3_e m c r)));
  ("m4_e", run3 rm4 ri ri (fun m c r => pn os (m4_e m c r)));
  ("m2_row", run2 rm2 ri (fun m r => pn ov2 (m2_row m r)));
  ("m3_row", run2 rm3 ri (fun m r => pn ov3 (m3_row m r)));
  ("m4_row", run2 rm4 ri (fun m r => pn ov4 (m4_row m r)));
  ("m2_transpose", run1 rm2 (fun m => om2 (m2_transpose m)));
  ("m3_transpose", run1 rm3 (fun m => om3 (m3_transpose m)));
  ("m4_transpose", run1 rm4 (fun m => om4 (m4_transpose m)));
  ("m2_diagonal", run1 rm2 (fun m => ov2 (m2_diagonal m)));
  ("m3_diagonal", run1 rm3 (fun m => ov3 (m3_diagonal m)));
  ("m4_diagonal", run1 rm4 (fun m => ov4 (m4_diagonal m)));
  ("m2_trace", run1 rm2 (fun m => os (m2_trace O m)));
  ("m3_trace", run1 rm3 (fun m => os (m3_trace O m)));
  ("m4_trace", run1 rm4 (fun m => os (m4_trace O m)));
  ("m2_from_value", run1 rs (fun s => om2 (m2_from_value O s)));
  ("m3_from_value", run1 rs (fun s => om3 (m3_from_value O s)));
  ("m4_from_value", run1 rs (fun s => om4 (m4_from_value O s)));
  ("m2_from_diagonal", run1 r2 (fun d => om2 (m2_from_diagonal O d)));
  ("m3_from_diagonal", run1 r3 (fun d => om3 (m3_from_diagonal O d)));
  ("m4_from_diagonal", run1 r4 (fun d => om4 (m4_from_diagonal O d)));
  ("m2_identity", run0 (S:=Qc) (om2 (m2_identity O)));
  ("m3_identity", run0 (S:=Qc) (om3 (m3_identity O)));
  ("m4_identity", run0 (S:=Qc) (om4 (m4_identity O)));
  ("m2_zero", run0 (S:=Qc) (om2 (m2_zero O)));
  ("m3_zero", run0 (S:=Qc) (om3 (m3_zero O)));
  ("m4_zero", run0 (S:=Qc) (om4 (m4_zero O)));
  ("m3_from_translation", run1 r2 (fun v => om3 (m3_from_translation O v)));
  ("m4_from_translation", run1 r3 (fun v => om4 (m4_from_translation O v)));
  ("m3_from_scale", run1 rs (fun s => om3 (m3_from_scale O s)));
  ("m4_from_scale", run1 rs (fun s => om4 (m4_from_scale O s)));
  ("m3_from_nonuniform_scale", run2 rs rs (fun x y => om3 (m3_from_nonuniform_scale O x y)));
  ("m4_from_nonuniform_scale", run3 rs rs rs (fun x y z => om4 (m4_from_nonuniform_scale O x y z)));
  ("m3_of_m2", run1 rm2 (fun m => om3 (m3_of_m2 O m)));
  ("m4_of_m2", run1 rm2 (fun m => om4 (m4_of_m2 O m)));
  ("m4_of_m3", run1 rm3 (fun m => om4 (m4_of_m3 O m)));
  ("m2_mul_v", run2 rm2 r2 (fun m v => ov2 (m2_mul_v O m v)));
  ("m3_mul_v", run2 rm3 r3 (fun m v => ov3 (m3_mul_v O m v)));
  ("m4_mul_v", run2 rm4 r4 (fun m v => ov4 (m4_mul_v O m v)));
  ("m2_mul", run2 rm2 rm2 (fun a b => om2 (m2_mul O a b)));
  ("m3_mul", run2 rm3 rm3 (fun a b => om3 (m3_mul O a b)));
  ("m4_mul", run2 rm4 rm4 (fun a b => om4 (m4_mul O a b)));
  ("m2_add", run2 rm2 rm2 (fun a b => om2 (m2_add O a b)));
  ("m3_add", run2 rm3 rm3 (fun a b => om3 (m3_add O a b)));
  ("m4_add", run2 rm4 rm4 (fun a b => om4 (m4_add O a b)));
  ("m2_sub", run2 rm2 rm2 (fun a b => om2 (m2_sub O a b)));
  ("m3_sub", run2 rm3 rm3 (fun a b => om3 (m3_sub O a b)));
  ("m4_sub", run2 rm4 rm4 (fun a b => om4 (m4_sub O a b)));
  ("m2_neg", run1 rm2 (fun a => om2 (m2_neg O a)));
  ("m3_neg", run1 rm3 (fun a => om3 (m3_neg O a)));
  ("m4_neg", run1 rm4 (fun a => om4 (m4_neg O a)));
  ("m2_mul_s", run2 rm2 rs (fun a s => om2 (m2_mul_s O a s)));
  ("m3_mul_s", run2 rm3 rs (fun a s => om3 (m3_mul_s O a s)));
  ("m4_mul_s", run2 rm4 rs (fun a s => om4 (m4_mul_s O a s)));
  ("m2_div_s", run2 rm2 rs (fun a s => om2 (m2_div_s O a s)));
  ("m3_div_s", run2 rm3 rs (fun a s => om3 (m3_div_s O a s)));
  ("m4_div_s", run2 rm4 rs (fun a s => om4 (m4_div_s O a s)));
  ("m2_rem_s", run2 rm2 rs (fun a s => om2 (m2_rem_s O a s)));
  ("m3_rem_s", run2 rm3 rs (fun a s => om3 (m3_rem_s O a s)));
  ("m4_rem_s", run2 rm4 rs (fun a s => om4 (m4_rem_s O a s)));
  ("m3_transform_vector2", run2 rm3 r2 (fun m v => ov2 (m3_transform_vector2 O m v)));
  ("m3_transform_point2", run2 rm3 rp2 (fun m p => op2 (m3_transform_point2 O m p)));
  ("m3_transform_vector3", run2 rm3 r3 (fun m v => ov3 (m3_transform_vector3 O m v)));
  ("m3_transform_point3", run2 rm3 rp3 (fun m p => op3 (m3_transform_point3 O m p)));
  ("m4_transform_vector", run2 rm4 r3 (fun m v => ov3 (m4_transform_vector O m v)));
  ("m4_transform_point", run2 rm4 rp3 (fun m p => op3 (m4_transform_point O m p)));
  ("m3_concat", run2 rm3 rm3 (fun a b => om3 (m3_concat O a b)));
  ("m4_concat", run2 rm4 rm4 (fun a b => om4 (m4_concat O a b)));
  (* C02 *)
  ("m2_determinant", run1 rm2 (fun m => os (m2_determinant O m)));
  ("m3_determinant", run1 rm3 (fun m => os (m3_determinant O m)));
  ("m4_determinant", run1 rm4 (fun m => os (m4_determinant O m)));
  ("m2_invert", run1 rm2 (fun m => opt om2 (m2_invert O m)));
  ("m3_invert", run1 rm3 (fun m => opt om3 (m3_invert O m)));
  ("m4_invert", run1 rm4 (fun m => opt om4 (m4_invert O m)));
  ("m3_inverse_transform", run1 rm3 (fun m => opt om3 (m3_inverse_transform O m)));
  ("m4_inverse_transform", run1 rm4 (fun m => opt om4 (m4_inverse_transform O m)));
  ("m2_transpose_self", run1 rm2 (fun m => pn om2 (m2_transpose_self m)));
  ("m3_transpose_self", run1 rm3 (fun m => pn om3 (m3_transpose_self m)));
  ("m4_transpose_self", run1 rm4 (fun m => pn om4 (m4_transpose_self m)));
  ("m2_swap_rows", run3 rm2 ri ri (fun m a b => pn om2 (m2_swap_rows m a b)));
  ("m3_swap_rows", run3 rm3 ri ri (fun m a b => pn om3 (m3_swap_rows m a b)));
  ("m4_swap_rows", run3 rm4 ri ri (fun m a b => pn om4 (m4_swap_rows m a b)));
  ("m2_swap_columns", run3 rm2 ri ri (fun m a b => pn om2 (m2_swap_columns m a b)));
  ("m3_swap_columns", run3 rm3 ri ri (fun m a b => pn om3 (m3_swap_columns m a b)));
  ("m4_swap_columns", run3 rm4 ri ri (fun m a b => pn om4 (m4_swap_columns m a b)));
  ("m2_swap_elements", run5 rm2 ri ri ri ri (fun m a b c d => pn om2 (m2_swap_elements m a b c d)));
  ("m3_swap_elements", run5 rm3 ri ri ri ri (fun m a b c d => pn om3 (m3_swap_elements m a b c d)));
  ("m4_swap_elements", run5 rm4 ri ri ri ri (fun m a b c d => pn om4 (m4_swap_elements m a b c d)));
  ("m2_replace_col", run3 rm2 ri r2 (fun m c v => pn (fun p => vq (m2_list (fst p) ++ v2_list (snd p))) (m2_replace_col m c v)));
  ("m3_replace_col", run3 rm3 ri r3 (fun m c v => pn (fun p => vq (m3_list (fst p) ++ v3_list (snd p))) (m3_replace_col m c v)));
  ("m4_replace_col", run3 rm4 ri r4 (fun m c v => pn (fun p => vq (m4_list (fst p) ++ v4_list (snd p))) (m4_replace_col m c v)))
].

Definition run_c01 : runner := fun f _ args =>
  match dispatch tab_c01 f with Some h => h args | None => VBad end.
Definition run_c02 : runner := run_c01.
