(* Exec/RunC01.v — dispatcher for the matrix functions of properties C01 and C02 (src/matrix.rs).
   The table is written once, parametric in the scalar type F and its operations O (section G); the correspondence
   check runs it at Qc (tab_c01), the symbolic tie states lemmas about it over an arbitrary field. *)
From Coq Require Import ZArith QArith Qcanon List Bool Ascii String.
From CG Require Import Scalar Model.Vector Model.Point Model.Matrix Exec.ExecQ Exec.Args.
Import ListNotations.
Open Scope string_scope.
Set Implicit Arguments.

(* generic flattening of results *)
Definition gv1 {F} (v : V1 F) : gval F := GQ (v1_list v).
Definition gv2 {F} (v : V2 F) : gval F := GQ (v2_list v).
Definition gv3 {F} (v : V3 F) : gval F := GQ (v3_list v).
Definition gv4 {F} (v : V4 F) : gval F := GQ (v4_list v).
Definition gp1 {F} (v : P1 F) : gval F := GQ (p1_list v).
Definition gp2 {F} (v : P2 F) : gval F := GQ (p2_list v).
Definition gp3 {F} (v : P3 F) : gval F := GQ (p3_list v).
Definition gm2 {F} (m : M2 F) : gval F := GQ (m2_list m).
Definition gm3 {F} (m : M3 F) : gval F := GQ (m3_list m).
Definition gm4 {F} (m : M4 F) : gval F := GQ (m4_list m).
Definition gs {F} (x : F) : gval F := GQ [x].
Definition gb {F} (b : bool) : gval F := GBool b.
(* functions that panic where the model returns None *)
Definition gpn {F} (A : Type) (f : A -> gval F) (o : option A) : gval F := match o with Some a => f a | None => GPanic end.
(* functions returning Option *)
Definition gopt {F} (A : Type) (f : A -> gval F) (o : option A) : gval F := match o with Some a => f a | None => GNone end.
(* option (option X): outer None = panic, inner None = Option::None *)
Definition goo {F} (X : Type) (f : X -> gval F) (o : option (option X)) : gval F :=
  match o with None => GPanic | Some None => GNone | Some (Some x) => f x end.

Section G.
  Variable F : Type.
  Variable O : Ops F.
  Variable toNat : F -> nat.       (* index arguments travel as scalars *)
  Local Notation r2 := (@rd_v2 F).  Local Notation r3 := (@rd_v3 F).  Local Notation r4 := (@rd_v4 F).
  Local Notation rp2 := (@rd_p2 F). Local Notation rp3 := (@rd_p3 F).
  Local Notation rm2 := (@rd_m2 F). Local Notation rm3 := (@rd_m3 F). Local Notation rm4 := (@rd_m4 F).
  Local Notation rs := (@rd_s F).
  Definition gri : rd F nat := rd_map toNat (@rd_s F).
  Local Notation ri := gri.

  Definition gtab_c01 : list (string * (list F -> gval F)) := [
    ("m2_new", grun1 rm2 gm2); ("m3_new", grun1 rm3 gm3); ("m4_new", grun1 rm4 gm4);
    ("m2_from_cols", grun2 r2 r2 (fun a b => gm2 (m2_from_cols a b)));
    ("m3_from_cols", grun3 r3 r3 r3 (fun a b c => gm3 (m3_from_cols a b c)));
    ("m4_from_cols", grun4 r4 r4 r4 r4 (fun a b c d => gm4 (m4_from_cols a b c d)));
    ("m2_col", grun2 rm2 ri (fun m c => gpn gv2 (m2_col m c)));
    ("m3_col", grun2 rm3 ri (fun m c => gpn gv3 (m3_col m c)));
    ("m4_col", grun2 rm4 ri (fun m c => gpn gv4 (m4_col m c)));
    ("m2_e", grun3 rm2 ri ri (fun m c r => gpn gs (m2_e m c r)));
    ("m3_e", grun3 rm3 ri ri (fun m c r => gpn gs (m3_e m c r)));
    ("m4_e", grun3 rm4 ri ri (fun m c r => gpn gs (m4_e m c r)));
    ("m2_row", grun2 rm2 ri (fun m r => gpn gv2 (m2_row m r)));
    ("m3_row", grun2 rm3 ri (fun m r => gpn gv3 (m3_row m r)));
    ("m4_row", grun2 rm4 ri (fun m r => gpn gv4 (m4_row m r)));
    ("m2_transpose", grun1 rm2 (fun m => gm2 (m2_transpose m)));
    ("m3_transpose", grun1 rm3 (fun m => gm3 (m3_transpose m)));
    ("m4_transpose", grun1 rm4 (fun m => gm4 (m4_transpose m)));
    ("m2_diagonal", grun1 rm2 (fun m => gv2 (m2_diagonal m)));
    ("m3_diagonal", grun1 rm3 (fun m => gv3 (m3_diagonal m)));
    ("m4_diagonal", grun1 rm4 (fun m => gv4 (m4_diagonal m)));
    ("m2_trace", grun1 rm2 (fun m => gs (m2_trace O m)));
    ("m3_trace", grun1 rm3 (fun m => gs (m3_trace O m)));
    ("m4_trace", grun1 rm4 (fun m => gs (m4_trace O m)));
    ("m2_from_value", grun1 rs (fun s => gm2 (m2_from_value O s)));
    ("m3_from_value", grun1 rs (fun s => gm3 (m3_from_value O s)));
    ("m4_from_value", grun1 rs (fun s => gm4 (m4_from_value O s)));
    ("m2_from_diagonal", grun1 r2 (fun d => gm2 (m2_from_diagonal O d)));
    ("m3_from_diagonal", grun1 r3 (fun d => gm3 (m3_from_diagonal O d)));
    ("m4_from_diagonal", grun1 r4 (fun d => gm4 (m4_from_diagonal O d)));
    ("m2_identity", grun0 (S:=F) (gm2 (m2_identity O)));
    ("m3_identity", grun0 (S:=F) (gm3 (m3_identity O)));
    ("m4_identity", grun0 (S:=F) (gm4 (m4_identity O)));
    ("m2_zero", grun0 (S:=F) (gm2 (m2_zero O)));
    ("m3_zero", grun0 (S:=F) (gm3 (m3_zero O)));
    ("m4_zero", grun0 (S:=F) (gm4 (m4_zero O)));
    ("m3_from_translation", grun1 r2 (fun v => gm3 (m3_from_translation O v)));
    ("m4_from_translation", grun1 r3 (fun v => gm4 (m4_from_translation O v)));
    ("m3_from_scale", grun1 rs (fun s => gm3 (m3_from_scale O s)));
    ("m4_from_scale", grun1 rs (fun s => gm4 (m4_from_scale O s)));
    ("m3_from_nonuniform_scale", grun2 rs rs (fun x y => gm3 (m3_from_nonuniform_scale O x y)));
    ("m4_from_nonuniform_scale", grun3 rs rs rs (fun x y z => gm4 (m4_from_nonuniform_scale O x y z)));
    ("m3_of_m2", grun1 rm2 (fun m => gm3 (m3_of_m2 O m)));
    ("m4_of_m2", grun1 rm2 (fun m => gm4 (m4_of_m2 O m)));
    ("m4_of_m3", grun1 rm3 (fun m => gm4 (m4_of_m3 O m)));
    ("m2_mul_v", grun2 rm2 r2 (fun m v => gv2 (m2_mul_v O m v)));
    ("m3_mul_v", grun2 rm3 r3 (fun m v => gv3 (m3_mul_v O m v)));
    ("m4_mul_v", grun2 rm4 r4 (fun m v => gv4 (m4_mul_v O m v)));
    ("m2_mul", grun2 rm2 rm2 (fun a b => gm2 (m2_mul O a b)));
    ("m3_mul", grun2 rm3 rm3 (fun a b => gm3 (m3_mul O a b)));
    ("m4_mul", grun2 rm4 rm4 (fun a b => gm4 (m4_mul O a b)));
    ("m2_add", grun2 rm2 rm2 (fun a b => gm2 (m2_add O a b)));
    ("m3_add", grun2 rm3 rm3 (fun a b => gm3 (m3_add O a b)));
    ("m4_add", grun2 rm4 rm4 (fun a b => gm4 (m4_add O a b)));
    ("m2_sub", grun2 rm2 rm2 (fun a b => gm2 (m2_sub O a b)));
    ("m3_sub", grun2 rm3 rm3 (fun a b => gm3 (m3_sub O a b)));
    ("m4_sub", grun2 rm4 rm4 (fun a b => gm4 (m4_sub O a b)));
    ("m2_neg", grun1 rm2 (fun a => gm2 (m2_neg O a)));
    ("m3_neg", grun1 rm3 (fun a => gm3 (m3_neg O a)));
    ("m4_neg", grun1 rm4 (fun a => gm4 (m4_neg O a)));
    ("m2_mul_s", grun2 rm2 rs (fun a s => gm2 (m2_mul_s O a s)));
    ("m3_mul_s", grun2 rm3 rs (fun a s => gm3 (m3_mul_s O a s)));
    ("m4_mul_s", grun2 rm4 rs (fun a s => gm4 (m4_mul_s O a s)));
    ("m2_div_s", grun2 rm2 rs (fun a s => gm2 (m2_div_s O a s)));
    ("m3_div_s", grun2 rm3 rs (fun a s => gm3 (m3_div_s O a s)));
    ("m4_div_s", grun2 rm4 rs (fun a s => gm4 (m4_div_s O a s)));
    ("m2_rem_s", grun2 rm2 rs (fun a s => gm2 (m2_rem_s O a s)));
    ("m3_rem_s", grun2 rm3 rs (fun a s => gm3 (m3_rem_s O a s)));
    ("m4_rem_s", grun2 rm4 rs (fun a s => gm4 (m4_rem_s O a s)));
    ("m3_transform_vector2", grun2 rm3 r2 (fun m v => gv2 (m3_transform_vector2 O m v)));
    ("m3_transform_point2", grun2 rm3 rp2 (fun m p => gp2 (m3_transform_point2 O m p)));
    ("m3_transform_vector3", grun2 rm3 r3 (fun m v => gv3 (m3_transform_vector3 O m v)));
    ("m3_transform_point3", grun2 rm3 rp3 (fun m p => gp3 (m3_transform_point3 O m p)));
    ("m4_transform_vector", grun2 rm4 r3 (fun m v => gv3 (m4_transform_vector O m v)));
    ("m4_transform_point", grun2 rm4 rp3 (fun m p => gp3 (m4_transform_point O m p)));
    ("m3_concat", grun2 rm3 rm3 (fun a b => gm3 (m3_concat O a b)));
    ("m4_concat", grun2 rm4 rm4 (fun a b => gm4 (m4_concat O a b)));
    (* Transform<Point2> for Matrix3 and the default concat_self of each impl: same product *)
    ("m3_concat_2d", grun2 rm3 rm3 (fun a b => gm3 (m3_concat O a b)));
    ("m3_concat_self", grun2 rm3 rm3 (fun a b => gm3 (m3_concat O a b)));
    ("m3_concat_self_2d", grun2 rm3 rm3 (fun a b => gm3 (m3_concat O a b)));
    ("m4_concat_self", grun2 rm4 rm4 (fun a b => gm4 (m4_concat O a b)));
    (* C02 *)
    ("m2_determinant", grun1 rm2 (fun m => gs (m2_determinant O m)));
    ("m3_determinant", grun1 rm3 (fun m => gs (m3_determinant O m)));
    ("m4_determinant", grun1 rm4 (fun m => gs (m4_determinant O m)));
    ("m2_invert", grun1 rm2 (fun m => gopt gm2 (m2_invert O m)));
    ("m3_invert", grun1 rm3 (fun m => gopt gm3 (m3_invert O m)));
    ("m4_invert", grun1 rm4 (fun m => gopt gm4 (m4_invert O m)));
    ("m3_inverse_transform", grun1 rm3 (fun m => gopt gm3 (m3_inverse_transform O m)));
    ("m4_inverse_transform", grun1 rm4 (fun m => gopt gm4 (m4_inverse_transform O m)));
    ("m2_transpose_self", grun1 rm2 (fun m => gpn gm2 (m2_transpose_self m)));
    ("m3_transpose_self", grun1 rm3 (fun m => gpn gm3 (m3_transpose_self m)));
    ("m4_transpose_self", grun1 rm4 (fun m => gpn gm4 (m4_transpose_self m)));
    ("m2_swap_rows", grun3 rm2 ri ri (fun m a b => gpn gm2 (m2_swap_rows m a b)));
    ("m3_swap_rows", grun3 rm3 ri ri (fun m a b => gpn gm3 (m3_swap_rows m a b)));
    ("m4_swap_rows", grun3 rm4 ri ri (fun m a b => gpn gm4 (m4_swap_rows m a b)));
    ("m2_swap_columns", grun3 rm2 ri ri (fun m a b => gpn gm2 (m2_swap_columns m a b)));
    ("m3_swap_columns", grun3 rm3 ri ri (fun m a b => gpn gm3 (m3_swap_columns m a b)));
    ("m4_swap_columns", grun3 rm4 ri ri (fun m a b => gpn gm4 (m4_swap_columns m a b)));
    ("m2_swap_elements", grun5 rm2 ri ri ri ri (fun m a b c d => gpn gm2 (m2_swap_elements m a b c d)));
    ("m3_swap_elements", grun5 rm3 ri ri ri ri (fun m a b c d => gpn gm3 (m3_swap_elements m a b c d)));
    ("m4_swap_elements", grun5 rm4 ri ri ri ri (fun m a b c d => gpn gm4 (m4_swap_elements m a b c d)));
    ("m2_replace_col", grun3 rm2 ri r2 (fun m c v => gpn (fun p => GQ (m2_list (fst p) ++ v2_list (snd p))) (m2_replace_col m c v)));
    ("m3_replace_col", grun3 rm3 ri r3 (fun m c v => gpn (fun p => GQ (m3_list (fst p) ++ v3_list (snd p))) (m3_replace_col m c v)));
    ("m4_replace_col", grun3 rm4 ri r4 (fun m c v => gpn (fun p => GQ (m4_list (fst p) ++ v4_list (snd p))) (m4_replace_col m c v)))
  ].
End G.

(* ---------- the instance the correspondence check evaluates ---------- *)
Definition O := OpsQ.
Definition ov2 (v : V2 Qc) := vq (v2_list v).
Definition ov3 (v : V3 Qc) := vq (v3_list v).
Definition ov4 (v : V4 Qc) := vq (v4_list v).
Definition op2 (v : P2 Qc) := vq (p2_list v).
Definition op3 (v : P3 Qc) := vq (p3_list v).
Definition om2 (m : M2 Qc) := vq (m2_list m).
Definition om3 (m : M3 Qc) := vq (m3_list m).
Definition om4 (m : M4 Qc) := vq (m4_list m).
Definition os (x : Qc) := vq [x].
Definition pn (A : Type) (f : A -> val) (o : option A) : val := match o with Some a => f a | None => VPanic end.
Definition opt (A : Type) (f : A -> val) (o : option A) : val := match o with Some a => f a | None => VNone end.
Definition ri : rd Qc nat := rd_map qc_nat (@rd_s Qc).

Definition tab_c01 : list (string * (list Qc -> val)) := qtab (gtab_c01 OpsQ qc_nat).

Definition run_c01 : runner := fun f _ args =>
  match dispatch tab_c01 f with Some h => h args | None => VBad end.
Definition run_c02 : runner := run_c01.
