(* Exec/RunC04.v — dispatcher for the quaternion functions of C04 / C05 / C14 (src/quaternion.rs).
   Generic in the scalar (section G); run at Qc by the correspondence check, at an abstract field by the symbolic tie. *)
From Coq Require Import ZArith QArith Qcanon List Bool Ascii String.
From CG Require Import Scalar Model.Vector Model.Point Model.Matrix Model.Angle Model.Quaternion Model.Metric Model.Rotation
                       Exec.ExecQ Exec.Args Exec.RunC01.
Import ListNotations.
Open Scope string_scope.
Set Implicit Arguments.

Definition gq {F} (q : Quat F) : gval F := GQ (quat_sxyz q).

Section G.
  Variable F : Type.
  Variable O : Ops F.
  Variable T : Trig F.
  Local Notation rq := (@rd_quat F).
  Local Notation r3 := (@rd_v3 F).
  Local Notation rp3 := (@rd_p3 F).
  Local Notation rm3 := (@rd_m3 F).
  Local Notation rs := (@rd_s F).

  Definition gtab_c04 : list (string * (list F -> gval F)) := [
    ("q_new", grun1 rq gq);
    ("q_from_sv", grun2 rs r3 (fun s v => gq (quat_from_sv s v)));
    ("q_mul", grun2 rq rq (fun a b => gq (quat_mul O a b)));
    ("q_mul_v", grun2 rq r3 (fun q v => gv3 (quat_mul_v O q v)));
    ("q_conjugate", grun1 rq (fun q => gq (quat_conjugate O q)));
    ("q_neg", grun1 rq (fun q => gq (quat_neg O q)));
    ("q_add", grun2 rq rq (fun a b => gq (quat_add O a b)));
    ("q_sub", grun2 rq rq (fun a b => gq (quat_sub O a b)));
    ("q_mul_s", grun2 rq rs (fun a s => gq (quat_mul_s O a s)));
    ("q_div_s", grun2 rq rs (fun a s => gq (quat_div_s O a s)));
    ("q_rem_s", grun2 rq rs (fun a s => gq (quat_rem_s O a s)));
    ("q_dot", grun2 rq rq (fun a b => gs (quat_dot O a b)));
    ("q_magnitude2", grun1 rq (fun a => gs (quat_magnitude2 O a)));
    ("q_one", grun0 (S:=F) (gq (quat_one O)));
    ("q_zero", grun0 (S:=F) (gq (quat_zero O)));
    ("q_invert", grun1 rq (fun q => gq (quat_invert O q)));
    ("q_rotate_vector", grun2 rq r3 (fun q v => gv3 (quat_rotate_vector O q v)));
    ("q_rotate_point", grun2 rq rp3 (fun q p => gp3 (quat_rotate_point O q p)));
    ("q_lerp", grun3 rq rq rs (fun a b t => gq (quat_lerp O a b t)));
    (* C05 *)
    ("m3_of_quat", grun1 rq (fun q => gm3 (m3_of_quat O q)));
    ("m4_of_quat", grun1 rq (fun q => gm4 (m4_of_quat O q)));
    ("basis3_of_quat", grun1 rq (fun q => gm3 (basis3_from_quaternion O q)));
    ("quat_of_m3", grun1 rm3 (fun m => gq (quat_of_m3 O T m)));
    ("quat_of_basis3", grun1 rm3 (fun m => gq (quat_of_basis3 O T m)));
    ("basis3_mul", grun2 rm3 rm3 (fun a b => gm3 (basis3_mul O a b)));
    ("basis3_rotate_vector", grun2 rm3 r3 (fun b v => gv3 (basis3_rotate_vector O b v)));
    ("m3_rotate_vector", grun2 rm3 r3 (fun b v => gv3 (m3_mul_v O b v)));
    ("m4_rotate_direction", grun2 (@rd_m4 F) r3 (fun b v => gv3 (m4_transform_vector O b v)))
  ].
End G.

Definition oq (q : Quat Qc) := vq (quat_sxyz q).
Definition tab_c04 (o : Orc) : list (string * (list Qc -> val)) := qtab (gtab_c04 OpsQ (TrigQ o)).

Definition run_c04 : runner := fun f o args =>
  match dispatch (tab_c04 o) f with Some h => h args | None => VBad end.
Definition run_c05 : runner := run_c04.
