(* Exec/RunC04.v — dispatcher for the quaternion functions of C04 / C05 / C14 (src/quaternion.rs). *)
From Coq Require Import ZArith QArith Qcanon List Bool Ascii String.
From CG Require Import Scalar Model.Vector Model.Point Model.Matrix Model.Angle Model.Quaternion Model.Metric Model.Rotation
                       Exec.ExecQ Exec.Args Exec.RunC01.
Import ListNotations.
Open Scope string_scope.
Set Implicit Arguments.

Definition oq (q : Quat Qc) := vq (quat_sxyz q).
Local Notation rq := (@rd_quat Qc).
Local Notation r3 := (@rd_v3 Qc).
Local Notation rp3 := (@rd_p3 Qc).
Local Notation rm3 := (@rd_m3 Qc).
Local Notation rs := (@rd_s Qc).

Definition tab_c04 (o : Orc) : list (string * (list Qc -> val)) :=
  let T := TrigQ o in [
  ("q_new", run1 rq oq);
  ("q_from_sv", run2 rs r3 (fun s v => oq (quat_from_sv s v)));
  ("q_mul", run2 rq rq (fun a b => oq (quat_mul O a b)));
  ("q_mul_v", run2 rq r3 (fun q v => ov3 (quat_mul_v O q v)));
  ("q_conjugate", run1 rq (fun q => oq (quat_conjugate O q)));
  ("q_neg", run1 rq (fun q => oq (quat_neg O q)));
  ("q_add", run2 rq rq (fun a b => oq (quat_add O a b)));
  ("q_sub", run2 rq rq (fun a b => oq (quat_sub O a b)));
  ("q_mul_s", run2 rq rs (fun a s => oq (quat_mul_s O a s)));
  ("q_div_s", run2 rq rs (fun a s => oq (quat_div_s O a s)));
  ("q_rem_s", run2 rq rs (fun a s => oq (quat_rem_s O a s)));
  ("q_dot", run2 rq rq (fun a b => os (quat_dot O a b)));
  ("q_magnitude2", run1 rq (fun a => os (quat_magnitude2 O a)));
  ("q_one", run0 (S:=Qc) (oq (quat_one O)));
  ("q_zero", run0 (S:=Qc) (oq (quat_zero O)));
  ("q_invert", run1 rq (fun q => oq (quat_invert O q)));
  ("q_rotate_vector", run2 rq r3 (fun q v => ov3 (quat_rotate_vector O q v)));
  ("q_rotate_point", run2 rq rp3 (fun q p => op3 (quat_rotate_point O q p)));
  ("q_lerp", run3 rq rq rs (fun a b t => oq (quat_lerp O a b t)));
  (* C05 *)
  ("m3_of_quat", run1 rq (fun q => om3 (m3_of_quat O q)));
  ("m4_of_quat", run1 rq (fun q => om4 (m4_of_quat O q)));
  ("basis3_of_quat", run1 rq (fun q => om3 (basis3_from_quaternion O q)));
  ("quat_of_m3", run1 rm3 (fun m => oq (quat_of_m3 O T m)));
  ("quat_of_basis3", run1 rm3 (fun m => oq (quat_of_basis3 O T m)));
  ("basis3_mul", run2 rm3 rm3 (fun a b => om3 (basis3_mul O a b)));
  ("basis3_rotate_vector", run2 rm3 r3 (fun b v => ov3 (basis3_rotate_vector O b v)));
  ("m3_rotate_vector", run2 rm3 r3 (fun b v => ov3 (m3_mul_v O b v)));
  ("m4_rotate_direction", run2 (@rd_m4 Qc) r3 (fun b v => ov3 (m4_transform_vector O b v)))
].

Definition run_c04 : runner := fun f o args =>
  match dispatch (tab_c04 o) f with Some h => h args | None => VBad end.
Definition run_c05 : runner := run_c04.
