(* Exec/RunC15.v — dispatcher for between_vectors / from_arc (C15). *)
From Coq Require Import ZArith QArith Qcanon List Bool Ascii String.
From CG Require Import Scalar Model.Vector Model.Point Model.Matrix Model.Angle Model.Quaternion Model.Metric Model.Rotation
                       Exec.ExecQ Exec.Args Exec.RunC01 Exec.RunC04.
Import ListNotations.
Open Scope string_scope.
Set Implicit Arguments.

Local Notation r2 := (@rd_v2 Qc).  Local Notation r3 := (@rd_v3 Qc).

Definition tab_c15 (o : Orc) : list (string * (list Qc -> val)) :=
  let T := TrigQ o in [
  ("quat_between_vectors", run2 r3 r3 (fun a b => oq (quat_between_vectors O T ApproxQ a b)));
  ("basis3_between_vectors", run2 r3 r3 (fun a b => om3 (basis3_between_vectors O T ApproxQ a b)));
  ("basis2_between_vectors", run2 r2 r2 (fun a b => om2 (basis2_between_vectors O T a b)));
  ("quat_from_arc_none", run2 r3 r3 (fun a b => oq (quat_from_arc O T ApproxQ a b None)));
  ("quat_from_arc_some", run3 r3 r3 r3 (fun a b f => oq (quat_from_arc O T ApproxQ a b (Some f))))
].

Definition run_c15 : runner := fun f o args =>
  match dispatch (tab_c15 o) f with Some h => h args | None => VBad end.
