(* Exec/RunC15.v — dispatcher for between_vectors / from_arc (C15). *)
From Coq Require Import ZArith QArith Qcanon List Bool Ascii String.
From CG Require Import Scalar Model.Vector Model.Point Model.Matrix Model.Angle Model.Quaternion Model.Metric Model.Rotation
                       Exec.ExecQ Exec.Args Exec.RunC01 Exec.RunC04.
Import ListNotations.
Open Scope string_scope.
Set Implicit Arguments.

Section G.
  Variable F : Type.
  Variable O : Ops F.
  Variable T : Trig F.
  Variable A : Approx F.
  Variable toNat : F -> nat.


  Local Notation r2 := (@rd_v2 F).    Local Notation r3 := (@rd_v3 F).

Definition gtab_c15 : list (string * (list F -> gval F)) := [
  ("quat_between_vectors", grun2 r3 r3 (fun a b => gq (quat_between_vectors O T A a b)));
  ("basis3_between_vectors", grun2 r3 r3 (fun a b => gm3 (basis3_between_vectors O T A a b)));
  ("basis2_between_vectors", grun2 r2 r2 (fun a b => gm2 (basis2_between_vectors O T a b)));
  ("quat_from_arc_none", grun2 r3 r3 (fun a b => gq (quat_from_arc O T A a b None)));
  ("quat_from_arc_some", grun3 r3 r3 r3 (fun a b f => gq (quat_from_arc O T A a b (Some f))))
].
End G.

Definition tab_c15 (o : Orc) : list (string * (list Qc -> val)) := qtab (gtab_c15 OpsQ (TrigQ o) ApproxQ).

Definition run_c15 : runner := fun f o args =>
  match dispatch (tab_c15 o) f with Some h => h args | None => VBad end.
