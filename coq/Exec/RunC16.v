(* Exec/RunC16.v — dispatcher for the layout / view functions of C16 at the exact scalar. *)
From Coq Require Import ZArith QArith Qcanon List Bool Ascii String.
From CG Require Import Scalar Model.Vector Model.Point Model.Matrix Model.Quaternion Model.Layout Exec.ExecQ Exec.Args Exec.RunC01 Exec.RunC04.
Import ListNotations.
Open Scope string_scope.
Set Implicit Arguments.

Section G.
  Variable F : Type.
  Variable toNat : F -> nat.


Definition ol (o : option (list F)) : gval F := match o with Some l => GQ l | None => GPanic end.
Definition ri16 : rd F nat := rd_map toNat (@rd_s F).
Definition of_l (X : Type) (f : list F -> option X) (g : X -> list F) (l : list F) : gval F :=
  match f l with Some x => GQ (g x) | None => GBad end.

Definition gtab_c16 : list (string * (list F -> gval F)) := [
  ("v1_into_array", grun1 (@rd_v1 F) (fun v => GQ (v1_list v))); ("v2_into_array", grun1 (@rd_v2 F) (fun v => GQ (v2_list v)));
  ("v3_into_array", grun1 (@rd_v3 F) (fun v => GQ (v3_list v))); ("v4_into_array", grun1 (@rd_v4 F) (fun v => GQ (v4_list v)));
  ("p3_into_array", grun1 (@rd_p3 F) (fun v => GQ (p3_list v)));
  ("quat_into_array", grun1 (@rd_quat F) (fun q => GQ (quat_list q)));
  ("m2_flat", grun1 (@rd_m2 F) (fun m => GQ (m2_list m))); ("m3_flat", grun1 (@rd_m3 F) (fun m => GQ (m3_list m)));
  ("m4_flat", grun1 (@rd_m4 F) (fun m => GQ (m4_list m)));
  ("v2_from_array", of_l (@v2_of_list F) (@v2_list F)); ("v3_from_array", of_l (@v3_of_list F) (@v3_list F));
  ("v4_from_array", of_l (@v4_of_list F) (@v4_list F)); ("p3_from_array", of_l (@p3_of_list F) (@p3_list F));
  ("quat_from_array", of_l (@quat_of_list F) (@quat_sxyz F));
  ("m3_from_nested", of_l (@m3_of_list F) (@m3_list F)); ("m4_from_nested", of_l (@m4_of_list F) (@m4_list F));
  ("v4_index", grun2 (@rd_v4 F) ri16 (fun v i => gpn gs (idx (v4_list v) i)));
  ("quat_index", grun2 (@rd_quat F) ri16 (fun q i => gpn gs (idx (quat_list q) i)));
  ("v4_slice", grun3 (@rd_v4 F) ri16 ri16 (fun v a b => ol (slice (v4_list v) a b)));
  ("v4_swap", grun3 (@rd_v4 F) ri16 ri16 (fun v i j => ol (swap_list (v4_list v) i j)));
  ("v4_set", grun3 (@rd_v4 F) ri16 (@rd_s F) (fun v i a => ol (set_nth (v4_list v) i a)));
  ("v4_truncate_n", grun2 (@rd_v4 F) ri16 (fun v n => gpn gv3 (v4_truncate_n v n)));
  ("v3_extend", grun2 (@rd_v3 F) (@rd_s F) (fun v w => gv4 (v3_extend v w)));
  ("v4_truncate", grun1 (@rd_v4 F) (fun v => gv3 (v4_truncate v)));
  ("v2_extend", grun2 (@rd_v2 F) (@rd_s F) (fun v w => gv3 (v2_extend v w)));
  ("v3_truncate", grun1 (@rd_v3 F) (fun v => gv2 (v3_truncate v)))
].
End G.

Definition tab_c16 : list (string * (list Qc -> val)) := qtab (gtab_c16 qc_nat).

Definition run_c16 : runner := fun f o args =>
  match dispatch tab_c16 f with Some h => h args | None => VBad end.
