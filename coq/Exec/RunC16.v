(* Exec/RunC16.v — dispatcher for the layout / view functions of C16 at the exact scalar. *)
From Coq Require Import ZArith QArith Qcanon List Bool Ascii String.
From CG Require Import Scalar Model.Vector Model.Point Model.Matrix Model.Quaternion Model.Layout Exec.ExecQ Exec.Args Exec.RunC01 Exec.RunC04.
Import ListNotations.
Open Scope string_scope.
Set Implicit Arguments.

Definition ol (o : option (list Qc)) : val := match o with Some l => vq l | None => VPanic end.
Definition ri16 : rd Qc nat := rd_map qc_nat (@rd_s Qc).
Definition of_l (X : Type) (f : list Qc -> option X) (g : X -> list Qc) (l : list Qc) : val :=
  match f l with Some x => vq (g x) | None => VBad end.

Definition tab_c16 : list (string * (list Qc -> val)) := [
  ("v1_into_array", run1 (@rd_v1 Qc) (fun v => vq (v1_list v))); ("v2_into_array", run1 (@rd_v2 Qc) (fun v => vq (v2_list v)));
  ("v3_into_array", run1 (@rd_v3 Qc) (fun v => vq (v3_list v))); ("v4_into_array", run1 (@rd_v4 Qc) (fun v => vq (v4_list v)));
  ("p3_into_array", run1 (@rd_p3 Qc) (fun v => vq (p3_list v)));
  ("quat_into_array", run1 (@rd_quat Qc) (fun q => vq (quat_list q)));
  ("m2_flat", run1 (@rd_m2 Qc) (fun m => vq (m2_list m))); ("m3_flat", run1 (@rd_m3 Qc) (fun m => vq (m3_list m)));
  ("m4_flat", run1 (@rd_m4 Qc) (fun m => vq (m4_list m)));
  ("v2_from_array", of_l (@v2_of_list Qc) (@v2_list Qc)); ("v3_from_array", of_l (@v3_of_list Qc) (@v3_list Qc));
  ("v4_from_array", of_l (@v4_of_list Qc) (@v4_list Qc)); ("p3_from_array", of_l (@p3_of_list Qc) (@p3_list Qc));
  ("quat_from_array", of_l (@quat_of_list Qc) (@quat_sxyz Qc));
  ("m3_from_nested", of_l (@m3_of_list Qc) (@m3_list Qc)); ("m4_from_nested", of_l (@m4_of_list Qc) (@m4_list Qc));
  ("v4_index", run2 (@rd_v4 Qc) ri16 (fun v i => pn os (idx (v4_list v) i)));
  ("quat_index", run2 (@rd_quat Qc) ri16 (fun q i => pn os (idx (quat_list q) i)));
  ("v4_slice", run3 (@rd_v4 Qc) ri16 ri16 (fun v a b => ol (slice (v4_list v) a b)));
  ("v4_swap", run3 (@rd_v4 Qc) ri16 ri16 (fun v i j => ol (swap_list (v4_list v) i j)));
  ("v4_set", run3 (@rd_v4 Qc) ri16 (@rd_s Qc) (fun v i a => ol (set_nth (v4_list v) i a)));
  ("v4_truncate_n", run2 (@rd_v4 Qc) ri16 (fun v n => pn ov3 (v4_truncate_n v n)));
  ("v3_extend", run2 (@rd_v3 Qc) (@rd_s Qc) (fun v w => ov4 (v3_extend v w)));
  ("v4_truncate", run1 (@rd_v4 Qc) (fun v => ov3 (v4_truncate v)));
  ("v2_extend", run2 (@rd_v2 Qc) (@rd_s Qc) (fun v w => ov3 (v2_extend v w)));
  ("v3_truncate", run1 (@rd_v3 Qc) (fun v => ov2 (v3_truncate v)))
].
Definition run_c16 : runner := fun f o args =>
  match dispatch tab_c16 f with Some h => h args | None => VBad end.
