(* Exec/RunC08.v — dispatcher for the Transform functions of C08 (src/transform.rs, matrix.rs). *)
From Coq Require Import ZArith QArith Qcanon List Bool Ascii String.
From CG Require Import Scalar Model.Vector Model.Point Model.Matrix Model.Angle Model.Quaternion Model.Metric Model.Rotation
                       Model.Transform Exec.ExecQ Exec.Args Exec.RunC01 Exec.RunC04.
Import ListNotations.
Open Scope string_scope.
Set Implicit Arguments.

Local Notation rq := (@rd_quat Qc).
Local Notation r2 := (@rd_v2 Qc).  Local Notation r3 := (@rd_v3 Qc).
Local Notation rp2 := (@rd_p2 Qc). Local Notation rp3 := (@rd_p3 Qc).
Local Notation rm2 := (@rd_m2 Qc). Local Notation rm3 := (@rd_m3 Qc). Local Notation rm4 := (@rd_m4 Qc).
Local Notation rs := (@rd_s Qc).

(* Decomposed is flattened as: scale, rot, disp *)
Definition rd_dec (R V : Type) (rr : rd Qc R) (rv : rd Qc V) : rd Qc (Decomposed Qc R V) :=
  fun l => match rs l with
           | Some (s, l1) => match rr l1 with
               | Some (r, l2) => match rv l2 with Some (d, l3) => Some (mkDec s r d, l3) | None => None end
               | None => None end
           | None => None end.
Definition odec (R V : Type) (fr : R -> list Qc) (fv : V -> list Qc) (d : Decomposed Qc R V) : val :=
  vq (d_scale d :: fr (d_rot d) ++ fv (d_disp d)).
(* option (option X): outer None = panic, inner None = Option::None *)
Definition oo (X : Type) (f : X -> val) (o : option (option X)) : val :=
  match o with None => VPanic | Some None => VNone | Some (Some x) => f x end.

Section Inst.
  Variables R V P : Type.
  Variable RO : RotOps R V P.
  Variable SO : SpaceOps Qc V P.
  Variable rr : rd Qc R.  Variable rv : rd Qc V.  Variable rp : rd Qc P.
  Variable fr : R -> list Qc.  Variable fv : V -> list Qc.  Variable fp : P -> list Qc.
  Variable pfx : string.
  Let rdd := rd_dec rr rv.
  Let od := odec fr fv.
  Definition tab_dec : list (string * (list Qc -> val)) := [
    (pfx ++ "_transform_vector", run2 rdd rv (fun d v => vq (fv (dec_transform_vector RO SO d v))));
    (pfx ++ "_transform_point", run2 rdd rp (fun d p => vq (fp (dec_transform_point RO SO d p))));
    (pfx ++ "_concat", run2 rdd rdd (fun a b => od (dec_concat O RO SO a b)));
    (pfx ++ "_mul", run2 rdd rdd (fun a b => od (dec_mul O RO SO a b)));
    (pfx ++ "_concat_self", run2 rdd rdd (fun a b => od (dec_concat O RO SO a b)));
    (pfx ++ "_one", run0 (S:=Qc) (od (dec_one O RO SO)));
    (pfx ++ "_inverse_transform", run1 rdd (fun d => oo od (dec_inverse_transform O ApproxQ RO SO d)));
    (pfx ++ "_inverse_transform_vector", run2 rdd rv (fun d v => oo (fun x => vq (fv x)) (dec_inverse_transform_vector O ApproxQ RO SO d v)))
  ].
End Inst.

Definition tab_c08 : list (string * (list Qc -> val)) :=
  tab_dec (RotQuat O) (Space3 O) rq r3 rp3 (@quat_sxyz Qc) (@v3_list Qc) (@p3_list Qc) "dq" ++
  tab_dec (RotBasis3 O) (Space3 O) rm3 r3 rp3 (@m3_list Qc) (@v3_list Qc) (@p3_list Qc) "db3" ++
  tab_dec (RotBasis2 O) (Space2 O) rm2 r2 rp2 (@m2_list Qc) (@v2_list Qc) (@p2_list Qc) "db2" ++ [
  ("dq_to_m4", run1 (rd_dec rq r3) (fun d => om4 (m4_of_dec O (m3_of_quat O) d)));
  ("db3_to_m4", run1 (rd_dec rm3 r3) (fun d => om4 (m4_of_dec O (fun m => m) d)));
  ("db2_to_m3", run1 (rd_dec rm2 r2) (fun d => om3 (m3_of_dec O (fun m => m) d)));
  ("m3_inverse_transform_vector3", run2 rm3 r3 (fun m v => opt ov3 (match m3_inverse_transform O m with Some n => Some (m3_transform_vector3 O n v) | None => None end)));
  ("m3_inverse_transform_vector2", run2 rm3 r2 (fun m v => opt ov2 (match m3_inverse_transform O m with Some n => Some (m3_transform_vector2 O n v) | None => None end)));
  ("m4_inverse_transform_vector", run2 rm4 r3 (fun m v => opt ov3 (match m4_inverse_transform O m with Some n => Some (m4_transform_vector O n v) | None => None end)))
].

Definition run_c08 : runner := fun f o args =>
  match dispatch tab_c08 f with
  | Some h => h args
  | None => match dispatch tab_c01 f with Some h => h args | None => VBad end
  end.
