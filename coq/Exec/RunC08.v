(* Exec/RunC08.v — dispatcher for the Transform functions of C08 (src/transform.rs, matrix.rs). *)
From Coq Require Import ZArith QArith Qcanon List Bool Ascii String.
From CG Require Import Scalar Model.Vector Model.Point Model.Matrix Model.Angle Model.Quaternion Model.Metric Model.Rotation
                       Model.Transform Exec.ExecQ Exec.Args Exec.RunC01 Exec.RunC04.
Import ListNotations.
Open Scope string_scope.
Set Implicit Arguments.

Section G.
  Variable F : Type.
  Variable O : Ops F.
  Variable T : Trig F.
  Variable A : Approx F.
  Variable toNat : F -> nat.


  Local Notation rq := (@rd_quat F).
  Local Notation r2 := (@rd_v2 F).    Local Notation r3 := (@rd_v3 F).
  Local Notation rp2 := (@rd_p2 F).   Local Notation rp3 := (@rd_p3 F).
  Local Notation rm2 := (@rd_m2 F).   Local Notation rm3 := (@rd_m3 F).   Local Notation rm4 := (@rd_m4 F).
  Local Notation rs := (@rd_s F).

(* Decomposed is flattened as: scale, rot, disp *)
Definition rd_dec (R V : Type) (rr : rd F R) (rv : rd F V) : rd F (Decomposed F R V) :=
  fun l => match rs l with
           | Some (s, l1) => match rr l1 with
               | Some (r, l2) => match rv l2 with Some (d, l3) => Some (mkDec s r d, l3) | None => None end
               | None => None end
           | None => None end.
Definition odec (R V : Type) (fr : R -> list F) (fv : V -> list F) (d : Decomposed F R V) : gval F :=
  GQ (d_scale d :: fr (d_rot d) ++ fv (d_disp d)).

Section Inst.
  Variables R V P : Type.
  Variable RO : RotOps R V P.
  Variable SO : SpaceOps F V P.
  Variable rr : rd F R.  Variable rv : rd F V.  Variable rp : rd F P.
  Variable fr : R -> list F.  Variable fv : V -> list F.  Variable fp : P -> list F.
  Variable pfx : string.
  Let rdd := rd_dec rr rv.
  Let od := odec fr fv.
  Definition gtab_dec : list (string * (list F -> gval F)) := [
    (pfx ++ "_transform_vector", grun2 rdd rv (fun d v => GQ (fv (dec_transform_vector RO SO d v))));
    (pfx ++ "_transform_point", grun2 rdd rp (fun d p => GQ (fp (dec_transform_point RO SO d p))));
    (pfx ++ "_concat", grun2 rdd rdd (fun a b => od (dec_concat O RO SO a b)));
    (pfx ++ "_mul", grun2 rdd rdd (fun a b => od (dec_mul O RO SO a b)));
    (pfx ++ "_concat_self", grun2 rdd rdd (fun a b => od (dec_concat O RO SO a b)));
    (pfx ++ "_one", grun0 (S:=F) (od (dec_one O RO SO)));
    (pfx ++ "_inverse_transform", grun1 rdd (fun d => goo od (dec_inverse_transform O A RO SO d)));
    (pfx ++ "_inverse_transform_vector", grun2 rdd rv (fun d v => goo (fun x => GQ (fv x)) (dec_inverse_transform_vector O A RO SO d v)))
  ].
End Inst.

Definition gtab_c08 : list (string * (list F -> gval F)) :=
  gtab_dec (RotQuat O) (Space3 O) rq r3 rp3 (@quat_sxyz F) (@v3_list F) (@p3_list F) "dq" ++
  gtab_dec (RotBasis3 O) (Space3 O) rm3 r3 rp3 (@m3_list F) (@v3_list F) (@p3_list F) "db3" ++
  gtab_dec (RotBasis2 O) (Space2 O) rm2 r2 rp2 (@m2_list F) (@v2_list F) (@p2_list F) "db2" ++ [
  ("dq_to_m4", grun1 (rd_dec rq r3) (fun d => gm4 (m4_of_dec O (m3_of_quat O) d)));
  ("db3_to_m4", grun1 (rd_dec rm3 r3) (fun d => gm4 (m4_of_dec O (fun m => m) d)));
  ("db2_to_m3", grun1 (rd_dec rm2 r2) (fun d => gm3 (m3_of_dec O (fun m => m) d)));
  ("m3_inverse_transform_vector3", grun2 rm3 r3 (fun m v => gopt gv3 (match m3_inverse_transform O m with Some n => Some (m3_transform_vector3 O n v) | None => None end)));
  ("m3_inverse_transform_vector2", grun2 rm3 r2 (fun m v => gopt gv2 (match m3_inverse_transform O m with Some n => Some (m3_transform_vector2 O n v) | None => None end)));
  ("m4_inverse_transform_vector", grun2 rm4 r3 (fun m v => gopt gv3 (match m4_inverse_transform O m with Some n => Some (m4_transform_vector O n v) | None => None end)))
].
End G.

Definition tab_c08 : list (string * (list Qc -> val)) := qtab (gtab_c08 OpsQ ApproxQ).

Definition run_c08 : runner := fun f o args =>
  match dispatch tab_c08 f with
  | Some h => h args
  | None => match dispatch tab_c01 f with Some h => h args | None => VBad end
  end.
