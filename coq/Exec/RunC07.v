(* Exec/RunC07.v — dispatcher for the Euler-angle conversions of C07. *)
From Coq Require Import ZArith QArith Qcanon List Bool Ascii String.
From CG Require Import Scalar Model.Vector Model.Point Model.Matrix Model.Angle Model.Quaternion Model.Metric Model.Rotation Model.Euler
                       Exec.ExecQ Exec.Args Exec.RunC01 Exec.RunC04.
Import ListNotations.
Open Scope string_scope.
Set Implicit Arguments.

Section G.
  Variable F : Type.
  Variable O : Ops F.
  Variable T : Trig F.
  Variable A : Approx F.
  Variable toNat : F -> nat.


  Local Notation rq := (@rd_quat F).
Definition rd_euler : rd F (Euler F) :=
  fun l => match l with a :: b :: c :: r => Some (mkEuler a b c, r) | _ => None end.

Definition gtab_c07 : list (string * (list F -> gval F)) := [
  ("m3_of_euler", grun1 rd_euler (fun e => gm3 (m3_of_euler O T (URad O) e)));
  ("m4_of_euler", grun1 rd_euler (fun e => gm4 (m4_of_euler O T (URad O) e)));
  ("basis3_of_euler", grun1 rd_euler (fun e => gm3 (basis3_of_euler O T (URad O) e)));
  ("quat_of_euler", grun1 rd_euler (fun e => gq (quat_of_euler O T (URad O) e)));
  ("m3_of_euler_deg", grun1 rd_euler (fun e => gm3 (m3_of_euler O T (UDeg O) e)));
  ("m4_of_euler_deg", grun1 rd_euler (fun e => gm4 (m4_of_euler O T (UDeg O) e)));
  ("basis3_of_euler_deg", grun1 rd_euler (fun e => gm3 (basis3_of_euler O T (UDeg O) e)));
  ("quat_of_euler_deg", grun1 rd_euler (fun e => gq (quat_of_euler O T (UDeg O) e)));
  ("euler_of_quat", grun1 rq (fun q => GQ (euler_list (euler_of_quat O T q))))
].
End G.

Definition tab_c07 (o : Orc) : list (string * (list Qc -> val)) := qtab (gtab_c07 OpsQ (TrigQ o)).

Definition run_c07 : runner := fun f o args =>
  match dispatch (tab_c07 o) f with Some h => h args | None => VBad end.
