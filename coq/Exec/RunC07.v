(* Exec/RunC07.v — dispatcher for the Euler-angle conversions of C07. *)
From Coq Require Import ZArith QArith Qcanon List Bool Ascii String.
From CG Require Import Scalar Model.Vector Model.Point Model.Matrix Model.Angle Model.Quaternion Model.Metric Model.Rotation Model.Euler
                       Exec.ExecQ Exec.Args Exec.RunC01 Exec.RunC04.
Import ListNotations.
Open Scope string_scope.
Set Implicit Arguments.

Local Notation rq := (@rd_quat Qc).
Definition rd_euler : rd Qc (Euler Qc) :=
  fun l => match l with a :: b :: c :: r => Some (mkEuler a b c, r) | _ => None end.

Definition tab_c07 (o : Orc) : list (string * (list Qc -> val)) :=
  let T := TrigQ o in [
  ("m3_of_euler", run1 rd_euler (fun e => om3 (m3_of_euler O T (URad O) e)));
  ("m4_of_euler", run1 rd_euler (fun e => om4 (m4_of_euler O T (URad O) e)));
  ("basis3_of_euler", run1 rd_euler (fun e => om3 (basis3_of_euler O T (URad O) e)));
  ("quat_of_euler", run1 rd_euler (fun e => oq (quat_of_euler O T (URad O) e)));
  ("m3_of_euler_deg", run1 rd_euler (fun e => om3 (m3_of_euler O T (UDeg O) e)));
  ("m4_of_euler_deg", run1 rd_euler (fun e => om4 (m4_of_euler O T (UDeg O) e)));
  ("basis3_of_euler_deg", run1 rd_euler (fun e => om3 (basis3_of_euler O T (UDeg O) e)));
  ("quat_of_euler_deg", run1 rd_euler (fun e => oq (quat_of_euler O T (UDeg O) e)));
  ("euler_of_quat", run1 rq (fun q => vq (euler_list (euler_of_quat O T q))))
].

Definition run_c07 : runner := fun f o args =>
  match dispatch (tab_c07 o) f with Some h => h args | None => VBad end.
