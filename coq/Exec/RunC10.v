(* Exec/RunC10.v — dispatcher for the projection constructors of C10 (src/projection.rs). *)
From Coq Require Import ZArith QArith Qcanon List Bool Ascii String.
From CG Require Import Scalar Model.Vector Model.Point Model.Matrix Model.Angle Model.Projection
                       Exec.ExecQ Exec.Args Exec.RunC01.
Import ListNotations.
Open Scope string_scope.
Set Implicit Arguments.

Local Notation rs := (@rd_s Qc).
Definition run6 (f : Qc -> Qc -> Qc -> Qc -> Qc -> Qc -> val) (l : list Qc) : val :=
  match l with [a; b; c; d; e; g] => f a b c d e g | _ => VBad end.

Definition tab_c10 (o : Orc) : list (string * (list Qc -> val)) :=
  let T := TrigQ o in [
  ("ortho", run6 (fun l r b t n f => om4 (m4_ortho O l r b t n f)));
  ("frustum", run6 (fun l r b t n f => pn om4 (m4_frustum O l r b t n f)));
  ("perspective", run4 rs rs rs rs (fun fovy a n f => pn om4 (m4_perspective O T ApproxQ fovy a n f)));
  ("perspective_deg", run4 rs rs rs rs (fun fovy a n f => pn om4 (m4_perspective O T ApproxQ (rad_of_deg O fovy) a n f)));
  ("to_perspective", run4 rs rs rs rs (fun fovy a n f => vq (to_perspective O T fovy a n f)));
  ("planar", run5 rs rs rs rs rs (fun fovy a h n f => pn om4 (m4_planar O T ApproxQ fovy a h n f)));
  ("m4_transform_point", run2 (@rd_m4 Qc) (@rd_p3 Qc) (fun m p => op3 (m4_transform_point O m p)))
].

Definition run_c10 : runner := fun f o args =>
  match dispatch (tab_c10 o) f with Some h => h args | None => VBad end.
