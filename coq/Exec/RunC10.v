(* Exec/RunC10.v — dispatcher for the projection constructors of C10 (src/projection.rs). *)
From Coq Require Import ZArith QArith Qcanon List Bool Ascii String.
From CG Require Import Scalar Model.Vector Model.Point Model.Matrix Model.Angle Model.Projection
                       Exec.ExecQ Exec.Args Exec.RunC01.
Import ListNotations.
Open Scope string_scope.
Set Implicit Arguments.

Section G.
  Variable F : Type.
  Variable O : Ops F.
  Variable T : Trig F.
  Variable A : Approx F.
  Variable toNat : F -> nat.


  Local Notation rs := (@rd_s F).
Definition grun6 (f : F -> F -> F -> F -> F -> F -> gval F) (l : list F) : gval F :=
  match l with [a; b; c; d; e; g] => f a b c d e g | _ => GBad end.

Definition gtab_c10 : list (string * (list F -> gval F)) := [
  ("ortho", grun6 (fun l r b t n f => gm4 (m4_ortho O l r b t n f)));
  ("frustum", grun6 (fun l r b t n f => gpn gm4 (m4_frustum O l r b t n f)));
  ("perspective", grun4 rs rs rs rs (fun fovy a n f => gpn gm4 (m4_perspective O T A fovy a n f)));
  ("perspective_deg", grun4 rs rs rs rs (fun fovy a n f => gpn gm4 (m4_perspective O T A (rad_of_deg O fovy) a n f)));
  ("to_perspective", grun4 rs rs rs rs (fun fovy a n f => GQ (to_perspective O T fovy a n f)));
  ("planar", grun5 rs rs rs rs rs (fun fovy a h n f => gpn gm4 (m4_planar O T A fovy a h n f)));
  ("m4_transform_point", grun2 (@rd_m4 F) (@rd_p3 F) (fun m p => gp3 (m4_transform_point O m p)))
].
End G.

Definition tab_c10 (o : Orc) : list (string * (list Qc -> val)) := qtab (gtab_c10 OpsQ (TrigQ o) ApproxQ).

Definition run_c10 : runner := fun f o args =>
  match dispatch (tab_c10 o) f with Some h => h args | None => VBad end.
