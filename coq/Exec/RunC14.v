(* Exec/RunC14.v — dispatcher for lerp / nlerp / slerp (C14). *)
From Coq Require Import ZArith QArith Qcanon List Bool Ascii String.
From CG Require Import Scalar Model.Vector Model.Point Model.Matrix Model.Angle Model.Quaternion Model.Metric
                       Exec.ExecQ Exec.Args Exec.RunC01 Exec.RunC04.
Import ListNotations.
Open Scope string_scope.
Set Implicit Arguments.

Local Notation rq := (@rd_quat Qc).
Local Notation r1 := (@rd_v1 Qc).  Local Notation r2 := (@rd_v2 Qc).  Local Notation r3 := (@rd_v3 Qc).  Local Notation r4 := (@rd_v4 Qc).
Local Notation rs := (@rd_s Qc).

Definition tab_c14 (o : Orc) : list (string * (list Qc -> val)) :=
  let T := TrigQ o in [
  ("v1_lerp", run3 r1 r1 rs (fun a b t => vq (v1_list (v1_lerp O a b t))));
  ("v2_lerp", run3 r2 r2 rs (fun a b t => ov2 (v2_lerp O a b t)));
  ("v3_lerp", run3 r3 r3 rs (fun a b t => ov3 (v3_lerp O a b t)));
  ("v4_lerp", run3 r4 r4 rs (fun a b t => ov4 (v4_lerp O a b t)));
  ("quat_lerp", run3 rq rq rs (fun a b t => oq (quat_lerp O a b t)));
  ("quat_nlerp", run3 rq rq rs (fun a b t => oq (quat_nlerp O T a b t)));
  ("quat_slerp", run3 rq rq rs (fun a b t => oq (quat_slerp O T a b t)))
].

Definition run_c14 : runner := fun f o args =>
  match dispatch (tab_c14 o) f with Some h => h args | None => VBad end.
