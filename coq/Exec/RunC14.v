(* Exec/RunC14.v — dispatcher for lerp / nlerp / slerp (C14). *)
From Coq Require Import ZArith QArith Qcanon List Bool Ascii String.
From CG Require Import Scalar Model.Vector Model.Point Model.Matrix Model.Angle Model.Quaternion Model.Metric
                       Exec.ExecQ Exec.Args Exec.RunC01 Exec.RunC04.
Import ListNotations.
Open Scope string_scope.
Set Implicit Arguments.

Section G.
  Variable F : Type.
  Variable O : Ops F.
  Variable T : Trig F.
  Variable A : Approx F.
  Variable toNat : F -> nat.


  Local Notation rq := (@rd_quat F).
  Local Notation r1 := (@rd_v1 F).    Local Notation r2 := (@rd_v2 F).    Local Notation r3 := (@rd_v3 F).    Local Notation r4 := (@rd_v4 F).
  Local Notation rs := (@rd_s F).

Definition gtab_c14 : list (string * (list F -> gval F)) := [
  ("v1_lerp", grun3 r1 r1 rs (fun a b t => GQ (v1_list (v1_lerp O a b t))));
  ("v2_lerp", grun3 r2 r2 rs (fun a b t => gv2 (v2_lerp O a b t)));
  ("v3_lerp", grun3 r3 r3 rs (fun a b t => gv3 (v3_lerp O a b t)));
  ("v4_lerp", grun3 r4 r4 rs (fun a b t => gv4 (v4_lerp O a b t)));
  ("quat_lerp", grun3 rq rq rs (fun a b t => gq (quat_lerp O a b t)));
  ("quat_nlerp", grun3 rq rq rs (fun a b t => gq (quat_nlerp O T a b t)));
  ("quat_slerp", grun3 rq rq rs (fun a b t => gq (quat_slerp O T a b t)))
].
End G.

Definition tab_c14 (o : Orc) : list (string * (list Qc -> val)) := qtab (gtab_c14 OpsQ (TrigQ o)).

Definition run_c14 : runner := fun f o args =>
  match dispatch (tab_c14 o) f with Some h => h args | None => VBad end.
