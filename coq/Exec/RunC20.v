(* Exec/RunC20.v — dispatcher for the serde model (C20).  Trees are compared through a numeric encoding:
   leaf x -> [0; x]; newtype -> its content (JSON bare number); struct with n fields -> [100+n] followed, for the
   fields sorted by field code, by code :: encoding. *)
From Coq Require Import ZArith QArith Qcanon List Bool Ascii String.
From CG Require Import Scalar Model.Vector Model.Point Model.Matrix Model.Quaternion Model.Euler Model.Transform Model.Serde
                       Exec.ExecQ Exec.Args Exec.RunC01 Exec.RunC04 Exec.RunC07 Exec.RunC08.
Import ListNotations.
Open Scope string_scope.
Set Implicit Arguments.

Definition codes : list (string * Z) :=
  [("x",1); ("y",2); ("z",3); ("w",4); ("v",5); ("s",6); ("scale",7); ("rot",8); ("disp",9); ("mat",10); ("fovy",11);
   ("aspect",12); ("near",13); ("far",14); ("left",15); ("right",16); ("bottom",17); ("top",18); ("height",19)]%Z.
Definition code (n : string) : Z := match dispatch codes n with Some c => c | None => 99%Z end.
Fixpoint ins (p : Z * list Qc) (l : list (Z * list Qc)) : list (Z * list Qc) :=
  match l with [] => [p] | q :: t => if (fst p <=? fst q)%Z then p :: l else q :: ins p t end.
Fixpoint enc (s : sval Qc) : list Qc :=
  match s with
  | SLeaf x => [Q2Qc 0; x]
  | SNewtype _ s' => enc s'
  | SStruct _ fs =>
      let parts := (fix go (fs : list (string * sval Qc)) : list (Z * list Qc) :=
                      match fs with [] => [] | (k, sub) :: t => ins (code k, enc sub) (go t) end) fs in
      qc_ofZ (100 + Z.of_nat (List.length fs)) :: flat_map (fun p => qc_ofZ (fst p) :: snd p) parts
  end.
Definition oe (s : sval Qc) : val := vq (enc s).
Local Notation rq := (@rd_quat Qc).
Local Notation rs := (@rd_s Qc).

(* Decomposed<Vector3, Quaternion> documents: entries (key code, payload) in document order;
   payloads: scale 1 number, rot 4 numbers (v.x v.y v.z s), disp 3 numbers, anything else 1 number *)
Fixpoint doc_entries (fuel : nat) (l : list Qc) : option (list (string * sval Qc)) :=
  match fuel, l with
  | _, [] => Some []
  | S f, k :: rest =>
      match qc_nat k, rest with
      | 7%nat, s :: r => option_map (cons ("scale", SLeaf s)) (doc_entries f r)
      | 8%nat, a :: b :: c :: s :: r => option_map (cons ("rot", ser_quat (mkQuat (mkV3 a b c) s))) (doc_entries f r)
      | 9%nat, a :: b :: c :: r => option_map (cons ("disp", ser_v3 (mkV3 a b c))) (doc_entries f r)
      | _, s :: r => option_map (cons ("bogus", SLeaf s)) (doc_entries f r)
      | _, _ => None
      end
  | _, _ => None
  end.
Definition de_doc (l : list Qc) : val :=
  match doc_entries (List.length l) l with
  | Some kvs => match de_dec_entries (@de_quat Qc) (@de_v3 Qc) kvs with
                | Some d => vq (d_scale d :: quat_sxyz (d_rot d) ++ v3_list (d_disp d))
                | None => VNone end
  | None => VBad end.

Definition tab_c20 : list (string * (list Qc -> val)) := [
  ("ser_v1", run1 (@rd_v1 Qc) (fun v => oe (ser_v1 v))); ("ser_v2", run1 (@rd_v2 Qc) (fun v => oe (ser_v2 v)));
  ("ser_v3", run1 (@rd_v3 Qc) (fun v => oe (ser_v3 v))); ("ser_v4", run1 (@rd_v4 Qc) (fun v => oe (ser_v4 v)));
  ("ser_p1", run1 (@rd_p1 Qc) (fun v => oe (ser_p1 v))); ("ser_p2", run1 (@rd_p2 Qc) (fun v => oe (ser_p2 v)));
  ("ser_p3", run1 (@rd_p3 Qc) (fun v => oe (ser_p3 v)));
  ("ser_m2", run1 (@rd_m2 Qc) (fun v => oe (ser_m2 v))); ("ser_m3", run1 (@rd_m3 Qc) (fun v => oe (ser_m3 v)));
  ("ser_m4", run1 (@rd_m4 Qc) (fun v => oe (ser_m4 v)));
  ("ser_quat", run1 rq (fun q => oe (ser_quat q)));
  ("ser_rad", run1 rs (fun a => oe (ser_rad a))); ("ser_deg", run1 rs (fun a => oe (ser_deg a)));
  ("ser_euler_rad", run1 (@rd_euler Qc) (fun e => oe (ser_euler (@ser_rad Qc) e)));
  ("ser_euler_deg", run1 (@rd_euler Qc) (fun e => oe (ser_euler (@ser_deg Qc) e)));
  ("ser_basis2", run1 (@rd_m2 Qc) (fun b => oe (ser_basis2 b))); ("ser_basis3", run1 (@rd_m3 Qc) (fun b => oe (ser_basis3 b)));
  ("ser_dq", run1 (rd_dec rq (@rd_v3 Qc)) (fun d => oe (ser_dec (@ser_quat Qc) (@ser_v3 Qc) d)));
  ("ser_db3", run1 (rd_dec (@rd_m3 Qc) (@rd_v3 Qc)) (fun d => oe (ser_dec (@ser_basis3 Qc) (@ser_v3 Qc) d)));
  ("ser_db2", run1 (rd_dec (@rd_m2 Qc) (@rd_v2 Qc)) (fun d => oe (ser_dec (@ser_basis2 Qc) (@ser_v2 Qc) d)));
  ("ser_perspective_fov", run4 rs rs rs rs (fun a b c d => oe (ser_perspective_fov a b c d)));
  ("ser_perspective", fun l => match l with [a; b; c; d; e; f] => oe (ser_box "Perspective" a b c d e f) | _ => VBad end);
  ("ser_ortho", fun l => match l with [a; b; c; d; e; f] => oe (ser_box "Ortho" a b c d e f) | _ => VBad end);
  ("ser_planar_fov", run5 rs rs rs rs rs (fun a b c d e => oe (ser_planar_fov a b c d e)));
  ("de_dq", de_doc)
].
Definition run_c20 : runner := fun f o args =>
  match dispatch tab_c20 f with Some h => h args | None => VBad end.
