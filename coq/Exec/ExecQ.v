(* Exec/ExecQ.v — executable instances of the scalar interface (exact rationals
   Qc, integers Z), the oracle tables, and the value type in which model and
   implementation outputs are compared. *)

From Coq Require Import ZArith QArith Qcanon List Bool String.
From CG Require Import Scalar.
Import ListNotations.
Set Implicit Arguments.
Local Open Scope Z_scope.

(* ---------- exact rationals ---------- *)

Definition qc_trunc (x : Qc) : Z := Z.quot (Qnum (this x)) (Zpos (Qden (this x))).
Definition qc_ofZ (z : Z) : Qc := Q2Qc (inject_Z z).
Definition qc_rem (x y : Qc) : Qc :=
  (* fmod: x - y * trunc(x / y) *)
  Qcminus x (Qcmult y (qc_ofZ (qc_trunc (Qcdiv x y)))).
Definition qc_eqb (x y : Qc) : bool := Qeq_bool (this x) (this y).
Definition qc_leb (x y : Qc) : bool := Qle_bool (this x) (this y).
Definition qc_ltb (x y : Qc) : bool := negb (Qle_bool (this y) (this x)).

Definition OpsQ : Ops Qc :=
  mkOps (Q2Qc 0) (Q2Qc 1) Qcplus Qcminus Qcmult Qcdiv Qcopp Qcinv qc_rem
        qc_eqb qc_ltb qc_leb Q2Qc.

(* ---------- integers (the integer scalar types, no overflow) ---------- *)

Definition OpsZ : Ops Z :=
  mkOps 0 1 Z.add Z.sub Z.mul Z.quot Z.opp (fun x => Z.quot 1 x) Z.rem
        Z.eqb Z.ltb Z.leb (fun q => Z.quot (Qnum q) (Zpos (Qden q))).

(* ---------- oracle tables ----------
   The harness records every question the implementation asked its scalar
   type (sqrt, sin_cos, acos, ...) together with the exact answer it got; the
   model asks the same table.  A question that is not in the table means the
   model and the implementation diverged; the answer is then a poison value
   that no generator produces, so the outputs differ and the case is reported. *)

Definition poison : Qc := Q2Qc (987654321987654321 # 1000000007).

Record Orc := mkOrc {
  o_sqrt : list (Q * Q);
  o_sincos : list (Q * (Q * Q));       (* x |-> (sin x, cos x) *)
  o_asin : list (Q * Q);
  o_acos : list (Q * Q);
  o_atan : list (Q * Q);
  o_atan2 : list ((Q * Q) * Q)         (* (y, x) |-> atan2 y x *)
}.

Definition orc0 : Orc := mkOrc [] [] [] [] [] [].

Fixpoint lookup1 (t : list (Q * Q)) (x : Qc) : Qc :=
  match t with
  | [] => poison
  | (k, v) :: t' => if Qeq_bool k (this x) then Q2Qc v else lookup1 t' x
  end.
Fixpoint lookup_sc (t : list (Q * (Q * Q))) (x : Qc) : Qc * Qc :=
  match t with
  | [] => (poison, poison)
  | (k, (s, c)) :: t' => if Qeq_bool k (this x) then (Q2Qc s, Q2Qc c) else lookup_sc t' x
  end.
Fixpoint lookup2 (t : list ((Q * Q) * Q)) (y x : Qc) : Qc :=
  match t with
  | [] => poison
  | ((ky, kx), v) :: t' =>
      if Qeq_bool ky (this y) && Qeq_bool kx (this x) then Q2Qc v else lookup2 t' y x
  end.

(* exact rational square root: defined when numerator and denominator are
   perfect squares; otherwise ask the table (poison if absent). *)
Definition z_is_square (z : Z) : option Z :=
  if z <? 0 then None else let r := Z.sqrt z in if r * r =? z then Some r else None.
Definition qc_sqrt (o : Orc) (x : Qc) : Qc :=
  match z_is_square (Qnum (this x)), z_is_square (Zpos (Qden (this x))) with
  | Some n, Some d => Q2Qc (Qmake n (Z.to_pos d))
  | _, _ => lookup1 (o_sqrt o) x
  end.

Definition TrigQ (o : Orc) : Trig Qc :=
  mkTrig (qc_sqrt o)
         (fun x => fst (lookup_sc (o_sincos o) x))
         (fun x => snd (lookup_sc (o_sincos o) x))
         (fun x => let sc := lookup_sc (o_sincos o) x in Qcdiv (fst sc) (snd sc))
         (lookup1 (o_asin o)) (lookup1 (o_acos o)) (lookup1 (o_atan o))
         (lookup2 (o_atan2 o)).

(* the harness scalar's `approx` implementation (binary64 parameters) *)
Definition qc_abs (x : Qc) : Qc := if qc_ltb x (Q2Qc 0) then Qcopp x else x.
Definition qc_max (a b : Qc) : Qc := if qc_leb b a then a else b.
Definition eps64 : Qc := Q2Qc (1 # 4503599627370496).          (* 2^-52 *)
Definition qc_abs_diff_eq (a b e : Qc) : bool := qc_leb (qc_abs (Qcminus a b)) e.
Definition qc_relative_eq (a b e r : Qc) : bool :=
  if qc_eqb a b then true else
  let d := qc_abs (Qcminus a b) in
  if qc_leb d e then true else qc_leb d (Qcmult (qc_max (qc_abs a) (qc_abs b)) r).
Definition qc_neg (x : Qc) : bool := qc_ltb x (Q2Qc 0).
Definition qc_ulps_eq (a b e : Qc) (u : N) : bool :=
  if qc_abs_diff_eq a b e then true else
  if negb (Bool.eqb (qc_neg a) (qc_neg b)) then false else
  qc_leb (qc_abs (Qcminus a b))
         (Qcmult (qc_max (qc_abs a) (qc_abs b)) (Qcmult (qc_ofZ (Z.of_N u)) eps64)).
Definition ApproxQ : Approx Qc :=
  mkApprox qc_abs_diff_eq qc_relative_eq qc_ulps_eq eps64 eps64 4%N (fun _ => true).

(* ---------- values compared between model and implementation ---------- *)

Inductive val :=
| VQ (l : list Q)        (* a value, flattened to its scalar components *)
| VNone                  (* Option::None *)
| VPanic                 (* the call panicked *)
| VBool (b : bool)
| VBad.                  (* dispatcher: unknown function / wrong arity *)

Definition q_eqb (a b : Q) : bool :=
  let a := Qred a in let b := Qred b in
  Z.eqb (Qnum a) (Qnum b) && Pos.eqb (Qden a) (Qden b).
Fixpoint ql_eqb (a b : list Q) : bool :=
  match a, b with
  | [], [] => true
  | x :: a', y :: b' => q_eqb x y && ql_eqb a' b'
  | _, _ => false
  end.
Definition val_eqb (a b : val) : bool :=
  match a, b with
  | VQ x, VQ y => ql_eqb x y
  | VNone, VNone => true
  | VPanic, VPanic => true
  | VBool x, VBool y => Bool.eqb x y
  | _, _ => false
  end.

Definition vq (l : list Qc) : val := VQ (map this l).
Definition vz (l : list Z) : val := VQ (map inject_Z l).
Definition vopt (A : Type) (f : A -> list Qc) (o : option A) : val :=
  match o with Some a => vq (f a) | None => VNone end.
(* a Rust function that panics where the model returns None *)
Definition vpanic (A : Type) (f : A -> list Qc) (o : option A) : val :=
  match o with Some a => vq (f a) | None => VPanic end.

(* ---------- generic values: what a dispatcher instantiated at an arbitrary scalar type F returns ----------
   The dispatch tables (Exec/RunCnn.v) are written once, parametric in the scalar type and its operations; the
   correspondence check evaluates them at Qc (below), the symbolic tie (DESIGN section 11) states lemmas about them
   at an arbitrary field. *)
Inductive gval (F : Type) : Type :=
| GQ (l : list F)
| GNone
| GPanic
| GBool (b : bool)
| GBad.
Arguments GQ {F} l.  Arguments GNone {F}.  Arguments GPanic {F}.  Arguments GBool {F} b.  Arguments GBad {F}.

Definition val_of_gval (g : gval Qc) : val :=
  match g with GQ l => vq l | GNone => VNone | GPanic => VPanic | GBool b => VBool b | GBad => VBad end.
Definition val_of_gvalZ (g : gval Z) : val :=
  match g with GQ l => vz l | GNone => VNone | GPanic => VPanic | GBool b => VBool b | GBad => VBad end.
(* a generic table, used at Qc *)
Definition qtab (t : list (string * (list Qc -> gval Qc))) : list (string * (list Qc -> val)) :=
  map (fun p => (fst p, fun l => val_of_gval (snd p l))) t.
Definition ztab (t : list (string * (list Z -> gval Z))) : list (string * (list Z -> val)) :=
  map (fun p => (fst p, fun l => val_of_gvalZ (snd p l))) t.

Record case := mkCase { c_fn : string; c_in : list Q; c_orc : Orc; c_out : val }.

Definition runner := string -> Orc -> list Qc -> val.

Definition run_case (r : runner) (c : case) : val :=
  r (c_fn c) (c_orc c) (map Q2Qc (c_in c)).

Fixpoint check_from (r : runner) (i : N) (cs : list case) : list N :=
  match cs with
  | [] => []
  | c :: cs' =>
      let rest := check_from r (N.succ i) cs' in
      if val_eqb (run_case r c) (c_out c) then rest else i :: rest
  end.
(* (number of cases evaluated, indices of the cases on which model <> implementation) *)
Definition check_all (r : runner) (cs : list case) : N * list N :=
  (N.of_nat (List.length cs), check_from r 0%N cs).

(* dispatch table helper *)
Fixpoint dispatch (A : Type) (t : list (string * A)) (f : string) : option A :=
  match t with
  | [] => None
  | (n, a) :: t' => if String.eqb n f then Some a else dispatch t' f
  end.

(* literal syntax used by the generated case files *)
Definition mq (n : Z) (d : positive) : Q := Qmake n d.
Arguments mq n%Z d%positive.
