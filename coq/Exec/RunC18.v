(* Exec/RunC18.v — dispatcher for the approx relations and predicates of C18.
   A comparison case: relation code r (0 abs_diff_eq, 1 relative_eq, 2 ulps_eq), eps, max_relative, max_ulps,
   then the two values flattened. *)
From Coq Require Import ZArith QArith Qcanon List Bool Ascii String.
From CG Require Import Scalar Model.Vector Model.Point Model.Matrix Model.Angle Model.Quaternion Model.Euler Model.Transform Model.Approx
                       Exec.ExecQ Exec.Args Exec.RunC01 Exec.RunC04 Exec.RunC07 Exec.RunC08.
Import ListNotations.
Open Scope string_scope.
Set Implicit Arguments.

Section G.
  Variable F : Type.
  Variable O : Ops F.
  Variable A : Approx F.
  Variable toNat : F -> nat.
  Variable toN : F -> N.


Definition scq (r eps mr : F) (mu : F) : F -> F -> bool :=
  match toNat r with
  | Datatypes.O => fun a b => abs_diff_eq A a b eps
  | Datatypes.S Datatypes.O => fun a b => relative_eq A a b eps mr
  | _ => fun a b => ulps_eq A a b eps (toN mu)
  end.
Definition cmp_case (X : Type) (rx : rd F X) (c : (F -> F -> bool) -> X -> X -> bool) (l : list F) : gval F :=
  match l with
  | r :: eps :: mr :: mu :: rest => grun2 rx rx (fun a b => gb (c (scq r eps mr mu) a b)) rest
  | _ => GBad end.
  Local Notation rq := (@rd_quat F).
  Local Notation AQ := A.

Definition gtab_c18 : list (string * (list F -> gval F)) := [
  ("v1_cmp", cmp_case (@rd_v1 F) (@v1_cmp F)); ("v2_cmp", cmp_case (@rd_v2 F) (@v2_cmp F));
  ("v3_cmp", cmp_case (@rd_v3 F) (@v3_cmp F)); ("v4_cmp", cmp_case (@rd_v4 F) (@v4_cmp F));
  ("p1_cmp", cmp_case (@rd_p1 F) (@p1_cmp F)); ("p2_cmp", cmp_case (@rd_p2 F) (@p2_cmp F));
  ("p3_cmp", cmp_case (@rd_p3 F) (@p3_cmp F));
  ("m2_cmp", cmp_case (@rd_m2 F) (@m2_cmp F)); ("m3_cmp", cmp_case (@rd_m3 F) (@m3_cmp F));
  ("m4_cmp", cmp_case (@rd_m4 F) (@m4_cmp F));
  ("quat_cmp", cmp_case rq (@quat_cmp F));
  ("rad_cmp", cmp_case (@rd_s F) (@ang_cmp F)); ("deg_cmp", cmp_case (@rd_s F) (@ang_cmp F));
  ("euler_cmp", cmp_case (@rd_euler F) (@euler_cmp F));
  ("basis2_cmp", cmp_case (@rd_m2 F) (@basis2_cmp F)); ("basis3_cmp", cmp_case (@rd_m3 F) (@basis3_cmp F));
  ("dq_cmp", cmp_case (rd_dec rq (@rd_v3 F)) (fun sc => dec_cmp sc (quat_cmp sc) (v3_cmp sc)));
  ("db3_cmp", cmp_case (rd_dec (@rd_m3 F) (@rd_v3 F)) (fun sc => dec_cmp sc (m3_cmp sc) (v3_cmp sc)));
  ("db2_cmp", cmp_case (rd_dec (@rd_m2 F) (@rd_v2 F)) (fun sc => dec_cmp sc (m2_cmp sc) (v2_cmp sc)));
  (* predicates *)
  ("m2_is_identity", grun1 (@rd_m2 F) (fun m => gb (m2_is_identity O AQ m)));
  ("m3_is_identity", grun1 (@rd_m3 F) (fun m => gb (m3_is_identity O AQ m)));
  ("m4_is_identity", grun1 (@rd_m4 F) (fun m => gb (m4_is_identity O AQ m)));
  ("m2_is_zero", grun1 (@rd_m2 F) (fun m => gb (m2_is_zero O AQ m)));
  ("m3_is_zero", grun1 (@rd_m3 F) (fun m => gb (m3_is_zero O AQ m)));
  ("m4_is_zero", grun1 (@rd_m4 F) (fun m => gb (m4_is_zero O AQ m)));
  ("m2_is_diagonal", grun1 (@rd_m2 F) (fun m => gb (m2_is_diagonal O AQ m)));
  ("m3_is_diagonal", grun1 (@rd_m3 F) (fun m => gb (m3_is_diagonal O AQ m)));
  ("m4_is_diagonal", grun1 (@rd_m4 F) (fun m => gb (m4_is_diagonal O AQ m)));
  ("m2_is_symmetric", grun1 (@rd_m2 F) (fun m => gb (m2_is_symmetric AQ m)));
  ("m3_is_symmetric", grun1 (@rd_m3 F) (fun m => gb (m3_is_symmetric AQ m)));
  ("m4_is_symmetric", grun1 (@rd_m4 F) (fun m => gb (m4_is_symmetric AQ m)));
  ("m2_is_invertible", grun1 (@rd_m2 F) (fun m => gb (m2_is_invertible O AQ m)));
  ("m3_is_invertible", grun1 (@rd_m3 F) (fun m => gb (m3_is_invertible O AQ m)));
  ("m4_is_invertible", grun1 (@rd_m4 F) (fun m => gb (m4_is_invertible O AQ m)));
  ("v1_is_zero", grun1 (@rd_v1 F) (fun v => gb (v1_is_zero O v))); ("v2_is_zero", grun1 (@rd_v2 F) (fun v => gb (v2_is_zero O v)));
  ("v3_is_zero", grun1 (@rd_v3 F) (fun v => gb (v3_is_zero O v))); ("v4_is_zero", grun1 (@rd_v4 F) (fun v => gb (v4_is_zero O v)));
  ("quat_is_zero", grun1 rq (fun q => gb (quat_is_zero O AQ q)));
  ("rad_is_zero", grun1 (@rd_s F) (fun a => gb (ang_is_zero O AQ a)));
  ("v2_is_perpendicular", grun2 (@rd_v2 F) (@rd_v2 F) (fun a b => gb (v2_is_perpendicular O AQ a b)));
  ("v3_is_perpendicular", grun2 (@rd_v3 F) (@rd_v3 F) (fun a b => gb (v3_is_perpendicular O AQ a b)));
  ("v4_is_perpendicular", grun2 (@rd_v4 F) (@rd_v4 F) (fun a b => gb (v4_is_perpendicular O AQ a b)))
].
End G.

Definition qc_N (x : Qc) : N := Z.to_N (Qnum (this x)).
Definition tab_c18 : list (string * (list Qc -> val)) := qtab (gtab_c18 OpsQ ApproxQ qc_nat qc_N).

Definition run_c18 : runner := fun f o args =>
  match dispatch tab_c18 f with Some h => h args | None => VBad end.
