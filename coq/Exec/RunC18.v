(* Exec/RunC18.v — dispatcher for the approx relations and predicates of C18.
   A comparison case: relation code r (0 abs_diff_eq, 1 relative_eq, 2 ulps_eq), eps, max_relative, max_ulps,
   then the two values flattened. *)
From Coq Require Import ZArith QArith Qcanon List Bool Ascii String.
From CG Require Import Scalar Model.Vector Model.Point Model.Matrix Model.Angle Model.Quaternion Model.Euler Model.Transform Model.Approx
                       Exec.ExecQ Exec.Args Exec.RunC01 Exec.RunC04 Exec.RunC07 Exec.RunC08.
Import ListNotations.
Open Scope string_scope.
Set Implicit Arguments.

Definition scq (r eps mr : Qc) (mu : Qc) : Qc -> Qc -> bool :=
  match qc_nat r with
  | Datatypes.O => fun a b => qc_abs_diff_eq a b eps
  | Datatypes.S Datatypes.O => fun a b => qc_relative_eq a b eps mr
  | _ => fun a b => qc_ulps_eq a b eps (Z.to_N (Qnum (this mu)))
  end.
Definition vb (b : bool) : val := VBool b.
Definition cmp_case (X : Type) (rx : rd Qc X) (c : (Qc -> Qc -> bool) -> X -> X -> bool) (l : list Qc) : val :=
  match l with
  | r :: eps :: mr :: mu :: rest => run2 rx rx (fun a b => vb (c (scq r eps mr mu) a b)) rest
  | _ => VBad end.
Local Notation rq := (@rd_quat Qc).
Definition AQ := ApproxQ.

Definition tab_c18 : list (string * (list Qc -> val)) := [
  ("v1_cmp", cmp_case (@rd_v1 Qc) (@v1_cmp Qc)); ("v2_cmp", cmp_case (@rd_v2 Qc) (@v2_cmp Qc));
  ("v3_cmp", cmp_case (@rd_v3 Qc) (@v3_cmp Qc)); ("v4_cmp", cmp_case (@rd_v4 Qc) (@v4_cmp Qc));
  ("p1_cmp", cmp_case (@rd_p1 Qc) (@p1_cmp Qc)); ("p2_cmp", cmp_case (@rd_p2 Qc) (@p2_cmp Qc));
  ("p3_cmp", cmp_case (@rd_p3 Qc) (@p3_cmp Qc));
  ("m2_cmp", cmp_case (@rd_m2 Qc) (@m2_cmp Qc)); ("m3_cmp", cmp_case (@rd_m3 Qc) (@m3_cmp Qc));
  ("m4_cmp", cmp_case (@rd_m4 Qc) (@m4_cmp Qc));
  ("quat_cmp", cmp_case rq (@quat_cmp Qc));
  ("rad_cmp", cmp_case (@rd_s Qc) (@ang_cmp Qc)); ("deg_cmp", cmp_case (@rd_s Qc) (@ang_cmp Qc));
  ("euler_cmp", cmp_case (@rd_euler Qc) (@euler_cmp Qc));
  ("basis2_cmp", cmp_case (@rd_m2 Qc) (@basis2_cmp Qc)); ("basis3_cmp", cmp_case (@rd_m3 Qc) (@basis3_cmp Qc));
  ("dq_cmp", cmp_case (rd_dec rq (@rd_v3 Qc)) (fun sc => dec_cmp sc (quat_cmp sc) (v3_cmp sc)));
  ("db3_cmp", cmp_case (rd_dec (@rd_m3 Qc) (@rd_v3 Qc)) (fun sc => dec_cmp sc (m3_cmp sc) (v3_cmp sc)));
  ("db2_cmp", cmp_case (rd_dec (@rd_m2 Qc) (@rd_v2 Qc)) (fun sc => dec_cmp sc (m2_cmp sc) (v2_cmp sc)));
  (* predicates *)
  ("m2_is_identity", run1 (@rd_m2 Qc) (fun m => vb (m2_is_identity O AQ m)));
  ("m3_is_identity", run1 (@rd_m3 Qc) (fun m => vb (m3_is_identity O AQ m)));
  ("m4_is_identity", run1 (@rd_m4 Qc) (fun m => vb (m4_is_identity O AQ m)));
  ("m2_is_zero", run1 (@rd_m2 Qc) (fun m => vb (m2_is_zero O AQ m)));
  ("m3_is_zero", run1 (@rd_m3 Qc) (fun m => vb (m3_is_zero O AQ m)));
  ("m4_is_zero", run1 (@rd_m4 Qc) (fun m => vb (m4_is_zero O AQ m)));
  ("m2_is_diagonal", run1 (@rd_m2 Qc) (fun m => vb (m2_is_diagonal O AQ m)));
  ("m3_is_diagonal", run1 (@rd_m3 Qc) (fun m => vb (m3_is_diagonal O AQ m)));
  ("m4_is_diagonal", run1 (@rd_m4 Qc) (fun m => vb (m4_is_diagonal O AQ m)));
  ("m2_is_symmetric", run1 (@rd_m2 Qc) (fun m => vb (m2_is_symmetric AQ m)));
  ("m3_is_symmetric", run1 (@rd_m3 Qc) (fun m => vb (m3_is_symmetric AQ m)));
  ("m4_is_symmetric", run1 (@rd_m4 Qc) (fun m => vb (m4_is_symmetric AQ m)));
  ("m2_is_invertible", run1 (@rd_m2 Qc) (fun m => vb (m2_is_invertible O AQ m)));
  ("m3_is_invertible", run1 (@rd_m3 Qc) (fun m => vb (m3_is_invertible O AQ m)));
  ("m4_is_invertible", run1 (@rd_m4 Qc) (fun m => vb (m4_is_invertible O AQ m)));
  ("v1_is_zero", run1 (@rd_v1 Qc) (fun v => vb (v1_is_zero O v))); ("v2_is_zero", run1 (@rd_v2 Qc) (fun v => vb (v2_is_zero O v)));
  ("v3_is_zero", run1 (@rd_v3 Qc) (fun v => vb (v3_is_zero O v))); ("v4_is_zero", run1 (@rd_v4 Qc) (fun v => vb (v4_is_zero O v)));
  ("quat_is_zero", run1 rq (fun q => vb (quat_is_zero O AQ q)));
  ("rad_is_zero", run1 (@rd_s Qc) (fun a => vb (ang_is_zero O AQ a)));
  ("v2_is_perpendicular", run2 (@rd_v2 Qc) (@rd_v2 Qc) (fun a b => vb (v2_is_perpendicular O AQ a b)));
  ("v3_is_perpendicular", run2 (@rd_v3 Qc) (@rd_v3 Qc) (fun a b => vb (v3_is_perpendicular O AQ a b)));
  ("v4_is_perpendicular", run2 (@rd_v4 Qc) (@rd_v4 Qc) (fun a b => vb (v4_is_perpendicular O AQ a b)))
].

Definition run_c18 : runner := fun f o args =>
  match dispatch tab_c18 f with Some h => h args | None => VBad end.
