(* Exec/RunC17.v — runs an encoded register program (C17) with the model's form-dispatching semantics.
   Encoding: 3 scalars, 4 Vector3, 3 Point3, 3 Matrix3, 3 Quaternion (s,x,y,z), then the instructions,
   8 numbers each: kind, op, form, d, a, b, c, e. *)
From Coq Require Import ZArith QArith Qcanon List Bool Ascii String.
From CG Require Import Scalar Model.Vector Model.Point Model.Matrix Model.Angle Model.Quaternion Model.Program
                       Exec.ExecQ Exec.Args Exec.RunC01 Exec.RunC04.
Import ListNotations.
Open Scope string_scope.
Set Implicit Arguments.

Definition dform (x : Qc) : form :=
  match qc_nat x with 0%nat => ByVal | 1%nat => RefL | 2%nat => RefR | 3%nat => RefLR | _ => AssignOp end.
Definition dvop (x : Qc) : vop := match qc_nat x with 0%nat => OAdd | _ => OSub end.
Definition dsop (x : Qc) : sop := match qc_nat x with 0%nat => OMul | 1%nat => ODiv | _ => ORem end.
Definition dinstr (k o f d a b c e : Qc) : option instr :=
  let n := qc_nat in
  let srcs := firstn (n o) [n a; n b; n c; n e] in
  match n k with
  | 0%nat => Some (IVV (dvop o) (dform f) (n d) (n a) (n b))
  | 1%nat => Some (IVS (dsop o) (dform f) (n d) (n a) (n b))
  | 2%nat => Some (ISV (dsop o) (dform f) (n d) (n a) (n b))
  | 3%nat => Some (IVNeg (dform f) (n d) (n a))
  | 4%nat => Some (IPV (dvop o) (dform f) (n d) (n a) (n b))
  | 5%nat => Some (IPP (dform f) (n d) (n a) (n b))
  | 6%nat => Some (IPS (dsop o) (dform f) (n d) (n a) (n b))
  | 7%nat => Some (IMM (dvop o) (dform f) (n d) (n a) (n b))
  | 8%nat => Some (IMMul (dform f) (n d) (n a) (n b))
  | 9%nat => Some (IMV (dform f) (n d) (n a) (n b))
  | 10%nat => Some (IMS (dsop o) (dform f) (n d) (n a) (n b))
  | 11%nat => Some (IMNeg (dform f) (n d) (n a))
  | 12%nat => Some (IQQ (dvop o) (dform f) (n d) (n a) (n b))
  | 13%nat => Some (IQMul (dform f) (n d) (n a) (n b))
  | 14%nat => Some (IQV (dform f) (n d) (n a) (n b))
  | 15%nat => Some (IQS (dsop o) (dform f) (n d) (n a) (n b))
  | 16%nat => Some (IQNeg (dform f) (n d) (n a))
  | 17%nat => Some (IVSum (n d) srcs)
  | 18%nat => Some (IQSum (n d) srcs)
  | 19%nat => Some (IMSum (n d) srcs)
  | 20%nat => Some (IMProd (n d) srcs)
  | 21%nat => Some (IQProd (n d) srcs)
  | _ => None
  end.
Fixpoint dprog (fuel : nat) (l : list Qc) : option (list instr) :=
  match fuel, l with
  | _, [] => Some []
  | S fu, k :: o :: f :: d :: a :: b :: c :: e :: r =>
      match dinstr k o f d a b c e, dprog fu r with Some i, Some p => Some (i :: p) | _, _ => None end
  | _, _ => None
  end.
Definition denv : rd Qc (env Qc) :=
  fun l =>
  match rd_n (@rd_s Qc) 3 l with Some (ss, l1) =>
  match rd_n (@rd_v3 Qc) 4 l1 with Some (vs, l2) =>
  match rd_n (@rd_p3 Qc) 3 l2 with Some (ps, l3) =>
  match rd_n (@rd_m3 Qc) 3 l3 with Some (ms, l4) =>
  match rd_n (@rd_quat Qc) 3 l4 with Some (qs', l5) => Some (mkEnv ss vs ps ms qs', l5)
  | None => None end | None => None end | None => None end | None => None end | None => None end.
Definition flat_env (e : env Qc) : list Qc :=
  es e ++ flat_map (@v3_list Qc) (ev e) ++ flat_map (@p3_list Qc) (ep e) ++ flat_map (@m3_list Qc) (em e) ++ flat_map (@quat_sxyz Qc) (eq_ e).

Definition run_c17 : runner := fun f o args =>
  if String.eqb f "program" then
    match denv args with
    | Some (e, rest) => match dprog (List.length rest) rest with
                        | Some p => vq (flat_env (run_forms O p e))
                        | None => VBad end
    | None => VBad end
  else VBad.
