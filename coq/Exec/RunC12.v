(* Exec/RunC12.v — dispatcher for the point functions of C12 (src/point.rs, EuclideanSpace). *)
From Coq Require Import ZArith QArith Qcanon List Bool Ascii String.
From CG Require Import Scalar Model.Vector Model.Point Exec.ExecQ Exec.Args.
Import ListNotations.
Open Scope string_scope.
Set Implicit Arguments.

Section Tab.
  Variable S : Type.
  Variable O : Ops S.
  Let out (l : list S) : gval S := GQ l.
  Let op1 (p : P1 S) := out (p1_list p).  Let op2 (p : P2 S) := out (p2_list p).  Let op3 (p : P3 S) := out (p3_list p).
  Let ov1 (v : V1 S) := out (v1_list v).  Let ov2 (v : V2 S) := out (v2_list v).  Let ov3 (v : V3 S) := out (v3_list v).
  Let ov4 (v : V4 S) := out (v4_list v).
  Let os (x : S) := out [x].
  Let r1 := @rd_p1 S.  Let r2 := @rd_p2 S.  Let r3 := @rd_p3 S.
  Let v1 := @rd_v1 S.  Let v2 := @rd_v2 S.  Let v3 := @rd_v3 S.  Let v4 := @rd_v4 S.
  Let rs := @rd_s S.
  Definition all (A : Type) (ra : rd S A) : rd S (list A) :=
    fun l => let fix go (fuel : nat) (l : list S) : option (list A * list S) :=
               match l with
               | [] => Some ([], [])
               | _ => match fuel with
                      | Datatypes.O => None
                      | Datatypes.S f => match ra l with
                                         | Some (a, r) => match go f r with Some (t, r') => Some (a :: t, r') | None => None end
                                         | None => None end
                      end
               end in go (List.length l) l.

  Definition tab_c12 : list (string * (list S -> gval S)) := [
    (* compound-assignment forms (+=, -=, *=, /=, %=): separately written macro arms, same value *)
    ("p1_add_v_assign", grun2 r1 v1 (fun p v => op1 (p1_add_v O p v)));
    ("p2_add_v_assign", grun2 r2 v2 (fun p v => op2 (p2_add_v O p v)));
    ("p3_add_v_assign", grun2 r3 v3 (fun p v => op3 (p3_add_v O p v)));
    ("p1_sub_v_assign", grun2 r1 v1 (fun p v => op1 (p1_sub_v O p v)));
    ("p2_sub_v_assign", grun2 r2 v2 (fun p v => op2 (p2_sub_v O p v)));
    ("p3_sub_v_assign", grun2 r3 v3 (fun p v => op3 (p3_sub_v O p v)));
    ("p1_mul_s_assign", grun2 r1 rs (fun p s => op1 (p1_mul_s O p s)));
    ("p2_mul_s_assign", grun2 r2 rs (fun p s => op2 (p2_mul_s O p s)));
    ("p3_mul_s_assign", grun2 r3 rs (fun p s => op3 (p3_mul_s O p s)));
    ("p1_div_s_assign", grun2 r1 rs (fun p s => op1 (p1_div_s O p s)));
    ("p2_div_s_assign", grun2 r2 rs (fun p s => op2 (p2_div_s O p s)));
    ("p3_div_s_assign", grun2 r3 rs (fun p s => op3 (p3_div_s O p s)));
    ("p1_rem_s_assign", grun2 r1 rs (fun p s => op1 (p1_rem_s O p s)));
    ("p2_rem_s_assign", grun2 r2 rs (fun p s => op2 (p2_rem_s O p s)));
    ("p3_rem_s_assign", grun2 r3 rs (fun p s => op3 (p3_rem_s O p s)));
    ("p1_add_v", grun2 r1 v1 (fun p v => op1 (p1_add_v O p v)));
    ("p2_add_v", grun2 r2 v2 (fun p v => op2 (p2_add_v O p v)));
    ("p3_add_v", grun2 r3 v3 (fun p v => op3 (p3_add_v O p v)));
    ("p1_sub_v", grun2 r1 v1 (fun p v => op1 (p1_sub_v O p v)));
    ("p2_sub_v", grun2 r2 v2 (fun p v => op2 (p2_sub_v O p v)));
    ("p3_sub_v", grun2 r3 v3 (fun p v => op3 (p3_sub_v O p v)));
    ("p1_sub_p", grun2 r1 r1 (fun p q => ov1 (p1_sub_p O p q)));
    ("p2_sub_p", grun2 r2 r2 (fun p q => ov2 (p2_sub_p O p q)));
    ("p3_sub_p", grun2 r3 r3 (fun p q => ov3 (p3_sub_p O p q)));
    ("p1_mul_s", grun2 r1 rs (fun p s => op1 (p1_mul_s O p s)));
    ("p2_mul_s", grun2 r2 rs (fun p s => op2 (p2_mul_s O p s)));
    ("p3_mul_s", grun2 r3 rs (fun p s => op3 (p3_mul_s O p s)));
    ("p1_div_s", grun2 r1 rs (fun p s => op1 (p1_div_s O p s)));
    ("p2_div_s", grun2 r2 rs (fun p s => op2 (p2_div_s O p s)));
    ("p3_div_s", grun2 r3 rs (fun p s => op3 (p3_div_s O p s)));
    ("p1_rem_s", grun2 r1 rs (fun p s => op1 (p1_rem_s O p s)));
    ("p2_rem_s", grun2 r2 rs (fun p s => op2 (p2_rem_s O p s)));
    ("p3_rem_s", grun2 r3 rs (fun p s => op3 (p3_rem_s O p s)));
    ("p1_add_ew", grun2 r1 r1 (fun p q => op1 (p1_add_ew O p q)));
    ("p2_add_ew", grun2 r2 r2 (fun p q => op2 (p2_add_ew O p q)));
    ("p3_add_ew", grun2 r3 r3 (fun p q => op3 (p3_add_ew O p q)));
    ("p1_sub_ew", grun2 r1 r1 (fun p q => op1 (p1_sub_ew O p q)));
    ("p2_sub_ew", grun2 r2 r2 (fun p q => op2 (p2_sub_ew O p q)));
    ("p3_sub_ew", grun2 r3 r3 (fun p q => op3 (p3_sub_ew O p q)));
    ("p1_mul_ew", grun2 r1 r1 (fun p q => op1 (p1_mul_ew O p q)));
    ("p2_mul_ew", grun2 r2 r2 (fun p q => op2 (p2_mul_ew O p q)));
    ("p3_mul_ew", grun2 r3 r3 (fun p q => op3 (p3_mul_ew O p q)));
    ("p1_div_ew", grun2 r1 r1 (fun p q => op1 (p1_div_ew O p q)));
    ("p2_div_ew", grun2 r2 r2 (fun p q => op2 (p2_div_ew O p q)));
    ("p3_div_ew", grun2 r3 r3 (fun p q => op3 (p3_div_ew O p q)));
    ("p1_rem_ew", grun2 r1 r1 (fun p q => op1 (p1_rem_ew O p q)));
    ("p2_rem_ew", grun2 r2 r2 (fun p q => op2 (p2_rem_ew O p q)));
    ("p3_rem_ew", grun2 r3 r3 (fun p q => op3 (p3_rem_ew O p q)));
    ("p1_add_ews", grun2 r1 rs (fun p s => op1 (p1_add_ews O p s)));
    ("p2_add_ews", grun2 r2 rs (fun p s => op2 (p2_add_ews O p s)));
    ("p3_add_ews", grun2 r3 rs (fun p s => op3 (p3_add_ews O p s)));
    ("p1_sub_ews", grun2 r1 rs (fun p s => op1 (p1_sub_ews O p s)));
    ("p2_sub_ews", grun2 r2 rs (fun p s => op2 (p2_sub_ews O p s)));
    ("p3_sub_ews", grun2 r3 rs (fun p s => op3 (p3_sub_ews O p s)));
    ("p1_mul_ews", grun2 r1 rs (fun p s => op1 (p1_mul_ews O p s)));
    ("p2_mul_ews", grun2 r2 rs (fun p s => op2 (p2_mul_ews O p s)));
    ("p3_mul_ews", grun2 r3 rs (fun p s => op3 (p3_mul_ews O p s)));
    ("p1_div_ews", grun2 r1 rs (fun p s => op1 (p1_div_ews O p s)));
    ("p2_div_ews", grun2 r2 rs (fun p s => op2 (p2_div_ews O p s)));
    ("p3_div_ews", grun2 r3 rs (fun p s => op3 (p3_div_ews O p s)));
    ("p1_rem_ews", grun2 r1 rs (fun p s => op1 (p1_rem_ews O p s)));
    ("p2_rem_ews", grun2 r2 rs (fun p s => op2 (p2_rem_ews O p s)));
    ("p3_rem_ews", grun2 r3 rs (fun p s => op3 (p3_rem_ews O p s)));
    ("p1_origin", grun0 (op1 (p1_origin O)));
    ("p2_origin", grun0 (op2 (p2_origin O)));
    ("p3_origin", grun0 (op3 (p3_origin O)));
    ("p1_from_vec", grun1 v1 (fun v => op1 (p1_from_vec v)));
    ("p2_from_vec", grun1 v2 (fun v => op2 (p2_from_vec v)));
    ("p3_from_vec", grun1 v3 (fun v => op3 (p3_from_vec v)));
    ("p1_to_vec", grun1 r1 (fun p => ov1 (p1_to_vec p)));
    ("p2_to_vec", grun1 r2 (fun p => ov2 (p2_to_vec p)));
    ("p3_to_vec", grun1 r3 (fun p => ov3 (p3_to_vec p)));
    ("p1_dot", grun2 r1 v1 (fun p v => os (p1_dot O p v)));
    ("p2_dot", grun2 r2 v2 (fun p v => os (p2_dot O p v)));
    ("p3_dot", grun2 r3 v3 (fun p v => os (p3_dot O p v)));
    ("p1_sum", grun1 r1 (fun p => os (p1_sum p)));
    ("p2_sum", grun1 r2 (fun p => os (p2_sum O p)));
    ("p3_sum", grun1 r3 (fun p => os (p3_sum O p)));
    ("p1_product", grun1 r1 (fun p => os (p1_product p)));
    ("p2_product", grun1 r2 (fun p => os (p2_product O p)));
    ("p3_product", grun1 r3 (fun p => os (p3_product O p)));
    ("p1_from_value", grun1 rs (fun s => op1 (p1_from_value s)));
    ("p2_from_value", grun1 rs (fun s => op2 (p2_from_value s)));
    ("p3_from_value", grun1 rs (fun s => op3 (p3_from_value s)));
    ("p1_midpoint", grun2 r1 r1 (fun p q => op1 (p1_midpoint O p q)));
    ("p2_midpoint", grun2 r2 r2 (fun p q => op2 (p2_midpoint O p q)));
    ("p3_midpoint", grun2 r3 r3 (fun p q => op3 (p3_midpoint O p q)));
    ("p1_centroid", grun1 (all r1) (fun ps => op1 (p1_centroid_len O ps)));
    ("p2_centroid", grun1 (all r2) (fun ps => op2 (p2_centroid_len O ps)));
    ("p3_centroid", grun1 (all r3) (fun ps => op3 (p3_centroid_len O ps)));
    ("p1_distance2", grun2 r1 r1 (fun p q => os (p1_distance2 O p q)));
    ("p2_distance2", grun2 r2 r2 (fun p q => os (p2_distance2 O p q)));
    ("p3_distance2", grun2 r3 r3 (fun p q => os (p3_distance2 O p q)));
    ("p3_to_homogeneous", grun1 r3 (fun p => ov4 (p3_to_homogeneous O p)));
    ("p3_from_homogeneous", grun1 v4 (fun v => op3 (p3_from_homogeneous O v)))
  ].
End Tab.

Definition run_c12 : runner := fun f _ args =>
  match f with
  | String "z"%char (String ":"%char g) =>
      match dispatch (ztab (tab_c12 OpsZ)) g with Some h => h (map qc_Z args) | None => VBad end
  | _ => match dispatch (qtab (tab_c12 OpsQ)) f with Some h => h args | None => VBad end
  end.
