(* Properties/C05.v — C05: Quaternion, Basis3, Matrix3 and Matrix4 describe one and the same rotation.
   Statements only; every proof is `exact <lemma>`.  A Basis3 is modelled by its matrix. *)

From CG Require Import Scalar Model.Vector Model.Point Model.Matrix Model.Angle Model.Quaternion Model.Metric Model.Rotation
                       Exec.ExecQ Proofs.Alg Proofs.RealInst Proofs.NsatzField Proofs.C05_Repr Proofs.C05_ReprR Proofs.C05_RotationR.
From Coq Require Import List Ring Field QArith Qcanon Reals.
Import ListNotations.

(* 1. rotating v by q, by Matrix3/Basis3 converted from q, or by the Matrix4 converted from q (as a
      direction) gives the same vector — for every quaternion q *)
Theorem C05_same_action : forall F (O : Ops F), Field O -> EqDec O -> OfQHom O ->
  (forall q v, m3_mul_v O (m3_of_quat O q) v = quat_mul_v O q v) /\
  (forall q v, basis3_rotate_vector O (basis3_from_quaternion O q) v = quat_rotate_vector O q v) /\
  (forall q v, m4_transform_vector O (m4_of_quat O q) v = quat_mul_v O q v) /\
  (forall q, m4_of_quat O q = m4_of_m3 O (m3_of_quat O q)).
Proof.
  intros F O H D Q.
  exact (conj (m3_of_quat_action H D Q) (conj (basis3_of_quat_action H D Q) (conj (m4_of_quat_action H D Q) (m4_of_quat_embed H D Q)))).
Qed.
Print Assumptions C05_same_action.

(* 2. for unit q the converted matrix is orthonormal with determinant +1 *)
Theorem C05_orthonormal : forall F (O : Ops F), Field O -> EqDec O -> OfQHom O ->
  forall q, quat_magnitude2 O q = one O ->
  (m3_mul O (m3_of_quat O q) (m3_transpose (m3_of_quat O q)) = m3_identity O /\
   m3_mul O (m3_transpose (m3_of_quat O q)) (m3_of_quat O q) = m3_identity O) /\
  m3_determinant O (m3_of_quat O q) = one O.
Proof. intros F O H D Q q U. exact (conj (m3_of_quat_orthonormal H D Q q U) (m3_of_quat_det H D Q q U)). Qed.
Print Assumptions C05_orthonormal.

(* 3. conversion respects composition, for Matrix3 and Basis3 *)
Theorem C05_composition : forall F (O : Ops F), Field O -> EqDec O -> OfQHom O ->
  forall p q, quat_magnitude2 O p = one O -> quat_magnitude2 O q = one O ->
  m3_of_quat O (quat_mul O p q) = m3_mul O (m3_of_quat O p) (m3_of_quat O q) /\
  basis3_from_quaternion O (quat_mul O p q) = basis3_mul O (basis3_from_quaternion O p) (basis3_from_quaternion O q).
Proof. intros F O H D Q p q Up Uq. exact (conj (m3_of_quat_mul H D Q p q Up Uq) (basis3_of_quat_mul H D Q p q Up Uq)). Qed.
Print Assumptions C05_composition.

(* 4. converting the matrix back returns q or -q, whichever of the four branches applies (reals) *)
Theorem C05_roundtrip : forall q : Quat R, quat_magnitude2 OpsR q = 1%R ->
  quat_of_m3 OpsR TrigR (m3_of_quat OpsR q) = q \/ quat_of_m3 OpsR TrigR (m3_of_quat OpsR q) = quat_neg OpsR q.
Proof. exact quat_of_m3_roundtrip. Qed.
Print Assumptions C05_roundtrip.
Theorem C05_roundtrip_basis3 : forall q : Quat R, quat_magnitude2 OpsR q = 1%R ->
  quat_of_basis3 OpsR TrigR (basis3_from_quaternion OpsR q) = q \/
  quat_of_basis3 OpsR TrigR (basis3_from_quaternion OpsR q) = quat_neg OpsR q.
Proof. exact quat_of_m3_roundtrip. Qed.
Print Assumptions C05_roundtrip_basis3.

(* 4b. the back conversion is a right inverse on EVERY rotation matrix (M M^T = I, det M = +1), not only on the
       matrices of unit quaternions: the result is a unit quaternion whose matrix is M, in all four branches (reals).
       (Together with 4: From<Matrix3> for Quaternion and From<Quaternion> for Matrix3 are mutually inverse between
       rotation matrices and unit quaternions modulo sign.) *)
Theorem C05_back_conversion_all_rotations : forall M : M3 R,
  m3_mul OpsR M (m3_transpose M) = m3_identity OpsR -> m3_determinant OpsR M = 1%R ->
  quat_magnitude2 OpsR (quat_of_m3 OpsR TrigR M) = 1%R /\ m3_of_quat OpsR (quat_of_m3 OpsR TrigR M) = M.
Proof. exact quat_of_rotation. Qed.
Print Assumptions C05_back_conversion_all_rotations.
(* its hypotheses are met by a matrix that is not the matrix of an "obvious" quaternion: a quarter turn about z *)
Example C05_rotation_example :
  let M := (m3_new 0 1 0 (-1) 0 0 0 0 1)%R : M3 R in
  m3_mul OpsR M (m3_transpose M) = m3_identity OpsR /\ m3_determinant OpsR M = 1%R.
Proof. exact rotation_example. Qed.

(* 5. all four branches are inhabited by unit quaternions (so the round trip covers each of them) *)
Theorem C05_branches_inhabited :
  (quat_magnitude2 OpsR (uq 1 0 0 0) = 1%R /\ m3_branch (m3_of_quat OpsR (uq 1 0 0 0)) = 0%nat) /\
  (quat_magnitude2 OpsR (uq 0 1 0 0) = 1%R /\ m3_branch (m3_of_quat OpsR (uq 0 1 0 0)) = 1%nat) /\
  (quat_magnitude2 OpsR (uq 0 0 1 0) = 1%R /\ m3_branch (m3_of_quat OpsR (uq 0 0 1 0)) = 2%nat) /\
  (quat_magnitude2 OpsR (uq 0 0 0 1) = 1%R /\ m3_branch (m3_of_quat OpsR (uq 0 0 0 1)) = 3%nat).
Proof. exact branch_cover. Qed.
Print Assumptions C05_branches_inhabited.

(* non-vacuity of the algebraic hypotheses *)
Example C05_hyps_Qc : Field OpsQ /\ EqDec OpsQ /\ OfQHom OpsQ.
Proof. exact (conj Field_Qc (conj EqDec_Qc OfQHom_Qc)). Qed.
Example C05_hyps_R : Field OpsR /\ OfQHom OpsR.
Proof. exact (conj Field_R OfQHom_R). Qed.
