(* Properties/C15.v — C15: between_vectors and from_arc return the shortest rotation taking a onto b.
   Statements only; every proof is `exact <lemma>`.  Scalars are the reals; ulps_eq! is an oracle `A` specified by
   UlpsSpec A eps rel: reflexive, and a `true` answer means |x - y| <= eps + rel * max(|x|, |y|). *)
From CG Require Import Scalar Model.Vector Model.Point Model.Matrix Model.Angle Model.Quaternion Model.Metric Model.Rotation
                       Proofs.Alg Proofs.RealInst Proofs.C15_BetweenR.
From Coq Require Import List QArith Reals.
Local Close Scope Q_scope.
Local Open Scope R_scope.
Local Notation O := OpsR.
Local Notation T := TrigR.

(* 1. Quaternion::between_vectors, unit a and b, neither (treated as) parallel nor antiparallel: r(a) = b exactly, r is
      a unit quaternion with positive scalar part and cos(rotation angle) = 2 s^2 - 1 = a.b = cos(angle(a,b)), its axis
      is a positive multiple of a x b, which is perpendicular to both *)
Theorem C15_quat_between_unit : forall (A : Approx R) eps rel, UlpsSpec A eps rel -> forall a b : V3 R,
  v3_magnitude2 O a = 1 -> v3_magnitude2 O b = 1 ->
  ulps_eq_d A (v3_dot O a b) 1 = false -> ulps_eq_d A (v3_dot O a b) (- (1)) = false ->
  let q := quat_between_vectors O T A a b in
  quat_rotate_vector O q a = b /\ quat_magnitude2 O q = 1 /\ 0 < qs q /\ 2 * qs q * qs q - 1 = v3_dot O a b /\
  (exists i, 0 < i /\ qv q = v3_mul_s O (v3_cross O a b) i) /\
  v3_dot O (v3_cross O a b) a = 0 /\ v3_dot O (v3_cross O a b) b = 0.
Proof. exact quat_between_unit. Qed.
Print Assumptions C15_quat_between_unit.

(* 1'. the same branch for vectors of any non-zero lengths: the direction of a goes onto the direction of b *)
Theorem C15_quat_between_general : forall (A : Approx R) eps rel, UlpsSpec A eps rel -> forall a b : V3 R,
  let k := sqrt (v3_magnitude2 O a * v3_magnitude2 O b) in
  let d := v3_dot O a b in
  0 < v3_magnitude2 O a -> 0 < v3_magnitude2 O b ->
  ulps_eq_d A d 1 = false -> ulps_eq_d A (d / k) (- (1)) = false ->
  let q := quat_between_vectors O T A a b in
  v3_mul_s O (quat_rotate_vector O q a) k = v3_mul_s O b (v3_magnitude2 O a) /\
  quat_magnitude2 O q = 1 /\ 0 < qs q /\ k * (2 * qs q * qs q - 1) = d /\
  (exists i, 0 < i /\ qv q = v3_mul_s O (v3_cross O a b) i).
Proof. exact quat_between_general. Qed.
Print Assumptions C15_quat_between_general.

(* 2. parallel: the identity is returned exactly when ulps_eq!(a.b, 1) answers true — always when a = b, and only when
      a.b is within the tolerance of 1 *)
Theorem C15_quat_between_parallel : forall (A : Approx R) eps rel, UlpsSpec A eps rel -> forall a b : V3 R,
  (ulps_eq_d A (v3_dot O a b) 1 = true ->
     quat_between_vectors O T A a b = quat_one O /\ Rabs (v3_dot O a b - 1) <= eps + rel * Rmax (Rabs (v3_dot O a b)) (Rabs 1)) /\
  (v3_magnitude2 O a = 1 -> a = b -> quat_between_vectors O T A a b = quat_one O /\ quat_rotate_vector O (quat_one O) a = b).
Proof. exact quat_between_parallel. Qed.
Print Assumptions C15_quat_between_parallel.

(* 3. antiparallel (a a unit vector): a half turn (scalar part 0) about a unit axis perpendicular to a, sending a to -a;
      this branch is taken when b = -a *)
Theorem C15_quat_between_opposite : forall (A : Approx R) eps rel, UlpsSpec A eps rel -> forall a b : V3 R,
  v3_magnitude2 O a = 1 -> eps < / 2 -> rel < / 2 ->
  let k := sqrt (v3_magnitude2 O a * v3_magnitude2 O b) in
  ulps_eq_d A (v3_dot O a b) 1 = false -> ulps_eq_d A (v3_dot O a b / k) (- (1)) = true ->
  let q := quat_between_vectors O T A a b in
  qs q = 0 /\ v3_magnitude2 O (qv q) = 1 /\ v3_dot O (qv q) a = 0 /\ quat_rotate_vector O q a = v3_neg O a /\
  quat_magnitude2 O q = 1.
Proof. exact quat_between_opposite. Qed.
Print Assumptions C15_quat_between_opposite.
Theorem C15_quat_between_opposite_taken : forall (A : Approx R) eps rel, UlpsSpec A eps rel -> forall a : V3 R,
  v3_magnitude2 O a = 1 -> ulps_eq_d A (- (1)) 1 = false ->
  let b := v3_neg O a in
  ulps_eq_d A (v3_dot O a b) 1 = false /\ ulps_eq_d A (v3_dot O a b / sqrt (v3_magnitude2 O a * v3_magnitude2 O b)) (- (1)) = true.
Proof. exact quat_between_opposite_taken. Qed.
Print Assumptions C15_quat_between_opposite_taken.

(* 4. Basis3::between_vectors is the matrix of that quaternion: same action, orthonormal with determinant +1 *)
Theorem C15_basis3_between : forall (A : Approx R) (a b v : V3 R),
  basis3_rotate_vector O (basis3_between_vectors O T A a b) v = quat_rotate_vector O (quat_between_vectors O T A a b) v /\
  (quat_magnitude2 O (quat_between_vectors O T A a b) = 1 ->
     m3_mul O (basis3_between_vectors O T A a b) (m3_transpose (basis3_between_vectors O T A a b)) = m3_identity O /\
     m3_determinant O (basis3_between_vectors O T A a b) = 1).
Proof. exact basis3_between_is_quat. Qed.
Print Assumptions C15_basis3_between.

(* 5. Basis2::between_vectors (as repaired by the fix: commit): a rotation matrix that maps the direction of a onto the
      direction of b (a onto b for unit vectors); it is the counter-clockwise rotation by the signed angle(a,b) in
      [-pi, pi], whose sine has the sign of perp_dot(a,b) — clockwise exactly when b is clockwise of a *)
Theorem C15_basis2_between : forall a b : V2 R, 0 < v2_magnitude2 O a -> 0 < v2_magnitude2 O b ->
  let m := basis2_between_vectors O T a b in
  m2_mul O m (m2_transpose m) = m2_identity O /\ m2_determinant O m = 1 /\
  v2_mul_s O (m2_mul_v O m a) (v2_magnitude O T b) = v2_mul_s O b (v2_magnitude O T a) /\
  m = m2_from_angle O T (URad O) (v2_angle O T a b) /\ - PI <= v2_angle O T a b <= PI /\
  v2_magnitude O T a * v2_magnitude O T b * sin (v2_angle O T a b) = v2_perp_dot O a b.
Proof. exact basis2_between_spec. Qed.
Print Assumptions C15_basis2_between.
Theorem C15_basis2_between_unit : forall a b : V2 R, v2_magnitude2 O a = 1 -> v2_magnitude2 O b = 1 ->
  m2_mul_v O (basis2_between_vectors O T a b) a = b.
Proof. exact basis2_between_unit. Qed.
Print Assumptions C15_basis2_between_unit.
(* 5'. the formula before the repair is refuted *)
Theorem C15_basis2_between_old_refuted :
  let a := mkV2 1 0 in let b := mkV2 0 (-1) in
  v2_magnitude2 O a = 1 /\ v2_magnitude2 O b = 1 /\
  m2_mul_v O (basis2_between_vectors_old O T a b) a = mkV2 0 1 /\ mkV2 0 1 <> b.
Proof. exact basis2_between_old_refuted. Qed.
Print Assumptions C15_basis2_between_old_refuted.

(* 6. Quaternion::from_arc, non-zero src and dst of any lengths, general branch: a unit quaternion with positive scalar
      part that rotates src/|src| onto dst/|dst|, cos(rotation angle) = src.dst / (|src||dst|), axis along src x dst *)
Theorem C15_from_arc_general : forall (A : Approx R) eps rel, UlpsSpec A eps rel -> forall (src dst : V3 R) fallback,
  let m := sqrt (v3_magnitude2 O src * v3_magnitude2 O dst) in
  let d := v3_dot O src dst in
  0 < v3_magnitude2 O src -> 0 < v3_magnitude2 O dst ->
  ulps_eq_d A d m = false -> ulps_eq_d A d (- m) = false ->
  let q := quat_from_arc O T A src dst fallback in
  (v3_mul_s O (quat_rotate_vector O q src) m = v3_mul_s O dst (v3_magnitude2 O src) /\
   quat_magnitude2 O q = 1 /\ 0 < qs q /\ m * (2 * qs q * qs q - 1) = d /\
   (exists i, 0 < i /\ qv q = v3_mul_s O (v3_cross O src dst) i)) /\
  quat_rotate_vector O q (v3_normalize O T src) = v3_normalize O T dst.
Proof.
  intros A eps rel H src dst fallback m d Ha Hb H1 H2 q.
  exact (conj (from_arc_general A eps rel H src dst fallback Ha Hb H1 H2) (from_arc_directions A eps rel H src dst fallback Ha Hb H1 H2)).
Qed.
Print Assumptions C15_from_arc_general.

(* 7. from_arc, parallel / antiparallel branches: identity when ulps_eq!(src.dst, |src||dst|); otherwise, when
      ulps_eq!(src.dst, -|src||dst|), the rotation by the scalar's half turn about the fallback axis or, without one,
      about a unit axis perpendicular to src (src a unit vector) *)
Theorem C15_from_arc_degenerate : forall (A : Approx R) eps rel, UlpsSpec A eps rel -> forall (src dst : V3 R) fallback,
  let m := sqrt (v3_magnitude2 O src * v3_magnitude2 O dst) in
  (ulps_eq_d A (v3_dot O src dst) m = true ->
     quat_from_arc O T A src dst fallback = quat_one O /\
     Rabs (v3_dot O src dst - m) <= eps + rel * Rmax (Rabs (v3_dot O src dst)) (Rabs m)) /\
  (v3_magnitude2 O src = 1 -> eps < / 2 -> rel < / 2 ->
   ulps_eq_d A (v3_dot O src dst) m = false -> ulps_eq_d A (v3_dot O src dst) (- m) = true ->
   exists axis, quat_from_arc O T A src dst fallback = quat_from_axis_angle O T (URad O) axis (turn_div_2 O (URad O)) /\
     match fallback with
     | Some ax => axis = ax
     | None => v3_magnitude2 O axis = 1 /\ v3_dot O axis src = 0
     end).
Proof.
  intros A eps rel H src dst fallback m.
  exact (conj (from_arc_parallel A eps rel H src dst fallback) (from_arc_opposite A eps rel H src dst fallback)).
Qed.
Print Assumptions C15_from_arc_degenerate.

(* 8. what a `true` answer of ulps_eq! means in radians, with the binary64 parameters (epsilon 2^-52, 4 ulps <= 2^-50
      relative): for unit vectors within 1e-7 rad of parallel / antiparallel; for from_arc with |src||dst| >= 1e-6
      (lengths between 1e-3 and 1e3) within 1e-4 rad *)
Theorem C15_tolerances :
  (forall th, 0 <= th <= PI ->
     (1 - 12 / 10000000000000000 <= cos th -> th <= 1 / 10000000) /\ (cos th <= -1 + 12 / 10000000000000000 -> PI - 1 / 10000000 <= th) /\
     (1 - 3 / 10000000000 <= cos th -> th <= 1 / 10000) /\ (cos th <= -1 + 3 / 10000000000 -> PI - 1 / 10000 <= th)) /\
  (forall (A : Approx R) eps rel c t, UlpsSpec A eps rel -> eps <= / 2 ^ 52 -> rel <= / 2 ^ 50 ->
     -1 <= c <= 1 -> (t = 1 \/ t = - (1)) -> ulps_eq_d A c t = true -> Rabs (c - t) <= 12 / 10000000000000000) /\
  (forall (A : Approx R) eps rel d m, UlpsSpec A eps rel -> eps <= / 2 ^ 52 -> rel <= / 2 ^ 50 ->
     1 / 1000000 <= m -> - m <= d <= m ->
     (ulps_eq_d A d m = true -> 1 - 3 / 10000000000 <= d / m) /\ (ulps_eq_d A d (- m) = true -> d / m <= -1 + 3 / 10000000000)).
Proof. exact (conj angle_tolerance (conj ulps_tolerance_unit ulps_tolerance_arc)). Qed.
Print Assumptions C15_tolerances.

(* non-vacuity: an ulps_eq! satisfying the specification exists (exact equality), and unit vectors in general position *)
Example C15_spec_inhabited : UlpsSpec (mkApprox (fun a b _ => Reqb a b) (fun a b _ _ => Reqb a b) (fun a b _ _ => Reqb a b) 0 0 4%N (fun _ => true)) 0 0.
Proof. exact exact_ulps_spec. Qed.
