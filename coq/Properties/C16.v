(* Properties/C16.v — C16: layout, indexing, conversions and swizzles preserve every component in order.
   Statements only; every proof is `exact <lemma>`.  The memory image of a value is the list of its
   components (vN_list, mN_list column-major, quat_list = x,y,z,s); every view is a lens on that list. *)
From Coq Require Import List Arith Bool.
From CG Require Import Scalar Model.Vector Model.Point Model.Matrix Model.Quaternion Model.Layout
                       Exec.SwizzleTable_gen Proofs.C16_Layout Proofs.C16_Swizzle.
Import ListNotations.

(* 1. conversions to and from arrays / tuples / references round-trip and expose the fields in order x, y, z, w
      (quaternion: x, y, z, then the scalar part; Quaternion::new takes the scalar first) *)
Theorem C16_roundtrips : forall A : Type,
  ((forall v : V1 A, v1_of_list (v1_list v) = Some v) /\ (forall v : V2 A, v2_of_list (v2_list v) = Some v) /\
   (forall v : V3 A, v3_of_list (v3_list v) = Some v) /\ (forall v : V4 A, v4_of_list (v4_list v) = Some v) /\
   (forall v : P1 A, p1_of_list (p1_list v) = Some v) /\ (forall v : P2 A, p2_of_list (p2_list v) = Some v) /\
   (forall v : P3 A, p3_of_list (p3_list v) = Some v) /\
   (forall m : M2 A, m2_of_list (m2_list m) = Some m) /\ (forall m : M3 A, m3_of_list (m3_list m) = Some m) /\
   (forall m : M4 A, m4_of_list (m4_list m) = Some m) /\ (forall q : Quat A, quat_of_list (quat_list q) = Some q)) /\
  (forall x y z w : A,
    v4_list (mkV4 x y z w) = [x; y; z; w] /\ v3_list (mkV3 x y z) = [x; y; z] /\ v2_list (mkV2 x y) = [x; y] /\ v1_list (mkV1 x) = [x] /\
    p3_list (mkP3 x y z) = [x; y; z] /\ p2_list (mkP2 x y) = [x; y] /\ p1_list (mkP1 x) = [x] /\
    quat_list (quat_new w x y z) = [x; y; z; w] /\ quat_list (quat_from_sv w (mkV3 x y z)) = [x; y; z; w]).
Proof. intros A. exact (conj (roundtrips A) (@field_order A)). Qed.
Print Assumptions C16_roundtrips.

(* 2. by-index access agrees with the array view, an out-of-range index panics; a write through a view is
      visible through all others (lens laws on the memory image) *)
Theorem C16_index_and_writes : forall A : Type,
  ((forall (v : V2 A) i, v2_get v i = idx (v2_list v) i) /\ (forall (v : V3 A) i, v3_get v i = idx (v3_list v) i) /\
   (forall (v : V4 A) i, v4_get v i = idx (v4_list v) i) /\
   (forall (l : list A) i, length l <= i -> idx l i = None) /\ (forall (l : list A) i, i < length l -> exists a, idx l i = Some a)) /\
  (forall (l : list A) i a l', set_nth l i a = Some l' ->
     idx l' i = Some a /\ (forall j, j <> i -> idx l' j = idx l j) /\ length l' = length l) /\
  (forall (l : list A) i a, length l <= i -> set_nth l i a = None).
Proof. intros A. exact (conj (index_views A) (conj (@set_get A) (@set_oob A))). Qed.
Print Assumptions C16_index_and_writes.

(* 3. matrices: the flat n*n view is column-major, the nested view is the list of columns *)
Theorem C16_matrix_views : forall A : Type,
  (forall m : M2 A, chunks 2 2 (m2_list m) = [v2_list (m2x m); v2_list (m2y m)]) /\
  (forall m : M3 A, chunks 3 3 (m3_list m) = [v3_list (m3x m); v3_list (m3y m); v3_list (m3z m)]) /\
  (forall m : M4 A, chunks 4 4 (m4_list m) = [v4_list (m4x m); v4_list (m4y m); v4_list (m4z m); v4_list (m4w m)]) /\
  (forall (m : M2 A) c r, c < 2 -> r < 2 -> idx (m2_list m) (2 * c + r) = m2_e m c r) /\
  (forall (m : M3 A) c r, c < 3 -> r < 3 -> idx (m3_list m) (3 * c + r) = m3_e m c r) /\
  (forall (m : M4 A) c r, c < 4 -> r < 4 -> idx (m4_list m) (4 * c + r) = m4_e m c r).
Proof. intros A. exact (matrix_views A). Qed.
Print Assumptions C16_matrix_views.

(* 4. range indices return exactly the named sub-sequence, out-of-range bounds panic; swap_elements
      exchanges exactly the two named elements *)
Theorem C16_slices_swap : forall A : Type,
  (forall (l : list A) a b,
    (a <= b -> b <= length l -> exists s, slice l a b = Some s /\ length s = b - a /\ forall k, k < b - a -> idx s k = idx l (a + k)) /\
    (b < a \/ length l < b -> slice l a b = None)) /\
  (forall (l : list A) i j, i < length l -> j < length l ->
    exists l', swap_list l i j = Some l' /\ idx l' i = idx l j /\ idx l' j = idx l i /\
               forall k, k <> i -> k <> j -> idx l' k = idx l k).
Proof. intros A. exact (conj (@slice_spec A) (@swap_spec A)). Qed.
Print Assumptions C16_slices_swap.

(* 5. map / zip / from_value / extend / truncate / truncate_n *)
Theorem C16_structural : forall (A B C : Type) (f : A -> B) (g : A -> B -> C),
  (forall v, v4_list (v4_map f v) = map f (v4_list v)) /\ (forall v, v3_list (v3_map f v) = map f (v3_list v)) /\
  (forall v, v2_list (v2_map f v) = map f (v2_list v)) /\ (forall v, v1_list (v1_map f v) = map f (v1_list v)) /\
  (forall v, p3_list (p3_map f v) = map f (p3_list v)) /\ (forall v, p2_list (p2_map f v) = map f (p2_list v)) /\
  (forall a b, v4_list (v4_zip g a b) = lzip g (v4_list a) (v4_list b)) /\ (forall a b, v3_list (v3_zip g a b) = lzip g (v3_list a) (v3_list b)) /\
  (forall a b, v2_list (v2_zip g a b) = lzip g (v2_list a) (v2_list b)) /\ (forall a b, p3_list (p3_zip g a b) = lzip g (p3_list a) (p3_list b)) /\
  (forall s : A, v4_list (v4_from_value s) = repeat s 4 /\ v3_list (v3_from_value s) = repeat s 3 /\
                 v2_list (v2_from_value s) = repeat s 2 /\ v1_list (v1_from_value s) = repeat s 1) /\
  (forall (v : V2 A) z, v3_list (v2_extend v z) = v2_list v ++ [z]) /\ (forall (v : V3 A) w, v4_list (v3_extend v w) = v3_list v ++ [w]) /\
  (forall v : V3 A, v2_list (v3_truncate v) = firstn 2 (v3_list v)) /\ (forall v : V4 A, v3_list (v4_truncate v) = firstn 3 (v4_list v)) /\
  (forall (v : V4 A) n, n < 4 -> option_map (@v3_list A) (v4_truncate_n v n) = Some (firstn n (v4_list v) ++ skipn (S n) (v4_list v))) /\
  (forall (v : V4 A) n, 4 <= n -> v4_truncate_n v n = None).
Proof. intros A B C f g. exact (structural f g). Qed.
Print Assumptions C16_structural.

(* 6. swizzles.  (a) the generator of build.rs enumerates exactly the words of length 1..upto over the letters,
      each once (340 on Vector4, 120/30/4 on Vector3/2/1, 39/14/3 on Point3/2/1);
      (b) the table of accessors generated for THIS build (550 rows; regenerated on every check) is sound — each
      accessor's body reads exactly the components its name spells and returns that dimension — complete and
      duplicate-free, and equals the generator's output.  Bound: the seven macro arms of this build. *)
Theorem C16_swizzle_generator :
  (same_words (gen_swizzle 1 3) (words 1 3) = true /\ same_words (gen_swizzle 2 3) (words 2 3) = true /\
   same_words (gen_swizzle 3 3) (words 3 3) = true /\ same_words (gen_swizzle 1 4) (words 1 4) = true /\
   same_words (gen_swizzle 2 4) (words 2 4) = true /\ same_words (gen_swizzle 3 4) (words 3 4) = true /\
   same_words (gen_swizzle 4 4) (words 4 4) = true) /\
  (length (words 4 4) = 340 /\ length (words 3 4) = 120 /\ length (words 2 4) = 30 /\ length (words 1 4) = 4 /\
   length (words 3 3) = 39 /\ length (words 2 3) = 14 /\ length (words 1 3) = 3) /\
  (forall a b, same_words a b = true -> forall w, mem_w w a = true <-> mem_w w b = true).
Proof. exact (conj gen_swizzle_spec (conj swizzle_counts same_words_sound)). Qed.
Print Assumptions C16_swizzle_generator.

Theorem C16_swizzle_table :
  forallb row_sound swizzle_table = true /\
  forallb (fun a => same_words (arm (fst a) (snd a)) (words (fst a) (snd a))) arms = true /\
  (length swizzle_table = 550 /\
   forallb (fun r => existsb (fun a => (r_nvars r =? fst a) && (r_upto r =? snd a)) arms) swizzle_table = true) /\
  forallb (fun a => same_words (arm (fst a) (snd a)) (gen_swizzle (fst a) (snd a))) arms = true.
Proof. exact (conj swizzle_table_sound (conj swizzle_table_complete (conj swizzle_table_size swizzle_table_is_generator_output))). Qed.
Print Assumptions C16_swizzle_table.
