(* Properties/C02.v — C02: inverse, determinant and transpose obey the laws of
   linear algebra.  Statements only; every proof is `exact <lemma>`. *)

From Coq Require Import List Arith Bool Ring Field ZArith QArith Qcanon.
From CG Require Import Scalar Model.Vector Model.Point Model.Matrix Exec.ExecQ
                       Proofs.Alg Proofs.C01_Matrix Proofs.C02_Swap Proofs.C02_Inverse.
Import ListNotations.
Local Open Scope nat_scope.

(* 1. invert() returns None exactly when the determinant is zero ... *)
Theorem C02_invert_none_iff : forall F (O : Ops F), Field O -> EqbSpec O ->
  (forall M, m2_invert O M = None <-> m2_determinant O M = zero O) /\
  (forall M, m3_invert O M = None <-> m3_determinant O M = zero O) /\
  (forall M, m4_invert O M = None <-> m4_determinant O M = zero O).
Proof.
  intros F O H E.
  exact (conj (m2_invert_none_iff H E) (conj (m3_invert_none_iff H E) (m4_invert_none_iff H E))).
Qed.
Print Assumptions C02_invert_none_iff.

(* 2. ... and otherwise a matrix N with M*N = N*M = identity (any non-zero determinant, however tiny) *)
Theorem C02_invert_inverse : forall F (O : Ops F), Field O -> EqbSpec O ->
  (forall M N, m2_invert O M = Some N -> m2_mul O M N = m2_identity O /\ m2_mul O N M = m2_identity O) /\
  (forall M N, m3_invert O M = Some N -> m3_mul O M N = m3_identity O /\ m3_mul O N M = m3_identity O) /\
  (forall M N, m4_invert O M = Some N -> m4_mul O M N = m4_identity O /\ m4_mul O N M = m4_identity O) /\
  (forall M, m2_determinant O M <> zero O -> exists N, m2_invert O M = Some N) /\
  (forall M, m3_determinant O M <> zero O -> exists N, m3_invert O M = Some N) /\
  (forall M, m4_determinant O M <> zero O -> exists N, m4_invert O M = Some N).
Proof.
  intros F O H E.
  exact (conj (m2_invert_spec H E) (conj (m3_invert_spec H E) (conj (m4_invert_spec H E)
        (conj (m2_invert_some H E) (conj (m3_invert_some H E) (m4_invert_some H E)))))).
Qed.
Print Assumptions C02_invert_inverse.

(* 3. determinant() equals the Leibniz expansion (sum over permutations of signed products) *)
Theorem C02_det_leibniz : forall F (O : Ops F), CRing O ->
  (forall m, m2_determinant O m = leibniz O 2 (e2 (zero O) m)) /\
  (forall m, m3_determinant O m = leibniz O 3 (e3 (zero O) m)) /\
  (forall m, m4_determinant O m = leibniz O 4 (e4 (zero O) m)).
Proof. intros F O H. exact (conj (m2_det_leibniz O H) (conj (m3_det_leibniz O H) (m4_det_leibniz O H))). Qed.
Print Assumptions C02_det_leibniz.

(* 4. determinant is multiplicative and invariant under transpose *)
Theorem C02_det_mul_transpose : forall F (O : Ops F), CRing O ->
  (forall A B, m2_determinant O (m2_mul O A B) = mul O (m2_determinant O A) (m2_determinant O B)) /\
  (forall A B, m3_determinant O (m3_mul O A B) = mul O (m3_determinant O A) (m3_determinant O B)) /\
  (forall A B, m4_determinant O (m4_mul O A B) = mul O (m4_determinant O A) (m4_determinant O B)) /\
  (forall A, m2_determinant O (m2_transpose A) = m2_determinant O A) /\
  (forall A, m3_determinant O (m3_transpose A) = m3_determinant O A) /\
  (forall A, m4_determinant O (m4_transpose A) = m4_determinant O A).
Proof.
  intros F O H.
  exact (conj (m2_det_mul O H) (conj (m3_det_mul O H) (conj (m4_det_mul O H)
        (conj (m2_det_transpose O H) (conj (m3_det_transpose O H) (m4_det_transpose O H)))))).
Qed.
Print Assumptions C02_det_mul_transpose.

(* 5. transpose() is an involution with (A*B)^T = B^T * A^T; transpose_self() equals transpose() *)
Theorem C02_transpose : forall F (O : Ops F), CRing O ->
  (forall m : M2 F, m2_transpose (m2_transpose m) = m) /\
  (forall m : M3 F, m3_transpose (m3_transpose m) = m) /\
  (forall m : M4 F, m4_transpose (m4_transpose m) = m) /\
  (forall A B, m2_transpose (m2_mul O A B) = m2_mul O (m2_transpose B) (m2_transpose A)) /\
  (forall A B, m3_transpose (m3_mul O A B) = m3_mul O (m3_transpose B) (m3_transpose A)) /\
  (forall A B, m4_transpose (m4_mul O A B) = m4_mul O (m4_transpose B) (m4_transpose A)) /\
  (forall m : M2 F, m2_transpose_self m = Some (m2_transpose m)) /\
  (forall m : M3 F, m3_transpose_self m = Some (m3_transpose m)) /\
  (forall m : M4 F, m4_transpose_self m = Some (m4_transpose m)).
Proof.
  intros F O H.
  exact (conj (@m2_transpose_invol F) (conj (@m3_transpose_invol F) (conj (@m4_transpose_invol F)
        (conj (m2_transpose_mul O H) (conj (m3_transpose_mul O H) (conj (m4_transpose_mul O H)
        (conj (@m2_transpose_self_eq F) (conj (@m3_transpose_self_eq F) (@m4_transpose_self_eq F))))))))).
Qed.
Print Assumptions C02_transpose.

(* 6. swap_rows / swap_columns / swap_elements exchange exactly the named rows, columns, elements
      (tr a b = the transposition of a and b); out-of-range indices panic *)
Theorem C02_swaps : forall (A : Type) (d : A),
  (forall (m : M2 A) a b, a < 2 -> b < 2 -> exists m', m2_swap_rows m a b = Some m' /\
       forall c r, c < 2 -> r < 2 -> e2 d m' c r = e2 d m c (tr a b r)) /\
  (forall (m : M3 A) a b, a < 3 -> b < 3 -> exists m', m3_swap_rows m a b = Some m' /\
       forall c r, c < 3 -> r < 3 -> e3 d m' c r = e3 d m c (tr a b r)) /\
  (forall (m : M4 A) a b, a < 4 -> b < 4 -> exists m', m4_swap_rows m a b = Some m' /\
       forall c r, c < 4 -> r < 4 -> e4 d m' c r = e4 d m c (tr a b r)) /\
  (forall (m : M2 A) a b, a < 2 -> b < 2 -> exists m', m2_swap_columns m a b = Some m' /\
       forall c r, c < 2 -> r < 2 -> e2 d m' c r = e2 d m (tr a b c) r) /\
  (forall (m : M3 A) a b, a < 3 -> b < 3 -> exists m', m3_swap_columns m a b = Some m' /\
       forall c r, c < 3 -> r < 3 -> e3 d m' c r = e3 d m (tr a b c) r) /\
  (forall (m : M4 A) a b, a < 4 -> b < 4 -> exists m', m4_swap_columns m a b = Some m' /\
       forall c r, c < 4 -> r < 4 -> e4 d m' c r = e4 d m (tr a b c) r) /\
  (forall (m : M2 A) ac ar bc br, ac < 2 -> ar < 2 -> bc < 2 -> br < 2 ->
     exists m', m2_swap_elements m ac ar bc br = Some m' /\
       forall c r, c < 2 -> r < 2 -> e2 d m' c r = e2 d m (fst (tr2 ac ar bc br c r)) (snd (tr2 ac ar bc br c r))) /\
  (forall (m : M3 A) ac ar bc br, ac < 3 -> ar < 3 -> bc < 3 -> br < 3 ->
     exists m', m3_swap_elements m ac ar bc br = Some m' /\
       forall c r, c < 3 -> r < 3 -> e3 d m' c r = e3 d m (fst (tr2 ac ar bc br c r)) (snd (tr2 ac ar bc br c r))) /\
  (forall (m : M4 A) ac ar bc br, ac < 4 -> ar < 4 -> bc < 4 -> br < 4 ->
     exists m', m4_swap_elements m ac ar bc br = Some m' /\
       forall c r, c < 4 -> r < 4 -> e4 d m' c r = e4 d m (fst (tr2 ac ar bc br c r)) (snd (tr2 ac ar bc br c r))) /\
  (forall (m : M2 A) a b, 2 <= a \/ 2 <= b -> m2_swap_rows m a b = None /\ m2_swap_columns m a b = None) /\
  (forall (m : M3 A) a b, 3 <= a \/ 3 <= b -> m3_swap_rows m a b = None /\ m3_swap_columns m a b = None) /\
  (forall (m : M4 A) a b, 4 <= a \/ 4 <= b -> m4_swap_rows m a b = None /\ m4_swap_columns m a b = None).
Proof.
  intros A d.
  exact (conj (@m2_swap_rows_spec A d) (conj (@m3_swap_rows_spec A d) (conj (@m4_swap_rows_spec A d)
        (conj (@m2_swap_columns_spec A d) (conj (@m3_swap_columns_spec A d) (conj (@m4_swap_columns_spec A d)
        (conj (@m2_swap_elements_spec A d) (conj (@m3_swap_elements_spec A d) (conj (@m4_swap_elements_spec A d)
        (conj (@swap_oob_2 A) (conj (@swap_oob_3 A) (@swap_oob_4 A)))))))))))).
Qed.
Print Assumptions C02_swaps.

(* 7. replace_col installs the given column and returns the old one *)
Theorem C02_replace_col : forall (A : Type),
  (forall (m : M2 A) c src, c < 2 -> exists m', m2_replace_col m c src = Some (m', oget src (m2_col m c)) /\
       m2_col m' c = Some src /\ forall k, k <> c -> m2_col m' k = m2_col m k) /\
  (forall (m : M3 A) c src, c < 3 -> exists m', m3_replace_col m c src = Some (m', oget src (m3_col m c)) /\
       m3_col m' c = Some src /\ forall k, k <> c -> m3_col m' k = m3_col m k) /\
  (forall (m : M4 A) c src, c < 4 -> exists m', m4_replace_col m c src = Some (m', oget src (m4_col m c)) /\
       m4_col m' c = Some src /\ forall k, k <> c -> m4_col m' k = m4_col m k) /\
  (forall (m2 : M2 A) (m3 : M3 A) (m4 : M4 A) s2 s3 s4 c,
     (2 <= c -> m2_replace_col m2 c s2 = None) /\ (3 <= c -> m3_replace_col m3 c s3 = None) /\
     (4 <= c -> m4_replace_col m4 c s4 = None)).
Proof.
  intros A.
  exact (conj (@m2_replace_col_spec A) (conj (@m3_replace_col_spec A) (conj (@m4_replace_col_spec A) (@replace_col_oob A)))).
Qed.
Print Assumptions C02_replace_col.

(* 8. inverse_transform() of a matrix used as a transform is this same inverse *)
Theorem C02_inverse_transform : forall F (O : Ops F),
  (forall m, m3_inverse_transform O m = m3_invert O m) /\ (forall m, m4_inverse_transform O m = m4_invert O m).
Proof. intros F O. exact (conj (fun m => eq_refl) (fun m => eq_refl)). Qed.
Print Assumptions C02_inverse_transform.

(* non-vacuity: the exact rationals satisfy the hypotheses; an invertible, a singular and a
   nearly singular matrix *)
Example C02_Field_Qc : Field OpsQ /\ EqbSpec OpsQ.  Proof. exact (conj Field_Qc EqbSpec_Qc). Qed.
Example C02_singular_none :
  m3_invert OpsQ (m3_new (Q2Qc (inject_Z 1)) (Q2Qc (inject_Z 2)) (Q2Qc (inject_Z 3)) (Q2Qc (inject_Z 4)) (Q2Qc (inject_Z 5)) (Q2Qc (inject_Z 6)) (Q2Qc (inject_Z 5)) (Q2Qc (inject_Z 7)) (Q2Qc (inject_Z 9))) = None.
Proof. vm_compute. reflexivity. Qed.
Example C02_tiny_det_some :
  exists N, m2_invert OpsQ (m2_new (Q2Qc (inject_Z 1)) (Q2Qc (inject_Z 1)) (Q2Qc (inject_Z 1)) (Q2Qc (Qmake 1000000000001 1000000000000))) = Some N.
Proof. eexists. vm_compute. reflexivity. Qed.
