(* Properties/C01.v — C01: matrix products follow the documented column-major,
   column-vector convention.  Statements only; every proof is `exact <lemma>`.
   e2/e3/e4 d m c r = element (column c, row r), d the (irrelevant) default. *)

From Coq Require Import List Arith Bool Ring Field ZArith.
From CG Require Import Scalar Model.Vector Model.Point Model.Matrix Exec.ExecQ
                       Proofs.Alg Proofs.C03_Vector Proofs.C01_Matrix.
Import ListNotations.

(* 1. layout: element (c,r) is the r-th component of the c-th column given to the constructors;
      the flat image is column-major; out-of-range indices panic *)
Theorem C01_layout : forall (A : Type) (d : A),
  (forall a b c e : A, m2_list (m2_new a b c e) = [a; b; c; e]) /\
  (forall a0 a1 a2 b0 b1 b2 c0 c1 c2 : A,
     m3_list (m3_new a0 a1 a2 b0 b1 b2 c0 c1 c2) = [a0; a1; a2; b0; b1; b2; c0; c1; c2]) /\
  (forall a0 a1 a2 a3 b0 b1 b2 b3 c0 c1 c2 c3 d0 d1 d2 d3 : A,
     m4_list (m4_new a0 a1 a2 a3 b0 b1 b2 b3 c0 c1 c2 c3 d0 d1 d2 d3)
     = [a0; a1; a2; a3; b0; b1; b2; b3; c0; c1; c2; c3; d0; d1; d2; d3]) /\
  (forall c0 c1 : V2 A, m2_col (m2_from_cols c0 c1) 0 = Some c0 /\ m2_col (m2_from_cols c0 c1) 1 = Some c1) /\
  (forall c0 c1 c2 : V3 A, m3_col (m3_from_cols c0 c1 c2) 0 = Some c0 /\ m3_col (m3_from_cols c0 c1 c2) 1 = Some c1 /\
                           m3_col (m3_from_cols c0 c1 c2) 2 = Some c2) /\
  (forall c0 c1 c2 c3 : V4 A,
     m4_col (m4_from_cols c0 c1 c2 c3) 0 = Some c0 /\ m4_col (m4_from_cols c0 c1 c2 c3) 1 = Some c1 /\
     m4_col (m4_from_cols c0 c1 c2 c3) 2 = Some c2 /\ m4_col (m4_from_cols c0 c1 c2 c3) 3 = Some c3) /\
  (forall (m : M2 A) c r, c < 2 -> r < 2 ->
     m2_e m c r = Some (nth (2 * c + r) (m2_list m) d) /\
     m2_e m c r = match m2_col m c with Some v => v2_get v r | None => None end) /\
  (forall (m : M3 A) c r, c < 3 -> r < 3 ->
     m3_e m c r = Some (nth (3 * c + r) (m3_list m) d) /\
     m3_e m c r = match m3_col m c with Some v => v3_get v r | None => None end) /\
  (forall (m : M4 A) c r, c < 4 -> r < 4 ->
     m4_e m c r = Some (nth (4 * c + r) (m4_list m) d) /\
     m4_e m c r = match m4_col m c with Some v => v4_get v r | None => None end) /\
  (forall (m : M2 A) c r, 2 <= c \/ 2 <= r -> m2_e m c r = None) /\
  (forall (m : M3 A) c r, 3 <= c \/ 3 <= r -> m3_e m c r = None) /\
  (forall (m : M4 A) c r, 4 <= c \/ 4 <= r -> m4_e m c r = None).
Proof.
  intros A d.
  exact (conj (@m2_new_list A) (conj (@m3_new_list A) (conj (@m4_new_list A)
        (conj (@m2_from_cols_col A) (conj (@m3_from_cols_col A) (conj (@m4_from_cols_col A)
        (conj (@m2_e_flat A d) (conj (@m3_e_flat A d) (conj (@m4_e_flat A d)
        (conj (@m2_e_oob A) (conj (@m3_e_oob A) (@m4_e_oob A)))))))))))).
Qed.
Print Assumptions C01_layout.

(* 2. row(), transpose(), diagonal() read exactly the named elements *)
Theorem C01_row_transpose_diagonal : forall (A : Type) (d : A),
  (forall (m : M2 A) r, r < 2 -> m2_row m r = Some (mkV2 (e2 d m 0 r) (e2 d m 1 r))) /\
  (forall (m : M3 A) r, r < 3 -> m3_row m r = Some (mkV3 (e3 d m 0 r) (e3 d m 1 r) (e3 d m 2 r))) /\
  (forall (m : M4 A) r, r < 4 -> m4_row m r = Some (mkV4 (e4 d m 0 r) (e4 d m 1 r) (e4 d m 2 r) (e4 d m 3 r))) /\
  (forall (m : M2 A) r, 2 <= r -> m2_row m r = None) /\
  (forall (m : M3 A) r, 3 <= r -> m3_row m r = None) /\
  (forall (m : M4 A) r, 4 <= r -> m4_row m r = None) /\
  (forall (m : M2 A) c r, c < 2 -> r < 2 -> e2 d (m2_transpose m) c r = e2 d m r c) /\
  (forall (m : M3 A) c r, c < 3 -> r < 3 -> e3 d (m3_transpose m) c r = e3 d m r c) /\
  (forall (m : M4 A) c r, c < 4 -> r < 4 -> e4 d (m4_transpose m) c r = e4 d m r c) /\
  (forall m : M2 A, v2_list (m2_diagonal m) = map (fun i => e2 d m i i) (seq 0 2)) /\
  (forall m : M3 A, v3_list (m3_diagonal m) = map (fun i => e3 d m i i) (seq 0 3)) /\
  (forall m : M4 A, v4_list (m4_diagonal m) = map (fun i => e4 d m i i) (seq 0 4)).
Proof.
  intros A d.
  exact (conj (@m2_row_spec A d) (conj (@m3_row_spec A d) (conj (@m4_row_spec A d)
        (conj (@m2_row_oob A) (conj (@m3_row_oob A) (conj (@m4_row_oob A)
        (conj (@m2_transpose_spec A d) (conj (@m3_transpose_spec A d) (conj (@m4_transpose_spec A d)
        (conj (@m2_diagonal_spec A d) (conj (@m3_diagonal_spec A d) (@m4_diagonal_spec A d)))))))))))).
Qed.
Print Assumptions C01_row_transpose_diagonal.

(* 3. A*v = sum over c of (column c of A) scaled by v[c]; and row-wise (A v)[r] = sum_k A[k][r] v[k] *)
Theorem C01_mul_vector : forall F (O : Ops F), CRing O ->
  (forall A v, m2_mul_v O A v = v2_add O (v2_mul_s O (m2x A) (v2x v)) (v2_mul_s O (m2y A) (v2y v))) /\
  (forall A v, m3_mul_v O A v = v3_add O (v3_add O (v3_mul_s O (m3x A) (v3x v)) (v3_mul_s O (m3y A) (v3y v)))
                                         (v3_mul_s O (m3z A) (v3z v))) /\
  (forall A v, m4_mul_v O A v = v4_add O (v4_add O (v4_add O (v4_mul_s O (m4x A) (v4x v)) (v4_mul_s O (m4y A) (v4y v)))
                                                   (v4_mul_s O (m4z A) (v4z v)))
                                         (v4_mul_s O (m4w A) (v4w v))) /\
  (forall A v r, r < 2 -> oget (zero O) (v2_get (m2_mul_v O A v) r)
                          = sigma O 2 (fun k => mul O (e2 (zero O) A k r) (oget (zero O) (v2_get v k)))) /\
  (forall A v r, r < 3 -> oget (zero O) (v3_get (m3_mul_v O A v) r)
                          = sigma O 3 (fun k => mul O (e3 (zero O) A k r) (oget (zero O) (v3_get v k)))) /\
  (forall A v r, r < 4 -> oget (zero O) (v4_get (m4_mul_v O A v) r)
                          = sigma O 4 (fun k => mul O (e4 (zero O) A k r) (oget (zero O) (v4_get v k)))).
Proof.
  intros F O H.
  exact (conj (m2_mul_v_columns O H) (conj (m3_mul_v_columns O H) (conj (m4_mul_v_columns O H)
        (conj (m2_mul_v_sigma O H) (conj (m3_mul_v_sigma O H) (m4_mul_v_sigma O H)))))).
Qed.
Print Assumptions C01_mul_vector.

(* 4. column c of A*B = A*(column c of B); (A B)[c][r] = sum_k A[k][r] B[c][k] *)
Theorem C01_mul_matrix : forall F (O : Ops F), CRing O ->
  (forall A B, m2_mul O A B = mkM2 (m2_mul_v O A (m2x B)) (m2_mul_v O A (m2y B))) /\
  (forall A B, m3_mul O A B = mkM3 (m3_mul_v O A (m3x B)) (m3_mul_v O A (m3y B)) (m3_mul_v O A (m3z B))) /\
  (forall A B, m4_mul O A B = mkM4 (m4_mul_v O A (m4x B)) (m4_mul_v O A (m4y B))
                                   (m4_mul_v O A (m4z B)) (m4_mul_v O A (m4w B))) /\
  (forall A B c r, c < 2 -> r < 2 ->
     e2 (zero O) (m2_mul O A B) c r = sigma O 2 (fun k => mul O (e2 (zero O) A k r) (e2 (zero O) B c k))) /\
  (forall A B c r, c < 3 -> r < 3 ->
     e3 (zero O) (m3_mul O A B) c r = sigma O 3 (fun k => mul O (e3 (zero O) A k r) (e3 (zero O) B c k))) /\
  (forall A B c r, c < 4 -> r < 4 ->
     e4 (zero O) (m4_mul O A B) c r = sigma O 4 (fun k => mul O (e4 (zero O) A k r) (e4 (zero O) B c k))).
Proof.
  intros F O H.
  exact (conj (m2_mul_columns O H) (conj (m3_mul_columns O H) (conj (m4_mul_columns O H)
        (conj (m2_mul_sigma O H) (conj (m3_mul_sigma O H) (m4_mul_sigma O H)))))).
Qed.
Print Assumptions C01_mul_matrix.

(* 5. trace; embeddings of a smaller matrix into a larger identity *)
Theorem C01_trace_embeddings : forall F (O : Ops F), CRing O ->
  (forall m, m2_trace O m = sigma O 2 (fun i => e2 (zero O) m i i)) /\
  (forall m, m3_trace O m = sigma O 3 (fun i => e3 (zero O) m i i)) /\
  (forall m, m4_trace O m = sigma O 4 (fun i => e4 (zero O) m i i)) /\
  (forall m c r, c < 3 -> r < 3 ->
     e3 (zero O) (m3_of_m2 O m) c r = if andb (c <? 2) (r <? 2) then e2 (zero O) m c r else delta O c r) /\
  (forall m c r, c < 4 -> r < 4 ->
     e4 (zero O) (m4_of_m2 O m) c r = if andb (c <? 2) (r <? 2) then e2 (zero O) m c r else delta O c r) /\
  (forall m c r, c < 4 -> r < 4 ->
     e4 (zero O) (m4_of_m3 O m) c r = if andb (c <? 3) (r <? 3) then e3 (zero O) m c r else delta O c r).
Proof.
  intros F O H.
  exact (conj (m2_trace_spec O H) (conj (m3_trace_spec O H) (conj (m4_trace_spec O H)
        (conj (m3_of_m2_spec O H) (conj (m4_of_m2_spec O H) (m4_of_m3_spec O H)))))).
Qed.
Print Assumptions C01_trace_embeddings.

(* 6. identity / from_value / from_diagonal: elements and action (scaling by the given factors) *)
Theorem C01_value_diagonal : forall F (O : Ops F), CRing O ->
  (forall v c r, c < 2 -> r < 2 -> e2 (zero O) (m2_from_value O v) c r = if Nat.eqb c r then v else zero O) /\
  (forall v c r, c < 3 -> r < 3 -> e3 (zero O) (m3_from_value O v) c r = if Nat.eqb c r then v else zero O) /\
  (forall v c r, c < 4 -> r < 4 -> e4 (zero O) (m4_from_value O v) c r = if Nat.eqb c r then v else zero O) /\
  (forall s v, m2_mul_v O (m2_from_value O s) v = v2_mul_s O v s) /\
  (forall s v, m3_mul_v O (m3_from_value O s) v = v3_mul_s O v s) /\
  (forall s v, m4_mul_v O (m4_from_value O s) v = v4_mul_s O v s) /\
  (forall d v, m2_mul_v O (m2_from_diagonal O d) v = v2_mul_ew O d v) /\
  (forall d v, m3_mul_v O (m3_from_diagonal O d) v = v3_mul_ew O d v) /\
  (forall d v, m4_mul_v O (m4_from_diagonal O d) v = v4_mul_ew O d v) /\
  (forall v, m2_mul_v O (m2_identity O) v = v) /\
  (forall v, m3_mul_v O (m3_identity O) v = v) /\
  (forall v, m4_mul_v O (m4_identity O) v = v).
Proof.
  intros F O H.
  exact (conj (m2_from_value_spec O H) (conj (m3_from_value_spec O H) (conj (m4_from_value_spec O H)
        (conj (m2_from_value_action O H) (conj (m3_from_value_action O H) (conj (m4_from_value_action O H)
        (conj (m2_from_diagonal_action O H) (conj (m3_from_diagonal_action O H) (conj (m4_from_diagonal_action O H)
        (conj (m2_identity_action O H) (conj (m3_identity_action O H) (m4_identity_action O H)))))))))))).
Qed.
Print Assumptions C01_value_diagonal.

(* 7. from_scale / from_translation: scaling by the given factors, displacement by the given offset;
      vectors are not displaced *)
Theorem C01_scale_translation : forall F (O : Ops F), Field O ->
  (forall t v, m3_transform_vector2 O (m3_from_translation O t) v = v) /\
  (forall t v, m4_transform_vector O (m4_from_translation O t) v = v) /\
  (forall t p, m3_transform_point2 O (m3_from_translation O t) p = p2_add_v O p t) /\
  (forall t p, m4_transform_point O (m4_from_translation O t) p = p3_add_v O p t) /\
  (forall x y v, m3_transform_vector2 O (m3_from_nonuniform_scale O x y) v = mkV2 (mul O x (v2x v)) (mul O y (v2y v))) /\
  (forall x y p, m3_transform_point2 O (m3_from_nonuniform_scale O x y) p = mkP2 (mul O x (p2x p)) (mul O y (p2y p))) /\
  (forall x y z v, m4_transform_vector O (m4_from_nonuniform_scale O x y z) v
                   = mkV3 (mul O x (v3x v)) (mul O y (v3y v)) (mul O z (v3z v))) /\
  (forall x y z p, m4_transform_point O (m4_from_nonuniform_scale O x y z) p
                   = mkP3 (mul O x (p3x p)) (mul O y (p3y p)) (mul O z (p3z p))) /\
  (forall s, m3_from_scale O s = m3_from_nonuniform_scale O s s) /\
  (forall s, m4_from_scale O s = m4_from_nonuniform_scale O s s s).
Proof.
  intros F O H. pose proof (Field_CRing O H) as R.
  exact (conj (m3_from_translation_vector O R) (conj (m4_from_translation_vector O R)
        (conj (m3_from_translation_point O R) (conj (m4_from_translation_point O H)
        (conj (m3_from_nonuniform_scale_vector O R) (conj (m3_from_nonuniform_scale_point O R)
        (conj (m4_from_nonuniform_scale_vector O R) (conj (m4_from_nonuniform_scale_point O H)
        (conj (m3_from_scale_eq O R) (m4_from_scale_eq O R)))))))))).
Qed.
Print Assumptions C01_scale_translation.

(* 8. sum, difference, negation and scalar multiples are element-wise *)
Theorem C01_elementwise : forall F (O : Ops F), CRing O ->
  (forall a b, m2_list (m2_add O a b) = lzip (add O) (m2_list a) (m2_list b)) /\
  (forall a b, m3_list (m3_add O a b) = lzip (add O) (m3_list a) (m3_list b)) /\
  (forall a b, m4_list (m4_add O a b) = lzip (add O) (m4_list a) (m4_list b)) /\
  (forall a b, m2_list (m2_sub O a b) = lzip (sub O) (m2_list a) (m2_list b)) /\
  (forall a b, m3_list (m3_sub O a b) = lzip (sub O) (m3_list a) (m3_list b)) /\
  (forall a b, m4_list (m4_sub O a b) = lzip (sub O) (m4_list a) (m4_list b)) /\
  (forall a, m2_list (m2_neg O a) = map (opp O) (m2_list a)) /\
  (forall a, m3_list (m3_neg O a) = map (opp O) (m3_list a)) /\
  (forall a, m4_list (m4_neg O a) = map (opp O) (m4_list a)) /\
  (forall a s, m2_list (m2_mul_s O a s) = map (fun c => mul O c s) (m2_list a)) /\
  (forall a s, m3_list (m3_mul_s O a s) = map (fun c => mul O c s) (m3_list a)) /\
  (forall a s, m4_list (m4_mul_s O a s) = map (fun c => mul O c s) (m4_list a)) /\
  (forall a s, m2_list (m2_div_s O a s) = map (fun c => div O c s) (m2_list a)) /\
  (forall a s, m3_list (m3_div_s O a s) = map (fun c => div O c s) (m3_list a)) /\
  (forall a s, m4_list (m4_div_s O a s) = map (fun c => div O c s) (m4_list a)) /\
  (forall a s, m2_list (m2_rem_s O a s) = map (fun c => rem O c s) (m2_list a)) /\
  (forall a s, m3_list (m3_rem_s O a s) = map (fun c => rem O c s) (m3_list a)) /\
  (forall a s, m4_list (m4_rem_s O a s) = map (fun c => rem O c s) (m4_list a)).
Proof.
  intros F O H.
  exact (conj (m2_add_comp O H) (conj (m3_add_comp O H) (conj (m4_add_comp O H)
        (conj (m2_sub_comp O H) (conj (m3_sub_comp O H) (conj (m4_sub_comp O H)
        (conj (m2_neg_comp O H) (conj (m3_neg_comp O H) (conj (m4_neg_comp O H)
        (conj (m2_mul_s_comp O H) (conj (m3_mul_s_comp O H) (conj (m4_mul_s_comp O H)
        (conj (m2_div_s_comp O H) (conj (m3_div_s_comp O H) (conj (m4_div_s_comp O H)
        (conj (m2_rem_s_comp O H) (conj (m3_rem_s_comp O H) (m4_rem_s_comp O H)))))))))))))))))).
Qed.
Print Assumptions C01_elementwise.

(* 9. matrices form a ring ... *)
Theorem C01_ring : forall F (O : Ops F), CRing O ->
  (forall A B C, m2_mul O (m2_mul O A B) C = m2_mul O A (m2_mul O B C)) /\
  (forall A B C, m3_mul O (m3_mul O A B) C = m3_mul O A (m3_mul O B C)) /\
  (forall A B C, m4_mul O (m4_mul O A B) C = m4_mul O A (m4_mul O B C)) /\
  (forall A, m2_mul O A (m2_identity O) = A /\ m2_mul O (m2_identity O) A = A) /\
  (forall A, m3_mul O A (m3_identity O) = A /\ m3_mul O (m3_identity O) A = A) /\
  (forall A, m4_mul O A (m4_identity O) = A /\ m4_mul O (m4_identity O) A = A) /\
  (forall A B C, m2_mul O A (m2_add O B C) = m2_add O (m2_mul O A B) (m2_mul O A C) /\
                 m2_mul O (m2_add O A B) C = m2_add O (m2_mul O A C) (m2_mul O B C)) /\
  (forall A B C, m3_mul O A (m3_add O B C) = m3_add O (m3_mul O A B) (m3_mul O A C) /\
                 m3_mul O (m3_add O A B) C = m3_add O (m3_mul O A C) (m3_mul O B C)) /\
  (forall A B C, m4_mul O A (m4_add O B C) = m4_add O (m4_mul O A B) (m4_mul O A C) /\
                 m4_mul O (m4_add O A B) C = m4_add O (m4_mul O A C) (m4_mul O B C)) /\
  (forall A B C, m2_add O A B = m2_add O B A /\ m2_add O (m2_add O A B) C = m2_add O A (m2_add O B C) /\
                 m2_add O A (m2_zero O) = A /\ m2_add O A (m2_neg O A) = m2_zero O /\
                 m2_sub O A B = m2_add O A (m2_neg O B)) /\
  (forall A B C, m3_add O A B = m3_add O B A /\ m3_add O (m3_add O A B) C = m3_add O A (m3_add O B C) /\
                 m3_add O A (m3_zero O) = A /\ m3_add O A (m3_neg O A) = m3_zero O /\
                 m3_sub O A B = m3_add O A (m3_neg O B)) /\
  (forall A B C, m4_add O A B = m4_add O B A /\ m4_add O (m4_add O A B) C = m4_add O A (m4_add O B C) /\
                 m4_add O A (m4_zero O) = A /\ m4_add O A (m4_neg O A) = m4_zero O /\
                 m4_sub O A B = m4_add O A (m4_neg O B)).
Proof.
  intros F O H.
  exact (conj (m2_mul_assoc O H) (conj (m3_mul_assoc O H) (conj (m4_mul_assoc O H)
        (conj (m2_mul_identity O H) (conj (m3_mul_identity O H) (conj (m4_mul_identity O H)
        (conj (m2_mul_distr O H) (conj (m3_mul_distr O H) (conj (m4_mul_distr O H)
        (conj (m2_add_group O H) (conj (m3_add_group O H) (m4_add_group O H)))))))))))).
Qed.
Print Assumptions C01_ring.

(* 10. ... acting linearly on vectors: (A B) v = A (B v), additivity, homogeneity *)
Theorem C01_linear_action : forall F (O : Ops F), CRing O ->
  (forall A B v w s,
    m2_mul_v O (m2_mul O A B) v = m2_mul_v O A (m2_mul_v O B v) /\
    m2_mul_v O A (v2_add O v w) = v2_add O (m2_mul_v O A v) (m2_mul_v O A w) /\
    m2_mul_v O A (v2_mul_s O v s) = v2_mul_s O (m2_mul_v O A v) s /\
    m2_mul_v O (m2_add O A B) v = v2_add O (m2_mul_v O A v) (m2_mul_v O B v) /\
    m2_mul_v O (m2_mul_s O A s) v = v2_mul_s O (m2_mul_v O A v) s) /\
  (forall A B v w s,
    m3_mul_v O (m3_mul O A B) v = m3_mul_v O A (m3_mul_v O B v) /\
    m3_mul_v O A (v3_add O v w) = v3_add O (m3_mul_v O A v) (m3_mul_v O A w) /\
    m3_mul_v O A (v3_mul_s O v s) = v3_mul_s O (m3_mul_v O A v) s /\
    m3_mul_v O (m3_add O A B) v = v3_add O (m3_mul_v O A v) (m3_mul_v O B v) /\
    m3_mul_v O (m3_mul_s O A s) v = v3_mul_s O (m3_mul_v O A v) s) /\
  (forall A B v w s,
    m4_mul_v O (m4_mul O A B) v = m4_mul_v O A (m4_mul_v O B v) /\
    m4_mul_v O A (v4_add O v w) = v4_add O (m4_mul_v O A v) (m4_mul_v O A w) /\
    m4_mul_v O A (v4_mul_s O v s) = v4_mul_s O (m4_mul_v O A v) s /\
    m4_mul_v O (m4_add O A B) v = v4_add O (m4_mul_v O A v) (m4_mul_v O B v) /\
    m4_mul_v O (m4_mul_s O A s) v = v4_mul_s O (m4_mul_v O A v) s).
Proof.
  intros F O H. exact (conj (m2_action O H) (conj (m3_action O H) (m4_action O H))).
Qed.
Print Assumptions C01_linear_action.

(* 11. Transform::transform_point / transform_vector / concat for Matrix3 and Matrix4 *)
Theorem C01_transform : forall F (O : Ops F), Field O ->
  (forall m v, m3_transform_vector3 O m v = m3_mul_v O m v) /\
  (forall m p, p3_to_vec (m3_transform_point3 O m p) = m3_mul_v O m (p3_to_vec p)) /\
  (forall m v, v3_extend (m4_transform_vector O m v) (v4w (m4_mul_v O m (v3_extend v (zero O))))
               = m4_mul_v O m (v3_extend v (zero O))) /\
  (forall m v, v2_extend (m3_transform_vector2 O m v) (v3z (m3_mul_v O m (v2_extend v (zero O))))
               = m3_mul_v O m (v2_extend v (zero O))) /\
  (forall m p, let h := m4_mul_v O m (p3_to_homogeneous O p) in
               v4w h <> zero O ->
               m4_transform_point O m p = mkP3 (div O (v4x h) (v4w h)) (div O (v4y h) (v4w h)) (div O (v4z h) (v4w h))) /\
  (forall a b, m3_concat O a b = m3_mul O a b) /\ (forall a b, m4_concat O a b = m4_mul O a b).
Proof.
  intros F O H. pose proof (Field_CRing O H) as R.
  exact (conj (m3_transform_vector3_spec O R) (conj (m3_transform_point3_spec O R)
        (conj (m4_transform_vector_spec O R) (conj (m3_transform_vector2_spec O R)
        (conj (m4_transform_point_w O H) (conj (fun a b => eq_refl) (fun a b => eq_refl))))))).
Qed.
Print Assumptions C01_transform.

(* non-vacuity *)
Example C01_Field_Qc : Field OpsQ.  Proof. exact Field_Qc. Qed.
Example C01_mul_example :
  m2_mul OpsZ (m2_new 1 2 3 4)%Z (m2_new 5 6 7 8)%Z = (m2_new 23 34 31 46)%Z.
Proof. reflexivity. Qed.
