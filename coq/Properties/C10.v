(* Properties/C10.v — C10: projections map the view volume onto the clip cube and reject bad
   parameters.  Statements only; every proof is `exact <lemma>`.  `frustum_mat`, `persp_mat`,
   `planar_mat` are the matrices the constructors return when their assertions pass. *)

From CG Require Import Scalar Model.Vector Model.Point Model.Matrix Model.Angle Model.Projection Exec.ExecQ
                       Proofs.Alg Proofs.RealInst Proofs.C10_Projection Proofs.C10_ProjectionR.
From Coq Require Import List Ring Field QArith Qcanon Reals.
Import ListNotations.
Local Close Scope Q_scope.
Local Close Scope R_scope.

(* 1. ortho maps the box [l,r]x[b,t]x[-n,-f] affinely onto [-1,1]^3, near to -1 and far to +1 *)
Theorem C10_ortho : forall F (O : Ops F), Field O -> OfQHom O ->
  forall l r b t n f, sub O r l <> zero O -> sub O t b <> zero O -> sub O f n <> zero O ->
  let two := add O (one O) (one O) in
  (forall p, m4_transform_point O (m4_ortho O l r b t n f) p
     = mkP3 (div O (sub O (mul O two (p3x p)) (add O r l)) (sub O r l))
            (div O (sub O (mul O two (p3y p)) (add O t b)) (sub O t b))
            (div O (sub O (mul O (opp O two) (p3z p)) (add O f n)) (sub O f n))) /\
  m4_row3 (m4_ortho O l r b t n f) = mkV4 (zero O) (zero O) (zero O) (one O) /\
  (forall sx sy sz : bool,
     m4_transform_point O (m4_ortho O l r b t n f)
       (mkP3 (if sx then r else l) (if sy then t else b) (if sz then opp O f else opp O n))
     = mkP3 (if sx then one O else opp O (one O)) (if sy then one O else opp O (one O))
            (if sz then one O else opp O (one O))).
Proof.
  intros F O H Q l r b t n f H1 H2 H3 two.
  exact (conj (fun p => @ortho_affine F O H Q l r b t n f p H1 H2 H3)
        (conj (ortho_bottom_row H Q l r b t n f) (@ortho_corners F O H Q l r b t n f H1 H2 H3))).
Qed.
Print Assumptions C10_ortho.

(* 2. frustum maps, after division by w = -z, the near rectangle and the similar far rectangle onto
      the z = -1 and z = +1 faces *)
Theorem C10_frustum : forall F (O : Ops F), Field O -> OfQHom O ->
  forall l r b t n f,
  (Scalar.leb O l r = true -> Scalar.leb O b t = true -> Scalar.leb O n f = true ->
     m4_frustum O l r b t n f = Some (frustum_mat O l r b t n f)) /\
  (forall p, v4w (m4_mul_v O (frustum_mat O l r b t n f) (p3_to_homogeneous O p)) = opp O (p3z p)) /\
  (sub O r l <> zero O -> sub O t b <> zero O -> sub O f n <> zero O -> n <> zero O -> f <> zero O ->
   forall sx sy : bool,
     m4_transform_point O (frustum_mat O l r b t n f) (mkP3 (if sx then r else l) (if sy then t else b) (opp O n))
       = mkP3 (if sx then one O else opp O (one O)) (if sy then one O else opp O (one O)) (opp O (one O)) /\
     m4_transform_point O (frustum_mat O l r b t n f)
       (mkP3 (div O (mul O (if sx then r else l) f) n) (div O (mul O (if sy then t else b) f) n) (opp O f))
       = mkP3 (if sx then one O else opp O (one O)) (if sy then one O else opp O (one O)) (one O)).
Proof.
  intros F O H Q l r b t n f.
  exact (conj (frustum_some H Q l r b t n f) (conj (frustum_w H Q l r b t n f) (@frustum_near_far F O H Q l r b t n f))).
Qed.
Print Assumptions C10_frustum.

(* 3. perspective(fovy, aspect, n, f) equals frustum of the symmetric window of half-height
      n*tan(fovy/2) and half-width aspect times that *)
Theorem C10_perspective_is_frustum : forall F (O : Ops F) (T : Trig F), Field O -> OfQHom O ->
  forall fovy aspect n f,
  let two := add O (one O) (one O) in
  two <> zero O -> Scalar.tan T (div O fovy two) <> zero O -> aspect <> zero O -> n <> zero O -> sub O n f <> zero O ->
  match to_perspective O T fovy aspect n f with
  | [l; r; b; t; n'; f'] =>
      persp_mat O T fovy aspect n f = frustum_mat O l r b t n' f' /\
      t = mul O n (Scalar.tan T (div O fovy two)) /\ b = opp O t /\ r = mul O t aspect /\ l = opp O r /\ n' = n /\ f' = f
  | _ => False
  end.
Proof. intros F O T H Q fovy aspect n f two. exact (@perspective_is_frustum F O H Q T fovy aspect n f). Qed.
Print Assumptions C10_perspective_is_frustum.

(* 4. planar maps the z = 0 window of height h and width aspect*h to [-1,1]^2, z = -n to -1, z = -f to +1,
      and has its focal point (w = 0) at z = 1/inv_f = (h/2) cot(fovy/2) behind the origin *)
Theorem C10_planar : forall F (O : Ops F) (T : Trig F), Field O -> OfQHom O ->
  let two := add O (one O) (one O) in
  (forall inv_f aspect h n f, aspect <> zero O -> h <> zero O -> sub O n f <> zero O -> two <> zero O ->
     forall sx sy : bool,
     let x := if sx then div O (mul O aspect h) two else opp O (div O (mul O aspect h) two) in
     let y := if sy then div O h two else opp O (div O h two) in
     let q := m4_transform_point O (planar_mat O inv_f aspect h n f) (mkP3 x y (zero O)) in
     p3x q = (if sx then one O else opp O (one O)) /\ p3y q = (if sy then one O else opp O (one O))) /\
  (forall inv_f aspect h n f x y, sub O n f <> zero O ->
     add O (mul O inv_f n) (one O) <> zero O -> add O (mul O inv_f f) (one O) <> zero O ->
     p3z (m4_transform_point O (planar_mat O inv_f aspect h n f) (mkP3 x y (opp O n))) = opp O (one O) /\
     p3z (m4_transform_point O (planar_mat O inv_f aspect h n f) (mkP3 x y (opp O f))) = one O) /\
  (forall inv_f aspect h n f x y z, inv_f <> zero O ->
     (v4w (m4_mul_v O (planar_mat O inv_f aspect h n f) (p3_to_homogeneous O (mkP3 x y z))) = zero O
      <-> z = div O (one O) inv_f)) /\
  (forall fovy h, h <> zero O -> Scalar.tan T (div O fovy two) <> zero O -> two <> zero O ->
     div O (one O) (div O (mul O (Scalar.tan T (div O fovy two)) two) h) = mul O (div O h two) (inv O (Scalar.tan T (div O fovy two)))).
Proof.
  intros F O T H Q two.
  exact (conj (@planar_window F O H Q) (conj (@planar_near_far F O H Q) (conj (@planar_focal F O H Q) (@planar_inv_f F O H Q T)))).
Qed.
Print Assumptions C10_planar.

(* 5. parameters violating a stated precondition panic; valid ones are accepted (reals; A is the
      scalar type's abs_diff_eq with default epsilon eps) *)
Theorem C10_rejects : forall (A : Approx R) (eps : R), ApproxSpecR A eps ->
  (forall l r b t n f, (l > r \/ b > t \/ n > f)%R -> m4_frustum OpsR l r b t n f = None) /\
  (forall fovy aspect n f,
     (fovy <= 0 \/ half_turn <= fovy \/ aspect = 0 \/ n <= 0 \/ f <= 0 \/ n = f)%R ->
     m4_perspective OpsR TrigR A fovy aspect n f = None) /\
  (forall fovy aspect h n f,
     (fovy <= - half_turn \/ half_turn <= fovy \/ h < 0 \/ aspect = 0 \/ n = f \/
      (Rmin f n <= planar_focal_point fovy h <= Rmax f n))%R ->
     m4_planar OpsR TrigR A fovy aspect h n f = None).
Proof.
  intros A eps HA.
  exact (conj (frustum_rejects) (conj (perspective_rejects A eps HA) (planar_rejects A eps HA))).
Qed.
Print Assumptions C10_rejects.

Theorem C10_accepts : forall (A : Approx R) (eps : R), ApproxSpecR A eps ->
  (forall l r b t n f, (l <= r)%R -> (b <= t)%R -> (n <= f)%R ->
     m4_frustum OpsR l r b t n f = Some (frustum_mat OpsR l r b t n f)) /\
  (forall fovy aspect n f, (0 < fovy < half_turn)%R -> (eps < Rabs aspect)%R -> (0 < n)%R -> (0 < f)%R ->
     (eps < Rabs (f - n))%R ->
     m4_perspective OpsR TrigR A fovy aspect n f = Some (persp_mat OpsR TrigR fovy aspect n f)).
Proof. intros A eps HA. exact (conj frustum_accepts (perspective_accepts A eps HA)). Qed.
Print Assumptions C10_accepts.

(* non-vacuity *)
Example C10_hyps_Qc : Field OpsQ /\ OfQHom OpsQ.  Proof. exact (conj Field_Qc OfQHom_Qc). Qed.
Example C10_hyps_R : Field OpsR /\ OfQHom OpsR.  Proof. exact (conj Field_R OfQHom_R). Qed.
Example C10_valid_frustum :
  exists m, m4_frustum OpsQ (Q2Qc (Qmake (-1) 1)) (Q2Qc (Qmake 2 1)) (Q2Qc (Qmake (-1) 2)) (Q2Qc (Qmake 3 2))
                            (Q2Qc (Qmake 1 1)) (Q2Qc (Qmake 10 1)) = Some m.
Proof. eexists. vm_compute. reflexivity. Qed.
