(* Properties/C13.v — C13: Rad and Deg convert, normalise and evaluate trigonometry consistently.
   Statements only; every proof is `exact <lemma>`. *)
From CG Require Import Scalar Model.Angle Exec.ExecQ Proofs.Alg Proofs.RealInst Proofs.Consts Proofs.C13_AngleR Proofs.C13_Float.
From Coq Require Import List QArith Qcanon Reals ZArith.
From Flocq Require Import Core.
Import ListNotations.
Local Close Scope Q_scope.
Local Open Scope R_scope.

(* 1. for every unit with a positive full turn T and every real angle a: normalize(a) is the representative of a
      in [0, T) and normalize_signed(a) the one in (-T/2, T/2], each differing from a by a whole number of turns;
      they are the unique such representatives *)
Theorem C13_normalize : forall U : Unit R, 0 < full_turn U -> forall a,
  (0 <= ang_normalize OpsR U a < full_turn U /\ cong (full_turn U) (ang_normalize OpsR U a) a) /\
  (- (full_turn U / 2) < ang_normalize_signed OpsR U a <= full_turn U / 2 /\ cong (full_turn U) (ang_normalize_signed OpsR U a) a) /\
  (forall r, cong (full_turn U) r a -> 0 <= r < full_turn U -> ang_normalize OpsR U a = r) /\
  (forall r, cong (full_turn U) r a -> - (full_turn U / 2) < r <= full_turn U / 2 -> ang_normalize_signed OpsR U a = r).
Proof.
  intros U HT a.
  exact (conj (conj (normalize_range U HT a) (normalize_cong U a))
        (conj (conj (nsigned_range U HT a) (nsigned_cong U a))
        (conj (normalize_unique U HT a) (nsigned_unique U HT a)))).
Qed.
Print Assumptions C13_normalize.

(* 2. opposite(a) = normalize(a + half turn); bisect(a, b) lies in [0, T), at signed distance -d/2 from a and +d/2
      from b where d = normalize_signed(b - a) is the shortest signed way from a to b: equal distance to both, at most a
      quarter turn from each *)
Theorem C13_opposite_bisect : forall U : Unit R, 0 < full_turn U -> forall a b,
  (ang_opposite OpsR U a = ang_normalize OpsR U (a + full_turn U / 2) /\
   cong (full_turn U) (ang_opposite OpsR U a) (a + full_turn U / 2) /\ 0 <= ang_opposite OpsR U a < full_turn U) /\
  (let m := ang_bisect OpsR U a b in
   let d := ang_normalize_signed OpsR U (b - a) in
   0 <= m < full_turn U /\
   ang_normalize_signed OpsR U (a - m) = - (d / 2) /\ ang_normalize_signed OpsR U (b - m) = d / 2 /\
   Rabs (ang_normalize_signed OpsR U (a - m)) <= full_turn U / 4 /\ Rabs (ang_normalize_signed OpsR U (b - m)) <= full_turn U / 4).
Proof. intros U HT a b. exact (conj (opposite_spec U HT a) (bisect_spec U HT a b)). Qed.
Print Assumptions C13_opposite_bisect.

(* 2'. the formula the code had before the repair (6eacb2d) fails this: Deg(0).bisect(Deg(90)) was 315 deg,
       at signed distances 45 and 135 (not opposite, not within a quarter turn) *)
Theorem C13_bisect_old_refuted :
  let U := UDeg OpsQ in
  let m := ang_bisect_old OpsQ U (qd 0) (qd 90) in
  m = qd 315 /\
  ang_normalize_signed OpsQ U (sub OpsQ (qd 0) m) = qd 45 /\
  ang_normalize_signed OpsQ U (sub OpsQ (qd 90) m) = qd 135.
Proof. exact bisect_old_refuted. Qed.
Print Assumptions C13_bisect_old_refuted.

(* 3. full turns and their fractions: 360 deg, cast(2 pi) rad (within 2.5e-16 of 2 pi), turn_div_k * k = full turn
      (over R, and over any field where cast(k) <> 0) *)
Theorem C13_turns :
  full_turn (UDeg OpsR) = 360 /\ full_turn (URad OpsR) = Q2R q_two_pi /\ Rabs (Q2R q_two_pi - 2 * PI) <= 1 / 4000000000000000 /\
  (forall U : Unit R, turn_div_2 OpsR U * 2 = full_turn U /\ turn_div_3 OpsR U * 3 = full_turn U /\
                      turn_div_4 OpsR U * 4 = full_turn U /\ turn_div_6 OpsR U * 6 = full_turn U) /\
  (forall F (O : Ops F), Field O -> forall (U : Unit F) k, nat_c O k <> zero O ->
     mul O (div O (full_turn U) (nat_c O k)) (nat_c O k) = full_turn U).
Proof. exact (conj full_turn_deg (conj full_turn_rad (conj two_pi_close (conj turn_fractions_R turn_div_mul)))). Qed.
Print Assumptions C13_turns.

(* 4. trigonometry is the real function of the radian measure; the radian measure of Deg(d) is d * cast(pi/180);
      inverse functions return the principal value (ranges and defining equations) converted to the caller's unit *)
Theorem C13_trig : forall (U : Unit R) a d x y,
  (ang_sin TrigR U a = sin (to_rad U a) /\ ang_cos TrigR U a = cos (to_rad U a) /\ ang_tan TrigR U a = tan (to_rad U a) /\
   ang_sin_cos TrigR U a = (sin (to_rad U a), cos (to_rad U a)) /\
   ang_csc OpsR TrigR U a = / sin (to_rad U a) /\ ang_sec OpsR TrigR U a = / cos (to_rad U a) /\
   ang_cot OpsR TrigR U a = / tan (to_rad U a)) /\
  (to_rad (URad OpsR) a = a /\ to_rad (UDeg OpsR) d = d * Q2R q_rad_per_deg /\
   of_rad (URad OpsR) a = a /\ of_rad (UDeg OpsR) a = a * Q2R q_deg_per_rad) /\
  (ang_asin TrigR U x = of_rad U (asin x) /\ ang_acos TrigR U x = of_rad U (acos x) /\
   ang_atan TrigR U x = of_rad U (atan x) /\ ang_atan2 TrigR U y x = of_rad U (Ratan2 y x)) /\
  ((-1 <= x <= 1 -> - PI / 2 <= asin x <= PI / 2 /\ sin (asin x) = x) /\
   (-1 <= x <= 1 -> 0 <= acos x <= PI /\ cos (acos x) = x) /\
   (- PI / 2 < atan x < PI / 2 /\ tan (atan x) = x) /\
   (- PI <= Ratan2 y x <= PI /\
    (x * x + y * y <> 0 -> cos (Ratan2 y x) = x / sqrt (x * x + y * y) /\ sin (Ratan2 y x) = y / sqrt (x * x + y * y)))).
Proof.
  intros U a d x y.
  exact (conj (trig_wiring U a) (conj (rad_measure a d) (conj (inverse_trig U x y) (principal_values x y)))).
Qed.
Print Assumptions C13_trig.

(* the conversion constants are within 1e-17 (relative) of pi/180 and 180/pi *)
Theorem C13_constants :
  Rabs (Q2R q_rad_per_deg - PI / 180) <= 1 / 100000000000000000 /\
  Rabs (Q2R q_deg_per_rad - 180 / PI) <= 1 / 100000000000000.
Proof. exact conv_constants_close. Qed.
Print Assumptions C13_constants.

(* 5. + - * / % and Sum act on the underlying number *)
Theorem C13_arithmetic : forall a b s l,
  (ang_add OpsR a b = a + b /\ ang_sub OpsR a b = a - b /\ ang_neg OpsR a = - a /\ ang_mul_s OpsR a s = a * s /\
   ang_div_s OpsR a s = a / s /\ ang_div OpsR a b = a / b /\ ang_rem OpsR a b = Rrem a b) /\
  ang_sum OpsR l = fold_right Rplus 0 l.
Proof. intros a b s l. exact (conj (arithmetic_R a b s) (ang_sum_R l)). Qed.
Print Assumptions C13_arithmetic.

(* 6. native floats (Flocq: binary64 and binary32, round to nearest even, no overflow, `%` exact):
      Deg -> Rad -> Deg and Rad -> Deg -> Rad return x within 4 machine epsilons (x above the subnormal range) *)
Theorem C13_roundtrip_floats :
  (forall x, bpow radix2 (-1009) <= Rabs x ->
     Rabs (rnd64 (rnd64 (x * deg_per_rad_64) * rad_per_deg_64) - x) <= 4 * bpow radix2 (-52) * Rabs x /\
     Rabs (rnd64 (rnd64 (x * rad_per_deg_64) * deg_per_rad_64) - x) <= 4 * bpow radix2 (-52) * Rabs x) /\
  (forall x, bpow radix2 (-113) <= Rabs x ->
     Rabs (rnd32 (rnd32 (x * deg_per_rad_32) * rad_per_deg_32) - x) <= 4 * bpow radix2 (-23) * Rabs x /\
     Rabs (rnd32 (rnd32 (x * rad_per_deg_32) * deg_per_rad_32) - x) <= 4 * bpow radix2 (-23) * Rabs x).
Proof. exact (conj roundtrip_f64 roundtrip_f32). Qed.
Print Assumptions C13_roundtrip_floats.

(* 7. native floats: for EVERY real input the rounded normalize stays in [0, full turn] (closed: a tiny negative
      input lands on the full turn itself) and normalize_signed in [-half turn, half turn], for both units and types *)
Theorem C13_range_floats : forall a,
  ((0 <= fnormalize (-1074) 53 two_pi_64 a <= two_pi_64) /\ (0 <= fnormalize (-1074) 53 360 a <= 360) /\
   (0 <= fnormalize (-149) 24 two_pi_32 a <= two_pi_32) /\ (0 <= fnormalize (-149) 24 360 a <= 360)) /\
  ((- (two_pi_64 / 2) <= fnormalize_signed (-1074) 53 two_pi_64 a <= two_pi_64 / 2) /\
   (- (360 / 2) <= fnormalize_signed (-1074) 53 360 a <= 360 / 2) /\
   (- (two_pi_32 / 2) <= fnormalize_signed (-149) 24 two_pi_32 a <= two_pi_32 / 2) /\
   (- (360 / 2) <= fnormalize_signed (-149) 24 360 a <= 360 / 2)).
Proof. intros a. exact (conj (normalize_range_floats a) (normalize_signed_range_floats a)). Qed.
Print Assumptions C13_range_floats.

(* the float constants of the theorems are the model's (and, by the correspondence, the implementation's) *)
Theorem C13_float_constants_tied :
  two_pi_64 = Q2R q_two_pi /\ deg_per_rad_64 = Q2R q_deg_per_rad /\ rad_per_deg_64 = Q2R q_rad_per_deg.
Proof. exact float_constants_tied. Qed.
Print Assumptions C13_float_constants_tied.

Example C13_bisect_example :
  let U := UDeg OpsQ in
  ang_bisect OpsQ U (qd 0) (qd 90) = qd 45 /\ ang_bisect OpsQ U (qd 350) (qd 20) = qd 5 /\ ang_bisect OpsQ U (qd 10) (qd 200) = qd 285.
Proof. vm_compute. repeat split; reflexivity. Qed.
Example C13_positive_turns : 0 < full_turn (UDeg OpsR) /\ 0 < full_turn (URad OpsR).
Proof. exact full_turns_pos. Qed.
