(* Properties/C06.v — C06: angle and axis-angle constructors give proper right-handed rotations.
   Statements only; every proof is `exact <lemma>`.
   rodrigues a v s c = v c + (a x v) s + a (a.v)(1 - c);  sn/cs U t = the scalar type's sin/cos of
   the radian measure of t (t in the unit U: Rad or Deg). *)

From CG Require Import Scalar Model.Vector Model.Point Model.Matrix Model.Angle Model.Quaternion Model.Metric Model.Rotation
                       Exec.ExecQ Proofs.Alg Proofs.RealInst Proofs.NsatzField Proofs.C02_Inverse Proofs.C04_Quat
                       Proofs.C06_Angle Proofs.C06_AngleR.
From Coq Require Import List Ring Field QArith Qcanon Reals.
Import ListNotations.
Local Close Scope Q_scope.
Local Close Scope R_scope.

(* 1. algebra: for EVERY field and every value the scalar type returns for (sin, cos): the matrix forms
      satisfy Rodrigues' formula for any axis; from_angle_x/y/z are from_axis_angle about the unit axes *)
Theorem C06_rodrigues_any_field : forall F (O : Ops F) (T : Trig F) (U : Unit F), Field O -> EqDec O -> OfQHom O ->
  (forall a t v, m3_mul_v O (m3_from_axis_angle O T U a t) v = rodrigues O a v (sn T U t) (cs T U t)) /\
  (forall a t v, m4_transform_vector O (m4_from_axis_angle O T U a t) v = rodrigues O a v (sn T U t) (cs T U t) /\
                 m4_from_axis_angle O T U a t = m4_of_m3 O (m3_from_axis_angle O T U a t)) /\
  (forall a t v, basis3_rotate_vector O (basis3_from_axis_angle O T U a t) v = rodrigues O a v (sn T U t) (cs T U t)) /\
  (forall a t v, v3_magnitude2 O a = one O ->
     add O (mul O (snh O T U t) (snh O T U t)) (mul O (csh O T U t) (csh O T U t)) = one O ->
     quat_mul_v O (quat_from_axis_angle O T U a t) v
     = rodrigues O a v (mul O (mul O (add O (one O) (one O)) (snh O T U t)) (csh O T U t))
                       (sub O (mul O (csh O T U t) (csh O T U t)) (mul O (snh O T U t) (snh O T U t)))) /\
  (forall t,
    m3_from_angle_x O T U t = m3_from_axis_angle O T U (v3_unit_x O) t /\
    m3_from_angle_y O T U t = m3_from_axis_angle O T U (v3_unit_y O) t /\
    m3_from_angle_z O T U t = m3_from_axis_angle O T U (v3_unit_z O) t /\
    m4_from_angle_x O T U t = m4_from_axis_angle O T U (v3_unit_x O) t /\
    m4_from_angle_y O T U t = m4_from_axis_angle O T U (v3_unit_y O) t /\
    m4_from_angle_z O T U t = m4_from_axis_angle O T U (v3_unit_z O) t /\
    quat_from_angle_x O T U t = quat_from_axis_angle O T U (v3_unit_x O) t /\
    quat_from_angle_y O T U t = quat_from_axis_angle O T U (v3_unit_y O) t /\
    quat_from_angle_z O T U t = quat_from_axis_angle O T U (v3_unit_z O) t).
Proof.
  intros F O T U H D Q.
  exact (conj (m3_axis_angle_rodrigues H D Q T U) (conj (m4_axis_angle_rodrigues H D Q T U)
        (conj (basis3_axis_angle_rodrigues H D Q T U) (conj (quat_axis_angle_rodrigues H D Q T U) (from_angle_xyz_are_axis H D Q T U))))).
Qed.
Print Assumptions C06_rodrigues_any_field.

(* 2. over the reals, for angles in any unit U (in particular radians URad and degrees UDeg): every unit axis a, angle t, vector v *)
Theorem C06_rodrigues : forall (U : Unit R) a t v, v3_magnitude2 OpsR a = 1%R ->
  let r := rodrigues OpsR a v (sn TrigR U t) (cs TrigR U t) in
  m3_mul_v OpsR (m3_from_axis_angle OpsR TrigR U a t) v = r /\
  m4_transform_vector OpsR (m4_from_axis_angle OpsR TrigR U a t) v = r /\
  basis3_rotate_vector OpsR (basis3_from_axis_angle OpsR TrigR U a t) v = r /\
  quat_mul_v OpsR (quat_from_axis_angle OpsR TrigR U a t) v = r.
Proof. exact axis_angle_rodrigues_R. Qed.
Print Assumptions C06_rodrigues.

Theorem C06_units : additive (URad OpsR) /\ additive (UDeg OpsR) /\
  forall t : R, sn TrigR (URad OpsR) t = Rtrigo_def.sin t /\ cs TrigR (URad OpsR) t = Rtrigo_def.cos t /\
       sn TrigR (UDeg OpsR) t = Rtrigo_def.sin (t * Q2R q_rad_per_deg)%R /\
       cs TrigR (UDeg OpsR) t = Rtrigo_def.cos (t * Q2R q_rad_per_deg)%R.
Proof. exact (conj additive_rad (conj additive_deg sn_cs_units)). Qed.
Print Assumptions C06_units.

(* 3. so it fixes a, is orthonormal with determinant +1 (and the quaternion is unit) *)
Theorem C06_proper_rotation : forall (U : Unit R) a t, v3_magnitude2 OpsR a = 1%R ->
  m3_mul_v OpsR (m3_from_axis_angle OpsR TrigR U a t) a = a /\
  m3_mul OpsR (m3_from_axis_angle OpsR TrigR U a t) (m3_transpose (m3_from_axis_angle OpsR TrigR U a t)) = m3_identity OpsR /\
  m3_determinant OpsR (m3_from_axis_angle OpsR TrigR U a t) = 1%R /\
  quat_magnitude2 OpsR (quat_from_axis_angle OpsR TrigR U a t) = 1%R.
Proof. exact axis_angle_rotation_R. Qed.
Print Assumptions C06_proper_rotation.

(* 4. angles add under composition about a common axis (3-D matrix, quaternion, 2-D) *)
Theorem C06_angles_add : forall U : Unit R, additive U -> forall a t1 t2, v3_magnitude2 OpsR a = 1%R ->
  m3_mul OpsR (m3_from_axis_angle OpsR TrigR U a t1) (m3_from_axis_angle OpsR TrigR U a t2)
    = m3_from_axis_angle OpsR TrigR U a (t1 + t2)%R /\
  quat_mul OpsR (quat_from_axis_angle OpsR TrigR U a t1) (quat_from_axis_angle OpsR TrigR U a t2)
    = quat_from_axis_angle OpsR TrigR U a (t1 + t2)%R /\
  m2_mul OpsR (m2_from_angle OpsR TrigR U t1) (m2_from_angle OpsR TrigR U t2) = m2_from_angle OpsR TrigR U (t1 + t2)%R.
Proof. exact axis_angle_add_R. Qed.
Print Assumptions C06_angles_add.

(* 5. 2-D: Matrix2/Basis2::from_angle(t) maps (1,0) to (cos t, sin t) and (0,1) to (-sin t, cos t) *)
Theorem C06_from_angle_2d : forall (U : Unit R) t,
  m2_mul_v OpsR (m2_from_angle OpsR TrigR U t) (v2_unit_x OpsR) = mkV2 (cs TrigR U t) (sn TrigR U t) /\
  m2_mul_v OpsR (m2_from_angle OpsR TrigR U t) (v2_unit_y OpsR) = mkV2 (- sn TrigR U t)%R (cs TrigR U t) /\
  basis2_from_angle OpsR TrigR U t = m2_from_angle OpsR TrigR U t /\
  m2_mul OpsR (m2_from_angle OpsR TrigR U t) (m2_transpose (m2_from_angle OpsR TrigR U t)) = m2_identity OpsR /\
  m2_determinant OpsR (m2_from_angle OpsR TrigR U t) = 1%R.
Proof. exact from_angle_2d_R. Qed.
Print Assumptions C06_from_angle_2d.

(* 6. every rotation r satisfies r * invert(r) = one() and rotate_point(p) = rotate_vector(p - origin) *)
Theorem C06_invert_and_points : forall F (O : Ops F), Field O -> EqDec O -> OfQHom O -> EqbSpec O ->
  (forall q, quat_magnitude2 O q <> zero O ->
     quat_mul O q (quat_invert O q) = quat_one O /\ quat_mul O (quat_invert O q) q = quat_one O) /\
  (forall b b', basis3_invert O b = Some b' -> basis3_mul O b b' = basis3_one O /\ basis3_mul O b' b = basis3_one O) /\
  (forall b b', basis2_invert O b = Some b' -> basis2_mul O b b' = basis2_one O /\ basis2_mul O b' b = basis2_one O) /\
  (forall (b2 : M2 F) (b3 : M3 F) p2' p3',
     basis2_rotate_point O b2 p2' = p2_from_vec (basis2_rotate_vector O b2 (p2_sub_p O p2' (p2_origin O))) /\
     basis3_rotate_point O b3 p3' = p3_from_vec (basis3_rotate_vector O b3 (p3_sub_p O p3' (p3_origin O)))) /\
  (forall q p, quat_rotate_point O q p = p3_from_vec (quat_rotate_vector O q (p3_to_vec p))).
Proof.
  intros F O H D Q E.
  exact (conj (quat_invert_spec O H) (conj (m3_invert_spec H E) (conj (m2_invert_spec H E)
        (conj (rotate_point_defs H D Q) (fun q p => eq_refl))))).
Qed.
Print Assumptions C06_invert_and_points.

Example C06_hyps_Qc : Field OpsQ /\ EqDec OpsQ /\ OfQHom OpsQ /\ EqbSpec OpsQ.
Proof. exact (conj Field_Qc (conj EqDec_Qc (conj OfQHom_Qc EqbSpec_Qc))). Qed.
Example C06_unit_axis : v3_magnitude2 OpsR (mkV3 (1/3) (2/3) (2/3))%R = 1%R.
Proof. unfold v3_magnitude2, v3_dot, v3_sum, v3_mul_ew, v3_zip; simpl. field. Qed.
