(* Properties/C17.v — C17: every spelling of an operator computes the same value.
   Statements only; every proof is `exact <lemma>`. *)
From Coq Require Import List.
From CG Require Import Scalar Model.Vector Model.Point Model.Matrix Model.Angle Model.Quaternion Model.Program
                       Proofs.C03_Vector Proofs.C17_Forms.
Import ListNotations.

(* 1. the compound-assignment bodies compute what the by-value / by-reference body computes *)
Theorem C17_assign_eq_value : forall F (O : Ops F),
  (forall o a b, vv_a O o a b = vv O o a b) /\ (forall o a s, vs_a O o a s = vs O o a s) /\
  (forall o a b, pv_a O o a b = pv O o a b) /\ (forall o a s, ps_a O o a s = ps O o a s) /\
  (forall o a b, mm_a O o a b = mm O o a b) /\ (forall o a s, ms_a O o a s = ms O o a s) /\
  (forall o a b, qq_a O o a b = qq O o a b) /\ (forall o a s, qs_a O o a s = qsc O o a s).
Proof. exact assign_bodies. Qed.
Print Assumptions C17_assign_eq_value.

(* 2. any straight-line program, of any length, gives the same answer whichever forms it is written with *)
Theorem C17_forms_irrelevant : forall F (O : Ops F) (p : list instr) (e : env F),
  run_forms O p e = run_ref O p e.
Proof. exact forms_irrelevant. Qed.
Print Assumptions C17_forms_irrelevant.
Theorem C17_same_program_modulo_forms : forall F (O : Ops F) (p q : list instr) (e : env F),
  erase p = erase q -> run_forms O p e = run_forms O q e.
Proof. exact forms_irrelevant2. Qed.
Print Assumptions C17_same_program_modulo_forms.

(* 3. scalar*value, scalar/value, scalar%value apply the primitive operation to each component with the scalar on the left *)
Theorem C17_scalar_left : forall F (O : Ops F) s v,
  v3_list (v3_smul O s v) = map (fun c => mul O s c) (v3_list v) /\
  v3_list (v3_sdiv O s v) = map (fun c => div O s c) (v3_list v) /\
  v3_list (v3_srem O s v) = map (fun c => rem O s c) (v3_list v) /\
  (forall v4, v4_list (v4_smul O s v4) = map (fun c => mul O s c) (v4_list v4) /\
              v4_list (v4_sdiv O s v4) = map (fun c => div O s c) (v4_list v4) /\
              v4_list (v4_srem O s v4) = map (fun c => rem O s c) (v4_list v4)) /\
  (forall v2, v2_list (v2_smul O s v2) = map (fun c => mul O s c) (v2_list v2) /\
              v2_list (v2_sdiv O s v2) = map (fun c => div O s c) (v2_list v2) /\
              v2_list (v2_srem O s v2) = map (fun c => rem O s c) (v2_list v2)) /\
  (forall p, p3_list (p3_smul O s p) = map (fun c => mul O s c) (p3_list p) /\
             p3_list (p3_sdiv O s p) = map (fun c => div O s c) (p3_list p) /\
             p3_list (p3_srem O s p) = map (fun c => rem O s c) (p3_list p)) /\
  (forall m, m3_list (m3_smul O s m) = map (fun c => mul O s c) (m3_list m) /\
             m3_list (m3_sdiv O s m) = map (fun c => div O s c) (m3_list m) /\
             m3_list (m3_srem O s m) = map (fun c => rem O s c) (m3_list m)) /\
  (forall m, m4_list (m4_smul O s m) = map (fun c => mul O s c) (m4_list m) /\
             m4_list (m4_sdiv O s m) = map (fun c => div O s c) (m4_list m)) /\
  (forall q, quat_sxyz (quat_smul O s q) = map (fun c => mul O s c) (quat_sxyz q) /\
             quat_sxyz (quat_sdiv O s q) = map (fun c => div O s c) (quat_sxyz q)).
Proof. exact scalar_left_spec. Qed.
Print Assumptions C17_scalar_left.

(* 4. Sum and Product over an iterator equal the left fold with + from zero() and with * from one() *)
Theorem C17_sum_product : forall F (O : Ops F),
  (forall l, v3_sum_iter O l = fold_left (v3_add O) l (v3_zero O)) /\
  (forall l, quat_sum_iter O l = fold_left (quat_add O) l (quat_zero O)) /\
  (forall l, m3_sum_iter O l = fold_left (m3_add O) l (m3_zero O)) /\
  (forall l, m3_product_iter O l = fold_left (m3_mul O) l (m3_identity O)) /\
  (forall l, quat_product_iter O l = fold_left (quat_mul O) l (quat_one O)).
Proof. exact sum_product_folds. Qed.
Print Assumptions C17_sum_product.

(* 5. (vectors, all dimensions) the compound-assignment forms equal the value forms: C03_assign_forms *)
Theorem C17_vector_assign_forms : forall F (O : Ops F),
  (forall a b, v4_add_assign O a b = v4_add O a b) /\ (forall a b, v4_sub_assign O a b = v4_sub O a b) /\
  (forall a s, v4_mul_assign O a s = v4_mul_s O a s) /\ (forall a s, v4_div_assign O a s = v4_div_s O a s) /\
  (forall a s, v4_rem_assign O a s = v4_rem_s O a s).
Proof. intros F O. repeat split. Qed.
Print Assumptions C17_vector_assign_forms.
