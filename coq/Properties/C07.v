(* Properties/C07.v — C07: Euler angles mean intrinsic X-Y-Z everywhere and round-trip via quaternions.
   Statements only; every proof is `exact <lemma>`. *)

From CG Require Import Scalar Model.Vector Model.Point Model.Matrix Model.Angle Model.Quaternion Model.Metric Model.Rotation Model.Euler
                       Exec.ExecQ Proofs.Alg Proofs.RealInst Proofs.C07_Euler Proofs.C07_EulerR Proofs.C07_Consts Proofs.C07_GimbalR.
From Coq Require Import List Ring Field QArith Qcanon Reals.
Import ListNotations.
Local Close Scope Q_scope.
Local Close Scope R_scope.

(* 1. for all angles (any unit U, any values of the scalar's sin/cos): Matrix3, Matrix4, Basis3 and
      Quaternion built from Euler{x,y,z} equal from_angle_x(x) * from_angle_y(y) * from_angle_z(z) *)
Theorem C07_intrinsic_xyz : forall F (O : Ops F) (T : Trig F) (U : Unit F), CRing O -> OfQHom O ->
  (forall e, m3_of_euler O T U e
     = m3_mul O (m3_mul O (m3_from_angle_x O T U (ex e)) (m3_from_angle_y O T U (ey e))) (m3_from_angle_z O T U (ez e))) /\
  (forall e, m4_of_euler O T U e
     = m4_mul O (m4_mul O (m4_from_angle_x O T U (ex e)) (m4_from_angle_y O T U (ey e))) (m4_from_angle_z O T U (ez e)) /\
     m4_of_euler O T U e = m4_of_m3 O (m3_of_euler O T U e)) /\
  (forall e, basis3_of_euler O T U e
     = basis3_mul O (basis3_mul O (basis3_from_angle_x O T U (ex e)) (basis3_from_angle_y O T U (ey e)))
                    (basis3_from_angle_z O T U (ez e))) /\
  (forall e, quat_of_euler O T U e
     = quat_mul O (quat_mul O (quat_from_angle_x O T U (ex e)) (quat_from_angle_y O T U (ey e))) (quat_from_angle_z O T U (ez e))).
Proof.
  intros F O T U H Q.
  exact (conj (m3_of_euler_xyz H Q T U) (conj (m4_of_euler_xyz H Q T U) (conj (basis3_of_euler_xyz H Q T U) (quat_of_euler_xyz H Q T U)))).
Qed.
Print Assumptions C07_intrinsic_xyz.

(* 2. for every unit quaternion q with |qx qz + qy qw| <= cast(0.499) (i.e. |sin y| <= 0.998 up to the f64
      rounding of the literal): the extracted angles lie in the documented ranges and rebuild q's rotation exactly *)
Theorem C07_extract_regular : forall q : Quat R, quat_magnitude2 OpsR q = 1%R ->
  (- sig <= gimbal_test q <= sig)%R ->
  let e := euler_of_quat OpsR TrigR q in
  ((- PI <= ex e <= PI)%R /\ (- PI / 2 <= ey e <= PI / 2)%R /\ (- PI <= ez e <= PI)%R) /\
  m3_of_euler OpsR TrigR (URad OpsR) e = m3_of_quat OpsR q.
Proof. exact euler_extract_regular. Qed.
Print Assumptions C07_extract_regular.

(* 3. inside the remaining gimbal-lock cone x is reported as 0 and y as +- a quarter turn *)
Theorem C07_extract_gimbal : forall q : Quat R, quat_magnitude2 OpsR q = 1%R ->
  ((sig < gimbal_test q)%R ->
     euler_of_quat OpsR TrigR q = mkEuler 0%R quarter_turn (Ratan2 (v3x (qv q)) (qs q) * 2)%R) /\
  ((gimbal_test q < - sig)%R ->
     euler_of_quat OpsR TrigR q = mkEuler 0%R (- quarter_turn)%R (- Ratan2 (v3x (qv q)) (qs q) * 2)%R).
Proof. exact euler_extract_gimbal. Qed.
Print Assumptions C07_extract_gimbal.

(* 3b. ... and the rotation rebuilt from the reported angles matches q's rotation to within 0.13 in every matrix element
       (both cones; the true worst case is sqrt(1 - 0.998^2) ~ 0.0633 plus second-order terms, all below 0.071) *)
Theorem C07_gimbal_bound : forall q : Quat R, quat_magnitude2 OpsR q = 1%R ->
  ((sig < gimbal_test q)%R \/ (gimbal_test q < - sig)%R) ->
  List.Forall2 (fun a b : R => (Rabs (a - b) <= 13 / 100)%R)
    (m3_list (m3_of_euler OpsR TrigR (URad OpsR) (euler_of_quat OpsR TrigR q))) (m3_list (m3_of_quat OpsR q)).
Proof. exact euler_gimbal_bound. Qed.
Print Assumptions C07_gimbal_bound.
Example C07_gimbal_cone_inhabited :
  quat_magnitude2 OpsR (quat_new (70/99) (1/99) (70/99) 0)%R = 1%R /\ (sig < gimbal_test (quat_new (70/99) (1/99) (70/99) 0))%R.
Proof. exact gimbal_cone_inhabited. Qed.

Theorem C07_threshold_and_quarter_turn :
  (0 < sig < 499 / 1000)%R /\ (Rabs (quarter_turn - PI / 2) <= 1 / 10000000000000000)%R.
Proof. exact (conj sig_bounds quarter_turn_close). Qed.
Print Assumptions C07_threshold_and_quarter_turn.

Example C07_hyps_Qc : CRing OpsQ /\ OfQHom OpsQ.  Proof. exact (conj CRing_Qc OfQHom_Qc). Qed.
Example C07_regular_inhabited : (- sig <= gimbal_test (quat_new 1 0 0 0) <= sig)%R /\ quat_magnitude2 OpsR (quat_new 1 0 0 0)%R = 1%R.
Proof. exact regular_inhabited. Qed.
