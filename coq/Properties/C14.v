(* Properties/C14.v — C14: lerp, nlerp and slerp interpolate with exact endpoints along the shortest path.
   Statements only; every proof is `exact <lemma>`. *)
From CG Require Import Scalar Model.Vector Model.Point Model.Matrix Model.Angle Model.Quaternion Model.Metric Exec.ExecQ
                       Proofs.Alg Proofs.RealInst Proofs.C03_Vector Proofs.C14_InterpR.
From Coq Require Import List QArith Qcanon Reals.
Local Close Scope Q_scope.
Local Open Scope R_scope.
Local Notation O := OpsR.
Local Notation T := TrigR.

(* 1. lerp(a, b, t) = a + (b - a) t, a at 0 and b at 1: vectors 1-4 and quaternions over any commutative ring *)
Theorem C14_lerp : forall F (P : Ops F), CRing P ->
  (forall (a b : Quat F) t, quat_lerp P a b t = quat_add P a (quat_mul_s P (quat_sub P b a) t) /\
                            quat_lerp P a b (zero P) = a /\ quat_lerp P a b (one P) = b) /\
  ((forall (a b : V1 F) t, v1_lerp P a b t = v1_add P a (v1_mul_s P (v1_sub P b a) t)) /\
   (forall (a b : V2 F) t, v2_lerp P a b t = v2_add P a (v2_mul_s P (v2_sub P b a) t)) /\
   (forall (a b : V3 F) t, v3_lerp P a b t = v3_add P a (v3_mul_s P (v3_sub P b a) t)) /\
   (forall (a b : V4 F) t, v4_lerp P a b t = v4_add P a (v4_mul_s P (v4_sub P b a) t))) /\
  (forall (a b : V1 F), v1_lerp P a b (zero P) = a /\ v1_lerp P a b (one P) = b) /\
  (forall (a b : V2 F), v2_lerp P a b (zero P) = a /\ v2_lerp P a b (one P) = b) /\
  (forall (a b : V3 F), v3_lerp P a b (zero P) = a /\ v3_lerp P a b (one P) = b) /\
  (forall (a b : V4 F), v4_lerp P a b (zero P) = a /\ v4_lerp P a b (one P) = b).
Proof.
  intros F P H.
  exact (conj (quat_lerp_spec F P H) (conj (vec_lerp_spec F P)
        (conj (v1_lerp_ends P H) (conj (v2_lerp_ends P H) (conj (v3_lerp_ends P H) (v4_lerp_ends P H)))))).
Qed.
Print Assumptions C14_lerp.

(* b' = b or -b, whichever has non-negative dot product with a (the shorter arc) *)
Theorem C14_shorter_arc : forall a b : Quat R, quat_magnitude2 O b = 1 ->
  quat_magnitude2 O (flip a b) = 1 /\ quat_dot O a (flip a b) = Rabs (quat_dot O a b) /\ 0 <= quat_dot O a (flip a b) /\
  (flip a b = b \/ flip a b = quat_neg O b).
Proof. exact flip_props. Qed.
Print Assumptions C14_shorter_arc.

(* 2. nlerp, unit a and b, t in [0,1]: a unit quaternion, a non-negative combination of a and b' (in their plane, on the
      arc between them), equal to a at 0 and to b' = +-b at 1 *)
Theorem C14_nlerp : forall a b : Quat R, quat_magnitude2 O a = 1 -> quat_magnitude2 O b = 1 -> forall t, 0 <= t <= 1 ->
  let b' := flip a b in
  let r := quat_nlerp O T a b t in
  quat_magnitude2 O r = 1 /\
  (exists x y, 0 <= x /\ 0 <= y /\ r = lc a b' x y) /\
  (t = 0 -> r = a) /\ (t = 1 -> r = b').
Proof. exact nlerp_spec. Qed.
Print Assumptions C14_nlerp.

(* 3. slerp in the exact region |a.b| <= cast(0.9995): unit, on the arc between a and b', a at 0 and b' at 1, and
      constant angular speed: a . slerp(t) = cos(t theta), i.e. the arc from a to slerp(t) is t times the whole arc
      theta = acos|a.b| *)
Theorem C14_slerp_exact : forall a b : Quat R, quat_magnitude2 O a = 1 -> quat_magnitude2 O b = 1 -> forall t, 0 <= t <= 1 ->
  let b' := flip a b in
  let d := quat_dot O a b' in
  d <= thr ->
  let th := acos d in
  let r := quat_slerp O T a b t in
  quat_magnitude2 O r = 1 /\
  (exists x y, 0 <= x /\ 0 <= y /\ r = lc a b' x y) /\
  (t = 0 -> r = a) /\ (t = 1 -> r = b') /\
  quat_dot O a r = cos (t * th) /\ acos (quat_dot O a r) = t * th /\ 0 < th <= PI / 2.
Proof. exact slerp_exact. Qed.
Print Assumptions C14_slerp_exact.

(* 4. beyond the threshold slerp hands over to nlerp on the same arc (unit, on the arc, exact endpoints), and the arc
      from a to the result is within 1e-5 rad of t times the whole arc *)
Theorem C14_slerp_near : forall a b : Quat R, quat_magnitude2 O a = 1 -> quat_magnitude2 O b = 1 -> forall t, 0 <= t <= 1 ->
  let b' := flip a b in
  thr < quat_dot O a b' ->
  let r := quat_slerp O T a b t in
  (r = quat_nlerp O T a b' t /\ flip a b' = b' /\
   quat_magnitude2 O r = 1 /\ (exists x y, 0 <= x /\ 0 <= y /\ r = lc a b' x y) /\ (t = 0 -> r = a) /\ (t = 1 -> r = b')) /\
  Rabs (acos (quat_dot O a r) - t * acos (quat_dot O a b')) <= 1 / 100000.
Proof.
  intros a b Ha Hb t Ht b' Hd r.
  exact (conj (slerp_near a b Ha Hb t Ht Hd) (slerp_near_bound a b Ha Hb t Ht Hd)).
Qed.
Print Assumptions C14_slerp_near.

(* the threshold the code compares with: cast(0.9995f64), between 0.9995 and 1 *)
Theorem C14_threshold : 9995 / 10000 <= thr < 1 /\ thr = Q2R q_09995.
Proof. exact (conj thr_bounds eq_refl). Qed.
Print Assumptions C14_threshold.

Example C14_units_exist : quat_magnitude2 O (quat_new 1 0 0 0) = 1 /\ quat_magnitude2 O (quat_new 0 1 0 0) = 1 /\
  quat_dot O (quat_new 1 0 0 0) (flip (quat_new 1 0 0 0) (quat_new 0 1 0 0)) <= thr.
Proof. exact units_example. Qed.
