(* Properties/C19.v — C19: numeric cast of compound values is all-or-nothing and component-faithful.
   Statements only; every proof is `exact <lemma>`.  sc : S -> option T is an ARBITRARY scalar cast. *)
From Coq Require Import List.
From CG Require Import Scalar Model.Vector Model.Point Model.Matrix Model.Quaternion Model.Cast Proofs.C19_Cast.
Import ListNotations.

(* 1. cast() of every compound type = "convert every component, in position; succeed iff all succeed" *)
Theorem C19_cast_is_all_some : forall (S T : Type) (sc : S -> option T),
  (forall v, omap (@v1_list T) (v1_cast sc v) = all_some (map sc (v1_list v))) /\
  (forall v, omap (@v2_list T) (v2_cast sc v) = all_some (map sc (v2_list v))) /\
  (forall v, omap (@v3_list T) (v3_cast sc v) = all_some (map sc (v3_list v))) /\
  (forall v, omap (@v4_list T) (v4_cast sc v) = all_some (map sc (v4_list v))) /\
  (forall v, omap (@p1_list T) (p1_cast sc v) = all_some (map sc (p1_list v))) /\
  (forall v, omap (@p2_list T) (p2_cast sc v) = all_some (map sc (p2_list v))) /\
  (forall v, omap (@p3_list T) (p3_cast sc v) = all_some (map sc (p3_list v))) /\
  (forall m, omap (@m2_list T) (m2_cast sc m) = all_some (map sc (m2_list m))) /\
  (forall m, omap (@m3_list T) (m3_cast sc m) = all_some (map sc (m3_list m))) /\
  (forall m, omap (@m4_list T) (m4_cast sc m) = all_some (map sc (m4_list m))) /\
  (forall q, omap (@quat_sxyz T) (quat_cast sc q) = all_some (map sc (quat_sxyz q))).
Proof.
  intros S T sc.
  exact (conj (v1_cast_spec sc) (conj (v2_cast_spec sc) (conj (v3_cast_spec sc) (conj (v4_cast_spec sc)
        (conj (p1_cast_spec sc) (conj (p2_cast_spec sc) (conj (p3_cast_spec sc)
        (conj (m2_cast_spec sc) (conj (m3_cast_spec sc) (conj (m4_cast_spec sc) (quat_cast_spec sc))))))))))).
Qed.
Print Assumptions C19_cast_is_all_some.

(* 2. all_some is None iff at least one component's scalar cast fails; otherwise the i-th result is the cast of the i-th component *)
Theorem C19_all_or_nothing : forall (T : Type),
  (forall l : list (option T), all_some l = None <-> exists i, nth_error l i = Some None) /\
  (forall (l : list (option T)) r, all_some l = Some r ->
     length r = length l /\ forall i, nth_error l i = omap (@Some T) (nth_error r i)).
Proof. intros T. exact (conj (@all_some_none T) (@all_some_some T)). Qed.
Print Assumptions C19_all_or_nothing.

Example C19_example : v3_cast (fun n : nat => if Nat.leb n 5 then Some n else None) (mkV3 1 9 3) = None /\
                      v3_cast (fun n : nat => if Nat.leb n 5 then Some n else None) (mkV3 1 4 3) = Some (mkV3 1 4 3).
Proof. split; reflexivity. Qed.
