(* Properties/C20.v — C20: serialized values round-trip exactly and keep their field structure.
   Statements only; every proof is `exact <lemma>`.  L is the (opaque) leaf scalar type: the round trip
   returns the very same leaves, i.e. bit-for-bit equality for floats. *)
From Coq Require Import List String Bool Permutation.
From CG Require Import Scalar Model.Vector Model.Point Model.Matrix Model.Quaternion Model.Euler Model.Transform Model.Serde Proofs.C20_Serde.
Import ListNotations.
Open Scope string_scope.

(* 1. serializing then deserializing yields the original value, for every serialisable type *)
Theorem C20_roundtrip : forall L : Type,
  (forall v : V1 L, de_v1 (ser_v1 v) = Some v) /\ (forall v : V2 L, de_v2 (ser_v2 v) = Some v) /\
  (forall v : V3 L, de_v3 (ser_v3 v) = Some v) /\ (forall v : V4 L, de_v4 (ser_v4 v) = Some v) /\
  (forall v : P1 L, de_p1 (ser_p1 v) = Some v) /\ (forall v : P2 L, de_p2 (ser_p2 v) = Some v) /\
  (forall v : P3 L, de_p3 (ser_p3 v) = Some v) /\
  (forall m : M2 L, de_m2 (ser_m2 m) = Some m) /\ (forall m : M3 L, de_m3 (ser_m3 m) = Some m) /\
  (forall m : M4 L, de_m4 (ser_m4 m) = Some m) /\ (forall q : Quat L, de_quat (ser_quat q) = Some q) /\
  (forall a : L, de_newtype (ser_rad a) = Some a) /\ (forall a : L, de_newtype (ser_deg a) = Some a) /\
  (forall e : Euler L, de_euler (ser_euler (@ser_rad L) e) = Some e) /\ (forall e : Euler L, de_euler (ser_euler (@ser_deg L) e) = Some e) /\
  (forall b : M2 L, de_basis2 (ser_basis2 b) = Some b) /\ (forall b : M3 L, de_basis3 (ser_basis3 b) = Some b).
Proof. exact roundtrip_all. Qed.
Print Assumptions C20_roundtrip.

(* 2. the serialized structure names the components by their public field names; angles are bare numbers *)
Theorem C20_field_names : forall (L : Type) (v1' : V1 L) (v2' : V2 L) (v3' : V3 L) (v4' : V4 L) (m : M4 L) (q : Quat L) (e : Euler L) (b : M3 L)
      (d : Decomposed L (Quat L) (V3 L)) (a : L),
  field_names (ser_v1 v1') = ["x"] /\ field_names (ser_v2 v2') = ["x"; "y"] /\ field_names (ser_v3 v3') = ["x"; "y"; "z"] /\
  field_names (ser_v4 v4') = ["x"; "y"; "z"; "w"] /\ field_names (ser_m4 m) = ["x"; "y"; "z"; "w"] /\
  field_names (ser_quat q) = ["v"; "s"] /\ field_names (ser_euler (@ser_rad L) e) = ["x"; "y"; "z"] /\
  field_names (ser_basis3 b) = ["mat"] /\ field_names (ser_dec (@ser_quat L) (@ser_v3 L) d) = ["scale"; "rot"; "disp"] /\
  ser_rad a = SNewtype "Rad" (SLeaf a) /\ ser_deg a = SNewtype "Deg" (SLeaf a) /\
  field_names (ser_perspective_fov a a a a) = ["fovy"; "aspect"; "near"; "far"] /\
  field_names (ser_box "Perspective" a a a a a a) = ["left"; "right"; "bottom"; "top"; "near"; "far"] /\
  field_names (ser_planar_fov a a a a a) = ["fovy"; "aspect"; "height"; "near"; "far"].
Proof. exact field_names_all. Qed.
Print Assumptions C20_field_names.

(* 3. Decomposed (hand-written impls), for any rotation / vector types that round-trip:
      round trip; accepted with its three fields in ANY order; rejected when a field is missing or an unknown one is present *)
Theorem C20_decomposed : forall (L R V : Type) (sr : R -> sval L) (dr : sval L -> option R) (sv : V -> sval L) (dv : sval L -> option V),
  (forall r, dr (sr r) = Some r) -> (forall v, dv (sv v) = Some v) ->
  (forall d, de_dec dr dv (ser_dec sr sv d) = Some d) /\
  (forall d kvs, Permutation kvs [("scale", SLeaf (d_scale d)); ("rot", sr (d_rot d)); ("disp", sv (d_disp d))] ->
     de_dec_entries dr dv kvs = Some d) /\
  (forall kvs n, (n = "scale" \/ n = "rot" \/ n = "disp") -> ~ In n (keys kvs) -> de_dec_entries dr dv kvs = None) /\
  (forall kvs k, In k (keys kvs) -> k <> "scale" -> k <> "rot" -> k <> "disp" -> de_dec_entries dr dv kvs = None).
Proof.
  intros L R V sr dr sv dv Hr Hv.
  exact (conj (dec_roundtrip sr dr sv dv Hr Hv) (conj (dec_any_order sr dr sv dv Hr Hv)
        (conj (@dec_missing_rejected L R V dr dv) (@dec_unknown_rejected L R V dr dv)))).
Qed.
Print Assumptions C20_decomposed.

Example C20_decomposed_instance : forall L (q : Quat L) (v : V3 L), de_quat (ser_quat q) = Some q /\ de_v3 (ser_v3 v) = Some v.
Proof. intros L [[? ? ?] ?] [? ? ?]. split; reflexivity. Qed.
