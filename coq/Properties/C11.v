(* Properties/C11.v — C11: magnitude, distance, normalisation, angle and projection are consistent.
   Statements only; every proof is `exact <lemma>`.  Scalars are the reals (sqrt / acos / atan2 of the standard
   library; atan2 as characterised in Proofs/RealInst.v); project_on over any field. *)
From CG Require Import Scalar Model.Vector Model.Point Model.Quaternion Model.Metric Exec.ExecQ
                       Proofs.Alg Proofs.RealInst Proofs.C11_MetricR.
From Coq Require Import List QArith Qcanon Reals.
Import ListNotations.
Local Close Scope Q_scope.
Local Open Scope R_scope.
Local Notation O := OpsR.
Local Notation T := TrigR.

(* 1. magnitude(v)^2 = magnitude2(v) >= 0 (and magnitude >= 0), vectors 1-4 and quaternions *)
Theorem C11_magnitude : forall (v1 : V1 R) (v2 : V2 R) (v3 : V3 R) (v4 : V4 R) (q : Quat R),
  (v1_magnitude O T v1 * v1_magnitude O T v1 = v1_magnitude2 O v1 /\ 0 <= v1_magnitude2 O v1 /\ 0 <= v1_magnitude O T v1) /\
  (v2_magnitude O T v2 * v2_magnitude O T v2 = v2_magnitude2 O v2 /\ 0 <= v2_magnitude2 O v2 /\ 0 <= v2_magnitude O T v2) /\
  (v3_magnitude O T v3 * v3_magnitude O T v3 = v3_magnitude2 O v3 /\ 0 <= v3_magnitude2 O v3 /\ 0 <= v3_magnitude O T v3) /\
  (v4_magnitude O T v4 * v4_magnitude O T v4 = v4_magnitude2 O v4 /\ 0 <= v4_magnitude2 O v4 /\ 0 <= v4_magnitude O T v4) /\
  (quat_magnitude O T q * quat_magnitude O T q = quat_magnitude2 O q /\ 0 <= quat_magnitude2 O q /\ 0 <= quat_magnitude O T q).
Proof.
  intros v1 v2 v3 v4 q.
  exact (conj (v1_magnitude_spec v1) (conj (v2_magnitude_spec v2) (conj (v3_magnitude_spec v3) (conj (v4_magnitude_spec v4) (quat_magnitude_spec q))))).
Qed.
Print Assumptions C11_magnitude.

(* 2. distance is symmetric, equals magnitude(u - v), and distance2 is its square: vectors, points, quaternions *)
Theorem C11_distance :
  (forall a b : V1 R, v1_distance O T a b = v1_distance O T b a /\ v1_distance O T a b = v1_magnitude O T (v1_sub O a b) /\
                      v1_distance O T a b * v1_distance O T a b = v1_distance2 O a b) /\
  (forall a b : V2 R, v2_distance O T a b = v2_distance O T b a /\ v2_distance O T a b = v2_magnitude O T (v2_sub O a b) /\
                      v2_distance O T a b * v2_distance O T a b = v2_distance2 O a b) /\
  (forall a b : V3 R, v3_distance O T a b = v3_distance O T b a /\ v3_distance O T a b = v3_magnitude O T (v3_sub O a b) /\
                      v3_distance O T a b * v3_distance O T a b = v3_distance2 O a b) /\
  (forall a b : V4 R, v4_distance O T a b = v4_distance O T b a /\ v4_distance O T a b = v4_magnitude O T (v4_sub O a b) /\
                      v4_distance O T a b * v4_distance O T a b = v4_distance2 O a b) /\
  (forall a b : P1 R, p1_distance O T a b = p1_distance O T b a /\ p1_distance O T a b = v1_magnitude O T (p1_sub_p O a b) /\
                      p1_distance O T a b * p1_distance O T a b = p1_distance2 O a b) /\
  (forall a b : P2 R, p2_distance O T a b = p2_distance O T b a /\ p2_distance O T a b = v2_magnitude O T (p2_sub_p O a b) /\
                      p2_distance O T a b * p2_distance O T a b = p2_distance2 O a b) /\
  (forall a b : P3 R, p3_distance O T a b = p3_distance O T b a /\ p3_distance O T a b = v3_magnitude O T (p3_sub_p O a b) /\
                      p3_distance O T a b * p3_distance O T a b = p3_distance2 O a b) /\
  (forall a b : Quat R, quat_distance O T a b = quat_distance O T b a /\ quat_distance O T a b = quat_magnitude O T (quat_sub O a b) /\
                      quat_distance O T a b * quat_distance O T a b = quat_distance2 O a b).
Proof.
  exact (conj v1_distance_spec (conj v2_distance_spec (conj v3_distance_spec (conj v4_distance_spec
        (conj p1_distance_spec (conj p2_distance_spec (conj p3_distance_spec quat_distance_spec))))))).
Qed.
Print Assumptions C11_distance.

(* 3. for v of non-zero length: normalize_to(v, m) has length |m| and is v times a factor that is positive for m > 0;
      normalize(v) = normalize_to(v, 1) (hence has length 1) *)
Theorem C11_normalize :
  (forall (v : V1 R) m, 0 < v1_magnitude2 O v -> v1_magnitude O T (v1_normalize_to O T v m) = Rabs m /\
     (exists k, v1_normalize_to O T v m = v1_mul_s O v k /\ (0 < m -> 0 < k)) /\ v1_normalize O T v = v1_normalize_to O T v 1) /\
  (forall (v : V2 R) m, 0 < v2_magnitude2 O v -> v2_magnitude O T (v2_normalize_to O T v m) = Rabs m /\
     (exists k, v2_normalize_to O T v m = v2_mul_s O v k /\ (0 < m -> 0 < k)) /\ v2_normalize O T v = v2_normalize_to O T v 1) /\
  (forall (v : V3 R) m, 0 < v3_magnitude2 O v -> v3_magnitude O T (v3_normalize_to O T v m) = Rabs m /\
     (exists k, v3_normalize_to O T v m = v3_mul_s O v k /\ (0 < m -> 0 < k)) /\ v3_normalize O T v = v3_normalize_to O T v 1) /\
  (forall (v : V4 R) m, 0 < v4_magnitude2 O v -> v4_magnitude O T (v4_normalize_to O T v m) = Rabs m /\
     (exists k, v4_normalize_to O T v m = v4_mul_s O v k /\ (0 < m -> 0 < k)) /\ v4_normalize O T v = v4_normalize_to O T v 1) /\
  (forall (q : Quat R) m, 0 < quat_magnitude2 O q -> quat_magnitude O T (quat_normalize_to O T q m) = Rabs m /\
     (exists k, quat_normalize_to O T q m = quat_mul_s O q k /\ (0 < m -> 0 < k)) /\ quat_normalize O T q = quat_normalize_to O T q 1) /\
  Rabs 1 = 1.
Proof.
  exact (conj v1_normalize_to_spec (conj v2_normalize_to_spec (conj v3_normalize_to_spec (conj v4_normalize_to_spec
        (conj quat_normalize_to_spec Rabs_1))))).
Qed.
Print Assumptions C11_normalize.

(* 4. angle: |u||v| cos(angle) = u.v, angle in [0, pi] and symmetric for dimensions 1, 3, 4 and quaternions
      (3-D additionally: |u||v| sin(angle) = |u x v|) *)
Theorem C11_angle_unsigned :
  (forall a b : V1 R, 0 < v1_magnitude2 O a -> 0 < v1_magnitude2 O b ->
     v1_magnitude O T a * v1_magnitude O T b * cos (v1_angle O T a b) = v1_dot O a b /\ 0 <= v1_angle O T a b <= PI /\
     v1_angle O T a b = v1_angle O T b a) /\
  (forall a b : V3 R, 0 < v3_magnitude2 O a -> 0 < v3_magnitude2 O b ->
     v3_magnitude O T a * v3_magnitude O T b * cos (v3_angle O T a b) = v3_dot O a b /\ 0 <= v3_angle O T a b <= PI /\
     v3_angle O T a b = v3_angle O T b a /\
     v3_magnitude O T a * v3_magnitude O T b * sin (v3_angle O T a b) = v3_magnitude O T (v3_cross O a b)) /\
  (forall a b : V4 R, 0 < v4_magnitude2 O a -> 0 < v4_magnitude2 O b ->
     v4_magnitude O T a * v4_magnitude O T b * cos (v4_angle O T a b) = v4_dot O a b /\ 0 <= v4_angle O T a b <= PI /\
     v4_angle O T a b = v4_angle O T b a) /\
  (forall a b : Quat R, 0 < quat_magnitude2 O a -> 0 < quat_magnitude2 O b ->
     quat_magnitude O T a * quat_magnitude O T b * cos (quat_angle O T a b) = quat_dot O a b /\ 0 <= quat_angle O T a b <= PI /\
     quat_angle O T a b = quat_angle O T b a).
Proof. exact (conj v1_angle_spec (conj v3_angle_spec (conj v4_angle_spec quat_angle_spec))). Qed.
Print Assumptions C11_angle_unsigned.

(* 5. 2-D: the signed counter-clockwise angle from a to b, in [-pi, pi]: its cosine and sine are those of the turn
      from a to b (|a||b| cos = a.b, |a||b| sin = perp_dot(a,b)), and rotating a counter-clockwise by it gives the
      direction of b *)
Theorem C11_angle_2d : forall a b : V2 R, 0 < v2_magnitude2 O a -> 0 < v2_magnitude2 O b ->
  let t := v2_angle O T a b in
  v2_magnitude O T a * v2_magnitude O T b * cos t = v2_dot O a b /\
  v2_magnitude O T a * v2_magnitude O T b * sin t = v2_perp_dot O a b /\
  - PI <= t <= PI /\
  v2_mul_s O (mkV2 (v2x a * cos t - v2y a * sin t) (v2x a * sin t + v2y a * cos t)) (v2_magnitude O T b) = v2_mul_s O b (v2_magnitude O T a).
Proof. exact v2_angle_spec. Qed.
Print Assumptions C11_angle_2d.

(* 6. project_on(u, v) is v times (u.v / |v|^2) and u - project_on(u, v) is orthogonal to v; any field *)
Theorem C11_project_on : forall F (P : Ops F), Field P ->
  (forall a b : V1 F, v1_magnitude2 P b <> zero P ->
     v1_project_on P a b = v1_mul_s P b (div P (v1_dot P a b) (v1_magnitude2 P b)) /\ v1_dot P (v1_sub P a (v1_project_on P a b)) b = zero P) /\
  (forall a b : V2 F, v2_magnitude2 P b <> zero P ->
     v2_project_on P a b = v2_mul_s P b (div P (v2_dot P a b) (v2_magnitude2 P b)) /\ v2_dot P (v2_sub P a (v2_project_on P a b)) b = zero P) /\
  (forall a b : V3 F, v3_magnitude2 P b <> zero P ->
     v3_project_on P a b = v3_mul_s P b (div P (v3_dot P a b) (v3_magnitude2 P b)) /\ v3_dot P (v3_sub P a (v3_project_on P a b)) b = zero P) /\
  (forall a b : V4 F, v4_magnitude2 P b <> zero P ->
     v4_project_on P a b = v4_mul_s P b (div P (v4_dot P a b) (v4_magnitude2 P b)) /\ v4_dot P (v4_sub P a (v4_project_on P a b)) b = zero P) /\
  (forall a b : Quat F, quat_magnitude2 P b <> zero P ->
     quat_project_on P a b = quat_mul_s P b (div P (quat_dot P a b) (quat_magnitude2 P b)) /\
     quat_dot P (quat_sub P a (quat_project_on P a b)) b = zero P).
Proof.
  intros F P H.
  exact (conj (v1_project_on_spec F P H) (conj (v2_project_on_spec F P H) (conj (v3_project_on_spec F P H) (conj (v4_project_on_spec F P H) (quat_project_on_spec F P H))))).
Qed.
Print Assumptions C11_project_on.

Example C11_nonzero_lengths : (0 < v3_magnitude2 O (mkV3 2 3 6))%R /\ Field OpsQ /\ v2_magnitude2 OpsQ (mkV2 (Q2Qc 3) (Q2Qc 4)) <> zero OpsQ.
Proof. exact nonzero_examples. Qed.
