(* Properties/C12.v — C12: points form an affine space over vectors, with exact homogeneous
   coordinates.  Statements only; every proof is `exact <lemma>`. *)

From Coq Require Import List Ring Field ZArith QArith Qcanon.
From CG Require Import Scalar Model.Vector Model.Point Exec.ExecQ Proofs.Alg Proofs.C03_Vector Proofs.C12_Point.
Import ListNotations.

(* 1. (p + v) - p = v, p + (q - p) = q, (p + v) + w = p + (v + w), p - v = p + (-v), p + 0 = p *)
Theorem C12_affine : forall F (O : Ops F), CRing O ->
  (forall p q v w, p1_sub_p O (p1_add_v O p v) p = v /\ p1_add_v O p (p1_sub_p O q p) = q /\
     p1_add_v O (p1_add_v O p v) w = p1_add_v O p (v1_add O v w) /\ p1_sub_v O p v = p1_add_v O p (v1_neg O v) /\
     p1_add_v O p (v1_zero O) = p) /\
  (forall p q v w, p2_sub_p O (p2_add_v O p v) p = v /\ p2_add_v O p (p2_sub_p O q p) = q /\
     p2_add_v O (p2_add_v O p v) w = p2_add_v O p (v2_add O v w) /\ p2_sub_v O p v = p2_add_v O p (v2_neg O v) /\
     p2_add_v O p (v2_zero O) = p) /\
  (forall p q v w, p3_sub_p O (p3_add_v O p v) p = v /\ p3_add_v O p (p3_sub_p O q p) = q /\
     p3_add_v O (p3_add_v O p v) w = p3_add_v O p (v3_add O v w) /\ p3_sub_v O p v = p3_add_v O p (v3_neg O v) /\
     p3_add_v O p (v3_zero O) = p).
Proof. intros F O H. exact (conj (p1_affine O H) (conj (p2_affine O H) (p3_affine O H))). Qed.
Print Assumptions C12_affine.

(* 2. to_vec / from_vec are mutually inverse; origin() maps to the zero vector *)
Theorem C12_vec_iso : forall F (O : Ops F), CRing O ->
  (forall v : V1 F, p1_to_vec (p1_from_vec v) = v) /\ (forall p : P1 F, p1_from_vec (p1_to_vec p) = p) /\
  (forall v : V2 F, p2_to_vec (p2_from_vec v) = v) /\ (forall p : P2 F, p2_from_vec (p2_to_vec p) = p) /\
  (forall v : V3 F, p3_to_vec (p3_from_vec v) = v) /\ (forall p : P3 F, p3_from_vec (p3_to_vec p) = p) /\
  p1_to_vec (p1_origin O) = v1_zero O /\ p2_to_vec (p2_origin O) = v2_zero O /\ p3_to_vec (p3_origin O) = v3_zero O.
Proof. intros F O H. exact (p_vec_iso O H). Qed.
Print Assumptions C12_vec_iso.

(* 3. scaling, element-wise operations and the point-vector dot act component by component *)
Theorem C12_componentwise : forall F (O : Ops F), CRing O ->
  let ops := [add O; sub O; mul O; div O; rem O] in
  (forall p q v s,
    p1_list (p1_add_v O p v) = lzip (add O) (p1_list p) (v1_list v) /\
    p1_list (p1_sub_v O p v) = lzip (sub O) (p1_list p) (v1_list v) /\
    v1_list (p1_sub_p O p q) = lzip (sub O) (p1_list p) (p1_list q) /\
    p1_list (p1_mul_s O p s) = map (fun c => mul O c s) (p1_list p) /\
    p1_list (p1_div_s O p s) = map (fun c => div O c s) (p1_list p) /\
    p1_list (p1_rem_s O p s) = map (fun c => rem O c s) (p1_list p) /\
    map (fun f => p1_list (f p q)) [p1_add_ew O; p1_sub_ew O; p1_mul_ew O; p1_div_ew O; p1_rem_ew O]
      = map (fun op => lzip op (p1_list p) (p1_list q)) ops /\
    map (fun f => p1_list (f p s)) [p1_add_ews O; p1_sub_ews O; p1_mul_ews O; p1_div_ews O; p1_rem_ews O]
      = map (fun op => map (fun c => op c s) (p1_list p)) ops /\
    p1_dot O p v = fold_right (add O) (zero O) (lzip (mul O) (p1_list p) (v1_list v))) /\
  (forall p q v s,
    p2_list (p2_add_v O p v) = lzip (add O) (p2_list p) (v2_list v) /\
    p2_list (p2_sub_v O p v) = lzip (sub O) (p2_list p) (v2_list v) /\
    v2_list (p2_sub_p O p q) = lzip (sub O) (p2_list p) (p2_list q) /\
    p2_list (p2_mul_s O p s) = map (fun c => mul O c s) (p2_list p) /\
    p2_list (p2_div_s O p s) = map (fun c => div O c s) (p2_list p) /\
    p2_list (p2_rem_s O p s) = map (fun c => rem O c s) (p2_list p) /\
    map (fun f => p2_list (f p q)) [p2_add_ew O; p2_sub_ew O; p2_mul_ew O; p2_div_ew O; p2_rem_ew O]
      = map (fun op => lzip op (p2_list p) (p2_list q)) ops /\
    map (fun f => p2_list (f p s)) [p2_add_ews O; p2_sub_ews O; p2_mul_ews O; p2_div_ews O; p2_rem_ews O]
      = map (fun op => map (fun c => op c s) (p2_list p)) ops /\
    p2_dot O p v = fold_right (add O) (zero O) (lzip (mul O) (p2_list p) (v2_list v))) /\
  (forall p q v s,
    p3_list (p3_add_v O p v) = lzip (add O) (p3_list p) (v3_list v) /\
    p3_list (p3_sub_v O p v) = lzip (sub O) (p3_list p) (v3_list v) /\
    v3_list (p3_sub_p O p q) = lzip (sub O) (p3_list p) (p3_list q) /\
    p3_list (p3_mul_s O p s) = map (fun c => mul O c s) (p3_list p) /\
    p3_list (p3_div_s O p s) = map (fun c => div O c s) (p3_list p) /\
    p3_list (p3_rem_s O p s) = map (fun c => rem O c s) (p3_list p) /\
    map (fun f => p3_list (f p q)) [p3_add_ew O; p3_sub_ew O; p3_mul_ew O; p3_div_ew O; p3_rem_ew O]
      = map (fun op => lzip op (p3_list p) (p3_list q)) ops /\
    map (fun f => p3_list (f p s)) [p3_add_ews O; p3_sub_ews O; p3_mul_ews O; p3_div_ews O; p3_rem_ews O]
      = map (fun op => map (fun c => op c s) (p3_list p)) ops /\
    p3_dot O p v = fold_right (add O) (zero O) (lzip (mul O) (p3_list p) (v3_list v))).
Proof. intros F O H. exact (conj (p1_comp O H) (conj (p2_comp O H) (p3_comp O H))). Qed.
Print Assumptions C12_componentwise.

(* 4. midpoint(p,q) = p + (q - p)/2 (= (p + q)/2 in characteristic other than 2) *)
Theorem C12_midpoint : forall F (O : Ops F), Field O ->
  ((forall p q, p1_midpoint O p q = p1_add_v O p (v1_div_s O (p1_sub_p O q p) (add O (one O) (one O)))) /\
   (forall p q, p2_midpoint O p q = p2_add_v O p (v2_div_s O (p2_sub_p O q p) (add O (one O) (one O)))) /\
   (forall p q, p3_midpoint O p q = p3_add_v O p (v3_div_s O (p3_sub_p O q p) (add O (one O) (one O))))) /\
  (add O (one O) (one O) <> zero O ->
   (forall p q, p1_to_vec (p1_midpoint O p q) = v1_div_s O (v1_add O (p1_to_vec p) (p1_to_vec q)) (add O (one O) (one O))) /\
   (forall p q, p2_to_vec (p2_midpoint O p q) = v2_div_s O (v2_add O (p2_to_vec p) (p2_to_vec q)) (add O (one O) (one O))) /\
   (forall p q, p3_to_vec (p3_midpoint O p q) = v3_div_s O (v3_add O (p3_to_vec p) (p3_to_vec q)) (add O (one O) (one O)))).
Proof.
  intros F O H.
  exact (conj (midpoint_def O H) (fun N => conj (fun p q => p1_midpoint_avg O H p q N)
        (conj (fun p q => p2_midpoint_avg O H p q N) (fun p q => p3_midpoint_avg O H p q N)))).
Qed.
Print Assumptions C12_midpoint.

(* 5. centroid of a list of points = (sum of their position vectors) / n, for EVERY list
      (n is the scalar obtained from the list length); proved by induction over the list *)
Theorem C12_centroid : forall F (O : Ops F), CRing O ->
  (forall ps n, p1_to_vec (p1_centroid O ps n) = v1_div_s O (v1_sum_list O (map (@p1_to_vec F) ps)) n) /\
  (forall ps n, p2_to_vec (p2_centroid O ps n) = v2_div_s O (v2_sum_list O (map (@p2_to_vec F) ps)) n) /\
  (forall ps n, p3_to_vec (p3_centroid O ps n) = v3_div_s O (v3_sum_list O (map (@p3_to_vec F) ps)) n) /\
  (forall ps, p1_centroid_len O ps = p1_centroid O ps (ofQ O (inject_Z (Z.of_nat (length ps))))) /\
  (forall ps, p2_centroid_len O ps = p2_centroid O ps (ofQ O (inject_Z (Z.of_nat (length ps))))) /\
  (forall ps, p3_centroid_len O ps = p3_centroid O ps (ofQ O (inject_Z (Z.of_nat (length ps))))).
Proof.
  intros F O H.
  exact (conj (p1_centroid_spec O H) (conj (p2_centroid_spec O H) (conj (p3_centroid_spec O H)
        (conj (fun ps => eq_refl) (conj (fun ps => eq_refl) (fun ps => eq_refl)))))).
Qed.
Print Assumptions C12_centroid.

(* 6. from_homogeneous(k * to_homogeneous(p)) = p for every k <> 0 *)
Theorem C12_homogeneous : forall F (O : Ops F), Field O ->
  (forall p, p3_to_homogeneous O p = mkV4 (p3x p) (p3y p) (p3z p) (one O)) /\
  (forall p k, k <> zero O -> p3_from_homogeneous O (v4_mul_s O (p3_to_homogeneous O p) k) = p).
Proof. intros F O H. exact (conj (to_homogeneous_spec O H) (homogeneous_roundtrip O H)). Qed.
Print Assumptions C12_homogeneous.

Example C12_hyps_Qc : CRing OpsQ /\ Field OpsQ.  Proof. exact (conj CRing_Qc Field_Qc). Qed.
Example C12_hyps_Z : CRing OpsZ.  Proof. exact CRing_Z. Qed.
Example C12_centroid_example :
  p2_centroid_len OpsQ [mkP2 (Q2Qc 1) (Q2Qc 2); mkP2 (Q2Qc 3) (Q2Qc 4); mkP2 (Q2Qc 5) (Q2Qc 9)] = mkP2 (Q2Qc 3) (Q2Qc 5).
Proof. vm_compute. f_equal; apply Qc_is_canon; reflexivity. Qed.
