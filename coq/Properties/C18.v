(* Properties/C18.v — C18: approximate-equality and predicate methods test every component.
   Statements only; every proof is `exact <lemma>`.  `sc` is an ARBITRARY scalar relation (the scalar
   abs_diff_eq / relative_eq / ulps_eq with any tolerances); all2 sc l1 l2 = every pair of corresponding
   components is related. *)

From Coq Require Import List Bool Arith.
From CG Require Import Scalar Model.Vector Model.Point Model.Matrix Model.Angle Model.Quaternion Model.Euler Model.Transform Model.Approx
                       Proofs.C01_Matrix Proofs.C18_Approx.
Import ListNotations.

(* 1. for every compound type the relation holds exactly when the scalar comparison holds for every pair of
      corresponding components (same chain for abs_diff_eq, relative_eq and ulps_eq) *)
Theorem C18_all_components : forall F (sc : F -> F -> bool),
  (forall a b, v1_cmp sc a b = all2 sc (v1_list a) (v1_list b)) /\ (forall a b, v2_cmp sc a b = all2 sc (v2_list a) (v2_list b)) /\
  (forall a b, v3_cmp sc a b = all2 sc (v3_list a) (v3_list b)) /\ (forall a b, v4_cmp sc a b = all2 sc (v4_list a) (v4_list b)) /\
  (forall a b, p1_cmp sc a b = all2 sc (p1_list a) (p1_list b)) /\ (forall a b, p2_cmp sc a b = all2 sc (p2_list a) (p2_list b)) /\
  (forall a b, p3_cmp sc a b = all2 sc (p3_list a) (p3_list b)) /\
  (forall a b, m2_cmp sc a b = all2 sc (m2_list a) (m2_list b)) /\ (forall a b, m3_cmp sc a b = all2 sc (m3_list a) (m3_list b)) /\
  (forall a b, m4_cmp sc a b = all2 sc (m4_list a) (m4_list b)) /\
  (forall a b, quat_cmp sc a b = all2 sc (quat_sxyz a) (quat_sxyz b)) /\
  (forall a b, euler_cmp sc a b = all2 sc (euler_list a) (euler_list b)) /\
  (forall a b, ang_cmp sc a b = all2 sc [a] [b]) /\
  (forall a b, basis2_cmp sc a b = all2 sc (m2_list a) (m2_list b)) /\ (forall a b, basis3_cmp sc a b = all2 sc (m3_list a) (m3_list b)) /\
  (forall (R V : Type) (rc : R -> R -> bool) (vc : V -> V -> bool) (a b : Decomposed F R V),
     dec_cmp sc rc vc a b = (sc (d_scale a) (d_scale b) && (rc (d_rot a) (d_rot b) && vc (d_disp a) (d_disp b)))).
Proof.
  intros F sc.
  exact (conj (v1_cmp_all sc) (conj (v2_cmp_all sc) (conj (v3_cmp_all sc) (conj (v4_cmp_all sc)
        (conj (p1_cmp_all sc) (conj (p2_cmp_all sc) (conj (p3_cmp_all sc)
        (conj (m2_cmp_all sc) (conj (m3_cmp_all sc) (conj (m4_cmp_all sc)
        (conj (quat_cmp_all sc) (conj (euler_cmp_all sc) (conj (ang_cmp_all sc)
        (conj (m2_cmp_all sc) (conj (m3_cmp_all sc) (dec_cmp_all sc)))))))))))))))).
Qed.
Print Assumptions C18_all_components.

(* 2. hence: values differing beyond tolerance in any single component are unequal; the relations are reflexive
      and symmetric whenever the scalar relation is *)
Theorem C18_consequences : forall F (sc : F -> F -> bool),
  (forall l1 l2 i d, i < length l1 -> length l1 = length l2 -> sc (nth i l1 d) (nth i l2 d) = false -> all2 sc l1 l2 = false) /\
  (forall l1 l2 d, length l1 = length l2 ->
     (all2 sc l1 l2 = true <-> forall i, i < length l1 -> sc (nth i l1 d) (nth i l2 d) = true)) /\
  (forall l, (forall x, sc x x = true) -> all2 sc l l = true) /\
  (forall l1 l2, (forall x y, sc x y = sc y x) -> all2 sc l1 l2 = all2 sc l2 l1).
Proof. intros F sc. exact (conj (all2_false_at sc) (conj (all2_true_iff sc) (conj (all2_refl sc) (all2_sym sc)))). Qed.
Print Assumptions C18_consequences.

(* 3. is_finite is true exactly when every component is finite *)
Theorem C18_is_finite : forall F (A : Approx F),
  (forall v, v1_is_finite A v = forallb (is_finite A) (v1_list v)) /\ (forall v, v2_is_finite A v = forallb (is_finite A) (v2_list v)) /\
  (forall v, v3_is_finite A v = forallb (is_finite A) (v3_list v)) /\ (forall v, v4_is_finite A v = forallb (is_finite A) (v4_list v)) /\
  (forall v, p1_is_finite A v = forallb (is_finite A) (p1_list v)) /\ (forall v, p2_is_finite A v = forallb (is_finite A) (p2_list v)) /\
  (forall v, p3_is_finite A v = forallb (is_finite A) (p3_list v)) /\
  (forall m, m2_is_finite A m = forallb (is_finite A) (m2_list m)) /\ (forall m, m3_is_finite A m = forallb (is_finite A) (m3_list m)) /\
  (forall m, m4_is_finite A m = forallb (is_finite A) (v4_list (m4w m) ++ v4_list (m4x m) ++ v4_list (m4y m) ++ v4_list (m4z m))) /\
  (forall q, quat_is_finite A q = forallb (is_finite A) (quat_sxyz q)).
Proof. intros F A. exact (is_finite_all A). Qed.
Print Assumptions C18_is_finite.

(* 4. is_zero / is_identity: every component equals (vectors) or ulps-equals (matrices with epsilon 1e-6,
      quaternions, angles) the corresponding component of zero() / identity() *)
Theorem C18_is_zero_identity : forall F (O : Ops F) (A : Approx F),
  (forall m, m2_is_identity O A m = all2 (s_ulps_m O A) (m2_list m) (m2_list (m2_identity O))) /\
  (forall m, m3_is_identity O A m = all2 (s_ulps_m O A) (m3_list m) (m3_list (m3_identity O))) /\
  (forall m, m4_is_identity O A m = all2 (s_ulps_m O A) (m4_list m) (m4_list (m4_identity O))) /\
  (forall m, m2_is_zero O A m = all2 (s_ulps_m O A) (m2_list m) (m2_list (m2_zero O))) /\
  (forall m, m3_is_zero O A m = all2 (s_ulps_m O A) (m3_list m) (m3_list (m3_zero O))) /\
  (forall m, m4_is_zero O A m = all2 (s_ulps_m O A) (m4_list m) (m4_list (m4_zero O))) /\
  (forall q, quat_is_zero O A q = all2 (s_ulps_d A) (quat_sxyz q) (quat_sxyz (quat_zero O))) /\
  (forall v, v1_is_zero O v = all2 (eqb O) (v1_list v) (v1_list (v1_zero O))) /\
  (forall v, v2_is_zero O v = all2 (eqb O) (v2_list v) (v2_list (v2_zero O))) /\
  (forall v, v3_is_zero O v = all2 (eqb O) (v3_list v) (v3_list (v3_zero O))) /\
  (forall v, v4_is_zero O v = all2 (eqb O) (v4_list v) (v4_list (v4_zero O))) /\
  (forall a, ang_is_zero O A a = s_ulps_d A a (zero O)).
Proof. intros F O A. exact (is_identity_zero_spec O A). Qed.
Print Assumptions C18_is_zero_identity.

(* 5. is_diagonal: every off-diagonal element ulps-equals 0; is_symmetric: every element ulps-equals its
      mirror image (offdiag n = all (c,r) with c <> r, c,r < n) *)
Theorem C18_diagonal_symmetric : forall F (O : Ops F) (A : Approx F),
  ((forall m, m2_is_diagonal O A m = forallb (fun cr => s_ulps_d A (e2 (zero O) m (fst cr) (snd cr)) (zero O)) (offdiag 2)) /\
   (forall m, m3_is_diagonal O A m = forallb (fun cr => s_ulps_d A (e3 (zero O) m (fst cr) (snd cr)) (zero O)) (offdiag 3)) /\
   (forall m, m4_is_diagonal O A m = forallb (fun cr => s_ulps_d A (e4 (zero O) m (fst cr) (snd cr)) (zero O)) (offdiag 4))) /\
  ((forall m, m2_is_symmetric A m = forallb (fun cr => s_ulps_d A (e2 (zero O) m (fst cr) (snd cr)) (e2 (zero O) m (snd cr) (fst cr))) (offdiag 2)) /\
   (forall m, m3_is_symmetric A m = forallb (fun cr => s_ulps_d A (e3 (zero O) m (fst cr) (snd cr)) (e3 (zero O) m (snd cr) (fst cr))) (offdiag 3)) /\
   (forall m, m4_is_symmetric A m = forallb (fun cr => s_ulps_d A (e4 (zero O) m (fst cr) (snd cr)) (e4 (zero O) m (snd cr) (fst cr))) (offdiag 4))).
Proof. intros F O A. exact (conj (is_diagonal_spec O A) (is_symmetric_spec O A)). Qed.
Print Assumptions C18_diagonal_symmetric.

(* 6. is_invertible = not (det ulps-equals 0); is_perpendicular = dot ulps-equals 0 *)
Theorem C18_invertible_perpendicular : forall F (O : Ops F) (A : Approx F),
  (forall m, m2_is_invertible O A m = negb (s_ulps_d A (m2_determinant O m) (zero O))) /\
  (forall m, m3_is_invertible O A m = negb (s_ulps_d A (m3_determinant O m) (zero O))) /\
  (forall m, m4_is_invertible O A m = negb (s_ulps_d A (m4_determinant O m) (zero O))) /\
  (forall a b, v1_is_perpendicular O A a b = s_ulps_d A (v1_dot O a b) (zero O)) /\
  (forall a b, v2_is_perpendicular O A a b = s_ulps_d A (v2_dot O a b) (zero O)) /\
  (forall a b, v3_is_perpendicular O A a b = s_ulps_d A (v3_dot O a b) (zero O)) /\
  (forall a b, v4_is_perpendicular O A a b = s_ulps_d A (v4_dot O a b) (zero O)) /\
  (forall a b, quat_is_perpendicular O A a b = s_ulps_d A (quat_dot O a b) (zero O)).
Proof. intros F O A. exact (is_invertible_perpendicular_spec O A). Qed.
Print Assumptions C18_invertible_perpendicular.

Example C18_offdiag_4 : offdiag 4 = [(0,1);(0,2);(0,3);(1,0);(1,2);(1,3);(2,0);(2,1);(2,3);(3,0);(3,1);(3,2)].
Proof. reflexivity. Qed.
