(* Properties/C03.v — C03: vectors form an inner-product space; cross and
   perp-dot products are exact.  Statements only; every proof is `exact <lemma>`.
   `CRing O` = the scalar operations of O form a commutative ring (holds for
   every field, for Qc, R and for Z, i.e. the integer scalar types without
   overflow); `Field O` = they form a field. *)

From Coq Require Import List Ring Field ZArith QArith Qcanon.
From CG Require Import Scalar Model.Vector Proofs.Alg Proofs.C03_Vector Exec.ExecQ.
Import ListNotations.

(* 1. +, -, neg, *s, /s, %s act component by component (field order x,y,z,w), all dimensions *)
Theorem C03_componentwise : forall F (O : Ops F),
  (forall a b, v1_list (v1_add O a b) = lzip (add O) (v1_list a) (v1_list b)) /\
  (forall a b, v2_list (v2_add O a b) = lzip (add O) (v2_list a) (v2_list b)) /\
  (forall a b, v3_list (v3_add O a b) = lzip (add O) (v3_list a) (v3_list b)) /\
  (forall a b, v4_list (v4_add O a b) = lzip (add O) (v4_list a) (v4_list b)) /\
  (forall a b, v1_list (v1_sub O a b) = lzip (sub O) (v1_list a) (v1_list b)) /\
  (forall a b, v2_list (v2_sub O a b) = lzip (sub O) (v2_list a) (v2_list b)) /\
  (forall a b, v3_list (v3_sub O a b) = lzip (sub O) (v3_list a) (v3_list b)) /\
  (forall a b, v4_list (v4_sub O a b) = lzip (sub O) (v4_list a) (v4_list b)) /\
  (forall a, v1_list (v1_neg O a) = map (opp O) (v1_list a)) /\
  (forall a, v2_list (v2_neg O a) = map (opp O) (v2_list a)) /\
  (forall a, v3_list (v3_neg O a) = map (opp O) (v3_list a)) /\
  (forall a, v4_list (v4_neg O a) = map (opp O) (v4_list a)) /\
  (forall a s, v1_list (v1_mul_s O a s) = map (fun c => mul O c s) (v1_list a)) /\
  (forall a s, v2_list (v2_mul_s O a s) = map (fun c => mul O c s) (v2_list a)) /\
  (forall a s, v3_list (v3_mul_s O a s) = map (fun c => mul O c s) (v3_list a)) /\
  (forall a s, v4_list (v4_mul_s O a s) = map (fun c => mul O c s) (v4_list a)) /\
  (forall a s, v1_list (v1_div_s O a s) = map (fun c => div O c s) (v1_list a)) /\
  (forall a s, v2_list (v2_div_s O a s) = map (fun c => div O c s) (v2_list a)) /\
  (forall a s, v3_list (v3_div_s O a s) = map (fun c => div O c s) (v3_list a)) /\
  (forall a s, v4_list (v4_div_s O a s) = map (fun c => div O c s) (v4_list a)) /\
  (forall a s, v1_list (v1_rem_s O a s) = map (fun c => rem O c s) (v1_list a)) /\
  (forall a s, v2_list (v2_rem_s O a s) = map (fun c => rem O c s) (v2_list a)) /\
  (forall a s, v3_list (v3_rem_s O a s) = map (fun c => rem O c s) (v3_list a)) /\
  (forall a s, v4_list (v4_rem_s O a s) = map (fun c => rem O c s) (v4_list a)).
Proof.
  intros F O.
  exact (conj (v1_add_comp O) (conj (v2_add_comp O) (conj (v3_add_comp O) (conj (v4_add_comp O)
        (conj (v1_sub_comp O) (conj (v2_sub_comp O) (conj (v3_sub_comp O) (conj (v4_sub_comp O)
        (conj (v1_neg_comp O) (conj (v2_neg_comp O) (conj (v3_neg_comp O) (conj (v4_neg_comp O)
        (conj (v1_mul_s_comp O) (conj (v2_mul_s_comp O) (conj (v3_mul_s_comp O) (conj (v4_mul_s_comp O)
        (conj (v1_div_s_comp O) (conj (v2_div_s_comp O) (conj (v3_div_s_comp O) (conj (v4_div_s_comp O)
        (conj (v1_rem_s_comp O) (conj (v2_rem_s_comp O) (conj (v3_rem_s_comp O) (v4_rem_s_comp O)))))))))))))))))))))))).
Qed.
Print Assumptions C03_componentwise.

(* 2. the ElementWise family (vector and scalar right-hand sides): +,-,*,/,% per component *)
Theorem C03_elementwise : forall F (O : Ops F),
  let ops := [add O; sub O; mul O; div O; rem O] in
  (forall a b, map (fun f => v1_list (f a b)) [v1_add_ew O; v1_sub_ew O; v1_mul_ew O; v1_div_ew O; v1_rem_ew O]
               = map (fun op => lzip op (v1_list a) (v1_list b)) ops) /\
  (forall a b, map (fun f => v2_list (f a b)) [v2_add_ew O; v2_sub_ew O; v2_mul_ew O; v2_div_ew O; v2_rem_ew O]
               = map (fun op => lzip op (v2_list a) (v2_list b)) ops) /\
  (forall a b, map (fun f => v3_list (f a b)) [v3_add_ew O; v3_sub_ew O; v3_mul_ew O; v3_div_ew O; v3_rem_ew O]
               = map (fun op => lzip op (v3_list a) (v3_list b)) ops) /\
  (forall a b, map (fun f => v4_list (f a b)) [v4_add_ew O; v4_sub_ew O; v4_mul_ew O; v4_div_ew O; v4_rem_ew O]
               = map (fun op => lzip op (v4_list a) (v4_list b)) ops) /\
  (forall a s, map (fun f => v1_list (f a s)) [v1_add_ews O; v1_sub_ews O; v1_mul_ews O; v1_div_ews O; v1_rem_ews O]
               = map (fun op => map (fun c => op c s) (v1_list a)) ops) /\
  (forall a s, map (fun f => v2_list (f a s)) [v2_add_ews O; v2_sub_ews O; v2_mul_ews O; v2_div_ews O; v2_rem_ews O]
               = map (fun op => map (fun c => op c s) (v2_list a)) ops) /\
  (forall a s, map (fun f => v3_list (f a s)) [v3_add_ews O; v3_sub_ews O; v3_mul_ews O; v3_div_ews O; v3_rem_ews O]
               = map (fun op => map (fun c => op c s) (v3_list a)) ops) /\
  (forall a s, map (fun f => v4_list (f a s)) [v4_add_ews O; v4_sub_ews O; v4_mul_ews O; v4_div_ews O; v4_rem_ews O]
               = map (fun op => map (fun c => op c s) (v4_list a)) ops).
Proof.
  intros F O.
  exact (conj (v1_ew_comp O) (conj (v2_ew_comp O) (conj (v3_ew_comp O) (conj (v4_ew_comp O)
        (conj (v1_ews_comp O) (conj (v2_ews_comp O) (conj (v3_ews_comp O) (v4_ews_comp O)))))))).
Qed.
Print Assumptions C03_elementwise.

(* 3. zero() is the all-zero vector and the additive identity; module laws *)
Theorem C03_zero_identity : forall F (O : Ops F), CRing O ->
  (v1_list (v1_zero O) = [zero O] /\ v2_list (v2_zero O) = [zero O; zero O] /\
   v3_list (v3_zero O) = [zero O; zero O; zero O] /\ v4_list (v4_zero O) = [zero O; zero O; zero O; zero O]) /\
  (forall v, v1_add O v (v1_zero O) = v /\ v1_add O (v1_zero O) v = v) /\
  (forall v, v2_add O v (v2_zero O) = v /\ v2_add O (v2_zero O) v = v) /\
  (forall v, v3_add O v (v3_zero O) = v /\ v3_add O (v3_zero O) v = v) /\
  (forall v, v4_add O v (v4_zero O) = v /\ v4_add O (v4_zero O) v = v).
Proof.
  intros F O H.
  exact (conj (conj (v1_zero_list O) (conj (v2_zero_list O) (conj (v3_zero_list O) (v4_zero_list O))))
        (conj (v1_add_zero O H) (conj (v2_add_zero O H) (conj (v3_add_zero O H) (v4_add_zero O H))))).
Qed.
Print Assumptions C03_zero_identity.

Theorem C03_vector_space : forall F (O : Ops F), CRing O ->
  (forall a b, v1_add O a b = v1_add O b a) /\ (forall a b, v2_add O a b = v2_add O b a) /\
  (forall a b, v3_add O a b = v3_add O b a) /\ (forall a b, v4_add O a b = v4_add O b a) /\
  (forall a b c, v1_add O (v1_add O a b) c = v1_add O a (v1_add O b c)) /\
  (forall a b c, v2_add O (v2_add O a b) c = v2_add O a (v2_add O b c)) /\
  (forall a b c, v3_add O (v3_add O a b) c = v3_add O a (v3_add O b c)) /\
  (forall a b c, v4_add O (v4_add O a b) c = v4_add O a (v4_add O b c)) /\
  (forall a b, v1_sub O a b = v1_add O a (v1_neg O b)) /\ (forall a b, v2_sub O a b = v2_add O a (v2_neg O b)) /\
  (forall a b, v3_sub O a b = v3_add O a (v3_neg O b)) /\ (forall a b, v4_sub O a b = v4_add O a (v4_neg O b)) /\
  (forall a, v1_add O a (v1_neg O a) = v1_zero O) /\ (forall a, v2_add O a (v2_neg O a) = v2_zero O) /\
  (forall a, v3_add O a (v3_neg O a) = v3_zero O) /\ (forall a, v4_add O a (v4_neg O a) = v4_zero O) /\
  (forall a b s t,
    v4_mul_s O (v4_add O a b) s = v4_add O (v4_mul_s O a s) (v4_mul_s O b s) /\
    v4_mul_s O a (add O s t) = v4_add O (v4_mul_s O a s) (v4_mul_s O a t) /\
    v4_mul_s O (v4_mul_s O a s) t = v4_mul_s O a (mul O s t) /\ v4_mul_s O a (one O) = a) /\
  (forall a b s t,
    v3_mul_s O (v3_add O a b) s = v3_add O (v3_mul_s O a s) (v3_mul_s O b s) /\
    v3_mul_s O a (add O s t) = v3_add O (v3_mul_s O a s) (v3_mul_s O a t) /\
    v3_mul_s O (v3_mul_s O a s) t = v3_mul_s O a (mul O s t) /\ v3_mul_s O a (one O) = a) /\
  (forall a b s t,
    v2_mul_s O (v2_add O a b) s = v2_add O (v2_mul_s O a s) (v2_mul_s O b s) /\
    v2_mul_s O a (add O s t) = v2_add O (v2_mul_s O a s) (v2_mul_s O a t) /\
    v2_mul_s O (v2_mul_s O a s) t = v2_mul_s O a (mul O s t) /\ v2_mul_s O a (one O) = a) /\
  (forall a b s t,
    v1_mul_s O (v1_add O a b) s = v1_add O (v1_mul_s O a s) (v1_mul_s O b s) /\
    v1_mul_s O a (add O s t) = v1_add O (v1_mul_s O a s) (v1_mul_s O a t) /\
    v1_mul_s O (v1_mul_s O a s) t = v1_mul_s O a (mul O s t) /\ v1_mul_s O a (one O) = a).
Proof.
  intros F O H.
  exact (conj (v1_add_comm O H) (conj (v2_add_comm O H) (conj (v3_add_comm O H) (conj (v4_add_comm O H)
        (conj (v1_add_assoc O H) (conj (v2_add_assoc O H) (conj (v3_add_assoc O H) (conj (v4_add_assoc O H)
        (conj (v1_sub_add_neg O H) (conj (v2_sub_add_neg O H) (conj (v3_sub_add_neg O H) (conj (v4_sub_add_neg O H)
        (conj (v1_add_neg O H) (conj (v2_add_neg O H) (conj (v3_add_neg O H) (conj (v4_add_neg O H)
        (conj (v4_mul_s_distr O H) (conj (v3_mul_s_distr O H) (conj (v2_mul_s_distr O H) (v1_mul_s_distr O H)))))))))))))))))))).
Qed.
Print Assumptions C03_vector_space.

(* 4. dot is the sum of products, symmetric and bilinear; magnitude2 v = dot v v *)
Theorem C03_dot : forall F (O : Ops F), CRing O ->
  (forall a b, v1_dot O a b = fold_right (add O) (zero O) (lzip (mul O) (v1_list a) (v1_list b))) /\
  (forall a b, v2_dot O a b = fold_right (add O) (zero O) (lzip (mul O) (v2_list a) (v2_list b))) /\
  (forall a b, v3_dot O a b = fold_right (add O) (zero O) (lzip (mul O) (v3_list a) (v3_list b))) /\
  (forall a b, v4_dot O a b = fold_right (add O) (zero O) (lzip (mul O) (v4_list a) (v4_list b))) /\
  (forall a b, v1_dot O a b = v1_dot O b a) /\ (forall a b, v2_dot O a b = v2_dot O b a) /\
  (forall a b, v3_dot O a b = v3_dot O b a) /\ (forall a b, v4_dot O a b = v4_dot O b a) /\
  (forall a b c s t,
    v1_dot O (v1_add O (v1_mul_s O a s) (v1_mul_s O b t)) c = add O (mul O s (v1_dot O a c)) (mul O t (v1_dot O b c)) /\
    v1_dot O c (v1_add O (v1_mul_s O a s) (v1_mul_s O b t)) = add O (mul O s (v1_dot O c a)) (mul O t (v1_dot O c b))) /\
  (forall a b c s t,
    v2_dot O (v2_add O (v2_mul_s O a s) (v2_mul_s O b t)) c = add O (mul O s (v2_dot O a c)) (mul O t (v2_dot O b c)) /\
    v2_dot O c (v2_add O (v2_mul_s O a s) (v2_mul_s O b t)) = add O (mul O s (v2_dot O c a)) (mul O t (v2_dot O c b))) /\
  (forall a b c s t,
    v3_dot O (v3_add O (v3_mul_s O a s) (v3_mul_s O b t)) c = add O (mul O s (v3_dot O a c)) (mul O t (v3_dot O b c)) /\
    v3_dot O c (v3_add O (v3_mul_s O a s) (v3_mul_s O b t)) = add O (mul O s (v3_dot O c a)) (mul O t (v3_dot O c b))) /\
  (forall a b c s t,
    v4_dot O (v4_add O (v4_mul_s O a s) (v4_mul_s O b t)) c = add O (mul O s (v4_dot O a c)) (mul O t (v4_dot O b c)) /\
    v4_dot O c (v4_add O (v4_mul_s O a s) (v4_mul_s O b t)) = add O (mul O s (v4_dot O c a)) (mul O t (v4_dot O c b))) /\
  (forall v, v1_magnitude2 O v = v1_dot O v v) /\ (forall v, v2_magnitude2 O v = v2_dot O v v) /\
  (forall v, v3_magnitude2 O v = v3_dot O v v) /\ (forall v, v4_magnitude2 O v = v4_dot O v v).
Proof.
  intros F O H.
  exact (conj (v1_dot_spec O H) (conj (v2_dot_spec O H) (conj (v3_dot_spec O H) (conj (v4_dot_spec O H)
        (conj (v1_dot_sym O H) (conj (v2_dot_sym O H) (conj (v3_dot_sym O H) (conj (v4_dot_sym O H)
        (conj (v1_dot_bilinear O H) (conj (v2_dot_bilinear O H) (conj (v3_dot_bilinear O H) (conj (v4_dot_bilinear O H)
        (conj (v1_magnitude2_dot O) (conj (v2_magnitude2_dot O) (conj (v3_magnitude2_dot O) (v4_magnitude2_dot O)))))))))))))))).
Qed.
Print Assumptions C03_dot.

(* 5. sum()/product() fold all components *)
Theorem C03_sum_product : forall F (O : Ops F), CRing O ->
  (forall v : V1 F, v1_sum v = fold_right (add O) (zero O) (v1_list v)) /\
  (forall v, v2_sum O v = fold_right (add O) (zero O) (v2_list v)) /\
  (forall v, v3_sum O v = fold_right (add O) (zero O) (v3_list v)) /\
  (forall v, v4_sum O v = fold_right (add O) (zero O) (v4_list v)) /\
  (forall v : V1 F, v1_product v = fold_right (mul O) (one O) (v1_list v)) /\
  (forall v, v2_product O v = fold_right (mul O) (one O) (v2_list v)) /\
  (forall v, v3_product O v = fold_right (mul O) (one O) (v3_list v)) /\
  (forall v, v4_product O v = fold_right (mul O) (one O) (v4_list v)).
Proof.
  intros F O H.
  exact (conj (v1_sum_fold O H) (conj (v2_sum_fold O H) (conj (v3_sum_fold O H) (conj (v4_sum_fold O H)
        (conj (v1_product_fold O H) (conj (v2_product_fold O H) (conj (v3_product_fold O H) (v4_product_fold O H)))))))).
Qed.
Print Assumptions C03_sum_product.

(* 6. cross product *)
Theorem C03_cross : forall F (O : Ops F), CRing O ->
  (forall a b, v3_cross O a b = mkV3 (sub O (mul O (v3y a) (v3z b)) (mul O (v3z a) (v3y b)))
                                     (sub O (mul O (v3z a) (v3x b)) (mul O (v3x a) (v3z b)))
                                     (sub O (mul O (v3x a) (v3y b)) (mul O (v3y a) (v3x b)))) /\
  (forall a b, v3_cross O a b = v3_neg O (v3_cross O b a)) /\
  (forall a b, v3_dot O (v3_cross O a b) a = zero O /\ v3_dot O (v3_cross O a b) b = zero O) /\
  (forall a b, v3_magnitude2 O (v3_cross O a b)
               = sub O (mul O (v3_magnitude2 O a) (v3_magnitude2 O b)) (mul O (v3_dot O a b) (v3_dot O a b))) /\
  (forall a b c, v3_cross O a (v3_cross O b c)
               = v3_sub O (v3_mul_s O b (v3_dot O a c)) (v3_mul_s O c (v3_dot O a b))).
Proof.
  intros F O H.
  exact (conj (cross_spec O) (conj (cross_anticomm O H) (conj (cross_orth O H) (conj (cross_lagrange O H) (cross_triple O H))))).
Qed.
Print Assumptions C03_cross.

(* 7. perp-dot *)
Theorem C03_perp_dot : forall F (O : Ops F) (a b : V2 F),
  v2_perp_dot O a b = sub O (mul O (v2x a) (v2y b)) (mul O (v2y a) (v2x b)).
Proof. exact (fun F O => perp_dot_spec O). Qed.
Print Assumptions C03_perp_dot.

(* 8. scalar division undoes scalar multiplication (fields) *)
Theorem C03_division : forall F (O : Ops F), Field O -> forall s, s <> zero O ->
  (forall v, v1_mul_s O (v1_div_s O v s) s = v /\ v1_div_s O v s = v1_mul_s O v (div O (one O) s)) /\
  (forall v, v2_mul_s O (v2_div_s O v s) s = v /\ v2_div_s O v s = v2_mul_s O v (div O (one O) s)) /\
  (forall v, v3_mul_s O (v3_div_s O v s) s = v /\ v3_div_s O v s = v3_mul_s O v (div O (one O) s)) /\
  (forall v, v4_mul_s O (v4_div_s O v s) s = v /\ v4_div_s O v s = v4_mul_s O v (div O (one O) s)).
Proof.
  intros F O H s Hs.
  exact (conj (fun v => v1_div_mul O H v Hs) (conj (fun v => v2_div_mul O H v Hs)
        (conj (fun v => v3_div_mul O H v Hs) (fun v => v4_div_mul O H v Hs)))).
Qed.
Print Assumptions C03_division.

(* 9. the compound-assignment forms (+=, -=, *=, /=, %= and the *_assign_element_wise methods) compute
      the same vector as the value forms, all dimensions *)
Theorem C03_assign_forms : forall F (O : Ops F),
  (forall a b, v1_add_assign O a b = v1_add O a b) /\
  (forall a b, v1_sub_assign O a b = v1_sub O a b) /\
  (forall a s, v1_mul_assign O a s = v1_mul_s O a s) /\
  (forall a s, v1_div_assign O a s = v1_div_s O a s) /\
  (forall a s, v1_rem_assign O a s = v1_rem_s O a s) /\
  (forall a b, v1_add_assign_ew O a b = v1_add_ew O a b) /\
  (forall a s, v1_add_assign_ews O a s = v1_add_ews O a s) /\
  (forall a b, v1_sub_assign_ew O a b = v1_sub_ew O a b) /\
  (forall a s, v1_sub_assign_ews O a s = v1_sub_ews O a s) /\
  (forall a b, v1_mul_assign_ew O a b = v1_mul_ew O a b) /\
  (forall a s, v1_mul_assign_ews O a s = v1_mul_ews O a s) /\
  (forall a b, v1_div_assign_ew O a b = v1_div_ew O a b) /\
  (forall a s, v1_div_assign_ews O a s = v1_div_ews O a s) /\
  (forall a b, v1_rem_assign_ew O a b = v1_rem_ew O a b) /\
  (forall a s, v1_rem_assign_ews O a s = v1_rem_ews O a s) /\
  (forall a b, v2_add_assign O a b = v2_add O a b) /\
  (forall a b, v2_sub_assign O a b = v2_sub O a b) /\
  (forall a s, v2_mul_assign O a s = v2_mul_s O a s) /\
  (forall a s, v2_div_assign O a s = v2_div_s O a s) /\
  (forall a s, v2_rem_assign O a s = v2_rem_s O a s) /\
  (forall a b, v2_add_assign_ew O a b = v2_add_ew O a b) /\
  (forall a s, v2_add_assign_ews O a s = v2_add_ews O a s) /\
  (forall a b, v2_sub_assign_ew O a b = v2_sub_ew O a b) /\
  (forall a s, v2_sub_assign_ews O a s = v2_sub_ews O a s) /\
  (forall a b, v2_mul_assign_ew O a b = v2_mul_ew O a b) /\
  (forall a s, v2_mul_assign_ews O a s = v2_mul_ews O a s) /\
  (forall a b, v2_div_assign_ew O a b = v2_div_ew O a b) /\
  (forall a s, v2_div_assign_ews O a s = v2_div_ews O a s) /\
  (forall a b, v2_rem_assign_ew O a b = v2_rem_ew O a b) /\
  (forall a s, v2_rem_assign_ews O a s = v2_rem_ews O a s) /\
  (forall a b, v3_add_assign O a b = v3_add O a b) /\
  (forall a b, v3_sub_assign O a b = v3_sub O a b) /\
  (forall a s, v3_mul_assign O a s = v3_mul_s O a s) /\
  (forall a s, v3_div_assign O a s = v3_div_s O a s) /\
  (forall a s, v3_rem_assign O a s = v3_rem_s O a s) /\
  (forall a b, v3_add_assign_ew O a b = v3_add_ew O a b) /\
  (forall a s, v3_add_assign_ews O a s = v3_add_ews O a s) /\
  (forall a b, v3_sub_assign_ew O a b = v3_sub_ew O a b) /\
  (forall a s, v3_sub_assign_ews O a s = v3_sub_ews O a s) /\
  (forall a b, v3_mul_assign_ew O a b = v3_mul_ew O a b) /\
  (forall a s, v3_mul_assign_ews O a s = v3_mul_ews O a s) /\
  (forall a b, v3_div_assign_ew O a b = v3_div_ew O a b) /\
  (forall a s, v3_div_assign_ews O a s = v3_div_ews O a s) /\
  (forall a b, v3_rem_assign_ew O a b = v3_rem_ew O a b) /\
  (forall a s, v3_rem_assign_ews O a s = v3_rem_ews O a s) /\
  (forall a b, v4_add_assign O a b = v4_add O a b) /\
  (forall a b, v4_sub_assign O a b = v4_sub O a b) /\
  (forall a s, v4_mul_assign O a s = v4_mul_s O a s) /\
  (forall a s, v4_div_assign O a s = v4_div_s O a s) /\
  (forall a s, v4_rem_assign O a s = v4_rem_s O a s) /\
  (forall a b, v4_add_assign_ew O a b = v4_add_ew O a b) /\
  (forall a s, v4_add_assign_ews O a s = v4_add_ews O a s) /\
  (forall a b, v4_sub_assign_ew O a b = v4_sub_ew O a b) /\
  (forall a s, v4_sub_assign_ews O a s = v4_sub_ews O a s) /\
  (forall a b, v4_mul_assign_ew O a b = v4_mul_ew O a b) /\
  (forall a s, v4_mul_assign_ews O a s = v4_mul_ews O a s) /\
  (forall a b, v4_div_assign_ew O a b = v4_div_ew O a b) /\
  (forall a s, v4_div_assign_ews O a s = v4_div_ews O a s) /\
  (forall a b, v4_rem_assign_ew O a b = v4_rem_ew O a b) /\
  (forall a s, v4_rem_assign_ews O a s = v4_rem_ews O a s).
Proof. exact assign_eq_value. Qed.
Print Assumptions C03_assign_forms.

(* non-vacuity: the hypotheses are met by the instances the correspondence check
   executes (exact rationals) and by the integers (integer scalar types, no overflow) *)
Example C03_CRing_Qc : CRing OpsQ.  Proof. exact Qcrt. Qed.
Example C03_Field_Qc : Field OpsQ.  Proof. exact Qcft. Qed.
Example C03_CRing_Z : CRing OpsZ.   Proof. exact InitialRing.Zth. Qed.
Example C03_cross_nontrivial :
  v3_cross OpsZ (mkV3 1 2 3)%Z (mkV3 (-4) 5 7)%Z = (mkV3 (-1) (-19) 13)%Z.
Proof. reflexivity. Qed.
