(* Properties/C09.v — C09: look_at / look_to build rigid view transforms with the documented handedness.
   Statements only; every proof is `exact <lemma>`.  Scalars are the reals.  Hypotheses: the viewing direction d is
   non-zero and up is not parallel to it (d x up <> 0). *)
From CG Require Import Scalar Model.Vector Model.Point Model.Matrix Model.Angle Model.Quaternion Model.Metric Model.Rotation Model.Transform
                       Proofs.Alg Proofs.RealInst Proofs.C09_LookR Proofs.C09_QuatR.
From Coq Require Import List QArith Reals.
Local Close Scope Q_scope.
Local Open Scope R_scope.
Local Notation O := OpsR.
Local Notation T := TrigR.

(* 1. Matrix3::look_to_rh / look_to_lh: orthonormal with determinant +1; d goes to (0,0,-|d|) (right-handed) resp.
      (0,0,+|d|) (left-handed); up goes into the half-plane x = 0, y > 0 *)
Theorem C09_matrix3 : forall d up : V3 R, 0 < v3_magnitude2 O d -> 0 < v3_magnitude2 O (v3_cross O d up) ->
  (let M := m3_look_to_rh O T d up in
   m3_mul O M (m3_transpose M) = m3_identity O /\ m3_determinant O M = 1 /\
   m3_mul_v O M d = mkV3 0 0 (- v3_magnitude O T d) /\ exists y z, 0 < y /\ m3_mul_v O M up = mkV3 0 y z) /\
  (let M := m3_look_to_lh O T d up in
   m3_mul O M (m3_transpose M) = m3_identity O /\ m3_determinant O M = 1 /\
   m3_mul_v O M d = mkV3 0 0 (v3_magnitude O T d) /\ exists y z, 0 < y /\ m3_mul_v O M up = mkV3 0 y z).
Proof. intros d up Hd Hc. exact (conj (m3_look_to_rh_spec d up Hd Hc) (m3_look_to_lh_spec d up Hd Hc)). Qed.
Print Assumptions C09_matrix3.

(* 2. Matrix4::look_to_rh / look_to_lh: an affine matrix (last row 0 0 0 1) whose rotation part is the Matrix3 of the same
      handedness, sending the eye to the origin: p |-> R (p - eye) *)
Theorem C09_matrix4 : forall (eye : P3 R) (d up : V3 R), 0 < v3_magnitude2 O d -> 0 < v3_magnitude2 O (v3_cross O d up) ->
  (let M := m4_look_to_rh O T eye d up in
   m4_upper M = m3_look_to_rh O T d up /\
   v4w (m4x M) = 0 /\ v4w (m4y M) = 0 /\ v4w (m4z M) = 0 /\ v4w (m4w M) = 1 /\
   m4_transform_point O M eye = p3_origin O /\
   (forall v, m4_transform_vector O M v = m3_mul_v O (m3_look_to_rh O T d up) v) /\
   (forall p, p3_to_vec (m4_transform_point O M p) = m3_mul_v O (m3_look_to_rh O T d up) (p3_sub_p O p eye))) /\
  (let M := m4_look_to_lh O T eye d up in
   m4_upper M = m3_look_to_lh O T d up /\
   v4w (m4x M) = 0 /\ v4w (m4y M) = 0 /\ v4w (m4z M) = 0 /\ v4w (m4w M) = 1 /\
   m4_transform_point O M eye = p3_origin O /\
   (forall v, m4_transform_vector O M v = m3_mul_v O (m3_look_to_lh O T d up) v) /\
   (forall p, p3_to_vec (m4_transform_point O M p) = m3_mul_v O (m3_look_to_lh O T d up) (p3_sub_p O p eye))).
Proof. intros eye d up Hd Hc. exact (conj (m4_look_to_rh_spec eye d up Hd Hc) (m4_look_to_lh_spec eye d up Hd Hc)). Qed.
Print Assumptions C09_matrix4.

(* 3. look_at_*(eye, center, up) = look_to_*(eye, center - eye, up); the left-handed constructors are the right-handed
      ones of the opposite direction; Rotation::look_at is the left-handed one (Basis3, Quaternion), Basis2 is Matrix2 *)
Theorem C09_entry_points : forall (eye center : P3 R) (up d : V3 R) (d2 up2 : V2 R),
  (m4_look_at_rh O T eye center up = m4_look_to_rh O T eye (p3_sub_p O center eye) up /\
   m4_look_at_lh O T eye center up = m4_look_to_lh O T eye (p3_sub_p O center eye) up /\
   m3_t3_look_at_rh O T eye center up = m3_look_to_rh O T (p3_sub_p O center eye) up /\
   m3_t3_look_at_lh O T eye center up = m3_look_to_lh O T (p3_sub_p O center eye) up /\
   m3_t3_look_at O T eye center up = m3_look_to_lh O T (p3_sub_p O center eye) up /\
   m4_look_to_lh O T eye (p3_sub_p O center eye) up = m4_look_to_rh O T eye (v3_neg O (p3_sub_p O center eye)) up /\
   m3_look_to_rh O T (p3_sub_p O center eye) up = m3_look_to_lh O T (v3_neg O (p3_sub_p O center eye)) up) /\
  (basis3_look_at O T d up = m3_look_to_lh O T d up /\
   quat_look_at O T d up = quat_of_m3 O T (m3_look_to_lh O T d up) /\
   basis2_look_at O T d2 up2 = m2_look_at O T d2 up2).
Proof. intros eye center up d d2 up2. exact (conj (look_at_is_look_to eye center up) (rotation_look_at d up d2 up2)). Qed.
Print Assumptions C09_entry_points.

(* 4. Decomposed<Vector3, Basis3>::look_at_rh / look_at_lh / look_at: scale 1, the Matrix3 rotation of the same
      handedness, and the same action on every point as the Matrix4 of the same handedness (so the eye goes to the origin) *)
Theorem C09_decomposed : forall (eye center : P3 R) (up : V3 R),
  0 < v3_magnitude2 O (p3_sub_p O center eye) -> 0 < v3_magnitude2 O (v3_cross O (p3_sub_p O center eye) up) ->
  let Dr := dec_look_at_rh O (RotBasis3 O) (Space3 O) (basis3_look_at O T) eye center up in
  let Dl := dec_look_at_lh O (RotBasis3 O) (Space3 O) (basis3_look_at O T) eye center up in
  d_scale Dr = 1 /\ d_rot Dr = m3_look_to_rh O T (p3_sub_p O center eye) up /\
  (forall p, dec_transform_point (RotBasis3 O) (Space3 O) Dr p = m4_transform_point O (m4_look_at_rh O T eye center up) p) /\
  d_scale Dl = 1 /\ d_rot Dl = m3_look_to_lh O T (p3_sub_p O center eye) up /\
  (forall p, dec_transform_point (RotBasis3 O) (Space3 O) Dl p = m4_transform_point O (m4_look_at_lh O T eye center up) p) /\
  dec_look_at O (RotBasis3 O) (Space3 O) (basis3_look_at O T) eye center up = Dl.
Proof. exact dec_look_at_basis3. Qed.
Print Assumptions C09_decomposed.

(* 4b. Quaternion::look_at(d, up) is a unit quaternion whose matrix is exactly Matrix3::look_to_lh(d, up), so it rotates
       every vector and point as that matrix does; Decomposed<Vector3, Quaternion>::look_at_rh / look_at_lh / look_at have
       scale 1, a unit rotation with the matrix of the same handedness, and act on every point as the Matrix4 of the same
       handedness (so the eye goes to the origin).  (Rests on C05_back_conversion_all_rotations.) *)
Theorem C09_quaternion : forall d up : V3 R, 0 < v3_magnitude2 O d -> 0 < v3_magnitude2 O (v3_cross O d up) ->
  let q := quat_look_at O T d up in
  quat_magnitude2 O q = 1 /\ m3_of_quat O q = m3_look_to_lh O T d up /\
  (forall v, quat_rotate_vector O q v = m3_mul_v O (m3_look_to_lh O T d up) v) /\
  (forall p, quat_rotate_point O q p = p3_from_vec (m3_mul_v O (m3_look_to_lh O T d up) (p3_to_vec p))).
Proof. exact quat_look_at_spec. Qed.
Print Assumptions C09_quaternion.
Theorem C09_decomposed_quaternion : forall (eye center : P3 R) (up : V3 R),
  0 < v3_magnitude2 O (p3_sub_p O center eye) -> 0 < v3_magnitude2 O (v3_cross O (p3_sub_p O center eye) up) ->
  let Dr := dec_look_at_rh O (RotQuat O) (Space3 O) (quat_look_at O T) eye center up in
  let Dl := dec_look_at_lh O (RotQuat O) (Space3 O) (quat_look_at O T) eye center up in
  d_scale Dr = 1 /\ quat_magnitude2 O (d_rot Dr) = 1 /\ m3_of_quat O (d_rot Dr) = m3_look_to_rh O T (p3_sub_p O center eye) up /\
  (forall p, dec_transform_point (RotQuat O) (Space3 O) Dr p = m4_transform_point O (m4_look_at_rh O T eye center up) p) /\
  d_scale Dl = 1 /\ quat_magnitude2 O (d_rot Dl) = 1 /\ m3_of_quat O (d_rot Dl) = m3_look_to_lh O T (p3_sub_p O center eye) up /\
  (forall p, dec_transform_point (RotQuat O) (Space3 O) Dl p = m4_transform_point O (m4_look_at_lh O T eye center up) p) /\
  dec_look_at O (RotQuat O) (Space3 O) (quat_look_at O T) eye center up = Dl.
Proof. exact dec_look_at_quat. Qed.
Print Assumptions C09_decomposed_quaternion.

(* 5. 2-D: Matrix2 / Basis2::look_at(d, up) has orthonormal columns, the first equal to d/|d|, the second on the side of up *)
Theorem C09_look_at_2d : forall d up : V2 R, 0 < v2_magnitude2 O d ->
  let M := m2_look_at O T d up in
  m2_mul O M (m2_transpose M) = m2_identity O /\
  m2x M = v2_normalize O T d /\ v2_magnitude2 O (m2x M) = 1 /\ v2_dot O (m2x M) (m2y M) = 0 /\ v2_magnitude2 O (m2y M) = 1 /\
  0 <= v2_dot O (m2y M) up.
Proof. exact m2_look_at_spec. Qed.
Print Assumptions C09_look_at_2d.

Example C09_general_position : 0 < v3_magnitude2 O (mkV3 1 2 2) /\ 0 < v3_magnitude2 O (v3_cross O (mkV3 1 2 2) (mkV3 0 1 0)).
Proof. exact general_position_example. Qed.
