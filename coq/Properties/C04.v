(* Properties/C04.v — C04: quaternions obey Hamilton's algebra and unit quaternions act as
   rotations.  Statements only; every proof is `exact <lemma>`.  quat_new w x y z has scalar part w. *)

From CG Require Import Scalar Model.Vector Model.Point Model.Matrix Model.Angle Model.Quaternion Exec.ExecQ
                       Proofs.Alg Proofs.RealInst Proofs.C03_Vector Proofs.C04_Quat Proofs.C04_QuatR.
From Coq Require Import List Ring Field QArith Qcanon Reals.
Import ListNotations.

(* 1. multiplication is associative, distributes over addition, one() is its identity *)
Theorem C04_algebra : forall F (O : Ops F), CRing O -> OfQHom O ->
  (forall p q r, quat_mul O (quat_mul O p q) r = quat_mul O p (quat_mul O q r)) /\
  (forall p q r, quat_mul O p (quat_add O q r) = quat_add O (quat_mul O p q) (quat_mul O p r) /\
                 quat_mul O (quat_add O p q) r = quat_add O (quat_mul O p r) (quat_mul O q r)) /\
  (forall p, quat_mul O p (quat_one O) = p /\ quat_mul O (quat_one O) p = p).
Proof. intros F O H Q. exact (conj (quat_mul_assoc H Q) (conj (quat_mul_distr H Q) (quat_mul_one H Q))). Qed.
Print Assumptions C04_algebra.

(* 2. Hamilton's defining relations i^2 = j^2 = k^2 = ijk = -1, ij = k, jk = i, ki = j *)
Theorem C04_hamilton : forall F (O : Ops F), CRing O -> OfQHom O ->
  let i := quat_new (zero O) (one O) (zero O) (zero O) in
  let j := quat_new (zero O) (zero O) (one O) (zero O) in
  let k := quat_new (zero O) (zero O) (zero O) (one O) in
  let m1 := quat_neg O (quat_one O) in
  quat_mul O i i = m1 /\ quat_mul O j j = m1 /\ quat_mul O k k = m1 /\
  quat_mul O i j = k /\ quat_mul O j k = i /\ quat_mul O k i = j /\
  quat_mul O (quat_mul O i j) k = m1.
Proof. intros F O H Q. exact (hamilton_ijk H Q). Qed.
Print Assumptions C04_hamilton.

(* 3. conjugate is an anti-homomorphism, the norm is multiplicative *)
Theorem C04_conj_norm : forall F (O : Ops F), CRing O -> OfQHom O ->
  (forall p q, quat_conjugate O (quat_mul O p q) = quat_mul O (quat_conjugate O q) (quat_conjugate O p)) /\
  (forall p q, quat_magnitude2 O (quat_mul O p q) = mul O (quat_magnitude2 O p) (quat_magnitude2 O q)) /\
  (forall q, quat_magnitude2 O q = add O (add O (add O (mul O (qs q) (qs q)) (mul O (v3x (qv q)) (v3x (qv q))))
                                                 (mul O (v3y (qv q)) (v3y (qv q)))) (mul O (v3z (qv q)) (v3z (qv q)))).
Proof. intros F O H Q. exact (conj (quat_conj_mul H Q) (conj (quat_norm_mul H Q) (quat_magnitude2_squares H Q))). Qed.
Print Assumptions C04_conj_norm.

(* 4. for q with non-zero norm (over the reals: q != 0) invert(q) = conj(q)/|q|^2 is a two-sided inverse *)
Theorem C04_invert : forall F (O : Ops F), Field O -> forall q, quat_magnitude2 O q <> zero O ->
  quat_mul O q (quat_invert O q) = quat_one O /\ quat_mul O (quat_invert O q) q = quat_one O.
Proof. intros F O H. exact (quat_invert_spec O H). Qed.
Print Assumptions C04_invert.
Theorem C04_invert_R : forall q : Quat R, q <> quat_zero OpsR ->
  quat_mul OpsR q (quat_invert OpsR q) = quat_one OpsR /\ quat_mul OpsR (quat_invert OpsR q) q = quat_one OpsR.
Proof. exact quat_invert_R. Qed.
Print Assumptions C04_invert_R.

(* 5. q*v = v + 2 qv x (qv x v + s v) for every quaternion q and vector v *)
Theorem C04_mul_v_formula : forall F (O : Ops F), CRing O -> OfQHom O -> forall q v,
  quat_mul_v O q v = v3_add O v (v3_mul_s O (v3_cross O (qv q) (v3_add O (v3_cross O (qv q) v) (v3_mul_s O v (qs q))))
                                           (add O (one O) (one O))).
Proof. intros F O H Q. exact (quat_mul_v_formula H Q). Qed.
Print Assumptions C04_mul_v_formula.

(* 6. for unit q, q*v is the vector part of q (0,v) conj(q) (general form with the (1-|q|^2) v correction) *)
Theorem C04_sandwich : forall F (O : Ops F), CRing O -> OfQHom O ->
  (forall q v, quat_mul_v O q v = v3_add O (qv (quat_mul O (quat_mul O q (pure O v)) (quat_conjugate O q)))
                                           (v3_mul_s O v (sub O (one O) (quat_magnitude2 O q))) /\
               qs (quat_mul O (quat_mul O q (pure O v)) (quat_conjugate O q)) = zero O) /\
  (forall q v, quat_magnitude2 O q = one O ->
               pure O (quat_mul_v O q v) = quat_mul O (quat_mul O q (pure O v)) (quat_conjugate O q)).
Proof. intros F O H Q. exact (conj (quat_mul_v_sandwich_general H Q) (quat_mul_v_sandwich H Q)). Qed.
Print Assumptions C04_sandwich.

(* 7. unit quaternions preserve length and compose: (p q)*v = p*(q*v) *)
Theorem C04_rotation : forall F (O : Ops F), CRing O -> OfQHom O ->
  (forall q v, quat_magnitude2 O q = one O -> v3_magnitude2 O (quat_mul_v O q v) = v3_magnitude2 O v) /\
  (forall p q v, quat_magnitude2 O p = one O -> quat_magnitude2 O q = one O ->
                 quat_mul_v O (quat_mul O p q) v = quat_mul_v O p (quat_mul_v O q v)) /\
  (forall q v w s, quat_mul_v O q (v3_add O v w) = v3_add O (quat_mul_v O q v) (quat_mul_v O q w) /\
                   quat_mul_v O q (v3_mul_s O v s) = v3_mul_s O (quat_mul_v O q v) s /\
                   quat_mul_v O (quat_one O) v = v) /\
  (forall q v p, quat_rotate_vector O q v = quat_mul_v O q v /\
                 quat_rotate_point O q p = p3_from_vec (quat_rotate_vector O q (p3_to_vec p))).
Proof.
  intros F O H Q.
  exact (conj (quat_mul_v_norm H Q) (conj (quat_mul_v_compose H Q) (conj (quat_mul_v_linear H Q) (quat_rotate_defs H Q)))).
Qed.
Print Assumptions C04_rotation.

(* 8. +, -, neg, scalar * /, conjugate, one, zero act on the components (order s, x, y, z) *)
Theorem C04_linear_ops : forall F (O : Ops F), CRing O -> OfQHom O -> forall p q s,
  quat_sxyz (quat_add O p q) = lzip (add O) (quat_sxyz p) (quat_sxyz q) /\
  quat_sxyz (quat_sub O p q) = lzip (sub O) (quat_sxyz p) (quat_sxyz q) /\
  quat_sxyz (quat_neg O p) = map (opp O) (quat_sxyz p) /\
  quat_sxyz (quat_mul_s O p s) = map (fun c => mul O c s) (quat_sxyz p) /\
  quat_sxyz (quat_div_s O p s) = map (fun c => div O c s) (quat_sxyz p) /\
  quat_sxyz (quat_conjugate O p) = qs p :: map (opp O) (v3_list (qv p)) /\
  quat_sxyz (quat_one O) = [one O; zero O; zero O; zero O] /\
  quat_sxyz (quat_zero O) = [zero O; zero O; zero O; zero O].
Proof. intros F O H Q. exact (quat_linear_ops H Q). Qed.
Print Assumptions C04_linear_ops.

(* non-vacuity *)
Example C04_hyps_Qc : CRing OpsQ /\ Field OpsQ /\ OfQHom OpsQ.
Proof. exact (conj CRing_Qc (conj Field_Qc OfQHom_Qc)). Qed.
Example C04_hyps_R : CRing OpsR /\ Field OpsR /\ OfQHom OpsR.
Proof. exact (conj CRing_R (conj Field_R OfQHom_R)). Qed.
Example C04_unit_quaternion_exists :
  quat_magnitude2 OpsQ (quat_new (Q2Qc (1#3)) (Q2Qc (2#3)) (Q2Qc (2#3)) (Q2Qc 0)) = Q2Qc 1.
Proof. apply Qc_is_canon. vm_compute. reflexivity. Qed.
