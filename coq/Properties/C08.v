(* Properties/C08.v — C08: transforms compose, invert and convert to matrices consistently.
   Statements only; every proof is `exact <lemma>`.
   Decomposed{scale, rot, disp} is modelled over an abstract rotation type with operations RO; the
   theorems hold for every rotation type satisfying RotLaws3 / RotLaws2 on its valid elements, and
   C08_rotation_types shows that unit quaternions, orthonormal Basis3 and orthonormal Basis2 do. *)

From CG Require Import Scalar Model.Vector Model.Point Model.Matrix Model.Angle Model.Quaternion Model.Metric
                       Model.Rotation Model.Transform Exec.ExecQ
                       Proofs.Alg Proofs.NsatzField Proofs.C01_Matrix Proofs.C08_Transform Proofs.C08_Instances
                       Proofs.C08_Transform2 Proofs.C08_Instances2.
From Coq Require Import List Ring Field QArith Qcanon.
Import ListNotations.
Local Close Scope Q_scope.

(* the three rotation types of cgmath satisfy the laws on their valid elements *)
Theorem C08_rotation_types : forall F (O : Ops F), Field O -> EqDec O -> OfQHom O -> EqbSpec O ->
  RotLaws3 O (RotQuat O) (quat_unit O) (m3_of_quat O) /\
  RotLaws3 O (RotBasis3 O) (m3_orthonormal O) (fun m => m) /\
  RotLaws2 O (RotBasis2 O) (m2_orthonormal O) (fun m => m) /\
  (forall q, quat_unit O q -> m3_orthonormal O (basis3_from_quaternion O q)).
Proof.
  intros F O H D Q E.
  exact (conj (RotLaws_quat H D Q E) (conj (RotLaws_basis3 H D Q E) (conj (RotLaws_basis2 H D Q E) (basis3_of_unit_quat H D Q E)))).
Qed.
Print Assumptions C08_rotation_types.

(* 3-D Decomposed: concat(s,t) (= s*t, concat_self) applied to p or v equals s applied to the result of t;
   one() leaves everything unchanged; transform_vector ignores displacement *)
Theorem C08_decomposed3_compose : forall F (O : Ops F) R (RO : RotOps R (V3 F) (P3 F)) valid to_m3,
  Field O -> RotLaws3 O RO valid to_m3 ->
  let S := Space3 O in
  (forall a b v, valid (d_rot a) -> valid (d_rot b) ->
     dec_transform_vector RO S (dec_concat O RO S a b) v = dec_transform_vector RO S a (dec_transform_vector RO S b v)) /\
  (forall a b p, valid (d_rot a) -> valid (d_rot b) ->
     dec_transform_point RO S (dec_concat O RO S a b) p = dec_transform_point RO S a (dec_transform_point RO S b p)) /\
  (forall a b, dec_mul O RO S a b = dec_concat O RO S a b) /\
  (forall v p, dec_transform_vector RO S (dec_one O RO S) v = v /\ dec_transform_point RO S (dec_one O RO S) p = p) /\
  (forall s r d d' v, dec_transform_vector RO S (mkDec s r d) v = dec_transform_vector RO S (mkDec s r d') v).
Proof.
  intros F O R RO valid to_m3 H L S.
  exact (conj (dec_concat_vector H L) (conj (dec_concat_point H L) (conj (fun a b => eq_refl)
        (conj (dec_one_apply H L) (dec_vector_ignores_disp H L))))).
Qed.
Print Assumptions C08_decomposed3_compose.

(* inverse_transform() is None for a (ulps-)zero scale factor; otherwise it is the transform that
   undoes it on points and vectors, and inverse_transform_vector agrees with it *)
Theorem C08_decomposed3_inverse : forall F (O : Ops F) (A : Approx F) R (RO : RotOps R (V3 F) (P3 F)) valid to_m3,
  Field O -> RotLaws3 O RO valid to_m3 ->
  let S := Space3 O in
  (forall d, valid (d_rot d) ->
     (ulps_eq_d A (d_scale d) (zero O) = true ->
        dec_inverse_transform O A RO S d = Some None /\ forall v, dec_inverse_transform_vector O A RO S d v = Some None) /\
     (ulps_eq_d A (d_scale d) (zero O) = false ->
        exists d', dec_inverse_transform O A RO S d = Some (Some d') /\ valid (d_rot d') /\
          d_scale d' = div O (one O) (d_scale d) /\
          forall v, dec_inverse_transform_vector O A RO S d v = Some (Some (dec_transform_vector RO S d' v)))) /\
  (forall d d', valid (d_rot d) -> d_scale d <> zero O -> dec_inverse_transform O A RO S d = Some (Some d') ->
     (forall v, dec_transform_vector RO S d' (dec_transform_vector RO S d v) = v /\
                dec_transform_vector RO S d (dec_transform_vector RO S d' v) = v) /\
     (forall p, dec_transform_point RO S d' (dec_transform_point RO S d p) = p /\
                dec_transform_point RO S d (dec_transform_point RO S d' p) = p)).
Proof.
  intros F O A R RO valid to_m3 H L S.
  exact (conj (fun d => @dec_inverse_cases F O H A R RO valid to_m3 L d) (fun d d' => @dec_inverse_undoes F O H A R RO valid to_m3 L d d')).
Qed.
Print Assumptions C08_decomposed3_inverse.

(* converting a Decomposed transform to a Matrix4 commutes with applying, composing and inverting it *)
Theorem C08_decomposed3_matrix : forall F (O : Ops F) (A : Approx F) R (RO : RotOps R (V3 F) (P3 F)) valid to_m3,
  Field O -> RotLaws3 O RO valid to_m3 ->
  let S := Space3 O in
  (forall d v p, m4_transform_vector O (m4_of_dec O to_m3 d) v = dec_transform_vector RO S d v /\
                 m4_transform_point O (m4_of_dec O to_m3 d) p = dec_transform_point RO S d p) /\
  (forall a b, valid (d_rot a) -> valid (d_rot b) ->
     m4_of_dec O to_m3 (dec_concat O RO S a b) = m4_mul O (m4_of_dec O to_m3 a) (m4_of_dec O to_m3 b)) /\
  (forall d d', valid (d_rot d) -> d_scale d <> zero O -> dec_inverse_transform O A RO S d = Some (Some d') ->
     m4_mul O (m4_of_dec O to_m3 d') (m4_of_dec O to_m3 d) = m4_identity O /\
     m4_mul O (m4_of_dec O to_m3 d) (m4_of_dec O to_m3 d') = m4_identity O).
Proof.
  intros F O A R RO valid to_m3 H L S.
  exact (conj (m4_of_dec_apply H L) (conj (m4_of_dec_concat H L) (fun d d' => @m4_of_dec_inverse F O H A R RO valid to_m3 L d d'))).
Qed.
Print Assumptions C08_decomposed3_matrix.

(* the same for the 2-D instantiation (Decomposed<Vector2, Basis2>, converting to Matrix3) *)
Theorem C08_decomposed2 : forall F (O : Ops F) (A : Approx F) R (RO : RotOps R (V2 F) (P2 F)) valid to_m2,
  Field O -> RotLaws2 O RO valid to_m2 ->
  let S := Space2 O in
  (forall a b v, valid (d_rot a) -> valid (d_rot b) ->
     dec_transform_vector RO S (dec_concat O RO S a b) v = dec_transform_vector RO S a (dec_transform_vector RO S b v)) /\
  (forall a b p, valid (d_rot a) -> valid (d_rot b) ->
     dec_transform_point RO S (dec_concat O RO S a b) p = dec_transform_point RO S a (dec_transform_point RO S b p)) /\
  (forall v p, dec_transform_vector RO S (dec_one O RO S) v = v /\ dec_transform_point RO S (dec_one O RO S) p = p) /\
  (forall d, valid (d_rot d) ->
     (ulps_eq_d A (d_scale d) (zero O) = true ->
        dec_inverse_transform O A RO S d = Some None /\ forall v, dec_inverse_transform_vector O A RO S d v = Some None) /\
     (ulps_eq_d A (d_scale d) (zero O) = false ->
        exists d', dec_inverse_transform O A RO S d = Some (Some d') /\ valid (d_rot d') /\
          d_scale d' = div O (one O) (d_scale d) /\
          forall v, dec_inverse_transform_vector O A RO S d v = Some (Some (dec_transform_vector RO S d' v)))) /\
  (forall d d', valid (d_rot d) -> d_scale d <> zero O -> dec_inverse_transform O A RO S d = Some (Some d') ->
     (forall v, dec_transform_vector RO S d' (dec_transform_vector RO S d v) = v /\
                dec_transform_vector RO S d (dec_transform_vector RO S d' v) = v) /\
     (forall p, dec_transform_point RO S d' (dec_transform_point RO S d p) = p /\
                dec_transform_point RO S d (dec_transform_point RO S d' p) = p)) /\
  (forall d v p, m3_transform_vector2 O (m3_of_dec O to_m2 d) v = dec_transform_vector RO S d v /\
                 m3_transform_point2 O (m3_of_dec O to_m2 d) p = dec_transform_point RO S d p) /\
  (forall a b, valid (d_rot a) -> valid (d_rot b) ->
     m3_of_dec O to_m2 (dec_concat O RO S a b) = m3_mul O (m3_of_dec O to_m2 a) (m3_of_dec O to_m2 b)) /\
  (forall d d', valid (d_rot d) -> d_scale d <> zero O -> dec_inverse_transform O A RO S d = Some (Some d') ->
     m3_mul O (m3_of_dec O to_m2 d') (m3_of_dec O to_m2 d) = m3_identity O /\
     m3_mul O (m3_of_dec O to_m2 d) (m3_of_dec O to_m2 d') = m3_identity O).
Proof.
  intros F O A R RO valid to_m2 H L S.
  exact (conj (dec2_concat_vector H L) (conj (dec2_concat_point H L) (conj (dec2_one_apply H L)
        (conj (fun d => @dec2_inverse_cases F O H A R RO valid to_m2 L d)
        (conj (fun d d' => @dec2_inverse_undoes F O H A R RO valid to_m2 L d d')
        (conj (m3_of_dec_apply H L) (conj (m3_of_dec_concat H L)
              (fun d d' => @m3_of_dec_inverse F O H A R RO valid to_m2 L d d')))))))).
Qed.
Print Assumptions C08_decomposed2.

(* Matrix3 (as a 3-D transform: all matrices), Matrix4 and Matrix3-as-2-D-transform (affine matrices:
   the documented domain of Transform) *)
Theorem C08_matrix_transforms : forall F (O : Ops F), Field O -> EqDec O -> OfQHom O -> EqbSpec O ->
  (forall a b v p,
     m3_transform_vector3 O (m3_concat O a b) v = m3_transform_vector3 O a (m3_transform_vector3 O b v) /\
     m3_transform_point3 O (m3_concat O a b) p = m3_transform_point3 O a (m3_transform_point3 O b p) /\
     m3_transform_vector3 O (m3_identity O) v = v /\ m3_transform_point3 O (m3_identity O) p = p) /\
  (forall m n v p, m3_inverse_transform O m = Some n ->
     m3_transform_vector3 O n (m3_transform_vector3 O m v) = v /\ m3_transform_vector3 O m (m3_transform_vector3 O n v) = v /\
     m3_transform_point3 O n (m3_transform_point3 O m p) = p /\ m3_transform_point3 O m (m3_transform_point3 O n p) = p) /\
  (forall a b v p, m4_affine O a -> m4_affine O b ->
     m4_transform_vector O (m4_concat O a b) v = m4_transform_vector O a (m4_transform_vector O b v) /\
     m4_transform_point O (m4_concat O a b) p = m4_transform_point O a (m4_transform_point O b p) /\
     m4_transform_vector O (m4_identity O) v = v /\ m4_transform_point O (m4_identity O) p = p) /\
  (forall m n, m4_affine O m -> m4_inverse_transform O m = Some n -> m4_affine O n) /\
  (forall m n v p, m4_affine O m -> m4_affine O n -> m4_inverse_transform O m = Some n ->
     m4_transform_vector O n (m4_transform_vector O m v) = v /\ m4_transform_vector O m (m4_transform_vector O n v) = v /\
     m4_transform_point O n (m4_transform_point O m p) = p /\ m4_transform_point O m (m4_transform_point O n p) = p) /\
  (forall a b v p, m3_affine2 O a -> m3_affine2 O b ->
     m3_transform_vector2 O (m3_concat O a b) v = m3_transform_vector2 O a (m3_transform_vector2 O b v) /\
     m3_transform_point2 O (m3_concat O a b) p = m3_transform_point2 O a (m3_transform_point2 O b p) /\
     m3_transform_vector2 O (m3_identity O) v = v /\ m3_transform_point2 O (m3_identity O) p = p) /\
  (forall m n, m3_affine2 O m -> m3_inverse_transform O m = Some n -> m3_affine2 O n) /\
  (forall m n v p, m3_affine2 O m -> m3_affine2 O n -> m3_inverse_transform O m = Some n ->
     m3_transform_vector2 O n (m3_transform_vector2 O m v) = v /\ m3_transform_vector2 O m (m3_transform_vector2 O n v) = v /\
     m3_transform_point2 O n (m3_transform_point2 O m p) = p /\ m3_transform_point2 O m (m3_transform_point2 O n p) = p).
Proof.
  intros F O H D Q E.
  exact (conj (m3_transform3_concat H D Q E) (conj (m3_transform3_inverse H D Q E)
        (conj (fun a b v p => @m4_transform_concat F O H D Q E a b v p) (conj (@m4_affine_inverse F O H D Q E)
        (conj (fun m n v p => @m4_transform_inverse F O H D Q E m n v p)
        (conj (fun a b v p => @m3_transform2_concat F O H D Q E a b v p) (conj (@m3_affine2_inverse F O H D Q E)
              (fun m n v p => @m3_transform2_inverse F O H D Q E m n v p)))))))).
Qed.
Print Assumptions C08_matrix_transforms.

(* non-vacuity *)
Example C08_hyps_Qc : Field OpsQ /\ EqDec OpsQ /\ OfQHom OpsQ /\ EqbSpec OpsQ.
Proof. exact (conj Field_Qc (conj EqDec_Qc (conj OfQHom_Qc EqbSpec_Qc))). Qed.
Example C08_unit_quat : quat_unit OpsQ (quat_new (Q2Qc (Qmake 1 3)) (Q2Qc (Qmake 2 3)) (Q2Qc (Qmake 2 3)) (Q2Qc (Qmake 0 1))).
Proof. unfold quat_unit. apply Qc_is_canon. vm_compute. reflexivity. Qed.
