From Coq Require Import Reals Lra Psatz ZArith.
Open Scope R_scope.
Lemma sin_lower x : 0 <= x <= 1 -> x - x * x * x / 6 <= sin x.
Proof.
  intros H. assert (P : x <= PI) by (pose proof PI2_3_2; lra).
  destruct (SIN x (proj1 H) P) as [L _].
  unfold sin_lb, sin_approx, sin_term in L. cbn [sum_f_R0] in L.
  rewrite !INR_IZR_INZ in L.
  change (Z.of_nat (fact (2 * 0 + 1))) with 1%Z in L.
  change (Z.of_nat (fact (2 * 1 + 1))) with 6%Z in L.
  change (Z.of_nat (fact (2 * 2 + 1))) with 120%Z in L.
  change (Z.of_nat (fact (2 * 3 + 1))) with 5040%Z in L.
  cbn [Nat.mul Nat.add pow] in L.
  eapply Rle_trans; [|exact L].
  assert (Q : 0 <= x * x * x * x * x * (42 - x * x)).
  { assert (0 <= x * x) by nra. assert (0 <= x * x * x * x) by nra. assert (0 <= x*x*x*x*x) by nra. assert (0 <= 42 - x*x) by nra. nra. }
  lra.
Qed.
