(* Proofs/C01_Matrix.v — column-major, column-vector convention (property C01). *)
From Coq Require Import List Arith Lia Ring Field Bool.
From CG Require Import Scalar Model.Vector Model.Point Model.Matrix Proofs.Tac Proofs.C03_Vector.
Import ListNotations.
Set Implicit Arguments.

(* total element accessors used on the specification side: e m c r = element (column c, row r) *)
Definition oget (A : Type) (d : A) (o : option A) : A := match o with Some a => a | None => d end.

Section Layout.
  Variable A : Type.
  Variable d : A.
  Definition e2 (m : M2 A) (c r : nat) : A := oget d (m2_e m c r).
  Definition e3 (m : M3 A) (c r : nat) : A := oget d (m3_e m c r).
  Definition e4 (m : M4 A) (c r : nat) : A := oget d (m4_e m c r).

  (* element (c, r) is the r-th component of the c-th column given to the constructor,
     and the flat memory image is column-major *)
  Lemma m2_new_list (a b c' d' : A) : m2_list (m2_new a b c' d') = [a; b; c'; d']. Proof. reflexivity. Qed.
  Lemma m3_new_list (a0 a1 a2 b0 b1 b2 c0 c1 c2 : A) :
    m3_list (m3_new a0 a1 a2 b0 b1 b2 c0 c1 c2) = [a0; a1; a2; b0; b1; b2; c0; c1; c2]. Proof. reflexivity. Qed.
  Lemma m4_new_list (a0 a1 a2 a3 b0 b1 b2 b3 c0 c1 c2 c3 d0 d1 d2 d3 : A) :
    m4_list (m4_new a0 a1 a2 a3 b0 b1 b2 b3 c0 c1 c2 c3 d0 d1 d2 d3)
    = [a0; a1; a2; a3; b0; b1; b2; b3; c0; c1; c2; c3; d0; d1; d2; d3]. Proof. reflexivity. Qed.
  Lemma m2_from_cols_col (c0 c1 : V2 A) :
    m2_col (m2_from_cols c0 c1) 0 = Some c0 /\ m2_col (m2_from_cols c0 c1) 1 = Some c1. Proof. split; reflexivity. Qed.
  Lemma m3_from_cols_col (c0 c1 c2 : V3 A) :
    m3_col (m3_from_cols c0 c1 c2) 0 = Some c0 /\ m3_col (m3_from_cols c0 c1 c2) 1 = Some c1 /\
    m3_col (m3_from_cols c0 c1 c2) 2 = Some c2. Proof. repeat split; reflexivity. Qed.
  Lemma m4_from_cols_col (c0 c1 c2 c3 : V4 A) :
    m4_col (m4_from_cols c0 c1 c2 c3) 0 = Some c0 /\ m4_col (m4_from_cols c0 c1 c2 c3) 1 = Some c1 /\
    m4_col (m4_from_cols c0 c1 c2 c3) 2 = Some c2 /\ m4_col (m4_from_cols c0 c1 c2 c3) 3 = Some c3.
  Proof. repeat split; reflexivity. Qed.

  Ltac idx4 c := destruct c as [|[|[|[|c]]]]; try lia.
  Ltac idx3 c := destruct c as [|[|[|c]]]; try lia.
  Ltac idx2 c := destruct c as [|[|c]]; try lia.

  Lemma m2_e_flat (m : M2 A) c r : c < 2 -> r < 2 -> m2_e m c r = Some (nth (2 * c + r) (m2_list m) d)
                                          /\ m2_e m c r = match m2_col m c with Some v => v2_get v r | None => None end.
  Proof. intros Hc Hr. destruct m as [[? ?] [? ?]]. idx2 c; idx2 r; split; reflexivity. Qed.
  Lemma m3_e_flat (m : M3 A) c r : c < 3 -> r < 3 -> m3_e m c r = Some (nth (3 * c + r) (m3_list m) d)
                                          /\ m3_e m c r = match m3_col m c with Some v => v3_get v r | None => None end.
  Proof. intros Hc Hr. destruct m as [[? ? ?] [? ? ?] [? ? ?]]. idx3 c; idx3 r; split; reflexivity. Qed.
  Lemma m4_e_flat (m : M4 A) c r : c < 4 -> r < 4 -> m4_e m c r = Some (nth (4 * c + r) (m4_list m) d)
                                          /\ m4_e m c r = match m4_col m c with Some v => v4_get v r | None => None end.
  Proof. intros Hc Hr. destruct m as [[? ? ? ?] [? ? ? ?] [? ? ? ?] [? ? ? ?]]. idx4 c; idx4 r; split; reflexivity. Qed.
  (* out-of-range indices panic *)
  Lemma m2_e_oob (m : M2 A) c r : 2 <= c \/ 2 <= r -> m2_e m c r = None.
  Proof. intros H. destruct m as [[? ?] [? ?]]. destruct c as [|[|c]]; destruct r as [|[|r]]; try reflexivity; lia. Qed.
  Lemma m3_e_oob (m : M3 A) c r : 3 <= c \/ 3 <= r -> m3_e m c r = None.
  Proof. intros H. destruct m as [[? ? ?] [? ? ?] [? ? ?]]. destruct c as [|[|[|c]]]; destruct r as [|[|[|r]]]; try reflexivity; lia. Qed.
  Lemma m4_e_oob (m : M4 A) c r : 4 <= c \/ 4 <= r -> m4_e m c r = None.
  Proof. intros H. destruct m as [[? ? ? ?] [? ? ? ?] [? ? ? ?] [? ? ? ?]].
         destruct c as [|[|[|[|c]]]]; destruct r as [|[|[|[|r]]]]; try reflexivity; lia. Qed.

  (* row(r) reads exactly row r; transpose mirrors; diagonal reads (i,i) *)
  Lemma m2_row_spec (m : M2 A) r : r < 2 -> m2_row m r = Some (mkV2 (e2 m 0 r) (e2 m 1 r)).
  Proof. intros Hr. destruct m as [[? ?] [? ?]]. idx2 r; reflexivity. Qed.
  Lemma m3_row_spec (m : M3 A) r : r < 3 -> m3_row m r = Some (mkV3 (e3 m 0 r) (e3 m 1 r) (e3 m 2 r)).
  Proof. intros Hr. destruct m as [[? ? ?] [? ? ?] [? ? ?]]. idx3 r; reflexivity. Qed.
  Lemma m4_row_spec (m : M4 A) r : r < 4 -> m4_row m r = Some (mkV4 (e4 m 0 r) (e4 m 1 r) (e4 m 2 r) (e4 m 3 r)).
  Proof. intros Hr. destruct m as [[? ? ? ?] [? ? ? ?] [? ? ? ?] [? ? ? ?]]. idx4 r; reflexivity. Qed.
  Lemma m2_row_oob (m : M2 A) r : 2 <= r -> m2_row m r = None.
  Proof. intros. destruct m as [[? ?] [? ?]]. destruct r as [|[|r]]; try lia; reflexivity. Qed.
  Lemma m3_row_oob (m : M3 A) r : 3 <= r -> m3_row m r = None.
  Proof. intros. destruct m as [[? ? ?] [? ? ?] [? ? ?]]. destruct r as [|[|[|r]]]; try lia; reflexivity. Qed.
  Lemma m4_row_oob (m : M4 A) r : 4 <= r -> m4_row m r = None.
  Proof. intros. destruct m as [[? ? ? ?] [? ? ? ?] [? ? ? ?] [? ? ? ?]]. destruct r as [|[|[|[|r]]]]; try lia; reflexivity. Qed.
  Lemma m2_transpose_spec (m : M2 A) c r : c < 2 -> r < 2 -> e2 (m2_transpose m) c r = e2 m r c.
  Proof. intros Hc Hr. destruct m as [[? ?] [? ?]]. idx2 c; idx2 r; reflexivity. Qed.
  Lemma m3_transpose_spec (m : M3 A) c r : c < 3 -> r < 3 -> e3 (m3_transpose m) c r = e3 m r c.
  Proof. intros Hc Hr. destruct m as [[? ? ?] [? ? ?] [? ? ?]]. idx3 c; idx3 r; reflexivity. Qed.
  Lemma m4_transpose_spec (m : M4 A) c r : c < 4 -> r < 4 -> e4 (m4_transpose m) c r = e4 m r c.
  Proof. intros Hc Hr. destruct m as [[? ? ? ?] [? ? ? ?] [? ? ? ?] [? ? ? ?]]. idx4 c; idx4 r; reflexivity. Qed.
  Lemma m2_diagonal_spec (m : M2 A) : v2_list (m2_diagonal m) = map (fun i => e2 m i i) (seq 0 2).
  Proof. destruct m as [[? ?] [? ?]]. reflexivity. Qed.
  Lemma m3_diagonal_spec (m : M3 A) : v3_list (m3_diagonal m) = map (fun i => e3 m i i) (seq 0 3).
  Proof. destruct m as [[? ? ?] [? ? ?] [? ? ?]]. reflexivity. Qed.
  Lemma m4_diagonal_spec (m : M4 A) : v4_list (m4_diagonal m) = map (fun i => e4 m i i) (seq 0 4).
  Proof. destruct m as [[? ? ? ?] [? ? ? ?] [? ? ? ?] [? ? ? ?]]. reflexivity. Qed.
End Layout.

Section RingLaws.
  Variable F : Type.
  Variable O : Ops F.
  Hypothesis Rth : ring_theory (zero O) (one O) (add O) (mul O) (sub O) (opp O) eq.
  Add Ring Rr : Rth.
  Set Default Proof Using "Rth".
  Local Notation "0" := (zero O).
  Local Notation "1" := (one O).
  Local Infix "+" := (add O).
  Local Infix "-" := (sub O).
  Local Infix "*" := (mul O).
  Local Notation "- x" := (opp O x).
  Local Notation E2 := (e2 0).
  Local Notation E3 := (e3 0).
  Local Notation E4 := (e4 0).
  Definition sigma (n : nat) (f : nat -> F) : F := fold_right (add O) 0 (map f (seq 0 n)).
  Definition delta (c r : nat) : F := if Nat.eqb c r then 1 else 0.

  Ltac mring := intros; destruct_mats; unfold_model; mat_eq; try ring.
  Ltac idx4 c := destruct c as [|[|[|[|c]]]]; try lia.
  Ltac idx3 c := destruct c as [|[|[|c]]]; try lia.
  Ltac idx2 c := destruct c as [|[|c]]; try lia.

  (* ---- A * v = sum over c of (column c of A) scaled by v[c] ---- *)
  Lemma m2_mul_v_columns A v :
    m2_mul_v O A v = v2_add O (v2_mul_s O (m2x A) (v2x v)) (v2_mul_s O (m2y A) (v2y v)).
  Proof. mring. Qed.
  Lemma m3_mul_v_columns A v :
    m3_mul_v O A v = v3_add O (v3_add O (v3_mul_s O (m3x A) (v3x v)) (v3_mul_s O (m3y A) (v3y v)))
                              (v3_mul_s O (m3z A) (v3z v)).
  Proof. mring. Qed.
  Lemma m4_mul_v_columns A v :
    m4_mul_v O A v = v4_add O (v4_add O (v4_add O (v4_mul_s O (m4x A) (v4x v)) (v4_mul_s O (m4y A) (v4y v)))
                                        (v4_mul_s O (m4z A) (v4z v)))
                              (v4_mul_s O (m4w A) (v4w v)).
  Proof. mring. Qed.
  (* row-by-row reading: (A v)[r] = sum_k A[k][r] * v[k] *)
  Lemma m2_mul_v_sigma A v r : r < 2 ->
    oget 0 (v2_get (m2_mul_v O A v) r) = sigma 2 (fun k => E2 A k r * oget 0 (v2_get v k)).
  Proof. intros Hr. destruct_mats. idx2 r; unfold sigma, e2; unfold_model; cbv [oget]; ring. Qed.
  Lemma m3_mul_v_sigma A v r : r < 3 ->
    oget 0 (v3_get (m3_mul_v O A v) r) = sigma 3 (fun k => E3 A k r * oget 0 (v3_get v k)).
  Proof. intros Hr. destruct_mats. idx3 r; unfold sigma, e3; unfold_model; cbv [oget]; ring. Qed.
  Lemma m4_mul_v_sigma A v r : r < 4 ->
    oget 0 (v4_get (m4_mul_v O A v) r) = sigma 4 (fun k => E4 A k r * oget 0 (v4_get v k)).
  Proof. intros Hr. destruct_mats. idx4 r; unfold sigma, e4; unfold_model; cbv [oget]; ring. Qed.

  (* ---- column c of A * B = A * (column c of B) ---- *)
  Lemma m2_mul_columns A B :
    m2_mul O A B = mkM2 (m2_mul_v O A (m2x B)) (m2_mul_v O A (m2y B)).
  Proof. mring. Qed.
  Lemma m3_mul_columns A B :
    m3_mul O A B = mkM3 (m3_mul_v O A (m3x B)) (m3_mul_v O A (m3y B)) (m3_mul_v O A (m3z B)).
  Proof. mring. Qed.
  Lemma m4_mul_columns A B :
    m4_mul O A B = mkM4 (m4_mul_v O A (m4x B)) (m4_mul_v O A (m4y B)) (m4_mul_v O A (m4z B)) (m4_mul_v O A (m4w B)).
  Proof. mring. Qed.
  (* textbook: (A B)[c][r] = sum_k A[k][r] * B[c][k] *)
  Lemma m2_mul_sigma A B c r : c < 2 -> r < 2 -> E2 (m2_mul O A B) c r = sigma 2 (fun k => E2 A k r * E2 B c k).
  Proof. intros Hc Hr. destruct_mats. idx2 c; idx2 r; unfold sigma, e2; unfold_model; cbv [oget]; ring. Qed.
  Lemma m3_mul_sigma A B c r : c < 3 -> r < 3 -> E3 (m3_mul O A B) c r = sigma 3 (fun k => E3 A k r * E3 B c k).
  Proof. intros Hc Hr. destruct_mats. idx3 c; idx3 r; unfold sigma, e3; unfold_model; cbv [oget]; ring. Qed.
  Lemma m4_mul_sigma A B c r : c < 4 -> r < 4 -> E4 (m4_mul O A B) c r = sigma 4 (fun k => E4 A k r * E4 B c k).
  Proof. intros Hc Hr. destruct_mats. idx4 c; idx4 r; unfold sigma, e4; unfold_model; cbv [oget]; ring. Qed.

  (* ---- trace ---- *)
  Lemma m2_trace_spec m : m2_trace O m = sigma 2 (fun i => E2 m i i).
  Proof. destruct_mats. unfold sigma, e2; unfold_model; cbv [oget]; ring. Qed.
  Lemma m3_trace_spec m : m3_trace O m = sigma 3 (fun i => E3 m i i).
  Proof. destruct_mats. unfold sigma, e3; unfold_model; cbv [oget]; ring. Qed.
  Lemma m4_trace_spec m : m4_trace O m = sigma 4 (fun i => E4 m i i).
  Proof. destruct_mats. unfold sigma, e4; unfold_model; cbv [oget]; ring. Qed.

  (* ---- embeddings: top-left corner of an identity matrix ---- *)
  Lemma m3_of_m2_spec m c r : c < 3 -> r < 3 ->
    E3 (m3_of_m2 O m) c r = if andb (c <? 2) (r <? 2) then E2 m c r else delta c r.
  Proof. intros Hc Hr. destruct_mats. idx3 c; idx3 r; reflexivity. Qed.
  Lemma m4_of_m2_spec m c r : c < 4 -> r < 4 ->
    E4 (m4_of_m2 O m) c r = if andb (c <? 2) (r <? 2) then E2 m c r else delta c r.
  Proof. intros Hc Hr. destruct_mats. idx4 c; idx4 r; reflexivity. Qed.
  Lemma m4_of_m3_spec m c r : c < 4 -> r < 4 ->
    E4 (m4_of_m3 O m) c r = if andb (c <? 3) (r <? 3) then E3 m c r else delta c r.
  Proof. intros Hc Hr. destruct_mats. idx4 c; idx4 r; reflexivity. Qed.

  (* ---- constructors: identity / from_value / from_diagonal element-wise and by action ---- *)
  Lemma m2_from_value_spec v c r : c < 2 -> r < 2 -> E2 (m2_from_value O v) c r = if Nat.eqb c r then v else 0.
  Proof. intros Hc Hr. idx2 c; idx2 r; reflexivity. Qed.
  Lemma m3_from_value_spec v c r : c < 3 -> r < 3 -> E3 (m3_from_value O v) c r = if Nat.eqb c r then v else 0.
  Proof. intros Hc Hr. idx3 c; idx3 r; reflexivity. Qed.
  Lemma m4_from_value_spec v c r : c < 4 -> r < 4 -> E4 (m4_from_value O v) c r = if Nat.eqb c r then v else 0.
  Proof. intros Hc Hr. idx4 c; idx4 r; reflexivity. Qed.
  Lemma m2_from_value_action s v : m2_mul_v O (m2_from_value O s) v = v2_mul_s O v s. Proof. mring. Qed.
  Lemma m3_from_value_action s v : m3_mul_v O (m3_from_value O s) v = v3_mul_s O v s. Proof. mring. Qed.
  Lemma m4_from_value_action s v : m4_mul_v O (m4_from_value O s) v = v4_mul_s O v s. Proof. mring. Qed.
  Lemma m2_from_diagonal_action d v : m2_mul_v O (m2_from_diagonal O d) v = v2_mul_ew O d v. Proof. mring. Qed.
  Lemma m3_from_diagonal_action d v : m3_mul_v O (m3_from_diagonal O d) v = v3_mul_ew O d v. Proof. mring. Qed.
  Lemma m4_from_diagonal_action d v : m4_mul_v O (m4_from_diagonal O d) v = v4_mul_ew O d v. Proof. mring. Qed.
  Lemma m2_identity_action v : m2_mul_v O (m2_identity O) v = v. Proof. mring. Qed.
  Lemma m3_identity_action v : m3_mul_v O (m3_identity O) v = v. Proof. mring. Qed.
  Lemma m4_identity_action v : m4_mul_v O (m4_identity O) v = v. Proof. mring. Qed.

  (* ---- scale / translation matrices act on vectors (not displaced) ---- *)
  Lemma m3_from_translation_vector t v : m3_transform_vector2 O (m3_from_translation O t) v = v. Proof. mring. Qed.
  Lemma m4_from_translation_vector t v : m4_transform_vector O (m4_from_translation O t) v = v. Proof. mring. Qed.
  Lemma m3_from_translation_point t p : m3_transform_point2 O (m3_from_translation O t) p = p2_add_v O p t. Proof. mring. Qed.
  Lemma m3_from_nonuniform_scale_vector x y v :
    m3_transform_vector2 O (m3_from_nonuniform_scale O x y) v = mkV2 (x * v2x v) (y * v2y v). Proof. mring. Qed.
  Lemma m3_from_nonuniform_scale_point x y p :
    m3_transform_point2 O (m3_from_nonuniform_scale O x y) p = mkP2 (x * p2x p) (y * p2y p). Proof. mring. Qed.
  Lemma m3_from_scale_eq s : m3_from_scale O s = m3_from_nonuniform_scale O s s. Proof. reflexivity. Qed.
  Lemma m4_from_nonuniform_scale_vector x y z v :
    m4_transform_vector O (m4_from_nonuniform_scale O x y z) v = mkV3 (x * v3x v) (y * v3y v) (z * v3z v). Proof. mring. Qed.
  Lemma m4_from_scale_eq s : m4_from_scale O s = m4_from_nonuniform_scale O s s s. Proof. reflexivity. Qed.

  (* ---- sum, difference, negation, scalar multiples are element-wise ---- *)
  Lemma m2_add_comp a b : m2_list (m2_add O a b) = lzip (add O) (m2_list a) (m2_list b). Proof. destruct_mats; reflexivity. Qed.
  Lemma m3_add_comp a b : m3_list (m3_add O a b) = lzip (add O) (m3_list a) (m3_list b). Proof. destruct_mats; reflexivity. Qed.
  Lemma m4_add_comp a b : m4_list (m4_add O a b) = lzip (add O) (m4_list a) (m4_list b). Proof. destruct_mats; reflexivity. Qed.
  Lemma m2_sub_comp a b : m2_list (m2_sub O a b) = lzip (sub O) (m2_list a) (m2_list b). Proof. destruct_mats; reflexivity. Qed.
  Lemma m3_sub_comp a b : m3_list (m3_sub O a b) = lzip (sub O) (m3_list a) (m3_list b). Proof. destruct_mats; reflexivity. Qed.
  Lemma m4_sub_comp a b : m4_list (m4_sub O a b) = lzip (sub O) (m4_list a) (m4_list b). Proof. destruct_mats; reflexivity. Qed.
  Lemma m2_neg_comp a : m2_list (m2_neg O a) = map (opp O) (m2_list a). Proof. destruct_mats; reflexivity. Qed.
  Lemma m3_neg_comp a : m3_list (m3_neg O a) = map (opp O) (m3_list a). Proof. destruct_mats; reflexivity. Qed.
  Lemma m4_neg_comp a : m4_list (m4_neg O a) = map (opp O) (m4_list a). Proof. destruct_mats; reflexivity. Qed.
  Lemma m2_mul_s_comp a s : m2_list (m2_mul_s O a s) = map (fun c => c * s) (m2_list a). Proof. destruct_mats; reflexivity. Qed.
  Lemma m3_mul_s_comp a s : m3_list (m3_mul_s O a s) = map (fun c => c * s) (m3_list a). Proof. destruct_mats; reflexivity. Qed.
  Lemma m4_mul_s_comp a s : m4_list (m4_mul_s O a s) = map (fun c => c * s) (m4_list a). Proof. destruct_mats; reflexivity. Qed.
  Lemma m2_div_s_comp a s : m2_list (m2_div_s O a s) = map (fun c => div O c s) (m2_list a). Proof. destruct_mats; reflexivity. Qed.
  Lemma m3_div_s_comp a s : m3_list (m3_div_s O a s) = map (fun c => div O c s) (m3_list a). Proof. destruct_mats; reflexivity. Qed.
  Lemma m4_div_s_comp a s : m4_list (m4_div_s O a s) = map (fun c => div O c s) (m4_list a). Proof. destruct_mats; reflexivity. Qed.
  Lemma m2_rem_s_comp a s : m2_list (m2_rem_s O a s) = map (fun c => rem O c s) (m2_list a). Proof. destruct_mats; reflexivity. Qed.
  Lemma m3_rem_s_comp a s : m3_list (m3_rem_s O a s) = map (fun c => rem O c s) (m3_list a). Proof. destruct_mats; reflexivity. Qed.
  Lemma m4_rem_s_comp a s : m4_list (m4_rem_s O a s) = map (fun c => rem O c s) (m4_list a). Proof. destruct_mats; reflexivity. Qed.

  (* ---- ring laws and linear action ---- *)
  Lemma m2_mul_assoc A B C : m2_mul O (m2_mul O A B) C = m2_mul O A (m2_mul O B C). Proof. mring. Qed.
  Lemma m3_mul_assoc A B C : m3_mul O (m3_mul O A B) C = m3_mul O A (m3_mul O B C). Proof. mring. Qed.
  Lemma m4_mul_assoc A B C : m4_mul O (m4_mul O A B) C = m4_mul O A (m4_mul O B C). Proof. mring. Qed.
  Lemma m2_mul_identity A : m2_mul O A (m2_identity O) = A /\ m2_mul O (m2_identity O) A = A. Proof. mring. Qed.
  Lemma m3_mul_identity A : m3_mul O A (m3_identity O) = A /\ m3_mul O (m3_identity O) A = A. Proof. mring. Qed.
  Lemma m4_mul_identity A : m4_mul O A (m4_identity O) = A /\ m4_mul O (m4_identity O) A = A. Proof. mring. Qed.
  Lemma m2_mul_distr A B C :
    m2_mul O A (m2_add O B C) = m2_add O (m2_mul O A B) (m2_mul O A C) /\
    m2_mul O (m2_add O A B) C = m2_add O (m2_mul O A C) (m2_mul O B C). Proof. mring. Qed.
  Lemma m3_mul_distr A B C :
    m3_mul O A (m3_add O B C) = m3_add O (m3_mul O A B) (m3_mul O A C) /\
    m3_mul O (m3_add O A B) C = m3_add O (m3_mul O A C) (m3_mul O B C). Proof. mring. Qed.
  Lemma m4_mul_distr A B C :
    m4_mul O A (m4_add O B C) = m4_add O (m4_mul O A B) (m4_mul O A C) /\
    m4_mul O (m4_add O A B) C = m4_add O (m4_mul O A C) (m4_mul O B C). Proof. mring. Qed.
  Lemma m2_add_group A B C :
    m2_add O A B = m2_add O B A /\ m2_add O (m2_add O A B) C = m2_add O A (m2_add O B C) /\
    m2_add O A (m2_zero O) = A /\ m2_add O A (m2_neg O A) = m2_zero O /\ m2_sub O A B = m2_add O A (m2_neg O B). Proof. mring. Qed.
  Lemma m3_add_group A B C :
    m3_add O A B = m3_add O B A /\ m3_add O (m3_add O A B) C = m3_add O A (m3_add O B C) /\
    m3_add O A (m3_zero O) = A /\ m3_add O A (m3_neg O A) = m3_zero O /\ m3_sub O A B = m3_add O A (m3_neg O B). Proof. mring. Qed.
  Lemma m4_add_group A B C :
    m4_add O A B = m4_add O B A /\ m4_add O (m4_add O A B) C = m4_add O A (m4_add O B C) /\
    m4_add O A (m4_zero O) = A /\ m4_add O A (m4_neg O A) = m4_zero O /\ m4_sub O A B = m4_add O A (m4_neg O B). Proof. mring. Qed.
  Lemma m2_action A B v w s :
    m2_mul_v O (m2_mul O A B) v = m2_mul_v O A (m2_mul_v O B v) /\
    m2_mul_v O A (v2_add O v w) = v2_add O (m2_mul_v O A v) (m2_mul_v O A w) /\
    m2_mul_v O A (v2_mul_s O v s) = v2_mul_s O (m2_mul_v O A v) s /\
    m2_mul_v O (m2_add O A B) v = v2_add O (m2_mul_v O A v) (m2_mul_v O B v) /\
    m2_mul_v O (m2_mul_s O A s) v = v2_mul_s O (m2_mul_v O A v) s. Proof. mring. Qed.
  Lemma m3_action A B v w s :
    m3_mul_v O (m3_mul O A B) v = m3_mul_v O A (m3_mul_v O B v) /\
    m3_mul_v O A (v3_add O v w) = v3_add O (m3_mul_v O A v) (m3_mul_v O A w) /\
    m3_mul_v O A (v3_mul_s O v s) = v3_mul_s O (m3_mul_v O A v) s /\
    m3_mul_v O (m3_add O A B) v = v3_add O (m3_mul_v O A v) (m3_mul_v O B v) /\
    m3_mul_v O (m3_mul_s O A s) v = v3_mul_s O (m3_mul_v O A v) s. Proof. mring. Qed.
  Lemma m4_action A B v w s :
    m4_mul_v O (m4_mul O A B) v = m4_mul_v O A (m4_mul_v O B v) /\
    m4_mul_v O A (v4_add O v w) = v4_add O (m4_mul_v O A v) (m4_mul_v O A w) /\
    m4_mul_v O A (v4_mul_s O v s) = v4_mul_s O (m4_mul_v O A v) s /\
    m4_mul_v O (m4_add O A B) v = v4_add O (m4_mul_v O A v) (m4_mul_v O B v) /\
    m4_mul_v O (m4_mul_s O A s) v = v4_mul_s O (m4_mul_v O A v) s. Proof. mring. Qed.

  (* a matrix acting as the identity on every vector is the identity *)
  Lemma m2_ext_identity M : (forall v, m2_mul_v O M v = v) -> M = m2_identity O.
  Proof.
    intros H. pose proof (H (v2_unit_x O)) as Ex. pose proof (H (v2_unit_y O)) as Ey. clear H.
    destruct M as [[a0 a1] [b0 b1]]. unfold_model.
    injection Ex as X0 X1. injection Ey as Y0 Y1.
    mat_eq.
    - rewrite <- X0; ring. - rewrite <- X1; ring.
    - rewrite <- Y0; ring. - rewrite <- Y1; ring.
  Qed.
  Lemma m3_ext_identity M : (forall v, m3_mul_v O M v = v) -> M = m3_identity O.
  Proof.
    intros H. pose proof (H (v3_unit_x O)) as Ex. pose proof (H (v3_unit_y O)) as Ey. pose proof (H (v3_unit_z O)) as Ez. clear H.
    destruct M as [[a0 a1 a2] [b0 b1 b2] [c0 c1 c2]]. unfold_model.
    injection Ex as X0 X1 X2. injection Ey as Y0 Y1 Y2. injection Ez as Z0 Z1 Z2.
    mat_eq.
    - rewrite <- X0; ring. - rewrite <- X1; ring. - rewrite <- X2; ring.
    - rewrite <- Y0; ring. - rewrite <- Y1; ring. - rewrite <- Y2; ring.
    - rewrite <- Z0; ring. - rewrite <- Z1; ring. - rewrite <- Z2; ring.
  Qed.
  (* affine block matrices [M | t; 0 | 1] *)
  Definition m4_aff (M : M3 F) (t : V3 F) : M4 F :=
    let m := m4_of_m3 O M in mkM4 (m4x m) (m4y m) (m4z m) (v3_extend t 1).
  Definition m3_aff (M : M2 F) (t : V2 F) : M3 F :=
    let m := m3_of_m2 O M in mkM3 (m3x m) (m3y m) (v2_extend t 1).
  Lemma m4_aff_mul M N t u :
    m4_mul O (m4_aff M t) (m4_aff N u) = m4_aff (m3_mul O M N) (v3_add O (m3_mul_v O M u) t).
  Proof. unfold m4_aff. mring. Qed.
  Lemma m3_aff_mul M N t u :
    m3_mul O (m3_aff M t) (m3_aff N u) = m3_aff (m2_mul O M N) (v2_add O (m2_mul_v O M u) t).
  Proof. unfold m3_aff. mring. Qed.
  Lemma m4_aff_identity : m4_aff (m3_identity O) (v3_zero O) = m4_identity O.
  Proof. reflexivity. Qed.
  Lemma m3_aff_identity : m3_aff (m2_identity O) (v2_zero O) = m3_identity O.
  Proof. reflexivity. Qed.
  Lemma m3_mul_scale M N s t : m3_mul O (m3_mul_s O M s) (m3_mul_s O N t) = m3_mul_s O (m3_mul O M N) (s * t).
  Proof. mring. Qed.
  Lemma m2_mul_scale M N s t : m2_mul O (m2_mul_s O M s) (m2_mul_s O N t) = m2_mul_s O (m2_mul O M N) (s * t).
  Proof. mring. Qed.

  (* ---- Transform::transform_vector / concat for matrices (no division involved) ---- *)
  Lemma m3_transform_vector3_spec m v : m3_transform_vector3 O m v = m3_mul_v O m v. Proof. reflexivity. Qed.
  Lemma m3_transform_point3_spec m p : p3_to_vec (m3_transform_point3 O m p) = m3_mul_v O m (p3_to_vec p). Proof. mring. Qed.
  Lemma m4_transform_vector_spec m v : v3_extend (m4_transform_vector O m v) (v4w (m4_mul_v O m (v3_extend v 0)))
                                       = m4_mul_v O m (v3_extend v 0). Proof. mring. Qed.
  Lemma m3_transform_vector2_spec m v : v2_extend (m3_transform_vector2 O m v) (v3z (m3_mul_v O m (v2_extend v 0)))
                                       = m3_mul_v O m (v2_extend v 0). Proof. mring. Qed.
End RingLaws.

Section FieldLaws.
  Variable F : Type.
  Variable O : Ops F.
  Hypothesis Fth : field_theory (zero O) (one O) (add O) (mul O) (sub O) (opp O) (div O) (inv O) eq.
  Add Field Ff : Fth.
  Set Default Proof Using "Fth".
  Local Notation "0" := (zero O).
  Local Notation "1" := (one O).
  Local Infix "+" := (add O).
  Local Infix "*" := (mul O).
  Local Infix "/" := (div O).

  Ltac mfield := intros; destruct_mats; unfold_model; mat_eq; field.

  (* Matrix4 acts on points through homogeneous coordinates (divide by w) *)
  Lemma m4_from_translation_point t p : m4_transform_point O (m4_from_translation O t) p = p3_add_v O p t.
  Proof. mfield; apply (F_1_neq_0 Fth). Qed.
  Lemma m4_from_nonuniform_scale_point x y z p :
    m4_transform_point O (m4_from_nonuniform_scale O x y z) p = mkP3 (x * p3x p) (y * p3y p) (z * p3z p).
  Proof. mfield; apply (F_1_neq_0 Fth). Qed.
  (* for an affine Matrix4 (bottom row 0 0 0 1) the point action is the affine map *)
  Lemma m4_transform_point_w m p :
    let h := m4_mul_v O m (p3_to_homogeneous O p) in
    v4w h <> 0 -> m4_transform_point O m p = mkP3 (v4x h / v4w h) (v4y h / v4w h) (v4z h / v4w h).
  Proof. intros h H. subst h. revert H. destruct_mats; unfold_model. intro H. mat_eq; field; intro E; apply H; rewrite <- E; ring. Qed.
End FieldLaws.
