(* Proofs/C12_Point.v — points form an affine space over vectors (property C12). *)
From Coq Require Import List Ring Field ZArith QArith.
From CG Require Import Scalar Model.Vector Model.Point Proofs.Tac Proofs.Alg Proofs.C03_Vector.
Import ListNotations.
Set Implicit Arguments.

Section RingLaws.
  Variable F : Type.
  Variable O : Ops F.
  Hypothesis Rth : ring_theory (zero O) (one O) (add O) (mul O) (sub O) (opp O) eq.
  Add Ring Rr : Rth.
  Set Default Proof Using "Rth".
  Local Notation "0" := (zero O).
  Local Infix "+" := (add O).
  Local Infix "*" := (mul O).
  Ltac pring := intros; destruct_mats; unfold_model; mat_eq; try ring.

  Lemma p1_affine p q v w :
    p1_sub_p O (p1_add_v O p v) p = v /\ p1_add_v O p (p1_sub_p O q p) = q /\
    p1_add_v O (p1_add_v O p v) w = p1_add_v O p (v1_add O v w) /\ p1_sub_v O p v = p1_add_v O p (v1_neg O v) /\
    p1_add_v O p (v1_zero O) = p.
  Proof. pring. Qed.
  Lemma p2_affine p q v w :
    p2_sub_p O (p2_add_v O p v) p = v /\ p2_add_v O p (p2_sub_p O q p) = q /\
    p2_add_v O (p2_add_v O p v) w = p2_add_v O p (v2_add O v w) /\ p2_sub_v O p v = p2_add_v O p (v2_neg O v) /\
    p2_add_v O p (v2_zero O) = p.
  Proof. pring. Qed.
  Lemma p3_affine p q v w :
    p3_sub_p O (p3_add_v O p v) p = v /\ p3_add_v O p (p3_sub_p O q p) = q /\
    p3_add_v O (p3_add_v O p v) w = p3_add_v O p (v3_add O v w) /\ p3_sub_v O p v = p3_add_v O p (v3_neg O v) /\
    p3_add_v O p (v3_zero O) = p.
  Proof. pring. Qed.
  Lemma p_vec_iso :
    (forall v : V1 F, p1_to_vec (p1_from_vec v) = v) /\ (forall p : P1 F, p1_from_vec (p1_to_vec p) = p) /\
    (forall v : V2 F, p2_to_vec (p2_from_vec v) = v) /\ (forall p : P2 F, p2_from_vec (p2_to_vec p) = p) /\
    (forall v : V3 F, p3_to_vec (p3_from_vec v) = v) /\ (forall p : P3 F, p3_from_vec (p3_to_vec p) = p) /\
    p1_to_vec (p1_origin O) = v1_zero O /\ p2_to_vec (p2_origin O) = v2_zero O /\ p3_to_vec (p3_origin O) = v3_zero O.
  Proof. repeat split; intros; destruct_mats; reflexivity. Qed.
  (* +v, -v, p-p, scalar and element-wise operations act component by component *)
  Lemma p1_comp p q v s :
    p1_list (p1_add_v O p v) = lzip (add O) (p1_list p) (v1_list v) /\
    p1_list (p1_sub_v O p v) = lzip (sub O) (p1_list p) (v1_list v) /\
    v1_list (p1_sub_p O p q) = lzip (sub O) (p1_list p) (p1_list q) /\
    p1_list (p1_mul_s O p s) = map (fun c => c * s) (p1_list p) /\
    p1_list (p1_div_s O p s) = map (fun c => div O c s) (p1_list p) /\
    p1_list (p1_rem_s O p s) = map (fun c => rem O c s) (p1_list p) /\
    map (fun f => p1_list (f p q)) [p1_add_ew O; p1_sub_ew O; p1_mul_ew O; p1_div_ew O; p1_rem_ew O]
      = map (fun op => lzip op (p1_list p) (p1_list q)) [add O; sub O; mul O; div O; rem O] /\
    map (fun f => p1_list (f p s)) [p1_add_ews O; p1_sub_ews O; p1_mul_ews O; p1_div_ews O; p1_rem_ews O]
      = map (fun op => map (fun c => op c s) (p1_list p)) [add O; sub O; mul O; div O; rem O] /\
    p1_dot O p v = fold_right (add O) 0 (lzip (mul O) (p1_list p) (v1_list v)).
  Proof. destruct_mats. repeat split; try reflexivity. unfold_model. ring. Qed.
  Lemma p2_comp p q v s :
    p2_list (p2_add_v O p v) = lzip (add O) (p2_list p) (v2_list v) /\
    p2_list (p2_sub_v O p v) = lzip (sub O) (p2_list p) (v2_list v) /\
    v2_list (p2_sub_p O p q) = lzip (sub O) (p2_list p) (p2_list q) /\
    p2_list (p2_mul_s O p s) = map (fun c => c * s) (p2_list p) /\
    p2_list (p2_div_s O p s) = map (fun c => div O c s) (p2_list p) /\
    p2_list (p2_rem_s O p s) = map (fun c => rem O c s) (p2_list p) /\
    map (fun f => p2_list (f p q)) [p2_add_ew O; p2_sub_ew O; p2_mul_ew O; p2_div_ew O; p2_rem_ew O]
      = map (fun op => lzip op (p2_list p) (p2_list q)) [add O; sub O; mul O; div O; rem O] /\
    map (fun f => p2_list (f p s)) [p2_add_ews O; p2_sub_ews O; p2_mul_ews O; p2_div_ews O; p2_rem_ews O]
      = map (fun op => map (fun c => op c s) (p2_list p)) [add O; sub O; mul O; div O; rem O] /\
    p2_dot O p v = fold_right (add O) 0 (lzip (mul O) (p2_list p) (v2_list v)).
  Proof. destruct_mats. repeat split; try reflexivity. unfold_model. ring. Qed.
  Lemma p3_comp p q v s :
    p3_list (p3_add_v O p v) = lzip (add O) (p3_list p) (v3_list v) /\
    p3_list (p3_sub_v O p v) = lzip (sub O) (p3_list p) (v3_list v) /\
    v3_list (p3_sub_p O p q) = lzip (sub O) (p3_list p) (p3_list q) /\
    p3_list (p3_mul_s O p s) = map (fun c => c * s) (p3_list p) /\
    p3_list (p3_div_s O p s) = map (fun c => div O c s) (p3_list p) /\
    p3_list (p3_rem_s O p s) = map (fun c => rem O c s) (p3_list p) /\
    map (fun f => p3_list (f p q)) [p3_add_ew O; p3_sub_ew O; p3_mul_ew O; p3_div_ew O; p3_rem_ew O]
      = map (fun op => lzip op (p3_list p) (p3_list q)) [add O; sub O; mul O; div O; rem O] /\
    map (fun f => p3_list (f p s)) [p3_add_ews O; p3_sub_ews O; p3_mul_ews O; p3_div_ews O; p3_rem_ews O]
      = map (fun op => map (fun c => op c s) (p3_list p)) [add O; sub O; mul O; div O; rem O] /\
    p3_dot O p v = fold_right (add O) 0 (lzip (mul O) (p3_list p) (v3_list v)).
  Proof. destruct_mats. repeat split; try reflexivity. unfold_model. ring. Qed.

  (* centroid: the accumulated displacement is the sum of the position vectors — any list (induction) *)
  Definition v1_sum_list (l : list (V1 F)) := fold_right (v1_add O) (v1_zero O) l.
  Definition v2_sum_list (l : list (V2 F)) := fold_right (v2_add O) (v2_zero O) l.
  Definition v3_sum_list (l : list (V3 F)) := fold_right (v3_add O) (v3_zero O) l.
  Lemma fold1 ps acc :
    fold_left (fun a p => v1_add O a (p1_to_vec p)) ps acc = v1_add O acc (v1_sum_list (map (@p1_to_vec F) ps)).
  Proof.
    revert acc. induction ps as [|p ps IH]; intros acc; cbn [fold_left map v1_sum_list fold_right].
    - destruct acc; unfold_model; f_equal; ring.
    - rewrite IH. fold (v1_sum_list (map (@p1_to_vec F) ps)). rewrite (v1_add_assoc O Rth). reflexivity.
  Qed.
  Lemma fold2 ps acc :
    fold_left (fun a p => v2_add O a (p2_to_vec p)) ps acc = v2_add O acc (v2_sum_list (map (@p2_to_vec F) ps)).
  Proof.
    revert acc. induction ps as [|p ps IH]; intros acc; cbn [fold_left map v2_sum_list fold_right].
    - destruct acc; unfold_model; f_equal; ring.
    - rewrite IH. fold (v2_sum_list (map (@p2_to_vec F) ps)). rewrite (v2_add_assoc O Rth). reflexivity.
  Qed.
  Lemma fold3 ps acc :
    fold_left (fun a p => v3_add O a (p3_to_vec p)) ps acc = v3_add O acc (v3_sum_list (map (@p3_to_vec F) ps)).
  Proof.
    revert acc. induction ps as [|p ps IH]; intros acc; cbn [fold_left map v3_sum_list fold_right].
    - destruct acc; unfold_model; f_equal; ring.
    - rewrite IH. fold (v3_sum_list (map (@p3_to_vec F) ps)). rewrite (v3_add_assoc O Rth). reflexivity.
  Qed.
  Lemma p1_centroid_spec ps n :
    p1_to_vec (p1_centroid O ps n) = v1_div_s O (v1_sum_list (map (@p1_to_vec F) ps)) n.
  Proof. unfold p1_centroid. rewrite fold1. destruct (v1_sum_list _); unfold_model. f_equal; f_equal; ring. Qed.
  Lemma p2_centroid_spec ps n :
    p2_to_vec (p2_centroid O ps n) = v2_div_s O (v2_sum_list (map (@p2_to_vec F) ps)) n.
  Proof. unfold p2_centroid. rewrite fold2. destruct (v2_sum_list _); unfold_model. f_equal; f_equal; ring. Qed.
  Lemma p3_centroid_spec ps n :
    p3_to_vec (p3_centroid O ps n) = v3_div_s O (v3_sum_list (map (@p3_to_vec F) ps)) n.
  Proof. unfold p3_centroid. rewrite fold3. destruct (v3_sum_list _); unfold_model. f_equal; f_equal; ring. Qed.
End RingLaws.

Section FieldLaws.
  Variable F : Type.
  Variable O : Ops F.
  Hypothesis Fth : field_theory (zero O) (one O) (add O) (mul O) (sub O) (opp O) (div O) (inv O) eq.
  Add Field Ff : Fth.
  Set Default Proof Using "Fth".
  Local Notation "0" := (zero O).
  Local Notation "1" := (one O).
  Local Infix "+" := (add O).
  Ltac pfield H := intros; destruct_mats; unfold_model; mat_eq; field; exact H.

  (* midpoint(p,q) = p + (q - p)/2 by definition, and = (p + q)/2 when 2 <> 0 *)
  Lemma midpoint_def :
    (forall p q, p1_midpoint O p q = p1_add_v O p (v1_div_s O (p1_sub_p O q p) (1 + 1))) /\
    (forall p q, p2_midpoint O p q = p2_add_v O p (v2_div_s O (p2_sub_p O q p) (1 + 1))) /\
    (forall p q, p3_midpoint O p q = p3_add_v O p (v3_div_s O (p3_sub_p O q p) (1 + 1))).
  Proof. repeat split. Qed.
  Lemma p1_midpoint_avg p q : 1 + 1 <> 0 ->
    p1_to_vec (p1_midpoint O p q) = v1_div_s O (v1_add O (p1_to_vec p) (p1_to_vec q)) (1 + 1).
  Proof. intro H. pfield H. Qed.
  Lemma p2_midpoint_avg p q : 1 + 1 <> 0 ->
    p2_to_vec (p2_midpoint O p q) = v2_div_s O (v2_add O (p2_to_vec p) (p2_to_vec q)) (1 + 1).
  Proof. intro H. pfield H. Qed.
  Lemma p3_midpoint_avg p q : 1 + 1 <> 0 ->
    p3_to_vec (p3_midpoint O p q) = v3_div_s O (v3_add O (p3_to_vec p) (p3_to_vec q)) (1 + 1).
  Proof. intro H. pfield H. Qed.
  (* homogeneous coordinates *)
  Lemma homogeneous_roundtrip p k : k <> 0 ->
    p3_from_homogeneous O (v4_mul_s O (p3_to_homogeneous O p) k) = p.
  Proof. intro H. pfield H. Qed.
  Lemma to_homogeneous_spec p : p3_to_homogeneous O p = mkV4 (p3x p) (p3y p) (p3z p) 1.
  Proof. reflexivity. Qed.
End FieldLaws.
