(* Proofs/C17_Forms.v — every spelling of an operator computes the same value (property C17). *)
From Coq Require Import List.
From CG Require Import Scalar Model.Vector Model.Point Model.Matrix Model.Angle Model.Quaternion Model.Program Proofs.Tac.
Import ListNotations.
Set Implicit Arguments.

Section Forms.
  Variable F : Type.
  Variable O : Ops F.

  (* the assign-form bodies compute what the value-form bodies compute, for every operator of every register type *)
  Lemma assign_bodies :
    (forall o a b, vv_a O o a b = vv O o a b) /\ (forall o a s, vs_a O o a s = vs O o a s) /\
    (forall o a b, pv_a O o a b = pv O o a b) /\ (forall o a s, ps_a O o a s = ps O o a s) /\
    (forall o a b, mm_a O o a b = mm O o a b) /\ (forall o a s, ms_a O o a s = ms O o a s) /\
    (forall o a b, qq_a O o a b = qq O o a b) /\ (forall o a s, qs_a O o a s = qsc O o a s).
  Proof. repeat split; intros [] *; reflexivity. Qed.

  (* one step: the spelling does not matter *)
  Lemma step_forms_erase e i : step_forms O e i = step_forms O e (set_form ByVal i).
  Proof.
    destruct assign_bodies as [A1 [A2 [A3 [A4 [A5 [A6 [A7 A8]]]]]]].
    destruct i; cbn [step_forms set_form is_assign]; try reflexivity;
      match goal with f : form |- _ => destruct f end; cbn [is_assign]; try reflexivity;
      rewrite ?A1, ?A2, ?A3, ?A4, ?A5, ?A6, ?A7, ?A8; reflexivity.
  Qed.
  (* any straight-line program (any length) gives the same answer whichever forms it is written with *)
  Theorem forms_irrelevant p e : run_forms O p e = run_ref O p e.
  Proof.
    unfold run_forms, run_ref, erase. revert e. induction p as [|i p IH]; intros e; cbn [fold_left map].
    - reflexivity.
    - rewrite <- step_forms_erase. apply IH.
  Qed.
  Corollary forms_irrelevant2 p q e : erase p = erase q -> run_forms O p e = run_forms O q e.
  Proof. intros H. rewrite !forms_irrelevant. unfold run_ref. rewrite H. reflexivity. Qed.

  (* scalar on the left applies the primitive operation to each component with the scalar as left operand *)
  Lemma scalar_left_spec s v :
    v3_list (v3_smul O s v) = map (fun c => mul O s c) (v3_list v) /\
    v3_list (v3_sdiv O s v) = map (fun c => div O s c) (v3_list v) /\
    v3_list (v3_srem O s v) = map (fun c => rem O s c) (v3_list v) /\
    (forall v4, v4_list (v4_smul O s v4) = map (fun c => mul O s c) (v4_list v4) /\
                v4_list (v4_sdiv O s v4) = map (fun c => div O s c) (v4_list v4) /\
                v4_list (v4_srem O s v4) = map (fun c => rem O s c) (v4_list v4)) /\
    (forall v2, v2_list (v2_smul O s v2) = map (fun c => mul O s c) (v2_list v2) /\
                v2_list (v2_sdiv O s v2) = map (fun c => div O s c) (v2_list v2) /\
                v2_list (v2_srem O s v2) = map (fun c => rem O s c) (v2_list v2)) /\
    (forall p, p3_list (p3_smul O s p) = map (fun c => mul O s c) (p3_list p) /\
               p3_list (p3_sdiv O s p) = map (fun c => div O s c) (p3_list p) /\
               p3_list (p3_srem O s p) = map (fun c => rem O s c) (p3_list p)) /\
    (forall m, m3_list (m3_smul O s m) = map (fun c => mul O s c) (m3_list m) /\
               m3_list (m3_sdiv O s m) = map (fun c => div O s c) (m3_list m) /\
               m3_list (m3_srem O s m) = map (fun c => rem O s c) (m3_list m)) /\
    (forall m, m4_list (m4_smul O s m) = map (fun c => mul O s c) (m4_list m) /\
               m4_list (m4_sdiv O s m) = map (fun c => div O s c) (m4_list m)) /\
    (forall q, quat_sxyz (quat_smul O s q) = map (fun c => mul O s c) (quat_sxyz q) /\
               quat_sxyz (quat_sdiv O s q) = map (fun c => div O s c) (quat_sxyz q)).
  Proof. repeat split; intros; destruct_quats; reflexivity. Qed.

  (* Sum / Product over an iterator = the left fold with + from zero() / * from one() *)
  Lemma sum_product_folds :
    (forall l, v3_sum_iter O l = fold_left (v3_add O) l (v3_zero O)) /\
    (forall l, quat_sum_iter O l = fold_left (quat_add O) l (quat_zero O)) /\
    (forall l, m3_sum_iter O l = fold_left (m3_add O) l (m3_zero O)) /\
    (forall l, m3_product_iter O l = fold_left (m3_mul O) l (m3_identity O)) /\
    (forall l, quat_product_iter O l = fold_left (quat_mul O) l (quat_one O)).
  Proof. repeat split. Qed.
End Forms.
