(* Proofs/C05_ReprR.v — matrix -> quaternion round trip over the reals, branch by branch (property C05). *)
From CG Require Import Scalar Model.Vector Model.Point Model.Matrix Model.Angle Model.Quaternion Model.Metric Model.Rotation
                       Proofs.Tac Proofs.Alg Proofs.RealInst.
From Coq Require Import Reals Lra Psatz QArith Qreals Bool.
Local Open Scope R_scope.

(* which branch of From<Matrix3> for Quaternion is taken *)
Definition m3_branch (m : M3 R) : nat :=
  let m00 := v3x (m3x m) in let m11 := v3y (m3y m) in let m22 := v3z (m3z m) in
  if Rleb 0 (m3_trace OpsR m) then 0%nat
  else if andb (Rltb m11 m00) (Rltb m22 m00) then 1%nat
  else if Rltb m22 m11 then 2%nat else 3%nat.

Ltac finish_pos := left; f_equal; [f_equal|]; field; lra.
Ltac finish_neg := right; f_equal; [f_equal|]; field; lra.

Theorem quat_of_m3_roundtrip : forall q : Quat R, quat_magnitude2 OpsR q = 1 ->
  quat_of_m3 OpsR TrigR (m3_of_quat OpsR q) = q \/ quat_of_m3 OpsR TrigR (m3_of_quat OpsR q) = quat_neg OpsR q.
Proof.
  intros [[x y z] w]. unfold quat_of_m3. unfold_quat. unfold_model. simpl_R. unfold q_half. rewrite Q2R_half.
  intros Hu. unfold Rleb, Rltb.
  destruct (Rle_dec 0 _) as [Ht|Ht].
  - (* trace >= 0: 1 + trace = 4 w^2, w <> 0 *)
    assert (Hw : w <> 0) by (intro; subst; nra).
    replace (1 + (1 - (y + y) * y - (z + z) * z + (1 - (x + x) * x - (z + z) * z + (1 - (x + x) * x - (y + y) * y))))
      with (4 * (w * w)) by nra.
    rewrite sqrt_4sq.
    destruct (Rle_dec 0 w); [rewrite Rabs_pos_eq by lra; finish_pos | rewrite Rabs_left by lra; finish_neg].
  - destruct (Rlt_dec (1 - (x + x) * x - (z + z) * z) (1 - (y + y) * y - (z + z) * z)) as [H1|H1];
    [destruct (Rlt_dec (1 - (x + x) * x - (y + y) * y) (1 - (y + y) * y - (z + z) * z)) as [H2|H2]|]; cbn [andb].
    + (* m00 largest: argument = 4 x^2, x <> 0 *)
      assert (Hx : x <> 0) by (intro; subst; nra).
      replace (1 - (y + y) * y - (z + z) * z - (1 - (x + x) * x - (z + z) * z) - (1 - (x + x) * x - (y + y) * y) + 1)
        with (4 * (x * x)) by ring.
      rewrite sqrt_4sq.
      destruct (Rle_dec 0 x); [rewrite Rabs_pos_eq by lra; finish_pos | rewrite Rabs_left by lra; finish_neg].
    + destruct (Rlt_dec (1 - (x + x) * x - (y + y) * y) (1 - (x + x) * x - (z + z) * z)) as [H3|H3].
      * assert (Hy : y <> 0) by (intro; subst; nra).
        replace (1 - (x + x) * x - (z + z) * z - (1 - (y + y) * y - (z + z) * z) - (1 - (x + x) * x - (y + y) * y) + 1)
          with (4 * (y * y)) by ring.
        rewrite sqrt_4sq.
        destruct (Rle_dec 0 y); [rewrite Rabs_pos_eq by lra; finish_pos | rewrite Rabs_left by lra; finish_neg].
      * assert (Hz : z <> 0) by (intro; subst; nra).
        replace (1 - (x + x) * x - (y + y) * y - (1 - (y + y) * y - (z + z) * z) - (1 - (x + x) * x - (z + z) * z) + 1)
          with (4 * (z * z)) by ring.
        rewrite sqrt_4sq.
        destruct (Rle_dec 0 z); [rewrite Rabs_pos_eq by lra; finish_pos | rewrite Rabs_left by lra; finish_neg].
    + destruct (Rlt_dec (1 - (x + x) * x - (y + y) * y) (1 - (x + x) * x - (z + z) * z)) as [H3|H3].
      * assert (Hy : y <> 0) by (intro; subst; nra).
        replace (1 - (x + x) * x - (z + z) * z - (1 - (y + y) * y - (z + z) * z) - (1 - (x + x) * x - (y + y) * y) + 1)
          with (4 * (y * y)) by ring.
        rewrite sqrt_4sq.
        destruct (Rle_dec 0 y); [rewrite Rabs_pos_eq by lra; finish_pos | rewrite Rabs_left by lra; finish_neg].
      * assert (Hz : z <> 0) by (intro; subst; nra).
        replace (1 - (x + x) * x - (y + y) * y - (1 - (y + y) * y - (z + z) * z) - (1 - (x + x) * x - (z + z) * z) + 1)
          with (4 * (z * z)) by ring.
        rewrite sqrt_4sq.
        destruct (Rle_dec 0 z); [rewrite Rabs_pos_eq by lra; finish_pos | rewrite Rabs_left by lra; finish_neg].
Qed.

(* each of the four branches is taken by some unit quaternion *)
Definition uq (w x y z : R) : Quat R := quat_new w x y z.
Lemma branch_cover :
  (quat_magnitude2 OpsR (uq 1 0 0 0) = 1 /\ m3_branch (m3_of_quat OpsR (uq 1 0 0 0)) = 0%nat) /\
  (quat_magnitude2 OpsR (uq 0 1 0 0) = 1 /\ m3_branch (m3_of_quat OpsR (uq 0 1 0 0)) = 1%nat) /\
  (quat_magnitude2 OpsR (uq 0 0 1 0) = 1 /\ m3_branch (m3_of_quat OpsR (uq 0 0 1 0)) = 2%nat) /\
  (quat_magnitude2 OpsR (uq 0 0 0 1) = 1 /\ m3_branch (m3_of_quat OpsR (uq 0 0 0 1)) = 3%nat).
Proof.
  unfold m3_branch, uq. unfold_quat. unfold_model. simpl_R. unfold Rleb, Rltb.
  repeat split; try lra;
  repeat match goal with |- context [Rle_dec ?a ?b] => destruct (Rle_dec a b); try lra
                        | |- context [Rlt_dec ?a ?b] => destruct (Rlt_dec a b); try lra end; cbn [andb]; try reflexivity.
Qed.
