(* Proofs/C10_ProjectionR.v — the projection constructors reject parameters violating a stated
   precondition and accept valid ones (property C10), over the reals with an `approx` oracle. *)
From CG Require Import Scalar Model.Vector Model.Point Model.Matrix Model.Angle Model.Projection
                       Proofs.Tac Proofs.Alg Proofs.RealInst Proofs.C10_Projection.
From Coq Require Import Reals Lra Psatz QArith Qreals Bool List.
Import ListNotations.
Local Open Scope R_scope.

(* what is assumed of the scalar type's abs_diff_eq with its default epsilon *)
Definition ApproxSpecR (A : Approx R) (eps : R) : Prop :=
  0 <= eps /\ forall a b, abs_diff_eq A a b (default_epsilon A) = true <-> Rabs (a - b) <= eps.

Definition half_turn : R := turn_div_2 OpsR (URad OpsR).

Section Rej.
  Variable A : Approx R.
  Variable eps : R.
  Hypothesis HA : ApproxSpecR A eps.

  Lemma ade_refl x : abs_diff_eq_d A x x = true.
  Proof. destruct HA as [He H]. unfold abs_diff_eq_d. apply H. rewrite Rminus_diag_eq by reflexivity. rewrite Rabs_R0. exact He. Qed.
  Lemma ade_far x y : eps < Rabs (x - y) -> abs_diff_eq_d A x y = false.
  Proof. destruct HA as [He H]. intros L. unfold abs_diff_eq_d. destruct (abs_diff_eq A x y (default_epsilon A)) eqn:E; [|reflexivity].
         apply H in E. lra. Qed.

  Ltac cases := unfold guard, abs_diff_ne_d; simpl_R;
    repeat match goal with
    | |- context [Rltb ?a ?b] => let H := fresh in destruct (Rltb a b) eqn:H; [apply Rltb_spec in H|apply Rltb_false in H]; try lra
    | |- context [Rleb ?a ?b] => let H := fresh in destruct (Rleb a b) eqn:H; [apply Rleb_spec in H|apply Rleb_false in H]; try lra
    end; try reflexivity.

  (* frustum: left > right, bottom > top or near > far panic; otherwise a matrix is returned *)
  Lemma frustum_rejects l r b t n f : l > r \/ b > t \/ n > f -> m4_frustum OpsR l r b t n f = None.
  Proof. intros H. unfold m4_frustum. cases. Qed.
  Lemma frustum_accepts l r b t n f : l <= r -> b <= t -> n <= f -> m4_frustum OpsR l r b t n f = Some (frustum_mat OpsR l r b t n f).
  Proof.
    intros H1 H2 H3. apply (frustum_some Field_R OfQHom_R); simpl; apply Rleb_spec; assumption.
  Qed.

  (* perspective *)
  Lemma perspective_rejects fovy aspect n f :
    fovy <= 0 \/ half_turn <= fovy \/ aspect = 0 \/ n <= 0 \/ f <= 0 \/ n = f ->
    m4_perspective OpsR TrigR A fovy aspect n f = None.
  Proof.
    intros H. unfold m4_perspective. fold half_turn.
    unfold guard, abs_diff_ne_d; simpl_R.
    destruct (Rltb 0 fovy) eqn:E1; [apply Rltb_spec in E1|reflexivity].
    destruct (Rltb fovy half_turn) eqn:E2; [apply Rltb_spec in E2|reflexivity].
    destruct (abs_diff_eq_d A (fabs OpsR aspect) 0) eqn:E3; [reflexivity|]. cbn [negb].
    destruct (Rltb 0 n) eqn:E4; [apply Rltb_spec in E4|reflexivity].
    destruct (Rltb 0 f) eqn:E5; [apply Rltb_spec in E5|reflexivity].
    destruct (abs_diff_eq_d A f n) eqn:E6; [reflexivity|]. exfalso.
    destruct H as [H|[H|[H|[H|[H|H]]]]]; try lra.
    - subst aspect. unfold fabs in E3. simpl_R. unfold Rltb in E3. destruct (Rlt_dec 0 0); [lra|]. rewrite ade_refl in E3. discriminate.
    - subst f. rewrite ade_refl in E6. discriminate.
  Qed.
  Lemma perspective_accepts fovy aspect n f :
    0 < fovy < half_turn -> eps < Rabs aspect -> 0 < n -> 0 < f -> eps < Rabs (f - n) ->
    m4_perspective OpsR TrigR A fovy aspect n f = Some (persp_mat OpsR TrigR fovy aspect n f).
  Proof.
    intros [H1 H2] H3 H4 H5 H6. unfold m4_perspective. fold half_turn. unfold guard, abs_diff_ne_d; simpl_R.
    replace (Rltb 0 fovy) with true by (symmetry; apply Rltb_spec; lra).
    replace (Rltb fovy half_turn) with true by (symmetry; apply Rltb_spec; lra).
    replace (Rltb 0 n) with true by (symmetry; apply Rltb_spec; lra).
    replace (Rltb 0 f) with true by (symmetry; apply Rltb_spec; lra).
    rewrite (ade_far f n H6).
    assert (E : abs_diff_eq_d A (fabs OpsR aspect) 0 = false).
    { apply ade_far. unfold fabs; simpl_R. rewrite Rminus_0_r. unfold Rltb. destruct (Rlt_dec aspect 0).
      - rewrite Rabs_Ropp. exact H3. - exact H3. }
    rewrite E. cbn [negb]. unfold persp_mat, nat_c. simpl_R. rewrite Q2R_Z. replace (IZR 2) with (1 + 1) by lra. reflexivity.
  Qed.

  (* planar *)
  Definition planar_focal_point fovy h : R := - / (tan (fovy / 2) * 2 / h).
  Lemma planar_rejects fovy aspect h n f :
    fovy <= - half_turn \/ half_turn <= fovy \/ h < 0 \/ aspect = 0 \/ n = f \/
    (Rmin f n <= planar_focal_point fovy h <= Rmax f n) ->
    m4_planar OpsR TrigR A fovy aspect h n f = None.
  Proof.
    intros H. unfold m4_planar. fold half_turn. unfold guard, abs_diff_ne_d, nat_c; simpl_R. rewrite Q2R_Z.
    destruct (Rltb (- half_turn) fovy) eqn:E1; [apply Rltb_spec in E1|reflexivity].
    destruct (Rltb fovy half_turn) eqn:E2; [apply Rltb_spec in E2|reflexivity].
    destruct (Rleb 0 h) eqn:E0; [apply Rleb_spec in E0|reflexivity].
    destruct (abs_diff_eq_d A (fabs OpsR aspect) 0) eqn:E3; [reflexivity|]. cbn [negb].
    destruct (abs_diff_eq_d A f n) eqn:E6; [reflexivity|]. cbn [negb].
    match goal with |- (if ?c then _ else _) = None => destruct c eqn:E7; [|reflexivity] end. exfalso.
    destruct H as [H|[H|[H|[H|[H|H]]]]]; try lra.
    - subst aspect. unfold fabs in E3. simpl_R. unfold Rltb in E3. destruct (Rlt_dec 0 0); [lra|]. rewrite ade_refl in E3. discriminate.
    - subst f. rewrite ade_refl in E6. discriminate.
    - unfold planar_focal_point in H. apply orb_true_iff in E7. unfold fmin, fmax in E7. simpl_R.
      unfold Rmin, Rmax in H.
      destruct E7 as [E7|E7]; apply Rltb_spec in E7;
      unfold Rleb in E7; destruct (Rle_dec f n), (Rle_dec n f); lra.
  Qed.
End Rej.
