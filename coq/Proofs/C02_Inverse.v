(* Proofs/C02_Inverse.v — inverse, determinant, transpose, swaps (property C02). *)
From Coq Require Import List Arith Lia Ring Field Bool.
From CG Require Import Scalar Model.Vector Model.Point Model.Matrix Proofs.Tac Proofs.Alg Proofs.C01_Matrix.
Import ListNotations.
Set Implicit Arguments.

(* ---------- textbook Leibniz expansion ---------- *)
Fixpoint insert_all (x : nat) (l : list nat) : list (list nat) :=
  match l with
  | [] => [[x]]
  | y :: t => (x :: l) :: map (cons y) (insert_all x t)
  end.
Fixpoint perms (l : list nat) : list (list nat) :=
  match l with
  | [] => [[]]
  | x :: t => flat_map (insert_all x) (perms t)
  end.
Fixpoint inversions (l : list nat) : nat :=
  match l with
  | [] => 0
  | x :: t => length (filter (fun y => y <? x) t) + inversions t
  end.

Section Leibniz.
  Variable F : Type.
  Variable O : Ops F.
  Definition sgn (s : list nat) : F := if Nat.even (inversions s) then one O else opp O (one O).
  (* sum over all permutations s of {0..n-1} of sgn(s) * prod_i e (s i) i *)
  Definition leibniz (n : nat) (e : nat -> nat -> F) : F :=
    fold_right (add O) (zero O)
      (map (fun s => mul O (sgn s) (fold_right (mul O) (one O) (map (fun i => e (nth i s 0) i) (seq 0 n))))
           (perms (seq 0 n))).
End Leibniz.

Section RingLaws.
  Variable F : Type.
  Variable O : Ops F.
  Hypothesis Rth : ring_theory (zero O) (one O) (add O) (mul O) (sub O) (opp O) eq.
  Add Ring Rr : Rth.
  Set Default Proof Using "Rth".
  Local Notation "0" := (zero O).
  Local Infix "*" := (mul O).
  Ltac mring := intros; destruct_mats; unfold_model; mat_eq; try ring.

  Lemma m2_det_leibniz m : m2_determinant O m = leibniz O 2 (e2 0 m).
  Proof. destruct_mats. cbv -[add mul sub opp zero one]. ring. Qed.
  Lemma m3_det_leibniz m : m3_determinant O m = leibniz O 3 (e3 0 m).
  Proof. destruct_mats. cbv -[add mul sub opp zero one]. ring. Qed.
  Lemma m4_det_leibniz m : m4_determinant O m = leibniz O 4 (e4 0 m).
  Proof. destruct_mats. cbv -[add mul sub opp zero one]. ring. Qed.
  Lemma m2_det_mul A B : m2_determinant O (m2_mul O A B) = m2_determinant O A * m2_determinant O B. Proof. mring. Qed.
  Lemma m3_det_mul A B : m3_determinant O (m3_mul O A B) = m3_determinant O A * m3_determinant O B. Proof. mring. Qed.
  Lemma m4_det_mul A B : m4_determinant O (m4_mul O A B) = m4_determinant O A * m4_determinant O B. Proof. mring. Qed.
  Lemma m2_det_transpose A : m2_determinant O (m2_transpose A) = m2_determinant O A. Proof. mring. Qed.
  Lemma m3_det_transpose A : m3_determinant O (m3_transpose A) = m3_determinant O A. Proof. mring. Qed.
  Lemma m4_det_transpose A : m4_determinant O (m4_transpose A) = m4_determinant O A. Proof. mring. Qed.
  Lemma m2_transpose_mul A B : m2_transpose (m2_mul O A B) = m2_mul O (m2_transpose B) (m2_transpose A). Proof. mring. Qed.
  Lemma m3_transpose_mul A B : m3_transpose (m3_mul O A B) = m3_mul O (m3_transpose B) (m3_transpose A). Proof. mring. Qed.
  Lemma m4_transpose_mul A B : m4_transpose (m4_mul O A B) = m4_mul O (m4_transpose B) (m4_transpose A). Proof. mring. Qed.
  Lemma m2_det_identity : m2_determinant O (m2_identity O) = one O. Proof. mring. Qed.
  Lemma m3_det_identity : m3_determinant O (m3_identity O) = one O. Proof. mring. Qed.
  Lemma m4_det_identity : m4_determinant O (m4_identity O) = one O. Proof. mring. Qed.
End RingLaws.

Section FieldLaws.
  Variable F : Type.
  Variable O : Ops F.
  Hypothesis Fth : field_theory (zero O) (one O) (add O) (mul O) (sub O) (opp O) (div O) (inv O) eq.
  Hypothesis Heqb : EqbSpec O.
  Add Field Ff : Fth.
  Set Default Proof Using "Fth Heqb".
  Local Notation "0" := (zero O).

  Lemma eqb_false_neq x y : eqb O x y = false -> x <> y.
  Proof. intros H E. apply Heqb in E. congruence. Qed.

  (* invert() is None exactly when the determinant is zero *)
  Lemma m2_invert_none_iff M : m2_invert O M = None <-> m2_determinant O M = 0.
  Proof. unfold m2_invert. destruct (eqb O (m2_determinant O M) 0) eqn:E.
    - split; [intros _; apply Heqb; exact E | reflexivity].
    - split; [discriminate | intros H; apply eqb_false_neq in E; contradiction]. Qed.
  Lemma m3_invert_none_iff M : m3_invert O M = None <-> m3_determinant O M = 0.
  Proof. unfold m3_invert. destruct (eqb O (m3_determinant O M) 0) eqn:E.
    - split; [intros _; apply Heqb; exact E | reflexivity].
    - split; [discriminate | intros H; apply eqb_false_neq in E; contradiction]. Qed.
  Lemma m4_invert_none_iff M : m4_invert O M = None <-> m4_determinant O M = 0.
  Proof. unfold m4_invert. destruct (eqb O (m4_determinant O M) 0) eqn:E.
    - split; [intros _; apply Heqb; exact E | reflexivity].
    - split; [discriminate | intros H; apply eqb_false_neq in E; contradiction]. Qed.

  (* otherwise it returns N with M*N = N*M = identity *)
  Lemma m2_invert_spec M N : m2_invert O M = Some N ->
    m2_mul O M N = m2_identity O /\ m2_mul O N M = m2_identity O.
  Proof. unfold m2_invert. destruct (eqb O (m2_determinant O M) 0) eqn:E; [discriminate|].
    apply eqb_false_neq in E. intros H; inversion H; subst N; clear H. revert E.
    destruct_mats; unfold_model; intro E; mat_eq; field; exact E. Qed.
  Lemma m3_invert_spec M N : m3_invert O M = Some N ->
    m3_mul O M N = m3_identity O /\ m3_mul O N M = m3_identity O.
  Proof. unfold m3_invert. destruct (eqb O (m3_determinant O M) 0) eqn:E; [discriminate|].
    apply eqb_false_neq in E. intros H; inversion H; subst N; clear H. revert E.
    destruct_mats; unfold_model; intro E; mat_eq; field; exact E. Qed.
  Lemma m4_invert_spec M N : m4_invert O M = Some N ->
    m4_mul O M N = m4_identity O /\ m4_mul O N M = m4_identity O.
  Proof. unfold m4_invert. destruct (eqb O (m4_determinant O M) 0) eqn:E; [discriminate|].
    apply eqb_false_neq in E. intros H; inversion H; subst N; clear H. revert E.
    destruct_mats; unfold_model; intro E; mat_eq; field; exact E. Qed.
  (* a non-zero determinant, however tiny, gives Some *)
  Lemma m2_invert_some M : m2_determinant O M <> 0 -> exists N, m2_invert O M = Some N.
  Proof. intros H. destruct (m2_invert O M) eqn:E; [eauto|]. apply m2_invert_none_iff in E. contradiction. Qed.
  Lemma m3_invert_some M : m3_determinant O M <> 0 -> exists N, m3_invert O M = Some N.
  Proof. intros H. destruct (m3_invert O M) eqn:E; [eauto|]. apply m3_invert_none_iff in E. contradiction. Qed.
  Lemma m4_invert_some M : m4_determinant O M <> 0 -> exists N, m4_invert O M = Some N.
  Proof. intros H. destruct (m4_invert O M) eqn:E; [eauto|]. apply m4_invert_none_iff in E. contradiction. Qed.
End FieldLaws.
