(* Proofs/C09_LookR.v — C09 over the reals: look_to / look_at constructors build rigid view transforms with the
   documented handedness. *)
From CG Require Import Scalar Model.Vector Model.Point Model.Matrix Model.Angle Model.Quaternion Model.Metric Model.Rotation
                       Proofs.Tac Proofs.Alg Proofs.RealInst Proofs.C11_MetricR.
From Coq Require Import Reals Lra Psatz Nsatz.
Local Open Scope R_scope.
Local Notation O := OpsR.
Local Notation T := TrigR.

Ltac ns H1 H2 := clear - H1 H2; nsatz.
Ltac ns1 H1 := clear - H1; nsatz.

(* normalising is scaling by i = 1/|v| *)
Definition inv_len (v : V3 R) : R := 1 / sqrt (v3_magnitude2 O v).
Lemma normalize3_scale (v : V3 R) : 0 < v3_magnitude2 O v ->
  exists i, i = inv_len v /\ 0 < i /\ i * i * v3_magnitude2 O v = 1 /\ v3_normalize O T v = v3_mul_s O v i /\ i * v3_magnitude2 O v = sqrt (v3_magnitude2 O v).
Proof.
  intros H. set (n := sqrt (v3_magnitude2 O v)).
  assert (Hn : 0 < n) by (apply sqrt_lt_R0; exact H).
  assert (Hnn : n * n = v3_magnitude2 O v) by (apply sqrt_sqrt; lra).
  exists (1 / n). split; [reflexivity|]. split; [apply Rdiv_lt_0_compat; lra|]. split; [rewrite <- Hnn; field; lra|]. split.
  - reflexivity.
  - rewrite <- Hnn. field. lra.
Qed.
Lemma normalize2_scale (v : V2 R) : 0 < v2_magnitude2 O v ->
  exists i, 0 < i /\ i * i * v2_magnitude2 O v = 1 /\ v2_normalize O T v = v2_mul_s O v i.
Proof.
  intros H. set (n := sqrt (v2_magnitude2 O v)).
  assert (Hn : 0 < n) by (apply sqrt_lt_R0; exact H).
  assert (Hnn : n * n = v2_magnitude2 O v) by (apply sqrt_sqrt; lra).
  exists (1 / n). split; [apply Rdiv_lt_0_compat; lra|]. split; [rewrite <- Hnn; field; lra|]. reflexivity.
Qed.
Lemma normalize3_unit (v : V3 R) : v3_magnitude2 O v = 1 -> v3_normalize O T v = v.
Proof.
  intros H. unfold v3_normalize, v3_normalize_to, v3_magnitude. simpl_R. rewrite H, sqrt_1.
  destruct v as [a b c]. unfold_model. simpl_R. f_equal; field.
Qed.

(* ---------- the left-handed 3x3 look_to ---------- *)
Theorem m3_look_to_lh_spec (d up : V3 R) : 0 < v3_magnitude2 O d -> 0 < v3_magnitude2 O (v3_cross O d up) ->
  let M := m3_look_to_lh O T d up in
  m3_mul O M (m3_transpose M) = m3_identity O /\ m3_determinant O M = 1 /\
  m3_mul_v O M d = mkV3 0 0 (v3_magnitude O T d) /\
  exists y z, 0 < y /\ m3_mul_v O M up = mkV3 0 y z.
Proof.
  intros Hd Hc M.
  destruct (normalize3_scale d Hd) as [i [Idef [Hi [Hii [Ei Eid]]]]].
  set (f := v3_mul_s O d i).
  assert (Hg : 0 < v3_magnitude2 O (v3_cross O up f)).
  { destruct d as [d0 d1 d2], up as [u0 u1 u2]. unfold f, v3_magnitude2, v3_dot in *. unfold_model. simpl_R.
    match goal with |- 0 < ?e => replace e with (i * i * ((d1 * u2 - d2 * u1) * (d1 * u2 - d2 * u1) + ((d2 * u0 - d0 * u2) * (d2 * u0 - d0 * u2) + (d0 * u1 - d1 * u0) * (d0 * u1 - d1 * u0)))) by ring end.
    apply Rmult_lt_0_compat; [nra|exact Hc]. }
  destruct (normalize3_scale (v3_cross O up f) Hg) as [j [_ [Hj [Hjj [Ej Ejg]]]]].
  set (s := v3_mul_s O (v3_cross O up f) j).
  assert (Hu : v3_magnitude2 O (v3_cross O f s) = 1).
  { destruct d as [d0 d1 d2], up as [u0 u1 u2]. unfold s, f, v3_magnitude2, v3_dot in *. unfold_model. simpl_R. ns Hii Hjj. }
  assert (EM : M = m3_transpose (m3_from_cols s (v3_cross O f s) f)).
  { unfold M, m3_look_to_lh. rewrite Ei. fold f. rewrite Ej. fold s. rewrite (normalize3_unit _ Hu). reflexivity. }
  assert (Emag : v3_magnitude O T d = i * v3_magnitude2 O d) by (unfold v3_magnitude; simpl_R; symmetry; exact Eid).
  rewrite EM, Emag. clear EM M Ei Ej Eid Ejg Emag.
  destruct d as [d0 d1 d2], up as [u0 u1 u2]. unfold s, f, v3_magnitude2, v3_dot in *. unfold_model. simpl_R.
  split; [mat_eq; ns Hii Hjj|]. split; [ns Hii Hjj|]. split; [f_equal; ns Hii Hjj|].
  eexists. eexists. split; [|f_equal; try reflexivity; ns Hii Hjj].
  (* the y coordinate of the image of up is |up x f| = j * |up x f|^2 > 0 *)
  match goal with |- 0 < ?e =>
    replace e with (j * ((u1 * (d2 * i) - u2 * (d1 * i)) * (u1 * (d2 * i) - u2 * (d1 * i)) + ((u2 * (d0 * i) - u0 * (d2 * i)) * (u2 * (d0 * i) - u0 * (d2 * i)) + (u0 * (d1 * i) - u1 * (d0 * i)) * (u0 * (d1 * i) - u1 * (d0 * i))))) by ring end.
  apply Rmult_lt_0_compat; [exact Hj|exact Hg].
Qed.

Lemma neg_facts (d up : V3 R) :
  v3_magnitude2 O (v3_neg O d) = v3_magnitude2 O d /\ v3_magnitude2 O (v3_cross O (v3_neg O d) up) = v3_magnitude2 O (v3_cross O d up) /\
  v3_magnitude O T (v3_neg O d) = v3_magnitude O T d /\ v3_neg O (v3_neg O d) = d.
Proof.
  destruct d as [d0 d1 d2], up as [u0 u1 u2]. unfold v3_magnitude, v3_magnitude2, v3_dot. unfold_model. simpl_R.
  repeat split; try ring; [f_equal; ring|f_equal; ring].
Qed.
Lemma m3_mul_v_neg (M : M3 R) v : m3_mul_v O M (v3_neg O v) = v3_neg O (m3_mul_v O M v).
Proof. destruct M as [[a b c] [e f g] [h k l]], v as [x y z]. unfold_model. simpl_R. f_equal; ring. Qed.

(* ---------- the right-handed one: look_to_rh(d) = look_to_lh(-d), so d goes to -z ---------- *)
Theorem m3_look_to_rh_spec (d up : V3 R) : 0 < v3_magnitude2 O d -> 0 < v3_magnitude2 O (v3_cross O d up) ->
  let M := m3_look_to_rh O T d up in
  m3_mul O M (m3_transpose M) = m3_identity O /\ m3_determinant O M = 1 /\
  m3_mul_v O M d = mkV3 0 0 (- v3_magnitude O T d) /\
  exists y z, 0 < y /\ m3_mul_v O M up = mkV3 0 y z.
Proof.
  intros Hd Hc M. destruct (neg_facts d up) as [N1 [N2 [N3 N4]]].
  destruct (m3_look_to_lh_spec (v3_neg O d) up) as [A [B [C D]]]; [rewrite N1; exact Hd|rewrite N2; exact Hc|].
  fold (m3_look_to_rh O T d up) in A, B, C, D. fold M in A, B, C, D.
  split; [exact A|]. split; [exact B|]. split; [|exact D].
  rewrite <- N4 at 1. rewrite m3_mul_v_neg, C, N3. unfold_model. simpl_R. f_equal; ring.
Qed.

(* ---------- Matrix4::look_to_rh / look_to_lh: the same rotation, and the eye goes to the origin ---------- *)
Definition m4_upper (m : M4 R) : M3 R :=
  mkM3 (mkV3 (v4x (m4x m)) (v4y (m4x m)) (v4z (m4x m))) (mkV3 (v4x (m4y m)) (v4y (m4y m)) (v4z (m4y m))) (mkV3 (v4x (m4z m)) (v4y (m4z m)) (v4z (m4z m))).
Theorem m4_look_to_rh_spec (eye : P3 R) (d up : V3 R) : 0 < v3_magnitude2 O d -> 0 < v3_magnitude2 O (v3_cross O d up) ->
  let M := m4_look_to_rh O T eye d up in
  m4_upper M = m3_look_to_rh O T d up /\
  (* affine: last row (0,0,0,1) *)
  v4w (m4x M) = 0 /\ v4w (m4y M) = 0 /\ v4w (m4z M) = 0 /\ v4w (m4w M) = 1 /\
  m4_transform_point O M eye = p3_origin O /\
  (forall v, m4_transform_vector O M v = m3_mul_v O (m3_look_to_rh O T d up) v) /\
  (forall p, p3_to_vec (m4_transform_point O M p) = m3_mul_v O (m3_look_to_rh O T d up) (p3_sub_p O p eye)).
Proof.
  intros Hd Hc M.
  destruct (neg_facts d up) as [N1 [N2 [N3 N4]]].
  destruct (normalize3_scale d Hd) as [i [Idef [Hi [Hii [Ei Eid]]]]].
  assert (Hd' : 0 < v3_magnitude2 O (v3_neg O d)) by (rewrite N1; exact Hd).
  assert (Ein : v3_normalize O T (v3_neg O d) = v3_mul_s O (v3_neg O d) i).
  { unfold v3_normalize, v3_normalize_to, v3_magnitude. simpl_R. rewrite N1, Idef. reflexivity. }
  set (f := v3_mul_s O d i). set (nf := v3_mul_s O (v3_neg O d) i).
  assert (Hg : 0 < v3_magnitude2 O (v3_cross O f up)).
  { destruct d as [d0 d1 d2], up as [u0 u1 u2]. unfold f, v3_magnitude2, v3_dot in *. unfold_model. simpl_R.
    match goal with |- 0 < ?e => replace e with (i * i * ((d1 * u2 - d2 * u1) * (d1 * u2 - d2 * u1) + ((d2 * u0 - d0 * u2) * (d2 * u0 - d0 * u2) + (d0 * u1 - d1 * u0) * (d0 * u1 - d1 * u0)))) by ring end.
    apply Rmult_lt_0_compat; [nra|exact Hc]. }
  assert (Ecr : v3_cross O up nf = v3_cross O f up).
  { destruct d as [d0 d1 d2], up as [u0 u1 u2]. unfold f, nf. unfold_model. simpl_R. f_equal; ring. }
  destruct (normalize3_scale (v3_cross O f up) Hg) as [j [_ [Hj [Hjj [Ej Ejg]]]]].
  set (s := v3_mul_s O (v3_cross O f up) j).
  assert (Hu : v3_magnitude2 O (v3_cross O nf s) = 1).
  { destruct d as [d0 d1 d2], up as [u0 u1 u2]. unfold s, f, nf, v3_magnitude2, v3_dot in *. unfold_model. simpl_R. ns Hii Hjj. }
  assert (E3 : m3_look_to_rh O T d up = m3_transpose (m3_from_cols s (v3_cross O nf s) nf)).
  { unfold m3_look_to_rh, m3_look_to_lh. rewrite Ein. fold nf. rewrite Ecr, Ej. fold s. rewrite (normalize3_unit _ Hu). reflexivity. }
  assert (E4 : M = m4_new (v3x s) (v3x (v3_cross O s f)) (- v3x f) 0 (v3y s) (v3y (v3_cross O s f)) (- v3y f) 0
                          (v3z s) (v3z (v3_cross O s f)) (- v3z f) 0
                          (- p3_dot O eye s) (- p3_dot O eye (v3_cross O s f)) (p3_dot O eye f) 1).
  { unfold M, m4_look_to_rh. rewrite Ei. fold f. rewrite Ej. fold s. reflexivity. }
  rewrite E3, E4. clear E3 E4 M Ei Ej Ein Eid Ejg Ecr.
  destruct d as [d0 d1 d2], up as [u0 u1 u2], eye as [e0 e1 e2]. unfold m4_upper, s, f, nf, v3_magnitude2, v3_dot in *.
  unfold_model. simpl_R.
  mat_eq; first [ reflexivity | ring | (intros [x y z]; unfold_model; simpl_R; f_equal; ring) | (intros [x y z]; unfold_model; simpl_R; f_equal; field; lra) ].
Qed.

(* ---------- 2-D: Matrix2 / Basis2 look_at ---------- *)
Theorem m2_look_at_spec (d up : V2 R) : 0 < v2_magnitude2 O d ->
  let M := m2_look_at O T d up in
  m2_mul O M (m2_transpose M) = m2_identity O /\
  m2x M = v2_normalize O T d /\ v2_magnitude2 O (m2x M) = 1 /\ v2_dot O (m2x M) (m2y M) = 0 /\ v2_magnitude2 O (m2y M) = 1 /\
  0 <= v2_dot O (m2y M) up.
Proof.
  intros Hd M.
  destruct (normalize2_scale d Hd) as [i [Hi [Hii Ei]]].
  unfold M, m2_look_at, m2_look_at_stable. rewrite Ei. simpl_R.
  destruct d as [d0 d1], up as [u0 u1]. unfold v2_magnitude2, v2_dot in *. unfold_model. simpl_R.
  destruct (Rleb (u1 * d0) (u0 * d1)) eqn:E.
  - apply Rleb_spec in E. cbv [m2x m2y m2_from_cols v2x v2y]. unfold_model. simpl_R.
    split; [mat_eq; ns1 Hii|]. split; [reflexivity|]. split; [ns1 Hii|]. split; [ring|]. split; [ns1 Hii|].
    replace (d1 * i * u0 + - (d0 * i) * u1) with (i * (u0 * d1 - u1 * d0)) by ring. apply Rmult_le_pos; lra.
  - apply Rleb_false in E. cbv [m2x m2y m2_from_cols v2x v2y]. unfold_model. simpl_R.
    split; [mat_eq; ns1 Hii|]. split; [reflexivity|]. split; [ns1 Hii|]. split; [ring|]. split; [ns1 Hii|].
    replace (- (d1 * i) * u0 + d0 * i * u1) with (i * (u1 * d0 - u0 * d1)) by ring. apply Rmult_le_pos; lra.
Qed.

(* ---------- left-handed Matrix4, look_at = look_to(center - eye), Decomposed ---------- *)
From CG Require Import Model.Transform.
Theorem m4_look_to_lh_spec (eye : P3 R) (d up : V3 R) : 0 < v3_magnitude2 O d -> 0 < v3_magnitude2 O (v3_cross O d up) ->
  let M := m4_look_to_lh O T eye d up in
  m4_upper M = m3_look_to_lh O T d up /\
  v4w (m4x M) = 0 /\ v4w (m4y M) = 0 /\ v4w (m4z M) = 0 /\ v4w (m4w M) = 1 /\
  m4_transform_point O M eye = p3_origin O /\
  (forall v, m4_transform_vector O M v = m3_mul_v O (m3_look_to_lh O T d up) v) /\
  (forall p, p3_to_vec (m4_transform_point O M p) = m3_mul_v O (m3_look_to_lh O T d up) (p3_sub_p O p eye)).
Proof.
  intros Hd Hc M. destruct (neg_facts d up) as [N1 [N2 [N3 N4]]].
  assert (E : m3_look_to_rh O T (v3_neg O d) up = m3_look_to_lh O T d up) by (unfold m3_look_to_rh; rewrite N4; reflexivity).
  rewrite <- E. apply (m4_look_to_rh_spec eye (v3_neg O d) up); [rewrite N1; exact Hd|rewrite N2; exact Hc].
Qed.

Lemma look_at_is_look_to (eye center : P3 R) (up : V3 R) :
  m4_look_at_rh O T eye center up = m4_look_to_rh O T eye (p3_sub_p O center eye) up /\
  m4_look_at_lh O T eye center up = m4_look_to_lh O T eye (p3_sub_p O center eye) up /\
  m3_t3_look_at_rh O T eye center up = m3_look_to_rh O T (p3_sub_p O center eye) up /\
  m3_t3_look_at_lh O T eye center up = m3_look_to_lh O T (p3_sub_p O center eye) up /\
  m3_t3_look_at O T eye center up = m3_look_to_lh O T (p3_sub_p O center eye) up /\
  m4_look_to_lh O T eye (p3_sub_p O center eye) up = m4_look_to_rh O T eye (v3_neg O (p3_sub_p O center eye)) up /\
  m3_look_to_rh O T (p3_sub_p O center eye) up = m3_look_to_lh O T (v3_neg O (p3_sub_p O center eye)) up.
Proof. repeat split. Qed.

(* Rotation::look_at is the left-handed one for Basis3 and Quaternion; Basis2 is Matrix2::look_at *)
Lemma rotation_look_at (d up : V3 R) (d2 up2 : V2 R) :
  basis3_look_at O T d up = m3_look_to_lh O T d up /\
  quat_look_at O T d up = quat_of_m3 O T (m3_look_to_lh O T d up) /\
  basis2_look_at O T d2 up2 = m2_look_at O T d2 up2.
Proof. repeat split. Qed.

Lemma psub_swap (a b : P3 R) : p3_sub_p O a b = v3_neg O (p3_sub_p O b a).
Proof. destruct a as [a0 a1 a2], b as [b0 b1 b2]. unfold_model. simpl_R. f_equal; ring. Qed.

(* Decomposed<Vector3, Basis3>::look_at_rh / look_at_lh: scale 1, the Matrix3 rotation of the same handedness, and
   the same action on points as the Matrix4 of the same handedness *)
Theorem dec_look_at_basis3 (eye center : P3 R) (up : V3 R) :
  0 < v3_magnitude2 O (p3_sub_p O center eye) -> 0 < v3_magnitude2 O (v3_cross O (p3_sub_p O center eye) up) ->
  let Dr := dec_look_at_rh O (RotBasis3 O) (Space3 O) (basis3_look_at O T) eye center up in
  let Dl := dec_look_at_lh O (RotBasis3 O) (Space3 O) (basis3_look_at O T) eye center up in
  d_scale Dr = 1 /\ d_rot Dr = m3_look_to_rh O T (p3_sub_p O center eye) up /\
  (forall p, dec_transform_point (RotBasis3 O) (Space3 O) Dr p = m4_transform_point O (m4_look_at_rh O T eye center up) p) /\
  d_scale Dl = 1 /\ d_rot Dl = m3_look_to_lh O T (p3_sub_p O center eye) up /\
  (forall p, dec_transform_point (RotBasis3 O) (Space3 O) Dl p = m4_transform_point O (m4_look_at_lh O T eye center up) p) /\
  dec_look_at O (RotBasis3 O) (Space3 O) (basis3_look_at O T) eye center up = Dl.
Proof.
  intros Hd Hc Dr Dl.
  assert (Er : d_rot Dr = m3_look_to_rh O T (p3_sub_p O center eye) up).
  { unfold Dr, dec_look_at_rh. cbn [d_rot Space3 s_psub]. unfold basis3_look_at, m3_look_to_rh. rewrite (psub_swap eye center). reflexivity. }
  assert (El : d_rot Dl = m3_look_to_lh O T (p3_sub_p O center eye) up) by reflexivity.
  destruct (m4_look_to_rh_spec eye (p3_sub_p O center eye) up Hd Hc) as [_ [_ [_ [_ [_ [_ [_ Pr]]]]]]].
  destruct (m4_look_to_lh_spec eye (p3_sub_p O center eye) up Hd Hc) as [_ [_ [_ [_ [_ [_ [_ Pl]]]]]]].
  split; [reflexivity|]. split; [exact Er|]. split; [|split; [reflexivity|split; [exact El|split; [|reflexivity]]]].
  - intros p. specialize (Pr p). fold (m4_look_at_rh O T eye center up) in Pr.
    unfold dec_transform_point. cbn [RotBasis3 Space3 r_rotate_point s_pmul s_padd].
    assert (Ed : d_disp Dr = m3_mul_v O (d_rot Dr) (p3_sub_p O (p3_origin O) eye)) by reflexivity.
    assert (Es : d_scale Dr = 1) by reflexivity.
    rewrite Ed, Es, Er.
    destruct (m4_transform_point O (m4_look_at_rh O T eye center up) p) as [x y z]. cbn [p3_to_vec] in Pr.
    set (Mr := m3_look_to_rh O T (p3_sub_p O center eye) up) in *.
    destruct Mr as [[a b c] [e f g] [h k l]], p as [p0 p1 p2], eye as [e0 e1 e2].
    unfold basis3_rotate_point, basis3_rotate_vector in *. unfold_model. simpl_R.
    injection Pr as Px Py Pz. f_equal; lra.
  - intros p. specialize (Pl p). fold (m4_look_at_lh O T eye center up) in Pl.
    unfold dec_transform_point. cbn [RotBasis3 Space3 r_rotate_point s_pmul s_padd].
    assert (Ed : d_disp Dl = m3_mul_v O (d_rot Dl) (p3_sub_p O (p3_origin O) eye)) by reflexivity.
    assert (Es : d_scale Dl = 1) by reflexivity.
    rewrite Ed, Es, El.
    destruct (m4_transform_point O (m4_look_at_lh O T eye center up) p) as [x y z]. cbn [p3_to_vec] in Pl.
    set (Ml := m3_look_to_lh O T (p3_sub_p O center eye) up) in *.
    destruct Ml as [[a b c] [e f g] [h k l]], p as [p0 p1 p2], eye as [e0 e1 e2].
    unfold basis3_rotate_point, basis3_rotate_vector in *. unfold_model. simpl_R.
    injection Pl as Px Py Pz. f_equal; lra.
Qed.

Lemma general_position_example : 0 < v3_magnitude2 O (mkV3 1 2 2) /\ 0 < v3_magnitude2 O (v3_cross O (mkV3 1 2 2) (mkV3 0 1 0)).
Proof. unfold v3_magnitude2, v3_dot. unfold_model. simpl_R. split; lra. Qed.
