(* Proofs/C09_QuatR.v — Quaternion::look_at and Decomposed<Vector3, Quaternion>::look_at_* agree with the matrices
   (property C09).  Quaternion::look_at(d, up) is Quaternion::from(Matrix3::look_to_lh(d, up)); Matrix3::look_to_lh is a
   rotation matrix (C09_LookR) and the conversion inverts From<Quaternion> for Matrix3 on every rotation matrix
   (C05_RotationR), so the quaternion is a unit quaternion with exactly that matrix, hence the same action. *)
From CG Require Import Scalar Model.Vector Model.Point Model.Matrix Model.Angle Model.Quaternion Model.Metric Model.Rotation Model.Transform
                       Proofs.Tac Proofs.Alg Proofs.RealInst Proofs.NsatzField Proofs.C05_Repr Proofs.C05_RotationR Proofs.C06_AngleR Proofs.C09_LookR.
From Coq Require Import Reals Lra Psatz QArith Qreals.
Local Open Scope R_scope.
Local Notation O := OpsR.
Local Notation T := TrigR.

Theorem quat_look_at_spec (d up : V3 R) : 0 < v3_magnitude2 O d -> 0 < v3_magnitude2 O (v3_cross O d up) ->
  let q := quat_look_at O T d up in
  quat_magnitude2 O q = 1 /\ m3_of_quat O q = m3_look_to_lh O T d up /\
  (forall v, quat_rotate_vector O q v = m3_mul_v O (m3_look_to_lh O T d up) v) /\
  (forall p, quat_rotate_point O q p = p3_from_vec (m3_mul_v O (m3_look_to_lh O T d up) (p3_to_vec p))).
Proof.
  intros Hd Hc q.
  destruct (m3_look_to_lh_spec d up Hd Hc) as [Ho [Hdet _]].
  destruct (quat_of_rotation (m3_look_to_lh O T d up) Ho Hdet) as [Hn Hm].
  fold (quat_look_at O T d up) in Hn, Hm. fold q in Hn, Hm.
  assert (Hv : forall v, quat_rotate_vector O q v = m3_mul_v O (m3_look_to_lh O T d up) v).
  { intros v. unfold quat_rotate_vector. rewrite <- Hm. symmetry. apply (m3_of_quat_action Field_R EqDec_R OfQHom_R). }
  split; [exact Hn|]. split; [exact Hm|]. split; [exact Hv|].
  intros p. unfold quat_rotate_point. rewrite Hv. reflexivity.
Qed.

(* a Decomposed over quaternions whose rotation has the matrix of a Decomposed over Basis3 with the same scale and
   displacement acts in the same way on every point *)
Lemma dec_quat_as_basis3 (Dq : Decomposed R (Quat R) (V3 R)) (Db : Decomposed R (M3 R) (V3 R)) :
  d_scale Dq = d_scale Db -> m3_of_quat O (d_rot Dq) = d_rot Db -> d_disp Dq = d_disp Db ->
  forall p, dec_transform_point (RotQuat O) (Space3 O) Dq p = dec_transform_point (RotBasis3 O) (Space3 O) Db p.
Proof.
  intros Hs Hr Hd p. unfold dec_transform_point. cbn [RotQuat RotBasis3 Space3 r_rotate_point s_pmul s_padd].
  rewrite Hs, Hd. f_equal. unfold quat_rotate_point, basis3_rotate_point, basis3_rotate_vector, quat_rotate_vector.
  rewrite <- Hr. f_equal. symmetry. apply (m3_of_quat_action Field_R EqDec_R OfQHom_R).
Qed.

Theorem dec_look_at_quat (eye center : P3 R) (up : V3 R) :
  0 < v3_magnitude2 O (p3_sub_p O center eye) -> 0 < v3_magnitude2 O (v3_cross O (p3_sub_p O center eye) up) ->
  let Dr := dec_look_at_rh O (RotQuat O) (Space3 O) (quat_look_at O T) eye center up in
  let Dl := dec_look_at_lh O (RotQuat O) (Space3 O) (quat_look_at O T) eye center up in
  d_scale Dr = 1 /\ quat_magnitude2 O (d_rot Dr) = 1 /\ m3_of_quat O (d_rot Dr) = m3_look_to_rh O T (p3_sub_p O center eye) up /\
  (forall p, dec_transform_point (RotQuat O) (Space3 O) Dr p = m4_transform_point O (m4_look_at_rh O T eye center up) p) /\
  d_scale Dl = 1 /\ quat_magnitude2 O (d_rot Dl) = 1 /\ m3_of_quat O (d_rot Dl) = m3_look_to_lh O T (p3_sub_p O center eye) up /\
  (forall p, dec_transform_point (RotQuat O) (Space3 O) Dl p = m4_transform_point O (m4_look_at_lh O T eye center up) p) /\
  dec_look_at O (RotQuat O) (Space3 O) (quat_look_at O T) eye center up = Dl.
Proof.
  intros Hd Hc Dr Dl.
  destruct (dec_look_at_basis3 eye center up Hd Hc) as [_ [Br [Pr [_ [Bl [Pl _]]]]]].
  set (Br' := dec_look_at_rh O (RotBasis3 O) (Space3 O) (basis3_look_at O T) eye center up) in *.
  set (Bl' := dec_look_at_lh O (RotBasis3 O) (Space3 O) (basis3_look_at O T) eye center up) in *.
  (* right-handed: the direction handed to look_at is eye - center = -(center - eye) *)
  assert (Hdn : 0 < v3_magnitude2 O (p3_sub_p O eye center)).
  { rewrite (psub_swap eye center). destruct (p3_sub_p O center eye) as [x y z]. unfold v3_magnitude2, v3_dot in *. unfold_model. simpl_R. nra. }
  assert (Hcn : 0 < v3_magnitude2 O (v3_cross O (p3_sub_p O eye center) up)).
  { rewrite (psub_swap eye center). destruct (p3_sub_p O center eye) as [x y z], up as [u v w].
    unfold v3_magnitude2, v3_dot in *. unfold_model. simpl_R. nra. }
  destruct (quat_look_at_spec (p3_sub_p O eye center) up Hdn Hcn) as [Nr [Mr [Vr _]]].
  destruct (quat_look_at_spec (p3_sub_p O center eye) up Hd Hc) as [Nl [Ml [Vl _]]].
  assert (Rr : d_rot Dr = quat_look_at O T (p3_sub_p O eye center) up) by reflexivity.
  assert (Rl : d_rot Dl = quat_look_at O T (p3_sub_p O center eye) up) by reflexivity.
  assert (Mr' : m3_of_quat O (d_rot Dr) = d_rot Br') by (rewrite Rr, Mr; reflexivity).
  assert (Ml' : m3_of_quat O (d_rot Dl) = d_rot Bl') by (rewrite Rl, Ml; reflexivity).
  assert (Dr_disp : d_disp Dr = d_disp Br').
  { unfold Dr, Br', dec_look_at_rh. cbn [d_disp RotQuat RotBasis3 Space3 r_rotate_vector s_psub s_origin].
    rewrite Vr. reflexivity. }
  assert (Dl_disp : d_disp Dl = d_disp Bl').
  { unfold Dl, Bl', dec_look_at_lh. cbn [d_disp RotQuat RotBasis3 Space3 r_rotate_vector s_psub s_origin].
    rewrite Vl. reflexivity. }
  split; [reflexivity|]. split; [rewrite Rr; exact Nr|]. split; [rewrite Mr'; exact Br|].
  split; [intros p; rewrite (dec_quat_as_basis3 Dr Br' eq_refl Mr' Dr_disp p); apply Pr|].
  split; [reflexivity|]. split; [rewrite Rl; exact Nl|]. split; [rewrite Ml'; exact Bl|].
  split; [intros p; rewrite (dec_quat_as_basis3 Dl Bl' eq_refl Ml' Dl_disp p); apply Pl|].
  reflexivity.
Qed.
