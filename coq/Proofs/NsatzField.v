(* Proofs/NsatzField.v — instances that let `nsatz` work over an abstract field given by an
   `Ops` record with `field_theory` and decidable equality.  Usage, inside a section with
   Fth : Field O and Fdec : EqDec O:
     Local Instance i0 : Ring_ops := Fops F O.   Local Instance i1 : Ring (Ro:=i0) := Fri F O Fth.
     Local Instance i2 : Cring (Rr:=i1) := Fcri F O Fth.
     Local Instance i3 : Integral_domain (Rcr:=i2) := Fdi F O Fth Fdec.                       *)
From Coq Require Import Field Ring Nsatz.
From Coq Require Import Algebra_syntax Ncring Cring Integral_domain.
From CG Require Import Scalar Proofs.Alg.

Definition EqDec {F} (O : Ops F) := forall x y : F, x = y \/ x <> y.

Section NsatzInst.
  Variable F : Type.
  Variable O : Ops F.
  Hypothesis Fth : field_theory (Scalar.zero O) (Scalar.one O) (add O) (mul O) (sub O) (opp O) (div O) (inv O) eq.
  Hypothesis Fdec : EqDec O.
  Add Field Ff : Fth.
  Definition Fops : @Ring_ops F (Scalar.zero O) (Scalar.one O) (add O) (mul O) (sub O) (opp O) (@eq F) :=
    @Build_Ring_ops F (Scalar.zero O) (Scalar.one O) (add O) (mul O) (sub O) (opp O) (@eq F).
  Ltac unf := cbv [equality addition multiplication subtraction opposite eq_notation add_notation mul_notation
                  sub_notation opp_notation zero_notation one_notation Fops Algebra_syntax.zero Algebra_syntax.one] in *.
  Lemma Fri : @Ring _ _ _ _ _ _ _ _ Fops.
  Proof. constructor; try exact eq_equivalence; repeat intro; unf; subst; try reflexivity; ring. Qed.
  Lemma Fcri : @Cring _ _ _ _ _ _ _ _ Fops Fri.
  Proof. red. intros. unf. ring. Qed.
  Lemma Fdi : @Integral_domain _ _ _ _ _ _ _ _ Fops Fri Fcri.
  Proof. constructor.
   - intros x y H. unf. destruct (Fdec x (Scalar.zero O)) as [|Hx]; [left; assumption|]. right.
     assert (E : y = mul O (inv O x) (mul O x y)) by (field; exact Hx). rewrite E, H. ring.
   - intro H. unf. exact (F_1_neq_0 Fth H).
  Qed.
End NsatzInst.

Lemma EqDec_Qc : EqDec Exec.ExecQ.OpsQ.
Proof. intros x y. destruct (Qcanon.Qc_eq_dec x y); [left|right]; assumption. Qed.
