(* Proofs/SymTac.v — automation for the symbolic tie (DESIGN section 11).

   A generated lemma has the shape

     forall x0 ... xn : F,  c1 = b1 -> ... -> ck = bk ->
       grun (gtab_cNN O T A ..) "f" [x0; ...; xn] = GQ [e1; ...; em]      (or GNone / GPanic / GBool b)

   where the ci are the comparisons / approx relations the *compiled generic code* evaluated on one path (with the
   outcomes bi of that path) and the ei are the expressions it returned, as recorded by the symbolic mode of the
   harness scalar.  `sym_tie` proves it from the hand-written model: it unfolds the dispatcher and the model down
   to the scalar operations (which are projections of the abstract records O, T, A and therefore stay put), resolves
   the model's `if`s with the path conditions (up to ring equality of the compared expressions), and closes each
   scalar equation by `ring` after identifying the arguments of uninterpreted functions (sqrt, sin, inv, ...)
   up to ring equality.  Division is `mul _ (inv _)` (field_theory's Fdiv_def), so no non-zero side conditions arise:
   the equations hold because model and code perform the same divisions. *)
From Coq Require Import Ring Field ZArith QArith List Bool String Lia Btauto.
From CG Require Import Scalar Model.Vector Model.Point Model.Matrix Model.Angle Model.Quaternion Model.Euler Exec.ExecQ Proofs.Alg.
Import ListNotations.

(* integer constants: `cast(2)` is `ofQ O (2 # 1)` in the model; a rewrite of the code may compute `c + c` where the
   model has `c * cast(2)`.  With the embedding of literals a ring homomorphism (OfQHom, Proofs/Alg.v) integer-valued
   constants are rewritten into sums of ones, which `ring` understands. *)
Section IntConst.
  Variable F : Type.
  Variable O : Ops F.
  Hypothesis Rth : ring_theory (zero O) (one O) (add O) (mul O) (sub O) (opp O) eq.
  Hypothesis HQ : OfQHom O.
  Add Ring Rr : Rth.
  Fixpoint pos_ring (p : positive) : F :=
    match p with
    | xH => one O
    | xO p' => add O (pos_ring p') (pos_ring p')
    | xI p' => add O (one O) (add O (pos_ring p') (pos_ring p'))
    end.
  Lemma ofQ_pos p : ofQ O (Zpos p # 1) = pos_ring p.
  Proof using Rth HQ.
    induction p as [p IH | p IH | ]; cbn [pos_ring].
    - rewrite <- IH, <- (ofQ_1 O HQ), <- !(ofQ_add O HQ). apply (ofQ_eq O HQ).
      unfold Qeq, Qplus; cbv [Qnum Qden]; lia.
    - rewrite <- IH, <- (ofQ_add O HQ). apply (ofQ_eq O HQ).
      unfold Qeq, Qplus; cbv [Qnum Qden]; lia.
    - rewrite <- (ofQ_1 O HQ). apply (ofQ_eq O HQ). reflexivity.
  Qed.
  Lemma ofQ_zero : ofQ O (0 # 1) = zero O.
  Proof using Rth HQ.
    assert (E : ofQ O (0 # 1) = add O (ofQ O (0 # 1)) (ofQ O (0 # 1))).
    { rewrite <- (ofQ_add O HQ). apply (ofQ_eq O HQ). reflexivity. }
    assert (E' : sub O (ofQ O (0 # 1)) (ofQ O (0 # 1)) = sub O (add O (ofQ O (0 # 1)) (ofQ O (0 # 1))) (ofQ O (0 # 1))) by (rewrite <- E; reflexivity).
    transitivity (sub O (add O (ofQ O (0 # 1)) (ofQ O (0 # 1))) (ofQ O (0 # 1))); [ring|]. rewrite <- E'. ring.
  Qed.
  Lemma ofQ_neg p : ofQ O (Zneg p # 1) = opp O (pos_ring p).
  Proof using Rth HQ.
    assert (E : add O (ofQ O (Zneg p # 1)) (ofQ O (Zpos p # 1)) = zero O).
    { rewrite <- (ofQ_add O HQ), <- ofQ_zero. apply (ofQ_eq O HQ). unfold Qeq, Qplus; cbv [Qnum Qden]; lia. }
    rewrite <- ofQ_pos.
    transitivity (sub O (add O (ofQ O (Zneg p # 1)) (ofQ O (Zpos p # 1))) (ofQ O (Zpos p # 1))); [ring|]. rewrite E. ring.
  Qed.
End IntConst.

Ltac sym_ints Rth HQ O :=
  repeat match goal with
  | |- context [ofQ O (Zpos ?p # 1)] => rewrite (ofQ_pos Rth HQ p)
  | |- context [ofQ O (Zneg ?p # 1)] => rewrite (ofQ_neg Rth HQ p)
  | |- context [ofQ O (0 # 1)] => rewrite (ofQ_zero Rth HQ)
  | H : context [ofQ O (Zpos ?p # 1)] |- _ => rewrite (ofQ_pos Rth HQ p) in H
  | H : context [ofQ O (Zneg ?p # 1)] |- _ => rewrite (ofQ_neg Rth HQ p) in H
  | H : context [ofQ O (0 # 1)] |- _ => rewrite (ofQ_zero Rth HQ) in H
  end;
  cbv [pos_ring] in *.

Definition grun {F} (t : list (string * (list F -> gval F))) (f : string) (args : list F) : gval F :=
  match dispatch t f with Some h => h args | None => GBad end.

Ltac sym_unfold :=
  cbv -[add sub mul div opp inv rem eqb ltb leb ofQ zero one
        sqrt sin cos tan asin acos atan atan2
        abs_diff_eq relative_eq ulps_eq default_epsilon default_max_relative default_max_ulps is_finite] in *.

(* the same, but the functions that flatten a result record into the list of its components stay folded: a model
   function that returns `if c then r1 else r2` then shows each test once instead of once per component, which keeps
   the goal small while the tests are being resolved against the path conditions *)
Ltac sym_unfold1 :=
  cbv -[add sub mul div opp inv rem eqb ltb leb ofQ zero one
        sqrt sin cos tan asin acos atan atan2
        abs_diff_eq relative_eq ulps_eq default_epsilon default_max_relative default_max_ulps is_finite
        v1_list v2_list v3_list v4_list p1_list p2_list p3_list m2_list m3_list m4_list
        quat_sxyz quat_list euler_list] in *.

(* a / b = a * inv b, everywhere *)
Ltac sym_nodiv Fth :=
  repeat match goal with
  | |- context [div ?O ?a ?b] => rewrite (Fdiv_def Fth a b)
  | H : context [div ?O ?a ?b] |- _ => rewrite (Fdiv_def Fth a b) in H
  end.

(* identify the arguments of two applications of the same uninterpreted function when they are ring-equal *)
Ltac sym_atoms1 f tac :=
  repeat match goal with
  | |- context [f ?a] =>
      match goal with
      | |- context [f ?b] =>
          lazymatch a with b => fail | _ => idtac end;
          let E := fresh "E" in
          assert (E : a = b) by tac;
          rewrite E; clear E
      end
  end.
Ltac sym_atoms2 f tac :=
  repeat match goal with
  | |- context [f ?a ?a'] =>
      match goal with
      | |- context [f ?b ?b'] =>
          lazymatch constr:((a, a')) with (b, b') => fail | _ => idtac end;
          let E := fresh "E" in let E' := fresh "E" in
          assert (E : a = b) by tac;
          assert (E' : a' = b') by tac;
          rewrite ?E, ?E'; clear E E'
      end
  end.

(* structural congruence first: model and code mostly perform the same operations in the same order, so that
   the two sides are equal node by node; `ring` is only needed below the first node where they differ *)
Ltac sym_cong :=
  first
  [ reflexivity
  | solve [ apply f_equal2; sym_cong ]
  | solve [ apply f_equal; sym_cong ]
  | ring ].

(* `ring` treats `div O a b` as an atom; when that is not enough, division is unfolded to `mul _ (inv _)` first *)
Ltac sym_ring Fth :=
  first [ ring | (progress (sym_nodiv Fth)); ring ].

Ltac sym_eq Fth O T :=
  first
  [ reflexivity
  | solve [ sym_cong ]
  | sym_ring Fth
  | progress (sym_nodiv Fth;
              sym_atoms1 (inv O) ltac:(sym_eq Fth O T); sym_atoms1 (sqrt T) ltac:(sym_eq Fth O T);
              sym_atoms1 (sin T) ltac:(sym_eq Fth O T); sym_atoms1 (cos T) ltac:(sym_eq Fth O T);
              sym_atoms1 (tan T) ltac:(sym_eq Fth O T);
              sym_atoms1 (asin T) ltac:(sym_eq Fth O T); sym_atoms1 (acos T) ltac:(sym_eq Fth O T);
              sym_atoms1 (atan T) ltac:(sym_eq Fth O T);
              sym_atoms2 (atan2 T) ltac:(sym_eq Fth O T); sym_atoms2 (rem O) ltac:(sym_eq Fth O T));
    first [ reflexivity | ring ] ].


(* a boolean test of the model against the path conditions *)
Ltac sym_cond Fth O T A :=
  match goal with
  | H : ?c = ?v |- context [?c] => rewrite H
  | H : eqb O ?a ?b = ?v |- context [eqb O ?a' ?b'] =>
      replace (eqb O a' b') with v by (rewrite <- H; f_equal; sym_eq Fth O T)
  | H : ltb O ?a ?b = ?v |- context [ltb O ?a' ?b'] =>
      replace (ltb O a' b') with v by (rewrite <- H; f_equal; sym_eq Fth O T)
  | H : leb O ?a ?b = ?v |- context [leb O ?a' ?b'] =>
      replace (leb O a' b') with v by (rewrite <- H; f_equal; sym_eq Fth O T)
  | H : is_finite A ?a = ?v |- context [is_finite A ?a'] =>
      replace (is_finite A a') with v by (rewrite <- H; f_equal; sym_eq Fth O T)
  | H : abs_diff_eq A ?a ?b ?e = ?v |- context [abs_diff_eq A ?a' ?b' ?e'] =>
      replace (abs_diff_eq A a' b' e') with v by (rewrite <- H; f_equal; sym_eq Fth O T)
  | H : relative_eq A ?a ?b ?e ?r = ?v |- context [relative_eq A ?a' ?b' ?e' ?r'] =>
      replace (relative_eq A a' b' e' r') with v by (rewrite <- H; f_equal; sym_eq Fth O T)
  | H : ulps_eq A ?a ?b ?e ?u = ?v |- context [ulps_eq A ?a' ?b' ?e' ?u] =>
      replace (ulps_eq A a' b' e' u) with v by (rewrite <- H; f_equal; sym_eq Fth O T)
  end.

Ltac sym_split :=
  repeat match goal with
  | |- GQ _ = GQ _ => apply f_equal
  | |- cons _ _ = cons _ _ => apply f_equal2
  | |- @nil _ = @nil _ => reflexivity
  end.

(* the only fact about the order that the tie uses: `<` is asymmetric (true of f32/f64, NaN included).
   It is needed because a comparison of two `Rad`/`Deg` values goes through the derived `partial_cmp`, which
   asks `a < b` first and `b < a` second whichever of `<`, `>` the source wrote. *)
Definition LtAsym {F} (O : Ops F) := forall a b : F, ltb O a b = true -> ltb O b a = false.

Ltac sym_asym Hasym O :=
  repeat match goal with
  | H : ltb O ?a ?b = true |- _ =>
      lazymatch goal with
      | _ : ltb O b a = false |- _ => fail
      | _ => pose proof (Hasym _ _ H)
      end
  end.

(* ---- resolving the model's tests at the head of the goal without rewriting inside the (large) goal ----
   After unfolding, the left-hand side is a cascade `if c1 then .. else if c2 ..`, possibly under the `match` of a
   dispatcher wrapper (gopt / gpn / goo).  Each head test is decided from the path conditions by applying one of the
   lemmas below; only the small goal `c = true/false` is rewritten. *)
Lemma sym_if_true (X : Type) (c : bool) (a b r : X) : c = true -> a = r -> (if c then a else b) = r.
Proof. intros -> E. exact E. Qed.
Lemma sym_if_false (X : Type) (c : bool) (a b r : X) : c = false -> b = r -> (if c then a else b) = r.
Proof. intros -> E. exact E. Qed.
Lemma sym_optif_true (X Y : Type) (c : bool) (a b : option X) (f : X -> Y) (g r : Y) :
  c = true -> match a with Some z => f z | None => g end = r ->
  match (if c then a else b) with Some z => f z | None => g end = r.
Proof. intros -> E. exact E. Qed.
Lemma sym_optif_false (X Y : Type) (c : bool) (a b : option X) (f : X -> Y) (g r : Y) :
  c = false -> match b with Some z => f z | None => g end = r ->
  match (if c then a else b) with Some z => f z | None => g end = r.
Proof. intros -> E. exact E. Qed.

Ltac sym_conds_small Fth O T A := repeat (progress (repeat sym_cond Fth O T A; cbv beta iota)).

(* prove `c = v` for a test c of the model from the path conditions *)
Ltac sym_atom Fth O T A :=
  sym_conds_small Fth O T A;
  first
  [ assumption
  | match goal with
    | H : eqb O _ _ = ?v |- eqb O _ _ = ?v => solve [ rewrite <- H; f_equal; sym_eq Fth O T ]
    | H : ltb O _ _ = ?v |- ltb O _ _ = ?v => solve [ rewrite <- H; f_equal; sym_eq Fth O T ]
    | H : leb O _ _ = ?v |- leb O _ _ = ?v => solve [ rewrite <- H; f_equal; sym_eq Fth O T ]
    | H : is_finite A _ = ?v |- is_finite A _ = ?v => solve [ rewrite <- H; f_equal; sym_eq Fth O T ]
    | H : abs_diff_eq A _ _ _ = ?v |- abs_diff_eq A _ _ _ = ?v => solve [ rewrite <- H; f_equal; sym_eq Fth O T ]
    | H : relative_eq A _ _ _ _ = ?v |- relative_eq A _ _ _ _ = ?v => solve [ rewrite <- H; f_equal; sym_eq Fth O T ]
    | H : ulps_eq A _ _ _ ?u = ?v |- ulps_eq A _ _ _ ?u = ?v => solve [ rewrite <- H; f_equal; sym_eq Fth O T ]
    end ].
Ltac sym_bool Fth O T A :=
  lazymatch goal with
  | |- andb _ _ = true => apply andb_true_intro; split; sym_bool Fth O T A
  | |- andb _ _ = false => apply Bool.andb_false_iff; first [ left; solve [ sym_bool Fth O T A ] | right; solve [ sym_bool Fth O T A ] ]
  | |- orb _ _ = true => apply Bool.orb_true_iff; first [ left; solve [ sym_bool Fth O T A ] | right; solve [ sym_bool Fth O T A ] ]
  | |- orb _ _ = false => apply Bool.orb_false_iff; split; sym_bool Fth O T A
  | |- negb _ = true => apply Bool.negb_true_iff; sym_bool Fth O T A
  | |- negb _ = false => apply Bool.negb_false_iff; sym_bool Fth O T A
  | |- _ => sym_atom Fth O T A
  end.
Ltac sym_head Fth O T A :=
  lazymatch goal with
  | |- (if _ then _ else _) = _ =>
      first [ apply sym_if_true; [ solve [ sym_bool Fth O T A ] | ]
            | apply sym_if_false; [ solve [ sym_bool Fth O T A ] | ] ]
  | |- match (if _ then _ else _) with Some _ => _ | None => _ end = _ =>
      first [ apply sym_optif_true; [ solve [ sym_bool Fth O T A ] | ]
            | apply sym_optif_false; [ solve [ sym_bool Fth O T A ] | ] ]
  end;
  cbv beta iota.

Ltac sym_tie Fth Hasym HQ O T A :=
  intros;
  repeat match goal with x := _ |- _ => subst x end;
  sym_unfold1;
  (* values of toNat / toN on the constants that stand for concretely needed inputs *)
  try (progress (repeat match goal with
                        | H : ?f (ofQ O ?q) = ?v |- context [?f (ofQ O ?q)] => rewrite H
                        end); sym_unfold1);
  sym_ints (F_R Fth) HQ O;
  sym_asym Hasym O;
  repeat sym_head Fth O T A;
  repeat (progress (repeat sym_cond Fth O T A; cbv beta iota));
  sym_unfold;
  repeat (progress (repeat sym_cond Fth O T A; cbv beta iota));
  first [ reflexivity
        | (* a boolean result whose remaining tests were not all evaluated on this path (different evaluation order) *)
          match goal with |- GBool _ = GBool _ => apply f_equal; btauto end
        | sym_split; sym_eq Fth O T ].

(* the executable instance satisfies the order hypothesis *)
Lemma LtAsym_Qc : LtAsym OpsQ.
Proof.
  intros a b H. unfold OpsQ, ltb, qc_ltb in *.
  apply Bool.negb_true_iff in H. apply Bool.negb_false_iff.
  apply Qle_bool_iff. destruct (Qlt_le_dec (Qcanon.this a) (Qcanon.this b)) as [L | L].
  - apply Qlt_le_weak. exact L.
  - apply Qle_bool_iff in L. congruence.
Qed.
