(* Proofs/C10_Projection.v — projections map the view volume onto the clip cube (property C10),
   algebraic part: any field, with the stated denominators non-zero. *)
From Coq Require Import List Ring Field ZArith QArith.
Local Close Scope Q_scope.
From CG Require Import Scalar Model.Vector Model.Point Model.Matrix Model.Angle Model.Projection
                       Proofs.Tac Proofs.Alg.
Import ListNotations.
Set Implicit Arguments.

Section FieldLaws.
  Variable F : Type.
  Variable O : Ops F.
  Hypothesis Fth : field_theory (zero O) (one O) (add O) (mul O) (sub O) (opp O) (div O) (inv O) eq.
  Hypothesis Hq : OfQHom O.
  Add Field Ff : Fth.
  Set Default Proof Using "Fth Hq".
  Local Notation "0" := (zero O).
  Local Notation "1" := (one O).
  Local Infix "+" := (add O).
  Local Infix "-" := (sub O).
  Local Infix "*" := (mul O).
  Local Infix "/" := (div O).
  Local Notation "- x" := (opp O x).
  Local Notation two := (1 + 1).

  Lemma opp_nz x : x <> 0 -> opp O x <> 0.
  Proof. intros H E. apply H. transitivity (opp O (opp O x)); [ring|rewrite E; ring]. Qed.
  Lemma m1_nz : opp O 1 <> 0.
  Proof. apply opp_nz. apply (F_1_neq_0 Fth). Qed.
  Lemma mul_nz a b : a <> 0 -> b <> 0 -> a * b <> 0.
  Proof. intros Ha Hb E. apply Hb. transitivity ((1 / a) * (a * b)); [field; exact Ha|rewrite E; ring]. Qed.
  Lemma sub_opp_nz x : two <> 0 -> x <> 0 -> x - opp O x <> 0.
  Proof. intros H2 Hx E. apply (mul_nz H2 Hx). rewrite <- E. ring. Qed.
  Lemma sub_swap_nz a b : a - b <> 0 -> b - a <> 0.
  Proof. intros H E. apply H. transitivity (opp O (b - a)); [ring|rewrite E; ring]. Qed.
  (* side conditions left by `field` *)
  (* b <> 0 from a hypothesis a <> 0 with a = b or a = -b as ring expressions *)
  Ltac nz_from_hyps :=
    match goal with
    | H : ?a <> 0 |- ?b <> 0 =>
        let E := fresh in intro E; apply H;
        ((transitivity b; [ring|exact E]) || (transitivity (opp O b); [ring|rewrite E; ring]))
    end.
  Ltac side := repeat split; fold (one O); fold (zero O); try assumption; try (apply (F_1_neq_0 Fth)); try (apply opp_nz; assumption);
               try (change (opp O 1 <> 0); exact m1_nz); try nz_from_hyps.
  Lemma two_c : ofQ O (inject_Z 2) = two. Proof. exact (ofQ_two O Hq). Qed.

  (* ---------- ortho: affine, box corners onto cube corners ---------- *)
  Lemma ortho_affine l r b t n f p : r - l <> 0 -> t - b <> 0 -> f - n <> 0 ->
    m4_transform_point O (m4_ortho O l r b t n f) p
    = mkP3 ((two * p3x p - (r + l)) / (r - l)) ((two * p3y p - (t + b)) / (t - b)) ((- two * p3z p - (f + n)) / (f - n)).
  Proof.
    intros H1 H2 H3. destruct p as [x y z]. unfold_proj. unfold_model. rewrite two_c.
    f_equal; field; repeat split; try assumption; apply (F_1_neq_0 Fth).
  Qed.
  Lemma ortho_bottom_row l r b t n f :
    m4_row3 (m4_ortho O l r b t n f) = mkV4 0 0 0 1.
  Proof. reflexivity. Qed.
  (* the eight corners (x in {l,r}, y in {b,t}, z in {-n,-f}) *)
  Lemma ortho_corners l r b t n f : r - l <> 0 -> t - b <> 0 -> f - n <> 0 ->
    forall (sx sy sz : bool),
    m4_transform_point O (m4_ortho O l r b t n f)
      (mkP3 (if sx then r else l) (if sy then t else b) (if sz then - f else - n))
    = mkP3 (if sx then 1 else opp O 1) (if sy then 1 else opp O 1) (if sz then 1 else opp O 1).
  Proof.
    intros H1 H2 H3 sx sy sz. rewrite ortho_affine by assumption. cbn [p3x p3y p3z].
    destruct sx, sy, sz; f_equal; field; assumption.
  Qed.

  (* ---------- frustum: near rectangle and the similar far rectangle onto the z = -1 / z = +1 faces ---------- *)
  Definition frustum_mat l r b t n f : M4 F :=
    m4_new ((two * n) / (r - l)) 0 0 0
           0 ((two * n) / (t - b)) 0 0
           ((r + l) / (r - l)) ((t + b) / (t - b)) (- (f + n) / (f - n)) (opp O 1)
           0 0 (- (two * f * n) / (f - n)) 0.
  Lemma frustum_some l r b t n f : leb O l r = true -> leb O b t = true -> leb O n f = true ->
    m4_frustum O l r b t n f = Some (frustum_mat l r b t n f).
  Proof. intros H1 H2 H3. unfold m4_frustum, guard. rewrite H1, H2, H3. unfold frustum_mat. unfold_proj. rewrite two_c. reflexivity. Qed.
  Lemma frustum_w l r b t n f p :
    v4w (m4_mul_v O (frustum_mat l r b t n f) (p3_to_homogeneous O p)) = - p3z p.
  Proof. destruct p. unfold frustum_mat. unfold_model. ring. Qed.
  Lemma frustum_near_far l r b t n f : r - l <> 0 -> t - b <> 0 -> f - n <> 0 -> n <> 0 -> f <> 0 ->
    forall (sx sy : bool),
    m4_transform_point O (frustum_mat l r b t n f) (mkP3 (if sx then r else l) (if sy then t else b) (- n))
      = mkP3 (if sx then 1 else opp O 1) (if sy then 1 else opp O 1) (opp O 1) /\
    m4_transform_point O (frustum_mat l r b t n f)
      (mkP3 ((if sx then r else l) * f / n) ((if sy then t else b) * f / n) (- f))
      = mkP3 (if sx then 1 else opp O 1) (if sy then 1 else opp O 1) 1.
  Proof.
    intros H1 H2 H3 H4 H5 sx sy. unfold frustum_mat. unfold_model.
    destruct sx, sy; split; f_equal; field; side.
  Qed.

  (* ---------- perspective = frustum of the symmetric window ---------- *)
  Variable T : Trig F.
  Definition persp_mat fovy aspect n f : M4 F :=
    let ff := inv O (tan T (fovy / two)) in
    m4_new (ff / aspect) 0 0 0  0 ff 0 0  0 0 ((f + n) / (n - f)) (opp O 1)  0 0 ((two * f * n) / (n - f)) 0.
  Lemma perspective_is_frustum fovy aspect n f :
    two <> 0 -> tan T (fovy / two) <> 0 -> aspect <> 0 -> n <> 0 -> n - f <> 0 ->
    match to_perspective O T fovy aspect n f with
    | [l; r; b; t; n'; f'] => persp_mat fovy aspect n f = frustum_mat l r b t n' f' /\
                              t = n * tan T (fovy / two) /\ b = - t /\ r = t * aspect /\ l = - r /\ n' = n /\ f' = f
    | _ => False
    end.
  Proof.
    intros H2 Ht Ha Hn Hnf. unfold to_perspective, persp_mat, frustum_mat. unfold_proj. rewrite two_c.
    set (tt := tan T (fovy / two)) in *.
    split; [|repeat split; reflexivity].
    unfold_model. mat_eq; try reflexivity; field; side;
      try (apply sub_swap_nz; assumption);
      try (apply sub_opp_nz; [assumption|repeat apply mul_nz; assumption]).
  Qed.

  (* ---------- planar ---------- *)
  Definition planar_mat inv_f aspect h n f : M4 F :=
    m4_new (two / (aspect * h)) 0 0 0  0 (two / h) 0 0
           0 0 (((f + n) * inv_f + two) / (n - f)) (- inv_f)
           0 0 ((two * f * n * inv_f + (f + n)) / (n - f)) 1.
  (* the z = 0 window of height h and width aspect*h onto [-1,1]^2 *)
  Lemma planar_window inv_f aspect h n f : aspect <> 0 -> h <> 0 -> n - f <> 0 -> two <> 0 ->
    forall (sx sy : bool),
    let x := if sx then aspect * h / two else - (aspect * h / two) in
    let y := if sy then h / two else - (h / two) in
    let q := m4_transform_point O (planar_mat inv_f aspect h n f) (mkP3 x y 0) in
    p3x q = (if sx then 1 else opp O 1) /\ p3y q = (if sy then 1 else opp O 1).
  Proof.
    intros Ha Hh Hnf H2 sx sy. unfold planar_mat. unfold_model.
    destruct sx, sy; split; field; repeat split; assumption.
  Qed.
  (* z = -n onto -1, z = -f onto +1 (where w does not vanish) *)
  Lemma planar_near_far inv_f aspect h n f x y : n - f <> 0 -> inv_f * n + 1 <> 0 -> inv_f * f + 1 <> 0 ->
    p3z (m4_transform_point O (planar_mat inv_f aspect h n f) (mkP3 x y (- n))) = opp O 1 /\
    p3z (m4_transform_point O (planar_mat inv_f aspect h n f) (mkP3 x y (- f))) = 1.
  Proof.
    intros Hnf Hn Hf. unfold planar_mat. unfold_model. split; field; side.
  Qed.
  (* the focal point: w vanishes exactly at z = 1/inv_f = (h/2) cot(fovy/2), behind the origin *)
  Lemma planar_focal inv_f aspect h n f x y z : inv_f <> 0 ->
    (v4w (m4_mul_v O (planar_mat inv_f aspect h n f) (p3_to_homogeneous O (mkP3 x y z))) = 0 <-> z = 1 / inv_f).
  Proof.
    intros Hi. unfold planar_mat. unfold_model. split; intros E.
    - assert (E' : inv_f * z = 1). { transitivity (1 - (0 * x + (0 * y + (- inv_f * z + 1 * 1)))); [ring|rewrite E; ring]. }
      transitivity ((inv_f * z) / inv_f); [field; exact Hi|rewrite E'; reflexivity].
    - rewrite E. field. exact Hi.
  Qed.
  Lemma planar_inv_f fovy h : h <> 0 -> tan T (fovy / two) <> 0 -> two <> 0 ->
    1 / (tan T (fovy / two) * two / h) = (h / two) * inv O (tan T (fovy / two)).
  Proof. intros. field. repeat split; assumption. Qed.
End FieldLaws.
