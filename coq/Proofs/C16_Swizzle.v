(* Proofs/C16_Swizzle.v — the swizzle accessors generated for the current build (Exec/SwizzleTable_gen.v,
   regenerated on every check) are exactly the words over the type's component letters, each once,
   each returning precisely the named components.  Finite: the rows of this build's table. *)
From Coq Require Import List Arith Bool.
From CG Require Import Model.Layout Exec.SwizzleTable_gen.
Import ListNotations.

Definition row := (nat * nat * list nat * list nat * nat * nat)%type.
Definition r_nvars (r : row) := match r with (a, _, _, _, _, _) => a end.
Definition r_upto (r : row) := match r with (_, b, _, _, _, _) => b end.
Definition r_name (r : row) := match r with (_, _, c, _, _, _) => c end.
Definition r_impl (r : row) := match r with (_, _, _, d, _, _) => d end.
Definition r_dim1 (r : row) := match r with (_, _, _, _, e, _) => e end.
Definition r_dim2 (r : row) := match r with (_, _, _, _, _, f) => f end.

(* a row is sound: the body reads exactly the components the name spells, and returns a value of that dimension *)
Definition row_sound (r : row) : bool :=
  list_nat_eqb (r_name r) (r_impl r) && (r_dim1 r =? length (r_name r)) && (r_dim2 r =? length (r_name r)) &&
  forallb (fun i => i <? r_nvars r) (r_name r).
Definition arm (nv up : nat) : list (list nat) :=
  map r_name (filter (fun r => (r_nvars r =? nv) && (r_upto r =? up)) swizzle_table).
Definition arms := [(1, 3); (2, 3); (3, 3); (1, 4); (2, 4); (3, 4); (4, 4)].

Lemma swizzle_table_sound : forallb row_sound swizzle_table = true.
Proof. vm_compute. reflexivity. Qed.
(* complete and duplicate-free: every arm has exactly the words of length 1..upto over its letters *)
Lemma swizzle_table_complete : forallb (fun a => same_words (arm (fst a) (snd a)) (words (fst a) (snd a))) arms = true.
Proof. vm_compute. reflexivity. Qed.
Lemma swizzle_table_size : length swizzle_table = 550 /\
  forallb (fun r => existsb (fun a => (r_nvars r =? fst a) && (r_upto r =? snd a)) arms) swizzle_table = true.
Proof. vm_compute. split; reflexivity. Qed.
(* and it coincides with what the Gallina transcription of build.rs generates *)
Lemma swizzle_table_is_generator_output :
  forallb (fun a => same_words (arm (fst a) (snd a)) (gen_swizzle (fst a) (snd a))) arms = true.
Proof. vm_compute. reflexivity. Qed.
