(* Proofs/C08_Instances.v — unit quaternions and orthonormal bases satisfy the rotation laws used
   by the Decomposed theorems; the matrix Transform impls (property C08). *)
From Coq Require Import List Ring Field Nsatz QArith.
From Coq Require Import Algebra_syntax Ncring Cring Integral_domain.
Local Close Scope Q_scope.
From CG Require Import Scalar Model.Vector Model.Point Model.Matrix Model.Angle Model.Quaternion Model.Metric
                       Model.Rotation Model.Transform
                       Proofs.Tac Proofs.Alg Proofs.NsatzField Proofs.C03_Vector Proofs.C01_Matrix Proofs.C02_Swap Proofs.C02_Inverse
                       Proofs.C04_Quat Proofs.C05_Repr Proofs.C08_Transform.
Import ListNotations.
Set Implicit Arguments.

Section Inst.
  Variable F : Type.
  Variable O : Ops F.
  Hypothesis Fth : field_theory (Scalar.zero O) (Scalar.one O) (add O) (mul O) (sub O) (opp O) (div O) (inv O) eq.
  Hypothesis Fdec : EqDec O.
  Hypothesis Hq : OfQHom O.
  Hypothesis Heqb : EqbSpec O.
  Add Field Ff : Fth.
  Set Default Proof Using "Fth Fdec Hq Heqb".
  Local Notation "0" := (Scalar.zero O).
  Local Notation "1" := (Scalar.one O).
  Let Rth := F_R Fth.

  (* ---------- unit quaternions ---------- *)
  Definition quat_unit (q : Quat F) : Prop := quat_magnitude2 O q = 1.
  Lemma quat_invert_unit q : quat_unit q -> quat_invert O q = quat_conjugate O q /\ quat_unit (quat_invert O q).
  Proof.
    unfold quat_unit. intros H.
    assert (N1 : (1 : F) <> 0) by (apply (F_1_neq_0 Fth)).
    assert (E : quat_invert O q = quat_conjugate O q).
    { unfold quat_invert. rewrite H. destruct q as [[x y z] s]. unfold_quat; unfold_model.
      f_equal; [f_equal|]; field; exact N1. }
    split; [exact E|]. rewrite E. rewrite <- H. destruct q as [[x y z] s]. unfold_quat; unfold_model. ring.
  Qed.
  Theorem RotLaws_quat : RotLaws3 O (RotQuat O) quat_unit (m3_of_quat O).
  Proof.
    constructor; cbn [RotQuat r_one r_mul r_rotate_vector r_rotate_point r_invert].
    - unfold quat_unit. unfold_quat; unfold_model. ring.
    - unfold quat_unit. intros a b Ha Hb. rewrite (quat_norm_mul Rth Hq), Ha, Hb. ring.
    - intros a Ha. eexists; split; [reflexivity|]. apply quat_invert_unit; exact Ha.
    - intros v. apply (quat_mul_v_linear Rth Hq (quat_one O) v v 0).
    - intros a v w. apply (quat_mul_v_linear Rth Hq a v w 0).
    - intros a v s. apply (quat_mul_v_linear Rth Hq a v v s).
    - intros a b v Ha Hb. apply (quat_mul_v_compose Rth Hq); assumption.
    - intros a a' v Ha E. inversion E; subst a'; clear E.
      destruct (quat_invert_unit Ha) as [_ Hi]. unfold quat_rotate_vector.
      assert (N : quat_magnitude2 O a <> 0) by (rewrite Ha; apply (F_1_neq_0 Fth)).
      destruct (quat_invert_spec O Fth a N) as [E1 E2].
      split.
      + rewrite <- (quat_mul_v_compose Rth Hq) by assumption. rewrite E2. apply (quat_mul_v_linear Rth Hq (quat_one O) v v 0).
      + rewrite <- (quat_mul_v_compose Rth Hq) by assumption. rewrite E1. apply (quat_mul_v_linear Rth Hq (quat_one O) v v 0).
    - reflexivity.
    - intros a v. apply (m3_of_quat_action Fth Fdec Hq).
    - intros a b Ha Hb. apply (m3_of_quat_mul Fth Fdec Hq); assumption.
  Qed.

  (* ---------- orthonormal Basis3 ---------- *)
  Definition m3_orthonormal (M : M3 F) : Prop :=
    m3_mul O M (m3_transpose M) = m3_identity O /\ m3_mul O (m3_transpose M) M = m3_identity O.
  Lemma m3_inverse_unique M N N' : m3_mul O M N = m3_identity O -> m3_mul O N' M = m3_identity O -> N = N'.
  Proof.
    intros H1 H2. rewrite <- (proj2 (m3_mul_identity O Rth N)), <- H2, (m3_mul_assoc O Rth), H1.
    apply (m3_mul_identity O Rth).
  Qed.
  Lemma m3_orthonormal_invert M : m3_orthonormal M -> m3_invert O M = Some (m3_transpose M).
  Proof.
    intros [H1 H2].
    assert (D : m3_determinant O M <> 0).
    { intros E. pose proof (m3_det_mul O Rth M (m3_transpose M)) as K. rewrite H1, (m3_det_identity O Rth), E in K.
      apply (F_1_neq_0 Fth). rewrite K. ring. }
    destruct (m3_invert_some Fth Heqb M D) as [N EN]. rewrite EN. f_equal.
    destruct (m3_invert_spec Fth Heqb M EN) as [K1 K2].
    apply (m3_inverse_unique (M:=M)); assumption.
  Qed.
  Theorem RotLaws_basis3 : RotLaws3 O (RotBasis3 O) m3_orthonormal (fun m => m).
  Proof.
    constructor; cbn [RotBasis3 r_one r_mul r_rotate_vector r_rotate_point r_invert];
      unfold basis3_one, basis3_mul, basis3_rotate_vector, basis3_rotate_point, basis3_invert.
    - unfold m3_orthonormal. unfold_model. split; mat_eq; ring.
    - intros a b [A1 A2] [B1 B2]. unfold m3_orthonormal. rewrite (m3_transpose_mul O Rth). split.
      + rewrite (m3_mul_assoc O Rth), <- (m3_mul_assoc O Rth b), B1, (proj2 (m3_mul_identity O Rth _)). exact A1.
      + rewrite (m3_mul_assoc O Rth), <- (m3_mul_assoc O Rth (m3_transpose a)), A2, (proj2 (m3_mul_identity O Rth _)). exact B2.
    - intros a Ha. exists (m3_transpose a). split; [apply m3_orthonormal_invert; exact Ha|].
      destruct Ha as [A1 A2]. unfold m3_orthonormal. rewrite m3_transpose_invol. split; assumption.
    - intros v. apply (m3_identity_action O Rth).
    - intros a v w. apply (m3_action O Rth a a v w 0).
    - intros a v s. apply (m3_action O Rth a a v v s).
    - intros a b v _ _. apply (m3_action O Rth a b v v 0).
    - intros a a' v Ha E. rewrite (m3_orthonormal_invert Ha) in E. inversion E; subst a'; clear E.
      destruct Ha as [A1 A2].
      split; rewrite <- (proj1 (m3_action O Rth _ _ v v 0)); [rewrite A2|rewrite A1]; apply (m3_identity_action O Rth).
    - reflexivity.
    - reflexivity.
    - reflexivity.
  Qed.

  (* the matrix of a unit quaternion is an orthonormal basis: Basis3::from(q) is valid *)
  Lemma basis3_of_unit_quat q : quat_unit q -> m3_orthonormal (basis3_from_quaternion O q).
  Proof. intros H. apply (m3_of_quat_orthonormal Fth Fdec Hq). exact H. Qed.

  (* ---------- Matrix3 as a 3-D transform (all matrices) ---------- *)
  Lemma m3_transform3_concat a b v p :
    m3_transform_vector3 O (m3_concat O a b) v = m3_transform_vector3 O a (m3_transform_vector3 O b v) /\
    m3_transform_point3 O (m3_concat O a b) p = m3_transform_point3 O a (m3_transform_point3 O b p) /\
    m3_transform_vector3 O (m3_identity O) v = v /\ m3_transform_point3 O (m3_identity O) p = p.
  Proof. destruct_mats; unfold m3_concat; unfold_model. repeat split; f_equal; ring. Qed.
  Lemma m3_transform3_inverse m n v p : m3_inverse_transform O m = Some n ->
    m3_transform_vector3 O n (m3_transform_vector3 O m v) = v /\ m3_transform_vector3 O m (m3_transform_vector3 O n v) = v /\
    m3_transform_point3 O n (m3_transform_point3 O m p) = p /\ m3_transform_point3 O m (m3_transform_point3 O n p) = p.
  Proof.
    intros E. destruct (m3_invert_spec Fth Heqb m E) as [K1 K2].
    destruct (m3_transform3_concat n m v p) as [C1 [C2 [C3 C4]]].
    destruct (m3_transform3_concat m n v p) as [D1 [D2 _]].
    unfold m3_concat in *. rewrite K2 in C1, C2. rewrite K1 in D1, D2.
    rewrite <- C1, <- C2, <- D1, <- D2. repeat split; assumption.
  Qed.

  (* ---------- Matrix4: affine matrices (bottom row 0 0 0 1) ---------- *)
  Definition m4_affine (m : M4 F) : Prop := m4_row3 m = mkV4 0 0 0 1.
  Lemma m4_affine_closed a b : m4_affine a -> m4_affine b -> m4_affine (m4_mul O a b) /\ m4_affine (m4_identity O).
  Proof.
    unfold m4_affine. destruct_mats. unfold_model. intros Ha Hb. injection Ha as -> -> -> ->. injection Hb as -> -> -> ->.
    split; f_equal; ring.
  Qed.
  Lemma m4_transform_concat a b v p : m4_affine a -> m4_affine b ->
    m4_transform_vector O (m4_concat O a b) v = m4_transform_vector O a (m4_transform_vector O b v) /\
    m4_transform_point O (m4_concat O a b) p = m4_transform_point O a (m4_transform_point O b p) /\
    m4_transform_vector O (m4_identity O) v = v /\ m4_transform_point O (m4_identity O) p = p.
  Proof.
    unfold m4_affine, m4_concat. destruct_mats. unfold_model. intros Ha Hb. injection Ha as -> -> -> ->. injection Hb as -> -> -> ->.
    repeat split; f_equal; field; try apply (F_1_neq_0 Fth).
    all: fold (Scalar.one O); fold (Scalar.zero O).
    all: try (intro E; apply (F_1_neq_0 Fth); rewrite <- E; ring).
  Qed.
  (* inverse: for an invertible matrix whose inverse is found, the inverse undoes it on vectors (affine) *)
  Lemma m4_transform_inverse m n v p : m4_affine m -> m4_affine n -> m4_inverse_transform O m = Some n ->
    m4_transform_vector O n (m4_transform_vector O m v) = v /\ m4_transform_vector O m (m4_transform_vector O n v) = v /\
    m4_transform_point O n (m4_transform_point O m p) = p /\ m4_transform_point O m (m4_transform_point O n p) = p.
  Proof.
    intros Am An E. destruct (m4_invert_spec Fth Heqb m E) as [K1 K2].
    destruct (m4_transform_concat v p An Am) as [C1 [C2 [C3 C4]]].
    destruct (m4_transform_concat v p Am An) as [D1 [D2 _]].
    unfold m4_concat in *. rewrite K2 in C1, C2. rewrite K1 in D1, D2.
    rewrite <- C1, <- C2, <- D1, <- D2. repeat split; assumption.
  Qed.
  (* the inverse of an affine matrix is affine *)
  Lemma m4_affine_inverse m n : m4_affine m -> m4_inverse_transform O m = Some n -> m4_affine n.
  Proof.
    intros Am E. destruct (m4_invert_spec Fth Heqb m E) as [K1 K2]. revert Am K2. unfold m4_affine.
    destruct m as [[a0 a1 a2 a3] [b0 b1 b2 b3] [c0 c1 c2 c3] [d0 d1 d2 d3]],
             n as [[a0' a1' a2' a3'] [b0' b1' b2' b3'] [c0' c1' c2' c3'] [d0' d1' d2' d3']].
    unfold_model. intros Am K2. injection Am as -> -> -> ->.
    injection K1 as P00 P01 P02 P03 P10 P11 P12 P13 P20 P21 P22 P23 P30 P31 P32 P33.
    f_equal.
    - rewrite <- P03; ring. - rewrite <- P13; ring. - rewrite <- P23; ring. - rewrite <- P33; ring.
  Qed.
End Inst.
