(* Proofs/C14_InterpR.v — C14: lerp (any ring), nlerp and slerp over the reals. *)
From CG Require Import Scalar Model.Vector Model.Point Model.Matrix Model.Angle Model.Quaternion Model.Metric
                       Proofs.Tac Proofs.Alg Proofs.RealInst Proofs.C03_Vector Proofs.C04_Quat Proofs.C11_MetricR Proofs.Consts.
From Coq Require Import Reals Lra Psatz QArith Qreals.
From Interval Require Import Tactic.
Local Open Scope R_scope.

(* ---------- lerp: a + (b - a) t, a at 0 and b at 1 (any commutative ring) ---------- *)
Section Lerp.
  Variable F : Type.
  Variable P : Ops F.
  Hypothesis Rth : ring_theory (zero P) (one P) (add P) (mul P) (sub P) (opp P) eq.
  Add Ring LR : Rth.
  Lemma quat_lerp_spec a b t :
    quat_lerp P a b t = quat_add P a (quat_mul_s P (quat_sub P b a) t) /\
    quat_lerp P a b (zero P) = a /\ quat_lerp P a b (one P) = b.
  Proof.
    split; [reflexivity|]. destruct a as [[a1 a2 a3] a0], b as [[b1 b2 b3] b0].
    split; unfold quat_lerp; unfold_quat; unfold_model; quat_eq; ring.
  Qed.
  Lemma vec_lerp_spec :
    (forall (a b : V1 F) t, v1_lerp P a b t = v1_add P a (v1_mul_s P (v1_sub P b a) t)) /\
    (forall (a b : V2 F) t, v2_lerp P a b t = v2_add P a (v2_mul_s P (v2_sub P b a) t)) /\
    (forall (a b : V3 F) t, v3_lerp P a b t = v3_add P a (v3_mul_s P (v3_sub P b a) t)) /\
    (forall (a b : V4 F) t, v4_lerp P a b t = v4_add P a (v4_mul_s P (v4_sub P b a) t)).
  Proof. repeat split. Qed.
End Lerp.

Local Notation O := OpsR.
Local Notation T := TrigR.

(* ---------- linear combinations of two quaternions ---------- *)
Definition lc (a b : Quat R) (x y : R) : Quat R := quat_add O (quat_mul_s O a x) (quat_mul_s O b y).
Lemma lc_norm a b x y : quat_magnitude2 O (lc a b x y) = x * x * quat_magnitude2 O a + y * y * quat_magnitude2 O b + 2 * x * y * quat_dot O a b.
Proof. destruct a as [[a1 a2 a3] a0], b as [[b1 b2 b3] b0]. unfold lc. unfold_quat. unfold_model. simpl_R. ring. Qed.
Lemma lc_dot a b x y : quat_dot O a (lc a b x y) = x * quat_magnitude2 O a + y * quat_dot O a b.
Proof. destruct a as [[a1 a2 a3] a0], b as [[b1 b2 b3] b0]. unfold lc. unfold_quat. unfold_model. simpl_R. ring. Qed.
Lemma lc_scale a b x y k : quat_mul_s O (lc a b x y) k = lc a b (x * k) (y * k).
Proof. destruct a as [[a1 a2 a3] a0], b as [[b1 b2 b3] b0]. unfold lc. unfold_quat. unfold_model. simpl_R. quat_eq; ring. Qed.
Lemma lc_10 a b : lc a b 1 0 = a.
Proof. destruct a as [[a1 a2 a3] a0], b as [[b1 b2 b3] b0]. unfold lc. unfold_quat. unfold_model. simpl_R. quat_eq; ring. Qed.
Lemma lc_01 a b : lc a b 0 1 = b.
Proof. destruct a as [[a1 a2 a3] a0], b as [[b1 b2 b3] b0]. unfold lc. unfold_quat. unfold_model. simpl_R. quat_eq; ring. Qed.
Lemma neg_props b : quat_magnitude2 O (quat_neg O b) = quat_magnitude2 O b /\ forall a, quat_dot O a (quat_neg O b) = - quat_dot O a b.
Proof. destruct b as [[b1 b2 b3] b0]. split; [|intros [[a1 a2 a3] a0]]; unfold_quat; unfold_model; simpl_R; ring. Qed.

(* normalising a quaternion of positive squared length n2: multiply by 1 / sqrt n2; the result is a unit quaternion *)
Lemma normalize_lc a b x y : 0 < quat_magnitude2 O (lc a b x y) ->
  let n := sqrt (quat_magnitude2 O (lc a b x y)) in
  quat_normalize O T (lc a b x y) = lc a b (x / n) (y / n) /\ quat_magnitude2 O (quat_normalize O T (lc a b x y)) = 1 /\ 0 < n.
Proof.
  intros H n. assert (Hn : 0 < n) by (apply sqrt_lt_R0; exact H).
  split; [|split; [|exact Hn]].
  - unfold quat_normalize, quat_normalize_to, quat_magnitude. simpl_R. fold n. rewrite lc_scale. f_equal; field; lra.
  - destruct (quat_normalize_to_spec (lc a b x y) 1 H) as [N1 _].
    destruct (quat_magnitude_spec (quat_normalize O T (lc a b x y))) as [S1 _].
    rewrite <- S1. change (quat_normalize O T (lc a b x y)) with (quat_normalize_to O T (lc a b x y) 1). rewrite N1, Rabs_1. ring.
Qed.

(* the shorter-arc representative of b *)
Definition flip (a b : Quat R) : Quat R := if Rltb (quat_dot O a b) 0 then quat_neg O b else b.
Lemma flip_props a b : quat_magnitude2 O b = 1 ->
  quat_magnitude2 O (flip a b) = 1 /\ quat_dot O a (flip a b) = Rabs (quat_dot O a b) /\ 0 <= quat_dot O a (flip a b) /\
  (flip a b = b \/ flip a b = quat_neg O b).
Proof.
  intros Hb. unfold flip. destruct (neg_props b) as [N1 N2].
  destruct (Rltb (quat_dot O a b) 0) eqn:E.
  - apply Rltb_spec in E. rewrite N1, N2. rewrite Rabs_left by exact E. repeat split; try lra. right. reflexivity.
  - apply Rltb_false in E. rewrite Rabs_pos_eq by lra. repeat split; try lra. left. reflexivity.
Qed.

Section Unit.
  Variables a b : Quat R.
  Hypothesis Ha : quat_magnitude2 O a = 1.
  Hypothesis Hb : quat_magnitude2 O b = 1.

  Lemma dot_le_1 : Rabs (quat_dot O a b) <= 1.
  Proof.
    destruct a as [[a1 a2 a3] a0], b as [[b1 b2 b3] b0]. unfold quat_magnitude2, quat_dot in *. unfold_metric. unfold_model. simpl_R.
    pose proof (cs4 a0 a1 a2 a3 b0 b1 b2 b3) as CS.
    set (d := a0 * b0 + (a1 * b1 + a2 * b2 + a3 * b3)) in *.
    assert (D : d * d <= 1).
    { eapply Rle_trans; [|eapply Rle_trans; [exact CS|]]; [right; unfold d; ring|right].
      replace (a0 * a0 + a1 * a1 + a2 * a2 + a3 * a3) with 1 by lra. replace (b0 * b0 + b1 * b1 + b2 * b2 + b3 * b3) with 1 by lra. ring. }
    apply Rabs_le. split; nra.
  Qed.

  (* ---------- nlerp ---------- *)
  Theorem nlerp_spec t : 0 <= t <= 1 ->
    let b' := flip a b in
    let r := quat_nlerp O T a b t in
    quat_magnitude2 O r = 1 /\
    (exists x y, 0 <= x /\ 0 <= y /\ r = lc a b' x y) /\
    (t = 0 -> r = a) /\ (t = 1 -> r = b').
  Proof.
    intros Ht b' r.
    destruct (flip_props a b Hb) as [F1 [F2 [F3 _]]]. fold b' in F1, F2, F3.
    assert (Er : r = quat_normalize O T (lc a b' (1 - t) t)) by reflexivity.
    set (d := quat_dot O a b') in *.
    assert (N2 : quat_magnitude2 O (lc a b' (1 - t) t) = (1 - t) * (1 - t) + t * t + 2 * (1 - t) * t * d).
    { rewrite lc_norm, Ha, F1. fold d. ring. }
    assert (Hpos : 0 < quat_magnitude2 O (lc a b' (1 - t) t)).
    { rewrite N2. assert (0 <= 2 * (1 - t) * t * d) by (apply Rmult_le_pos; [nra|lra]). nra. }
    destruct (normalize_lc a b' (1 - t) t Hpos) as [E1 [E2 E3]].
    rewrite Er. split; [exact E2|]. split; [|split].
    - rewrite E1. eexists. eexists. split; [|split; [|reflexivity]].
      + apply Rmult_le_pos; [lra|]. left. apply Rinv_0_lt_compat. exact E3.
      + apply Rmult_le_pos; [lra|]. left. apply Rinv_0_lt_compat. exact E3.
    - intros ->. rewrite E1. rewrite N2. replace ((1 - 0) * (1 - 0) + 0 * 0 + 2 * (1 - 0) * 0 * d) with 1 by ring.
      rewrite sqrt_1. replace ((1 - 0) / 1) with 1 by field. replace (0 / 1) with 0 by field. apply lc_10.
    - intros ->. rewrite E1. rewrite N2. replace ((1 - 1) * (1 - 1) + 1 * 1 + 2 * (1 - 1) * 1 * d) with 1 by ring.
      rewrite sqrt_1. replace ((1 - 1) / 1) with 0 by field. replace (1 / 1) with 1 by field. apply lc_01.
  Qed.

  (* ---------- slerp ---------- *)
  Definition thr : R := Q2R q_09995.
  Lemma thr_bounds : 9995 / 10000 <= thr < 1.
  Proof. unfold thr, Q2R, q_09995. simpl. split; lra. Qed.

  (* the two trigonometric identities behind slerp *)
  Lemma slerp_identities th t :
    let s1 := sin (th * (1 - t)) in let s2 := sin (th * t) in
    s1 * s1 + s2 * s2 + 2 * s1 * s2 * cos th = sin th * sin th /\ s1 + s2 * cos th = sin th * cos (th * t).
  Proof.
    intros s1 s2. unfold s1, s2. replace (th * (1 - t)) with (th - th * t) by ring. rewrite sin_minus.
    pose proof (sin2_cos2 th) as A. pose proof (sin2_cos2 (th * t)) as B. unfold Rsqr in A, B.
    set (S := sin th) in *. set (C := cos th) in *. set (su := sin (th * t)) in *. set (cu := cos (th * t)) in *.
    split; [|ring].
    replace ((S * cu - C * su) * (S * cu - C * su) + su * su + 2 * (S * cu - C * su) * su * C)
      with (S * S * (cu * cu) + su * su * (1 - C * C)) by ring.
    replace (1 - C * C) with (S * S) by lra. replace (S * S * (cu * cu) + su * su * (S * S)) with (S * S * (su * su + cu * cu)) by ring.
    rewrite B. ring.
  Qed.

  (* which branch slerp takes *)
  Lemma slerp_branches t :
    let b' := flip a b in
    let d := quat_dot O a b' in
    (thr < d -> quat_slerp O T a b t = quat_nlerp O T a b' t) /\
    (d <= thr -> quat_slerp O T a b t = quat_normalize O T (lc a b' (sin (acos d * (1 - t))) (sin (acos d * t)))).
  Proof.
    intros b' d.
    destruct (flip_props a b Hb) as [F1 [F2 [F3 _]]]. fold b' in F1, F2, F3. fold d in F2, F3.
    pose proof dot_le_1 as D1. rewrite <- F2 in D1. fold d in D1.
    assert (Ed : d = if Rltb (quat_dot O a b) 0 then - quat_dot O a b else quat_dot O a b).
    { unfold d, b', flip. destruct (neg_props b) as [_ N2]. destruct (Rltb (quat_dot O a b) 0); [apply N2|reflexivity]. }
    unfold quat_slerp. simpl_R. fold (flip a b). fold b'. rewrite <- Ed. fold thr.
    split; intros H.
    - assert (E : Rltb thr d = true) by (apply Rltb_spec; exact H). rewrite E. reflexivity.
    - assert (E : Rltb thr d = false) by (apply Rltb_false; exact H). rewrite E.
      assert (R : fmax O (fmin O d 1) (- (1)) = d).
      { unfold fmax, fmin. simpl_R.
        assert (E1 : Rleb d 1 = true) by (apply Rleb_spec; lra). rewrite E1.
        assert (E2 : Rleb (- (1)) d = true) by (apply Rleb_spec; lra). rewrite E2. reflexivity. }
      rewrite R. reflexivity.
  Qed.

  (* the exact region |a.b| <= cast(0.9995): unit result, non-negative combination of a and b', a at 0 and b' at 1,
     and constant angular speed: the arc from a to slerp(t) is t times the whole arc acos|a.b| *)
  Theorem slerp_exact t : 0 <= t <= 1 ->
    let b' := flip a b in
    let d := quat_dot O a b' in
    d <= thr ->
    let th := acos d in
    let r := quat_slerp O T a b t in
    quat_magnitude2 O r = 1 /\
    (exists x y, 0 <= x /\ 0 <= y /\ r = lc a b' x y) /\
    (t = 0 -> r = a) /\ (t = 1 -> r = b') /\
    quat_dot O a r = cos (t * th) /\ acos (quat_dot O a r) = t * th /\ 0 < th <= PI / 2.
  Proof.
    intros Ht b' d Hd th r.
    destruct (flip_props a b Hb) as [F1 [F2 [F3 _]]]. fold b' in F1, F2, F3. fold d in F2, F3.
    pose proof thr_bounds as TB.
    assert (Cth : cos th = d) by (unfold th; apply cos_acos; lra).
    assert (Hth : 0 < th <= PI / 2).
    { pose proof (acos_bound d) as B. fold th in B. pose proof PI_RGT_0. split.
      - destruct (Req_dec th 0) as [Z|Z]; [|lra]. rewrite Z, cos_0 in Cth. lra.
      - destruct (Rle_dec th (PI / 2)) as [L|L]; [exact L|]. assert (cos th < 0) by (apply cos_lt_0; lra). lra. }
    assert (Sth : 0 < sin th) by (apply sin_gt_0; pose proof PI_RGT_0; lra).
    destruct (slerp_branches t) as [_ Br]. fold b' in Br. fold d in Br. specialize (Br Hd). fold th in Br. fold r in Br.
    destruct (slerp_identities th t) as [I1 I2]. cbv zeta in I1, I2.
    set (s1 := sin (th * (1 - t))) in *. set (s2 := sin (th * t)) in *.
    assert (N2 : quat_magnitude2 O (lc a b' s1 s2) = sin th * sin th).
    { rewrite lc_norm, Ha, F1. fold d. rewrite <- Cth. rewrite <- I1. ring. }
    assert (Hpos : 0 < quat_magnitude2 O (lc a b' s1 s2)) by (rewrite N2; nra).
    destruct (normalize_lc a b' s1 s2 Hpos) as [E1 [E2 E3]].
    assert (Sq : sqrt (quat_magnitude2 O (lc a b' s1 s2)) = sin th).
    { rewrite N2. apply sqrt_square. lra. }
    rewrite Sq in E1.
    assert (P1 : 0 <= s1).
    { unfold s1. apply sin_ge_0; [apply Rmult_le_pos; lra|]. pose proof PI_RGT_0. nra. }
    assert (P2 : 0 <= s2).
    { unfold s2. apply sin_ge_0; [apply Rmult_le_pos; lra|]. pose proof PI_RGT_0. nra. }
    assert (Dr : quat_dot O a r = cos (t * th)).
    { rewrite Br, E1, lc_dot, Ha. fold d. rewrite <- Cth.
      replace (s1 / sin th * 1 + s2 / sin th * cos th) with ((s1 + s2 * cos th) / sin th) by (field; lra).
      rewrite I2. replace (th * t) with (t * th) by ring. field. lra. }
    split; [rewrite Br; exact E2|]. split; [|split; [|split; [|split; [exact Dr|split; [|exact Hth]]]]].
    - rewrite Br, E1. eexists. eexists. split; [|split; [|reflexivity]].
      + apply Rmult_le_pos; [exact P1|]. left. apply Rinv_0_lt_compat. exact Sth.
      + apply Rmult_le_pos; [exact P2|]. left. apply Rinv_0_lt_compat. exact Sth.
    - intros E. rewrite Br, E1. unfold s1, s2. rewrite E. replace (th * (1 - 0)) with th by ring. replace (th * 0) with 0 by ring.
      rewrite sin_0. replace (sin th / sin th) with 1 by (field; lra). replace (0 / sin th) with 0 by (field; lra). apply lc_10.
    - intros E. rewrite Br, E1. unfold s1, s2. rewrite E. replace (th * (1 - 1)) with 0 by ring. replace (th * 1) with th by ring.
      rewrite sin_0. replace (sin th / sin th) with 1 by (field; lra). replace (0 / sin th) with 0 by (field; lra). apply lc_01.
    - rewrite Dr. apply acos_cos. pose proof PI_RGT_0. split; [apply Rmult_le_pos; lra|nra].
  Qed.

  (* beyond the threshold slerp is nlerp on the same arc *)
  Theorem slerp_near t : 0 <= t <= 1 ->
    let b' := flip a b in
    thr < quat_dot O a b' ->
    let r := quat_slerp O T a b t in
    r = quat_nlerp O T a b' t /\ flip a b' = b' /\
    quat_magnitude2 O r = 1 /\ (exists x y, 0 <= x /\ 0 <= y /\ r = lc a b' x y) /\ (t = 0 -> r = a) /\ (t = 1 -> r = b').
  Proof.
    intros Ht b' Hd r.
    destruct (flip_props a b Hb) as [F1 [F2 [F3 _]]]. fold b' in F1, F2, F3.
    destruct (slerp_branches t) as [Br _]. fold b' in Br. specialize (Br Hd). fold r in Br.
    assert (Fl : flip a b' = b').
    { unfold flip at 1. assert (E : Rltb (quat_dot O a b') 0 = false) by (apply Rltb_false; exact F3). rewrite E. reflexivity. }
    split; [exact Br|]. split; [exact Fl|]. rewrite Br. clear Br r.
    (* nlerp_spec for the pair (a, b') *)
    assert (Er : quat_nlerp O T a b' t = quat_normalize O T (lc a b' (1 - t) t)).
    { unfold quat_nlerp. simpl_R. fold (flip a b'). rewrite Fl. reflexivity. }
    set (d := quat_dot O a b') in *.
    assert (N2 : quat_magnitude2 O (lc a b' (1 - t) t) = (1 - t) * (1 - t) + t * t + 2 * (1 - t) * t * d).
    { rewrite lc_norm, Ha, F1. fold d. ring. }
    assert (Hpos : 0 < quat_magnitude2 O (lc a b' (1 - t) t)).
    { rewrite N2. assert (0 <= 2 * (1 - t) * t * d) by (apply Rmult_le_pos; [nra|lra]). nra. }
    destruct (normalize_lc a b' (1 - t) t Hpos) as [E1 [E2 E3]].
    rewrite Er. split; [exact E2|]. split; [|split].
    - rewrite E1. eexists. eexists. split; [|split; [|reflexivity]].
      + apply Rmult_le_pos; [lra|]. left. apply Rinv_0_lt_compat. exact E3.
      + apply Rmult_le_pos; [lra|]. left. apply Rinv_0_lt_compat. exact E3.
    - intros ->. rewrite E1. rewrite N2. replace ((1 - 0) * (1 - 0) + 0 * 0 + 2 * (1 - 0) * 0 * d) with 1 by ring.
      rewrite sqrt_1. replace ((1 - 0) / 1) with 1 by field. replace (0 / 1) with 0 by field. apply lc_10.
    - intros ->. rewrite E1. rewrite N2. replace ((1 - 1) * (1 - 1) + 1 * 1 + 2 * (1 - 1) * 1 * d) with 1 by ring.
      rewrite sqrt_1. replace ((1 - 1) / 1) with 0 by field. replace (1 / 1) with 1 by field. apply lc_01.
  Qed.
End Unit.

(* ---------- beyond the threshold: nlerp stays within 1e-5 rad of constant angular speed ---------- *)
From Coq Require Import ZArith.
Lemma sin_lower x : 0 <= x <= 1 -> x - x * x * x / 6 <= sin x.
Proof.
  intros H. assert (P : x <= PI) by (pose proof PI2_3_2; lra).
  destruct (SIN x (proj1 H) P) as [L _].
  unfold sin_lb, sin_approx, sin_term in L. cbn [sum_f_R0] in L.
  rewrite !INR_IZR_INZ in L.
  change (Z.of_nat (fact (2 * 0 + 1))) with 1%Z in L.
  change (Z.of_nat (fact (2 * 1 + 1))) with 6%Z in L.
  change (Z.of_nat (fact (2 * 2 + 1))) with 120%Z in L.
  change (Z.of_nat (fact (2 * 3 + 1))) with 5040%Z in L.
  cbn [Nat.mul Nat.add pow] in L.
  eapply Rle_trans; [|exact L].
  assert (Q : 0 <= x * x * x * x * x * (42 - x * x)).
  { assert (0 <= x * x) by nra. assert (0 <= x * x * x * x) by nra. assert (0 <= x * x * x * x * x) by nra. assert (0 <= 42 - x * x) by nra. nra. }
  lra.
Qed.
Lemma sin_upper x : 0 <= x -> sin x <= x.
Proof. intros H. destruct (Req_dec x 0) as [->|N]; [rewrite sin_0; lra|]. left. apply sin_lt_x. lra. Qed.

Section Near.
  Variables a b : Quat R.
  Hypothesis Ha : quat_magnitude2 O a = 1.
  Hypothesis Hb : quat_magnitude2 O b = 1.
  Variable t : R.
  Hypothesis Ht : 0 <= t <= 1.
  Let b' := flip a b.
  Let d := quat_dot O a b'.
  Hypothesis Hd : thr < d.

  Theorem slerp_near_bound :
    Rabs (acos (quat_dot O a (quat_slerp O T a b t)) - t * acos d) <= 1 / 100000.
  Proof.
    destruct (flip_props a b Hb) as [F1 [F2 [F3 _]]]. fold b' in F1, F2, F3. fold d in F2, F3.
    pose proof (dot_le_1 a b Ha Hb) as D1. rewrite <- F2 in D1.
    pose proof thr_bounds as TB. pose proof PI_RGT_0 as Pp. pose proof PI2_3_2 as P3.
    set (th := acos d).
    assert (Cth : cos th = d) by (unfold th; apply cos_acos; lra).
    pose proof (acos_bound d) as Bth. fold th in Bth.
    (* theta is small *)
    assert (Hth : th <= 317 / 10000).
    { destruct (Rle_dec th (317 / 10000)) as [L|L]; [exact L|].
      assert (L' : 317 / 10000 <= th) by lra.
      pose proof (cos_decr_1 (317 / 10000) th). assert (cos (317 / 10000) < 9995 / 10000) by interval. lra. }
    assert (Sth : 0 <= sin th) by (apply sin_ge_0; lra).
    assert (S2 : sin th * sin th = 1 - d * d).
    { pose proof (sin2_cos2 th) as Q. unfold Rsqr in Q. rewrite Cth in Q. lra. }
    (* the result *)
    destruct (slerp_near a b Ha Hb t Ht Hd) as [Er [Fl _]]. fold b' in Er, Fl.
    assert (En : quat_nlerp O T a b' t = quat_normalize O T (lc a b' (1 - t) t)).
    { unfold quat_nlerp. simpl_R. fold (flip a b'). rewrite Fl. reflexivity. }
    assert (N2 : quat_magnitude2 O (lc a b' (1 - t) t) = (1 - t) * (1 - t) + t * t + 2 * (1 - t) * t * d).
    { rewrite lc_norm, Ha, F1. fold d. ring. }
    set (n2 := (1 - t) * (1 - t) + t * t + 2 * (1 - t) * t * d) in *.
    assert (Hn2 : 9997 / 10000 <= n2).
    { assert (Pq : 0 <= t * (1 - t) <= / 4).
      { split; [apply Rmult_le_pos; lra|]. pose proof (sq_nonneg (t - / 2)) as Q. replace ((t - / 2) * (t - / 2)) with (/ 4 - t * (1 - t)) in Q by field. lra. }
      assert (Pr : t * (1 - t) * (1 - d) <= / 4 * (5 / 10000)) by (apply Rmult_le_compat; lra).
      replace n2 with (1 - 2 * (t * (1 - t) * (1 - d))) by (unfold n2; ring). lra. }
    assert (Hpos : 0 < quat_magnitude2 O (lc a b' (1 - t) t)) by (rewrite N2; lra).
    destruct (normalize_lc a b' (1 - t) t Hpos) as [E1 [E2 E3]]. rewrite N2 in E1, E3.
    set (n := sqrt n2) in *.
    assert (Hnn : n * n = n2) by (unfold n; apply sqrt_sqrt; lra).
    assert (Hn : 9998 / 10000 <= n) by nra.
    rewrite Er, En, E1.
    set (r := lc a b' ((1 - t) / n) (t / n)).
    assert (Ur : quat_magnitude2 O r = 1) by (unfold r; rewrite <- E1; exact E2).
    set (C := quat_dot O a r).
    assert (EC : C = ((1 - t) + t * d) / n).
    { unfold C, r. rewrite lc_dot, Ha. fold d. field. lra. }
    assert (BC : -1 <= C <= 1) by (pose proof (dot_le_1 a r Ha Ur) as Q; apply Rabs_le_inv in Q; exact Q).
    set (psi := acos C).
    assert (Cpsi : cos psi = C) by (unfold psi; apply cos_acos; exact BC).
    pose proof (acos_bound C) as Bpsi. fold psi in Bpsi.
    assert (Spsi : sin psi = t * sin th / n).
    { assert (Q0 : 0 <= sin psi) by (apply sin_ge_0; lra).
      assert (Q1 : sin psi * sin psi = (t * sin th / n) * (t * sin th / n)).
      { pose proof (sin2_cos2 psi) as Q. unfold Rsqr in Q. rewrite Cpsi, EC in Q.
        replace (t * sin th / n * (t * sin th / n)) with (t * t * (sin th * sin th) / (n * n)) by (field; lra).
        rewrite S2, Hnn.
        assert (((1 - t + t * d) / n) * ((1 - t + t * d) / n) = (1 - t + t * d) * (1 - t + t * d) / n2) by (rewrite <- Hnn; field; lra).
        assert (n2 - (1 - t + t * d) * (1 - t + t * d) = t * t * (1 - d * d)) by (unfold n2; ring).
        assert (sin psi * sin psi = (n2 - (1 - t + t * d) * (1 - t + t * d)) / n2).
        { rewrite H in Q. replace ((n2 - (1 - t + t * d) * (1 - t + t * d)) / n2) with (1 - (1 - t + t * d) * (1 - t + t * d) / n2) by (field; lra). lra. }
        rewrite H1, H0. reflexivity. }
      assert (Q2 : 0 <= t * sin th / n) by (apply Rmult_le_pos; [nra|left; apply Rinv_0_lt_compat; lra]).
      nra. }
    set (dl := psi - t * th).
    set (u := t * th). set (v := (1 - t) * th).
    assert (Hu : 0 <= u <= th) by (unfold u; split; nra).
    assert (Hv : 0 <= v <= th) by (unfold v; split; nra).
    assert (Huv : u + v = th) by (unfold u, v; ring).
    (* sine and cosine of the deviation *)
    assert (Sd : sin dl = (t * sin v - (1 - t) * sin u) / n).
    { unfold dl. fold u. rewrite sin_minus, Spsi, Cpsi, EC, <- Cth.
      replace v with (th - u) by lra. rewrite sin_minus. field. lra. }
    assert (Cd : cos dl = ((1 - t) * cos u + t * cos v) / n).
    { unfold dl. fold u. rewrite cos_minus, Spsi, Cpsi, EC, <- Cth.
      replace v with (th - u) by lra. rewrite cos_minus. field. lra. }
    assert (Cdpos : 0 < cos dl).
    { rewrite Cd. apply Rdiv_lt_0_compat; [|lra].
      assert (0 < cos u) by (apply cos_gt_0; lra). assert (0 < cos v) by (apply cos_gt_0; lra).
      destruct (Req_dec t 0) as [->|Nt]; [lra|]. assert (0 < t * cos v) by (apply Rmult_lt_0_compat; lra). nra. }
    (* the numerator is cubically small *)
    assert (Gb : Rabs (t * sin v - (1 - t) * sin u) <= th * th * th / 6).
    { assert (U1 : sin u <= u) by (apply sin_upper; lra). assert (V1 : sin v <= v) by (apply sin_upper; lra).
      assert (U2 : u - u * u * u / 6 <= sin u) by (apply sin_lower; lra).
      assert (V2 : v - v * v * v / 6 <= sin v) by (apply sin_lower; lra).
      assert (TU : t * v = (1 - t) * u) by (unfold u, v; ring).
      assert (U3 : u * u * u <= th * th * th).
      { assert (u * u <= th * th) by nra. assert (0 <= u * u) by nra. nra. }
      assert (V3 : v * v * v <= th * th * th).
      { assert (v * v <= th * th) by nra. assert (0 <= v * v) by nra. nra. }
      assert (0 <= u * u * u) by (assert (0 <= u * u) by nra; nra).
      assert (0 <= v * v * v) by (assert (0 <= v * v) by nra; nra).
      apply Rabs_le. split; nra. }
    assert (T3 : th * th * th / 6 <= 54 / 10000000).
    { assert (th * th <= 317 / 10000 * (317 / 10000)) by nra. assert (0 <= th * th) by nra.
      assert (th * th * th <= 317 / 10000 * (317 / 10000) * (317 / 10000)) by nra. lra. }
    assert (Sb : Rabs (sin dl) <= 6 / 1000000).
    { rewrite Sd. unfold Rdiv at 1. rewrite Rabs_mult, (Rabs_pos_eq (/ n)) by (left; apply Rinv_0_lt_compat; lra).
      apply Rle_trans with (54 / 10000000 * / n); [apply Rmult_le_compat_r; [left; apply Rinv_0_lt_compat; lra|lra]|].
      apply Rmult_le_reg_r with n; [lra|]. rewrite Rmult_assoc, Rinv_l by lra. lra. }
    (* the deviation lies in (-pi/2, pi/2), where sine is increasing *)
    assert (Rd : - (PI / 2) < dl < PI / 2).
    { unfold dl. fold u. split; [lra|].
      destruct (Rlt_dec (psi - u) (PI / 2)) as [L|L]; [exact L|].
      assert (cos (psi - u) <= 0) by (apply cos_le_0; lra). unfold dl in Cdpos. fold u in Cdpos. lra. }
    fold dl. apply Rabs_le_inv in Sb.
    assert (S5 : 9 / 1000000 < sin (1 / 100000)) by interval.
    apply Rabs_le. split.
    - destruct (Rle_dec (- (1 / 100000)) dl) as [L|L]; [exact L|].
      assert (sin dl < sin (- (1 / 100000))) by (apply sin_increasing_1; lra). rewrite sin_neg in H. lra.
    - destruct (Rle_dec dl (1 / 100000)) as [L|L]; [exact L|].
      assert (sin (1 / 100000) < sin dl) by (apply sin_increasing_1; lra). lra.
  Qed.
End Near.

Lemma units_example : quat_magnitude2 O (quat_new 1 0 0 0) = 1 /\ quat_magnitude2 O (quat_new 0 1 0 0) = 1 /\
  quat_dot O (quat_new 1 0 0 0) (flip (quat_new 1 0 0 0) (quat_new 0 1 0 0)) <= thr.
Proof.
  assert (E : quat_dot O (quat_new 1 0 0 0) (quat_new 0 1 0 0) = 0) by (unfold_quat; unfold_model; simpl_R; ring).
  repeat split.
  - unfold_quat. unfold_model. simpl_R. ring.
  - unfold_quat. unfold_model. simpl_R. ring.
  - unfold flip. rewrite E. assert (R : Rltb 0 0 = false) by (apply Rltb_false; lra). rewrite R, E. pose proof thr_bounds. lra.
Qed.
