(* Proofs/C07_GimbalR.v — inside the gimbal-lock cone the rotation rebuilt from the extracted Euler angles matches the
   quaternion's rotation to within 0.13 in every matrix element (the last clause of property C07), over the reals.

   With U = w + i x, V = y + i z (q = (w; x, y, z) a unit quaternion), a = xz + yw (the thresholded quantity),
   b = wz - xy, p = |U|^2: conj(U) V = a + i b, a^2 + b^2 = p (1 - p), and the matrix of q has
     (m20, m21, m22) a unit column with m20 = 2a,   (m00, m10, m20) a unit row,
     m11 + i m12 = U^2 + V^2,   -m02 + i m01 = 2 U V,
   while the rebuilt matrix has e^{2 i atan2(x, w)} = U^2 / p in those places.  Hence the exact identities of
   gimbal_core; with a > cast(0.499) every squared distance is below 0.005 < 0.13^2. *)
From CG Require Import Scalar Model.Vector Model.Point Model.Matrix Model.Angle Model.Quaternion Model.Metric Model.Rotation Model.Euler
                       Proofs.Tac Proofs.Alg Proofs.RealInst Proofs.Consts Proofs.C07_EulerR Proofs.C07_Consts.
From Coq Require Import Reals Lra Psatz QArith Qreals.
Local Open Scope R_scope.

Lemma sig_lower : 49899999 / 100000000 < sig.
Proof. unfold sig, q_0499, Q2R. simpl. lra. Qed.

(* the reported quarter turn: cos ~ 0, sin ~ 1 *)
Lemma quarter_turn_trig : Rabs (cos quarter_turn) <= 1 / 1000000000000000 /\ 1 - 1 / 1000000000000000 <= sin quarter_turn <= 1.
Proof.
  pose proof quarter_turn_close as H. apply Rabs_le_inv in H.
  set (t := PI / 2 - quarter_turn). assert (Ht : - (1 / 10000000000000000) <= t <= 1 / 10000000000000000) by (unfold t; lra).
  assert (Hc : cos quarter_turn = sin t) by (unfold t; rewrite sin_shift; reflexivity).
  assert (Hs : sin quarter_turn = cos t) by (unfold t; rewrite cos_shift; reflexivity).
  assert (Hst : Rabs (sin t) <= 1 / 10000000000000000).
  { apply Rabs_le. destruct (Rtotal_order t 0) as [N | [Z | P]].
    - pose proof (sin_gt_x t N). assert (sin t < 0).
      { apply sin_lt_0_var; pose proof PI2_3_2; lra. } lra.
    - rewrite Z, sin_0. lra.
    - pose proof (sin_lt_x t P). assert (0 < sin t) by (apply sin_gt_0; pose proof PI2_3_2; lra). lra. }
  split.
  - rewrite Hc. lra.
  - rewrite Hs. pose proof (COS_bound t) as [_ Hu]. split; [|exact Hu].
    pose proof (sin2_cos2 t) as E. unfold Rsqr in E. apply Rabs_le_inv in Hst.
    assert (0 < cos t) by (apply cos_gt_0; pose proof PI2_3_2; lra).
    nra.
Qed.

Lemma gimbal_core : forall w x y z : R, w*w + x*x + y*y + z*z = 1 -> 0 < w*w + x*x ->
  let a := x*z + y*w in let b := w*z - x*y in let p := w*w + x*x in
  let Ec := (w*w - x*x)/p in let Es := 2*w*x/p in
  let m00 := 1 - 2*y*y - 2*z*z in let m01 := 2*x*y + 2*z*w in let m02 := 2*x*z - 2*y*w in
  let m10 := 2*x*y - 2*z*w in let m11 := 1 - 2*x*x - 2*z*z in let m12 := 2*y*z + 2*x*w in
  let m21 := 2*y*z - 2*x*w in let m22 := 1 - 2*x*x - 2*y*y in
  m00*m00 + m10*m10 = 1 - 4*a*a /\ m21*m21 + m22*m22 = 1 - 4*a*a /\
  (m11 - Ec)*(m11 - Ec) + (m12 - Es)*(m12 - Es) = 4*b*b*(1-p)/p /\
  (m02 + Ec)*(m02 + Ec) + (m01 - Es)*(m01 - Es) = (1 - 2*a)*(1 - 2*a) + 4*b*b /\
  (m02 - Ec)*(m02 - Ec) + (m01 + Es)*(m01 + Es) = (1 + 2*a)*(1 + 2*a) + 4*b*b /\
  a*a + b*b = p*(1-p).
Proof.
  intros w x y z Hu Hp. cbv zeta.
  assert (Hn : w*w + x*x + y*y + z*z - 1 = 0) by lra.
  repeat split.
  - apply Rminus_diag_uniq.
    match goal with |- ?L - ?R = 0 => replace (L - R) with ((4*y*y + 4*z*z) * (w*w + x*x + y*y + z*z - 1)) by ring end. rewrite Hn. ring.
  - apply Rminus_diag_uniq.
    match goal with |- ?L - ?R = 0 => replace (L - R) with ((4*x*x + 4*y*y) * (w*w + x*x + y*y + z*z - 1)) by ring end. rewrite Hn. ring.
  - apply Rminus_diag_uniq.
    match goal with |- ?L - ?R = 0 => replace (L - R) with (4*(w*w*x*x + w*w*z*z + x*x*x*x + x*x*z*z - x*x)/(w*w+x*x) * (w*w + x*x + y*y + z*z - 1)) by (field; lra) end.
    rewrite Hn. ring.
  - field. lra.
  - field. lra.
  - apply Rminus_diag_uniq.
    match goal with |- ?L - ?R = 0 => replace (L - R) with ((w*w + x*x) * (w*w + x*x + y*y + z*z - 1)) by ring end. rewrite Hn. ring.
Qed.

Lemma sq_sum_bound u v : u*u + v*v <= 5/1000 -> Rabs u <= 71/1000 /\ Rabs v <= 71/1000.
Proof. intros H. split; apply Rabs_le; nra. Qed.

(* numeric consequences of |a| > cast(0.499) for a unit quaternion *)
Lemma gimbal_numbers : forall a b p : R, a*a + b*b = p*(1-p) -> 49899999/100000000 < Rabs a -> 0 <= p ->
  1 - 4*a*a <= 5/1000 /\ 4*b*b*(1-p)/p <= 5/1000 /\ (1 - 2*Rabs a)*(1 - 2*Rabs a) + 4*b*b <= 5/1000 /\ 46/100 <= p.
Proof.
  intros a b p E Ha Hp0.
  assert (Ha2 : (49899999/100000000)*(49899999/100000000) < a*a).
  { destruct (Rcase_abs a) as [N|N]; [rewrite Rabs_left in Ha by exact N | rewrite Rabs_right in Ha by exact N]; nra. }
  assert (Hq : p*(1-p) <= 1/4) by (pose proof (Rle_0_sqr (p - 1/2)) as Q; unfold Rsqr in Q; lra).
  assert (Hb : b*b <= 1/4 - a*a) by lra.
  assert (Hbb : 0 <= b*b) by (pose proof (Rle_0_sqr b) as Q; unfold Rsqr in Q; lra).
  assert (Hpp : 2489/10000 < p*(1-p)) by lra.
  assert (Hp : 46/100 <= p).
  { destruct (Rle_dec (46/100) p) as [L|L]; [exact L|]. exfalso. assert (p*(1-p) <= (46/100)*(54/100)) by nra. lra. }
  assert (Hp1 : p <= 54/100).
  { destruct (Rle_dec p (54/100)) as [L|L]; [exact L|]. exfalso. assert (p*(1-p) <= (46/100)*(54/100)) by nra. lra. }
  assert (Hal : Rabs a <= 1/2).
  { apply Rabs_le. assert (a*a <= 1/4) by nra. nra. }
  repeat split; try lra.
  - assert ((1-p)/p <= 118/100).
    { apply Rmult_le_reg_r with p; [lra|]. unfold Rdiv. rewrite Rmult_assoc, Rinv_l by lra. nra. }
    replace (4*b*b*(1-p)/p) with (4*(b*b)*((1-p)/p)) by (field; lra).
    assert (0 <= b*b) by nra. assert (0 <= (1-p)/p).
    { apply Rmult_le_pos; [lra|]. left. apply Rinv_0_lt_compat. lra. }
    nra.
  - assert (Ht : 0 <= 1 - 2*Rabs a <= 201/100000) by lra.
    set (t := 1 - 2*Rabs a) in *. assert (t*t <= 5/1000000) by nra. lra.
Qed.

Definition close13 (A B : M3 R) : Prop :=
  List.Forall2 (fun a b => Rabs (a - b) <= 13/100) (m3_list A) (m3_list B).

(* double angle of atan2 *)
Lemma atan2_double x w : 0 < w*w + x*x ->
  cos (Ratan2 x w * 2) = (w*w - x*x)/(w*w + x*x) /\ sin (Ratan2 x w * 2) = 2*w*x/(w*w + x*x).
Proof.
  intros Hp. set (r := sqrt (w*w + x*x)).
  assert (Hr : 0 < r) by (apply sqrt_lt_R0; exact Hp).
  assert (Hrr : r * r = w*w + x*x) by (apply sqrt_sqrt; lra).
  destruct (atan2_pair x w (w*w + x*x) r Hr Hrr eq_refl) as [C S].
  rewrite (Rmult_comm _ 2), cos_2a, sin_2a.
  set (c := cos (Ratan2 x w)) in *. set (s := sin (Ratan2 x w)) in *.
  assert (Ec : c = w / r) by (rewrite <- C; field; lra).
  assert (Es : s = x / r) by (rewrite <- S; field; lra).
  rewrite Ec, Es, <- Hrr. split; field; lra.
Qed.

Theorem euler_gimbal_bound : forall q : Quat R, quat_magnitude2 OpsR q = 1 ->
  (sig < gimbal_test q \/ gimbal_test q < - sig) ->
  close13 (m3_of_euler OpsR TrigR (URad OpsR) (euler_of_quat OpsR TrigR q)) (m3_of_quat OpsR q).
Proof.
  intros q Hu Hc. destruct (euler_extract_gimbal q Hu) as [Gu Gl].
  destruct q as [[x y z] w]. unfold gimbal_test in *. cbn [qv qs v3x v3y v3z] in *.
  unfold quat_magnitude2, quat_dot, v3_dot, v3_sum, v3_mul_ew, v3_zip in Hu. cbn [qv qs v3x v3y v3z] in Hu. simpl_R.
  assert (Hu' : w*w + x*x + y*y + z*z = 1) by lra. clear Hu.
  pose proof sig_lower as Hs. pose proof sig_bounds as [_ Hs1].
  assert (Ha : 49899999/100000000 < Rabs (x*z + y*w)).
  { destruct Hc as [H|H]; [rewrite Rabs_right by lra | rewrite Rabs_left by lra]; lra. }
  assert (Hp : 0 < w*w + x*x).
  { destruct (Rlt_dec 0 (w*w + x*x)) as [L|L]; [exact L|]. exfalso.
    pose proof (Rle_0_sqr w) as Qw. pose proof (Rle_0_sqr x) as Qx. unfold Rsqr in *.
    assert (w = 0) by nra. assert (x = 0) by nra. subst. rewrite !Rmult_0_l, !Rmult_0_r, Rplus_0_l, Rabs_R0 in Ha. lra. }
  destruct (gimbal_core w x y z Hu' Hp) as [I1 [I2 [I3 [I4 [I5 I6]]]]]. cbv zeta in *.
  destruct (gimbal_numbers _ _ _ I6 Ha (Rlt_le _ _ Hp)) as [N1 [N3 [N4 Np]]].
  destruct (atan2_double x w Hp) as [Dc Ds].
  destruct quarter_turn_trig as [Qc [Qs0 Qs1]]. apply Rabs_le_inv in Qc.
  rewrite <- I1 in N1. rewrite <- I2 in N1 at 1 || idtac.
  assert (N2 : (2 * y * z - 2 * x * w) * (2 * y * z - 2 * x * w) + (1 - 2 * x * x - 2 * y * y) * (1 - 2 * x * x - 2 * y * y) <= 5/1000) by lra.
  rewrite <- I3 in N3.
  destruct (sq_sum_bound _ _ N1) as [B00 B10]. destruct (sq_sum_bound _ _ N2) as [B21 B22].
  destruct (sq_sum_bound _ _ N3) as [B11 B12].
  assert (Hal : Rabs (x*z + y*w) <= 1/2).
  { apply Rabs_le. pose proof (Rle_0_sqr (w*z - x*y)) as Q1. pose proof (Rle_0_sqr ((w*w + x*x) - 1/2)) as Q2. unfold Rsqr in *.
    assert ((x*z + y*w)*(x*z + y*w) <= 1/4) by nra. nra. }
  pose proof (COS_bound (Ratan2 x w * 2)) as Bc. pose proof (SIN_bound (Ratan2 x w * 2)) as Bs.
  set (Ec := (w * w - x * x) / (w * w + x * x)) in *. set (Es := 2 * w * x / (w * w + x * x)) in *.
  set (m00 := 1 - 2 * y * y - 2 * z * z) in *. set (m10 := 2 * x * y - 2 * z * w) in *.
  set (m21 := 2 * y * z - 2 * x * w) in *. set (m22 := 1 - 2 * x * x - 2 * y * y) in *.
  set (m11 := 1 - 2 * x * x - 2 * z * z) in *. set (m12 := 2 * y * z + 2 * x * w) in *.
  set (m02 := 2 * x * z - 2 * y * w) in *. set (m01 := 2 * x * y + 2 * z * w) in *.
  apply Rabs_le_inv in B00, B10, B21, B22, B11, B12.
  rewrite Dc in Bc. rewrite Ds in Bs.
  set (sy := sin quarter_turn) in *. set (cy := cos quarter_turn) in *.
  assert (P1 : - (1/1000000000000000) <= cy*Ec <= 1/1000000000000000) by (clear - Qc Bc; nra).
  assert (P2 : - (1/1000000000000000) <= cy*Es <= 1/1000000000000000) by (clear - Qc Bs; nra).
  assert (P3 : - (1/1000000000000000) <= sy*Ec - Ec <= 1/1000000000000000) by (clear - Qs0 Qs1 Bc; nra).
  assert (P4 : - (1/1000000000000000) <= sy*Es - Es <= 1/1000000000000000) by (clear - Qs0 Qs1 Bs; nra).
  unfold close13. destruct Hc as [H|H].
  - rewrite (Gu H). rewrite Rabs_right in N4, Hal by lra. rewrite <- I4 in N4. destruct (sq_sum_bound _ _ N4) as [B02 B01].
    apply Rabs_le_inv in B02, B01.
    unfold m3_of_euler, m3_of_quat. cbn [ex ey ez to_rad URad qv qs v3x v3y v3z]. simpl_R.
    rewrite sin_0, cos_0, Dc, Ds. fold quarter_turn. fold sy cy.
    unfold_model.
    unfold m00, m10, m21, m22, m11, m12, m02, m01 in *.
    repeat (apply List.Forall2_cons; [apply Rabs_le; split; lra|]); apply List.Forall2_nil.
  - rewrite (Gl H). rewrite Rabs_left in N4, Hal by lra.
    replace (1 - 2 * - (x * z + y * w)) with (1 + 2 * (x * z + y * w)) in N4 by ring.
    rewrite <- I5 in N4. destruct (sq_sum_bound _ _ N4) as [B02 B01].
    apply Rabs_le_inv in B02, B01.
    unfold m3_of_euler, m3_of_quat. cbn [ex ey ez to_rad URad qv qs v3x v3y v3z]. simpl_R.
    replace (- Ratan2 x w * 2) with (- (Ratan2 x w * 2)) by ring.
    rewrite sin_0, cos_0, !sin_neg, !cos_neg, Dc, Ds. fold quarter_turn. fold sy cy.
    unfold_model.
    unfold m00, m10, m21, m22, m11, m12, m02, m01 in *.
    repeat (apply List.Forall2_cons; [apply Rabs_le; split; lra|]); apply List.Forall2_nil.
Qed.
Print Assumptions euler_gimbal_bound.

(* the cone is inhabited by a rational point of the unit 3-sphere *)
Lemma gimbal_cone_inhabited :
  quat_magnitude2 OpsR (quat_new (70/99) (1/99) (70/99) 0) = 1 /\ sig < gimbal_test (quat_new (70/99) (1/99) (70/99) 0).
Proof.
  pose proof sig_bounds as [_ H].
  unfold gimbal_test, quat_new, quat_from_sv, quat_magnitude2, quat_dot, v3_dot, v3_sum, v3_mul_ew, v3_zip.
  cbn [qv qs v3x v3y v3z]. simpl_R. split; lra.
Qed.
