(* Proofs/Tac.v — shared proof automation: destructing the record values of a goal. *)
From Coq Require Import List Arith.
From CG Require Import Scalar Model.Vector.

Ltac destruct_vecs :=
  repeat match goal with
  | v : V1 _ |- _ => destruct v
  | v : V2 _ |- _ => destruct v
  | v : V3 _ |- _ => destruct v
  | v : V4 _ |- _ => destruct v
  end.

(* split an equation between constructor applications into component equations *)
Ltac vec_eq :=
  repeat match goal with
  | |- mkV1 _ = mkV1 _ => f_equal
  | |- mkV2 _ _ = mkV2 _ _ => f_equal
  | |- mkV3 _ _ _ = mkV3 _ _ _ => f_equal
  | |- mkV4 _ _ _ _ = mkV4 _ _ _ _ => f_equal
  | |- Some _ = Some _ => f_equal
  | |- (_, _) = (_, _) => f_equal
  | |- cons _ _ = cons _ _ => f_equal
  | |- _ /\ _ => split
  end.

From CG Require Import Model.Point Model.Matrix.

Ltac destruct_mats :=
  repeat match goal with
  | m : M2 _ |- _ => destruct m
  | m : M3 _ |- _ => destruct m
  | m : M4 _ |- _ => destruct m
  | p : P1 _ |- _ => destruct p
  | p : P2 _ |- _ => destruct p
  | p : P3 _ |- _ => destruct p
  end; destruct_vecs.

Ltac mat_eq :=
  repeat match goal with
  | |- mkM2 _ _ = mkM2 _ _ => f_equal
  | |- mkM3 _ _ _ = mkM3 _ _ _ => f_equal
  | |- mkM4 _ _ _ _ = mkM4 _ _ _ _ => f_equal
  | |- mkP1 _ = mkP1 _ => f_equal
  | |- mkP2 _ _ = mkP2 _ _ => f_equal
  | |- mkP3 _ _ _ = mkP3 _ _ _ => f_equal
  | |- mkV1 _ = mkV1 _ => f_equal
  | |- mkV2 _ _ = mkV2 _ _ => f_equal
  | |- mkV3 _ _ _ = mkV3 _ _ _ => f_equal
  | |- mkV4 _ _ _ _ = mkV4 _ _ _ _ => f_equal
  | |- Some _ = Some _ => f_equal
  | |- (_, _) = (_, _) => f_equal
  | |- cons _ _ = cons _ _ => f_equal
  | |- _ /\ _ => split
  end.

(* unfold every model definition of Vector/Point/Matrix down to scalar operations *)
Ltac unfold_model :=
  cbv [v1_add v2_add v3_add v4_add v1_sub v2_sub v3_sub v4_sub v1_neg v2_neg v3_neg v4_neg
       v1_mul_s v2_mul_s v3_mul_s v4_mul_s v1_div_s v2_div_s v3_div_s v4_div_s
       v1_rem_s v2_rem_s v3_rem_s v4_rem_s
       v1_add_ew v2_add_ew v3_add_ew v4_add_ew v1_sub_ew v2_sub_ew v3_sub_ew v4_sub_ew
       v1_mul_ew v2_mul_ew v3_mul_ew v4_mul_ew v1_div_ew v2_div_ew v3_div_ew v4_div_ew
       v1_rem_ew v2_rem_ew v3_rem_ew v4_rem_ew
       v1_add_ews v2_add_ews v3_add_ews v4_add_ews v1_sub_ews v2_sub_ews v3_sub_ews v4_sub_ews
       v1_mul_ews v2_mul_ews v3_mul_ews v4_mul_ews v1_div_ews v2_div_ews v3_div_ews v4_div_ews
       v1_rem_ews v2_rem_ews v3_rem_ews v4_rem_ews
       v1_smul v2_smul v3_smul v4_smul v1_sdiv v2_sdiv v3_sdiv v4_sdiv v1_srem v2_srem v3_srem v4_srem
       v1_sum v2_sum v3_sum v4_sum v1_product v2_product v3_product v4_product
       v1_zero v2_zero v3_zero v4_zero v1_from_value v2_from_value v3_from_value v4_from_value
       v1_dot v2_dot v3_dot v4_dot v1_magnitude2 v2_magnitude2 v3_magnitude2 v4_magnitude2
       v1_distance2 v2_distance2 v3_distance2 v4_distance2
       v1_lerp v2_lerp v3_lerp v4_lerp v1_project_on v2_project_on v3_project_on v4_project_on
       v1_unit_x v2_unit_x v2_unit_y v3_unit_x v3_unit_y v3_unit_z v4_unit_x v4_unit_y v4_unit_z v4_unit_w
       v2_perp_dot v3_cross v2_extend v3_extend v3_truncate v4_truncate v4_truncate_n
       v1_map v2_map v3_map v4_map v1_zip v2_zip v3_zip v4_zip
       v1_list v2_list v3_list v4_list
       v1x v2x v2y v3x v3y v3z v4x v4y v4z v4w
       p1_map p2_map p3_map p1_zip p2_zip p3_zip p1_from_value p2_from_value p3_from_value
       p1_list p2_list p3_list p1_from_vec p2_from_vec p3_from_vec p1_to_vec p2_to_vec p3_to_vec
       p1_zipv p2_zipv p3_zipv p1_zipp p2_zipp p3_zipp
       p1_add_v p2_add_v p3_add_v p1_sub_v p2_sub_v p3_sub_v p1_sub_p p2_sub_p p3_sub_p
       p1_mul_s p2_mul_s p3_mul_s p1_div_s p2_div_s p3_div_s p1_rem_s p2_rem_s p3_rem_s
       p1_add_ew p2_add_ew p3_add_ew p1_sub_ew p2_sub_ew p3_sub_ew p1_mul_ew p2_mul_ew p3_mul_ew
       p1_div_ew p2_div_ew p3_div_ew p1_rem_ew p2_rem_ew p3_rem_ew
       p1_add_ews p2_add_ews p3_add_ews p1_sub_ews p2_sub_ews p3_sub_ews
       p1_mul_ews p2_mul_ews p3_mul_ews p1_div_ews p2_div_ews p3_div_ews p1_rem_ews p2_rem_ews p3_rem_ews
       p1_smul p2_smul p3_smul p1_sdiv p2_sdiv p3_sdiv p1_srem p2_srem p3_srem
       p1_sum p2_sum p3_sum p1_product p2_product p3_product p1_origin p2_origin p3_origin
       p1_dot p2_dot p3_dot p1_midpoint p2_midpoint p3_midpoint
       p1_distance2 p2_distance2 p3_distance2 p3_to_homogeneous p3_from_homogeneous
       p1x p2x p2y p3x p3y p3z
       m2_from_cols m3_from_cols m4_from_cols m2_new m3_new m4_new m2_list m3_list m4_list
       v2_get v3_get v4_get v2_set v3_set v4_set m2_col m3_col m4_col m2_set_col m3_set_col m4_set_col
       m2_e m3_e m4_e m2_set_e m3_set_e m4_set_e v2_swap v3_swap v4_swap
       m2_row m3_row m4_row m2_row0 m2_row1 m3_row0 m3_row1 m3_row2 m4_row0 m4_row1 m4_row2 m4_row3
       m2_swap_rows m3_swap_rows m4_swap_rows m2_swap_columns m3_swap_columns m4_swap_columns
       m2_swap_elements m3_swap_elements m4_swap_elements m2_replace_col m3_replace_col m4_replace_col
       m2_transpose m3_transpose m4_transpose obind m2_transpose_self m3_transpose_self m4_transpose_self
       m2_diagonal m3_diagonal m4_diagonal m2_mapc m3_mapc m4_mapc m2_zipc m3_zipc m4_zipc
       m2_from_value m3_from_value m4_from_value m2_from_diagonal m3_from_diagonal m4_from_diagonal
       m2_identity m3_identity m4_identity m2_zero m3_zero m4_zero m2_trace m3_trace m4_trace
       m3_from_translation m3_from_nonuniform_scale m3_from_scale
       m4_from_translation m4_from_nonuniform_scale m4_from_scale m3_of_m2 m4_of_m2 m4_of_m3
       m2_neg m3_neg m4_neg m2_mul_s m3_mul_s m4_mul_s m2_div_s m3_div_s m4_div_s
       m2_rem_s m3_rem_s m4_rem_s m2_add m3_add m4_add m2_sub m3_sub m4_sub
       m2_smul m3_smul m4_smul m2_sdiv m3_sdiv m4_sdiv m2_srem m3_srem m4_srem
       m2_mul_v m3_mul_v m4_mul_v m2_mul m3_mul m4_comb m4_mul
       m2_determinant m3_determinant flat4 det_sub_proc m4_determinant
       m2_invert m3_invert trunc_n m4_cf m4_invert
       m3_transform_vector2 m3_transform_point2 m3_transform_vector3 m3_transform_point3
       m4_transform_vector m4_transform_point m3_concat m4_concat m3_inverse_transform m4_inverse_transform
       m2_lerp m3_lerp m4_lerp
       m2x m2y m3x m3y m3z m4x m4y m4z m4w
       app nth map fold_right fold_left repeat seq Nat.odd Nat.even Nat.add negb lzip] in *.

From CG Require Import Model.Angle Model.Quaternion.

Ltac destruct_quats :=
  repeat match goal with
  | q : Quat _ |- _ => destruct q
  end; destruct_mats.

Ltac quat_eq :=
  repeat match goal with
  | |- mkQuat _ _ = mkQuat _ _ => f_equal
  | _ => progress mat_eq
  end.

Ltac unfold_quat :=
  cbv [quat_from_sv quat_new quat_list quat_sxyz quat_zero quat_one quat_conjugate quat_neg
       quat_add quat_sub quat_mul_s quat_div_s quat_rem_s quat_smul quat_sdiv quat_mul quat_mul_v
       quat_dot quat_magnitude2 quat_distance2 quat_lerp quat_rotate_vector quat_rotate_point
       quat_invert m3_of_quat m4_of_quat qv qs nat_c] in *.

From CG Require Import Model.Projection.
Ltac unfold_proj :=
  cbv [m4_ortho m4_frustum m4_perspective m4_planar to_perspective guard abs_diff_ne_d nat_c] in *.

From CG Require Import Model.Metric Model.Rotation.
Ltac unfold_rot :=
  cbv [m2_from_angle m3_from_angle_x m3_from_angle_y m3_from_angle_z m3_from_axis_angle
       m4_from_angle_x m4_from_angle_y m4_from_angle_z m4_from_axis_angle sc ang_sin_cos
       quat_from_axis_angle quat_from_angle_x quat_from_angle_y quat_from_angle_z
       basis2_from_angle basis2_one basis2_mul basis2_rotate_vector basis2_rotate_point basis2_invert
       basis3_from_quaternion basis3_one basis3_mul basis3_rotate_vector basis3_rotate_point basis3_invert
       basis3_from_axis_angle basis3_from_angle_x basis3_from_angle_y basis3_from_angle_z
       URad UDeg to_rad of_rad full_turn fst snd] in *.

From CG Require Import Model.Euler.
Ltac unfold_euler := cbv [m3_of_euler m4_of_euler basis3_of_euler quat_of_euler euler_of_quat euler_list ex ey ez] in *.
