(* Proofs/Tac.v — shared proof automation: destructing the record values of a goal. *)
From CG Require Import Scalar Model.Vector.

Ltac destruct_vecs :=
  repeat match goal with
  | v : V1 _ |- _ => destruct v
  | v : V2 _ |- _ => destruct v
  | v : V3 _ |- _ => destruct v
  | v : V4 _ |- _ => destruct v
  end.

(* split an equation between constructor applications into component equations *)
Ltac vec_eq :=
  repeat match goal with
  | |- mkV1 _ = mkV1 _ => f_equal
  | |- mkV2 _ _ = mkV2 _ _ => f_equal
  | |- mkV3 _ _ _ = mkV3 _ _ _ => f_equal
  | |- mkV4 _ _ _ _ = mkV4 _ _ _ _ => f_equal
  | |- Some _ = Some _ => f_equal
  | |- (_, _) = (_, _) => f_equal
  | |- cons _ _ = cons _ _ => f_equal
  | |- _ /\ _ => split
  end.
