(* Proofs/C19_Cast.v — numeric cast of compound values is all-or-nothing and component-faithful (property C19).
   For an ARBITRARY scalar cast sc : S -> option T. *)
From Coq Require Import List.
From CG Require Import Scalar Model.Vector Model.Point Model.Matrix Model.Quaternion Model.Cast Proofs.Tac.
Import ListNotations.
Set Implicit Arguments.

(* textbook: convert every component, succeed only if all succeed *)
Fixpoint all_some (A : Type) (l : list (option A)) : option (list A) :=
  match l with
  | [] => Some []
  | Some a :: t => match all_some t with Some r => Some (a :: r) | None => None end
  | None :: _ => None
  end.
Definition omap (A B : Type) (f : A -> B) (o : option A) : option B := match o with Some a => Some (f a) | None => None end.

Section Cast.
  Variables S T : Type.
  Variable sc : S -> option T.
  Ltac cast_tac := intros; destruct_quats; cbv [v1_cast v2_cast v3_cast v4_cast p1_cast p2_cast p3_cast m2_cast m3_cast m4_cast quat_cast bind
                                              omap all_some map app v1_list v2_list v3_list v4_list p1_list p2_list p3_list m2_list m3_list m4_list quat_sxyz
                                              quat_from_sv qv qs v1x v2x v2y v3x v3y v3z v4x v4y v4z v4w p1x p2x p2y p3x p3y p3z m2x m2y m3x m3y m3z m4x m4y m4z m4w];
    repeat match goal with |- context [sc ?x] => destruct (sc x) end; reflexivity.

  (* the flattened result is the list of scalar casts, position by position; None iff some scalar cast fails *)
  Lemma v1_cast_spec v : omap (@v1_list T) (v1_cast sc v) = all_some (map sc (v1_list v)). Proof. cast_tac. Qed.
  Lemma v2_cast_spec v : omap (@v2_list T) (v2_cast sc v) = all_some (map sc (v2_list v)). Proof. cast_tac. Qed.
  Lemma v3_cast_spec v : omap (@v3_list T) (v3_cast sc v) = all_some (map sc (v3_list v)). Proof. cast_tac. Qed.
  Lemma v4_cast_spec v : omap (@v4_list T) (v4_cast sc v) = all_some (map sc (v4_list v)). Proof. cast_tac. Qed.
  Lemma p1_cast_spec v : omap (@p1_list T) (p1_cast sc v) = all_some (map sc (p1_list v)). Proof. cast_tac. Qed.
  Lemma p2_cast_spec v : omap (@p2_list T) (p2_cast sc v) = all_some (map sc (p2_list v)). Proof. cast_tac. Qed.
  Lemma p3_cast_spec v : omap (@p3_list T) (p3_cast sc v) = all_some (map sc (p3_list v)). Proof. cast_tac. Qed.
  Lemma m2_cast_spec m : omap (@m2_list T) (m2_cast sc m) = all_some (map sc (m2_list m)). Proof. cast_tac. Qed.
  Lemma m3_cast_spec m : omap (@m3_list T) (m3_cast sc m) = all_some (map sc (m3_list m)). Proof. cast_tac. Qed.
  Lemma m4_cast_spec m : omap (@m4_list T) (m4_cast sc m) = all_some (map sc (m4_list m)). Proof. cast_tac. Qed.
  Lemma quat_cast_spec q : omap (@quat_sxyz T) (quat_cast sc q) = all_some (map sc (quat_sxyz q)). Proof. cast_tac. Qed.

  (* all_some: None iff at least one component is None; otherwise component-faithful, same positions *)
  Lemma all_some_none (l : list (option T)) : all_some l = None <-> exists i, nth_error l i = Some None.
  Proof.
    induction l as [|[a|] l IH]; cbn.
    - split; [discriminate|intros [[|i] H]; discriminate].
    - destruct (all_some l) eqn:E.
      + split; [discriminate|]. intros [[|i] H]; [discriminate|]. cbn in H. destruct IH as [_ IH]. specialize (IH (ex_intro _ i H)). discriminate.
      + split; [|reflexivity]. intros _. destruct IH as [IH _]. destruct (IH eq_refl) as [i Hi]. exists (Datatypes.S i). exact Hi.
    - split; [intros _; exists 0; reflexivity|reflexivity].
  Qed.
  Lemma all_some_some (l : list (option T)) r : all_some l = Some r ->
    length r = length l /\ forall i, nth_error l i = omap (@Some T) (nth_error r i).
  Proof.
    revert r. induction l as [|[a|] l IH]; cbn; intros r H.
    - inversion H. split; [reflexivity|intros [|i]; reflexivity].
    - destruct (all_some l) eqn:E; [|discriminate]. inversion H; subst r. destruct (IH l0 eq_refl) as [L N].
      split; [cbn; rewrite L; reflexivity|]. intros [|i]; [reflexivity|]. cbn. apply N.
    - discriminate.
  Qed.
End Cast.
