(* Proofs/C05_RotationR.v — From<Matrix3> for Quaternion inverts From<Quaternion> for Matrix3 on EVERY rotation matrix
   (M M^T = I, det M = 1), not only on matrices of unit quaternions (property C05; used by C09 for Quaternion::look_at).
   Over the reals.

   With A0 = 1 + tr, A1 = 1 + m00 - m11 - m22, A2, A3 (four times the squares of the quaternion components) and
   B01 = m12 - m21, ..., B23 = m12 + m21 (four times their pairwise products), rotation matrices satisfy
   Bij^2 = Ai Aj and Bij Bik = Ai Bjk (rot_ids, 24 identities by nsatz).  Each branch of the conversion divides the
   Bpj by 2 sqrt(Ap) for its pivot p; the branch conditions make Ap >= 1. *)
From CG Require Import Scalar Model.Vector Model.Point Model.Matrix Model.Angle Model.Quaternion Model.Metric Model.Rotation
                       Proofs.Tac Proofs.Alg Proofs.RealInst.
From Coq Require Import Reals Lra Psatz QArith Qreals Bool Nsatz.
Local Open Scope R_scope.

Lemma rot_ids : forall a b c d e f g h i : R,
  a * a + (d * d + g * g) = 1 -> b * a + (e * d + h * g) = 0 -> c * a + (f * d + i * g) = 0 ->
  b * b + (e * e + h * h) = 1 -> c * b + (f * e + i * h) = 0 -> c * c + (f * f + i * i) = 1 ->
  a * (e * i - h * f) - d * (b * i - h * c) + g * (b * f - e * c) = 1 ->
  (b + d) * (b + d) = (1 + a - e - i) * (1 - a + e - i) /\
  (b + d) * (b + d) = (1 - a + e - i) * (1 + a - e - i) /\
  (b + d) * (c + g) = (1 + a - e - i) * (f + h) /\
  (b + d) * (f + h) = (1 - a + e - i) * (c + g) /\
  (b - d) * (b - d) = (1 + a + e + i) * (1 - a - e + i) /\
  (b - d) * (b - d) = (1 - a - e + i) * (1 + a + e + i) /\
  (b - d) * (c + g) = (1 - a - e + i) * (f - h) /\
  (b - d) * (f + h) = (1 - a - e + i) * (g - c) /\
  (c + g) * (c + g) = (1 + a - e - i) * (1 - a - e + i) /\
  (c + g) * (c + g) = (1 - a - e + i) * (1 + a - e - i) /\
  (c + g) * (f + h) = (1 - a - e + i) * (b + d) /\
  (f + h) * (f + h) = (1 - a + e - i) * (1 - a - e + i) /\
  (f + h) * (f + h) = (1 - a - e + i) * (1 - a + e - i) /\
  (f - h) * (b + d) = (1 + a - e - i) * (g - c) /\
  (f - h) * (b - d) = (1 + a + e + i) * (c + g) /\
  (f - h) * (c + g) = (1 + a - e - i) * (b - d) /\
  (f - h) * (f - h) = (1 + a + e + i) * (1 + a - e - i) /\
  (f - h) * (f - h) = (1 + a - e - i) * (1 + a + e + i) /\
  (f - h) * (g - c) = (1 + a + e + i) * (b + d) /\
  (g - c) * (b + d) = (1 - a + e - i) * (f - h) /\
  (g - c) * (b - d) = (1 + a + e + i) * (f + h) /\
  (g - c) * (f + h) = (1 - a + e - i) * (b - d) /\
  (g - c) * (g - c) = (1 + a + e + i) * (1 - a + e - i) /\
  (g - c) * (g - c) = (1 - a + e - i) * (1 + a + e + i).
Proof. intros. repeat split; nsatz. Qed.

(* a quaternion whose squares and pairwise products are the A's and B's has norm 1 and matrix M *)
Lemma products_matrix : forall a b c d e f g h i w x y z : R,
  4 * (w * w) = 1 + a + e + i -> 4 * (x * x) = 1 + a - e - i -> 4 * (y * y) = 1 - a + e - i -> 4 * (z * z) = 1 - a - e + i ->
  4 * (w * x) = f - h -> 4 * (w * y) = g - c -> 4 * (w * z) = b - d ->
  4 * (x * y) = b + d -> 4 * (x * z) = c + g -> 4 * (y * z) = f + h ->
  quat_magnitude2 OpsR (quat_new w x y z) = 1 /\
  m3_of_quat OpsR (quat_new w x y z) = m3_new a b c d e f g h i.
Proof.
  intros. unfold_quat; unfold_model; simpl_R. split; [ | mat_eq ]; nra.
Qed.

(* the ten product facts for one branch: after clearing the denominator 2 s (s = sqrt of the pivot quantity, s*s known)
   each is one of the rot_ids identities, or trivial *)
Ltac prod_fact Hs :=
  field_simplify_eq; try solve [ lra ];
  repeat match goal with
  | |- context [?s ^ 2] => match type of Hs with s * s = ?v => replace (s ^ 2) with v by (rewrite <- Hs; ring) end
  end;
  nra.

Theorem quat_of_rotation : forall M : M3 R,
  m3_mul OpsR M (m3_transpose M) = m3_identity OpsR -> m3_determinant OpsR M = 1 ->
  quat_magnitude2 OpsR (quat_of_m3 OpsR TrigR M) = 1 /\ m3_of_quat OpsR (quat_of_m3 OpsR TrigR M) = M.
Proof.
  intros [[a b c] [d e f] [g h i]] Ho Hd.
  unfold_model. simpl_R. injection Ho as E1 E2 E3 E4 E5 E6 E7 E8 E9.
  pose proof (rot_ids a b c d e f g h i E1 E2 E3 E5 E6 E9 Hd) as I.
  assert (Tr4 : (1 + a + e + i) + (1 + a - e - i) + (1 - a + e - i) + (1 - a - e + i) = 4) by ring.
  unfold quat_of_m3. unfold_model. simpl_R. unfold q_half. rewrite Q2R_half.
  unfold Rleb, Rltb.
  change {| m3x := {| v3x := a; v3y := b; v3z := c |}; m3y := {| v3x := d; v3y := e; v3z := f |};
            m3z := {| v3x := g; v3y := h; v3z := i |} |} with (m3_new a b c d e f g h i).
  destruct (Rle_dec 0 (a + (e + i))) as [Ht|Ht].
  - set (s := sqrt (1 + (a + (e + i)))).
    assert (Hs : s * s = 1 + (a + (e + i))) by (apply sqrt_sqrt; lra).
    assert (Hp : 0 < s) by (apply sqrt_lt_R0; lra).
    clearbody s. apply products_matrix; prod_fact Hs.
  - destruct (Rlt_dec e a) as [H1|H1]; [destruct (Rlt_dec i a) as [H2|H2]|]; cbn [andb].
    + set (s := sqrt (a - e - i + 1)).
      assert (Hs : s * s = a - e - i + 1) by (apply sqrt_sqrt; lra).
      assert (Hp : 0 < s) by (apply sqrt_lt_R0; lra).
      clearbody s. apply products_matrix; prod_fact Hs.
    + destruct (Rlt_dec i e) as [H3|H3].
      * set (s := sqrt (e - a - i + 1)).
        assert (Hs : s * s = e - a - i + 1) by (apply sqrt_sqrt; lra).
        assert (Hp : 0 < s) by (apply sqrt_lt_R0; lra).
        clearbody s. apply products_matrix; prod_fact Hs.
      * set (s := sqrt (i - a - e + 1)).
        assert (Hs : s * s = i - a - e + 1) by (apply sqrt_sqrt; lra).
        assert (Hp : 0 < s) by (apply sqrt_lt_R0; lra).
        clearbody s. apply products_matrix; prod_fact Hs.
    + destruct (Rlt_dec i e) as [H3|H3].
      * set (s := sqrt (e - a - i + 1)).
        assert (Hs : s * s = e - a - i + 1) by (apply sqrt_sqrt; lra).
        assert (Hp : 0 < s) by (apply sqrt_lt_R0; lra).
        clearbody s. apply products_matrix; prod_fact Hs.
      * set (s := sqrt (i - a - e + 1)).
        assert (Hs : s * s = i - a - e + 1) by (apply sqrt_sqrt; lra).
        assert (Hp : 0 < s) by (apply sqrt_lt_R0; lra).
        clearbody s. apply products_matrix; prod_fact Hs.
Qed.

Lemma rotation_example :
  let M := m3_new 0 1 0 (-1) 0 0 0 0 1 : M3 R in
  m3_mul OpsR M (m3_transpose M) = m3_identity OpsR /\ m3_determinant OpsR M = 1.
Proof. unfold_model. simpl_R. split; [ mat_eq; lra | lra ]. Qed.
