(* Proofs/C07_EulerR.v — Euler angles extracted from a unit quaternion (property C07), over the reals. *)
From CG Require Import Scalar Model.Vector Model.Point Model.Matrix Model.Angle Model.Quaternion Model.Metric Model.Rotation Model.Euler
                       Proofs.Tac Proofs.Alg Proofs.RealInst.
From Coq Require Import Reals Lra Psatz Nsatz QArith Qreals.
Local Open Scope R_scope.

Definition sig : R := Q2R q_0499.     (* cast(0.499): the f64 nearest to 0.499 *)
Lemma sig_bounds : 0 < sig < 499 / 1000.
Proof. unfold sig, q_0499, Q2R. simpl. lra. Qed.

(* the quantity the code thresholds: qx*qz + qy*qw (= sin(y)/2 for a unit quaternion) *)
Definition gimbal_test (q : Quat R) : R := v3x (qv q) * v3z (qv q) + v3y (qv q) * qs q.

Lemma atan2_pair Y X D cy : 0 < cy -> cy * cy = D -> X * X + Y * Y = D ->
  cos (Ratan2 Y X) * cy = X /\ sin (Ratan2 Y X) * cy = Y.
Proof.
  intros Hc HD HXY.
  assert (Hs : sqrt (X * X + Y * Y) = cy).
  { rewrite HXY, <- HD. apply sqrt_square. lra. }
  assert (Hn : X * X + Y * Y <> 0) by (rewrite HXY, <- HD; nra).
  rewrite (Ratan2_cos Y X Hn), (Ratan2_sin Y X Hn), Hs. split; field; lra.
Qed.

Theorem euler_extract_regular : forall q : Quat R, quat_magnitude2 OpsR q = 1 ->
  - sig <= gimbal_test q <= sig ->
  let e := euler_of_quat OpsR TrigR q in
  (- PI <= ex e <= PI /\ - PI / 2 <= ey e <= PI / 2 /\ - PI <= ez e <= PI) /\
  m3_of_euler OpsR TrigR (URad OpsR) e = m3_of_quat OpsR q.
Proof.
  intros [[x y z] w]. unfold gimbal_test. cbn [qv qs v3x v3y v3z].
  unfold quat_magnitude2, quat_dot, v3_dot, v3_sum, v3_mul_ew, v3_zip. cbn [qv qs v3x v3y v3z]. simpl_R.
  intros Hu [Ht1 Ht2]. pose proof sig_bounds as [Hs0 Hs1].
  unfold euler_of_quat. cbn [qv qs v3x v3y v3z]. unfold nat_c. simpl_R. fold sig. rewrite !Q2R_Z.
  assert (Eu : x * x + z * z + y * y + w * w = 1) by lra.
  rewrite Eu.
  unfold Rltb.
  destruct (Rlt_dec (sig * 1) (x * z + y * w)) as [H|_]; [lra|].
  destruct (Rlt_dec (x * z + y * w) (- sig * 1)) as [H|_]; [lra|].
  cbv zeta. cbn [ex ey ez].
  set (t := x * z + y * w) in *.
  set (Y1 := 2 * (- y * z + x * w)). set (X1 := 1 - 2 * (x * x + y * y)).
  set (Y3 := 2 * (- x * y + z * w)). set (X3 := 1 - 2 * (y * y + z * z)).
  assert (Hb : -1 <= 2 * t <= 1) by lra.
  split.
  - pose proof (Ratan2_bounds Y1 X1). pose proof (Ratan2_bounds Y3 X3). pose proof (asin_bound (2 * t)). lra.
  - set (D := 1 - (2 * t) * (2 * t)).
    assert (HD : 0 < D) by (unfold D; nra).
    set (cy := sqrt D).
    assert (Hcy : 0 < cy) by (apply sqrt_lt_R0; exact HD).
    assert (Hcy2 : cy * cy = D) by (apply sqrt_sqrt; lra).
    assert (E1 : X1 * X1 + Y1 * Y1 = D) by (unfold X1, Y1, D, t; clear - Eu; nsatz).
    assert (E3 : X3 * X3 + Y3 * Y3 = D) by (unfold X3, Y3, D, t; clear - Eu; nsatz).
    destruct (atan2_pair Y1 X1 D cy Hcy Hcy2 E1) as [C1 S1].
    destruct (atan2_pair Y3 X3 D cy Hcy Hcy2 E3) as [C3 S3].
    assert (Sy : sin (asin (2 * t)) = 2 * t) by (apply sin_asin; exact Hb).
    assert (Cy : cos (asin (2 * t)) = cy).
    { rewrite cos_asin by exact Hb. unfold cy, D, Rsqr. reflexivity. }
    unfold m3_of_euler. cbn [ex ey ez URad to_rad]. simpl_R. rewrite Sy, Cy.
    set (cx := cos (Ratan2 Y1 X1)) in *. set (sx := sin (Ratan2 Y1 X1)) in *.
    set (cz := cos (Ratan2 Y3 X3)) in *. set (sz := sin (Ratan2 Y3 X3)) in *.
    clearbody cx sx cz sz. clear Sy Cy.
    set (icy := / cy). assert (Hi : cy * icy = 1) by (unfold icy; field; lra). clearbody icy.
    unfold m3_of_quat. cbn [qv qs v3x v3y v3z]. simpl_R.
    unfold X1, Y1, X3, Y3, D, t in *. clear X1 Y1 X3 Y3 D t E1 E3 HD Hb Ht1 Ht2 Hcy Hu.
    unfold m3_new, m3_from_cols. f_equal; f_equal; nsatz.
Qed.

(* inside the gimbal-lock cone (|qx qz + qy qw| > cast(0.499) for a unit quaternion) x is reported as 0 and
   y as +- a quarter turn (the f64 value of 2 pi divided by 4) *)
Definition quarter_turn : R := turn_div_4 OpsR (URad OpsR).
Theorem euler_extract_gimbal : forall q : Quat R, quat_magnitude2 OpsR q = 1 ->
  (sig < gimbal_test q ->
     euler_of_quat OpsR TrigR q = mkEuler 0 quarter_turn (Ratan2 (v3x (qv q)) (qs q) * 2)) /\
  (gimbal_test q < - sig ->
     euler_of_quat OpsR TrigR q = mkEuler 0 (- quarter_turn) (- Ratan2 (v3x (qv q)) (qs q) * 2)).
Proof.
  intros [[x y z] w]. unfold gimbal_test. cbn [qv qs v3x v3y v3z].
  unfold quat_magnitude2, quat_dot, v3_dot, v3_sum, v3_mul_ew, v3_zip. cbn [qv qs v3x v3y v3z]. simpl_R.
  intros Hu. pose proof sig_bounds as [Hs0 Hs1].
  unfold euler_of_quat. cbn [qv qs v3x v3y v3z]. unfold nat_c. simpl_R. fold sig. rewrite !Q2R_Z.
  assert (Eu : x * x + z * z + y * y + w * w = 1) by lra. rewrite Eu. unfold Rltb. fold quarter_turn.
  split; intros H.
  - destruct (Rlt_dec (sig * 1) (x * z + y * w)) as [_|N]; [reflexivity|lra].
  - destruct (Rlt_dec (sig * 1) (x * z + y * w)) as [N|_]; [lra|].
    destruct (Rlt_dec (x * z + y * w) (- sig * 1)) as [_|N]; [reflexivity|lra].
Qed.

Lemma regular_inhabited : - sig <= gimbal_test (quat_new 1 0 0 0) <= sig /\ quat_magnitude2 OpsR (quat_new 1 0 0 0) = 1.
Proof.
  pose proof sig_bounds. unfold gimbal_test, quat_new, quat_from_sv, quat_magnitude2, quat_dot, v3_dot, v3_sum, v3_mul_ew, v3_zip.
  cbn [qv qs v3x v3y v3z]. simpl_R. split; lra.
Qed.
