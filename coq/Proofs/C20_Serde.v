(* Proofs/C20_Serde.v — serialized values round-trip exactly and keep their field structure (property C20). *)
From Coq Require Import List String Bool Arith Permutation.
From CG Require Import Scalar Model.Vector Model.Point Model.Matrix Model.Quaternion Model.Euler Model.Transform Model.Serde Proofs.Tac.
Import ListNotations.
Open Scope string_scope.
Set Implicit Arguments.

Section RT.
  Variable L : Type.
  Ltac rt := intros; destruct_quats; reflexivity.
  (* deserialize(serialize(v)) = v for every serialisable type; leaf scalars are opaque, hence bit-for-bit *)
  Lemma roundtrip_all :
    (forall v : V1 L, de_v1 (ser_v1 v) = Some v) /\ (forall v : V2 L, de_v2 (ser_v2 v) = Some v) /\
    (forall v : V3 L, de_v3 (ser_v3 v) = Some v) /\ (forall v : V4 L, de_v4 (ser_v4 v) = Some v) /\
    (forall v : P1 L, de_p1 (ser_p1 v) = Some v) /\ (forall v : P2 L, de_p2 (ser_p2 v) = Some v) /\
    (forall v : P3 L, de_p3 (ser_p3 v) = Some v) /\
    (forall m : M2 L, de_m2 (ser_m2 m) = Some m) /\ (forall m : M3 L, de_m3 (ser_m3 m) = Some m) /\
    (forall m : M4 L, de_m4 (ser_m4 m) = Some m) /\ (forall q : Quat L, de_quat (ser_quat q) = Some q) /\
    (forall a : L, de_newtype (ser_rad a) = Some a) /\ (forall a : L, de_newtype (ser_deg a) = Some a) /\
    (forall e : Euler L, de_euler (ser_euler (@ser_rad L) e) = Some e) /\ (forall e : Euler L, de_euler (ser_euler (@ser_deg L) e) = Some e) /\
    (forall b : M2 L, de_basis2 (ser_basis2 b) = Some b) /\ (forall b : M3 L, de_basis3 (ser_basis3 b) = Some b).
  Proof. repeat split; try rt. - intros [? ? ?]; reflexivity. - intros [? ? ?]; reflexivity. Qed.
  (* the serialized structure names the components by their public field names *)
  Definition field_names (s : sval L) : list string := match s with SStruct _ fs => map fst fs | _ => [] end.
  Lemma field_names_all (v1' : V1 L) (v2' : V2 L) (v3' : V3 L) (v4' : V4 L) (m : M4 L) (q : Quat L) (e : Euler L) (b : M3 L)
        (d : Decomposed L (Quat L) (V3 L)) (a : L) :
    field_names (ser_v1 v1') = ["x"] /\ field_names (ser_v2 v2') = ["x"; "y"] /\ field_names (ser_v3 v3') = ["x"; "y"; "z"] /\
    field_names (ser_v4 v4') = ["x"; "y"; "z"; "w"] /\ field_names (ser_m4 m) = ["x"; "y"; "z"; "w"] /\
    field_names (ser_quat q) = ["v"; "s"] /\ field_names (ser_euler (@ser_rad L) e) = ["x"; "y"; "z"] /\
    field_names (ser_basis3 b) = ["mat"] /\ field_names (ser_dec (@ser_quat L) (@ser_v3 L) d) = ["scale"; "rot"; "disp"] /\
    ser_rad a = SNewtype "Rad" (SLeaf a) /\ ser_deg a = SNewtype "Deg" (SLeaf a) /\
    field_names (ser_perspective_fov a a a a) = ["fovy"; "aspect"; "near"; "far"] /\
    field_names (ser_box "Perspective" a a a a a a) = ["left"; "right"; "bottom"; "top"; "near"; "far"] /\
    field_names (ser_planar_fov a a a a a) = ["fovy"; "aspect"; "height"; "near"; "far"].
  Proof. repeat split. Qed.

  (* ---- Decomposed ---- *)
  Variables R V : Type.
  Variable sr : R -> sval L.  Variable dr : sval L -> option R.
  Variable sv : V -> sval L.  Variable dv : sval L -> option V.
  Hypothesis Hr : forall r, dr (sr r) = Some r.
  Hypothesis Hv : forall v, dv (sv v) = Some v.
  Lemma dec_roundtrip d : de_dec dr dv (ser_dec sr sv d) = Some d.
  Proof. destruct d as [s r v]. unfold de_dec, ser_dec, de_dec_entries. cbn. rewrite Hr. cbn. rewrite Hv. reflexivity. Qed.
  (* accepted with its three fields in any order *)
  Lemma dec_any_order d kvs : Permutation kvs [("scale", SLeaf (d_scale d)); ("rot", sr (d_rot d)); ("disp", sv (d_disp d))] ->
    de_dec_entries dr dv kvs = Some d.
  Proof.
    destruct d as [s r v]. cbn [d_scale d_rot d_disp]. intros P.
    assert (K : In kvs [[("scale", SLeaf s); ("rot", sr r); ("disp", sv v)]; [("scale", SLeaf s); ("disp", sv v); ("rot", sr r)];
                       [("rot", sr r); ("scale", SLeaf s); ("disp", sv v)]; [("rot", sr r); ("disp", sv v); ("scale", SLeaf s)];
                       [("disp", sv v); ("scale", SLeaf s); ("rot", sr r)]; [("disp", sv v); ("rot", sr r); ("scale", SLeaf s)]]).
    { pose proof (Permutation_length P) as Hl.
      destruct kvs as [|a [|b [|c [|? ?]]]]; cbn in Hl; try discriminate.
      assert (Ia : In a [("scale", SLeaf s); ("rot", sr r); ("disp", sv v)]) by (apply (Permutation_in _ P); left; reflexivity).
      assert (Ib : In b [("scale", SLeaf s); ("rot", sr r); ("disp", sv v)]) by (apply (Permutation_in _ P); right; left; reflexivity).
      assert (Ic : In c [("scale", SLeaf s); ("rot", sr r); ("disp", sv v)]) by (apply (Permutation_in _ P); right; right; left; reflexivity).
      assert (N : NoDup (map fst [a; b; c])).
      { apply (Permutation_NoDup (l:=map fst [("scale", SLeaf s); ("rot", sr r); ("disp", sv v)])).
        - apply Permutation_map. apply Permutation_sym. exact P.
        - cbn. repeat constructor; cbn; intuition discriminate. }
      cbn in Ia, Ib, Ic.
      destruct Ia as [<-|[<-|[<-|[]]]]; destruct Ib as [<-|[<-|[<-|[]]]]; destruct Ic as [<-|[<-|[<-|[]]]]; cbn in N;
        try (exfalso; inversion N as [|? ? N1 N2]; subst; cbn in N1; inversion N2 as [|? ? N3 N4]; subst; cbn in N3; tauto);
        cbn; tauto. }
    cbn in K. unfold de_dec_entries.
    destruct K as [<-|[<-|[<-|[<-|[<-|[<-|[]]]]]]]; cbn; rewrite ?Hr, ?Hv; cbn; rewrite ?Hr, ?Hv; reflexivity.
  Qed.
  (* rejected, rather than silently defaulted, when a field is missing or an unknown one is present *)
  Definition keys (kvs : list (string * sval L)) := map fst kvs.
  Lemma visit_none kvs : fold_left (visit_entry dr dv) kvs None = None.
  Proof. induction kvs as [|kv kvs IH]; cbn; [reflexivity|exact IH]. Qed.
  Lemma dec_unknown_rejected kvs k : In k (keys kvs) -> k <> "scale" -> k <> "rot" -> k <> "disp" -> de_dec_entries dr dv kvs = None.
  Proof.
    unfold de_dec_entries. generalize (Some (mkAcc (L:=L) (R:=R) (V:=V) None None None)).
    induction kvs as [|[k' s'] kvs IH]; intros a0 Hin N1 N2 N3; cbn in Hin; [tauto|].
    cbn [fold_left]. destruct Hin as [->|Hin].
    - destruct a0 as [a|]; cbn.
      + assert (E1 : String.eqb k "scale" = false) by (apply String.eqb_neq; exact N1).
        assert (E2 : String.eqb k "rot" = false) by (apply String.eqb_neq; exact N2).
        assert (E3 : String.eqb k "disp" = false) by (apply String.eqb_neq; exact N3).
        rewrite E1, E2, E3. rewrite visit_none. reflexivity.
      + rewrite visit_none. reflexivity.
    - apply IH; assumption.
  Qed.
  Lemma fold_keeps_missing kvs a n :
    ~ In n (keys kvs) ->
    match fold_left (visit_entry dr dv) kvs (Some a) with
    | Some a' => (n = "scale" -> a_scale a' = a_scale a) /\ (n = "rot" -> a_rot a' = a_rot a) /\ (n = "disp" -> a_disp a' = a_disp a)
    | None => True
    end.
  Proof.
    revert a. induction kvs as [|[k s] kvs IH]; intros a Hn; cbn [fold_left].
    - repeat split.
    - cbn in Hn. assert (Hk : k <> n) by tauto. assert (Hn' : ~ In n (keys kvs)) by tauto.
      unfold visit_entry at 2.
      destruct (String.eqb k "scale") eqn:E1; [|destruct (String.eqb k "rot") eqn:E2; [|destruct (String.eqb k "disp") eqn:E3]].
      + apply String.eqb_eq in E1. subst k. destruct (de_leaf s); cbn; [|rewrite visit_none; exact I].
        specialize (IH (mkAcc (Some l) (a_rot a) (a_disp a)) Hn'). destruct (fold_left _ kvs _); [|exact I].
        destruct IH as [I1 [I2 I3]]. repeat split; intros ->; cbn in *; auto; congruence.
      + apply String.eqb_eq in E2. subst k. destruct (dr s); cbn; [|rewrite visit_none; exact I].
        specialize (IH (mkAcc (a_scale a) (Some r) (a_disp a)) Hn'). destruct (fold_left _ kvs _); [|exact I].
        destruct IH as [I1 [I2 I3]]. repeat split; intros ->; cbn in *; auto; congruence.
      + apply String.eqb_eq in E3. subst k. destruct (dv s); cbn; [|rewrite visit_none; exact I].
        specialize (IH (mkAcc (a_scale a) (a_rot a) (Some v)) Hn'). destruct (fold_left _ kvs _); [|exact I].
        destruct IH as [I1 [I2 I3]]. repeat split; intros ->; cbn in *; auto; congruence.
      + rewrite visit_none. exact I.
  Qed.
  Lemma dec_missing_rejected kvs n : (n = "scale" \/ n = "rot" \/ n = "disp") -> ~ In n (keys kvs) -> de_dec_entries dr dv kvs = None.
  Proof.
    intros Hn Hm. unfold de_dec_entries. pose proof (@fold_keeps_missing kvs (mkAcc None None None) n Hm) as K.
    destruct (fold_left _ kvs _) as [[q1 q2 q3]|]; [|reflexivity]. cbn in K. destruct K as [K1 [K2 K3]].
    destruct Hn as [-> | [-> | ->]]; [rewrite (K1 eq_refl)|rewrite (K2 eq_refl)|rewrite (K3 eq_refl)]; destruct q1, q2, q3; reflexivity.
  Qed.
End RT.
