(* Proofs/C15_BetweenR.v — C15 over the reals: Rotation::between_vectors (Quaternion, Basis3, Basis2) and
   Quaternion::from_arc.  ulps_eq! is an oracle `A : Approx R` of which two things are assumed:
   it is reflexive, and when it answers true the arguments are close (|a - b| <= eps + rel * max(|a|, |b|)). *)
From CG Require Import Scalar Model.Vector Model.Point Model.Matrix Model.Angle Model.Quaternion Model.Metric Model.Rotation
                       Proofs.Tac Proofs.Alg Proofs.RealInst Proofs.NsatzField Proofs.C03_Vector Proofs.C04_Quat Proofs.C05_Repr
                       Proofs.C06_Angle Proofs.C06_AngleR Proofs.C11_MetricR Proofs.Consts.
From Coq Require Import Reals Lra Psatz Nsatz QArith Qreals.
Local Open Scope R_scope.
Local Notation O := OpsR.
Local Notation T := TrigR.

Definition UlpsSpec (A : Approx R) (eps rel : R) : Prop :=
  0 <= eps /\ 0 <= rel /\
  (forall x, ulps_eq_d A x x = true) /\
  (forall a b, ulps_eq_d A a b = true -> Rabs (a - b) <= eps + rel * Rmax (Rabs a) (Rabs b)).

(* ---------- the half-way quaternion, pure algebra ---------- *)
(* p = (k + a.b, a x b) with k^2 = |a|^2 |b|^2, scaled by i with i^2 |p|^2 = 1: rotates a onto b (up to the lengths) *)
Lemma halfway_core a0 a1 a2 b0 b1 b2 k i :
  k * k = (a0 * a0 + a1 * a1 + a2 * a2) * (b0 * b0 + b1 * b1 + b2 * b2) ->
  let d := a0 * b0 + a1 * b1 + a2 * b2 in
  i * i * ((k + d) * (k + d) + ((a1 * b2 - a2 * b1) * (a1 * b2 - a2 * b1) + (a2 * b0 - a0 * b2) * (a2 * b0 - a0 * b2) + (a0 * b1 - a1 * b0) * (a0 * b1 - a1 * b0))) = 1 ->
  let q := quat_mul_s O (quat_from_sv (k + d) (v3_cross O (mkV3 a0 a1 a2) (mkV3 b0 b1 b2))) i in
  v3_mul_s O (quat_mul_v O q (mkV3 a0 a1 a2)) k = v3_mul_s O (mkV3 b0 b1 b2) (a0 * a0 + a1 * a1 + a2 * a2) /\
  quat_magnitude2 O q = 1 /\
  k * (2 * qs q * qs q - 1) = d.
Proof.
  intros Hk d Hi q. subst q d.
  unfold_quat. unfold_model. simpl_R. rewrite Q2R_Z.
  repeat split; [f_equal| |]; nsatz.
Qed.

Lemma norm2_halfway a0 a1 a2 b0 b1 b2 k :
  k * k = (a0 * a0 + a1 * a1 + a2 * a2) * (b0 * b0 + b1 * b1 + b2 * b2) ->
  let d := a0 * b0 + a1 * b1 + a2 * b2 in
  (k + d) * (k + d) + ((a1 * b2 - a2 * b1) * (a1 * b2 - a2 * b1) + (a2 * b0 - a0 * b2) * (a2 * b0 - a0 * b2) + (a0 * b1 - a1 * b0) * (a0 * b1 - a1 * b0))
  = 2 * k * (k + d).
Proof. intros Hk d. subst d. nsatz. Qed.

Lemma cs3 a0 a1 a2 b0 b1 b2 :
  (a0 * b0 + a1 * b1 + a2 * b2) * (a0 * b0 + a1 * b1 + a2 * b2) <= (a0 * a0 + a1 * a1 + a2 * a2) * (b0 * b0 + b1 * b1 + b2 * b2).
Proof.
  assert (E : (a0 * a0 + a1 * a1 + a2 * a2) * (b0 * b0 + b1 * b1 + b2 * b2) - (a0 * b0 + a1 * b1 + a2 * b2) * (a0 * b0 + a1 * b1 + a2 * b2)
    = (a1 * b2 - a2 * b1) * (a1 * b2 - a2 * b1) + (a2 * b0 - a0 * b2) * (a2 * b0 - a0 * b2) + (a0 * b1 - a1 * b0) * (a0 * b1 - a1 * b0)) by ring.
  pose proof (sq_nonneg (a1 * b2 - a2 * b1)). pose proof (sq_nonneg (a2 * b0 - a0 * b2)). pose proof (sq_nonneg (a0 * b1 - a1 * b0)). lra.
Qed.

(* the normalised half-way quaternion for non-zero a, b that are not antiparallel *)
Lemma halfway_normalized (a b : V3 R) :
  let k := sqrt (v3_magnitude2 O a * v3_magnitude2 O b) in
  let d := v3_dot O a b in
  0 < v3_magnitude2 O a -> 0 < v3_magnitude2 O b -> d <> - k ->
  let q := quat_normalize O T (quat_from_sv (k + d) (v3_cross O a b)) in
  v3_mul_s O (quat_rotate_vector O q a) k = v3_mul_s O b (v3_magnitude2 O a) /\
  quat_magnitude2 O q = 1 /\ 0 < qs q /\ k * (2 * qs q * qs q - 1) = d /\
  (exists i, 0 < i /\ qv q = v3_mul_s O (v3_cross O a b) i) /\ 0 < k.
Proof.
  destruct a as [a0 a1 a2], b as [b0 b1 b2]. cbv zeta. unfold v3_magnitude2, v3_dot. unfold_model. simpl_R.
  set (A := a0 * a0 + (a1 * a1 + a2 * a2)). set (B := b0 * b0 + (b1 * b1 + b2 * b2)).
  set (k := sqrt (A * B)). set (d := a0 * b0 + (a1 * b1 + a2 * b2)).
  intros Ha Hb Hd.
  set (q := quat_normalize O T (quat_from_sv (k + d) {| v3x := a1 * b2 - a2 * b1; v3y := a2 * b0 - a0 * b2; v3z := a0 * b1 - a1 * b0 |})).
  assert (HAB : 0 < A * B) by (apply Rmult_lt_0_compat; assumption).
  assert (Hk : k * k = A * B) by (unfold k; apply sqrt_sqrt; lra).
  assert (Hk0 : 0 < k) by (unfold k; apply sqrt_lt_R0; exact HAB).
  assert (Hk' : k * k = (a0 * a0 + a1 * a1 + a2 * a2) * (b0 * b0 + b1 * b1 + b2 * b2)) by (rewrite Hk; unfold A, B; lra).
  assert (Hd' : d = a0 * b0 + a1 * b1 + a2 * b2) by (unfold d; lra).
  assert (CS := cs3 a0 a1 a2 b0 b1 b2). rewrite <- Hk', <- Hd' in CS.
  assert (Hkd : 0 < k + d) by nra.
  pose proof (norm2_halfway a0 a1 a2 b0 b1 b2 k Hk') as N2. cbv zeta in N2. rewrite <- Hd' in N2.
  set (n2 := (k + d) * (k + d) + ((a1 * b2 - a2 * b1) * (a1 * b2 - a2 * b1) + (a2 * b0 - a0 * b2) * (a2 * b0 - a0 * b2) + (a0 * b1 - a1 * b0) * (a0 * b1 - a1 * b0))) in *.
  assert (Hn2 : 0 < n2) by (rewrite N2; apply Rmult_lt_0_compat; [lra|exact Hkd]).
  set (i := 1 / sqrt n2).
  assert (Hs : 0 < sqrt n2) by (apply sqrt_lt_R0; exact Hn2).
  assert (Hi0 : 0 < i) by (unfold i; apply Rdiv_lt_0_compat; lra).
  assert (Hi : i * i * n2 = 1).
  { unfold i. rewrite <- (sqrt_sqrt n2) at 3 by lra. field. lra. }
  (* q is the scaled half-way quaternion of halfway_core *)
  assert (Eq : q = quat_mul_s O (quat_from_sv (k + (a0 * b0 + a1 * b1 + a2 * b2)) (v3_cross O (mkV3 a0 a1 a2) (mkV3 b0 b1 b2))) i).
  { unfold q, quat_normalize, quat_normalize_to, quat_magnitude, quat_magnitude2, quat_dot. unfold_quat. unfold_model. simpl_R.
    match goal with |- context [sqrt ?P] => replace P with n2 by (unfold n2; ring) end.
    unfold i, d. quat_eq; ring. }
  rewrite <- Hd' in Eq.
  assert (Hi' : i * i * ((k + (a0 * b0 + a1 * b1 + a2 * b2)) * (k + (a0 * b0 + a1 * b1 + a2 * b2)) +
       ((a1 * b2 - a2 * b1) * (a1 * b2 - a2 * b1) + (a2 * b0 - a0 * b2) * (a2 * b0 - a0 * b2) + (a0 * b1 - a1 * b0) * (a0 * b1 - a1 * b0))) = 1).
  { rewrite <- Hd'. exact Hi. }
  destruct (halfway_core a0 a1 a2 b0 b1 b2 k i Hk' Hi') as [R1 [R2 R3]]. cbv zeta in R1, R2, R3. rewrite <- Hd' in R1, R2, R3.
  rewrite <- Eq in R1, R2, R3.
  split; [|split; [exact R2|split; [|split; [exact R3|split; [|exact Hk0]]]]].
  - change (v3_mul_s O (quat_rotate_vector O q (mkV3 a0 a1 a2)) k = mkV3 (b0 * A) (b1 * A) (b2 * A)).
    unfold quat_rotate_vector. rewrite R1. unfold_model. simpl_R. unfold A. f_equal; ring.
  - rewrite Eq. unfold_quat. simpl_R. apply Rmult_lt_0_compat; assumption.
  - exists i. split; [exact Hi0|]. rewrite Eq. reflexivity.
Qed.

Section WithApprox.
  Variable A : Approx R.
  Variables eps rel : R.
  Hypothesis HA : UlpsSpec A eps rel.

  Lemma ulps_refl x : ulps_eq_d A x x = true.
  Proof. destruct HA as [_ [_ [H _]]]. apply H. Qed.
  Lemma ulps_false_neq a b : ulps_eq_d A a b = false -> a <> b.
  Proof. intros H E. subst b. rewrite ulps_refl in H. discriminate. Qed.
  Lemma ulps_true_close a b : ulps_eq_d A a b = true -> Rabs (a - b) <= eps + rel * Rmax (Rabs a) (Rabs b).
  Proof. destruct HA as [_ [_ [_ H]]]. apply H. Qed.

  (* ================= Quaternion::between_vectors ================= *)
  (* general branch *)
  Theorem quat_between_general (a b : V3 R) :
    let k := sqrt (v3_magnitude2 O a * v3_magnitude2 O b) in
    let d := v3_dot O a b in
    0 < v3_magnitude2 O a -> 0 < v3_magnitude2 O b ->
    ulps_eq_d A d 1 = false -> ulps_eq_d A (d / k) (- (1)) = false ->
    let q := quat_between_vectors O T A a b in
    v3_mul_s O (quat_rotate_vector O q a) k = v3_mul_s O b (v3_magnitude2 O a) /\
    quat_magnitude2 O q = 1 /\ 0 < qs q /\ k * (2 * qs q * qs q - 1) = d /\
    (exists i, 0 < i /\ qv q = v3_mul_s O (v3_cross O a b) i).
  Proof.
    intros k d Ha Hb H1 H2 q.
    assert (Hk0 : 0 < k).
    { unfold k. apply sqrt_lt_R0. apply Rmult_lt_0_compat; assumption. }
    assert (Hd : d <> - k).
    { intro E. apply (ulps_false_neq _ _ H2). rewrite E. field. lra. }
    destruct (halfway_normalized a b Ha Hb Hd) as [R1 [R2 [R3 [R4 [R5 _]]]]].
    assert (Eq : q = quat_normalize O T (quat_from_sv (k + d) (v3_cross O a b))).
    { unfold q, quat_between_vectors. simpl_R. fold d. rewrite H1. fold k. rewrite H2. reflexivity. }
    rewrite Eq. repeat split; assumption.
  Qed.
  (* for unit vectors: r(a) = b exactly, cos(rotation angle) = a.b with positive scalar part (angle in [0, pi)),
     axis along a x b, which is perpendicular to both *)
  Corollary quat_between_unit (a b : V3 R) :
    v3_magnitude2 O a = 1 -> v3_magnitude2 O b = 1 ->
    ulps_eq_d A (v3_dot O a b) 1 = false -> ulps_eq_d A (v3_dot O a b) (- (1)) = false ->
    let q := quat_between_vectors O T A a b in
    quat_rotate_vector O q a = b /\ quat_magnitude2 O q = 1 /\ 0 < qs q /\ 2 * qs q * qs q - 1 = v3_dot O a b /\
    (exists i, 0 < i /\ qv q = v3_mul_s O (v3_cross O a b) i) /\
    v3_dot O (v3_cross O a b) a = 0 /\ v3_dot O (v3_cross O a b) b = 0.
  Proof.
    intros Ha Hb H1 H2 q.
    assert (K : sqrt (v3_magnitude2 O a * v3_magnitude2 O b) = 1) by (rewrite Ha, Hb, Rmult_1_r; apply sqrt_1).
    assert (H2' : ulps_eq_d A (v3_dot O a b / sqrt (v3_magnitude2 O a * v3_magnitude2 O b)) (- (1)) = false).
    { rewrite K. replace (v3_dot O a b / 1) with (v3_dot O a b) by field. exact H2. }
    destruct (quat_between_general a b) as [R1 [R2 [R3 [R4 R5]]]]; try assumption; try (rewrite Ha || rewrite Hb; lra).
    rewrite K in R1, R4. rewrite Ha in R1.
    destruct (cross_orth O CRing_R a b) as [C1 C2].
    repeat split; try assumption.
    - fold q in R1. destruct (quat_rotate_vector O q a) as [x y z], b as [b0 b1 b2]. unfold_model. simpl_R.
      unfold v3_mul_s, v3_map in R1. simpl_R. injection R1 as E0 E1 E2. f_equal; lra.
    - fold q in R4. lra.
  Qed.
  (* parallel branch: the identity; taken whenever a.b = 1, and only when a.b is within the tolerance of 1 *)
  Theorem quat_between_parallel (a b : V3 R) :
    (ulps_eq_d A (v3_dot O a b) 1 = true ->
       quat_between_vectors O T A a b = quat_one O /\ Rabs (v3_dot O a b - 1) <= eps + rel * Rmax (Rabs (v3_dot O a b)) (Rabs 1)) /\
    (v3_magnitude2 O a = 1 -> a = b -> quat_between_vectors O T A a b = quat_one O /\ quat_rotate_vector O (quat_one O) a = b).
  Proof.
    split.
    - intros H. split; [|apply ulps_true_close; exact H].
      unfold quat_between_vectors. simpl_R. rewrite H. reflexivity.
    - intros Ha E. subst b.
      assert (D : v3_dot O a a = 1) by exact Ha.
      split.
      + unfold quat_between_vectors. simpl_R. rewrite D, ulps_refl. reflexivity.
      + destruct a as [a0 a1 a2]. unfold quat_rotate_vector. unfold_quat. unfold_model. simpl_R. rewrite Q2R_Z. f_equal; ring.
  Qed.
  (* antiparallel branch (a a unit vector): a half turn (scalar part 0) about a unit axis perpendicular to a;
     it is taken whenever b = -a *)
  Theorem quat_between_opposite (a b : V3 R) :
    v3_magnitude2 O a = 1 -> eps < / 2 -> rel < / 2 ->
    let k := sqrt (v3_magnitude2 O a * v3_magnitude2 O b) in
    ulps_eq_d A (v3_dot O a b) 1 = false -> ulps_eq_d A (v3_dot O a b / k) (- (1)) = true ->
    let q := quat_between_vectors O T A a b in
    qs q = 0 /\ v3_magnitude2 O (qv q) = 1 /\ v3_dot O (qv q) a = 0 /\ quat_rotate_vector O q a = v3_neg O a /\
    quat_magnitude2 O q = 1.
  Proof.
    intros Ha He Hr k H1 H2 q.
    destruct HA as [E0 [R0 _]].
    (* the axis before normalisation *)
    set (o1 := v3_cross O a (v3_unit_x O)).
    set (orth := if ulps_eq_d A (v3_magnitude2 O o1) 0 then v3_cross O a (v3_unit_y O) else o1).
    assert (Eq : q = quat_from_sv 0 (v3_normalize_to O T orth 1)).
    { unfold q, quat_between_vectors. simpl_R. rewrite H1. fold k. rewrite H2. reflexivity. }
    assert (Ho : 0 < v3_magnitude2 O orth /\ v3_dot O orth a = 0).
    { unfold orth. destruct (ulps_eq_d A (v3_magnitude2 O o1) 0) eqn:U.
      - apply ulps_true_close in U. rewrite Rminus_0_r in U.
        destruct a as [a0 a1 a2]. unfold o1, v3_magnitude2, v3_dot in *. unfold_model. simpl_R.
        rewrite Rabs_R0 in U.
        set (m := (a1 * 0 - a2 * 0) * (a1 * 0 - a2 * 0) + ((a2 * 1 - a0 * 0) * (a2 * 1 - a0 * 0) + (a0 * 0 - a1 * 1) * (a0 * 0 - a1 * 1))) in *.
        assert (Hm : m = a1 * a1 + a2 * a2) by (unfold m; ring).
        assert (M0 : 0 <= m) by (rewrite Hm; nra).
        rewrite (Rabs_pos_eq m M0) in U. rewrite Rmax_left in U by lra.
        split; [|ring]. nra.
      - apply ulps_false_neq in U. split.
        + destruct a as [a0 a1 a2]. unfold o1, v3_magnitude2, v3_dot in *. unfold_model. simpl_R.
          assert (0 <= (a1 * 0 - a2 * 0) * (a1 * 0 - a2 * 0) + ((a2 * 1 - a0 * 0) * (a2 * 1 - a0 * 0) + (a0 * 0 - a1 * 1) * (a0 * 0 - a1 * 1))) by nra.
          lra.
        + destruct a as [a0 a1 a2]. unfold o1, v3_dot. unfold_model. simpl_R. ring. }
    destruct Ho as [Ho1 Ho2].
    destruct (v3_normalize_to_spec orth 1 Ho1) as [N1 [[kk [N2 N3]] _]].
    assert (Hn : v3_magnitude2 O (v3_normalize_to O T orth 1) = 1).
    { destruct (v3_magnitude_spec (v3_normalize_to O T orth 1)) as [S1 _]. rewrite <- S1, N1, Rabs_1. ring. }
    rewrite Eq. set (n := v3_normalize_to O T orth 1) in *.
    assert (Hna : v3_dot O n a = 0).
    { rewrite N2. destruct orth as [o0 o1' o2], a as [a0 a1 a2]. unfold v3_dot in *. unfold_model. simpl_R.
      replace (o0 * kk * a0 + (o1' * kk * a1 + o2 * kk * a2)) with (kk * (o0 * a0 + (o1' * a1 + o2 * a2))) by ring.
      rewrite Ho2. ring. }
    cbn [quat_from_sv qs qv]. repeat split; try assumption.
    - destruct n as [n0 n1 n2], a as [a0 a1 a2]. unfold quat_rotate_vector. unfold_quat.
      unfold v3_magnitude2, v3_dot in *. unfold_model. simpl_R. rewrite Q2R_Z. f_equal; nsatz.
    - unfold quat_magnitude2, quat_dot. cbn [quat_from_sv qs qv]. simpl_R. unfold v3_magnitude2 in Hn. rewrite Hn. ring.
  Qed.
  Lemma quat_between_opposite_taken (a : V3 R) :
    v3_magnitude2 O a = 1 -> ulps_eq_d A (- (1)) 1 = false ->
    let b := v3_neg O a in
    ulps_eq_d A (v3_dot O a b) 1 = false /\ ulps_eq_d A (v3_dot O a b / sqrt (v3_magnitude2 O a * v3_magnitude2 O b)) (- (1)) = true.
  Proof.
    intros Ha Hm b.
    assert (D : v3_dot O a b = - (1)).
    { destruct a as [a0 a1 a2]. unfold b, v3_dot, v3_magnitude2 in *. unfold_model. simpl_R. nra. }
    assert (Mb : v3_magnitude2 O b = 1).
    { destruct a as [a0 a1 a2]. unfold b, v3_dot, v3_magnitude2 in *. unfold_model. simpl_R. nra. }
    rewrite D, Ha, Mb, Rmult_1_r, sqrt_1. split; [exact Hm|].
    replace (- (1) / 1) with (- (1)) by field. apply ulps_refl.
  Qed.

  (* ================= Basis3::between_vectors ================= *)
  Theorem basis3_between_is_quat (a b v : V3 R) :
    basis3_rotate_vector O (basis3_between_vectors O T A a b) v = quat_rotate_vector O (quat_between_vectors O T A a b) v /\
    (quat_magnitude2 O (quat_between_vectors O T A a b) = 1 ->
       m3_mul O (basis3_between_vectors O T A a b) (m3_transpose (basis3_between_vectors O T A a b)) = m3_identity O /\
       m3_determinant O (basis3_between_vectors O T A a b) = 1).
  Proof.
    split.
    - apply (basis3_of_quat_action Field_R EqDec_R OfQHom_R).
    - intros H. unfold basis3_between_vectors. split.
      + apply (m3_of_quat_orthonormal Field_R EqDec_R OfQHom_R). exact H.
      + apply (m3_of_quat_det Field_R EqDec_R OfQHom_R). exact H.
  Qed.

  (* ================= Quaternion::from_arc ================= *)
  Theorem from_arc_general (src dst : V3 R) fallback :
    let m := sqrt (v3_magnitude2 O src * v3_magnitude2 O dst) in
    let d := v3_dot O src dst in
    0 < v3_magnitude2 O src -> 0 < v3_magnitude2 O dst ->
    ulps_eq_d A d m = false -> ulps_eq_d A d (- m) = false ->
    let q := quat_from_arc O T A src dst fallback in
    v3_mul_s O (quat_rotate_vector O q src) m = v3_mul_s O dst (v3_magnitude2 O src) /\
    quat_magnitude2 O q = 1 /\ 0 < qs q /\ m * (2 * qs q * qs q - 1) = d /\
    (exists i, 0 < i /\ qv q = v3_mul_s O (v3_cross O src dst) i).
  Proof.
    intros m d Ha Hb H1 H2 q.
    assert (Hd : d <> - m) by (apply ulps_false_neq; exact H2).
    destruct (halfway_normalized src dst Ha Hb Hd) as [R1 [R2 [R3 [R4 [R5 _]]]]].
    assert (Eq : q = quat_normalize O T (quat_from_sv (m + d) (v3_cross O src dst))).
    { unfold q, quat_from_arc. simpl_R. fold d. fold m. rewrite H1, H2. reflexivity. }
    rewrite Eq. repeat split; assumption.
  Qed.
  (* q rotates the direction of src onto the direction of dst *)
  Corollary from_arc_directions (src dst : V3 R) fallback :
    let m := sqrt (v3_magnitude2 O src * v3_magnitude2 O dst) in
    0 < v3_magnitude2 O src -> 0 < v3_magnitude2 O dst ->
    ulps_eq_d A (v3_dot O src dst) m = false -> ulps_eq_d A (v3_dot O src dst) (- m) = false ->
    quat_rotate_vector O (quat_from_arc O T A src dst fallback) (v3_normalize O T src) = v3_normalize O T dst.
  Proof.
    intros m Ha Hb H1 H2.
    destruct (from_arc_general src dst fallback Ha Hb H1 H2) as [R1 _]. fold m in R1.
    set (q := quat_from_arc O T A src dst fallback) in *.
    assert (Sa : 0 < sqrt (v3_magnitude2 O src)) by (apply sqrt_lt_R0; exact Ha).
    assert (Sb : 0 < sqrt (v3_magnitude2 O dst)) by (apply sqrt_lt_R0; exact Hb).
    assert (Em : m = sqrt (v3_magnitude2 O src) * sqrt (v3_magnitude2 O dst)) by (unfold m; apply sqrt_mult; lra).
    assert (Ea : sqrt (v3_magnitude2 O src) * sqrt (v3_magnitude2 O src) = v3_magnitude2 O src) by (apply sqrt_sqrt; lra).
    destruct (quat_mul_v_linear CRing_R OfQHom_R q src src (1 / sqrt (v3_magnitude2 O src))) as [_ [L _]].
    unfold quat_rotate_vector in *. unfold v3_normalize, v3_normalize_to, v3_magnitude. simpl_R.
    rewrite L. clear L.
    set (na := sqrt (v3_magnitude2 O src)) in *. set (nb := sqrt (v3_magnitude2 O dst)) in *.
    destruct (quat_mul_v O q src) as [x y z], dst as [d0 d1 d2]. unfold_model. simpl_R.
    unfold v3_mul_s, v3_map in R1. simpl_R. injection R1 as E0 E1 E2. rewrite Em in E0, E1, E2.
    f_equal.
    - apply Rmult_eq_reg_r with (na * nb); [|nra]. replace (x * (1 / na) * (na * nb)) with (x * (na * nb) * (1 / na)) by ring.
      rewrite E0, <- Ea. field. lra.
    - apply Rmult_eq_reg_r with (na * nb); [|nra]. replace (y * (1 / na) * (na * nb)) with (y * (na * nb) * (1 / na)) by ring.
      rewrite E1, <- Ea. field. lra.
    - apply Rmult_eq_reg_r with (na * nb); [|nra]. replace (z * (1 / na) * (na * nb)) with (z * (na * nb) * (1 / na)) by ring.
      rewrite E2, <- Ea. field. lra.
  Qed.
  (* parallel branch *)
  Theorem from_arc_parallel (src dst : V3 R) fallback :
    let m := sqrt (v3_magnitude2 O src * v3_magnitude2 O dst) in
    ulps_eq_d A (v3_dot O src dst) m = true ->
    quat_from_arc O T A src dst fallback = quat_one O /\ Rabs (v3_dot O src dst - m) <= eps + rel * Rmax (Rabs (v3_dot O src dst)) (Rabs m).
  Proof.
    intros m H. split; [|apply ulps_true_close; exact H].
    unfold quat_from_arc. simpl_R. fold m. rewrite H. reflexivity.
  Qed.
  (* antiparallel branch: the rotation by turn_div_2 (the scalar's half turn) about the fallback axis, or, without one,
     about a unit axis perpendicular to src *)
  Theorem from_arc_opposite (src dst : V3 R) fallback :
    let m := sqrt (v3_magnitude2 O src * v3_magnitude2 O dst) in
    v3_magnitude2 O src = 1 -> eps < / 2 -> rel < / 2 ->
    ulps_eq_d A (v3_dot O src dst) m = false -> ulps_eq_d A (v3_dot O src dst) (- m) = true ->
    exists axis, quat_from_arc O T A src dst fallback = quat_from_axis_angle O T (URad O) axis (turn_div_2 O (URad O)) /\
      match fallback with
      | Some ax => axis = ax
      | None => v3_magnitude2 O axis = 1 /\ v3_dot O axis src = 0
      end.
  Proof.
    intros m Ha He Hr H1 H2.
    destruct HA as [E0 [R0 _]].
    destruct fallback as [ax|].
    - exists ax. split; [|reflexivity]. unfold quat_from_arc. simpl_R. fold m. rewrite H1, H2. reflexivity.
    - set (v1 := v3_cross O (v3_unit_x O) src).
      set (v := if v3_ulps_eq_d A v1 (v3_zero O) then v3_cross O (v3_unit_y O) src else v1).
      exists (v3_normalize O T v). split.
      + unfold quat_from_arc. simpl_R. fold m. rewrite H1, H2. reflexivity.
      + assert (Hv : 0 < v3_magnitude2 O v /\ v3_dot O v src = 0).
        { unfold v. destruct (v3_ulps_eq_d A v1 (v3_zero O)) eqn:U.
          - unfold v3_ulps_eq_d in U. apply andb_prop in U. destruct U as [U1 U2]. apply andb_prop in U2. destruct U2 as [U2 U3].
            apply ulps_true_close in U1. apply ulps_true_close in U2. apply ulps_true_close in U3.
            destruct src as [a0 a1 a2]. unfold v1, v3_magnitude2, v3_dot in *. unfold_model. simpl_R.
            rewrite Rminus_0_r, Rabs_R0 in U2, U3.
            assert (B2 : Rabs (0 * a0 - 1 * a2) <= 2 * eps).
            { set (t := Rabs (0 * a0 - 1 * a2)) in *. assert (0 <= t) by apply Rabs_pos. rewrite Rmax_left in U2 by lra. nra. }
            assert (B3 : Rabs (1 * a1 - 0 * a0) <= 2 * eps).
            { set (t := Rabs (1 * a1 - 0 * a0)) in *. assert (0 <= t) by apply Rabs_pos. rewrite Rmax_left in U3 by lra. nra. }
            apply Rabs_le_inv in B2. apply Rabs_le_inv in B3.
            split; [|ring]. nra.
          - unfold v3_ulps_eq_d in U. split.
            + destruct src as [a0 a1 a2]. unfold v1, v3_magnitude2, v3_dot in *. unfold_model. simpl_R.
              destruct (ulps_eq_d A (0 * a2 - 0 * a1) 0) eqn:U1; [|apply ulps_false_neq in U1; exfalso; apply U1; ring].
              destruct (ulps_eq_d A (0 * a0 - 1 * a2) 0) eqn:U2.
              * destruct (ulps_eq_d A (1 * a1 - 0 * a0) 0) eqn:U3; [discriminate U|]. apply ulps_false_neq in U3. nra.
              * apply ulps_false_neq in U2. nra.
            + destruct src as [a0 a1 a2]. unfold v1, v3_dot. unfold_model. simpl_R. ring. }
        destruct Hv as [Hv1 Hv2].
        destruct (v3_normalize_to_spec v 1 Hv1) as [N1 [[kk [N2 N3]] _]].
        change (v3_normalize O T v) with (v3_normalize_to O T v 1).
        split.
        * destruct (v3_magnitude_spec (v3_normalize_to O T v 1)) as [S1 _]. rewrite <- S1, N1, Rabs_1. ring.
        * rewrite N2. destruct v as [o0 o1 o2], src as [a0 a1 a2]. unfold v3_dot in *. unfold_model. simpl_R.
          replace (o0 * kk * a0 + (o1 * kk * a1 + o2 * kk * a2)) with (kk * (o0 * a0 + (o1 * a1 + o2 * a2))) by ring.
          rewrite Hv2. ring.
  Qed.
End WithApprox.

(* the half turn the scalar type supplies: within 1.3e-16 of pi, so its cosine is within 1e-30 of -1 *)
Lemma half_turn_R : turn_div_2 O (URad O) = Q2R q_two_pi / 2.
Proof. unfold turn_div_2, nat_c. simpl_R. rewrite Q2R_Z. reflexivity. Qed.

(* ================= Basis2::between_vectors ================= *)
Theorem basis2_between_spec (a b : V2 R) : 0 < v2_magnitude2 O a -> 0 < v2_magnitude2 O b ->
  let m := basis2_between_vectors O T a b in
  (* orthonormal, determinant +1 *)
  m2_mul O m (m2_transpose m) = m2_identity O /\ m2_determinant O m = 1 /\
  (* maps the direction of a onto the direction of b *)
  v2_mul_s O (m2_mul_v O m a) (v2_magnitude O T b) = v2_mul_s O b (v2_magnitude O T a) /\
  (* it is the counter-clockwise rotation by angle(a, b) in [-pi, pi], whose sine has the sign of perp_dot(a, b):
     clockwise exactly when b is clockwise of a *)
  m = m2_from_angle O T (URad O) (v2_angle O T a b) /\ - PI <= v2_angle O T a b <= PI /\
  v2_magnitude O T a * v2_magnitude O T b * sin (v2_angle O T a b) = v2_perp_dot O a b.
Proof.
  intros Ha Hb m.
  destruct (v2_angle_spec a b Ha Hb) as [A1 [A2 [A3 A4]]]. cbv zeta in A1, A2, A3, A4.
  assert (Em : m = m2_from_angle O T (URad O) (v2_angle O T a b)) by reflexivity.
  pose proof (sin2_cos2 (v2_angle O T a b)) as SC. unfold Rsqr in SC.
  split; [|split; [|split; [|split; [exact Em|split; [exact A3|exact A2]]]]].
  - unfold m, basis2_between_vectors. set (t := v2_angle O T a b) in *. simpl_R.
    unfold m2_mul, m2_transpose, m2_identity, m2_new, m2_from_value. unfold_model. cbv [m2_row m2x m2y m2_from_cols]. unfold_model. simpl_R.
    repeat f_equal; nra.
  - unfold m, basis2_between_vectors. set (t := v2_angle O T a b) in *. simpl_R.
    unfold m2_determinant, m2_new. cbv [m2x m2y]. unfold_model. simpl_R. nra.
  - rewrite <- A4. unfold m, basis2_between_vectors. set (t := v2_angle O T a b) in *. simpl_R.
    destruct a as [a0 a1]. unfold m2_mul_v, m2_new. cbv [m2x m2y m2_row]. unfold_model. simpl_R. f_equal; ring.
Qed.
Corollary basis2_between_unit (a b : V2 R) : v2_magnitude2 O a = 1 -> v2_magnitude2 O b = 1 ->
  m2_mul_v O (basis2_between_vectors O T a b) a = b.
Proof.
  intros Ha Hb.
  destruct (basis2_between_spec a b) as [_ [_ [R _]]]; try lra.
  unfold v2_magnitude in R. simpl_R. rewrite Ha, Hb, sqrt_1 in R.
  destruct (m2_mul_v O (basis2_between_vectors O T a b) a) as [x y], b as [b0 b1].
  unfold v2_mul_s, v2_map in R. simpl_R. injection R as E0 E1. f_equal; lra.
Qed.
(* the formula before the repair is refuted: a = (1,0), b = (0,-1) *)
Lemma basis2_between_old_refuted :
  let a := mkV2 1 0 in let b := mkV2 0 (-1) in
  v2_magnitude2 O a = 1 /\ v2_magnitude2 O b = 1 /\
  m2_mul_v O (basis2_between_vectors_old O T a b) a = mkV2 0 1 /\ mkV2 0 1 <> b.
Proof.
  intros a b. unfold a, b.
  assert (E : v2_dot O (mkV2 1 0) (mkV2 0 (-1)) = 0) by (unfold v2_dot; unfold_model; simpl_R; ring).
  repeat split.
  - unfold v2_magnitude2, v2_dot. unfold_model. simpl_R. ring.
  - unfold v2_magnitude2, v2_dot. unfold_model. simpl_R. ring.
  - unfold basis2_between_vectors_old. simpl_R. rewrite E, acos_0, sin_PI2, cos_PI2.
    unfold m2_mul_v, m2_new. cbv [m2x m2y m2_row]. unfold_model. simpl_R. f_equal; ring.
  - intro H. injection H as H. lra.
Qed.

(* ================= what the tolerance of ulps_eq! means in radians ================= *)
From Interval Require Import Tactic.
Lemma cos_small c0 t0 th : 0 <= th <= PI -> 0 <= t0 <= PI -> cos t0 < c0 -> c0 <= cos th -> th <= t0.
Proof.
  intros H0 H1 Hc Ht. destruct (Rle_dec th t0) as [L|L]; [exact L|].
  assert (t0 <= th) by lra. pose proof (cos_decr_1 t0 th). lra.
Qed.
Lemma cos_large c0 t0 th : 0 <= th <= PI -> 0 <= t0 <= PI -> c0 < cos t0 -> cos th <= c0 -> t0 <= th.
Proof.
  intros H0 H1 Hc Ht. destruct (Rle_dec t0 th) as [L|L]; [exact L|].
  assert (th <= t0) by lra. pose proof (cos_decr_1 th t0). lra.
Qed.
Lemma angle_tolerance th : 0 <= th <= PI ->
  (1 - 12 / 10000000000000000 <= cos th -> th <= 1 / 10000000) /\ (cos th <= -1 + 12 / 10000000000000000 -> PI - 1 / 10000000 <= th) /\
  (1 - 3 / 10000000000 <= cos th -> th <= 1 / 10000) /\ (cos th <= -1 + 3 / 10000000000 -> PI - 1 / 10000 <= th).
Proof.
  intros H. pose proof PI_RGT_0. assert (P4 : PI <= 4) by (pose proof PI_4; lra).
  repeat split; intros C.
  - apply (cos_small (1 - 12 / 10000000000000000) (1 / 10000000) th H); [split; [lra|interval]|interval with (i_prec 100)|exact C].
  - apply (cos_large (-1 + 12 / 10000000000000000) (PI - 1 / 10000000) th H); [split; [interval|lra]|interval with (i_prec 100)|exact C].
  - apply (cos_small (1 - 3 / 10000000000) (1 / 10000) th H); [split; [lra|interval]|interval with (i_prec 100)|exact C].
  - apply (cos_large (-1 + 3 / 10000000000) (PI - 1 / 10000) th H); [split; [interval|lra]|interval with (i_prec 100)|exact C].
Qed.
(* with the binary64 parameters of ulps_eq! (epsilon 2^-52 absolute, 4 ulps = 2^-50 relative) a `true` answer for
   unit vectors means the cosine is within 1.2e-15 of +-1; for from_arc with |src||dst| >= 1e-6 within 3e-10 *)
Lemma ulps_tolerance_unit (A : Approx R) eps rel c t : UlpsSpec A eps rel -> eps <= / 2 ^ 52 -> rel <= / 2 ^ 50 ->
  -1 <= c <= 1 -> (t = 1 \/ t = - (1)) -> ulps_eq_d A c t = true -> Rabs (c - t) <= 12 / 10000000000000000.
Proof.
  intros [E0 [R0 [_ H]]] He Hr Hc Ht U. apply H in U.
  assert (M : Rmax (Rabs c) (Rabs t) <= 1).
  { apply Rmax_lub; [apply Rabs_le; lra|destruct Ht as [-> | ->]; [rewrite Rabs_pos_eq; lra|rewrite Rabs_Ropp, Rabs_pos_eq; lra]]. }
  assert (rel * Rmax (Rabs c) (Rabs t) <= / 2 ^ 50 * 1).
  { apply Rmult_le_compat; try lra. apply Rle_trans with (Rabs c); [apply Rabs_pos|apply Rmax_l]. }
  eapply Rle_trans; [exact U|]. assert (/ 2 ^ 52 + / 2 ^ 50 * 1 <= 12 / 10000000000000000) by interval. lra.
Qed.
Lemma ulps_tolerance_arc (A : Approx R) eps rel d m : UlpsSpec A eps rel -> eps <= / 2 ^ 52 -> rel <= / 2 ^ 50 ->
  1 / 1000000 <= m -> - m <= d <= m -> (ulps_eq_d A d m = true -> 1 - 3 / 10000000000 <= d / m) /\ (ulps_eq_d A d (- m) = true -> d / m <= -1 + 3 / 10000000000).
Proof.
  intros [E0 [R0 [_ H]]] He Hr Hm Hd.
  assert (Pm : 0 < m) by (assert (0 < 1 / 1000000) by interval; lra).
  assert (Q : / 2 ^ 52 <= m * (25 / 100000000000)).
  { apply Rle_trans with (1 / 1000000 * (25 / 100000000000)); [interval|]. apply Rmult_le_compat_r; [interval|exact Hm]. }
  assert (Q2 : / 2 ^ 50 <= 5 / 100000000000) by interval.
  assert (M1 : Rmax (Rabs d) (Rabs m) <= m).
  { apply Rmax_lub; [apply Rabs_le; lra|rewrite Rabs_pos_eq; lra]. }
  assert (M2 : Rmax (Rabs d) (Rabs (- m)) <= m).
  { apply Rmax_lub; [apply Rabs_le; lra|rewrite Rabs_Ropp, Rabs_pos_eq; lra]. }
  assert (M0 : forall x, 0 <= Rmax (Rabs d) x) by (intro x; apply Rle_trans with (Rabs d); [apply Rabs_pos|apply Rmax_l]).
  split; intros U; apply H in U.
  - assert (B : Rabs (d - m) <= m * (3 / 10000000000)).
    { eapply Rle_trans; [exact U|]. assert (rel * Rmax (Rabs d) (Rabs m) <= 5 / 100000000000 * m) by (apply Rmult_le_compat; try lra; apply M0). lra. }
    apply Rabs_le_inv in B. apply Rmult_le_reg_r with m; [exact Pm|]. replace (d / m * m) with d by (field; lra). lra.
  - assert (B : Rabs (d - - m) <= m * (3 / 10000000000)).
    { eapply Rle_trans; [exact U|]. assert (rel * Rmax (Rabs d) (Rabs (- m)) <= 5 / 100000000000 * m) by (apply Rmult_le_compat; try lra; apply M0). lra. }
    apply Rabs_le_inv in B. apply Rmult_le_reg_r with m; [exact Pm|]. replace (d / m * m) with d by (field; lra). lra.
Qed.

Lemma exact_ulps_spec : UlpsSpec (mkApprox (fun a b _ => Reqb a b) (fun a b _ _ => Reqb a b) (fun a b _ _ => Reqb a b) 0 0 4%N (fun _ => true)) 0 0.
Proof.
  unfold UlpsSpec, ulps_eq_d. cbn [ulps_eq default_epsilon default_max_ulps]. repeat split; try lra.
  - intros x. apply (proj2 (EqbSpec_R x x)). reflexivity.
  - intros a b H. apply (proj1 (EqbSpec_R a b)) in H. subst b. rewrite Rminus_diag_eq by reflexivity. rewrite Rabs_R0. lra.
Qed.
