(* Proofs/C04_QuatR.v — over the reals a non-zero quaternion has non-zero norm, hence an inverse. *)
From CG Require Import Scalar Model.Vector Model.Quaternion Proofs.Tac Proofs.Alg Proofs.RealInst Proofs.C04_Quat.
From Coq Require Import Reals Lra Psatz.
Local Open Scope R_scope.

Lemma quat_magnitude2_R_pos (q : Quat R) : q <> quat_zero OpsR -> quat_magnitude2 OpsR q <> 0.
Proof.
  destruct q as [[x y z] s]. intros H E. apply H. clear H.
  unfold quat_magnitude2, quat_dot, v3_dot, v3_sum, v3_mul_ew, v3_zip in E. simpl in E.
  assert (s = 0 /\ x = 0 /\ y = 0 /\ z = 0) as [-> [-> [-> ->]]] by (repeat split; nra).
  reflexivity.
Qed.
Lemma quat_invert_R (q : Quat R) : q <> quat_zero OpsR ->
  quat_mul OpsR q (quat_invert OpsR q) = quat_one OpsR /\ quat_mul OpsR (quat_invert OpsR q) q = quat_one OpsR.
Proof. intros H. apply (quat_invert_spec OpsR Field_R). apply quat_magnitude2_R_pos. exact H. Qed.
