(* Proofs/C07_Consts.v — the quarter turn the gimbal branches report is pi/2 up to 1e-16. *)
From CG Require Import Scalar Model.Angle Proofs.RealInst Proofs.Consts Proofs.C07_EulerR.
From Coq Require Import Reals Lra QArith Qreals.
Local Open Scope R_scope.
Lemma quarter_turn_close : Rabs (quarter_turn - PI / 2) <= 1 / 10000000000000000.
Proof.
  unfold quarter_turn, turn_div_4, nat_c, URad. cbn [full_turn]. simpl_R. rewrite Q2R_Z.
  pose proof two_pi_close as H. apply Rabs_le_inv in H. apply Rabs_le. lra.
Qed.
