(* Proofs/C08_Transform2.v — transforms compose, invert and convert to matrices consistently (property C08).
   2-D Decomposed over an abstract rotation type satisfying RotLaws2 (generated from C08_Transform.v by dimension substitution) (instances: unit quaternions,
   orthonormal Basis3); 2-D Decomposed over Basis2; the matrix Transform impls. *)
From Coq Require Import List Ring Field Nsatz QArith.
From Coq Require Import Algebra_syntax Ncring Cring Integral_domain.
Local Close Scope Q_scope.
From CG Require Import Scalar Model.Vector Model.Point Model.Matrix Model.Angle Model.Quaternion Model.Metric
                       Model.Rotation Model.Transform
                       Proofs.Tac Proofs.Alg Proofs.NsatzField Proofs.C03_Vector Proofs.C01_Matrix Proofs.C02_Inverse
                       Proofs.C04_Quat Proofs.C05_Repr.
Import ListNotations.
Set Implicit Arguments.

(* the laws a 2-D rotation type has to satisfy on its valid elements (unit quaternions, orthonormal bases) *)
Record RotLaws2 (F R : Type) (O : Ops F) (RO : RotOps R (V2 F) (P2 F)) (valid : R -> Prop) (to_m2 : R -> M2 F) : Prop := {
  rl2_one_valid : valid (r_one RO);
  rl2_mul_valid : forall a b, valid a -> valid b -> valid (r_mul RO a b);
  rl2_inv_valid : forall a, valid a -> exists a', r_invert RO a = Some a' /\ valid a';
  rl2_one : forall v, r_rotate_vector RO (r_one RO) v = v;
  rl2_add : forall a v w, r_rotate_vector RO a (v2_add O v w) = v2_add O (r_rotate_vector RO a v) (r_rotate_vector RO a w);
  rl2_scale : forall a v s, r_rotate_vector RO a (v2_mul_s O v s) = v2_mul_s O (r_rotate_vector RO a v) s;
  rl2_mul : forall a b v, valid a -> valid b -> r_rotate_vector RO (r_mul RO a b) v = r_rotate_vector RO a (r_rotate_vector RO b v);
  rl2_inv : forall a a' v, valid a -> r_invert RO a = Some a' ->
             r_rotate_vector RO a' (r_rotate_vector RO a v) = v /\ r_rotate_vector RO a (r_rotate_vector RO a' v) = v;
  rl2_point : forall a p, r_rotate_point RO a p = p2_from_vec (r_rotate_vector RO a (p2_to_vec p));
  rl2_m3 : forall a v, m2_mul_v O (to_m2 a) v = r_rotate_vector RO a v;
  rl2_m3_mul : forall a b, valid a -> valid b -> to_m2 (r_mul RO a b) = m2_mul O (to_m2 a) (to_m2 b)
}.

Section Dec2.
  Variable F : Type.
  Variable O : Ops F.
  Hypothesis Fth : field_theory (Scalar.zero O) (Scalar.one O) (add O) (mul O) (sub O) (opp O) (div O) (inv O) eq.
  Add Field Ff : Fth.
  Variable A : Approx F.
  Variable R : Type.
  Variable RO : RotOps R (V2 F) (P2 F).
  Variable valid : R -> Prop.
  Variable to_m2 : R -> M2 F.
  Hypothesis L : RotLaws2 O RO valid to_m2.
  Set Default Proof Using "Fth L".
  Local Notation "0" := (Scalar.zero O).
  Local Notation "1" := (Scalar.one O).
  Local Notation S2 := (Space2 O).
  Local Notation Dec := (Decomposed F R (V2 F)).
  Local Notation rot := (r_rotate_vector RO).
  Local Infix "+" := (add O).
  Local Infix "*" := (mul O).
  Definition dvalid2 (d : Dec) : Prop := valid (d_rot d).

  Lemma v2_scale_scale' v s t : v2_mul_s O (v2_mul_s O v s) t = v2_mul_s O v (mul O s t).
  Proof. destruct v; unfold_model; f_equal; ring. Qed.
  Lemma v2_scale_comm' v s t : v2_mul_s O (v2_mul_s O v s) t = v2_mul_s O (v2_mul_s O v t) s.
  Proof. destruct v; unfold_model; f_equal; ring. Qed.

  (* concat(s, t) applied to a vector / point = s applied to the result of t *)
  Lemma dec2_concat_vector a b v : dvalid2 a -> dvalid2 b ->
    dec_transform_vector RO S2 (dec_concat O RO S2 a b) v
    = dec_transform_vector RO S2 a (dec_transform_vector RO S2 b v).
  Proof.
    intros Ha Hb. destruct a as [sa ra da], b as [sb rb db]. unfold dvalid2 in *. cbn in *.
    unfold dec_transform_vector, dec_concat. cbn.
    rewrite (rl2_mul L) by assumption. rewrite <- (rl2_scale L).
    replace (v2_mul_s O (v2_mul_s O v sb) sa) with (v2_mul_s O v (mul O sa sb)); [reflexivity|].
    destruct v; unfold_model; f_equal; ring.
  Qed.
  Lemma dec2_concat_point a b p : dvalid2 a -> dvalid2 b ->
    dec_transform_point RO S2 (dec_concat O RO S2 a b) p
    = dec_transform_point RO S2 a (dec_transform_point RO S2 b p).
  Proof.
    intros Ha Hb. destruct a as [sa ra da], b as [sb rb db]. unfold dvalid2 in *. cbn in *.
    unfold dec_transform_point, dec_concat. cbn. rewrite !(rl2_point L).
    rewrite (rl2_mul L) by assumption.
    set (u := rot rb (p2_to_vec (p2_mul_s O p sb))).
    assert (E1 : p2_to_vec (p2_mul_s O p (mul O sa sb)) = v2_mul_s O (p2_to_vec (p2_mul_s O p sb)) sa).
    { destruct p; unfold_model; f_equal; ring. }
    assert (E2 : p2_to_vec (p2_mul_s O (p2_add_v O (p2_from_vec u) db) sa) = v2_add O (v2_mul_s O u sa) (v2_mul_s O db sa)).
    { destruct u, db; unfold_model; f_equal; ring. }
    rewrite E1, E2, (rl2_add L), !(rl2_scale L). fold u.
    destruct (rot ra u), (rot ra db), da. unfold_model. f_equal; ring.
  Qed.
  (* one() leaves everything unchanged *)
  Lemma dec2_one_apply v p :
    dec_transform_vector RO S2 (dec_one O RO S2) v = v /\ dec_transform_point RO S2 (dec_one O RO S2) p = p.
  Proof.
    unfold dec_transform_vector, dec_transform_point, dec_one. cbn. rewrite (rl2_point L), !(rl2_one L).
    split; [destruct v|destruct p]; unfold_model; f_equal; ring.
  Qed.
  (* transform_vector ignores the displacement *)
  Lemma dec2_vector_ignores_disp s r d d' v :
    dec_transform_vector RO S2 (mkDec s r d) v = dec_transform_vector RO S2 (mkDec s r d') v.
  Proof. reflexivity. Qed.
  (* inverse_transform is None exactly when the scale is (ulps-)zero, otherwise Some *)
  Lemma dec2_inverse_cases d : dvalid2 d ->
    (ulps_eq_d A (d_scale d) 0 = true -> dec_inverse_transform O A RO S2 d = Some None /\
                                         forall v, dec_inverse_transform_vector O A RO S2 d v = Some None) /\
    (ulps_eq_d A (d_scale d) 0 = false -> exists d', dec_inverse_transform O A RO S2 d = Some (Some d') /\ dvalid2 d' /\
       d_scale d' = div O 1 (d_scale d) /\
       forall v, dec_inverse_transform_vector O A RO S2 d v = Some (Some (dec_transform_vector RO S2 d' v))).
  Proof.
    intros Hv. destruct d as [s r dd]. unfold dvalid2 in Hv. cbn in Hv.
    unfold dec_inverse_transform, dec_inverse_transform_vector. cbn. split; intros E; rewrite E.
    - split; reflexivity.
    - destruct (rl2_inv_valid L r Hv) as [r' [Er Hv']]. rewrite Er. eexists. split; [reflexivity|].
      split; [exact Hv'|]. split; [reflexivity|]. intros v. unfold dec_transform_vector. cbn.
      do 3 f_equal. destruct v; unfold_model. f_equal; rewrite !(Fdiv_def Fth); ring.
  Qed.
  (* ... and otherwise (scale non-zero) it is the transform that undoes it on points and vectors *)
  Lemma dec2_inverse_undoes d d' : dvalid2 d -> d_scale d <> 0 ->
    dec_inverse_transform O A RO S2 d = Some (Some d') ->
    (forall v, dec_transform_vector RO S2 d' (dec_transform_vector RO S2 d v) = v /\
               dec_transform_vector RO S2 d (dec_transform_vector RO S2 d' v) = v) /\
    (forall p, dec_transform_point RO S2 d' (dec_transform_point RO S2 d p) = p /\
               dec_transform_point RO S2 d (dec_transform_point RO S2 d' p) = p).
  Proof.
    intros Hv Hs. destruct d as [s r dd]. unfold dvalid2 in Hv. cbn in Hv, Hs.
    unfold dec_inverse_transform. cbn. destruct (ulps_eq_d A s 0); [discriminate|].
    destruct (r_invert RO r) as [r'|] eqn:Er; [|discriminate]. intros E. inversion E; subst d'; clear E.
    pose proof (rl2_inv L r) as Hinv.
    split.
    - intros v. unfold dec_transform_vector. cbn. rewrite <- !(rl2_scale L).
      destruct (Hinv r' (v2_mul_s O (v2_mul_s O v s) (div O 1 s)) Hv Er) as [E1 _].
      destruct (Hinv r' (v2_mul_s O (v2_mul_s O v (div O 1 s)) s) Hv Er) as [_ E2].
      rewrite E1, E2.
      split; destruct v; unfold_model; f_equal; field; exact Hs.
    - intros p. unfold dec_transform_point. cbn. rewrite !(rl2_point L).
      set (ds := div O 1 s).
      split.
      + set (u := rot r (p2_to_vec (p2_mul_s O p s))).
        assert (E : p2_to_vec (p2_mul_s O (p2_add_v O (p2_from_vec u) dd) ds) = v2_add O (v2_mul_s O u ds) (v2_mul_s O dd ds)).
        { destruct u, dd; unfold_model; f_equal; ring. }
        rewrite E, (rl2_add L), !(rl2_scale L). unfold u.
        destruct (Hinv r' (p2_to_vec (p2_mul_s O p s)) Hv Er) as [E1 _]. rewrite E1.
        destruct (rot r' dd), p. unfold ds. unfold_model. f_equal; field; exact Hs.
      + set (w := v2_mul_s O (rot r' dd) (opp O ds)).
        set (u := rot r' (p2_to_vec (p2_mul_s O p ds))).
        assert (E : p2_to_vec (p2_mul_s O (p2_add_v O (p2_from_vec u) w) s) = v2_add O (v2_mul_s O u s) (v2_mul_s O w s)).
        { destruct u, w; unfold_model; f_equal; ring. }
        rewrite E, (rl2_add L), !(rl2_scale L). unfold u, w. rewrite (rl2_scale L).
        destruct (Hinv r' (p2_to_vec (p2_mul_s O p ds)) Hv Er) as [_ E1]. rewrite E1.
        destruct (Hinv r' dd Hv Er) as [_ E2]. rewrite E2.
        destruct dd, p. unfold ds. unfold_model. f_equal; field; exact Hs.
  Qed.

  (* conversion to Matrix4 commutes with applying *)
  Lemma m3_of_dec_apply d v p :
    m3_transform_vector2 O (m3_of_dec O to_m2 d) v = dec_transform_vector RO S2 d v /\
    m3_transform_point2 O (m3_of_dec O to_m2 d) p = dec_transform_point RO S2 d p.
  Proof.
    destruct d as [s r dd]. unfold dec_transform_vector, dec_transform_point. cbn. rewrite (rl2_point L).
    rewrite <- !(rl2_m3 L). unfold m3_of_dec. cbn. destruct (to_m2 r) as [[? ?] [? ?]], v, p, dd.
    unfold_model. split; f_equal; field; apply (F_1_neq_0 Fth).
  Qed.
  (* ... with composing ... *)
  Lemma m3_of_dec_concat a b : dvalid2 a -> dvalid2 b ->
    m3_of_dec O to_m2 (dec_concat O RO S2 a b) = m3_mul O (m3_of_dec O to_m2 a) (m3_of_dec O to_m2 b).
  Proof.
    intros Ha Hb. destruct a as [sa ra da], b as [sb rb db]. unfold dvalid2 in *. cbn in *.
    unfold m3_of_dec, dec_concat. cbn. rewrite (rl2_m3_mul L) by assumption. rewrite <- (rl2_m3 L).
    destruct (to_m2 ra) as [[? ?] [? ?]], (to_m2 rb) as [[? ?] [? ?]], da, db.
    unfold_model. mat_eq; ring.
  Qed.
  (* ... and with inverting: the matrix of the inverse transform is the inverse matrix *)
  Lemma to_m2_inv r r' : valid r -> r_invert RO r = Some r' ->
    m2_mul O (to_m2 r') (to_m2 r) = m2_identity O /\ m2_mul O (to_m2 r) (to_m2 r') = m2_identity O.
  Proof.
    intros Hv Er. pose proof (F_R Fth) as Rth.
    split; apply (m2_ext_identity Rth); intros v;
      rewrite (proj1 (m2_action O Rth _ _ v v 0)), !(rl2_m3 L);
      destruct (@rl2_inv _ _ _ _ _ _ L r r' v Hv Er) as [K1 K2]; assumption.
  Qed.
  Lemma m3_of_dec_aff d : m3_of_dec O to_m2 d = m3_aff O (m2_mul_s O (to_m2 (d_rot d)) (d_scale d)) (d_disp d).
  Proof. reflexivity. Qed.
  Lemma m3_of_dec_inverse d d' : dvalid2 d -> d_scale d <> 0 ->
    dec_inverse_transform O A RO S2 d = Some (Some d') ->
    m3_mul O (m3_of_dec O to_m2 d') (m3_of_dec O to_m2 d) = m3_identity O /\
    m3_mul O (m3_of_dec O to_m2 d) (m3_of_dec O to_m2 d') = m3_identity O.
  Proof.
    intros Hv Hs. destruct d as [s r dd]. unfold dvalid2 in Hv. cbn in Hv, Hs.
    unfold dec_inverse_transform. cbn. destruct (ulps_eq_d A s 0); [discriminate|].
    destruct (r_invert RO r) as [r'|] eqn:Er; [|discriminate]. intros E. inversion E; subst d'; clear E.
    pose proof (F_R Fth) as Rth.
    destruct (to_m2_inv Hv Er) as [I1 I2].
    rewrite !m3_of_dec_aff. cbn [d_rot d_scale d_disp]. rewrite !(m3_aff_mul O Rth), !(m2_mul_scale O Rth), I1, I2.
    rewrite <- !(rl2_m3 L).
    rewrite <- (m3_aff_identity O Rth).
    revert I1 I2. destruct (to_m2 r) as [[a0 a1] [b0 b1]], (to_m2 r') as [[a0' a1'] [b0' b1']], dd as [t0 t1].
    unfold m3_aff. unfold_model. intros I1 I2.
    injection I1 as P00 P01 P10 P11. injection I2 as Q00 Q01 Q10 Q11.
    split; mat_eq; try (field; exact Hs).
    all: try (field_simplify_eq; [|exact Hs]).
    all: try ring.
    - fold (Scalar.zero O). transitivity ((1 + opp O 1) * t0 + (opp O (a0 * a0' + b0 * a1') + 1) * t0
                    + opp O (a0 * b0' + b0 * b1') * t1); [|rewrite Q00, Q10; ring].
      ring.
    - fold (Scalar.zero O). transitivity ((1 + opp O 1) * t1 + opp O (a1 * a0' + b1 * a1') * t0
                    + (opp O (a1 * b0' + b1 * b1') + 1) * t1); [|rewrite Q01, Q11; ring].
      ring.
  Qed.
End Dec2.
