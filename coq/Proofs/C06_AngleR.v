(* Proofs/C06_AngleR.v — C06 over the reals: the oracle hypotheses of C06_Angle are discharged by the
   standard library's trigonometric identities, for angles in radians and in degrees. *)
From CG Require Import Scalar Model.Vector Model.Point Model.Matrix Model.Angle Model.Quaternion Model.Metric Model.Rotation
                       Proofs.Tac Proofs.Alg Proofs.RealInst Proofs.NsatzField Proofs.C06_Angle.
From Coq Require Import Reals Lra Psatz QArith Qreals.
Local Open Scope R_scope.

Lemma EqDec_R : EqDec OpsR.
Proof. intros x y. destruct (Req_dec x y); [left|right]; assumption. Qed.

Section R.
  Variable U : Unit R.
  Local Notation SN := (sn TrigR U).
  Local Notation CS := (cs TrigR U).
  Local Notation SNH := (snh OpsR TrigR U).
  Local Notation CSH := (csh OpsR TrigR U).

  Lemma sn_cs_1 t : SN t * SN t + CS t * CS t = 1.
  Proof. unfold sn, cs. simpl_R. pose proof (sin2_cos2 (to_rad U t)) as H. unfold Rsqr in H. exact H. Qed.
  Lemma snh_csh_1 t : SNH t * SNH t + CSH t * CSH t = 1.
  Proof. unfold snh, csh. simpl_R. pose proof (sin2_cos2 (to_rad U t * Q2R q_half)) as H. unfold Rsqr in H. exact H. Qed.
  Lemma double_angle t : SN t = (1 + 1) * SNH t * CSH t /\ CS t = CSH t * CSH t - SNH t * SNH t.
  Proof.
    unfold sn, cs, snh, csh. simpl_R. unfold q_half. rewrite Q2R_half.
    assert (E : to_rad U t = 2 * (to_rad U t * / 2)) by field.
    set (h := to_rad U t * / 2) in *. rewrite E, sin_2a, cos_2a. split; ring.
  Qed.
End R.

(* addition formulas hold whenever the unit's conversion to radians is additive (true of Rad and Deg) *)
Definition additive (U : Unit R) : Prop := forall a b, to_rad U (a + b) = to_rad U a + to_rad U b.
Lemma additive_rad : additive (URad OpsR).
Proof. intros a b. reflexivity. Qed.
Lemma additive_deg : additive (UDeg OpsR).
Proof. intros a b. unfold UDeg, to_rad, rad_of_deg. simpl_R. ring. Qed.

Section Add.
  Variable U : Unit R.
  Hypothesis HU : additive U.
  Lemma sn_cs_add t1 t2 :
    sn TrigR U (t1 + t2) = sn TrigR U t1 * cs TrigR U t2 + cs TrigR U t1 * sn TrigR U t2 /\
    cs TrigR U (t1 + t2) = cs TrigR U t1 * cs TrigR U t2 - sn TrigR U t1 * sn TrigR U t2.
  Proof. unfold sn, cs. simpl_R. rewrite HU, sin_plus, cos_plus. split; ring. Qed.
  Lemma snh_csh_add t1 t2 :
    snh OpsR TrigR U (t1 + t2) = snh OpsR TrigR U t1 * csh OpsR TrigR U t2 + csh OpsR TrigR U t1 * snh OpsR TrigR U t2 /\
    csh OpsR TrigR U (t1 + t2) = csh OpsR TrigR U t1 * csh OpsR TrigR U t2 - snh OpsR TrigR U t1 * snh OpsR TrigR U t2.
  Proof. unfold snh, csh. simpl_R. rewrite HU, Rmult_plus_distr_r, sin_plus, cos_plus. split; ring. Qed.

  (* all four 3-D representations map v to v cos t + (a x v) sin t + a (a.v)(1 - cos t) for a unit axis *)
  Theorem axis_angle_rodrigues_R a t v : v3_magnitude2 OpsR a = 1 ->
    let r := rodrigues OpsR a v (sn TrigR U t) (cs TrigR U t) in
    m3_mul_v OpsR (m3_from_axis_angle OpsR TrigR U a t) v = r /\
    m4_transform_vector OpsR (m4_from_axis_angle OpsR TrigR U a t) v = r /\
    basis3_rotate_vector OpsR (basis3_from_axis_angle OpsR TrigR U a t) v = r /\
    quat_mul_v OpsR (quat_from_axis_angle OpsR TrigR U a t) v = r.
  Proof.
    intros Ha r. subst r. repeat split.
    - apply (m3_axis_angle_rodrigues Field_R EqDec_R OfQHom_R).
    - apply (m4_axis_angle_rodrigues Field_R EqDec_R OfQHom_R).
    - apply (basis3_axis_angle_rodrigues Field_R EqDec_R OfQHom_R).
    - rewrite (quat_axis_angle_rodrigues Field_R EqDec_R OfQHom_R TrigR U a t v Ha (snh_csh_1 U t)).
      destruct (double_angle U t) as [E1 E2]. simpl_R. rewrite <- E1, <- E2. reflexivity.
  Qed.
  (* fixes the axis, orthonormal, determinant +1 *)
  Theorem axis_angle_rotation_R a t : v3_magnitude2 OpsR a = 1 ->
    m3_mul_v OpsR (m3_from_axis_angle OpsR TrigR U a t) a = a /\
    m3_mul OpsR (m3_from_axis_angle OpsR TrigR U a t) (m3_transpose (m3_from_axis_angle OpsR TrigR U a t)) = m3_identity OpsR /\
    m3_determinant OpsR (m3_from_axis_angle OpsR TrigR U a t) = 1 /\
    quat_magnitude2 OpsR (quat_from_axis_angle OpsR TrigR U a t) = 1.
  Proof.
    intros Ha.
    destruct (m3_axis_angle_rotation Field_R EqDec_R OfQHom_R TrigR U a t (sn_cs_1 U t) Ha) as [A [B C]].
    repeat split; try assumption.
    apply (quat_axis_angle_unit Field_R EqDec_R OfQHom_R TrigR U a t Ha (snh_csh_1 U t)).
  Qed.
  (* angles add under composition about a common axis *)
  Theorem axis_angle_add_R a t1 t2 : v3_magnitude2 OpsR a = 1 ->
    m3_mul OpsR (m3_from_axis_angle OpsR TrigR U a t1) (m3_from_axis_angle OpsR TrigR U a t2)
      = m3_from_axis_angle OpsR TrigR U a (t1 + t2) /\
    quat_mul OpsR (quat_from_axis_angle OpsR TrigR U a t1) (quat_from_axis_angle OpsR TrigR U a t2)
      = quat_from_axis_angle OpsR TrigR U a (t1 + t2) /\
    m2_mul OpsR (m2_from_angle OpsR TrigR U t1) (m2_from_angle OpsR TrigR U t2) = m2_from_angle OpsR TrigR U (t1 + t2).
  Proof.
    intros Ha. destruct (sn_cs_add t1 t2) as [E1 E2]. destruct (snh_csh_add t1 t2) as [E3 E4].
    repeat split.
    - apply (m3_axis_angle_add Field_R EqDec_R OfQHom_R TrigR U a t1 t2 (t1 + t2) Ha E1 E2).
    - apply (quat_axis_angle_add Field_R EqDec_R OfQHom_R TrigR U a t1 t2 (t1 + t2) Ha E3 E4).
    - apply (m2_from_angle_add Field_R EqDec_R OfQHom_R TrigR U t1 t2 (t1 + t2) E1 E2).
  Qed.
  (* 2-D: from_angle(t) maps (1,0) to (cos t, sin t) and (0,1) to (-sin t, cos t); proper rotation *)
  Theorem from_angle_2d_R t :
    m2_mul_v OpsR (m2_from_angle OpsR TrigR U t) (v2_unit_x OpsR) = mkV2 (cs TrigR U t) (sn TrigR U t) /\
    m2_mul_v OpsR (m2_from_angle OpsR TrigR U t) (v2_unit_y OpsR) = mkV2 (- sn TrigR U t) (cs TrigR U t) /\
    basis2_from_angle OpsR TrigR U t = m2_from_angle OpsR TrigR U t /\
    m2_mul OpsR (m2_from_angle OpsR TrigR U t) (m2_transpose (m2_from_angle OpsR TrigR U t)) = m2_identity OpsR /\
    m2_determinant OpsR (m2_from_angle OpsR TrigR U t) = 1.
  Proof.
    destruct (m2_from_angle_spec Field_R EqDec_R OfQHom_R TrigR U t) as [A [B C]].
    destruct (m2_from_angle_rotation Field_R EqDec_R OfQHom_R TrigR U t (sn_cs_1 U t)) as [D E].
    repeat split; assumption.
  Qed.
End Add.

(* the sine / cosine the constructors use are those of the radian measure: Rad directly, Deg through pi/180 (the f64 constant) *)
Lemma sn_cs_units t :
  sn TrigR (URad OpsR) t = sin t /\ cs TrigR (URad OpsR) t = cos t /\
  sn TrigR (UDeg OpsR) t = sin (t * Q2R q_rad_per_deg) /\ cs TrigR (UDeg OpsR) t = cos (t * Q2R q_rad_per_deg).
Proof. repeat split. Qed.
