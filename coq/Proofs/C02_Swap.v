(* Proofs/C02_Swap.v — swap_rows / swap_columns / swap_elements / replace_col / transpose_self (property C02). *)
From Coq Require Import List Arith Lia Bool.
From CG Require Import Scalar Model.Vector Model.Point Model.Matrix Proofs.Tac Proofs.C01_Matrix.
Import ListNotations.
Set Implicit Arguments.

(* index transposition used in the swap specifications *)
Definition tr (a b i : nat) : nat := if Nat.eqb i a then b else if Nat.eqb i b then a else i.

Section SwapLaws.
  Variable A : Type.
  Variable d : A.
  Ltac i4 c := destruct c as [|[|[|[|c]]]]; try lia.
  Ltac i3 c := destruct c as [|[|[|c]]]; try lia.
  Ltac i2 c := destruct c as [|[|c]]; try lia.

  (* swap_rows(a,b): exchanges exactly rows a and b; out-of-range panics *)
  Lemma m2_swap_rows_spec (m : M2 A) a b : a < 2 -> b < 2 ->
    exists m', m2_swap_rows m a b = Some m' /\ forall c r, c < 2 -> r < 2 -> e2 d m' c r = e2 d m c (tr a b r).
  Proof. intros Ha Hb. destruct m as [[? ?] [? ?]]. i2 a; i2 b; eexists; (split; [reflexivity|]); intros c r Hc Hr; i2 c; i2 r; reflexivity. Qed.
  Lemma m3_swap_rows_spec (m : M3 A) a b : a < 3 -> b < 3 ->
    exists m', m3_swap_rows m a b = Some m' /\ forall c r, c < 3 -> r < 3 -> e3 d m' c r = e3 d m c (tr a b r).
  Proof. intros Ha Hb. destruct m as [[? ? ?] [? ? ?] [? ? ?]]. i3 a; i3 b; eexists; (split; [reflexivity|]); intros c r Hc Hr; i3 c; i3 r; reflexivity. Qed.
  Lemma m4_swap_rows_spec (m : M4 A) a b : a < 4 -> b < 4 ->
    exists m', m4_swap_rows m a b = Some m' /\ forall c r, c < 4 -> r < 4 -> e4 d m' c r = e4 d m c (tr a b r).
  Proof. intros Ha Hb. destruct m as [[? ? ? ?] [? ? ? ?] [? ? ? ?] [? ? ? ?]]. i4 a; i4 b; eexists; (split; [reflexivity|]); intros c r Hc Hr; i4 c; i4 r; reflexivity. Qed.
  Lemma m2_swap_columns_spec (m : M2 A) a b : a < 2 -> b < 2 ->
    exists m', m2_swap_columns m a b = Some m' /\ forall c r, c < 2 -> r < 2 -> e2 d m' c r = e2 d m (tr a b c) r.
  Proof. intros Ha Hb. destruct m as [[? ?] [? ?]]. i2 a; i2 b; eexists; (split; [reflexivity|]); intros c r Hc Hr; i2 c; i2 r; reflexivity. Qed.
  Lemma m3_swap_columns_spec (m : M3 A) a b : a < 3 -> b < 3 ->
    exists m', m3_swap_columns m a b = Some m' /\ forall c r, c < 3 -> r < 3 -> e3 d m' c r = e3 d m (tr a b c) r.
  Proof. intros Ha Hb. destruct m as [[? ? ?] [? ? ?] [? ? ?]]. i3 a; i3 b; eexists; (split; [reflexivity|]); intros c r Hc Hr; i3 c; i3 r; reflexivity. Qed.
  Lemma m4_swap_columns_spec (m : M4 A) a b : a < 4 -> b < 4 ->
    exists m', m4_swap_columns m a b = Some m' /\ forall c r, c < 4 -> r < 4 -> e4 d m' c r = e4 d m (tr a b c) r.
  Proof. intros Ha Hb. destruct m as [[? ? ? ?] [? ? ? ?] [? ? ? ?] [? ? ? ?]]. i4 a; i4 b; eexists; (split; [reflexivity|]); intros c r Hc Hr; i4 c; i4 r; reflexivity. Qed.
  (* swap_elements((ac,ar),(bc,br)): exchanges exactly those two elements *)
  Definition tr2 (ac ar bc br c r : nat) : nat * nat :=
    if Nat.eqb c ac && Nat.eqb r ar then (bc, br) else if Nat.eqb c bc && Nat.eqb r br then (ac, ar) else (c, r).
  Lemma m2_swap_elements_spec (m : M2 A) ac ar bc br : ac < 2 -> ar < 2 -> bc < 2 -> br < 2 ->
    exists m', m2_swap_elements m ac ar bc br = Some m' /\
      forall c r, c < 2 -> r < 2 -> e2 d m' c r = e2 d m (fst (tr2 ac ar bc br c r)) (snd (tr2 ac ar bc br c r)).
  Proof. intros H1 H2 H3 H4. destruct m as [[? ?] [? ?]]. i2 ac; i2 ar; i2 bc; i2 br; eexists; (split; [reflexivity|]); intros c r Hc Hr; i2 c; i2 r; reflexivity. Qed.
  Lemma m3_swap_elements_spec (m : M3 A) ac ar bc br : ac < 3 -> ar < 3 -> bc < 3 -> br < 3 ->
    exists m', m3_swap_elements m ac ar bc br = Some m' /\
      forall c r, c < 3 -> r < 3 -> e3 d m' c r = e3 d m (fst (tr2 ac ar bc br c r)) (snd (tr2 ac ar bc br c r)).
  Proof. intros H1 H2 H3 H4. destruct m as [[? ? ?] [? ? ?] [? ? ?]]. i3 ac; i3 ar; i3 bc; i3 br; eexists; (split; [reflexivity|]); intros c r Hc Hr; i3 c; i3 r; reflexivity. Qed.
  Lemma m4_swap_elements_spec (m : M4 A) ac ar bc br : ac < 4 -> ar < 4 -> bc < 4 -> br < 4 ->
    exists m', m4_swap_elements m ac ar bc br = Some m' /\
      forall c r, c < 4 -> r < 4 -> e4 d m' c r = e4 d m (fst (tr2 ac ar bc br c r)) (snd (tr2 ac ar bc br c r)).
  Proof. intros H1 H2 H3 H4. destruct m as [[? ? ? ?] [? ? ? ?] [? ? ? ?] [? ? ? ?]].
    i4 ac; i4 ar; i4 bc; i4 br; eexists; (split; [reflexivity|]); intros c r Hc Hr; i4 c; i4 r; reflexivity. Qed.
  (* out of range => panic *)
  Lemma swap_oob_2 (m : M2 A) a b : 2 <= a \/ 2 <= b -> m2_swap_rows m a b = None /\ m2_swap_columns m a b = None.
  Proof. intros H. destruct m as [[? ?] [? ?]]. destruct a as [|[|a]]; destruct b as [|[|b]]; try lia; split; reflexivity. Qed.
  Lemma swap_oob_3 (m : M3 A) a b : 3 <= a \/ 3 <= b -> m3_swap_rows m a b = None /\ m3_swap_columns m a b = None.
  Proof. intros H. destruct m as [[? ? ?] [? ? ?] [? ? ?]]. destruct a as [|[|[|a]]]; destruct b as [|[|[|b]]]; try lia; split; reflexivity. Qed.
  Lemma swap_oob_4 (m : M4 A) a b : 4 <= a \/ 4 <= b -> m4_swap_rows m a b = None /\ m4_swap_columns m a b = None.
  Proof. intros H. destruct m as [[? ? ? ?] [? ? ? ?] [? ? ? ?] [? ? ? ?]].
    destruct a as [|[|[|[|a]]]]; destruct b as [|[|[|[|b]]]]; try lia; split; reflexivity. Qed.
  (* replace_col(c, src): installs src as column c, returns the old column; other columns untouched *)
  Lemma m2_replace_col_spec (m : M2 A) c src : c < 2 ->
    exists m', m2_replace_col m c src = Some (m', oget src (m2_col m c)) /\ m2_col m' c = Some src /\
               forall k, k <> c -> m2_col m' k = m2_col m k.
  Proof. intros Hc. destruct m. i2 c; eexists; (split; [reflexivity|split;[reflexivity|]]); intros [|[|k]] Hk; try reflexivity; congruence. Qed.
  Lemma m3_replace_col_spec (m : M3 A) c src : c < 3 ->
    exists m', m3_replace_col m c src = Some (m', oget src (m3_col m c)) /\ m3_col m' c = Some src /\
               forall k, k <> c -> m3_col m' k = m3_col m k.
  Proof. intros Hc. destruct m. i3 c; eexists; (split; [reflexivity|split;[reflexivity|]]); intros [|[|[|k]]] Hk; try reflexivity; congruence. Qed.
  Lemma m4_replace_col_spec (m : M4 A) c src : c < 4 ->
    exists m', m4_replace_col m c src = Some (m', oget src (m4_col m c)) /\ m4_col m' c = Some src /\
               forall k, k <> c -> m4_col m' k = m4_col m k.
  Proof. intros Hc. destruct m. i4 c; eexists; (split; [reflexivity|split;[reflexivity|]]); intros [|[|[|[|k]]]] Hk; try reflexivity; congruence. Qed.
  Lemma replace_col_oob (m2 : M2 A) (m3 : M3 A) (m4 : M4 A) s2 s3 s4 c :
    (2 <= c -> m2_replace_col m2 c s2 = None) /\ (3 <= c -> m3_replace_col m3 c s3 = None) /\
    (4 <= c -> m4_replace_col m4 c s4 = None).
  Proof. destruct m2, m3, m4. repeat split; intros H; destruct c as [|[|[|[|c]]]]; try lia; reflexivity. Qed.

  (* transpose_self() equals transpose(); transpose is an involution *)
  Lemma m2_transpose_self_eq (m : M2 A) : m2_transpose_self m = Some (m2_transpose m).
  Proof. destruct m as [[? ?] [? ?]]. reflexivity. Qed.
  Lemma m3_transpose_self_eq (m : M3 A) : m3_transpose_self m = Some (m3_transpose m).
  Proof. destruct m as [[? ? ?] [? ? ?] [? ? ?]]. reflexivity. Qed.
  Lemma m4_transpose_self_eq (m : M4 A) : m4_transpose_self m = Some (m4_transpose m).
  Proof. destruct m as [[? ? ? ?] [? ? ? ?] [? ? ? ?] [? ? ? ?]]. reflexivity. Qed.
  Lemma m2_transpose_invol (m : M2 A) : m2_transpose (m2_transpose m) = m.
  Proof. destruct m as [[? ?] [? ?]]. reflexivity. Qed.
  Lemma m3_transpose_invol (m : M3 A) : m3_transpose (m3_transpose m) = m.
  Proof. destruct m as [[? ? ?] [? ? ?] [? ? ?]]. reflexivity. Qed.
  Lemma m4_transpose_invol (m : M4 A) : m4_transpose (m4_transpose m) = m.
  Proof. destruct m as [[? ? ? ?] [? ? ? ?] [? ? ? ?] [? ? ? ?]]. reflexivity. Qed.
End SwapLaws.

