(* Proofs/C11_MetricR.v — C11 over the reals: magnitude, distance, normalize, normalize_to, angle, project_on
   for vectors 1-4, points 1-3 and quaternions. *)
From CG Require Import Scalar Model.Vector Model.Point Model.Quaternion Model.Metric Proofs.Tac Proofs.Alg Proofs.RealInst.
From Coq Require Import Reals Lra Psatz.
Local Open Scope R_scope.

(* ---------- scalar facts ---------- *)
Lemma sqrt_sq x : 0 <= x -> sqrt x * sqrt x = x.
Proof. apply sqrt_sqrt. Qed.
Lemma sq_nonneg x : 0 <= x * x.
Proof. nra. Qed.

(* scaling to a prescribed length *)
Lemma scale_to_length m2 m : 0 < m2 ->
  let k := m / sqrt m2 in
  sqrt (k * k * m2) = Rabs m /\ (0 < m -> 0 < k) /\ k * sqrt m2 = m.
Proof.
  intros H k. assert (Hs : 0 < sqrt m2) by (apply sqrt_lt_R0; exact H).
  assert (E : k * k * m2 = m * m).
  { unfold k. rewrite <- (sqrt_sq m2) at 3 by lra. field. lra. }
  repeat split.
  - rewrite E. replace (m * m) with (Rsqr m) by reflexivity. apply sqrt_Rsqr_abs.
  - intros Hm. unfold k. apply Rdiv_lt_0_compat; assumption.
  - unfold k. field. lra.
Qed.

(* the generic acos form of `angle` *)
Lemma angle_acos a2 b2 d : 0 < a2 -> 0 < b2 -> d * d <= a2 * b2 ->
  let t := acos (d / (sqrt a2 * sqrt b2)) in
  sqrt a2 * sqrt b2 * cos t = d /\ 0 <= t <= PI.
Proof.
  intros Ha Hb Hd t.
  assert (Sa : 0 < sqrt a2) by (apply sqrt_lt_R0; exact Ha).
  assert (Sb : 0 < sqrt b2) by (apply sqrt_lt_R0; exact Hb).
  assert (P : 0 < sqrt a2 * sqrt b2) by (apply Rmult_lt_0_compat; assumption).
  assert (E : (sqrt a2 * sqrt b2) * (sqrt a2 * sqrt b2) = a2 * b2).
  { replace (sqrt a2 * sqrt b2 * (sqrt a2 * sqrt b2)) with ((sqrt a2 * sqrt a2) * (sqrt b2 * sqrt b2)) by ring.
    rewrite !sqrt_sq by lra. reflexivity. }
  set (n := sqrt a2 * sqrt b2) in *.
  assert (B : -1 <= d / n <= 1).
  { assert (- n <= d <= n) by (split; nra).
    split.
    - apply Rmult_le_reg_r with n; [exact P|]. unfold Rdiv. rewrite Rmult_assoc, Rinv_l by lra. lra.
    - apply Rmult_le_reg_r with n; [exact P|]. unfold Rdiv. rewrite Rmult_assoc, Rinv_l by lra. lra. }
  split.
  - unfold t. rewrite cos_acos by exact B. field. lra.
  - unfold t. pose proof (acos_bound (d / n)). lra.
Qed.

(* the atan2 form of `angle`: x = dot, y = the complementary component, x^2 + y^2 = |a|^2 |b|^2 *)
Lemma angle_atan2 a2 b2 x y : 0 < a2 -> 0 < b2 -> x * x + y * y = a2 * b2 ->
  let t := Ratan2 y x in
  sqrt a2 * sqrt b2 * cos t = x /\ sqrt a2 * sqrt b2 * sin t = y /\ - PI <= t <= PI /\ (0 <= y -> 0 <= t <= PI).
Proof.
  intros Ha Hb E t.
  assert (P : 0 < a2 * b2) by (apply Rmult_lt_0_compat; assumption).
  assert (N : x * x + y * y <> 0) by lra.
  assert (S : sqrt (x * x + y * y) = sqrt a2 * sqrt b2) by (rewrite E; apply sqrt_mult; lra).
  assert (Sa : 0 < sqrt a2) by (apply sqrt_lt_R0; exact Ha).
  assert (Sb : 0 < sqrt b2) by (apply sqrt_lt_R0; exact Hb).
  assert (Q : 0 < sqrt a2 * sqrt b2) by (apply Rmult_lt_0_compat; assumption).
  split; [|split; [|split; [split|intros Hy; split]]].
  - unfold t. rewrite (Ratan2_cos y x N), S. field. lra.
  - unfold t. rewrite (Ratan2_sin y x N), S. field. lra.
  - pose proof (Ratan2_bounds y x). unfold t. lra.
  - pose proof (Ratan2_bounds y x). unfold t. lra.
  - unfold t, Ratan2. destruct (Req_EM_T (sqrt (x * x + y * y)) 0) as [Z|Z]; [rewrite S in Z; lra|].
    destruct (Rle_dec 0 y); [|contradiction]. pose proof (acos_bound (x / sqrt (x * x + y * y))). lra.
  - unfold t, Ratan2. destruct (Req_EM_T (sqrt (x * x + y * y)) 0) as [Z|Z]; [rewrite S in Z; lra|].
    destruct (Rle_dec 0 y); [|contradiction]. pose proof (acos_bound (x / sqrt (x * x + y * y))). lra.
Qed.

Ltac unfold_metric :=
  cbv [v1_magnitude v2_magnitude v3_magnitude v4_magnitude v1_normalize_to v2_normalize_to v3_normalize_to v4_normalize_to
       v1_normalize v2_normalize v3_normalize v4_normalize v1_distance v2_distance v3_distance v4_distance
       p1_distance p2_distance p3_distance p1_distance2 p2_distance2 p3_distance2 p1_sub_p p2_sub_p p3_sub_p
       v1_angle v2_angle v3_angle v4_angle
       quat_magnitude quat_normalize_to quat_normalize quat_distance quat_distance2 quat_magnitude2 quat_dot quat_sub quat_mul_s
       quat_angle quat_project_on qs qv] in *.

(* sums of squares *)
Lemma ss1 a : 0 <= a * a. Proof. nra. Qed.
Lemma ss2 a b : 0 <= a * a + b * b. Proof. nra. Qed.
Lemma ss3 a b c : 0 <= a * a + b * b + c * c. Proof. nra. Qed.
Lemma ss4 a b c d : 0 <= a * a + b * b + c * c + d * d. Proof. nra. Qed.
(* Cauchy-Schwarz through Lagrange's identity *)
Lemma cs1 a x : (a * x) * (a * x) <= (a * a) * (x * x).
Proof. right. ring. Qed.
Lemma cs4 a b c d x y z w :
  (a * x + b * y + c * z + d * w) * (a * x + b * y + c * z + d * w) <= (a * a + b * b + c * c + d * d) * (x * x + y * y + z * z + w * w).
Proof.
  assert (E : (a * a + b * b + c * c + d * d) * (x * x + y * y + z * z + w * w)
              - (a * x + b * y + c * z + d * w) * (a * x + b * y + c * z + d * w)
              = (a * y - b * x) * (a * y - b * x) + (a * z - c * x) * (a * z - c * x) + (a * w - d * x) * (a * w - d * x)
                + (b * z - c * y) * (b * z - c * y) + (b * w - d * y) * (b * w - d * y) + (c * w - d * z) * (c * w - d * z)) by ring.
  pose proof (sq_nonneg (a * y - b * x)). pose proof (sq_nonneg (a * z - c * x)). pose proof (sq_nonneg (a * w - d * x)).
  pose proof (sq_nonneg (b * z - c * y)). pose proof (sq_nonneg (b * w - d * y)). pose proof (sq_nonneg (c * w - d * z)). lra.
Qed.

Ltac sos_pos :=
  repeat match goal with
  | |- context [?x * ?x] => lazymatch goal with | _ : 0 <= x * x |- _ => fail | _ => pose proof (sq_nonneg x) end
  end; lra.

(* =================== vectors =================== *)
Local Notation O := OpsR.
Local Notation T := TrigR.

(* ---- magnitude ---- *)
Lemma v1_magnitude_spec v : v1_magnitude O T v * v1_magnitude O T v = v1_magnitude2 O v /\ 0 <= v1_magnitude2 O v /\ 0 <= v1_magnitude O T v.
Proof. destruct v as [a]. unfold_metric. unfold_model. simpl_R. pose proof (ss1 a). repeat split; [apply sqrt_sq; lra|lra|apply sqrt_pos]. Qed.
Lemma v2_magnitude_spec v : v2_magnitude O T v * v2_magnitude O T v = v2_magnitude2 O v /\ 0 <= v2_magnitude2 O v /\ 0 <= v2_magnitude O T v.
Proof. destruct v as [a b]. unfold_metric. unfold_model. simpl_R. pose proof (ss2 a b). repeat split; [apply sqrt_sq; lra|lra|apply sqrt_pos]. Qed.
Lemma v3_magnitude_spec v : v3_magnitude O T v * v3_magnitude O T v = v3_magnitude2 O v /\ 0 <= v3_magnitude2 O v /\ 0 <= v3_magnitude O T v.
Proof. destruct v as [a b c]. unfold_metric. unfold_model. simpl_R. pose proof (ss3 a b c). repeat split; [apply sqrt_sq; lra|lra|apply sqrt_pos]. Qed.
Lemma v4_magnitude_spec v : v4_magnitude O T v * v4_magnitude O T v = v4_magnitude2 O v /\ 0 <= v4_magnitude2 O v /\ 0 <= v4_magnitude O T v.
Proof. destruct v as [a b c d]. unfold_metric. unfold_model. simpl_R. pose proof (ss4 a b c d). repeat split; [apply sqrt_sq; lra|lra|apply sqrt_pos]. Qed.
Lemma quat_magnitude_spec q : quat_magnitude O T q * quat_magnitude O T q = quat_magnitude2 O q /\ 0 <= quat_magnitude2 O q /\ 0 <= quat_magnitude O T q.
Proof.
  destruct q as [[a b c] s]. unfold_metric. unfold_quat. unfold_model. simpl_R.
  assert (0 <= s * s + (a * a + b * b + c * c)) by (pose proof (ss4 s a b c); lra).
  repeat split; [apply sqrt_sq; lra|lra|apply sqrt_pos].
Qed.

(* ---- distance ---- *)
Lemma v1_distance_spec a b : v1_distance O T a b = v1_distance O T b a /\ v1_distance O T a b = v1_magnitude O T (v1_sub O a b) /\
  v1_distance O T a b * v1_distance O T a b = v1_distance2 O a b.
Proof.
  destruct a as [a0], b as [b0]. unfold_metric. unfold_model. simpl_R.
  repeat split; try (f_equal; ring). apply sqrt_sq. sos_pos.
Qed.
Lemma v2_distance_spec a b : v2_distance O T a b = v2_distance O T b a /\ v2_distance O T a b = v2_magnitude O T (v2_sub O a b) /\
  v2_distance O T a b * v2_distance O T a b = v2_distance2 O a b.
Proof.
  destruct a as [a0 a1], b as [b0 b1]. unfold_metric. unfold_model. simpl_R.
  repeat split; try (f_equal; ring). apply sqrt_sq. sos_pos.
Qed.
Lemma v3_distance_spec a b : v3_distance O T a b = v3_distance O T b a /\ v3_distance O T a b = v3_magnitude O T (v3_sub O a b) /\
  v3_distance O T a b * v3_distance O T a b = v3_distance2 O a b.
Proof.
  destruct a as [a0 a1 a2], b as [b0 b1 b2]. unfold_metric. unfold_model. simpl_R.
  repeat split; try (f_equal; ring). apply sqrt_sq. sos_pos.
Qed.
Lemma v4_distance_spec a b : v4_distance O T a b = v4_distance O T b a /\ v4_distance O T a b = v4_magnitude O T (v4_sub O a b) /\
  v4_distance O T a b * v4_distance O T a b = v4_distance2 O a b.
Proof.
  destruct a as [a0 a1 a2 a3], b as [b0 b1 b2 b3]. unfold_metric. unfold_model. simpl_R.
  repeat split; try (f_equal; ring). apply sqrt_sq. pose proof (ss4 (b0 - a0) (b1 - a1) (b2 - a2) (b3 - a3)). lra.
Qed.
Lemma p1_distance_spec a b : p1_distance O T a b = p1_distance O T b a /\ p1_distance O T a b = v1_magnitude O T (p1_sub_p O a b) /\
  p1_distance O T a b * p1_distance O T a b = p1_distance2 O a b.
Proof.
  destruct a as [a0], b as [b0]. unfold_metric. unfold_model. simpl_R.
  repeat split; try (f_equal; ring). apply sqrt_sq. sos_pos.
Qed.
Lemma p2_distance_spec a b : p2_distance O T a b = p2_distance O T b a /\ p2_distance O T a b = v2_magnitude O T (p2_sub_p O a b) /\
  p2_distance O T a b * p2_distance O T a b = p2_distance2 O a b.
Proof.
  destruct a as [a0 a1], b as [b0 b1]. unfold_metric. unfold_model. simpl_R.
  repeat split; try (f_equal; ring). apply sqrt_sq. sos_pos.
Qed.
Lemma p3_distance_spec a b : p3_distance O T a b = p3_distance O T b a /\ p3_distance O T a b = v3_magnitude O T (p3_sub_p O a b) /\
  p3_distance O T a b * p3_distance O T a b = p3_distance2 O a b.
Proof.
  destruct a as [a0 a1 a2], b as [b0 b1 b2]. unfold_metric. unfold_model. simpl_R.
  repeat split; try (f_equal; ring). apply sqrt_sq. sos_pos.
Qed.
Lemma quat_distance_spec a b : quat_distance O T a b = quat_distance O T b a /\ quat_distance O T a b = quat_magnitude O T (quat_sub O a b) /\
  quat_distance O T a b * quat_distance O T a b = quat_distance2 O a b.
Proof.
  destruct a as [[a0 a1 a2] sa], b as [[b0 b1 b2] sb]. unfold_metric. unfold_quat. unfold_model. simpl_R.
  repeat split; try (f_equal; ring). apply sqrt_sq. pose proof (ss4 (sb - sa) (b0 - a0) (b1 - a1) (b2 - a2)). lra.
Qed.

(* ---- normalize_to / normalize ---- *)
Lemma v1_normalize_to_spec v m : 0 < v1_magnitude2 O v ->
  v1_magnitude O T (v1_normalize_to O T v m) = Rabs m /\
  (exists k, v1_normalize_to O T v m = v1_mul_s O v k /\ (0 < m -> 0 < k)) /\ v1_normalize O T v = v1_normalize_to O T v 1.
Proof.
  intros H. destruct (scale_to_length _ m H) as [A [B C]]. split; [|split; [|reflexivity]].
  - rewrite <- A. destruct v as [a]. unfold_metric. unfold_model. simpl_R. f_equal. ring.
  - exists (m / v1_magnitude O T v). split; [reflexivity|exact B].
Qed.
Lemma v2_normalize_to_spec v m : 0 < v2_magnitude2 O v ->
  v2_magnitude O T (v2_normalize_to O T v m) = Rabs m /\
  (exists k, v2_normalize_to O T v m = v2_mul_s O v k /\ (0 < m -> 0 < k)) /\ v2_normalize O T v = v2_normalize_to O T v 1.
Proof.
  intros H. destruct (scale_to_length _ m H) as [A [B C]]. split; [|split; [|reflexivity]].
  - rewrite <- A. destruct v as [a b]. unfold_metric. unfold_model. simpl_R. f_equal. ring.
  - exists (m / v2_magnitude O T v). split; [reflexivity|exact B].
Qed.
Lemma v3_normalize_to_spec v m : 0 < v3_magnitude2 O v ->
  v3_magnitude O T (v3_normalize_to O T v m) = Rabs m /\
  (exists k, v3_normalize_to O T v m = v3_mul_s O v k /\ (0 < m -> 0 < k)) /\ v3_normalize O T v = v3_normalize_to O T v 1.
Proof.
  intros H. destruct (scale_to_length _ m H) as [A [B C]]. split; [|split; [|reflexivity]].
  - rewrite <- A. destruct v as [a b c]. unfold_metric. unfold_model. simpl_R. f_equal. ring.
  - exists (m / v3_magnitude O T v). split; [reflexivity|exact B].
Qed.
Lemma v4_normalize_to_spec v m : 0 < v4_magnitude2 O v ->
  v4_magnitude O T (v4_normalize_to O T v m) = Rabs m /\
  (exists k, v4_normalize_to O T v m = v4_mul_s O v k /\ (0 < m -> 0 < k)) /\ v4_normalize O T v = v4_normalize_to O T v 1.
Proof.
  intros H. destruct (scale_to_length _ m H) as [A [B C]]. split; [|split; [|reflexivity]].
  - rewrite <- A. destruct v as [a b c d]. unfold_metric. unfold_model. simpl_R. f_equal. ring.
  - exists (m / v4_magnitude O T v). split; [reflexivity|exact B].
Qed.
Lemma quat_normalize_to_spec q m : 0 < quat_magnitude2 O q ->
  quat_magnitude O T (quat_normalize_to O T q m) = Rabs m /\
  (exists k, quat_normalize_to O T q m = quat_mul_s O q k /\ (0 < m -> 0 < k)) /\ quat_normalize O T q = quat_normalize_to O T q 1.
Proof.
  intros H. destruct (scale_to_length _ m H) as [A [B C]]. split; [|split; [|reflexivity]].
  - rewrite <- A. destruct q as [[a b c] s]. unfold_metric. unfold_quat. unfold_model. simpl_R. f_equal. ring.
  - exists (m / quat_magnitude O T q). split; [reflexivity|exact B].
Qed.
Lemma Rabs_1 : Rabs 1 = 1. Proof. apply Rabs_pos_eq. lra. Qed.

(* ---- angle ---- *)
Lemma v1_angle_spec a b : 0 < v1_magnitude2 O a -> 0 < v1_magnitude2 O b ->
  v1_magnitude O T a * v1_magnitude O T b * cos (v1_angle O T a b) = v1_dot O a b /\ 0 <= v1_angle O T a b <= PI /\
  v1_angle O T a b = v1_angle O T b a.
Proof.
  intros Ha Hb. destruct a as [a0], b as [b0]. unfold_metric. unfold_model. simpl_R.
  unfold v1_magnitude2, v1_dot in *. unfold_model. simpl_R.
  destruct (angle_acos (a0 * a0) (b0 * b0) (a0 * b0) Ha Hb (cs1 a0 b0)) as [A B].
  split; [exact A|]. split; [exact B|]. f_equal. f_equal; ring.
Qed.
Lemma v4_angle_spec a b : 0 < v4_magnitude2 O a -> 0 < v4_magnitude2 O b ->
  v4_magnitude O T a * v4_magnitude O T b * cos (v4_angle O T a b) = v4_dot O a b /\ 0 <= v4_angle O T a b <= PI /\
  v4_angle O T a b = v4_angle O T b a.
Proof.
  intros Ha Hb. destruct a as [a0 a1 a2 a3], b as [b0 b1 b2 b3]. unfold_metric. unfold_model. simpl_R.
  unfold v4_magnitude2, v4_dot in *. unfold_model. simpl_R.
  assert (CS := cs4 a0 a1 a2 a3 b0 b1 b2 b3).
  match goal with |- context [acos (?d / (sqrt ?a2 * sqrt ?b2))] =>
    assert (Hcs : d * d <= a2 * b2) by (eapply Rle_trans; [|eapply Rle_trans; [exact CS|]]; right; ring);
    destruct (angle_acos a2 b2 d Ha Hb Hcs) as [A B] end.
  split; [exact A|]. split; [exact B|]. f_equal. f_equal; ring.
Qed.
Lemma quat_angle_spec a b : 0 < quat_magnitude2 O a -> 0 < quat_magnitude2 O b ->
  quat_magnitude O T a * quat_magnitude O T b * cos (quat_angle O T a b) = quat_dot O a b /\ 0 <= quat_angle O T a b <= PI /\
  quat_angle O T a b = quat_angle O T b a.
Proof.
  intros Ha Hb. destruct a as [[a1 a2 a3] a0], b as [[b1 b2 b3] b0]. unfold_metric. unfold_quat. unfold_model. simpl_R.
  unfold quat_magnitude2, quat_dot in *. unfold_metric. unfold_quat. unfold_model. simpl_R.
  assert (CS := cs4 a0 a1 a2 a3 b0 b1 b2 b3).
  match goal with |- context [acos (?d / (sqrt ?a2 * sqrt ?b2))] =>
    assert (Hcs : d * d <= a2 * b2) by (eapply Rle_trans; [|eapply Rle_trans; [exact CS|]]; right; ring);
    destruct (angle_acos a2 b2 d Ha Hb Hcs) as [A B] end.
  split; [exact A|]. split; [exact B|]. f_equal. f_equal; ring.
Qed.
(* 3-D: atan2(|a x b|, a.b) *)
Lemma v3_angle_spec a b : 0 < v3_magnitude2 O a -> 0 < v3_magnitude2 O b ->
  v3_magnitude O T a * v3_magnitude O T b * cos (v3_angle O T a b) = v3_dot O a b /\ 0 <= v3_angle O T a b <= PI /\
  v3_angle O T a b = v3_angle O T b a /\
  v3_magnitude O T a * v3_magnitude O T b * sin (v3_angle O T a b) = v3_magnitude O T (v3_cross O a b).
Proof.
  intros Ha Hb. destruct a as [a0 a1 a2], b as [b0 b1 b2]. unfold_metric. unfold_model. simpl_R.
  unfold v3_magnitude2, v3_dot in *. unfold_model. simpl_R.
  match goal with |- context [Ratan2 (sqrt ?c2) ?x] =>
    match type of Ha with 0 < ?a2 => match type of Hb with 0 < ?b2 =>
      assert (C0 : 0 <= c2) by sos_pos;
      assert (L : x * x + sqrt c2 * sqrt c2 = a2 * b2) by (rewrite sqrt_sq by exact C0; ring);
      destruct (angle_atan2 a2 b2 x (sqrt c2) Ha Hb L) as [A [B [C D]]]
    end end end.
  split; [exact A|]. split; [apply D; apply sqrt_pos|]. split; [|exact B].
  f_equal; [f_equal; ring|ring].
Qed.
(* 2-D: the signed counter-clockwise angle from a to b: atan2(perp_dot, dot) *)
Lemma v2_angle_spec a b : 0 < v2_magnitude2 O a -> 0 < v2_magnitude2 O b ->
  let t := v2_angle O T a b in
  v2_magnitude O T a * v2_magnitude O T b * cos t = v2_dot O a b /\
  v2_magnitude O T a * v2_magnitude O T b * sin t = v2_perp_dot O a b /\
  - PI <= t <= PI /\
  (* rotating a counter-clockwise by t gives the direction of b *)
  v2_mul_s O (mkV2 (v2x a * cos t - v2y a * sin t) (v2x a * sin t + v2y a * cos t)) (v2_magnitude O T b) = v2_mul_s O b (v2_magnitude O T a).
Proof.
  intros Ha Hb. destruct a as [a0 a1], b as [b0 b1]. unfold_metric. unfold_model. simpl_R.
  unfold v2_magnitude2, v2_dot in *. unfold_model. simpl_R. cbv zeta.
  match goal with |- context [Ratan2 ?y ?x] =>
    match type of Ha with 0 < ?a2 => match type of Hb with 0 < ?b2 =>
      assert (L : x * x + y * y = a2 * b2) by ring;
      destruct (angle_atan2 a2 b2 x y Ha Hb L) as [A [B [C D]]]
    end end end.
  set (t := Ratan2 _ _) in *.
  split; [exact A|]. split; [exact B|]. split; [exact C|].
  assert (Sa : sqrt (a0 * a0 + a1 * a1) * sqrt (a0 * a0 + a1 * a1) = a0 * a0 + a1 * a1) by (apply sqrt_sq; lra).
  assert (Sb : sqrt (b0 * b0 + b1 * b1) * sqrt (b0 * b0 + b1 * b1) = b0 * b0 + b1 * b1) by (apply sqrt_sq; lra).
  assert (Pa : 0 < sqrt (a0 * a0 + a1 * a1)) by (apply sqrt_lt_R0; exact Ha).
  set (na := sqrt (a0 * a0 + a1 * a1)) in *. set (nb := sqrt (b0 * b0 + b1 * b1)) in *.
  set (c := cos t) in *. set (s := sin t) in *.
  (* multiply both sides by na (non-zero) and use A, B *)
  f_equal.
  - apply Rmult_eq_reg_l with na; [|lra].
    replace (na * ((a0 * c - a1 * s) * nb)) with (a0 * (na * nb * c) - a1 * (na * nb * s)) by ring.
    rewrite A, B. replace (na * (b0 * na)) with (b0 * (na * na)) by ring. rewrite Sa. ring.
  - apply Rmult_eq_reg_l with na; [|lra].
    replace (na * ((a0 * s + a1 * c) * nb)) with (a0 * (na * nb * s) + a1 * (na * nb * c)) by ring.
    rewrite A, B. replace (na * (b1 * na)) with (b1 * (na * na)) by ring. rewrite Sa. ring.
Qed.

(* ---- project_on (any field): parallel to b, remainder orthogonal to b ---- *)
Section Proj.
  Variable F : Type.
  Variable P : Ops F.
  Hypothesis Fth : field_theory (zero P) (one P) (add P) (mul P) (sub P) (opp P) (div P) (inv P) eq.
  Add Field PF : Fth.
  Lemma v1_project_on_spec a b : v1_magnitude2 P b <> zero P ->
    v1_project_on P a b = v1_mul_s P b (div P (v1_dot P a b) (v1_magnitude2 P b)) /\ v1_dot P (v1_sub P a (v1_project_on P a b)) b = zero P.
  Proof. intros H. split; [reflexivity|]. destruct a, b. unfold_model. unfold v1_magnitude2, v1_dot in H. unfold_model. field; first [exact H | intro E; apply H; rewrite <- E; ring | intro E; apply H; rewrite E; ring]. Qed.
  Lemma v2_project_on_spec a b : v2_magnitude2 P b <> zero P ->
    v2_project_on P a b = v2_mul_s P b (div P (v2_dot P a b) (v2_magnitude2 P b)) /\ v2_dot P (v2_sub P a (v2_project_on P a b)) b = zero P.
  Proof. intros H. split; [reflexivity|]. destruct a, b. unfold_model. unfold v2_magnitude2, v2_dot in H. unfold_model. field; first [exact H | intro E; apply H; rewrite <- E; ring | intro E; apply H; rewrite E; ring]. Qed.
  Lemma v3_project_on_spec a b : v3_magnitude2 P b <> zero P ->
    v3_project_on P a b = v3_mul_s P b (div P (v3_dot P a b) (v3_magnitude2 P b)) /\ v3_dot P (v3_sub P a (v3_project_on P a b)) b = zero P.
  Proof. intros H. split; [reflexivity|]. destruct a, b. unfold_model. unfold v3_magnitude2, v3_dot in H. unfold_model. field; first [exact H | intro E; apply H; rewrite <- E; ring | intro E; apply H; rewrite E; ring]. Qed.
  Lemma v4_project_on_spec a b : v4_magnitude2 P b <> zero P ->
    v4_project_on P a b = v4_mul_s P b (div P (v4_dot P a b) (v4_magnitude2 P b)) /\ v4_dot P (v4_sub P a (v4_project_on P a b)) b = zero P.
  Proof. intros H. split; [reflexivity|]. destruct a, b. unfold_model. unfold v4_magnitude2, v4_dot in H. unfold_model. field; first [exact H | intro E; apply H; rewrite <- E; ring | intro E; apply H; rewrite E; ring]. Qed.
  Lemma quat_project_on_spec a b : quat_magnitude2 P b <> zero P ->
    quat_project_on P a b = quat_mul_s P b (div P (quat_dot P a b) (quat_magnitude2 P b)) /\ quat_dot P (quat_sub P a (quat_project_on P a b)) b = zero P.
  Proof.
    intros H. split; [reflexivity|]. destruct a as [[a1 a2 a3] a0], b as [[b1 b2 b3] b0].
    unfold quat_magnitude2, quat_dot in H. unfold_metric. unfold_quat. unfold_model. cbn [qs qv] in *. unfold_model. field; first [exact H | intro E; apply H; rewrite <- E; ring | intro E; apply H; rewrite E; ring].
  Qed.
End Proj.

From CG Require Import Exec.ExecQ.
From Coq Require Import QArith Qcanon.
Lemma nonzero_examples : (0 < v3_magnitude2 OpsR (mkV3 2 3 6))%R /\ Field OpsQ /\ v2_magnitude2 OpsQ (mkV2 (Q2Qc 3) (Q2Qc 4)) <> zero OpsQ.
Proof.
  split; [|split; [exact Field_Qc|]].
  - unfold v3_magnitude2, v3_dot. unfold_model. simpl_R. lra.
  - intro E. vm_compute in E. discriminate E.
Qed.
