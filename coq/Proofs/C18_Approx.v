(* Proofs/C18_Approx.v — approximate-equality and predicate methods test every component (property C18).
   For an ARBITRARY scalar relation sc. *)
From Coq Require Import List Bool Arith Lia.
From CG Require Import Scalar Model.Vector Model.Point Model.Matrix Model.Angle Model.Quaternion Model.Euler Model.Transform Model.Approx
                       Proofs.Tac Proofs.C01_Matrix.
Import ListNotations.
Set Implicit Arguments.

(* textbook: all corresponding components are related *)
Fixpoint all2 (A : Type) (r : A -> A -> bool) (l1 l2 : list A) : bool :=
  match l1, l2 with
  | [], [] => true
  | a :: l1', b :: l2' => r a b && all2 r l1' l2'
  | _, _ => false
  end.

Definition offdiag (n : nat) : list (nat * nat) :=
  filter (fun cr => negb (Nat.eqb (fst cr) (snd cr))) (list_prod (seq 0 n) (seq 0 n)).

Ltac unfold_cmp :=
  cbv [v1_cmp v2_cmp v3_cmp v4_cmp p1_cmp p2_cmp p3_cmp m2_cmp m3_cmp m4_cmp quat_cmp euler_cmp ang_cmp basis2_cmp basis3_cmp
       v1_is_finite v2_is_finite v3_is_finite v4_is_finite p1_is_finite p2_is_finite p3_is_finite
       m2_is_finite m3_is_finite m4_is_finite quat_is_finite
       m2_is_diagonal m3_is_diagonal m4_is_diagonal m2_is_symmetric m3_is_symmetric m4_is_symmetric
       all2 forallb offdiag filter list_prod seq map app fst snd Nat.eqb negb flat_map
       e2 e3 e4 oget m2_e m3_e m4_e m2_col m3_col m4_col v2_get v3_get v4_get
       v1_list v2_list v3_list v4_list p1_list p2_list p3_list m2_list m3_list m4_list quat_sxyz euler_list
       v1x v2x v2y v3x v3y v3z v4x v4y v4z v4w p1x p2x p2y p3x p3y p3z m2x m2y m3x m3y m3z m4x m4y m4z m4w qv qs ex ey ez] in *.
Ltac chain := intros; destruct_quats; unfold_cmp; repeat rewrite ?andb_true_r, <- ?andb_assoc; reflexivity.

Section Chain.
  Variable F : Type.
  Variable sc : F -> F -> bool.

  Lemma v1_cmp_all a b : v1_cmp sc a b = all2 sc (v1_list a) (v1_list b). Proof. chain. Qed.
  Lemma v2_cmp_all a b : v2_cmp sc a b = all2 sc (v2_list a) (v2_list b). Proof. chain. Qed.
  Lemma v3_cmp_all a b : v3_cmp sc a b = all2 sc (v3_list a) (v3_list b). Proof. chain. Qed.
  Lemma v4_cmp_all a b : v4_cmp sc a b = all2 sc (v4_list a) (v4_list b). Proof. chain. Qed.
  Lemma p1_cmp_all a b : p1_cmp sc a b = all2 sc (p1_list a) (p1_list b). Proof. chain. Qed.
  Lemma p2_cmp_all a b : p2_cmp sc a b = all2 sc (p2_list a) (p2_list b). Proof. chain. Qed.
  Lemma p3_cmp_all a b : p3_cmp sc a b = all2 sc (p3_list a) (p3_list b). Proof. chain. Qed.
  Lemma m2_cmp_all a b : m2_cmp sc a b = all2 sc (m2_list a) (m2_list b). Proof. chain. Qed.
  Lemma m3_cmp_all a b : m3_cmp sc a b = all2 sc (m3_list a) (m3_list b). Proof. chain. Qed.
  Lemma m4_cmp_all a b : m4_cmp sc a b = all2 sc (m4_list a) (m4_list b). Proof. chain. Qed.
  Lemma quat_cmp_all a b : quat_cmp sc a b = all2 sc (quat_sxyz a) (quat_sxyz b). Proof. chain. Qed.
  Lemma euler_cmp_all a b : euler_cmp sc a b = all2 sc (euler_list a) (euler_list b).
  Proof. destruct a, b. unfold_cmp. rewrite andb_true_r, <- andb_assoc. reflexivity. Qed.
  Lemma ang_cmp_all a b : ang_cmp sc a b = all2 sc [a] [b]. Proof. cbn. rewrite andb_true_r. reflexivity. Qed.
  Lemma dec_cmp_all (R V : Type) (rc : R -> R -> bool) (vc : V -> V -> bool) (a b : Decomposed F R V) :
    dec_cmp sc rc vc a b = (sc (d_scale a) (d_scale b) && (rc (d_rot a) (d_rot b) && vc (d_disp a) (d_disp b))).
  Proof. unfold dec_cmp. rewrite andb_assoc. reflexivity. Qed.

  (* consequences: one differing component makes the values unequal; reflexive / symmetric when sc is *)
  Lemma all2_false_at l1 l2 i d : i < length l1 -> length l1 = length l2 -> sc (nth i l1 d) (nth i l2 d) = false -> all2 sc l1 l2 = false.
  Proof.
    revert l2 i. induction l1 as [|a l1 IH]; intros [|b l2] i Hi Hl Hs; cbn in *; try lia.
    destruct i as [|i]; [rewrite Hs; reflexivity|]. rewrite (IH l2 i); [apply andb_false_r|lia|lia|exact Hs].
  Qed.
  Lemma all2_true_iff l1 l2 d : length l1 = length l2 ->
    (all2 sc l1 l2 = true <-> forall i, i < length l1 -> sc (nth i l1 d) (nth i l2 d) = true).
  Proof.
    revert l2. induction l1 as [|a l1 IH]; intros [|b l2] Hl; cbn in *; try lia.
    - split; [intros _ i Hi; lia|reflexivity].
    - rewrite andb_true_iff, (IH l2) by lia. split.
      + intros [H1 H2] [|i] Hi; [exact H1|apply H2; lia].
      + intros H. split; [apply (H 0); lia|intros i Hi; apply (H (S i)); lia].
  Qed.
  Lemma all2_refl l : (forall x, sc x x = true) -> all2 sc l l = true.
  Proof. intros H. induction l as [|a l IH]; cbn; [reflexivity|rewrite H, IH; reflexivity]. Qed.
  Lemma all2_sym l1 l2 : (forall x y, sc x y = sc y x) -> all2 sc l1 l2 = all2 sc l2 l1.
  Proof. intros H. revert l2. induction l1 as [|a l1 IH]; intros [|b l2]; cbn; try reflexivity. rewrite H, IH. reflexivity. Qed.
End Chain.

Section Pred.
  Variable F : Type.
  Variable O : Ops F.
  Variable A : Approx F.
  Local Notation E2 := (e2 (zero O)).
  Local Notation E3 := (e3 (zero O)).
  Local Notation E4 := (e4 (zero O)).

  (* is_finite = every component finite *)
  Lemma is_finite_all :
    (forall v, v1_is_finite A v = forallb (is_finite A) (v1_list v)) /\ (forall v, v2_is_finite A v = forallb (is_finite A) (v2_list v)) /\
    (forall v, v3_is_finite A v = forallb (is_finite A) (v3_list v)) /\ (forall v, v4_is_finite A v = forallb (is_finite A) (v4_list v)) /\
    (forall v, p1_is_finite A v = forallb (is_finite A) (p1_list v)) /\ (forall v, p2_is_finite A v = forallb (is_finite A) (p2_list v)) /\
    (forall v, p3_is_finite A v = forallb (is_finite A) (p3_list v)) /\
    (forall m, m2_is_finite A m = forallb (is_finite A) (m2_list m)) /\ (forall m, m3_is_finite A m = forallb (is_finite A) (m3_list m)) /\
    (forall m, m4_is_finite A m = forallb (is_finite A) (v4_list (m4w m) ++ v4_list (m4x m) ++ v4_list (m4y m) ++ v4_list (m4z m))) /\
    (forall q, quat_is_finite A q = forallb (is_finite A) (quat_sxyz q)).
  Proof. repeat split; chain. Qed.
  Lemma is_diagonal_spec :
    (forall m, m2_is_diagonal O A m = forallb (fun cr => s_ulps_d A (E2 m (fst cr) (snd cr)) (zero O)) (offdiag 2)) /\
    (forall m, m3_is_diagonal O A m = forallb (fun cr => s_ulps_d A (E3 m (fst cr) (snd cr)) (zero O)) (offdiag 3)) /\
    (forall m, m4_is_diagonal O A m = forallb (fun cr => s_ulps_d A (E4 m (fst cr) (snd cr)) (zero O)) (offdiag 4)).
  Proof. repeat split; chain. Qed.
  Lemma is_symmetric_spec :
    (forall m, m2_is_symmetric A m = forallb (fun cr => s_ulps_d A (E2 m (fst cr) (snd cr)) (E2 m (snd cr) (fst cr))) (offdiag 2)) /\
    (forall m, m3_is_symmetric A m = forallb (fun cr => s_ulps_d A (E3 m (fst cr) (snd cr)) (E3 m (snd cr) (fst cr))) (offdiag 3)) /\
    (forall m, m4_is_symmetric A m = forallb (fun cr => s_ulps_d A (E4 m (fst cr) (snd cr)) (E4 m (snd cr) (fst cr))) (offdiag 4)).
  Proof. repeat split; chain. Qed.
  Lemma is_identity_zero_spec :
    (forall m, m2_is_identity O A m = all2 (s_ulps_m O A) (m2_list m) (m2_list (m2_identity O))) /\
    (forall m, m3_is_identity O A m = all2 (s_ulps_m O A) (m3_list m) (m3_list (m3_identity O))) /\
    (forall m, m4_is_identity O A m = all2 (s_ulps_m O A) (m4_list m) (m4_list (m4_identity O))) /\
    (forall m, m2_is_zero O A m = all2 (s_ulps_m O A) (m2_list m) (m2_list (m2_zero O))) /\
    (forall m, m3_is_zero O A m = all2 (s_ulps_m O A) (m3_list m) (m3_list (m3_zero O))) /\
    (forall m, m4_is_zero O A m = all2 (s_ulps_m O A) (m4_list m) (m4_list (m4_zero O))) /\
    (forall q, quat_is_zero O A q = all2 (s_ulps_d A) (quat_sxyz q) (quat_sxyz (quat_zero O))) /\
    (forall v, v1_is_zero O v = all2 (eqb O) (v1_list v) (v1_list (v1_zero O))) /\
    (forall v, v2_is_zero O v = all2 (eqb O) (v2_list v) (v2_list (v2_zero O))) /\
    (forall v, v3_is_zero O v = all2 (eqb O) (v3_list v) (v3_list (v3_zero O))) /\
    (forall v, v4_is_zero O v = all2 (eqb O) (v4_list v) (v4_list (v4_zero O))) /\
    (forall a, ang_is_zero O A a = s_ulps_d A a (zero O)).
  Proof.
    repeat split; intros;
      try (unfold m2_is_identity, m3_is_identity, m4_is_identity, m2_is_zero, m3_is_zero, m4_is_zero, quat_is_zero,
                  v1_is_zero, v2_is_zero, v3_is_zero, v4_is_zero;
           first [apply m2_cmp_all|apply m3_cmp_all|apply m4_cmp_all|apply quat_cmp_all|apply v1_cmp_all|apply v2_cmp_all|apply v3_cmp_all|apply v4_cmp_all]);
      reflexivity.
  Qed.
  Lemma is_invertible_perpendicular_spec :
    (forall m, m2_is_invertible O A m = negb (s_ulps_d A (m2_determinant O m) (zero O))) /\
    (forall m, m3_is_invertible O A m = negb (s_ulps_d A (m3_determinant O m) (zero O))) /\
    (forall m, m4_is_invertible O A m = negb (s_ulps_d A (m4_determinant O m) (zero O))) /\
    (forall a b, v1_is_perpendicular O A a b = s_ulps_d A (v1_dot O a b) (zero O)) /\
    (forall a b, v2_is_perpendicular O A a b = s_ulps_d A (v2_dot O a b) (zero O)) /\
    (forall a b, v3_is_perpendicular O A a b = s_ulps_d A (v3_dot O a b) (zero O)) /\
    (forall a b, v4_is_perpendicular O A a b = s_ulps_d A (v4_dot O a b) (zero O)) /\
    (forall a b, quat_is_perpendicular O A a b = s_ulps_d A (quat_dot O a b) (zero O)).
  Proof. repeat split. Qed.
End Pred.
