(* Proofs/C13_Float.v — the clauses of C13 that are about the native float types, over Flocq's
   rounding model: binary32 / binary64 as FLT formats with round-to-nearest-even, unbounded exponent
   range upwards (no overflow), operations = rounding of the exact result, `%` (fmod) exact.

   - Deg -> Rad -> Deg and Rad -> Deg -> Rad return the argument within 4 machine epsilons, with the
     exact constants the implementation passes to `cast` (tied to /repo by the constants cases of the
     correspondence);
   - normalize stays in [0, full turn] and normalize_signed in [-half, half] for every input.
   Uses `interval` for closed numeric facts only. *)
From Coq Require Import Reals Lra Lia Psatz ZArith.
From Flocq Require Import Core Relative.
From Interval Require Import Tactic.
From CG Require Import Proofs.RealInst.
Local Open Scope R_scope.

Section Fmt.
  Variables emin prec : Z.
  Context {prec_gt_0_ : Prec_gt_0 prec}.
  Local Notation fexp := (FLT_exp emin prec).
  Definition rnd := round radix2 fexp ZnearestE.
  Definition fmt := generic_format radix2 fexp.
  Definition u := / 2 * bpow radix2 (- prec + 1).

  Lemma u_le_half : 0 < u <= / 2.
  Proof.
    unfold u. split.
    - apply Rmult_lt_0_compat; [lra|apply bpow_gt_0].
    - assert (bpow radix2 (- prec + 1) <= bpow radix2 0) by (apply bpow_le; unfold Prec_gt_0 in prec_gt_0_; lia).
      simpl in H. lra.
  Qed.

  Lemma rnd_mono x y : x <= y -> rnd x <= rnd y.
  Proof. intros H. apply round_le; auto with typeclass_instances. Qed.
  Lemma rnd_id x : fmt x -> rnd x = x.
  Proof. intros H. apply round_generic; auto with typeclass_instances. Qed.
  Lemma rnd_0 : rnd 0 = 0.
  Proof. apply round_0; auto with typeclass_instances. Qed.
  Lemma fmt_opp x : fmt x -> fmt (- x).
  Proof. apply generic_format_opp. Qed.

  (* two multiplications by constants of moderate size, each rounded *)
  Lemma roundtrip_rel c1 c2 x :
    / 64 <= c1 <= 64 -> / 64 <= c2 <= 64 ->
    bpow radix2 (emin + prec - 1) * 8192 <= Rabs x ->
    exists e1 e2, Rabs e1 <= u /\ Rabs e2 <= u /\
      rnd (rnd (x * c1) * c2) = x * c1 * (1 + e1) * c2 * (1 + e2).
  Proof.
    intros H1 H2 Hx.
    assert (Hb : 0 < bpow radix2 (emin + prec - 1)) by apply bpow_gt_0.
    set (B := bpow radix2 (emin + prec - 1)) in *.
    destruct (relative_error_N_FLT_ex radix2 emin prec prec_gt_0_ (fun z => negb (Z.even z)) (x * c1)) as [e1 [He1 E1]].
    { fold B. rewrite Rabs_mult. rewrite (Rabs_pos_eq c1) by lra. nra. }
    fold rnd in E1. fold u in He1.
    destruct (relative_error_N_FLT_ex radix2 emin prec prec_gt_0_ (fun z => negb (Z.even z)) (rnd (x * c1) * c2)) as [e2 [He2 E2]].
    { fold B. rewrite E1. rewrite !Rabs_mult. rewrite (Rabs_pos_eq c1), (Rabs_pos_eq c2) by lra.
      pose proof u_le_half as [U0 U1].
      assert (Hv : / 2 <= Rabs (1 + e1)).
      { apply Rabs_le_inv in He1. rewrite Rabs_pos_eq; lra. }
      set (a := Rabs x) in *. set (v := Rabs (1 + e1)) in *. clearbody a v B.
      assert (B * 128 <= a * c1) by nra. assert (/ 128 <= v * c2) by nra. nra. }
    fold rnd in E2. fold u in He2.
    exists e1, e2. split; [exact He1|]. split; [exact He2|]. rewrite E2, E1. reflexivity.
  Qed.

  (* ---- normalisation on floats: `r` is the exact remainder (fmod is exact), the additions round ---- *)
  Definition fnormalize (T a : R) : R :=
    let r := Rrem a T in if Rlt_dec r 0 then rnd (r + T) else r.
  Definition fnormalize_signed (T a : R) : R :=
    let r := fnormalize T a in if Rlt_dec (rnd (T / 2)) r then rnd (r - T) else r.
End Fmt.

(* the remainder's range (re-proved here to keep this file independent of the C13_AngleR cone) *)
Lemma Rtrunc_nonneg' x : 0 <= x -> Rtrunc x <= x < Rtrunc x + 1.
Proof. intros H. unfold Rtrunc. destruct (Rle_dec 0 x); [|contradiction]. destruct (base_Int_part x). lra. Qed.
Lemma Rtrunc_neg' x : x < 0 -> Rtrunc x - 1 < x <= Rtrunc x.
Proof. intros H. unfold Rtrunc. destruct (Rle_dec 0 x); [lra|]. destruct (base_Int_part (- x)). lra. Qed.
Lemma Rrem_range' x T : 0 < T -> - T < Rrem x T < T.
Proof.
  intros HT. unfold Rrem. destruct (Rle_dec 0 x) as [Hx|Hx].
  - assert (H0 : 0 <= x / T) by (apply Rmult_le_pos; [lra|left; apply Rinv_0_lt_compat; lra]).
    pose proof (Rtrunc_nonneg' _ H0) as [A B].
    assert (E : x = T * (x / T)) by (field; lra).
    set (q := x / T) in *. set (k := Rtrunc q) in *. clearbody q k. subst x. nra.
  - assert (H0 : x / T < 0).
    { unfold Rdiv. assert (0 < / T) by (apply Rinv_0_lt_compat; lra). nra. }
    pose proof (Rtrunc_neg' _ H0) as [A B].
    assert (E : x = T * (x / T)) by (field; lra).
    set (q := x / T) in *. set (k := Rtrunc q) in *. clearbody q k. subst x. nra.
Qed.

Section Norm.
  Variables emin prec : Z.
  Context {prec_gt_0_ : Prec_gt_0 prec}.
  Variable T : R.
  Hypothesis Tpos : 0 < T.
  Hypothesis Tfmt : fmt emin prec T.
  Hypothesis Hfmt : fmt emin prec (T / 2).

  Theorem fnormalize_range a : 0 <= fnormalize emin prec T a <= T.
  Proof.
    unfold fnormalize. pose proof (Rrem_range' a T Tpos) as [L H].
    destruct (Rlt_dec (Rrem a T) 0) as [N|N].
    - split.
      + apply Rle_trans with (rnd emin prec 0); [rewrite rnd_0; lra|apply rnd_mono; [assumption|lra]].
      + apply Rle_trans with (rnd emin prec T); [apply rnd_mono; [assumption|lra]|rewrite (rnd_id emin prec T Tfmt); lra].
    - lra.
  Qed.
  Theorem fnormalize_signed_range a : - (T / 2) <= fnormalize_signed emin prec T a <= T / 2.
  Proof.
    unfold fnormalize_signed. pose proof (fnormalize_range a) as [L H].
    rewrite (rnd_id emin prec (T / 2) Hfmt).
    destruct (Rlt_dec (T / 2) (fnormalize emin prec T a)) as [N|N].
    - split.
      + apply Rle_trans with (rnd emin prec (- (T / 2))); [rewrite rnd_id; [lra|apply fmt_opp; exact Hfmt]|apply rnd_mono; [assumption|lra]].
      + apply Rle_trans with (rnd emin prec 0); [apply rnd_mono; [assumption|lra]|rewrite rnd_0; lra].
    - lra.
  Qed.
End Norm.

(* ---------------- binary64 / binary32 instances ---------------- *)
Global Instance p53 : Prec_gt_0 53. Proof. reflexivity. Qed.
Global Instance p24 : Prec_gt_0 24. Proof. reflexivity. Qed.
Notation rnd64 := (rnd (-1074) 53).
Notation rnd32 := (rnd (-149) 24).

Lemma fmt_intro emin prec (m e : Z) : (Z.abs m < 2 ^ prec)%Z -> (emin <= e)%Z -> fmt emin prec (IZR m * bpow radix2 e).
Proof.
  intros Hm He. apply generic_format_FLT. exists (Float radix2 m e); [reflexivity|exact Hm|exact He].
Qed.

(* the constants (exact values of what `cast` yields at the two float types) *)
Definition two_pi_64 : R := IZR 884279719003555 * bpow radix2 (-47).
Definition deg_per_rad_64 : R := IZR 1007958012753983 * bpow radix2 (-44).
Definition rad_per_deg_64 : R := IZR 5030569068109113 * bpow radix2 (-58).
Definition two_pi_32 : R := IZR 13176795 * bpow radix2 (-21).
Definition deg_per_rad_32 : R := IZR 15019745 * bpow radix2 (-18).
Definition rad_per_deg_32 : R := IZR 9370165 * bpow radix2 (-29).

Lemma half_shift m e : IZR m * bpow radix2 e / 2 = IZR m * bpow radix2 (e - 1).
Proof. unfold Zminus. rewrite bpow_plus. replace (bpow radix2 (- (1))) with (/ 2) by (simpl; lra). lra. Qed.

Ltac fmt_const := first [ rewrite half_shift | idtac ]; apply fmt_intro; [reflexivity | lia].

Lemma fmt_two_pi_64 : fmt (-1074) 53 two_pi_64 /\ fmt (-1074) 53 (two_pi_64 / 2) /\ 0 < two_pi_64.
Proof. unfold two_pi_64. repeat split; [fmt_const|fmt_const|]. apply Rmult_lt_0_compat; [apply IZR_lt; reflexivity|apply bpow_gt_0]. Qed.
Lemma fmt_two_pi_32 : fmt (-149) 24 two_pi_32 /\ fmt (-149) 24 (two_pi_32 / 2) /\ 0 < two_pi_32.
Proof. unfold two_pi_32. repeat split; [fmt_const|fmt_const|]. apply Rmult_lt_0_compat; [apply IZR_lt; reflexivity|apply bpow_gt_0]. Qed.
Lemma c360 : 360 = IZR 360 * bpow radix2 0. Proof. simpl. lra. Qed.
Lemma c180 : 360 / 2 = IZR 180 * bpow radix2 0. Proof. simpl. lra. Qed.
Lemma fmt_360_64 : fmt (-1074) 53 360 /\ fmt (-1074) 53 (360 / 2) /\ 0 < 360.
Proof. repeat split; [rewrite c360|rewrite c180|lra]; apply fmt_intro; (reflexivity || lia). Qed.
Lemma fmt_360_32 : fmt (-149) 24 360 /\ fmt (-149) 24 (360 / 2) /\ 0 < 360.
Proof. repeat split; [rewrite c360|rewrite c180|lra]; apply fmt_intro; (reflexivity || lia). Qed.

(* range membership for the four (type, unit) pairs, every input *)
Theorem normalize_range_floats a :
  (0 <= fnormalize (-1074) 53 two_pi_64 a <= two_pi_64) /\ (0 <= fnormalize (-1074) 53 360 a <= 360) /\
  (0 <= fnormalize (-149) 24 two_pi_32 a <= two_pi_32) /\ (0 <= fnormalize (-149) 24 360 a <= 360).
Proof.
  destruct fmt_two_pi_64 as [A [_ B]]. destruct fmt_two_pi_32 as [C [_ D]].
  destruct fmt_360_64 as [E [_ G]]. destruct fmt_360_32 as [H [_ I]].
  pose proof (fnormalize_range (-1074) 53 two_pi_64 B A a). pose proof (fnormalize_range (-1074) 53 360 G E a).
  pose proof (fnormalize_range (-149) 24 two_pi_32 D C a). pose proof (fnormalize_range (-149) 24 360 I H a). tauto.
Qed.
Theorem normalize_signed_range_floats a :
  (- (two_pi_64 / 2) <= fnormalize_signed (-1074) 53 two_pi_64 a <= two_pi_64 / 2) /\
  (- (360 / 2) <= fnormalize_signed (-1074) 53 360 a <= 360 / 2) /\
  (- (two_pi_32 / 2) <= fnormalize_signed (-149) 24 two_pi_32 a <= two_pi_32 / 2) /\
  (- (360 / 2) <= fnormalize_signed (-149) 24 360 a <= 360 / 2).
Proof.
  destruct fmt_two_pi_64 as [A [A' B]]. destruct fmt_two_pi_32 as [C [C' D]].
  destruct fmt_360_64 as [E [E' G]]. destruct fmt_360_32 as [H [H' I]].
  pose proof (fnormalize_signed_range (-1074) 53 two_pi_64 B A A' a). pose proof (fnormalize_signed_range (-1074) 53 360 G E E' a).
  pose proof (fnormalize_signed_range (-149) 24 two_pi_32 D C C' a). pose proof (fnormalize_signed_range (-149) 24 360 I H H' a). tauto.
Qed.

(* ---- conversion round trips ---- *)
Lemma c64_bounds : 57 <= deg_per_rad_64 <= 58 /\ / 58 <= rad_per_deg_64 <= / 57 /\
                   Rabs (deg_per_rad_64 * rad_per_deg_64 - 1) <= / IZR (2 ^ 55).
Proof.
  unfold deg_per_rad_64, rad_per_deg_64. simpl bpow. repeat split; first [interval | interval with (i_prec 120)].
Qed.
Lemma c32_bounds : 57 <= deg_per_rad_32 <= 58 /\ / 58 <= rad_per_deg_32 <= / 57 /\
                   Rabs (deg_per_rad_32 * rad_per_deg_32 - 1) <= / IZR (2 ^ 27).
Proof.
  unfold deg_per_rad_32, rad_per_deg_32. simpl bpow. repeat split; first [interval | interval with (i_prec 120)].
Qed.

Lemma close_after_roundings d e1 e2 (uu eps : R) :
  Rabs d <= uu / 2 -> Rabs e1 <= uu -> Rabs e2 <= uu -> 0 < uu <= / 1000 -> eps = 2 * uu ->
  Rabs ((1 + d) * (1 + e1) * (1 + e2) - 1) <= 4 * eps.
Proof.
  intros Hd H1 H2 Hu He. subst eps. apply Rabs_le_inv in Hd. apply Rabs_le_inv in H1. apply Rabs_le_inv in H2.
  apply Rabs_le.
  assert (A : (1 + d) * (1 + e1) * (1 + e2) - 1 = d + e1 + e2 + d * e1 + d * e2 + e1 * e2 + d * e1 * e2) by ring.
  rewrite A.
  assert (P1 : - (uu * uu) <= d * e1 <= uu * uu) by (split; nra).
  assert (P2 : - (uu * uu) <= d * e2 <= uu * uu) by (split; nra).
  assert (P3 : - (uu * uu) <= e1 * e2 <= uu * uu) by (split; nra).
  assert (P4 : - (uu * uu) <= d * e1 * e2 <= uu * uu).
  { assert (- uu <= d * e1 <= uu) by (split; nra). split; nra. }
  assert (uu * uu <= uu / 1000) by nra.
  split; lra.
Qed.

Theorem roundtrip_f64 x : bpow radix2 (-1009) <= Rabs x ->
  Rabs (rnd64 (rnd64 (x * deg_per_rad_64) * rad_per_deg_64) - x) <= 4 * bpow radix2 (-52) * Rabs x /\
  Rabs (rnd64 (rnd64 (x * rad_per_deg_64) * deg_per_rad_64) - x) <= 4 * bpow radix2 (-52) * Rabs x.
Proof.
  intros Hx. destruct c64_bounds as [B1 [B2 B3]].
  assert (Hx' : bpow radix2 (-1074 + 53 - 1) * 8192 <= Rabs x).
  { replace 8192 with (bpow radix2 13) by (simpl; lra). rewrite <- bpow_plus. exact Hx. }
  assert (R2 : / 64 <= rad_per_deg_64 <= 64) by lra.
  assert (R1 : / 64 <= deg_per_rad_64 <= 64) by lra.
  assert (U : u 53 = / IZR (2 ^ 53)) by (unfold u; simpl; lra).
  assert (EPS : bpow radix2 (-52) = 2 * u 53) by (rewrite U; simpl; lra).
  assert (UU : 0 < u 53 <= / 1000) by (rewrite U; simpl; lra).
  assert (D : Rabs (deg_per_rad_64 * rad_per_deg_64 - 1) <= u 53 / 2).
  { eapply Rle_trans; [exact B3|]. rewrite U. simpl. lra. }
  split.
  - destruct (roundtrip_rel (-1074) 53 _ _ x R1 R2 Hx') as [e1 [e2 [H1 [H2 E]]]]. rewrite E.
    replace (x * deg_per_rad_64 * (1 + e1) * rad_per_deg_64 * (1 + e2) - x)
      with (x * ((1 + (deg_per_rad_64 * rad_per_deg_64 - 1)) * (1 + e1) * (1 + e2) - 1)) by ring.
    rewrite Rabs_mult, Rmult_comm. apply Rmult_le_compat_r; [apply Rabs_pos|].
    apply (close_after_roundings _ _ _ (u 53)); assumption.
  - destruct (roundtrip_rel (-1074) 53 _ _ x R2 R1 Hx') as [e1 [e2 [H1 [H2 E]]]]. rewrite E.
    replace (x * rad_per_deg_64 * (1 + e1) * deg_per_rad_64 * (1 + e2) - x)
      with (x * ((1 + (deg_per_rad_64 * rad_per_deg_64 - 1)) * (1 + e1) * (1 + e2) - 1)) by ring.
    rewrite Rabs_mult, Rmult_comm. apply Rmult_le_compat_r; [apply Rabs_pos|].
    apply (close_after_roundings _ _ _ (u 53)); assumption.
Qed.

Theorem roundtrip_f32 x : bpow radix2 (-113) <= Rabs x ->
  Rabs (rnd32 (rnd32 (x * deg_per_rad_32) * rad_per_deg_32) - x) <= 4 * bpow radix2 (-23) * Rabs x /\
  Rabs (rnd32 (rnd32 (x * rad_per_deg_32) * deg_per_rad_32) - x) <= 4 * bpow radix2 (-23) * Rabs x.
Proof.
  intros Hx. destruct c32_bounds as [B1 [B2 B3]].
  assert (Hx' : bpow radix2 (-149 + 24 - 1) * 8192 <= Rabs x).
  { replace 8192 with (bpow radix2 13) by (simpl; lra). rewrite <- bpow_plus. exact Hx. }
  assert (R2 : / 64 <= rad_per_deg_32 <= 64) by lra.
  assert (R1 : / 64 <= deg_per_rad_32 <= 64) by lra.
  assert (U : u 24 = / IZR (2 ^ 24)) by (unfold u; simpl; lra).
  assert (EPS : bpow radix2 (-23) = 2 * u 24) by (rewrite U; simpl; lra).
  assert (UU : 0 < u 24 <= / 1000) by (rewrite U; simpl; lra).
  assert (D : Rabs (deg_per_rad_32 * rad_per_deg_32 - 1) <= u 24 / 2).
  { eapply Rle_trans; [exact B3|]. rewrite U. simpl. lra. }
  split.
  - destruct (roundtrip_rel (-149) 24 _ _ x R1 R2 Hx') as [e1 [e2 [H1 [H2 E]]]]. rewrite E.
    replace (x * deg_per_rad_32 * (1 + e1) * rad_per_deg_32 * (1 + e2) - x)
      with (x * ((1 + (deg_per_rad_32 * rad_per_deg_32 - 1)) * (1 + e1) * (1 + e2) - 1)) by ring.
    rewrite Rabs_mult, Rmult_comm. apply Rmult_le_compat_r; [apply Rabs_pos|].
    apply (close_after_roundings _ _ _ (u 24)); assumption.
  - destruct (roundtrip_rel (-149) 24 _ _ x R2 R1 Hx') as [e1 [e2 [H1 [H2 E]]]]. rewrite E.
    replace (x * rad_per_deg_32 * (1 + e1) * deg_per_rad_32 * (1 + e2) - x)
      with (x * ((1 + (deg_per_rad_32 * rad_per_deg_32 - 1)) * (1 + e1) * (1 + e2) - 1)) by ring.
    rewrite Rabs_mult, Rmult_comm. apply Rmult_le_compat_r; [apply Rabs_pos|].
    apply (close_after_roundings _ _ _ (u 24)); assumption.
Qed.

From CG Require Import Scalar Model.Angle.
From Coq Require Import QArith Qreals.
Lemma float_constants_tied :
  two_pi_64 = Q2R q_two_pi /\ deg_per_rad_64 = Q2R q_deg_per_rad /\ rad_per_deg_64 = Q2R q_rad_per_deg.
Proof.
  unfold two_pi_64, deg_per_rad_64, rad_per_deg_64, Q2R, q_two_pi, q_deg_per_rad, q_rad_per_deg. simpl. repeat split; lra.
Qed.
