(* Proofs/Alg.v — algebraic hypotheses on the scalar operations, shared by the property files. *)
From Coq Require Import Ring Field ZArith QArith Qcanon.
From CG Require Import Scalar Exec.ExecQ.

(* the scalar operations form a commutative ring / a field *)
Definition CRing {F} (O : Ops F) := ring_theory (zero O) (one O) (add O) (mul O) (sub O) (opp O) eq.
Definition Field {F} (O : Ops F) :=
  field_theory (zero O) (one O) (add O) (mul O) (sub O) (opp O) (div O) (inv O) eq.
(* `==` on scalars decides equality *)
Definition EqbSpec {F} (O : Ops F) := forall x y : F, eqb O x y = true <-> x = y.

Lemma Field_CRing {F} (O : Ops F) : Field O -> CRing O.
Proof. intros H. exact (F_R H). Qed.

(* the instances the correspondence check executes satisfy them *)
Lemma CRing_Qc : CRing OpsQ.  Proof. exact Qcrt. Qed.
Lemma Field_Qc : Field OpsQ.  Proof. exact Qcft. Qed.
Lemma CRing_Z : CRing OpsZ.   Proof. exact InitialRing.Zth. Qed.
Lemma EqbSpec_Qc : EqbSpec OpsQ.
Proof.
  intros x y. unfold OpsQ, eqb, qc_eqb. split.
  - intros H. apply Qc_is_canon. apply Qeq_bool_iff. exact H.
  - intros ->. apply Qeq_bool_iff. reflexivity.
Qed.
