(* Proofs/Alg.v — algebraic hypotheses on the scalar operations, shared by the property files. *)
From Coq Require Import Ring Field ZArith QArith Qcanon.
From CG Require Import Scalar Exec.ExecQ.

(* the scalar operations form a commutative ring / a field *)
Definition CRing {F} (O : Ops F) := ring_theory (zero O) (one O) (add O) (mul O) (sub O) (opp O) eq.
Definition Field {F} (O : Ops F) :=
  field_theory (zero O) (one O) (add O) (mul O) (sub O) (opp O) (div O) (inv O) eq.
(* `==` on scalars decides equality *)
Definition EqbSpec {F} (O : Ops F) := forall x y : F, eqb O x y = true <-> x = y.

Lemma Field_CRing {F} (O : Ops F) : Field O -> CRing O.
Proof. intros H. exact (F_R H). Qed.

(* the instances the correspondence check executes satisfy them *)
Lemma CRing_Qc : CRing OpsQ.  Proof. exact Qcrt. Qed.
Lemma Field_Qc : Field OpsQ.  Proof. exact Qcft. Qed.
Lemma CRing_Z : CRing OpsZ.   Proof. exact InitialRing.Zth. Qed.
Lemma EqbSpec_Qc : EqbSpec OpsQ.
Proof.
  intros x y. unfold OpsQ, eqb, qc_eqb. split.
  - intros H. apply Qc_is_canon. apply Qeq_bool_iff. exact H.
  - intros ->. apply Qeq_bool_iff. reflexivity.
Qed.

(* `cast(<literal>)`: the embedding of rational literals is a ring homomorphism *)
Record OfQHom {F} (O : Ops F) : Prop := mkOfQHom {
  ofQ_eq : forall a b : Q, Qeq a b -> ofQ O a = ofQ O b;
  ofQ_1 : ofQ O 1%Q = one O;
  ofQ_add : forall a b : Q, ofQ O (a + b)%Q = add O (ofQ O a) (ofQ O b);
  ofQ_mul : forall a b : Q, ofQ O (a * b)%Q = mul O (ofQ O a) (ofQ O b)
}.

Lemma ofQ_two {F} (O : Ops F) : OfQHom O -> ofQ O (inject_Z 2) = add O (one O) (one O).
Proof.
  intros H. rewrite <- (ofQ_1 O H), <- (ofQ_add O H). apply (ofQ_eq O H). reflexivity.
Qed.
Lemma ofQ_one {F} (O : Ops F) : OfQHom O -> ofQ O (inject_Z 1) = one O.
Proof. intros H. rewrite <- (ofQ_1 O H). apply (ofQ_eq O H). reflexivity. Qed.
Lemma ofQ_half_two {F} (O : Ops F) : OfQHom O -> mul O (ofQ O (1 # 2)) (add O (one O) (one O)) = one O.
Proof.
  intros H. rewrite <- (ofQ_two O H), <- (ofQ_mul O H), <- (ofQ_1 O H). apply (ofQ_eq O H). reflexivity.
Qed.

Lemma OfQHom_Qc : OfQHom OpsQ.
Proof.
  constructor; simpl.
  - intros a b E. apply Q2Qc_eq_iff. exact E.
  - reflexivity.
  - intros a b. unfold Qcplus. apply Q2Qc_eq_iff. simpl. rewrite !Qred_correct. reflexivity.
  - intros a b. unfold Qcmult. apply Q2Qc_eq_iff. simpl. rewrite !Qred_correct. reflexivity.
Qed.
