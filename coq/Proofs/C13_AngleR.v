(* Proofs/C13_AngleR.v — C13 over the reals: normalisation, opposite, bisect, turn fractions,
   wiring of the trigonometric functions through Rad. *)
From CG Require Import Scalar Model.Angle Proofs.Alg Proofs.RealInst Exec.ExecQ.
From Coq Require Import Reals Lra Lia Psatz QArith Qreals Qcanon List.
Local Open Scope R_scope.

(* ---------- truncation and remainder ---------- *)
Lemma Rtrunc_int x : exists k : Z, Rtrunc x = IZR k.
Proof.
  unfold Rtrunc. destruct (Rle_dec 0 x).
  - exists (Int_part x). reflexivity.
  - exists (- Int_part (- x))%Z. rewrite opp_IZR. reflexivity.
Qed.
Lemma Rtrunc_nonneg x : 0 <= x -> Rtrunc x <= x < Rtrunc x + 1.
Proof.
  intros H. unfold Rtrunc. destruct (Rle_dec 0 x); [|contradiction].
  destruct (base_Int_part x). lra.
Qed.
Lemma Rtrunc_neg x : x < 0 -> Rtrunc x - 1 < x <= Rtrunc x.
Proof.
  intros H. unfold Rtrunc. destruct (Rle_dec 0 x); [lra|].
  destruct (base_Int_part (- x)). lra.
Qed.

(* x and y differ by a whole number of turns *)
Definition cong (T x y : R) : Prop := exists k : Z, x - y = IZR k * T.
Lemma cong_refl T x : cong T x x.
Proof. exists 0%Z. simpl. ring. Qed.
Lemma cong_sym T x y : cong T x y -> cong T y x.
Proof. intros [k H]. exists (- k)%Z. rewrite opp_IZR. lra. Qed.
Lemma cong_trans T x y z : cong T x y -> cong T y z -> cong T x z.
Proof. intros [k H] [j G]. exists (k + j)%Z. rewrite plus_IZR. lra. Qed.
Lemma cong_add T x y u v : cong T x y -> cong T u v -> cong T (x + u) (y + v).
Proof. intros [k H] [j G]. exists (k + j)%Z. rewrite plus_IZR. lra. Qed.
Lemma cong_sub T x y u v : cong T x y -> cong T u v -> cong T (x - u) (y - v).
Proof. intros [k H] [j G]. exists (k - j)%Z. rewrite minus_IZR. lra. Qed.
Lemma cong_turn T x : cong T (x + T) x.
Proof. exists 1%Z. ring. Qed.
Lemma cong_turn' T x : cong T (x - T) x.
Proof. exists (-1)%Z. ring. Qed.

(* two representatives within one half-open turn coincide *)
Lemma cong_unique T x y lo : 0 < T -> cong T x y -> lo < x <= lo + T -> lo < y <= lo + T -> x = y.
Proof.
  intros HT [k H] Hx Hy.
  assert (Hk : - T < IZR k * T < T) by lra.
  assert (k = 0)%Z.
  { assert (-1 < IZR k < 1) by (split; nra).
    destruct H0 as [A B]. apply lt_IZR in A. apply lt_IZR in B. lia. }
  subst k. simpl in H. lra.
Qed.
Lemma cong_unique0 T x y : 0 < T -> cong T x y -> 0 <= x < T -> 0 <= y < T -> x = y.
Proof.
  intros HT [k H] Hx Hy.
  assert (Hk : - T < IZR k * T < T) by lra.
  assert (k = 0)%Z.
  { assert (-1 < IZR k < 1) by (split; nra).
    destruct H0 as [A B]. apply lt_IZR in A. apply lt_IZR in B. lia. }
  subst k. simpl in H. lra.
Qed.

Lemma Rrem_cong x T : cong T (Rrem x T) x.
Proof.
  unfold Rrem. destruct (Rtrunc_int (x / T)) as [k E]. rewrite E.
  exists (- k)%Z. rewrite opp_IZR. ring.
Qed.
Lemma Rrem_range x T : 0 < T ->
  (0 <= x -> 0 <= Rrem x T < T) /\ (x < 0 -> - T < Rrem x T <= 0).
Proof.
  intros HT. unfold Rrem. split; intros Hx.
  - assert (H0 : 0 <= x / T) by (apply Rmult_le_pos; [lra|left; apply Rinv_0_lt_compat; lra]).
    pose proof (Rtrunc_nonneg _ H0) as [A B].
    assert (E : x = T * (x / T)) by (field; lra).
    set (q := x / T) in *. set (k := Rtrunc q) in *. clearbody q k. subst x. nra.
  - assert (H0 : x / T < 0).
    { unfold Rdiv. assert (0 < / T) by (apply Rinv_0_lt_compat; lra). nra. }
    pose proof (Rtrunc_neg _ H0) as [A B].
    assert (E : x = T * (x / T)) by (field; lra).
    set (q := x / T) in *. set (k := Rtrunc q) in *. clearbody q k. subst x. nra.
Qed.

(* ---------- the Angle defaults over R, for any unit whose full turn is positive ---------- *)
Section AngR.
  Variable U : Unit R.
  Hypothesis Tpos : 0 < full_turn U.
  Local Notation T := (full_turn U).
  Local Notation norm := (ang_normalize OpsR U).
  Local Notation nsd := (ang_normalize_signed OpsR U).

  Lemma half_turn : turn_div_2 OpsR U = T / 2.
  Proof. unfold turn_div_2, nat_c. simpl_R. rewrite Q2R_Z. reflexivity. Qed.

  Lemma normalize_range a : 0 <= norm a < T.
  Proof.
    unfold ang_normalize. simpl_R. destruct (Rrem_range a T Tpos) as [P N].
    destruct (Rltb (Rrem a T) 0) eqn:E.
    - apply Rltb_spec in E. destruct (Rle_dec 0 a) as [H|H]; [specialize (P H); lra|].
      assert (a < 0) by lra. specialize (N H0). lra.
    - apply Rltb_false in E. destruct (Rle_dec 0 a) as [H|H]; [specialize (P H); lra|].
      assert (a < 0) by lra. specialize (N H0). lra.
  Qed.
  Lemma normalize_cong a : cong T (norm a) a.
  Proof.
    unfold ang_normalize. simpl_R. destruct (Rltb (Rrem a T) 0).
    - eapply cong_trans; [apply cong_turn|apply Rrem_cong].
    - apply Rrem_cong.
  Qed.
  (* normalize is the unique representative in [0, T) *)
  Lemma normalize_unique a r : cong T r a -> 0 <= r < T -> norm a = r.
  Proof.
    intros C H. apply (cong_unique0 T); [exact Tpos| |apply normalize_range|exact H].
    eapply cong_trans; [apply normalize_cong|apply cong_sym; exact C].
  Qed.
  Lemma normalize_idem a : norm (norm a) = norm a.
  Proof. apply normalize_unique; [apply cong_refl|apply normalize_range]. Qed.
  Lemma normalize_periodic a (k : Z) : norm (a + IZR k * T) = norm a.
  Proof.
    apply normalize_unique; [|apply normalize_range].
    eapply cong_trans; [apply normalize_cong|]. exists (- k)%Z. rewrite opp_IZR. ring.
  Qed.

  Lemma nsigned_range a : - (T / 2) < nsd a <= T / 2.
  Proof.
    unfold ang_normalize_signed. rewrite half_turn. simpl_R. pose proof (normalize_range a).
    destruct (Rltb (T / 2) (norm a)) eqn:E.
    - apply Rltb_spec in E. lra.
    - apply Rltb_false in E. lra.
  Qed.
  Lemma nsigned_cong a : cong T (nsd a) a.
  Proof.
    unfold ang_normalize_signed. simpl_R. destruct (Rltb (turn_div_2 OpsR U) (norm a)).
    - eapply cong_trans; [apply cong_turn'|apply normalize_cong].
    - apply normalize_cong.
  Qed.
  Lemma nsigned_unique a r : cong T r a -> - (T / 2) < r <= T / 2 -> nsd a = r.
  Proof.
    intros C H. apply (cong_unique T _ _ (- (T / 2))); [exact Tpos| | |].
    - eapply cong_trans; [apply nsigned_cong|apply cong_sym; exact C].
    - pose proof (nsigned_range a). lra.
    - lra.
  Qed.

  (* opposite: the representative in [0,T) of a + T/2 *)
  Lemma opposite_spec a :
    ang_opposite OpsR U a = norm (a + T / 2) /\ cong T (ang_opposite OpsR U a) (a + T / 2) /\ 0 <= ang_opposite OpsR U a < T.
  Proof.
    unfold ang_opposite. rewrite half_turn. simpl_R. repeat split; try apply normalize_range. apply normalize_cong.
  Qed.
  Lemma opposite_involutive a : ang_opposite OpsR U (ang_opposite OpsR U a) = norm a.
  Proof.
    unfold ang_opposite. rewrite half_turn. simpl_R. apply normalize_unique; [|apply normalize_range].
    eapply cong_trans; [apply normalize_cong|].
    apply cong_sym. eapply cong_trans; [apply cong_add; [apply normalize_cong|apply cong_refl]|].
    exists 1%Z. lra.
  Qed.

  (* bisect: m is at signed distance -d/2 from a and +d/2 from b, with d the signed (shortest) difference b - a *)
  Lemma bisect_spec a b :
    let m := ang_bisect OpsR U a b in
    let d := nsd (b - a) in
    0 <= m < T /\
    nsd (a - m) = - (d / 2) /\ nsd (b - m) = d / 2 /\
    Rabs (nsd (a - m)) <= T / 4 /\ Rabs (nsd (b - m)) <= T / 4.
  Proof.
    intros m d.
    assert (Hm : cong T m (a + d / 2)).
    { unfold m, ang_bisect. simpl_R. fold d. unfold q_half. rewrite Q2R_half.
      eapply cong_trans; [apply normalize_cong|]. replace (a + d * / 2) with (a + d / 2) by lra. apply cong_refl. }
    pose proof (nsigned_range (b - a)) as Hd. fold d in Hd.
    pose proof (nsigned_cong (b - a)) as Cd. fold d in Cd.
    assert (Ha : nsd (a - m) = - (d / 2)).
    { destruct (Req_dec d (T / 2)) as [E|E].
      - (* a and b exactly opposite: -d/2 = -T/4 is inside the interval *)
        apply nsigned_unique; [|lra].
        replace (- (d / 2)) with (a - (a + d / 2)) by lra. apply cong_sub; [apply cong_refl|apply cong_sym; exact Hm].
      - apply nsigned_unique; [|lra].
        replace (- (d / 2)) with (a - (a + d / 2)) by lra. apply cong_sub; [apply cong_refl|apply cong_sym; exact Hm]. }
    assert (Hb : nsd (b - m) = d / 2).
    { apply nsigned_unique; [|lra].
      replace (d / 2) with (a + d - (a + d / 2)) by lra.
      assert (Cb : cong T b (a + d)).
      { destruct Cd as [k Hk]. exists (- k)%Z. rewrite opp_IZR. lra. }
      apply cong_sub; [apply cong_sym; exact Cb|apply cong_sym; exact Hm]. }
    split; [apply normalize_range|]. split; [exact Ha|]. split; [exact Hb|].
    rewrite Ha, Hb. split; apply Rabs_le; lra.
  Qed.
End AngR.

(* ---------- the formula before the repair is refuted (executable witness over Qc) ---------- *)
Definition qd (n : Z) : Qc := Q2Qc (inject_Z n).
Lemma bisect_old_refuted :
  let U := UDeg OpsQ in
  let m := ang_bisect_old OpsQ U (qd 0) (qd 90) in
  m = qd 315 /\
  ang_normalize_signed OpsQ U (sub OpsQ (qd 0) m) = qd 45 /\
  ang_normalize_signed OpsQ U (sub OpsQ (qd 90) m) = qd 135.
Proof. vm_compute. repeat split; reflexivity. Qed.
(* the repaired formula on the same input *)
Lemma bisect_witness_fixed :
  let U := UDeg OpsQ in
  let m := ang_bisect OpsQ U (qd 0) (qd 90) in
  m = qd 45 /\
  ang_normalize_signed OpsQ U (sub OpsQ (qd 0) m) = qd (-45) /\
  ang_normalize_signed OpsQ U (sub OpsQ (qd 90) m) = qd 45.
Proof. vm_compute. repeat split; reflexivity. Qed.

(* ---------- turn fractions and full turns ---------- *)
Section Fractions.
  Variable F : Type.
  Variable O : Ops F.
  Hypothesis Fth : field_theory (zero O) (one O) (add O) (mul O) (sub O) (opp O) (div O) (inv O) eq.
  Add Field FrF : Fth.
  Lemma turn_div_mul (U : Unit F) (k : Z) : nat_c O k <> zero O -> mul O (div O (full_turn U) (nat_c O k)) (nat_c O k) = full_turn U.
  Proof. intros H. field. exact H. Qed.
End Fractions.

Lemma nat_c_R k : nat_c OpsR k = IZR k.
Proof. unfold nat_c. simpl_R. apply Q2R_Z. Qed.
Lemma turn_fractions_R (U : Unit R) :
  turn_div_2 OpsR U * 2 = full_turn U /\ turn_div_3 OpsR U * 3 = full_turn U /\
  turn_div_4 OpsR U * 4 = full_turn U /\ turn_div_6 OpsR U * 6 = full_turn U.
Proof.
  unfold turn_div_2, turn_div_3, turn_div_4, turn_div_6. rewrite !nat_c_R. simpl_R. repeat split; field.
Qed.
Lemma full_turn_deg : full_turn (UDeg OpsR) = 360.
Proof. unfold UDeg. cbn [full_turn]. simpl_R. unfold Q2R. simpl. lra. Qed.
Lemma full_turn_rad : full_turn (URad OpsR) = Q2R q_two_pi.
Proof. reflexivity. Qed.

(* ---------- trigonometry goes through the radian measure ---------- *)
Lemma trig_wiring (U : Unit R) a :
  ang_sin TrigR U a = sin (to_rad U a) /\ ang_cos TrigR U a = cos (to_rad U a) /\ ang_tan TrigR U a = tan (to_rad U a) /\
  ang_sin_cos TrigR U a = (sin (to_rad U a), cos (to_rad U a)) /\
  ang_csc OpsR TrigR U a = / sin (to_rad U a) /\ ang_sec OpsR TrigR U a = / cos (to_rad U a) /\
  ang_cot OpsR TrigR U a = / tan (to_rad U a).
Proof. repeat split. Qed.
Lemma rad_measure a d :
  to_rad (URad OpsR) a = a /\ to_rad (UDeg OpsR) d = d * Q2R q_rad_per_deg /\
  of_rad (URad OpsR) a = a /\ of_rad (UDeg OpsR) a = a * Q2R q_deg_per_rad.
Proof. repeat split. Qed.
(* inverse functions: principal value, converted to the caller's unit *)
Lemma inverse_trig (U : Unit R) x y :
  ang_asin TrigR U x = of_rad U (asin x) /\ ang_acos TrigR U x = of_rad U (acos x) /\
  ang_atan TrigR U x = of_rad U (atan x) /\ ang_atan2 TrigR U y x = of_rad U (Ratan2 y x).
Proof. repeat split. Qed.
Lemma principal_values x y :
  (-1 <= x <= 1 -> - PI / 2 <= asin x <= PI / 2 /\ sin (asin x) = x) /\
  (-1 <= x <= 1 -> 0 <= acos x <= PI /\ cos (acos x) = x) /\
  (- PI / 2 < atan x < PI / 2 /\ tan (atan x) = x) /\
  (- PI <= Ratan2 y x <= PI /\
   (x * x + y * y <> 0 -> cos (Ratan2 y x) = x / sqrt (x * x + y * y) /\ sin (Ratan2 y x) = y / sqrt (x * x + y * y))).
Proof.
  repeat split.
  - pose proof (asin_bound x). lra.
  - pose proof (asin_bound x). lra.
  - apply sin_asin. exact H.
  - pose proof (acos_bound x). lra.
  - pose proof (acos_bound x). lra.
  - apply cos_acos. exact H.
  - pose proof (atan_bound x). lra.
  - pose proof (atan_bound x). lra.
  - apply tan_atan.
  - pose proof (Ratan2_bounds y x). lra.
  - pose proof (Ratan2_bounds y x). lra.
  - apply Ratan2_cos. exact H.
  - apply Ratan2_sin. exact H.
Qed.

(* ---------- arithmetic acts on the underlying number; Sum is the left fold from zero ---------- *)
Definition ang_sum {F} (O : Ops F) (l : list F) : F := fold_left (add O) l (zero O).
Lemma arithmetic_R a b s :
  ang_add OpsR a b = a + b /\ ang_sub OpsR a b = a - b /\ ang_neg OpsR a = - a /\ ang_mul_s OpsR a s = a * s /\
  ang_div_s OpsR a s = a / s /\ ang_div OpsR a b = a / b /\ ang_rem OpsR a b = Rrem a b.
Proof. repeat split. Qed.
Lemma ang_sum_R l : ang_sum OpsR l = fold_right Rplus 0 l.
Proof.
  unfold ang_sum. simpl_R. assert (G : forall acc, fold_left Rplus l acc = acc + fold_right Rplus 0 l).
  { induction l as [|x xs IH]; intros acc; simpl; [lra|]. rewrite IH. lra. }
  rewrite G. lra.
Qed.

From CG Require Import Proofs.Consts.
Lemma full_turns_pos : 0 < full_turn (UDeg OpsR) /\ 0 < full_turn (URad OpsR).
Proof. rewrite full_turn_deg, full_turn_rad. pose proof two_pi_pos. lra. Qed.
