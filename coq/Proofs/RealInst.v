(* Proofs/RealInst.v — the idealised real-number instance of the scalar interface:
   F := R with the standard library's sqrt / sin / cos / atan / asin / acos, atan2 defined here
   (with its characterisation), `%` as truncated remainder, comparisons by Rle_dec. *)
From CG Require Import Scalar Proofs.Alg.
From Coq Require Import Reals Lra Psatz QArith Qreals Field Ring.
Local Open Scope R_scope.

Definition Rtrunc (x : R) : R :=
  if Rle_dec 0 x then IZR (Int_part x) else - IZR (Int_part (- x)).
Definition Rrem (x y : R) : R := x - y * Rtrunc (x / y).
Definition Reqb (x y : R) : bool := if Req_EM_T x y then true else false.
Definition Rltb (x y : R) : bool := if Rlt_dec x y then true else false.
Definition Rleb (x y : R) : bool := if Rle_dec x y then true else false.

Definition OpsR : Ops R :=
  mkOps 0 1 Rplus Rminus Rmult Rdiv Ropp Rinv Rrem Reqb Rltb Rleb Q2R.

(* atan2 y x, principal value in (-pi, pi] *)
Definition Ratan2 (y x : R) : R :=
  let r := sqrt (x * x + y * y) in
  if Req_EM_T r 0 then 0 else
  if Rle_dec 0 y then acos (x / r) else - acos (x / r).

Definition TrigR : Trig R := mkTrig sqrt sin cos tan asin acos atan Ratan2.

Lemma Field_R : Field OpsR.
Proof. exact Rfield. Qed.
Lemma CRing_R : CRing OpsR.
Proof. exact (Field_CRing OpsR Field_R). Qed.
Lemma EqbSpec_R : EqbSpec OpsR.
Proof.
  intros x y. change (Reqb x y = true <-> x = y). unfold Reqb.
  destruct (Req_EM_T x y) as [e|n]; split; intro H; auto; try discriminate; contradiction.
Qed.
Lemma OfQHom_R : OfQHom OpsR.
Proof.
  constructor; simpl.
  - intros a b E. apply Qeq_eqR. exact E.
  - unfold Q2R. simpl. field.
  - intros. apply Q2R_plus.
  - intros. apply Q2R_mult.
Qed.

Lemma Rltb_spec x y : Rltb x y = true <-> x < y.
Proof. unfold Rltb. destruct (Rlt_dec x y); split; intros; try assumption; try reflexivity; try discriminate; contradiction. Qed.
Lemma Rleb_spec x y : Rleb x y = true <-> x <= y.
Proof. unfold Rleb. destruct (Rle_dec x y); split; intros; try assumption; try reflexivity; try discriminate; contradiction. Qed.
Lemma Rltb_false x y : Rltb x y = false <-> y <= x.
Proof. unfold Rltb. destruct (Rlt_dec x y); split; intros; try discriminate; try reflexivity; lra. Qed.
Lemma Rleb_false x y : Rleb x y = false <-> y < x.
Proof. unfold Rleb. destruct (Rle_dec x y); split; intros; try discriminate; try reflexivity; lra. Qed.

(* ---------- atan2 ---------- *)
Lemma atan2_aux x y : x * x + y * y <> 0 ->
  let r := sqrt (x * x + y * y) in 0 < r /\ r * r = x * x + y * y /\ -1 <= x / r <= 1.
Proof.
  intros H r.
  assert (Hp : 0 < x * x + y * y) by nra.
  assert (Hr : 0 < r) by (apply sqrt_lt_R0; exact Hp).
  assert (Hr2 : r * r = x * x + y * y) by (apply sqrt_sqrt; lra).
  repeat split; try assumption.
  - apply Rmult_le_reg_r with r; [exact Hr|]. unfold Rdiv. rewrite Rmult_assoc, Rinv_l by lra. nra.
  - apply Rmult_le_reg_r with r; [exact Hr|]. unfold Rdiv. rewrite Rmult_assoc, Rinv_l by lra. nra.
Qed.
Lemma Ratan2_cos y x : x * x + y * y <> 0 -> cos (Ratan2 y x) = x / sqrt (x * x + y * y).
Proof.
  intros H. destruct (atan2_aux x y H) as [Hr [Hr2 Hb]]. unfold Ratan2.
  destruct (Req_EM_T (sqrt (x * x + y * y)) 0); [lra|].
  destruct (Rle_dec 0 y); [|rewrite cos_neg]; apply cos_acos; exact Hb.
Qed.
Lemma Ratan2_sin y x : x * x + y * y <> 0 -> sin (Ratan2 y x) = y / sqrt (x * x + y * y).
Proof.
  intros H. destruct (atan2_aux x y H) as [Hr [Hr2 Hb]]. unfold Ratan2.
  set (r := sqrt (x * x + y * y)) in *.
  destruct (Req_EM_T r 0); [lra|].
  assert (Hs : 1 - (x / r)² = (y / r)²).
  { unfold Rsqr. replace 1 with ((x * x + y * y) / (r * r)) by (rewrite Hr2; field; lra). field. lra. }
  destruct (Rle_dec 0 y) as [Hy|Hy].
  - rewrite sin_acos by exact Hb. rewrite Hs, sqrt_Rsqr; [reflexivity|].
    apply Rmult_le_pos; [lra|]. left; apply Rinv_0_lt_compat; lra.
  - rewrite sin_neg, sin_acos by exact Hb. rewrite Hs.
    replace ((y / r)²) with ((- y / r)²) by (unfold Rsqr; field; lra).
    rewrite sqrt_Rsqr; [field; lra|]. apply Rmult_le_pos; [lra|]. left; apply Rinv_0_lt_compat; lra.
Qed.
Lemma Ratan2_range y x : - PI < Ratan2 y x <= PI \/ (y < 0 /\ Ratan2 y x = - PI).
Proof.
  unfold Ratan2. pose proof PI_RGT_0.
  destruct (Req_EM_T (sqrt (x * x + y * y)) 0); [left; lra|].
  pose proof (acos_bound (x / sqrt (x * x + y * y))).
  destruct (Rle_dec 0 y); [left; lra|].
  destruct H0 as [H0 H1]. destruct H1 as [H1|H1]; [left; lra|right; split; lra].
Qed.
Lemma Ratan2_bounds y x : - PI <= Ratan2 y x <= PI.
Proof. pose proof PI_RGT_0. destruct (Ratan2_range y x) as [H0|[_ H0]]; lra. Qed.

(* sums of squares *)
Lemma sumsq3_zero a b c : a * a + b * b + c * c = 0 -> a = 0 /\ b = 0 /\ c = 0.
Proof. intros. repeat split; nra. Qed.
Lemma sumsq4_zero a b c d : a * a + b * b + c * c + d * d = 0 -> a = 0 /\ b = 0 /\ c = 0 /\ d = 0.
Proof. intros. repeat split; nra. Qed.

(* reduce the OpsR / TrigR projections *)
Ltac simpl_R := cbn [OpsR TrigR Scalar.zero Scalar.one add sub mul div opp inv rem Scalar.eqb Scalar.ltb Scalar.leb ofQ
                     Scalar.sqrt Scalar.sin Scalar.cos Scalar.tan Scalar.asin Scalar.acos Scalar.atan Scalar.atan2] in *.

Lemma Q2R_half : Q2R (1 # 2) = / 2.
Proof. unfold Q2R. simpl. lra. Qed.
Lemma Q2R_Z n : Q2R (inject_Z n) = IZR n.
Proof. unfold Q2R, inject_Z. simpl. lra. Qed.
Lemma sqrt_4sq a : sqrt (4 * (a * a)) = 2 * Rabs a.
Proof.
  replace (4 * (a * a)) with (Rsqr (2 * a)) by (unfold Rsqr; ring). rewrite sqrt_Rsqr_abs.
  rewrite Rabs_mult, (Rabs_pos_eq 2) by lra. reflexivity.
Qed.
Lemma Rabs_le_inv x y : Rabs x <= y -> - y <= x <= y.
Proof. unfold Rabs. destruct (Rcase_abs x); lra. Qed.
