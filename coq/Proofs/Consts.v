(* Proofs/Consts.v — numeric facts about the f64 constants the implementation uses, proved with the
   `interval` tactic (this is the only file that uses it; it brings in the standard library's
   primitive-integer / primitive-float axioms, listed in the trusted base). *)
From CG Require Import Scalar Model.Angle.
From Coq Require Import Reals Lra QArith Qreals.
From Interval Require Import Tactic.
Local Open Scope R_scope.

Lemma Q2R_two_pi : Q2R q_two_pi = 884279719003555 / 140737488355328.
Proof. unfold Q2R, q_two_pi. simpl. reflexivity. Qed.
(* cast(f64::consts::PI * 2.0) is within 2.5e-16 of 2 pi *)
Lemma two_pi_close : Rabs (Q2R q_two_pi - 2 * PI) <= 1 / 4000000000000000.
Proof. rewrite Q2R_two_pi. interval with (i_prec 100). Qed.
Lemma two_pi_pos : 6 < Q2R q_two_pi < 7.
Proof. rewrite Q2R_two_pi. lra. Qed.

(* conversion constants of Deg <-> Rad *)
Lemma conv_constants_close :
  Rabs (Q2R q_rad_per_deg - PI / 180) <= 1 / 100000000000000000 /\
  Rabs (Q2R q_deg_per_rad - 180 / PI) <= 1 / 100000000000000.
Proof.
  unfold Q2R, q_rad_per_deg, q_deg_per_rad. simpl. split; interval with (i_prec 120).
Qed.
