(* Proofs/C04_Quat.v — Hamilton's algebra and the action of quaternions on vectors (property C04). *)
From Coq Require Import List Ring Field QArith.
From CG Require Import Scalar Model.Vector Model.Point Model.Matrix Model.Angle Model.Quaternion
                       Proofs.Tac Proofs.Alg Proofs.C03_Vector.
Import ListNotations.
Set Implicit Arguments.

Section RingLaws.
  Variable F : Type.
  Variable O : Ops F.
  Hypothesis Rth : ring_theory (zero O) (one O) (add O) (mul O) (sub O) (opp O) eq.
  Hypothesis Hq : OfQHom O.
  Add Ring Rr : Rth.
  Set Default Proof Using "Rth Hq".
  Local Notation "0" := (zero O).
  Local Notation "1" := (one O).
  Local Infix "+" := (add O).
  Local Infix "-" := (sub O).
  Local Infix "*" := (mul O).
  Local Notation "- x" := (opp O x).

  (* the imaginary quaternion (0, v) *)
  Definition pure (v : V3 F) : Quat F := quat_from_sv 0 v.
  Ltac qring := intros; destruct_quats; unfold pure in *; unfold_quat; unfold_model;
                rewrite ?(ofQ_two O Hq); quat_eq; try ring.


  Lemma quat_mul_assoc p q r : quat_mul O (quat_mul O p q) r = quat_mul O p (quat_mul O q r). Proof. qring. Qed.
  Lemma quat_mul_distr p q r :
    quat_mul O p (quat_add O q r) = quat_add O (quat_mul O p q) (quat_mul O p r) /\
    quat_mul O (quat_add O p q) r = quat_add O (quat_mul O p r) (quat_mul O q r). Proof. qring. Qed.
  Lemma quat_mul_one p : quat_mul O p (quat_one O) = p /\ quat_mul O (quat_one O) p = p. Proof. qring. Qed.
  Lemma quat_conj_mul p q :
    quat_conjugate O (quat_mul O p q) = quat_mul O (quat_conjugate O q) (quat_conjugate O p). Proof. qring. Qed.
  Lemma quat_norm_mul p q :
    quat_magnitude2 O (quat_mul O p q) = quat_magnitude2 O p * quat_magnitude2 O q. Proof. qring. Qed.
  Lemma quat_magnitude2_squares q :
    quat_magnitude2 O q = qs q * qs q + v3x (qv q) * v3x (qv q) + v3y (qv q) * v3y (qv q) + v3z (qv q) * v3z (qv q).
  Proof. qring. Qed.
  Lemma quat_mul_conj q :
    quat_mul O q (quat_conjugate O q) = quat_from_sv (quat_magnitude2 O q) (v3_zero O) /\
    quat_mul O (quat_conjugate O q) q = quat_from_sv (quat_magnitude2 O q) (v3_zero O). Proof. qring. Qed.
  (* Hamilton's rules on the basis *)
  Lemma hamilton_ijk :
    let i := quat_new 0 1 0 0 in let j := quat_new 0 0 1 0 in let k := quat_new 0 0 0 1 in
    let m1 := quat_neg O (quat_one O) in
    quat_mul O i i = m1 /\ quat_mul O j j = m1 /\ quat_mul O k k = m1 /\
    quat_mul O i j = k /\ quat_mul O j k = i /\ quat_mul O k i = j /\
    quat_mul O (quat_mul O i j) k = m1. Proof. intros i j k m1; subst i j k m1; qring. Qed.
  (* +, -, neg, scalar ops component-wise *)
  Lemma quat_linear_ops p q s :
    quat_sxyz (quat_add O p q) = lzip (add O) (quat_sxyz p) (quat_sxyz q) /\
    quat_sxyz (quat_sub O p q) = lzip (sub O) (quat_sxyz p) (quat_sxyz q) /\
    quat_sxyz (quat_neg O p) = map (opp O) (quat_sxyz p) /\
    quat_sxyz (quat_mul_s O p s) = map (fun c => c * s) (quat_sxyz p) /\
    quat_sxyz (quat_div_s O p s) = map (fun c => div O c s) (quat_sxyz p) /\
    quat_sxyz (quat_conjugate O p) = qs p :: map (opp O) (v3_list (qv p)) /\
    quat_sxyz (quat_one O) = [1; 0; 0; 0] /\ quat_sxyz (quat_zero O) = [0; 0; 0; 0].
  Proof. destruct_quats. repeat split; reflexivity. Qed.

  (* q * v  =  v + 2 qv x (qv x v + s v) *)
  Lemma quat_mul_v_formula q v :
    quat_mul_v O q v = v3_add O v (v3_mul_s O (v3_cross O (qv q) (v3_add O (v3_cross O (qv q) v) (v3_mul_s O v (qs q)))) (1 + 1)).
  Proof. qring. Qed.
  (* general sandwich identity: q*v = vec(q (0,v) conj(q)) + (1 - |q|^2) v *)
  Lemma quat_mul_v_sandwich_general q v :
    quat_mul_v O q v = v3_add O (qv (quat_mul O (quat_mul O q (pure v)) (quat_conjugate O q)))
                               (v3_mul_s O v (1 - quat_magnitude2 O q)) /\
    qs (quat_mul O (quat_mul O q (pure v)) (quat_conjugate O q)) = 0.
  Proof. qring. Qed.
  Lemma quat_mul_v_sandwich q v : quat_magnitude2 O q = 1 ->
    pure (quat_mul_v O q v) = quat_mul O (quat_mul O q (pure v)) (quat_conjugate O q).
  Proof.
    intros H. destruct (quat_mul_v_sandwich_general q v) as [E S]. rewrite E, H. clear E.
    destruct (quat_mul O (quat_mul O q (pure v)) (quat_conjugate O q)) as [[a b c] s].
    cbn [qs qv] in *. rewrite S. unfold pure, quat_from_sv. f_equal. destruct v; unfold_model. f_equal; ring.
  Qed.
  (* length: |q*v|^2 = |v|^2 + 4 (|q|^2 - 1) |qv x v|^2 *)
  Lemma quat_mul_v_norm_general q v :
    v3_magnitude2 O (quat_mul_v O q v)
    = v3_magnitude2 O v + (1 + 1) * (1 + 1) * (quat_magnitude2 O q - 1) * v3_magnitude2 O (v3_cross O (qv q) v).
  Proof. qring. Qed.
  Lemma quat_mul_v_norm q v : quat_magnitude2 O q = 1 -> v3_magnitude2 O (quat_mul_v O q v) = v3_magnitude2 O v.
  Proof. intros H. rewrite quat_mul_v_norm_general, H. ring. Qed.
  (* composition: (p q)*v - p*(q*v) = (|p|^2 - 1)(q*v - v) + (|q|^2 - 1)(p*v - v) *)
  Lemma quat_mul_v_compose_general p q v :
    v3_sub O (quat_mul_v O (quat_mul O p q) v) (quat_mul_v O p (quat_mul_v O q v))
    = v3_add O (v3_mul_s O (v3_sub O (quat_mul_v O q v) v) (quat_magnitude2 O p - 1))
               (v3_mul_s O (v3_sub O (quat_mul_v O p v) v) (quat_magnitude2 O q - 1)).
  Proof. qring. Qed.
  Lemma quat_mul_v_compose p q v : quat_magnitude2 O p = 1 -> quat_magnitude2 O q = 1 ->
    quat_mul_v O (quat_mul O p q) v = quat_mul_v O p (quat_mul_v O q v).
  Proof.
    intros Hp Hq'. pose proof (quat_mul_v_compose_general p q v) as E. rewrite Hp, Hq' in E.
    destruct (quat_mul_v O (quat_mul O p q) v) as [a b c], (quat_mul_v O p (quat_mul_v O q v)) as [a' b' c'].
    destruct (quat_mul_v O q v), (quat_mul_v O p v), v. revert E. unfold_model. intros E. inversion E as [[E1 E2 E3]].
    f_equal.
    - transitivity (a - a' + a'); [ring|rewrite E1; ring].
    - transitivity (b - b' + b'); [ring|rewrite E2; ring].
    - transitivity (c - c' + c'); [ring|rewrite E3; ring].
  Qed.
  (* linear in v *)
  Lemma quat_mul_v_linear q v w s :
    quat_mul_v O q (v3_add O v w) = v3_add O (quat_mul_v O q v) (quat_mul_v O q w) /\
    quat_mul_v O q (v3_mul_s O v s) = v3_mul_s O (quat_mul_v O q v) s /\
    quat_mul_v O (quat_one O) v = v.
  Proof. qring. Qed.
  Lemma quat_rotate_defs q v p :
    quat_rotate_vector O q v = quat_mul_v O q v /\
    quat_rotate_point O q p = p3_from_vec (quat_rotate_vector O q (p3_to_vec p)).
  Proof. split; reflexivity. Qed.
End RingLaws.

Section FieldLaws.
  Variable F : Type.
  Variable O : Ops F.
  Hypothesis Fth : field_theory (zero O) (one O) (add O) (mul O) (sub O) (opp O) (div O) (inv O) eq.
  Add Field Ff : Fth.
  Set Default Proof Using "Fth".
  Local Notation "0" := (zero O).

  (* the rotation inverse conj(q)/|q|^2 is a two-sided inverse whenever |q|^2 <> 0 *)
  Lemma quat_invert_spec q : quat_magnitude2 O q <> 0 ->
    quat_mul O q (quat_invert O q) = quat_one O /\ quat_mul O (quat_invert O q) q = quat_one O.
  Proof.
    intros H. revert H. destruct_quats; unfold_quat; unfold_model. intros H. quat_eq; field; exact H.
  Qed.
  Lemma quat_invert_def q : quat_invert O q = quat_div_s O (quat_conjugate O q) (quat_magnitude2 O q).
  Proof. reflexivity. Qed.
End FieldLaws.
