(* Proofs/C05_Repr.v — Quaternion, Basis3, Matrix3, Matrix4 describe the same rotation (property C05),
   algebraic part: any field with decidable equality. *)
From Coq Require Import List Ring Field Nsatz QArith.
From Coq Require Import Algebra_syntax Ncring Cring Integral_domain.
From CG Require Import Scalar Model.Vector Model.Point Model.Matrix Model.Angle Model.Quaternion Model.Metric Model.Rotation
                       Proofs.Tac Proofs.Alg Proofs.NsatzField.
Import ListNotations.
Set Implicit Arguments.

Section Alg.
  Variable F : Type.
  Variable O : Ops F.
  Hypothesis Fth : field_theory (Scalar.zero O) (Scalar.one O) (add O) (mul O) (sub O) (opp O) (div O) (inv O) eq.
  Hypothesis Fdec : EqDec O.
  Hypothesis Hq : OfQHom O.
  Add Field Ff : Fth.
  Local Instance i0 : @Ring_ops F (Scalar.zero O) (Scalar.one O) (add O) (mul O) (sub O) (opp O) (@eq F) := Fops F O.
  Local Instance i1 : Ring (Ro:=i0) := Fri F O Fth.
  Local Instance i2 : Cring (Rr:=i1) := Fcri F O Fth.
  Local Instance i3 : Integral_domain (Rcr:=i2) := Fdi F O Fth Fdec.
  Set Default Proof Using "Fth Fdec Hq".
  Local Notation "0" := (Scalar.zero O).
  Local Notation "1" := (Scalar.one O).

  Ltac prep := intros; destruct_quats; unfold_quat; unfold_model; rewrite ?(ofQ_two O Hq) in *; quat_eq.

  (* the matrix of q acts like q on every vector — for every quaternion *)
  Lemma m3_of_quat_action q v : m3_mul_v O (m3_of_quat O q) v = quat_mul_v O q v.
  Proof. prep; ring. Qed.
  Lemma m4_of_quat_action q v : m4_transform_vector O (m4_of_quat O q) v = quat_mul_v O q v.
  Proof. prep; ring. Qed.
  Lemma m4_of_quat_embed q : m4_of_quat O q = m4_of_m3 O (m3_of_quat O q).
  Proof. prep; reflexivity. Qed.
  Lemma basis3_of_quat_action q v : basis3_rotate_vector O (basis3_from_quaternion O q) v = quat_rotate_vector O q v.
  Proof. exact (m3_of_quat_action q v). Qed.

  (* unit quaternion => orthonormal with determinant +1 *)
  Lemma m3_of_quat_orthonormal q : quat_magnitude2 O q = 1 ->
    m3_mul O (m3_of_quat O q) (m3_transpose (m3_of_quat O q)) = m3_identity O /\
    m3_mul O (m3_transpose (m3_of_quat O q)) (m3_of_quat O q) = m3_identity O.
  Proof. revert q. intros [[x y z] s]. unfold_quat; unfold_model. intros H. mat_eq; nsatz. Qed.
  Lemma m3_of_quat_det q : quat_magnitude2 O q = 1 -> m3_determinant O (m3_of_quat O q) = 1.
  Proof. revert q. intros [[x y z] s]. unfold_quat; unfold_model. intros H. nsatz. Qed.

  (* conversion respects composition *)
  Lemma m3_of_quat_mul p q : quat_magnitude2 O p = 1 -> quat_magnitude2 O q = 1 ->
    m3_of_quat O (quat_mul O p q) = m3_mul O (m3_of_quat O p) (m3_of_quat O q).
  Proof.
    revert p q. intros [[px py pz] ps] [[qx qy qz] qs]. unfold_quat; unfold_model. intros Hp Hq'.
    mat_eq; nsatz.
  Qed.
  Lemma basis3_of_quat_mul p q : quat_magnitude2 O p = 1 -> quat_magnitude2 O q = 1 ->
    basis3_from_quaternion O (quat_mul O p q) = basis3_mul O (basis3_from_quaternion O p) (basis3_from_quaternion O q).
  Proof. exact (m3_of_quat_mul p q). Qed.
End Alg.
