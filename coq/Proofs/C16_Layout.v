(* Proofs/C16_Layout.v — layout, indexing, conversions and swizzles preserve every component in order (property C16). *)
From Coq Require Import List Arith Bool Lia.
From CG Require Import Scalar Model.Vector Model.Point Model.Matrix Model.Quaternion Model.Layout Proofs.Tac Proofs.C01_Matrix.
Import ListNotations.
Set Implicit Arguments.

Section Lens.
  Variable A : Type.
  (* round trips: from(into(v)) = v and into(from(l)) = l, for arrays / tuples / transmuted references alike *)
  Lemma roundtrips :
    (forall v : V1 A, v1_of_list (v1_list v) = Some v) /\ (forall v : V2 A, v2_of_list (v2_list v) = Some v) /\
    (forall v : V3 A, v3_of_list (v3_list v) = Some v) /\ (forall v : V4 A, v4_of_list (v4_list v) = Some v) /\
    (forall v : P1 A, p1_of_list (p1_list v) = Some v) /\ (forall v : P2 A, p2_of_list (p2_list v) = Some v) /\
    (forall v : P3 A, p3_of_list (p3_list v) = Some v) /\
    (forall m : M2 A, m2_of_list (m2_list m) = Some m) /\ (forall m : M3 A, m3_of_list (m3_list m) = Some m) /\
    (forall m : M4 A, m4_of_list (m4_list m) = Some m) /\ (forall q : Quat A, quat_of_list (quat_list q) = Some q).
  Proof. repeat split; intros; destruct_quats; reflexivity. Qed.
  Lemma roundtrips_inv :
    (forall l (v : V1 A), v1_of_list l = Some v -> v1_list v = l) /\ (forall l (v : V2 A), v2_of_list l = Some v -> v2_list v = l) /\
    (forall l (v : V3 A), v3_of_list l = Some v -> v3_list v = l) /\ (forall l (v : V4 A), v4_of_list l = Some v -> v4_list v = l) /\
    (forall l (v : P3 A), p3_of_list l = Some v -> p3_list v = l) /\
    (forall l (m : M2 A), m2_of_list l = Some m -> m2_list m = l) /\ (forall l (m : M3 A), m3_of_list l = Some m -> m3_list m = l) /\
    (forall l (m : M4 A), m4_of_list l = Some m -> m4_list m = l) /\ (forall l (q : Quat A), quat_of_list l = Some q -> quat_list q = l).
  Proof.
    repeat split; intros l v H;
      repeat (destruct l as [|? l]; try discriminate); inversion H; reflexivity.
  Qed.
  (* field order: x, y, z, w; quaternion x, y, z then the scalar part; Quaternion::new takes the scalar first *)
  Lemma field_order (x y z w : A) :
    v4_list (mkV4 x y z w) = [x; y; z; w] /\ v3_list (mkV3 x y z) = [x; y; z] /\ v2_list (mkV2 x y) = [x; y] /\ v1_list (mkV1 x) = [x] /\
    p3_list (mkP3 x y z) = [x; y; z] /\ p2_list (mkP2 x y) = [x; y] /\ p1_list (mkP1 x) = [x] /\
    quat_list (quat_new w x y z) = [x; y; z; w] /\ quat_list (quat_from_sv w (mkV3 x y z)) = [x; y; z; w].
  Proof. repeat split. Qed.
  (* by-index access agrees with the array view; out of range = panic *)
  Lemma index_views :
    (forall (v : V2 A) i, v2_get v i = idx (v2_list v) i) /\ (forall (v : V3 A) i, v3_get v i = idx (v3_list v) i) /\
    (forall (v : V4 A) i, v4_get v i = idx (v4_list v) i) /\
    (forall (l : list A) i, length l <= i -> idx l i = None) /\ (forall (l : list A) i, i < length l -> exists a, idx l i = Some a).
  Proof.
    repeat split.
    - intros [? ?] [|[|i]]; try reflexivity. destruct i; reflexivity.
    - intros [? ? ?] [|[|[|i]]]; try reflexivity. destruct i; reflexivity.
    - intros [? ? ? ?] [|[|[|[|i]]]]; try reflexivity. destruct i; reflexivity.
    - intros l i H. apply nth_error_None. exact H.
    - intros l i H. destruct (nth_error l i) eqn:E; [eauto|]. apply nth_error_None in E. lia.
  Qed.
  (* writes through the index / array view are seen through every other view: lens laws on the memory image *)
  Lemma set_get (l : list A) i a l' : set_nth l i a = Some l' ->
    idx l' i = Some a /\ (forall j, j <> i -> idx l' j = idx l j) /\ length l' = length l.
  Proof.
    revert i l'. induction l as [|h t IH]; intros [|i] l' H; cbn in H; try discriminate.
    - inversion H; subst. repeat split. intros [|j] Hj; [congruence|reflexivity].
    - destruct (set_nth t i a) as [t'|] eqn:E; [|discriminate]. inversion H; subst. destruct (IH i t' E) as [G [K L]].
      repeat split; [exact G| |cbn; rewrite L; reflexivity]. intros [|j] Hj; [reflexivity|]. cbn. apply K. lia.
  Qed.
  Lemma set_oob (l : list A) i a : length l <= i -> set_nth l i a = None.
  Proof. revert i. induction l as [|h t IH]; intros [|i] H; cbn in *; try reflexivity; try lia. rewrite IH by lia. reflexivity. Qed.
  (* matrices: flat [S; n*n] view is column-major; the nested view is the list of columns *)
  Lemma matrix_views :
    (forall m : M2 A, chunks 2 2 (m2_list m) = [v2_list (m2x m); v2_list (m2y m)]) /\
    (forall m : M3 A, chunks 3 3 (m3_list m) = [v3_list (m3x m); v3_list (m3y m); v3_list (m3z m)]) /\
    (forall m : M4 A, chunks 4 4 (m4_list m) = [v4_list (m4x m); v4_list (m4y m); v4_list (m4z m); v4_list (m4w m)]) /\
    (forall (m : M2 A) c r, c < 2 -> r < 2 -> idx (m2_list m) (2 * c + r) = m2_e m c r) /\
    (forall (m : M3 A) c r, c < 3 -> r < 3 -> idx (m3_list m) (3 * c + r) = m3_e m c r) /\
    (forall (m : M4 A) c r, c < 4 -> r < 4 -> idx (m4_list m) (4 * c + r) = m4_e m c r).
  Proof.
    repeat split; intros; destruct_mats; try reflexivity.
    - destruct c as [|[|c]]; try lia; destruct r as [|[|r]]; try lia; reflexivity.
    - destruct c as [|[|[|c]]]; try lia; destruct r as [|[|[|r]]]; try lia; reflexivity.
    - destruct c as [|[|[|[|c]]]]; try lia; destruct r as [|[|[|[|r]]]]; try lia; reflexivity.
  Qed.
  Lemma nth_firstn (l : list A) n k : k < n -> nth_error (firstn n l) k = nth_error l k.
  Proof. revert n k. induction l as [|h t IH]; intros [|n] [|k] H; cbn; try reflexivity; try lia. apply IH. lia. Qed.
  Lemma nth_skipn (l : list A) a k : nth_error (skipn a l) k = nth_error l (a + k).
  Proof. revert a. induction l as [|h t IH]; intros [|a]; cbn; try reflexivity. - destruct k; reflexivity. - apply IH. Qed.
  (* slices (Index<Range..>): exactly the named sub-sequence; out-of-range bounds panic *)
  Lemma slice_spec (l : list A) a b :
    (a <= b -> b <= length l -> exists s, slice l a b = Some s /\ length s = b - a /\ forall k, k < b - a -> idx s k = idx l (a + k)) /\
    (b < a \/ length l < b -> slice l a b = None).
  Proof.
    unfold slice. split.
    - intros H1 H2. assert (E1 : (a <=? b) = true) by (apply Nat.leb_le; lia). assert (E2 : (b <=? length l) = true) by (apply Nat.leb_le; lia).
      rewrite E1, E2. cbn. eexists. split; [reflexivity|]. split.
      + rewrite firstn_length, skipn_length. lia.
      + intros k Hk. unfold idx. rewrite nth_firstn by lia. apply nth_skipn.
    - intros [H|H].
      + assert (E : (a <=? b) = false) by (apply Nat.leb_gt; lia). rewrite E. reflexivity.
      + assert (E : (b <=? length l) = false) by (apply Nat.leb_gt; lia). rewrite E, andb_false_r. reflexivity.
  Qed.
  (* swap_elements exchanges exactly the two named elements *)
  Lemma swap_spec (l : list A) i j : i < length l -> j < length l ->
    exists l', swap_list l i j = Some l' /\ idx l' i = idx l j /\ idx l' j = idx l i /\
               forall k, k <> i -> k <> j -> idx l' k = idx l k.
  Proof.
    intros Hi Hj. unfold swap_list.
    destruct (proj2 (proj2 (proj2 (proj2 index_views))) l i Hi) as [a Ea].
    destruct (proj2 (proj2 (proj2 (proj2 index_views))) l j Hj) as [b Eb].
    rewrite Ea, Eb.
    destruct (set_nth l i b) as [l1|] eqn:E1.
    2:{ exfalso. clear - E1 Hi. revert i Hi E1. induction l as [|h t IH]; intros [|i] Hi E1; cbn in *; try lia; try discriminate.
        destruct (set_nth t i b) eqn:E; [discriminate|]. apply (IH i); [lia|exact E]. }
    destruct (set_get l i b E1) as [G1 [K1 L1]].
    destruct (set_nth l1 j a) as [l2|] eqn:E2.
    2:{ exfalso. assert (Hj' : j < length l1) by lia. clear - E2 Hj'. revert j Hj' E2. induction l1 as [|h t IH]; intros [|j] Hj E2; cbn in *; try lia; try discriminate.
        destruct (set_nth t j a) eqn:E; [discriminate|]. apply (IH j); [lia|exact E]. }
    destruct (set_get l1 j a E2) as [G2 [K2 L2]].
    exists l2. split; [reflexivity|]. repeat split.
    - destruct (Nat.eq_dec i j) as [->|N]; [rewrite G2; congruence|]. rewrite (K2 i) by congruence. rewrite G1. congruence.
    - rewrite G2. congruence.
    - intros k N1 N2. rewrite (K2 k) by congruence. apply K1. congruence.
  Qed.
  (* map / zip / from_value / extend / truncate / truncate_n act on the components *)
  Lemma structural (B C : Type) (f : A -> B) (g : A -> B -> C) :
    (forall v, v4_list (v4_map f v) = map f (v4_list v)) /\ (forall v, v3_list (v3_map f v) = map f (v3_list v)) /\
    (forall v, v2_list (v2_map f v) = map f (v2_list v)) /\ (forall v, v1_list (v1_map f v) = map f (v1_list v)) /\
    (forall v, p3_list (p3_map f v) = map f (p3_list v)) /\ (forall v, p2_list (p2_map f v) = map f (p2_list v)) /\
    (forall a b, v4_list (v4_zip g a b) = lzip g (v4_list a) (v4_list b)) /\ (forall a b, v3_list (v3_zip g a b) = lzip g (v3_list a) (v3_list b)) /\
    (forall a b, v2_list (v2_zip g a b) = lzip g (v2_list a) (v2_list b)) /\ (forall a b, p3_list (p3_zip g a b) = lzip g (p3_list a) (p3_list b)) /\
    (forall s : A, v4_list (v4_from_value s) = repeat s 4 /\ v3_list (v3_from_value s) = repeat s 3 /\
                   v2_list (v2_from_value s) = repeat s 2 /\ v1_list (v1_from_value s) = repeat s 1) /\
    (forall (v : V2 A) z, v3_list (v2_extend v z) = v2_list v ++ [z]) /\ (forall (v : V3 A) w, v4_list (v3_extend v w) = v3_list v ++ [w]) /\
    (forall v : V3 A, v2_list (v3_truncate v) = firstn 2 (v3_list v)) /\ (forall v : V4 A, v3_list (v4_truncate v) = firstn 3 (v4_list v)) /\
    (forall (v : V4 A) n, n < 4 -> option_map (@v3_list A) (v4_truncate_n v n) = Some (firstn n (v4_list v) ++ skipn (S n) (v4_list v))) /\
    (forall (v : V4 A) n, 4 <= n -> v4_truncate_n v n = None).
  Proof.
    repeat split; intros; destruct_mats; try reflexivity.
    - destruct n as [|[|[|[|n]]]]; try lia; reflexivity.
    - destruct n as [|[|[|[|n]]]]; try lia; reflexivity.
  Qed.
End Lens.

(* ---------- swizzles ---------- *)
(* the generator of build.rs enumerates exactly the words of length 1..upto, each once, for the seven (variables, upto) arms *)
Lemma gen_swizzle_spec :
  same_words (gen_swizzle 1 3) (words 1 3) = true /\ same_words (gen_swizzle 2 3) (words 2 3) = true /\
  same_words (gen_swizzle 3 3) (words 3 3) = true /\ same_words (gen_swizzle 1 4) (words 1 4) = true /\
  same_words (gen_swizzle 2 4) (words 2 4) = true /\ same_words (gen_swizzle 3 4) (words 3 4) = true /\
  same_words (gen_swizzle 4 4) (words 4 4) = true.
Proof. vm_compute. repeat split. Qed.
Lemma swizzle_counts :
  length (words 4 4) = 340 /\ length (words 3 4) = 120 /\ length (words 2 4) = 30 /\ length (words 1 4) = 4 /\
  length (words 3 3) = 39 /\ length (words 2 3) = 14 /\ length (words 1 3) = 3.
Proof. vm_compute. repeat split. Qed.
Lemma same_words_sound a b : same_words a b = true -> forall w, mem_w w a = true <-> mem_w w b = true.
Proof.
  unfold same_words. rewrite !andb_true_iff. intros [[[[_ _] _] H1] H2] w.
  rewrite forallb_forall in H1, H2.
  assert (K : forall x l, mem_w x l = true -> exists y, In y l /\ list_nat_eqb x y = true).
  { intros x l. unfold mem_w. rewrite existsb_exists. auto. }
  assert (E : forall x y, list_nat_eqb x y = true -> x = y).
  { induction x as [|a0 x IH]; intros [|b0 y] H; cbn in H; try discriminate; [reflexivity|].
    apply andb_true_iff in H. destruct H as [Ha Hb]. apply Nat.eqb_eq in Ha. subst. f_equal. apply IH. exact Hb. }
  split; intros Hm; destruct (K _ _ Hm) as [y [Hy Ey]]; apply E in Ey; subst y; [apply H1|apply H2]; exact Hy.
Qed.
