(* Proofs/C03_Vector.v — vectors as an inner-product space (property C03).
   Section RingLaws: any commutative ring (hence every field, Qc, R and Z — the
   integer scalar types where nothing overflows).  Section FieldLaws: division. *)

From Coq Require Import List Ring Field ZArith QArith Qcanon.
From CG Require Import Scalar Model.Vector Proofs.Tac.
Import ListNotations.
Set Implicit Arguments.

Ltac unfold_vec :=
  cbv [v1_add v2_add v3_add v4_add v1_sub v2_sub v3_sub v4_sub v1_neg v2_neg v3_neg v4_neg
       v1_mul_s v2_mul_s v3_mul_s v4_mul_s v1_div_s v2_div_s v3_div_s v4_div_s
       v1_rem_s v2_rem_s v3_rem_s v4_rem_s
       v1_add_ew v2_add_ew v3_add_ew v4_add_ew v1_sub_ew v2_sub_ew v3_sub_ew v4_sub_ew
       v1_mul_ew v2_mul_ew v3_mul_ew v4_mul_ew v1_div_ew v2_div_ew v3_div_ew v4_div_ew
       v1_rem_ew v2_rem_ew v3_rem_ew v4_rem_ew
       v1_add_ews v2_add_ews v3_add_ews v4_add_ews v1_sub_ews v2_sub_ews v3_sub_ews v4_sub_ews
       v1_mul_ews v2_mul_ews v3_mul_ews v4_mul_ews v1_div_ews v2_div_ews v3_div_ews v4_div_ews
       v1_rem_ews v2_rem_ews v3_rem_ews v4_rem_ews
       v1_smul v2_smul v3_smul v4_smul v1_sdiv v2_sdiv v3_sdiv v4_sdiv v1_srem v2_srem v3_srem v4_srem
       v1_sum v2_sum v3_sum v4_sum v1_product v2_product v3_product v4_product
       v1_zero v2_zero v3_zero v4_zero v1_from_value v2_from_value v3_from_value v4_from_value
       v1_dot v2_dot v3_dot v4_dot v1_magnitude2 v2_magnitude2 v3_magnitude2 v4_magnitude2
       v1_distance2 v2_distance2 v3_distance2 v4_distance2
       v1_lerp v2_lerp v3_lerp v4_lerp v1_project_on v2_project_on v3_project_on v4_project_on
       v1_unit_x v2_unit_x v2_unit_y v3_unit_x v3_unit_y v3_unit_z v4_unit_x v4_unit_y v4_unit_z v4_unit_w
       v2_perp_dot v3_cross v2_extend v3_extend v3_truncate v4_truncate
       v1_map v2_map v3_map v4_map v1_zip v2_zip v3_zip v4_zip
       v1_list v2_list v3_list v4_list
       v1x v2x v2y v3x v3y v3z v4x v4y v4z v4w lzip map fold_right repeat] in *.

Section RingLaws.
  Variable F : Type.
  Variable O : Ops F.
  Hypothesis Rth : ring_theory (zero O) (one O) (add O) (mul O) (sub O) (opp O) eq.
  Add Ring Rr : Rth.
  Local Notation "0" := (zero O).
  Local Notation "1" := (one O).
  Local Infix "+" := (add O).
  Local Infix "-" := (sub O).
  Local Infix "*" := (mul O).
  Local Notation "- x" := (opp O x).

  Ltac vring := intros; destruct_vecs; unfold_vec; vec_eq; try ring.

  (* ---- operations act component by component (memory order x,y,z,w) ---- *)
  Lemma v1_add_comp a b : v1_list (v1_add O a b) = lzip (add O) (v1_list a) (v1_list b). Proof. reflexivity. Qed.
  Lemma v2_add_comp a b : v2_list (v2_add O a b) = lzip (add O) (v2_list a) (v2_list b). Proof. reflexivity. Qed.
  Lemma v3_add_comp a b : v3_list (v3_add O a b) = lzip (add O) (v3_list a) (v3_list b). Proof. reflexivity. Qed.
  Lemma v4_add_comp a b : v4_list (v4_add O a b) = lzip (add O) (v4_list a) (v4_list b). Proof. reflexivity. Qed.
  Lemma v1_sub_comp a b : v1_list (v1_sub O a b) = lzip (sub O) (v1_list a) (v1_list b). Proof. reflexivity. Qed.
  Lemma v2_sub_comp a b : v2_list (v2_sub O a b) = lzip (sub O) (v2_list a) (v2_list b). Proof. reflexivity. Qed.
  Lemma v3_sub_comp a b : v3_list (v3_sub O a b) = lzip (sub O) (v3_list a) (v3_list b). Proof. reflexivity. Qed.
  Lemma v4_sub_comp a b : v4_list (v4_sub O a b) = lzip (sub O) (v4_list a) (v4_list b). Proof. reflexivity. Qed.
  Lemma v1_neg_comp a : v1_list (v1_neg O a) = map (opp O) (v1_list a). Proof. reflexivity. Qed.
  Lemma v2_neg_comp a : v2_list (v2_neg O a) = map (opp O) (v2_list a). Proof. reflexivity. Qed.
  Lemma v3_neg_comp a : v3_list (v3_neg O a) = map (opp O) (v3_list a). Proof. reflexivity. Qed.
  Lemma v4_neg_comp a : v4_list (v4_neg O a) = map (opp O) (v4_list a). Proof. reflexivity. Qed.
  Lemma v1_mul_s_comp a s : v1_list (v1_mul_s O a s) = map (fun c => c * s) (v1_list a). Proof. reflexivity. Qed.
  Lemma v2_mul_s_comp a s : v2_list (v2_mul_s O a s) = map (fun c => c * s) (v2_list a). Proof. reflexivity. Qed.
  Lemma v3_mul_s_comp a s : v3_list (v3_mul_s O a s) = map (fun c => c * s) (v3_list a). Proof. reflexivity. Qed.
  Lemma v4_mul_s_comp a s : v4_list (v4_mul_s O a s) = map (fun c => c * s) (v4_list a). Proof. reflexivity. Qed.
  Lemma v1_div_s_comp a s : v1_list (v1_div_s O a s) = map (fun c => div O c s) (v1_list a). Proof. reflexivity. Qed.
  Lemma v2_div_s_comp a s : v2_list (v2_div_s O a s) = map (fun c => div O c s) (v2_list a). Proof. reflexivity. Qed.
  Lemma v3_div_s_comp a s : v3_list (v3_div_s O a s) = map (fun c => div O c s) (v3_list a). Proof. reflexivity. Qed.
  Lemma v4_div_s_comp a s : v4_list (v4_div_s O a s) = map (fun c => div O c s) (v4_list a). Proof. reflexivity. Qed.
  Lemma v1_rem_s_comp a s : v1_list (v1_rem_s O a s) = map (fun c => rem O c s) (v1_list a). Proof. reflexivity. Qed.
  Lemma v2_rem_s_comp a s : v2_list (v2_rem_s O a s) = map (fun c => rem O c s) (v2_list a). Proof. reflexivity. Qed.
  Lemma v3_rem_s_comp a s : v3_list (v3_rem_s O a s) = map (fun c => rem O c s) (v3_list a). Proof. reflexivity. Qed.
  Lemma v4_rem_s_comp a s : v4_list (v4_rem_s O a s) = map (fun c => rem O c s) (v4_list a). Proof. reflexivity. Qed.

  (* the whole element-wise family, for an arbitrary binary scalar operation slot *)
  Definition ew_ops : list (F -> F -> F) := [add O; sub O; mul O; div O; rem O].
  Lemma v1_ew_comp a b :
    map (fun f => v1_list (f a b)) [v1_add_ew O; v1_sub_ew O; v1_mul_ew O; v1_div_ew O; v1_rem_ew O]
    = map (fun op => lzip op (v1_list a) (v1_list b)) ew_ops. Proof. reflexivity. Qed.
  Lemma v2_ew_comp a b :
    map (fun f => v2_list (f a b)) [v2_add_ew O; v2_sub_ew O; v2_mul_ew O; v2_div_ew O; v2_rem_ew O]
    = map (fun op => lzip op (v2_list a) (v2_list b)) ew_ops. Proof. reflexivity. Qed.
  Lemma v3_ew_comp a b :
    map (fun f => v3_list (f a b)) [v3_add_ew O; v3_sub_ew O; v3_mul_ew O; v3_div_ew O; v3_rem_ew O]
    = map (fun op => lzip op (v3_list a) (v3_list b)) ew_ops. Proof. reflexivity. Qed.
  Lemma v4_ew_comp a b :
    map (fun f => v4_list (f a b)) [v4_add_ew O; v4_sub_ew O; v4_mul_ew O; v4_div_ew O; v4_rem_ew O]
    = map (fun op => lzip op (v4_list a) (v4_list b)) ew_ops. Proof. reflexivity. Qed.
  Lemma v1_ews_comp a s :
    map (fun f => v1_list (f a s)) [v1_add_ews O; v1_sub_ews O; v1_mul_ews O; v1_div_ews O; v1_rem_ews O]
    = map (fun op => map (fun c => op c s) (v1_list a)) ew_ops. Proof. reflexivity. Qed.
  Lemma v2_ews_comp a s :
    map (fun f => v2_list (f a s)) [v2_add_ews O; v2_sub_ews O; v2_mul_ews O; v2_div_ews O; v2_rem_ews O]
    = map (fun op => map (fun c => op c s) (v2_list a)) ew_ops. Proof. reflexivity. Qed.
  Lemma v3_ews_comp a s :
    map (fun f => v3_list (f a s)) [v3_add_ews O; v3_sub_ews O; v3_mul_ews O; v3_div_ews O; v3_rem_ews O]
    = map (fun op => map (fun c => op c s) (v3_list a)) ew_ops. Proof. reflexivity. Qed.
  Lemma v4_ews_comp a s :
    map (fun f => v4_list (f a s)) [v4_add_ews O; v4_sub_ews O; v4_mul_ews O; v4_div_ews O; v4_rem_ews O]
    = map (fun op => map (fun c => op c s) (v4_list a)) ew_ops. Proof. reflexivity. Qed.

  (* ---- zero() is the all-zero vector and the additive identity ---- *)
  Lemma v1_zero_list : v1_list (v1_zero O) = repeat 0 1. Proof. reflexivity. Qed.
  Lemma v2_zero_list : v2_list (v2_zero O) = repeat 0 2. Proof. reflexivity. Qed.
  Lemma v3_zero_list : v3_list (v3_zero O) = repeat 0 3. Proof. reflexivity. Qed.
  Lemma v4_zero_list : v4_list (v4_zero O) = repeat 0 4. Proof. reflexivity. Qed.
  Lemma v1_add_zero v : v1_add O v (v1_zero O) = v /\ v1_add O (v1_zero O) v = v. Proof. split; vring. Qed.
  Lemma v2_add_zero v : v2_add O v (v2_zero O) = v /\ v2_add O (v2_zero O) v = v. Proof. split; vring. Qed.
  Lemma v3_add_zero v : v3_add O v (v3_zero O) = v /\ v3_add O (v3_zero O) v = v. Proof. split; vring. Qed.
  Lemma v4_add_zero v : v4_add O v (v4_zero O) = v /\ v4_add O (v4_zero O) v = v. Proof. split; vring. Qed.

  (* ---- abelian group / module laws ---- *)
  Lemma v1_add_comm a b : v1_add O a b = v1_add O b a. Proof. vring. Qed.
  Lemma v2_add_comm a b : v2_add O a b = v2_add O b a. Proof. vring. Qed.
  Lemma v3_add_comm a b : v3_add O a b = v3_add O b a. Proof. vring. Qed.
  Lemma v4_add_comm a b : v4_add O a b = v4_add O b a. Proof. vring. Qed.
  Lemma v1_add_assoc a b c : v1_add O (v1_add O a b) c = v1_add O a (v1_add O b c). Proof. vring. Qed.
  Lemma v2_add_assoc a b c : v2_add O (v2_add O a b) c = v2_add O a (v2_add O b c). Proof. vring. Qed.
  Lemma v3_add_assoc a b c : v3_add O (v3_add O a b) c = v3_add O a (v3_add O b c). Proof. vring. Qed.
  Lemma v4_add_assoc a b c : v4_add O (v4_add O a b) c = v4_add O a (v4_add O b c). Proof. vring. Qed.
  Lemma v1_sub_add_neg a b : v1_sub O a b = v1_add O a (v1_neg O b). Proof. vring. Qed.
  Lemma v2_sub_add_neg a b : v2_sub O a b = v2_add O a (v2_neg O b). Proof. vring. Qed.
  Lemma v3_sub_add_neg a b : v3_sub O a b = v3_add O a (v3_neg O b). Proof. vring. Qed.
  Lemma v4_sub_add_neg a b : v4_sub O a b = v4_add O a (v4_neg O b). Proof. vring. Qed.
  Lemma v1_add_neg a : v1_add O a (v1_neg O a) = v1_zero O. Proof. vring. Qed.
  Lemma v2_add_neg a : v2_add O a (v2_neg O a) = v2_zero O. Proof. vring. Qed.
  Lemma v3_add_neg a : v3_add O a (v3_neg O a) = v3_zero O. Proof. vring. Qed.
  Lemma v4_add_neg a : v4_add O a (v4_neg O a) = v4_zero O. Proof. vring. Qed.
  Lemma v1_mul_s_distr a b s t :
    v1_mul_s O (v1_add O a b) s = v1_add O (v1_mul_s O a s) (v1_mul_s O b s) /\
    v1_mul_s O a (s + t) = v1_add O (v1_mul_s O a s) (v1_mul_s O a t) /\
    v1_mul_s O (v1_mul_s O a s) t = v1_mul_s O a (s * t) /\ v1_mul_s O a 1 = a.
  Proof. repeat split; vring. Qed.
  Lemma v2_mul_s_distr a b s t :
    v2_mul_s O (v2_add O a b) s = v2_add O (v2_mul_s O a s) (v2_mul_s O b s) /\
    v2_mul_s O a (s + t) = v2_add O (v2_mul_s O a s) (v2_mul_s O a t) /\
    v2_mul_s O (v2_mul_s O a s) t = v2_mul_s O a (s * t) /\ v2_mul_s O a 1 = a.
  Proof. repeat split; vring. Qed.
  Lemma v3_mul_s_distr a b s t :
    v3_mul_s O (v3_add O a b) s = v3_add O (v3_mul_s O a s) (v3_mul_s O b s) /\
    v3_mul_s O a (s + t) = v3_add O (v3_mul_s O a s) (v3_mul_s O a t) /\
    v3_mul_s O (v3_mul_s O a s) t = v3_mul_s O a (s * t) /\ v3_mul_s O a 1 = a.
  Proof. repeat split; vring. Qed.
  Lemma v4_mul_s_distr a b s t :
    v4_mul_s O (v4_add O a b) s = v4_add O (v4_mul_s O a s) (v4_mul_s O b s) /\
    v4_mul_s O a (s + t) = v4_add O (v4_mul_s O a s) (v4_mul_s O a t) /\
    v4_mul_s O (v4_mul_s O a s) t = v4_mul_s O a (s * t) /\ v4_mul_s O a 1 = a.
  Proof. repeat split; vring. Qed.

  (* ---- sum() / product() fold all components ---- *)
  Lemma v1_sum_fold v : v1_sum v = fold_right (add O) 0 (v1_list v). Proof. vring. Qed.
  Lemma v2_sum_fold v : v2_sum O v = fold_right (add O) 0 (v2_list v). Proof. vring. Qed.
  Lemma v3_sum_fold v : v3_sum O v = fold_right (add O) 0 (v3_list v). Proof. vring. Qed.
  Lemma v4_sum_fold v : v4_sum O v = fold_right (add O) 0 (v4_list v). Proof. vring. Qed.
  Lemma v1_product_fold v : v1_product v = fold_right (mul O) 1 (v1_list v). Proof. vring. Qed.
  Lemma v2_product_fold v : v2_product O v = fold_right (mul O) 1 (v2_list v). Proof. vring. Qed.
  Lemma v3_product_fold v : v3_product O v = fold_right (mul O) 1 (v3_list v). Proof. vring. Qed.
  Lemma v4_product_fold v : v4_product O v = fold_right (mul O) 1 (v4_list v). Proof. vring. Qed.

  (* ---- dot: textbook sum of products, symmetric, bilinear; magnitude2 ---- *)
  Lemma v1_dot_spec a b : v1_dot O a b = fold_right (add O) 0 (lzip (mul O) (v1_list a) (v1_list b)). Proof. vring. Qed.
  Lemma v2_dot_spec a b : v2_dot O a b = fold_right (add O) 0 (lzip (mul O) (v2_list a) (v2_list b)). Proof. vring. Qed.
  Lemma v3_dot_spec a b : v3_dot O a b = fold_right (add O) 0 (lzip (mul O) (v3_list a) (v3_list b)). Proof. vring. Qed.
  Lemma v4_dot_spec a b : v4_dot O a b = fold_right (add O) 0 (lzip (mul O) (v4_list a) (v4_list b)). Proof. vring. Qed.
  Lemma v1_dot_sym a b : v1_dot O a b = v1_dot O b a. Proof. vring. Qed.
  Lemma v2_dot_sym a b : v2_dot O a b = v2_dot O b a. Proof. vring. Qed.
  Lemma v3_dot_sym a b : v3_dot O a b = v3_dot O b a. Proof. vring. Qed.
  Lemma v4_dot_sym a b : v4_dot O a b = v4_dot O b a. Proof. vring. Qed.
  Lemma v1_dot_bilinear a b c s t :
    v1_dot O (v1_add O (v1_mul_s O a s) (v1_mul_s O b t)) c = s * v1_dot O a c + t * v1_dot O b c /\
    v1_dot O c (v1_add O (v1_mul_s O a s) (v1_mul_s O b t)) = s * v1_dot O c a + t * v1_dot O c b.
  Proof. split; vring. Qed.
  Lemma v2_dot_bilinear a b c s t :
    v2_dot O (v2_add O (v2_mul_s O a s) (v2_mul_s O b t)) c = s * v2_dot O a c + t * v2_dot O b c /\
    v2_dot O c (v2_add O (v2_mul_s O a s) (v2_mul_s O b t)) = s * v2_dot O c a + t * v2_dot O c b.
  Proof. split; vring. Qed.
  Lemma v3_dot_bilinear a b c s t :
    v3_dot O (v3_add O (v3_mul_s O a s) (v3_mul_s O b t)) c = s * v3_dot O a c + t * v3_dot O b c /\
    v3_dot O c (v3_add O (v3_mul_s O a s) (v3_mul_s O b t)) = s * v3_dot O c a + t * v3_dot O c b.
  Proof. split; vring. Qed.
  Lemma v4_dot_bilinear a b c s t :
    v4_dot O (v4_add O (v4_mul_s O a s) (v4_mul_s O b t)) c = s * v4_dot O a c + t * v4_dot O b c /\
    v4_dot O c (v4_add O (v4_mul_s O a s) (v4_mul_s O b t)) = s * v4_dot O c a + t * v4_dot O c b.
  Proof. split; vring. Qed.
  Lemma v1_magnitude2_dot v : v1_magnitude2 O v = v1_dot O v v. Proof. reflexivity. Qed.
  Lemma v2_magnitude2_dot v : v2_magnitude2 O v = v2_dot O v v. Proof. reflexivity. Qed.
  Lemma v3_magnitude2_dot v : v3_magnitude2 O v = v3_dot O v v. Proof. reflexivity. Qed.
  Lemma v4_magnitude2_dot v : v4_magnitude2 O v = v4_dot O v v. Proof. reflexivity. Qed.
  Lemma v4_magnitude2_squares v :
    v4_magnitude2 O v = v4x v * v4x v + v4y v * v4y v + v4z v * v4z v + v4w v * v4w v.
  Proof. vring. Qed.

  (* ---- cross product (3-D) ---- *)
  Lemma cross_spec a b :
    v3_cross O a b = mkV3 (v3y a * v3z b - v3z a * v3y b)
                          (v3z a * v3x b - v3x a * v3z b)
                          (v3x a * v3y b - v3y a * v3x b).
  Proof. reflexivity. Qed.
  Lemma cross_anticomm a b : v3_cross O a b = v3_neg O (v3_cross O b a). Proof. vring. Qed.
  Lemma cross_orth a b : v3_dot O (v3_cross O a b) a = 0 /\ v3_dot O (v3_cross O a b) b = 0.
  Proof. split; vring. Qed.
  Lemma cross_lagrange a b :
    v3_magnitude2 O (v3_cross O a b) = v3_magnitude2 O a * v3_magnitude2 O b - v3_dot O a b * v3_dot O a b.
  Proof. vring. Qed.
  Lemma cross_triple a b c :
    v3_cross O a (v3_cross O b c) = v3_sub O (v3_mul_s O b (v3_dot O a c)) (v3_mul_s O c (v3_dot O a b)).
  Proof. vring. Qed.
  Lemma cross_bilinear a b c s t :
    v3_cross O (v3_add O (v3_mul_s O a s) (v3_mul_s O b t)) c
    = v3_add O (v3_mul_s O (v3_cross O a c) s) (v3_mul_s O (v3_cross O b c) t).
  Proof. vring. Qed.
  Lemma cross_units :
    v3_cross O (v3_unit_x O) (v3_unit_y O) = v3_unit_z O /\
    v3_cross O (v3_unit_y O) (v3_unit_z O) = v3_unit_x O /\
    v3_cross O (v3_unit_z O) (v3_unit_x O) = v3_unit_y O.
  Proof. repeat split; vring. Qed.

  (* ---- perp-dot (2-D) ---- *)
  Lemma perp_dot_spec a b : v2_perp_dot O a b = v2x a * v2y b - v2y a * v2x b. Proof. reflexivity. Qed.
  Lemma perp_dot_antisym a b : v2_perp_dot O a b = - v2_perp_dot O b a. Proof. vring. Qed.
  Lemma perp_dot_lagrange a b :
    v2_perp_dot O a b * v2_perp_dot O a b + v2_dot O a b * v2_dot O a b = v2_magnitude2 O a * v2_magnitude2 O b.
  Proof. vring. Qed.

  (* ---- scalar on the left agrees with scalar on the right for the commutative `*` ---- *)
  Lemma v4_smul_comm s v : v4_smul O s v = v4_mul_s O v s. Proof. vring. Qed.
  Lemma v3_smul_comm s v : v3_smul O s v = v3_mul_s O v s. Proof. vring. Qed.
  Lemma v2_smul_comm s v : v2_smul O s v = v2_mul_s O v s. Proof. vring. Qed.
  Lemma v1_smul_comm s v : v1_smul O s v = v1_mul_s O v s. Proof. vring. Qed.

  (* ---- lerp ---- *)
  Lemma v4_lerp_ends a b : v4_lerp O a b 0 = a /\ v4_lerp O a b 1 = b. Proof. split; vring. Qed.
  Lemma v3_lerp_ends a b : v3_lerp O a b 0 = a /\ v3_lerp O a b 1 = b. Proof. split; vring. Qed.
  Lemma v2_lerp_ends a b : v2_lerp O a b 0 = a /\ v2_lerp O a b 1 = b. Proof. split; vring. Qed.
  Lemma v1_lerp_ends a b : v1_lerp O a b 0 = a /\ v1_lerp O a b 1 = b. Proof. split; vring. Qed.
End RingLaws.

Section FieldLaws.
  Variable F : Type.
  Variable O : Ops F.
  Hypothesis Fth : field_theory (zero O) (one O) (add O) (mul O) (sub O) (opp O) (div O) (inv O) eq.
  Add Field Ff : Fth.
  Local Notation "0" := (zero O).
  Local Notation "1" := (one O).
  Local Infix "*" := (mul O).
  Local Infix "/" := (div O).

  Ltac vfield H := intros; destruct_vecs; unfold_vec; vec_eq; field; exact H.

  Lemma v1_div_mul v s : s <> 0 -> v1_mul_s O (v1_div_s O v s) s = v /\ v1_div_s O v s = v1_mul_s O v (1 / s).
  Proof. intro H; split; vfield H. Qed.
  Lemma v2_div_mul v s : s <> 0 -> v2_mul_s O (v2_div_s O v s) s = v /\ v2_div_s O v s = v2_mul_s O v (1 / s).
  Proof. intro H; split; vfield H. Qed.
  Lemma v3_div_mul v s : s <> 0 -> v3_mul_s O (v3_div_s O v s) s = v /\ v3_div_s O v s = v3_mul_s O v (1 / s).
  Proof. intro H; split; vfield H. Qed.
  Lemma v4_div_mul v s : s <> 0 -> v4_mul_s O (v4_div_s O v s) s = v /\ v4_div_s O v s = v4_mul_s O v (1 / s).
  Proof. intro H; split; vfield H. Qed.
End FieldLaws.


(* the compound-assignment forms compute the same vector as the value forms *)
Lemma assign_eq_value (F : Type) (O : Ops F) :
  (forall a b, v1_add_assign O a b = v1_add O a b) /\
  (forall a b, v1_sub_assign O a b = v1_sub O a b) /\
  (forall a s, v1_mul_assign O a s = v1_mul_s O a s) /\
  (forall a s, v1_div_assign O a s = v1_div_s O a s) /\
  (forall a s, v1_rem_assign O a s = v1_rem_s O a s) /\
  (forall a b, v1_add_assign_ew O a b = v1_add_ew O a b) /\
  (forall a s, v1_add_assign_ews O a s = v1_add_ews O a s) /\
  (forall a b, v1_sub_assign_ew O a b = v1_sub_ew O a b) /\
  (forall a s, v1_sub_assign_ews O a s = v1_sub_ews O a s) /\
  (forall a b, v1_mul_assign_ew O a b = v1_mul_ew O a b) /\
  (forall a s, v1_mul_assign_ews O a s = v1_mul_ews O a s) /\
  (forall a b, v1_div_assign_ew O a b = v1_div_ew O a b) /\
  (forall a s, v1_div_assign_ews O a s = v1_div_ews O a s) /\
  (forall a b, v1_rem_assign_ew O a b = v1_rem_ew O a b) /\
  (forall a s, v1_rem_assign_ews O a s = v1_rem_ews O a s) /\
  (forall a b, v2_add_assign O a b = v2_add O a b) /\
  (forall a b, v2_sub_assign O a b = v2_sub O a b) /\
  (forall a s, v2_mul_assign O a s = v2_mul_s O a s) /\
  (forall a s, v2_div_assign O a s = v2_div_s O a s) /\
  (forall a s, v2_rem_assign O a s = v2_rem_s O a s) /\
  (forall a b, v2_add_assign_ew O a b = v2_add_ew O a b) /\
  (forall a s, v2_add_assign_ews O a s = v2_add_ews O a s) /\
  (forall a b, v2_sub_assign_ew O a b = v2_sub_ew O a b) /\
  (forall a s, v2_sub_assign_ews O a s = v2_sub_ews O a s) /\
  (forall a b, v2_mul_assign_ew O a b = v2_mul_ew O a b) /\
  (forall a s, v2_mul_assign_ews O a s = v2_mul_ews O a s) /\
  (forall a b, v2_div_assign_ew O a b = v2_div_ew O a b) /\
  (forall a s, v2_div_assign_ews O a s = v2_div_ews O a s) /\
  (forall a b, v2_rem_assign_ew O a b = v2_rem_ew O a b) /\
  (forall a s, v2_rem_assign_ews O a s = v2_rem_ews O a s) /\
  (forall a b, v3_add_assign O a b = v3_add O a b) /\
  (forall a b, v3_sub_assign O a b = v3_sub O a b) /\
  (forall a s, v3_mul_assign O a s = v3_mul_s O a s) /\
  (forall a s, v3_div_assign O a s = v3_div_s O a s) /\
  (forall a s, v3_rem_assign O a s = v3_rem_s O a s) /\
  (forall a b, v3_add_assign_ew O a b = v3_add_ew O a b) /\
  (forall a s, v3_add_assign_ews O a s = v3_add_ews O a s) /\
  (forall a b, v3_sub_assign_ew O a b = v3_sub_ew O a b) /\
  (forall a s, v3_sub_assign_ews O a s = v3_sub_ews O a s) /\
  (forall a b, v3_mul_assign_ew O a b = v3_mul_ew O a b) /\
  (forall a s, v3_mul_assign_ews O a s = v3_mul_ews O a s) /\
  (forall a b, v3_div_assign_ew O a b = v3_div_ew O a b) /\
  (forall a s, v3_div_assign_ews O a s = v3_div_ews O a s) /\
  (forall a b, v3_rem_assign_ew O a b = v3_rem_ew O a b) /\
  (forall a s, v3_rem_assign_ews O a s = v3_rem_ews O a s) /\
  (forall a b, v4_add_assign O a b = v4_add O a b) /\
  (forall a b, v4_sub_assign O a b = v4_sub O a b) /\
  (forall a s, v4_mul_assign O a s = v4_mul_s O a s) /\
  (forall a s, v4_div_assign O a s = v4_div_s O a s) /\
  (forall a s, v4_rem_assign O a s = v4_rem_s O a s) /\
  (forall a b, v4_add_assign_ew O a b = v4_add_ew O a b) /\
  (forall a s, v4_add_assign_ews O a s = v4_add_ews O a s) /\
  (forall a b, v4_sub_assign_ew O a b = v4_sub_ew O a b) /\
  (forall a s, v4_sub_assign_ews O a s = v4_sub_ews O a s) /\
  (forall a b, v4_mul_assign_ew O a b = v4_mul_ew O a b) /\
  (forall a s, v4_mul_assign_ews O a s = v4_mul_ews O a s) /\
  (forall a b, v4_div_assign_ew O a b = v4_div_ew O a b) /\
  (forall a s, v4_div_assign_ews O a s = v4_div_ews O a s) /\
  (forall a b, v4_rem_assign_ew O a b = v4_rem_ew O a b) /\
  (forall a s, v4_rem_assign_ews O a s = v4_rem_ews O a s).
Proof. repeat split. Qed.

(* The laws hold for the instances the correspondence check executes and for
   the integer scalar types (Z: no overflow). *)
Definition ZOps : Ops Z :=
  mkOps 0%Z 1%Z Z.add Z.sub Z.mul Z.quot Z.opp (fun x => Z.quot 1 x) Z.rem Z.eqb Z.ltb Z.leb
        (fun q => Z.quot (Qnum q) (Zpos (Qden q))).
Lemma ZOps_ring : ring_theory (zero ZOps) (one ZOps) (add ZOps) (mul ZOps) (sub ZOps) (opp ZOps) eq.
Proof. exact InitialRing.Zth. Qed.
