(* Proofs/C07_Euler.v — Euler angles mean intrinsic X-Y-Z everywhere (property C07), algebraic part:
   any field, the scalar type's sines and cosines are arbitrary symbols. *)
From Coq Require Import List Ring Field QArith.
Local Close Scope Q_scope.
From CG Require Import Scalar Model.Vector Model.Point Model.Matrix Model.Angle Model.Quaternion Model.Metric Model.Rotation Model.Euler
                       Proofs.Tac Proofs.Alg.
Import ListNotations.
Set Implicit Arguments.

Section Alg.
  Variable F : Type.
  Variable O : Ops F.
  Hypothesis Rth : ring_theory (Scalar.zero O) (Scalar.one O) (add O) (mul O) (sub O) (opp O) eq.
  Hypothesis Hq : OfQHom O.
  Add Ring Rr : Rth.
  Set Default Proof Using "Rth Hq".
  Variable T : Trig F.
  Variable U : Unit F.

  Ltac prep := intros; unfold_euler; unfold_rot; unfold_quat; unfold_model; rewrite ?(ofQ_two O Hq) in *.

  (* Matrix3 / Matrix4 / Basis3 from Euler{x,y,z} = from_angle_x(x) * from_angle_y(y) * from_angle_z(z) *)
  Lemma m3_of_euler_xyz e :
    m3_of_euler O T U e = m3_mul O (m3_mul O (m3_from_angle_x O T U (ex e)) (m3_from_angle_y O T U (ey e))) (m3_from_angle_z O T U (ez e)).
  Proof. destruct e. prep. mat_eq; ring. Qed.
  Lemma m4_of_euler_xyz e :
    m4_of_euler O T U e = m4_mul O (m4_mul O (m4_from_angle_x O T U (ex e)) (m4_from_angle_y O T U (ey e))) (m4_from_angle_z O T U (ez e)) /\
    m4_of_euler O T U e = m4_of_m3 O (m3_of_euler O T U e).
  Proof. destruct e. prep. split; mat_eq; try reflexivity; ring. Qed.
  Lemma basis3_of_euler_xyz e :
    basis3_of_euler O T U e = basis3_mul O (basis3_mul O (basis3_from_angle_x O T U (ex e)) (basis3_from_angle_y O T U (ey e)))
                                          (basis3_from_angle_z O T U (ez e)).
  Proof. exact (m3_of_euler_xyz e). Qed.
  (* Quaternion from Euler = qx * qy * qz (half angles) *)
  Lemma quat_of_euler_xyz e :
    quat_of_euler O T U e = quat_mul O (quat_mul O (quat_from_angle_x O T U (ex e)) (quat_from_angle_y O T U (ey e)))
                                       (quat_from_angle_z O T U (ez e)).
  Proof. destruct e. prep. quat_eq; ring. Qed.
End Alg.
