(* Proofs/C06_Angle.v — angle and axis-angle constructors give proper right-handed rotations (property C06).
   Algebraic part: any field; the sine and cosine the scalar type returns are arbitrary symbols
   (s, c), constrained where needed by s^2 + c^2 = 1 and by the double-angle / addition formulas. *)
From Coq Require Import List Ring Field Nsatz QArith.
From Coq Require Import Algebra_syntax Ncring Cring Integral_domain.
Local Close Scope Q_scope.
From CG Require Import Scalar Model.Vector Model.Point Model.Matrix Model.Angle Model.Quaternion Model.Metric Model.Rotation
                       Proofs.Tac Proofs.Alg Proofs.NsatzField.
Import ListNotations.
Set Implicit Arguments.

Section Alg.
  Variable F : Type.
  Variable O : Ops F.
  Hypothesis Fth : field_theory (Scalar.zero O) (Scalar.one O) (add O) (mul O) (sub O) (opp O) (div O) (inv O) eq.
  Hypothesis Fdec : EqDec O.
  Hypothesis Hq : OfQHom O.
  Add Field Ff : Fth.
  Local Instance i0 : @Ring_ops F (Scalar.zero O) (Scalar.one O) (add O) (mul O) (sub O) (opp O) (@eq F) := Fops F O.
  Local Instance i1 : Ring (Ro:=i0) := Fri F O Fth.
  Local Instance i2 : Cring (Rr:=i1) := Fcri F O Fth.
  Local Instance i3 : Integral_domain (Rcr:=i2) := Fdi F O Fth Fdec.
  Set Default Proof Using "Fth Fdec Hq".
  Variable T : Trig F.
  Variable U : Unit F.
  Local Notation "0" := (Scalar.zero O).
  Local Notation "1" := (Scalar.one O).
  Local Infix "+" := (add O).
  Local Infix "-" := (sub O).
  Local Infix "*" := (mul O).
  (* the sine and cosine of the angle t as the scalar type reports them *)
  Definition sn (t : F) : F := Scalar.sin T (to_rad U t).
  Definition cs (t : F) : F := Scalar.cos T (to_rad U t).
  (* Rodrigues' formula: v cos t + (a x v) sin t + a (a.v)(1 - cos t) *)
  Definition rodrigues (a v : V3 F) (s c : F) : V3 F :=
    v3_add O (v3_add O (v3_mul_s O v c) (v3_mul_s O (v3_cross O a v) s)) (v3_mul_s O a (v3_dot O a v * (1 - c))).

  Ltac prep := intros; destruct_quats; unfold rodrigues, sn, cs in *; unfold_rot; unfold_quat; unfold_model;
               rewrite ?(ofQ_two O Hq) in *.

  (* ---- matrices: Rodrigues for every axis (unit or not) and every value of (sin, cos) ---- *)
  Lemma m3_axis_angle_rodrigues a t v :
    m3_mul_v O (m3_from_axis_angle O T U a t) v = rodrigues a v (sn t) (cs t).
  Proof. prep. f_equal; ring. Qed.
  Lemma m4_axis_angle_rodrigues a t v :
    m4_transform_vector O (m4_from_axis_angle O T U a t) v = rodrigues a v (sn t) (cs t) /\
    m4_from_axis_angle O T U a t = m4_of_m3 O (m3_from_axis_angle O T U a t).
  Proof. prep. split; [f_equal; ring|reflexivity]. Qed.
  Lemma basis3_axis_angle_rodrigues a t v :
    basis3_rotate_vector O (basis3_from_axis_angle O T U a t) v = rodrigues a v (sn t) (cs t).
  Proof. exact (m3_axis_angle_rodrigues a t v). Qed.
  (* from_angle_x/y/z = from_axis_angle about the unit axes *)
  Lemma from_angle_xyz_are_axis t :
    m3_from_angle_x O T U t = m3_from_axis_angle O T U (v3_unit_x O) t /\
    m3_from_angle_y O T U t = m3_from_axis_angle O T U (v3_unit_y O) t /\
    m3_from_angle_z O T U t = m3_from_axis_angle O T U (v3_unit_z O) t /\
    m4_from_angle_x O T U t = m4_from_axis_angle O T U (v3_unit_x O) t /\
    m4_from_angle_y O T U t = m4_from_axis_angle O T U (v3_unit_y O) t /\
    m4_from_angle_z O T U t = m4_from_axis_angle O T U (v3_unit_z O) t /\
    quat_from_angle_x O T U t = quat_from_axis_angle O T U (v3_unit_x O) t /\
    quat_from_angle_y O T U t = quat_from_axis_angle O T U (v3_unit_y O) t /\
    quat_from_angle_z O T U t = quat_from_axis_angle O T U (v3_unit_z O) t.
  Proof. prep. repeat split; mat_eq; try reflexivity; ring. Qed.
  (* with sin^2 + cos^2 = 1 and a unit axis: fixes the axis, orthonormal, determinant +1 *)
  Lemma m3_axis_angle_rotation a t : sn t * sn t + cs t * cs t = 1 -> v3_magnitude2 O a = 1 ->
    m3_mul_v O (m3_from_axis_angle O T U a t) a = a /\
    m3_mul O (m3_from_axis_angle O T U a t) (m3_transpose (m3_from_axis_angle O T U a t)) = m3_identity O /\
    m3_determinant O (m3_from_axis_angle O T U a t) = 1.
  Proof.
    unfold sn, cs. destruct a as [x y z]. unfold_rot; unfold_model.
    generalize (Scalar.sin T (to_rad U t)) (Scalar.cos T (to_rad U t)). intros s c H1 H2.
    repeat split; mat_eq; nsatz.
  Qed.
  (* composition about a common unit axis adds angles (given the addition formulas) *)
  Lemma m3_axis_angle_add a t1 t2 t12 : v3_magnitude2 O a = 1 ->
    sn t12 = sn t1 * cs t2 + cs t1 * sn t2 -> cs t12 = cs t1 * cs t2 - sn t1 * sn t2 ->
    m3_mul O (m3_from_axis_angle O T U a t1) (m3_from_axis_angle O T U a t2) = m3_from_axis_angle O T U a t12.
  Proof.
    unfold sn, cs. destruct a as [x y z]. unfold_rot; unfold_model.
    generalize (Scalar.sin T (to_rad U t1)) (Scalar.cos T (to_rad U t1)) (Scalar.sin T (to_rad U t2)) (Scalar.cos T (to_rad U t2))
               (Scalar.sin T (to_rad U t12)) (Scalar.cos T (to_rad U t12)).
    intros s1 c1 s2 c2 s12 c12 H E1 E2. mat_eq; nsatz.
  Qed.

  (* ---- quaternion: half angle; Rodrigues given the double-angle relations ---- *)
  Definition snh (t : F) : F := Scalar.sin T (to_rad U t * ofQ O q_half).
  Definition csh (t : F) : F := Scalar.cos T (to_rad U t * ofQ O q_half).
  Lemma quat_axis_angle_spec a t : quat_from_axis_angle O T U a t = quat_from_sv (csh t) (v3_mul_s O a (snh t)).
  Proof. reflexivity. Qed.
  Lemma quat_axis_angle_rodrigues a t v : v3_magnitude2 O a = 1 -> snh t * snh t + csh t * csh t = 1 ->
    quat_mul_v O (quat_from_axis_angle O T U a t) v
    = rodrigues a v ((1 + 1) * snh t * csh t) (csh t * csh t - snh t * snh t).
  Proof.
    unfold snh, csh. destruct a as [x y z], v as [p q r]. unfold rodrigues. unfold_rot; unfold_quat; unfold_model.
    rewrite ?(ofQ_two O Hq).
    generalize (Scalar.sin T (to_rad U t * ofQ O q_half)) (Scalar.cos T (to_rad U t * ofQ O q_half)). intros s c H1 H2.
    f_equal; nsatz.
  Qed.
  Lemma quat_axis_angle_unit a t : v3_magnitude2 O a = 1 -> snh t * snh t + csh t * csh t = 1 ->
    quat_magnitude2 O (quat_from_axis_angle O T U a t) = 1.
  Proof.
    unfold snh, csh. destruct a as [x y z]. unfold_rot; unfold_quat; unfold_model.
    generalize (Scalar.sin T (to_rad U t * ofQ O q_half)) (Scalar.cos T (to_rad U t * ofQ O q_half)). intros s c H1 H2. nsatz.
  Qed.
  Lemma quat_axis_angle_add a t1 t2 t12 : v3_magnitude2 O a = 1 ->
    snh t12 = snh t1 * csh t2 + csh t1 * snh t2 -> csh t12 = csh t1 * csh t2 - snh t1 * snh t2 ->
    quat_mul O (quat_from_axis_angle O T U a t1) (quat_from_axis_angle O T U a t2) = quat_from_axis_angle O T U a t12.
  Proof.
    unfold snh, csh. destruct a as [x y z]. unfold_rot; unfold_quat; unfold_model.
    generalize (Scalar.sin T (to_rad U t1 * ofQ O q_half)) (Scalar.cos T (to_rad U t1 * ofQ O q_half))
               (Scalar.sin T (to_rad U t2 * ofQ O q_half)) (Scalar.cos T (to_rad U t2 * ofQ O q_half))
               (Scalar.sin T (to_rad U t12 * ofQ O q_half)) (Scalar.cos T (to_rad U t12 * ofQ O q_half)).
    intros s1 c1 s2 c2 s12 c12 H E1 E2. quat_eq; nsatz.
  Qed.

  (* ---- 2-D ---- *)
  Lemma m2_from_angle_spec t :
    m2_mul_v O (m2_from_angle O T U t) (v2_unit_x O) = mkV2 (cs t) (sn t) /\
    m2_mul_v O (m2_from_angle O T U t) (v2_unit_y O) = mkV2 (opp O (sn t)) (cs t) /\
    basis2_from_angle O T U t = m2_from_angle O T U t.
  Proof. prep. repeat split; f_equal; ring. Qed.
  Lemma m2_from_angle_rotation t : sn t * sn t + cs t * cs t = 1 ->
    m2_mul O (m2_from_angle O T U t) (m2_transpose (m2_from_angle O T U t)) = m2_identity O /\
    m2_determinant O (m2_from_angle O T U t) = 1.
  Proof.
    unfold sn, cs. unfold_rot; unfold_model. generalize (Scalar.sin T (to_rad U t)) (Scalar.cos T (to_rad U t)). intros s c H.
    repeat split; mat_eq; nsatz.
  Qed.
  Lemma m2_from_angle_add t1 t2 t12 :
    sn t12 = sn t1 * cs t2 + cs t1 * sn t2 -> cs t12 = cs t1 * cs t2 - sn t1 * sn t2 ->
    m2_mul O (m2_from_angle O T U t1) (m2_from_angle O T U t2) = m2_from_angle O T U t12.
  Proof.
    unfold sn, cs. unfold_rot; unfold_model.
    generalize (Scalar.sin T (to_rad U t1)) (Scalar.cos T (to_rad U t1)) (Scalar.sin T (to_rad U t2)) (Scalar.cos T (to_rad U t2))
               (Scalar.sin T (to_rad U t12)) (Scalar.cos T (to_rad U t12)).
    intros s1 c1 s2 c2 s12 c12 E1 E2. mat_eq; nsatz.
  Qed.
  (* rotate_point(p) = rotate_vector(p - origin) + origin for the four Rotation impls that are not quaternions *)
  Lemma rotate_point_defs (b2 : M2 F) (b3 : M3 F) p2' p3' :
    basis2_rotate_point O b2 p2' = p2_from_vec (basis2_rotate_vector O b2 (p2_sub_p O p2' (p2_origin O))) /\
    basis3_rotate_point O b3 p3' = p3_from_vec (basis3_rotate_vector O b3 (p3_sub_p O p3' (p3_origin O))).
  Proof. destruct_mats. unfold_rot; unfold_model. split; f_equal; ring. Qed.
End Alg.
