#!/usr/bin/env python3
"""Writes MANIFEST.json from the table below (kept as a script so that the 20 entries stay consistent)."""
import json, os
ROOT = os.path.dirname(os.path.abspath(__file__))
ALL = ["C%02d" % i for i in range(1, 21)]

TIE = ("The model is tied to /repo on every run by an exact-arithmetic correspondence: the real generic code is executed at an exact rational "
       "scalar on generated inputs and the model is evaluated on the same inputs inside Coq (vm_compute); executable statements of the property "
       "clauses are also evaluated on the implementation to find a concrete failing input. ")
SYMTIE = ("Additionally (C01-C16, C18), a symbolic tie is re-established on every run: the compiled generic code is executed on symbolic scalars, all its "
          "paths are enumerated, and each path becomes a Coq lemma `forall inputs, path conditions -> model dispatcher = code output` over an "
          "arbitrary field with uninterpreted oracles, proved by coqc in that run (DESIGN 11); the evidence lists the functions tied for all inputs, "
          "those not symbolically executable (index arguments) and any lemma not established. ")
SYM_PROPS = ["C%02d" % i for i in range(1, 17)] + ["C18"]
NOTE = ("Trusted: Coq kernel + vm_compute; axioms as listed per theorem in the evidence file (Print Assumptions, re-parsed every run). The model is "
        "hand-written: the tie to the code is differential (checked on the explored inputs), not a proof of model = code. ")
RAX = ("Axioms (standard library, as printed by Print Assumptions for the theorems over R): ClassicalDedekindReals.sig_forall_dec, "
       "ClassicalDedekindReals.sig_not_dec, FunctionalExtensionality.functional_extensionality_dep, Classical_Prop.classic; "
       "theorems over abstract rings/fields are closed under the global context. ")
CLAIMED = {
 "C08": dict(
   text="Machine-checked Coq theorems: for Decomposed over ANY rotation type satisfying ten stated laws (RotLaws3 / RotLaws2) on its valid elements, and any field: "
        "concat/Mul/concat_self compose on points and vectors, one() is neutral, transform_vector ignores displacement, inverse_transform is None iff the "
        "ulps-comparison of scale with 0 holds and otherwise undoes the transform on points and vectors on both sides (scale != 0), inverse_transform_vector agrees, and "
        "conversion to Matrix4/Matrix3 commutes with applying, composing and inverting; a theorem that unit quaternions, orthonormal Basis3 and orthonormal Basis2 satisfy "
        "the laws; the same composition/inversion laws for Matrix3 as a 3-D transform (all matrices) and for affine Matrix4 / Matrix3-as-2-D transforms. " + TIE +
        "Scales include 0, negative, negligible (2^-60) and small (1e-5) values; all five Transform implementations are exercised.",
   note=NOTE + "No axioms. ulps_eq! is an oracle of the scalar type (Approx record); matrix laws are for affine matrices (documented domain of Transform).",
   design="6 (C08)", technique="Coq proof over an abstract rotation type with stated laws + instances; exact-rational correspondence"),
 "C10": dict(
   text="Machine-checked Coq theorems (any field, denominators non-zero): ortho is affine and maps the eight box corners to the cube corners (near -> -1, far -> +1); "
        "frustum has w = -z and maps the near rectangle and the similar far rectangle onto the z = -1 / z = +1 faces; perspective's matrix equals frustum's of the "
        "symmetric window n*tan(fovy/2) x aspect (tan an arbitrary oracle symbol); planar maps the z = 0 window to [-1,1]^2, z = -n -> -1, z = -f -> +1 and its w vanishes "
        "exactly at z = (h/2)cot(fovy/2). Over R with an abs_diff_eq oracle specified by ApproxSpecR: every listed precondition violation makes the constructor return "
        "None (= panic) and valid tuples are accepted. " + TIE + "Valid asymmetric windows, rational tangents, and tuples violating exactly one precondition (panic <-> None).",
   note=NOTE + RAX + "planar with fovy = 0 (float-only division by zero) is not claimed.",
   design="6 (C10)", technique="Coq proof (field identities; case analysis over R for the assertions) + exact-rational correspondence"),
 "C12": dict(
   text="Machine-checked Coq theorems for points of dimension 1-3 over any commutative ring/field: affine-space laws, to_vec/from_vec inverse, origin, component-wise "
        "action of every point operator and element-wise method, point-vector dot, midpoint (definition and (p+q)/2 form), centroid = sum of position vectors / n for "
        "EVERY list (induction over the list, fold_left as in the code), homogeneous round trip for k != 0. " + TIE + "Lists of length 1..40; native i32 runs against the Z instance.",
   note=NOTE + "No axioms.", design="6 (C12)", technique="Coq proof (ring/field, list induction) + exact-rational correspondence"),
 "C04": dict(
   text="Machine-checked Coq theorems over the Gallina model of src/quaternion.rs, for all quaternions over any commutative ring/field: associativity, "
        "distributivity, identity, Hamilton's relations, conjugate anti-homomorphism, multiplicative norm, two-sided inverse when |q|^2 != 0 (over R: when q != 0), "
        "the literal q*v formula, the sandwich identity in general form q*v = vec(q(0,v)q*) + (1-|q|^2)v with its unit corollary, length preservation "
        "(|q*v|^2 = |v|^2 + 4(|q|^2-1)|qv x v|^2) and composition ((pq)*v - p*(q*v) = (|p|^2-1)(q*v-v) + (|q|^2-1)(p*v-v)) with unit corollaries. " + TIE +
        "Inputs alternate arbitrary rational quaternions and exactly unit ones (rational points of the 3-sphere).",
   note=NOTE + RAX, design="6 (C04)", technique="Coq proof (ring identities with explicit correction terms) + exact-rational correspondence"),
 "C05": dict(
   text="Machine-checked Coq theorems: M(q)v = q*v for Matrix3/Basis3/Matrix4 and every q (any field); for unit q the matrix is orthonormal with det +1 and "
        "M(pq) = M(p)M(q) (nsatz over an abstract field with decidable equality); over R, Q(M(q)) = q or -q proved branch by branch through the four-way "
        "case split of From<Matrix3> for Quaternion (each square-root argument shown to be 4a^2 with a != 0), plus a theorem that all four branches are inhabited. " + TIE +
        "The generator enforces a quota of unit quaternions per branch (the branch is recorded in the evidence histogram).",
   note=NOTE + RAX + "sqrt is the real square root (oracle for f32/f64).", design="6 (C05)",
   technique="Coq proof (ring/nsatz over abstract field; case analysis over R) + exact-rational correspondence with per-branch quotas"),
 "C01": dict(
   text="Machine-checked Coq theorems over the Gallina model of src/matrix.rs for every 2x2/3x3/4x4 matrix over any commutative ring/field: "
        "layout of new/from_cols (element (c,r) = r-th component of column c, column-major flat image, out-of-range index = panic), "
        "A*v = sum of columns scaled by v[c] and = textbook row sums, column c of A*B = A*(column c of B) and textbook sigma formula, "
        "row/transpose/diagonal/trace, embeddings, identity/from_value/from_diagonal/from_scale/from_translation by their action on points and vectors, "
        "element-wise +,-,neg,scalar ops, ring laws and linear action. " + TIE,
   note=NOTE + "No axioms. Operand forms (by-ref/by-value) are property C17.",
   design="6 (C01)", technique="Coq proof (ring/field, all entries symbolic) + exact-rational model/implementation correspondence"),
 "C02": dict(
   text="Machine-checked Coq theorems for every square matrix of dimension 2-4 over any field with decidable ==: invert = None iff det = 0, otherwise "
        "M*N = N*M = I (the 4x4 inverse modelled as in the code: det_sub_proc on the flat array with its index arithmetic, 16 cofactors via transpose/"
        "truncate_n/3x3 determinant); determinant = Leibniz permutation sum, multiplicative, transpose-invariant; transpose involution and "
        "anti-homomorphism; transpose_self = transpose; swap_rows/columns/elements and replace_col for all index values (out-of-range = panic); "
        "inverse_transform = invert. " + TIE + "The correspondence includes exactly singular and nearly singular (det ~1e-12) matrices and every index pair.",
   note=NOTE + "No axioms. EqbSpec (== decides equality) is a hypothesis on the scalar type, proved for Qc.",
   design="6 (C02)", technique="Coq proof (field, 16 symbolic entries) + exact-rational model/implementation correspondence"),
 "C03": dict(
   text="Machine-checked Coq theorems (9 theorems + 4 non-vacuity examples) over the hand-written Gallina model of src/vector.rs: "
        "component-wise action of every operator and of the ElementWise family, zero identity, module laws, dot symmetric/bilinear, "
        "magnitude2, sum/product as folds, cross-product identities (anticommutativity, orthogonality, Lagrange, triple product), perp_dot — "
        "for every commutative ring (hence all fields, Qc, and Z for the integer types without overflow) and all dimensions 1-4, no bound on inputs. "
        "The model is tied to /repo on every run by an exact-arithmetic correspondence: the real generic code is executed at an exact rational "
        "scalar (and natively at i16/i32/i64/u8) on ~2.3k generated inputs and the model is evaluated on the same inputs inside Coq (vm_compute); "
        "executable statements of the property clauses are also evaluated on the implementation to find a concrete failing input.",
   note="Trusted: Coq kernel + vm_compute; no axioms (all theorems closed under the global context). The model is hand-written: the tie to the "
        "code is differential (checked on the explored inputs), not a proof of model = code. Overflow of the integer types is outside the property.",
   design="6 (C03)", technique="Coq proof (ring/field over abstract commutative ring) + exact-rational model/implementation correspondence"),
}

CLAIMED.update({
 "C06": dict(
   text="Machine-checked Coq theorems: from_axis_angle for Matrix3/Matrix4/Quaternion/Basis3 equals Rodrigues' formula v cos t + (a x v) sin t + a (a.v)(1 - cos t) "
        "for every unit axis, angle and vector (over any field from cos^2+sin^2 = 1 and the half-angle identities; over R outright), is a proper rotation "
        "(orthonormal, det +1, fixes the axis), angles about one axis add and a full turn is the identity, from_angle_x/y/z are the special cases, the 2-D from_angle "
        "is the counter-clockwise rotation and composes additively, Rad and Deg express the same rotation, invert is the transpose/conjugate and undoes the rotation, "
        "rotate_point = origin + rotate_vector(p - origin). " + TIE + "Angles are drawn from a lattice on which sin/cos are exactly rational (semantic oracle passed to Coq as a table).",
   note=NOTE + RAX + "sin/cos/sqrt are oracles (Trig record) constrained only by the stated identities; over R they are the standard library's.",
   design="6 (C06)", technique="Coq proof (nsatz/field over abstract field + R instance) + exact-rational correspondence with rational-trig oracle"),
 "C07": dict(
   text="Machine-checked Coq theorems: From<Euler> for Quaternion/Matrix3/Matrix4/Basis3 is the intrinsic X-then-Y-then-Z product Rx*Ry*Rz (any commutative ring with "
        "sin/cos oracle identities); over R, From<Quaternion> for Euler returns angles whose conversion back gives the same rotation (q or -q) on the regular branch, and on "
        "the two gimbal branches returns y = +-pi/2, z = 0 and an x that reproduces the rotation when the test value is exactly +-1/2; the threshold constants are checked "
        "(0.499 < 1/2, unit test value range). Inside both gimbal-lock cones the rotation rebuilt from the reported angles is within 0.13 of q's rotation in every matrix element (C07_gimbal_bound, over R, from exact identities for the four 2-vectors involved; the worst case is about 0.071); the same bound is also sampled natively in f64. " + TIE,
   note=NOTE + RAX + "Interval tactic used for numeric constants (its primitive-integer/float kernel primitives appear in Print Assumptions and are allowlisted by pattern). "
        "The 0.13 clause is a theorem over the reals (exact sin/cos/atan2); its native f64 counterpart is an executed predicate.",
   design="6 (C07)", technique="Coq proof (ring identities; real analysis over R with atan2/asin) + exact-rational correspondence with trig oracle and float fallback"),
 "C16": dict(
   text="Machine-checked Coq theorems over a polymorphic model of the memory layout: every array/tuple/mint conversion round-trips and lists the components in declaration "
        "order, Index/IndexMut agree with the fields and writes touch exactly one component (out of range = panic), matrix views are column-major, swap/slices behave as on "
        "the flat array, map/zip are structural; the swizzle generator (model of build.rs) produces exactly the 550 operators and each selects the named components in order. "
        "The generated table in the build output is re-parsed every run and compared entry-by-entry with the model's (vm_compute, exhaustive). " + TIE +
        "All 550 swizzle methods are called on the implementation.",
   note=NOTE + "No axioms. Layout is observed through AsRef/Into/mint conversions and raw pointer reads in the harness.",
   design="6 (C16)", technique="Coq proof (polymorphic structural lemmas + exhaustive finite table by vm_compute) + correspondence incl. the build-script output"),
 "C17": dict(
   text="Machine-checked Coq theorems: an operator expression means the same whatever the spelling of its operands (value/reference, op= vs op) — proved for a small "
        "instruction language whose interpreter erases the operand form, for every program; scalar-on-the-left equals scalar-on-the-right for commutative scalars; "
        "Sum/Product over iterators by value and by reference equal the folds. " + TIE + "Every operator x every operand form x every type is executed on the implementation "
        "(macro-generated harness) and compared with the model's single meaning.",
   note=NOTE + "No axioms.", design="6 (C17)", technique="Coq proof (interpreter with erased forms, induction over programs) + exhaustive form-by-form correspondence"),
 "C18": dict(
   text="Machine-checked Coq theorems for any scalar relation sc: the compound abs_diff_eq/relative_eq/ulps_eq is exactly the conjunction of sc over all components "
        "(vectors, points, matrices column by column, quaternions, Euler, Decomposed, angles), with its consequences (reflexive/symmetric when sc is; a single failing "
        "component fails the whole); is_finite is the conjunction; is_identity/is_zero/is_diagonal/is_symmetric/is_invertible/is_perpendicular are the documented comparisons "
        "against the reference objects (off-diagonal index set computed and proved complete). " + TIE + "Native f32/f64 answers are compared with the scalar crate's per component.",
   note=NOTE + "No axioms. The scalar relations (approx crate) are an oracle.", design="6 (C18)",
   technique="Coq proof (structural, relation-parametric) + correspondence at exact rationals and native floats"),
 "C19": dict(
   text="Machine-checked Coq theorems: cast on every compound type is Some of the component-wise casts iff every component cast is Some, and None otherwise "
        "(all-or-nothing), for ANY scalar cast function. " + TIE + "All 12x12 scalar type pairs are executed with the scalar NumCast answers handed to the model as an oracle table.",
   note=NOTE + "No axioms. num_traits::NumCast is an oracle.", design="6 (C19)",
   technique="Coq proof (parametric in the scalar cast) + exhaustive type-pair correspondence"),
 "C20": dict(
   text="Machine-checked Coq theorems over a model of the serde data model (tree of named fields/newtypes/leaves): deserialize(serialize v) = Some v for every serialisable "
        "type given leaf round trip; the serialised tree carries exactly the public field names (x y z w / v s / scale rot disp / bare numbers for angles); the hand-written "
        "Decomposed visitor (modelled as a fold over the document entries) accepts the three fields in every order (Permutation), rejects any document with an unknown key or "
        "a missing field. The model is tied to /repo by serialising real values through serde_json and comparing the JSON tree with the model's, and by feeding Decomposed "
        "documents (all orders, omissions, unknown/duplicate keys) to the real deserialiser; bit-for-bit float round trip through JSON text is an executed predicate.",
   note=NOTE + "No axioms. serde derive expansion and serde_json are outside the model (format oracle); serde_json needs its float_roundtrip feature for exact float parsing.",
   design="6 (C20)", technique="Coq proof (structural round trip, Permutation-invariance of the visitor fold) + serde_json tree/document correspondence"),
})

CLAIMED.update({
 "C11": dict(
   text="Machine-checked Coq theorems over the reals, for vectors of dimension 1-4, quaternions and points 1-3: magnitude^2 = magnitude2 >= 0; distance is symmetric, equals magnitude(u - v) and "
        "distance2 is its square; for v of non-zero length normalize_to(v, m) has length |m| and is v times a factor that is positive for m > 0, normalize = normalize_to(1); "
        "angle(u,v) satisfies |u||v| cos(angle) = u.v, lies in [0, pi] and is symmetric for dimensions 1, 3, 4 and quaternions (Cauchy-Schwarz via Lagrange's identity; 3-D through atan2(|u x v|, u.v) "
        "with |u||v| sin = |u x v|); in 2-D it is the signed counter-clockwise angle in [-pi, pi] (|u||v| sin = perp_dot, and rotating u by it gives the direction of v); "
        "project_on(u,v) = v (u.v / v.v) with u - project_on(u,v) orthogonal to v (any field). " + TIE +
        "Inputs have rational lengths so that every square root is exact; angle pairs lie at lattice directions of rational planes so that acos/atan2 are answered exactly.",
   note=NOTE + RAX + "sqrt/acos/atan2 are the real functions (oracles for f32/f64); native f64 is sampled with a 1e-9 tolerance only as an executed predicate.",
   design="6 (C11)", technique="Coq proof (real analysis: sqrt, acos, atan2 characterisation, Lagrange identity; field for project_on) + exact-rational correspondence"),
 "C13": dict(
   text="Machine-checked Coq theorems: over R, for any unit with positive full turn T: normalize(a) is the unique representative of a in [0,T), normalize_signed(a) the one in (-T/2, T/2], "
        "each differing from a by a whole number of turns; opposite(a) = normalize(a + T/2); bisect(a,b) is at signed distance -d/2 from a and +d/2 from b, d the shortest signed difference, hence "
        "equidistant and at most T/4 from each (the code as repaired by the fix: commit; the previous formula is refuted with the witness Deg(0).bisect(Deg(90)) = 315); turn_div_k * k = full turn, "
        "full turns are 360 and cast(2 pi) (within 2.5e-16 of 2 pi); sin/cos/tan/sin_cos/csc/sec/cot are the scalar functions of the radian measure (Deg: d * cast(pi/180)), inverse functions return the "
        "principal value converted to the caller's unit; + - * / % Sum act on the number. Native floats (Flocq, binary32 and binary64, round to nearest even, no overflow): Deg->Rad->Deg and "
        "Rad->Deg->Rad are within 4 machine epsilons above the subnormal range, and for EVERY input the rounded normalize stays in [0, full turn], normalize_signed in [-half, half]. " + TIE +
        "Native f32/f64 boundary sweeps and bitwise trig-wiring comparisons are executed predicates.",
   note=NOTE + RAX + "Flocq and the interval tactic add Classical_Prop.classic and the standard library's primitive-integer/float primitives (allowlisted by pattern). "
        "Float clauses assume fmod exact and no overflow; libm accuracy is outside the property.",
   design="6 (C13)", technique="Coq proof (modular arithmetic over R; Flocq rounding model for the float clauses; interval for constants) + exact-rational and native-float correspondence"),
})

CLAIMED.update({
 "C15": dict(
   text="Machine-checked Coq theorems over the reals, with ulps_eq! an oracle specified as reflexive and tolerance-bounded: for unit a, b not (treated as) parallel or antiparallel, "
        "Quaternion::between_vectors(a,b) is a unit quaternion r with r(a) = b exactly, positive scalar part, cos(rotation angle) = a.b and axis a positive multiple of a x b (perpendicular to both); "
        "for arbitrary non-zero lengths it maps the direction of a onto that of b; the identity is returned exactly when ulps_eq!(a.b, 1) (always for a = b); for antiparallel inputs the result is a "
        "half turn (scalar part 0) about a unit axis perpendicular to a with r(a) = -a; Basis3 is the matrix of that quaternion (same action, orthonormal, det +1); Basis2::between_vectors (as repaired "
        "by the fix: commit) is the proper rotation by the signed angle(a,b) in [-pi,pi] mapping a onto b, clockwise exactly when b is clockwise of a (the previous acos formula is refuted with a = (1,0), "
        "b = (0,-1)); Quaternion::from_arc(src,dst,f) for non-zero vectors of any lengths is a unit quaternion rotating src/|src| onto dst/|dst| through the smaller angle, the identity / the half-turn about "
        "the fallback (or a perpendicular unit) axis in the degenerate branches; with the binary64 parameters a degenerate answer means within 1e-7 rad (unit vectors) resp. 1e-4 rad (from_arc, "
        "|src||dst| >= 1e-6) of parallel/antiparallel. " + TIE + "Inputs lie in rational planes at angles whose half-angle has rational sine and cosine, so every normalisation is exact.",
   note=NOTE + RAX + "ulps_eq! (approx crate) is an oracle constrained by UlpsSpec; the interval tactic is used for the radian bounds (primitive-integer/float primitives allowlisted by pattern).",
   design="6 (C15)", technique="Coq proof (nsatz for the half-way quaternion identity, real analysis for branches and tolerances) + exact-rational correspondence incl. degenerate branches"),
})

CLAIMED.update({
 "C14": dict(
   text="Machine-checked Coq theorems: lerp(a,b,t) = a + (b-a)t with a at 0 and b at 1 (vectors 1-4, quaternions, any commutative ring); over the reals, for unit a, b and t in [0,1]: "
        "nlerp returns a unit quaternion that is a non-negative combination of a and b' = +-b (the sign with a.b' >= 0), equal to a at 0 and b' at 1; slerp for |a.b| <= cast(0.9995) returns "
        "a unit quaternion on the same arc with exact endpoints and a.slerp(t) = cos(t theta), acos(a.slerp(t)) = t theta, theta = acos|a.b| (constant angular speed, from the identities "
        "s1^2 + s2^2 + 2 s1 s2 cos theta = sin^2 theta and s1 + s2 cos theta = sin theta cos(t theta)); beyond the threshold slerp is nlerp on the same arc and the arc from a to the result is "
        "within 1e-5 rad of t theta (analytic bound |sin(psi - t theta)| <= theta^3/(6 n) via x - x^3/6 <= sin x <= x, theta <= 0.0317). " + TIE +
        "Inputs are unit quaternions in rational planes with chord points of rational length (nlerp) or lattice angles k*beta with t = j/k (slerp), so every normalisation is exact.",
   note=NOTE + RAX + "sqrt/sin/acos are the real functions (oracles for f32/f64); the interval tactic is used for three numeric constants. Matrix lerp is not modelled.",
   design="6 (C14)", technique="Coq proof (real analysis: trigonometric identities, Taylor bound of sin, monotonicity) + exact-rational correspondence on lattice inputs"),
})

CLAIMED.update({
 "C09": dict(
   text="Machine-checked Coq theorems over the reals, for every eye, non-zero direction d and up not parallel to d: Matrix3::look_to_rh / look_to_lh are orthonormal with determinant +1, send d to "
        "(0,0,-|d|) resp. (0,0,+|d|) and up into the half-plane x = 0, y > 0; Matrix4::look_to_rh / look_to_lh are affine with that Matrix3 as rotation part and act as p -> R(p - eye), so the eye goes "
        "to the origin; look_at_*(eye, center, up) = look_to_*(eye, center - eye, up), the left-handed constructors are the right-handed ones of the opposite direction, Rotation::look_at (Basis3, "
        "Quaternion) is the left-handed one; Decomposed<Vector3, Basis3>::look_at_rh / look_at_lh / look_at have scale 1, the Matrix3 rotation of the same handedness and the same action on every point "
        "as the Matrix4 of the same handedness; Matrix2/Basis2::look_at(d, up) has orthonormal columns, the first d/|d|, the second on the side of up. " + TIE +
        "All 30 look_* entry points (including the Transform trait methods, the Quaternion and Decomposed variants and the deprecated aliases) are executed on directions in general position.",
   note=NOTE + RAX + "Quaternion::look_at is by definition quat_of_m3(Matrix3::look_to_lh); that this conversion returns a unit quaternion with exactly that matrix for EVERY rotation matrix is proved (C05_back_conversion_all_rotations), and C09_quaternion / C09_decomposed_quaternion give the agreement of the Quaternion and Decomposed<_, Quaternion> constructors with the matrices.",
   design="6 (C09)", technique="Coq proof (nsatz over R after eliminating the normalisations) + exact-rational correspondence on all entry points"),
})

for _p in SYM_PROPS:
    if _p in CLAIMED:
        CLAIMED[_p]["text"] = CLAIMED[_p]["text"] + " " + SYMTIE
        CLAIMED[_p]["technique"] = CLAIMED[_p]["technique"] + " + per-run symbolic-execution tie (path lemmas proved in Coq)"
        CLAIMED[_p]["note"] = CLAIMED[_p]["note"] + (" Symbolic tie trusts rustc's parametric monomorphisation, the symbolic scalar (harness/src/sym.rs, xq.rs) "
                                                   "and symgen.py; its lemmas assume field_theory and asymmetry of < on the scalar type and use no axioms.")

if "C17" in CLAIMED:
    CLAIMED["C17"]["text"] += (" Additionally the operator-spelling clauses (every form table entry at the exact scalar, Sum/Product, the straight-line "
                               "programs) are evaluated on symbolic inputs in every run: zero decisions means every comparison was between literally "
                               "identical expressions, i.e. the spellings agree for every input (DESIGN 11.1).")
    CLAIMED["C17"]["technique"] += " + per-run symbolic evaluation of the spelling clauses"

def main():
    checks = []
    for pid in ALL:
        if pid not in CLAIMED: continue
        c = CLAIMED[pid]
        checks.append({
          "property_id": pid,
          "quick_cmd": "./check %s --tier quick" % pid,
          "thorough_cmd": "./check %s --tier thorough" % pid,
          "evidence_file": "/verif/evidence/%s.json" % pid,
          "replay_cmd_template": "./check %s --replay {path}" % pid,
          "engine": "coq-model-correspondence",
          "level_claimed": {"category": "proof", "text": c["text"], "design_ref": c["design"]},
          "level_note": c["note"],
          "technique": c["technique"],
        })
    na = [{"property_id": p, "reason": "check not built yet (planned: Coq model + proofs + correspondence, see DESIGN.md section 6); no claim is made for this property"}
          for p in ALL if p not in CLAIMED]
    m = {
      "version": 1,
      "setup_cmd": "./setup.sh",
      "hooks": {"guard": "cgmath_verif", "enable": "no source hooks are needed: every modelled function is reachable through the public API; "
                "the harness crate depends on cgmath by path (/repo) and is rebuilt by every check",
                "baseline_off_cmd": "cd /repo && cargo test --workspace --no-fail-fast --offline",
                "source_commits": [], "add_only": True},
      "engines": [{"name": "coq-model-correspondence", "path": "/verif/check",
                   "serves_properties": [c["property_id"] for c in checks],
                   "kind_free_text": "Coq 8.16 theorems about a Gallina model (coq/), tied to /repo by running the real generic code at an exact rational scalar "
                                     "(harness/) and evaluating the model on the same inputs with vm_compute"}],
      "checks": checks,
      "not_applicable": na,
      "notes": "See DESIGN.md. All checks honour VERIF_SEED and VERIF_TIER. Known findings: known_findings.txt.",
    }
    json.dump(m, open(os.path.join(ROOT, "MANIFEST.json"), "w"), indent=1)
    print("wrote MANIFEST.json with %d checks, %d not_applicable" % (len(checks), len(na)))
main()
