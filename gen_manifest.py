#!/usr/bin/env python3
"""Writes MANIFEST.json from the table below (kept as a script so that the 20 entries stay consistent)."""
import json, os
ROOT = os.path.dirname(os.path.abspath(__file__))
ALL = ["C%02d" % i for i in range(1, 21)]

TIE = ("The model is tied to /repo on every run by an exact-arithmetic correspondence: the real generic code is executed at an exact rational "
       "scalar on generated inputs and the model is evaluated on the same inputs inside Coq (vm_compute); executable statements of the property "
       "clauses are also evaluated on the implementation to find a concrete failing input. ")
NOTE = ("Trusted: Coq kernel + vm_compute; axioms as listed per theorem in the evidence file (Print Assumptions, re-parsed every run). The model is "
        "hand-written: the tie to the code is differential (checked on the explored inputs), not a proof of model = code. ")
RAX = ("Axioms (standard library, as printed by Print Assumptions for the theorems over R): ClassicalDedekindReals.sig_forall_dec, "
       "ClassicalDedekindReals.sig_not_dec, FunctionalExtensionality.functional_extensionality_dep, Classical_Prop.classic; "
       "theorems over abstract rings/fields are closed under the global context. ")
CLAIMED = {
 "C08": dict(
   text="Machine-checked Coq theorems: for Decomposed over ANY rotation type satisfying ten stated laws (RotLaws3 / RotLaws2) on its valid elements, and any field: "
        "concat/Mul/concat_self compose on points and vectors, one() is neutral, transform_vector ignores displacement, inverse_transform is None iff the "
        "ulps-comparison of scale with 0 holds and otherwise undoes the transform on points and vectors on both sides (scale != 0), inverse_transform_vector agrees, and "
        "conversion to Matrix4/Matrix3 commutes with applying, composing and inverting; a theorem that unit quaternions, orthonormal Basis3 and orthonormal Basis2 satisfy "
        "the laws; the same composition/inversion laws for Matrix3 as a 3-D transform (all matrices) and for affine Matrix4 / Matrix3-as-2-D transforms. " + TIE +
        "Scales include 0, negative, negligible (2^-60) and small (1e-5) values; all five Transform implementations are exercised.",
   note=NOTE + "No axioms. ulps_eq! is an oracle of the scalar type (Approx record); matrix laws are for affine matrices (documented domain of Transform).",
   design="6 (C08)", technique="Coq proof over an abstract rotation type with stated laws + instances; exact-rational correspondence"),
 "C10": dict(
   text="Machine-checked Coq theorems (any field, denominators non-zero): ortho is affine and maps the eight box corners to the cube corners (near -> -1, far -> +1); "
        "frustum has w = -z and maps the near rectangle and the similar far rectangle onto the z = -1 / z = +1 faces; perspective's matrix equals frustum's of the "
        "symmetric window n*tan(fovy/2) x aspect (tan an arbitrary oracle symbol); planar maps the z = 0 window to [-1,1]^2, z = -n -> -1, z = -f -> +1 and its w vanishes "
        "exactly at z = (h/2)cot(fovy/2). Over R with an abs_diff_eq oracle specified by ApproxSpecR: every listed precondition violation makes the constructor return "
        "None (= panic) and valid tuples are accepted. " + TIE + "Valid asymmetric windows, rational tangents, and tuples violating exactly one precondition (panic <-> None).",
   note=NOTE + RAX + "planar with fovy = 0 (float-only division by zero) is not claimed.",
   design="6 (C10)", technique="Coq proof (field identities; case analysis over R for the assertions) + exact-rational correspondence"),
 "C12": dict(
   text="Machine-checked Coq theorems for points of dimension 1-3 over any commutative ring/field: affine-space laws, to_vec/from_vec inverse, origin, component-wise "
        "action of every point operator and element-wise method, point-vector dot, midpoint (definition and (p+q)/2 form), centroid = sum of position vectors / n for "
        "EVERY list (induction over the list, fold_left as in the code), homogeneous round trip for k != 0. " + TIE + "Lists of length 1..40; native i32 runs against the Z instance.",
   note=NOTE + "No axioms.", design="6 (C12)", technique="Coq proof (ring/field, list induction) + exact-rational correspondence"),
 "C04": dict(
   text="Machine-checked Coq theorems over the Gallina model of src/quaternion.rs, for all quaternions over any commutative ring/field: associativity, "
        "distributivity, identity, Hamilton's relations, conjugate anti-homomorphism, multiplicative norm, two-sided inverse when |q|^2 != 0 (over R: when q != 0), "
        "the literal q*v formula, the sandwich identity in general form q*v = vec(q(0,v)q*) + (1-|q|^2)v with its unit corollary, length preservation "
        "(|q*v|^2 = |v|^2 + 4(|q|^2-1)|qv x v|^2) and composition ((pq)*v - p*(q*v) = (|p|^2-1)(q*v-v) + (|q|^2-1)(p*v-v)) with unit corollaries. " + TIE +
        "Inputs alternate arbitrary rational quaternions and exactly unit ones (rational points of the 3-sphere).",
   note=NOTE + RAX, design="6 (C04)", technique="Coq proof (ring identities with explicit correction terms) + exact-rational correspondence"),
 "C05": dict(
   text="Machine-checked Coq theorems: M(q)v = q*v for Matrix3/Basis3/Matrix4 and every q (any field); for unit q the matrix is orthonormal with det +1 and "
        "M(pq) = M(p)M(q) (nsatz over an abstract field with decidable equality); over R, Q(M(q)) = q or -q proved branch by branch through the four-way "
        "case split of From<Matrix3> for Quaternion (each square-root argument shown to be 4a^2 with a != 0), plus a theorem that all four branches are inhabited. " + TIE +
        "The generator enforces a quota of unit quaternions per branch (the branch is recorded in the evidence histogram).",
   note=NOTE + RAX + "sqrt is the real square root (oracle for f32/f64).", design="6 (C05)",
   technique="Coq proof (ring/nsatz over abstract field; case analysis over R) + exact-rational correspondence with per-branch quotas"),
 "C01": dict(
   text="Machine-checked Coq theorems over the Gallina model of src/matrix.rs for every 2x2/3x3/4x4 matrix over any commutative ring/field: "
        "layout of new/from_cols (element (c,r) = r-th component of column c, column-major flat image, out-of-range index = panic), "
        "A*v = sum of columns scaled by v[c] and = textbook row sums, column c of A*B = A*(column c of B) and textbook sigma formula, "
        "row/transpose/diagonal/trace, embeddings, identity/from_value/from_diagonal/from_scale/from_translation by their action on points and vectors, "
        "element-wise +,-,neg,scalar ops, ring laws and linear action. " + TIE,
   note=NOTE + "No axioms. Operand forms (by-ref/by-value) are property C17.",
   design="6 (C01)", technique="Coq proof (ring/field, all entries symbolic) + exact-rational model/implementation correspondence"),
 "C02": dict(
   text="Machine-checked Coq theorems for every square matrix of dimension 2-4 over any field with decidable ==: invert = None iff det = 0, otherwise "
        "M*N = N*M = I (the 4x4 inverse modelled as in the code: det_sub_proc on the flat array with its index arithmetic, 16 cofactors via transpose/"
        "truncate_n/3x3 determinant); determinant = Leibniz permutation sum, multiplicative, transpose-invariant; transpose involution and "
        "anti-homomorphism; transpose_self = transpose; swap_rows/columns/elements and replace_col for all index values (out-of-range = panic); "
        "inverse_transform = invert. " + TIE + "The correspondence includes exactly singular and nearly singular (det ~1e-12) matrices and every index pair.",
   note=NOTE + "No axioms. EqbSpec (== decides equality) is a hypothesis on the scalar type, proved for Qc.",
   design="6 (C02)", technique="Coq proof (field, 16 symbolic entries) + exact-rational model/implementation correspondence"),
 "C03": dict(
   text="Machine-checked Coq theorems (9 theorems + 4 non-vacuity examples) over the hand-written Gallina model of src/vector.rs: "
        "component-wise action of every operator and of the ElementWise family, zero identity, module laws, dot symmetric/bilinear, "
        "magnitude2, sum/product as folds, cross-product identities (anticommutativity, orthogonality, Lagrange, triple product), perp_dot — "
        "for every commutative ring (hence all fields, Qc, and Z for the integer types without overflow) and all dimensions 1-4, no bound on inputs. "
        "The model is tied to /repo on every run by an exact-arithmetic correspondence: the real generic code is executed at an exact rational "
        "scalar (and natively at i16/i32/i64/u8) on ~2.3k generated inputs and the model is evaluated on the same inputs inside Coq (vm_compute); "
        "executable statements of the property clauses are also evaluated on the implementation to find a concrete failing input.",
   note="Trusted: Coq kernel + vm_compute; no axioms (all theorems closed under the global context). The model is hand-written: the tie to the "
        "code is differential (checked on the explored inputs), not a proof of model = code. Overflow of the integer types is outside the property.",
   design="6 (C03)", technique="Coq proof (ring/field over abstract commutative ring) + exact-rational model/implementation correspondence"),
}

def main():
    checks = []
    for pid in ALL:
        if pid not in CLAIMED: continue
        c = CLAIMED[pid]
        checks.append({
          "property_id": pid,
          "quick_cmd": "./check %s --tier quick" % pid,
          "thorough_cmd": "./check %s --tier thorough" % pid,
          "evidence_file": "/verif/evidence/%s.json" % pid,
          "replay_cmd_template": "./check %s --replay {path}" % pid,
          "engine": "coq-model-correspondence",
          "level_claimed": {"category": "proof", "text": c["text"], "design_ref": c["design"]},
          "level_note": c["note"],
          "technique": c["technique"],
        })
    na = [{"property_id": p, "reason": "check not built yet in this round (planned: Coq model + proofs + correspondence, see DESIGN.md section 6)"}
          for p in ALL if p not in CLAIMED]
    m = {
      "version": 1,
      "setup_cmd": "./setup.sh",
      "hooks": {"guard": "cgmath_verif", "enable": "no source hooks are needed: every modelled function is reachable through the public API; "
                "the harness crate depends on cgmath by path (/repo) and is rebuilt by every check",
                "baseline_off_cmd": "cd /repo && cargo test --workspace --no-fail-fast --offline",
                "source_commits": [], "add_only": True},
      "engines": [{"name": "coq-model-correspondence", "path": "/verif/check",
                   "serves_properties": [c["property_id"] for c in checks],
                   "kind_free_text": "Coq 8.16 theorems about a Gallina model (coq/), tied to /repo by running the real generic code at an exact rational scalar "
                                     "(harness/) and evaluating the model on the same inputs with vm_compute"}],
      "checks": checks,
      "not_applicable": na,
      "notes": "See DESIGN.md. All checks honour VERIF_SEED and VERIF_TIER. Known findings: known_findings.txt.",
    }
    json.dump(m, open(os.path.join(ROOT, "MANIFEST.json"), "w"), indent=1)
    print("wrote MANIFEST.json with %d checks, %d not_applicable" % (len(checks), len(na)))
main()
