"""Per-property configuration of ./check."""

R_AXIOMS = [
    "ClassicalDedekindReals.sig_forall_dec", "ClassicalDedekindReals.sig_not_dec",
    "FunctionalExtensionality.functional_extensionality_dep",
    "Classical_Prop.classic",
]

def P(n, **kw):
    # "undetermined": regexes of dispatcher function names whose output the property does NOT fix uniquely
    # (None = nothing is known to be determined; [] = every modelled function is determined by the property)
    d = {"runmod": "RunC%02d" % n, "runner": "run_c%02d" % n, "axioms": [], "undetermined": []}
    d.update(kw)
    return d

MAT_ASSUME = [
    "model (coq/Model/Matrix.v) is hand-written; tied to /repo by the exact-arithmetic correspondence of this run",
    "scalars are elements of a field (exact rationals in the correspondence); floating-point rounding is outside the property",
]
def pre_swizzle(root, sh):
    """regenerate coq/Exec/SwizzleTable_gen.v from the current build of /repo (before the proof step)"""
    rc, out = sh("python3 gen_swizzle_table.py", cwd=root)
    return [] if rc == 0 else [{"at": "swizzle-table", "found": False, "what": "could not regenerate the swizzle table: " + out[-300:],
                                "replay": {"kind": "generator", "log": out[-1000:]}}]

PROPS = {
    "C01": P(1, assumptions=MAT_ASSUME, trusted=["rustc monomorphisation of the generic code at Xq"]),
    "C02": P(2, runmod="RunC01", assumptions=MAT_ASSUME + ["`==` on the scalar type decides equality (EqbSpec; true of Qc by proof, of f32/f64 except NaN)"],
             trusted=["rustc monomorphisation of the generic code at Xq"]),
    "C04": P(4, axioms=R_AXIOMS, assumptions=["model (coq/Model/Quaternion.v) is hand-written; tied to /repo by the exact-arithmetic correspondence of this run",
              "C04_invert_R is stated over Coq's reals (q != 0 => |q|^2 != 0 needs an ordered field); every other theorem holds over any commutative ring/field"],
             trusted=["rustc monomorphisation of the generic code at Xq"]),
    "C05": P(5, runmod="RunC04", undetermined=["quat_of_m3", "quat_of_basis3"], axioms=R_AXIOMS, assumptions=["model (coq/Model/Quaternion.v, Matrix.v, Rotation.v) is hand-written; tied to /repo by the exact-arithmetic correspondence of this run",
              "the round trip (C05_roundtrip) is over Coq's reals with the standard sqrt; the action/orthonormality/composition theorems hold over any field with decidable equality",
              "a Basis3 is modelled by its matrix (the struct has that single private field)"],
             trusted=["rustc monomorphisation of the generic code at Xq"]),
    "C06": P(6, axioms=R_AXIOMS, assumptions=["model (coq/Model/Rotation.v, Quaternion.v) is hand-written; tied to /repo by the exact-arithmetic correspondence of this run",
              "sin/cos are oracles of the scalar type: arbitrary symbols in the field theorems, Coq's real sin/cos in the R theorems, exact rational values of lattice angles in the correspondence",
              "Deg angles go through the f64 constant pi/180 exactly as the code does (UDeg); the R theorems hold for any unit U"],
             trusted=["rustc monomorphisation of the generic code at Xq"]),
    "C07": P(7, axioms=R_AXIOMS, axiom_patterns=[r"PrimInt63\..*", r"Uint63\..*", r"PrimFloat\..*", r"FloatAxioms\..*", r"Sint63\..*", r"FloatOps\..*"],
             assumptions=["model (coq/Model/Euler.v) is hand-written; tied to /repo by the exact-arithmetic correspondence of this run",
              "threshold: the code compares with cast(0.499) (the f64 nearest 0.499), so the regular band is |qx qz + qy qw| <= cast(0.499), i.e. |sin y| <= 0.998 up to 2e-18",
              "atan2/asin: Coq's real functions in the R theorems (atan2 defined in Proofs/RealInst.v with its characterisation); oracle tables in the correspondence",
              "the 0.13 bound on the rebuilt matrix inside the gimbal cone is C07_gimbal_bound (over R); natively in f64 it is tested on sampled unit quaternions (clause euler:gimbal-0.13(f64))",
              "C07_threshold_and_quarter_turn uses the interval tactic (primitive-integer/float axioms of the standard library)"],
             trusted=["rustc monomorphisation of the generic code at Xq", "libm atan2/asin for the f64 fallback answers recorded in the oracle tables of generic-unit / threshold-sweep cases"]),
    "C08": P(8, assumptions=["model (coq/Model/Transform.v) is hand-written; tied to /repo by the exact-arithmetic correspondence of this run",
              "Decomposed theorems are stated for valid rotations (unit quaternions, orthonormal bases), proved to satisfy RotLaws3/RotLaws2",
              "matrix Transform laws are stated for affine matrices (the documented domain of Transform); Matrix3 as a 3-D transform: all matrices",
              "ulps_eq!(scale, 0) is an oracle (Approx); the thresholds |scale| > 1e-6 => Some and scale = 0 => None are exercised at Xq (binary64 parameters) and hold for any ulps_eq with ulps_eq 0 0 = true and not ulps_eq s 0 for |s| > 1e-6"],
             trusted=["rustc monomorphisation of the generic code at Xq"]),
    "C09": P(9, axioms=R_AXIOMS, sym_heavy=[r"dec_q_look_at.*"],
             assumptions=["model (coq/Model/Rotation.v look_to/look_at constructors, Transform.v dec_look_at_*) is hand-written; tied to /repo by the exact-arithmetic correspondence of this run",
              "theorems are over the reals (sqrt of the standard library); hypotheses: d non-zero and d x up non-zero (up not parallel to d)",
              "Quaternion::look_at is by definition the conversion of Matrix3::look_to_lh (quat_of_m3); that the conversion preserves every rotation matrix is "
              "C05_back_conversion_all_rotations, from which C09_quaternion / C09_decomposed_quaternion follow",
              "Matrix3 as a 2-D transform and Decomposed<Vector2, Basis2> are covered by the correspondence and the 2-D theorem about Matrix2::look_at only",
              "the correspondence needs exact square roots: d is a multiple of a row of a rational rotation matrix, up has a rational-length component orthogonal to d"],
             rule="every look_* entry point (Matrix2/3/4, Basis2/3, Quaternion, Decomposed over Basis3/Quaternion/Basis2, the Transform trait methods, the deprecated aliases) on directions in "
                  "general position (all components non-zero, up with components along all three frame vectors) and with up in the plane of d and one frame vector (exact quaternion conversion); "
                  "2-D: up on either side of d and exactly along d; non-trivial = tag nt:*; distinct by hash",
             trusted=["rustc monomorphisation of the generic code at Xq and f64"]),
    "C10": P(10, axioms=R_AXIOMS, assumptions=["model (coq/Model/Projection.v) is hand-written; tied to /repo by the exact-arithmetic correspondence of this run",
              "tan is an oracle (exact rational tangents of lattice angles in the correspondence; the real tan in the R theorems)",
              "abs_diff_ne!: the scalar's abs_diff_eq with default epsilon, specified by ApproxSpecR (|a-b| <= eps); for Xq eps = 2^-52",
              "planar with fovy = 0 divides by zero in exact arithmetic (IEEE infinity in floats): float-only limit case, not claimed"],
             trusted=["rustc monomorphisation of the generic code at Xq"]),
    "C14": P(14, thorough_scale=4, axioms=R_AXIOMS, axiom_patterns=[r"PrimInt63\..*", r"Uint63\..*", r"PrimFloat\..*", r"FloatAxioms\..*", r"Sint63\..*", r"FloatOps\..*"],
             assumptions=["model (coq/Model/Quaternion.v: quat_lerp, quat_nlerp, quat_slerp; Vector.v: v*_lerp) is hand-written; tied to /repo by the exact-arithmetic correspondence of this run",
              "nlerp/slerp theorems are over the reals (sqrt, sin, acos of the standard library) for unit a, b and t in [0,1]; lerp over any commutative ring",
              "threshold: the code compares |a.b| with cast(0.9995f64) (0.9995 + 5.5e-17): exact constant angular speed is proved for |a.b| <= cast(0.9995), the 1e-5 rad bound beyond it",
              "'on the shorter arc' is stated as: the result is a non-negative linear combination of a and b' = +-b (the sign making a.b' >= 0) of unit length",
              "matrix lerp (VectorSpace for Matrix2/3/4) is not modelled"],
             rule="lerp: generic values, t generic/0/1/outside [0,1]; nlerp and slerp beyond the threshold: unit quaternions in rational planes of R^4 with chord points of rational length "
                  "(generic angle, close (dot 0.9998), just above the threshold, nearly a right angle; b and -b); slerp exact region: lattice angles k*beta with t = j/k (incl. just below the threshold, wide, "
                  "b and -b, endpoints); native f64: all separations, multi-scale sweep around the threshold, nearly opposite, around a right angle; non-trivial = tag nt:*; distinct by hash",
             trusted=["rustc monomorphisation of the generic code at Xq and f64", "libm for the native f64 predicate"]),
    "C15": P(15, thorough_scale=8, axioms=R_AXIOMS, axiom_patterns=[r"PrimInt63\..*", r"Uint63\..*", r"PrimFloat\..*", r"FloatAxioms\..*", r"Sint63\..*", r"FloatOps\..*"],
             assumptions=["model (coq/Model/Rotation.v: quat_between_vectors, basis3/basis2_between_vectors, quat_from_arc) is hand-written; tied to /repo by the exact-arithmetic correspondence of this run",
              "theorems are over the reals; ulps_eq! is an oracle specified by UlpsSpec (reflexive; a true answer means |x-y| <= eps + rel max(|x|,|y|)); C15_tolerances instantiates the binary64 parameters",
              "between_vectors' first test compares a.b with 1 (unit vectors are the documented domain); the general-branch theorem is also proved for arbitrary non-zero lengths",
              "from_arc's antiparallel branch is the rotation by the scalar's turn_div_2 (cast(2 pi)/2, within 1.3e-16 of pi) about the fallback axis; that it is a rotation about that axis is C06",
              "Basis2::between_vectors: the theorem is about the code as repaired by /repo 7a36dab; the previous formula is refuted by C15_basis2_between_old_refuted",
              "the correspondence needs exact square roots: pairs lie in rational planes at an angle 2p with rational cos p, sin p; antiparallel inputs have a rational-length candidate axis"],
             rule="3-D pairs in rational planes: generic angles of both orientations, nearly parallel inside (2^-30) and outside (2^-20) the tolerance, equal, nearly antiparallel, exactly antiparallel "
                  "(generic and along each coordinate axis, both signs); from_arc with rational lengths, with and without a fallback axis; 2-D lattice pairs of both orientations, quarter turns, "
                  "antiparallel, non-unit; non-trivial = tag nt:*; distinct by hash",
             trusted=["rustc monomorphisation of the generic code at Xq and f64", "the Xq implementation of approx::UlpsEq (mirrors ExecQ.qc_ulps_eq, binary64 parameters)"]),
    "C16": P(16, pre=pre_swizzle,
             assumptions=["model (coq/Model/Layout.v) is hand-written; the swizzle table (coq/Exec/SwizzleTable_gen.v) is REGENERATED from the build output of /repo's build.rs on every run and the finite theorems are re-checked against it",
              "that transmute between repr(C) structs and arrays/tuples is defined behaviour is a property of rustc's layout; the model shows that IF fields are laid out in declaration order without padding the views agree, and the harness observes that they do",
              "views, indices, conversions and all 550 swizzle accessors are observed natively on i32, f64 and a non-numeric Copy enum (exhaustive over types x views x index values)"],
             rule="exhaustive: every view x every type x every index (including len, len+1, usize::MAX) and all 550 swizzle accessors on values with pairwise distinct components",
             coverage_extra={"exhaustive": True},
             trusted=["rustc layout of repr(C) structs", "the mint crate"]),
    "C17": P(17, assumptions=["model (coq/Model/Program.v) is hand-written; tied to /repo by the correspondence of this run (random register programs run by a Rust interpreter whose every instruction is executed in the chosen spelling)",
              "that the four by-value/by-reference impls share one $body is a fact about macro expansion: the model has one body for them, the harness observes all four",
              "scalar-on-the-left impls exist per primitive type: exercised natively for all twelve types (no overflow, no division by zero)"],
             rule="200 random straight-line programs (length 1..10, 21 instruction kinds, every instruction in a randomly chosen existing spelling) over generic "
                  "pairwise-distinct rational registers; non-trivial = tagged nt:program; distinct by hash of (registers, program)",
             trusted=["rustc monomorphisation at Xq, i32, f64 and the twelve primitive types"]),
    "C18": P(18, assumptions=["model (coq/Model/Approx.v) is hand-written; tied to /repo by the exact-arithmetic correspondence of this run",
              "the scalar relations (abs_diff_eq / relative_eq / ulps_eq of the scalar type) are oracles: the theorems hold for an arbitrary scalar relation",
              "Basis2/Basis3 values with arbitrary matrices are built by transmuting a matrix (single-field struct) in the harness only",
              "native f32/f64: the compound relations are compared with the conjunction of the scalar answers per component (clauses native:*)"],
             trusted=["rustc monomorphisation of the generic code at Xq, f32, f64", "the approx crate's scalar impls (oracle)"]),
    "C19": P(19, assumptions=["model (coq/Model/Cast.v) is hand-written; tied to /repo by the correspondence of this run",
              "the scalar numeric cast (num_traits::NumCast::from) is an oracle: its answer per component is recorded by the harness and handed to the model as a table",
              "NaN / +inf / -inf are encoded as three reserved rationals in the case files"],
             rule="all 12x12 source/target scalar pairs (float targets only for quaternions) x every compound type x a special value (extreme, non-finite, "
                  "fractional, out of range) in each single position, typical distinct values elsewhere; non-trivial = the case has inputs (tag nt:<src>-><dst>); distinct by hash",
             coverage_extra={"exhaustive_over": "12 x 12 scalar type pairs; every component position of every compound type"},
             trusted=["rustc monomorphisation at the 144 type pairs", "num_traits::NumCast (oracle)"]),
    "C20": P(20, assumptions=["model (coq/Model/Serde.v) is hand-written: the serde data model of each derive / hand-written impl as a tree of named struct fields, newtypes and leaves; tied to /repo by the correspondence of this run through serde_json",
              "the scalar's own Serialize/Deserialize and the data format (serde_json) are outside the model: a leaf is whatever the format does with one scalar; bit-for-bit float round trip through serde_json text is an executed predicate, not a theorem",
              "the Decomposed visitor is modelled as a fold over the document's (key, value) entries; serde's derive(Deserialize) machinery for the other types is modelled by the structural inverse of the serialiser"],
             rule="every serialisable type at f64 (typical and special floats: -0.0, subnormal, extremes); Decomposed documents: all 6 key orders, every omission, unknown key in every position, duplicated keys; non-trivial = all; distinct by hash",
             coverage_extra={"exhaustive_over": "key orders / single omissions / unknown-key positions of Decomposed documents"},
             trusted=["serde derive expansion and serde_json (the format)", "rustc"]),
    "C13": P(13, axioms=R_AXIOMS, axiom_patterns=[r"PrimInt63\..*", r"Uint63\..*", r"PrimFloat\..*", r"FloatAxioms\..*", r"Sint63\..*", r"FloatOps\..*"],
             undetermined=[r"^(asin|acos|atan|atan2)(_deg)?$"],
             assumptions=["model (coq/Model/Angle.v) is hand-written; tied to /repo by the exact-arithmetic correspondence of this run",
              "modular clauses (normalize, normalize_signed, opposite, bisect, turn fractions): exact reals, any positive full turn; `%` is the truncated remainder",
              "trigonometry: the scalar's sin/cos/tan and inverse functions are oracles (Trig record); over R they are the standard library's, atan2 as characterised in Proofs/RealInst.v; "
              "the correspondence uses a lattice of angles with rational sines/cosines and, for generic inverse arguments, the exact rational value of the f64 libm answer",
              "float clauses (C13_roundtrip_floats, C13_range_floats): Flocq FLT formats for binary32/binary64, round to nearest even, no overflow (unbounded exponent upwards), "
              "`%` exact (IEEE fmod is exact), T/2 exactly representable; round trip stated above the subnormal range (|x| >= 2^-1009 resp. 2^-113); the constants are the exact values "
              "the implementation passes to cast (checked by the f32_*/f64_* constant cases of the correspondence and C13_float_constants_tied)",
              "bisect: the theorem is about the code as repaired by /repo 6eacb2d; the previous formula is refuted by C13_bisect_old_refuted"],
             rule="both units x (generic small angles, many turns of both signs, exact multiples of the full/half/quarter turn, +-2^-80 around 0, the half and the full turn, 2^70 turns) for the modular "
                  "functions and arithmetic; lattice angles k*v + j*(pi/2) for trigonometry; native f32/f64: boundary sweeps (+-eps, full/half turn +- 3 ulp, subnormals, extremes) for range "
                  "membership, random normal-range values for the 4-eps round trip, bitwise comparison of every trig/inverse function with the scalar function of the radian measure; "
                  "non-trivial = tag nt:*; distinct by hash",
             trusted=["rustc monomorphisation of the generic code at Xq, f32, f64", "libm for the native trig-wiring comparisons (same function on both sides)"]),
    "C11": P(11, axioms=R_AXIOMS,
             assumptions=["model (coq/Model/Metric.v, Vector.v, Point.v, Quaternion.v) is hand-written; tied to /repo by the exact-arithmetic correspondence of this run",
              "theorems are over the reals with the standard library's sqrt/acos and atan2 as characterised in Proofs/RealInst.v; project_on over any field",
              "'non-zero length' is the hypothesis 0 < magnitude2; rounding of native floats is outside the theorems (native f64 is only sampled, tolerance 1e-9, clause native-f64:metric)",
              "the correspondence needs exact square roots: inputs have rational lengths (rational points of spheres scaled by rationals); angles between vectors of a rational plane at lattice directions, "
              "plus generic pairs whose acos/atan2 is answered with the exact value of the f64 libm result"],
             rule="dimensions 1-4, quaternions, points 1-3; vectors of rational length, pairs at rational distance; angle pairs at lattice directions (both orders) in rational planes of R^2, R^3, R^4; "
                  "generic pairs for project_on / distance2 / magnitude2; non-trivial = tag nt:*; distinct by hash",
             trusted=["rustc monomorphisation of the generic code at Xq and f64"]),
    "C12": P(12, assumptions=["model (coq/Model/Point.v) is hand-written; tied to /repo by the exact-arithmetic correspondence of this run",
              "integer scalar types: only no-overflow inputs", "centroid of the empty list divides by cast(0): outside the property (non-empty lists)"],
             trusted=["rustc monomorphisation of the generic code at Xq and i32"]),
    "C03": P(3,
        assumptions=[
            "model (coq/Model/Vector.v) is hand-written; tied to /repo by the exact-arithmetic correspondence of this run",
            "integer scalar types: only no-overflow inputs (property scope); integer / and % modelled as Z.quot / Z.rem",
        ],
        trusted=["rustc monomorphisation of the generic code at Xq, i16, i32, i64, u8"]),
}
