"""Per-property configuration of ./check."""

R_AXIOMS = [
    "ClassicalDedekindReals.sig_forall_dec", "ClassicalDedekindReals.sig_not_dec",
    "FunctionalExtensionality.functional_extensionality_dep",
]

def P(n, **kw):
    d = {"runmod": "RunC%02d" % n, "runner": "run_c%02d" % n, "axioms": []}
    d.update(kw)
    return d

PROPS = {
    "C03": P(3,
        assumptions=[
            "model (coq/Model/Vector.v) is hand-written; tied to /repo by the exact-arithmetic correspondence of this run",
            "integer scalar types: only no-overflow inputs (property scope); integer / and % modelled as Z.quot / Z.rem",
        ],
        trusted=["rustc monomorphisation of the generic code at Xq, i16, i32, i64, u8"]),
}
