#!/bin/sh
# Build the framework from files on disk only (offline): Coq development (full .vo build) and harness crate.
set -e
cd "$(dirname "$0")"
export CARGO_NET_OFFLINE=true
mkdir -p build evidence/replay
( cd coq && coq_makefile -f _CoqProject -o Makefile >/dev/null && timeout 3000 make -j16 >../build/coq_build.log 2>&1 ) || { tail -30 build/coq_build.log; exit 1; }
[ -f harness/Cargo.lock ] || cp /repo/Cargo.lock harness/Cargo.lock
( cd harness && cargo build --release --offline >../build/cargo_build.log 2>&1 ) || { tail -30 build/cargo_build.log; exit 1; }
echo "setup ok"
