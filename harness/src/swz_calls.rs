// GENERATED from the model's word list (coq/Model/Layout.v `words`): every swizzle accessor is called on a value with
// pairwise distinct components and must return exactly the named components.  A missing accessor is a build failure.
use cgmath::*;
use crate::c16::Comps;

pub fn all_swizzles(fail: &mut Vec<String>) -> usize {
    let c = [11i32, 22, 33, 44];
    let mut n = 0usize;
    { let v = Vector1::new(c[0]);
      n += 1; if v.x().comps() != vec![c[0]] { fail.push("Vector1::x".to_string()); }
      n += 1; if v.xx().comps() != vec![c[0], c[0]] { fail.push("Vector1::xx".to_string()); }
      n += 1; if v.xxx().comps() != vec![c[0], c[0], c[0]] { fail.push("Vector1::xxx".to_string()); }
      n += 1; if v.xxxx().comps() != vec![c[0], c[0], c[0], c[0]] { fail.push("Vector1::xxxx".to_string()); }
    }
    { let v = Vector2::new(c[0], c[1]);
      n += 1; if v.x().comps() != vec![c[0]] { fail.push("Vector2::x".to_string()); }
      n += 1; if v.y().comps() != vec![c[1]] { fail.push("Vector2::y".to_string()); }
      n += 1; if v.xx().comps() != vec![c[0], c[0]] { fail.push("Vector2::xx".to_string()); }
      n += 1; if v.xy().comps() != vec![c[0], c[1]] { fail.push("Vector2::xy".to_string()); }
      n += 1; if v.yx().comps() != vec![c[1], c[0]] { fail.push("Vector2::yx".to_string()); }
      n += 1; if v.yy().comps() != vec![c[1], c[1]] { fail.push("Vector2::yy".to_string()); }
      n += 1; if v.xxx().comps() != vec![c[0], c[0], c[0]] { fail.push("Vector2::xxx".to_string()); }
      n += 1; if v.xxy().comps() != vec![c[0], c[0], c[1]] { fail.push("Vector2::xxy".to_string()); }
      n += 1; if v.xyx().comps() != vec![c[0], c[1], c[0]] { fail.push("Vector2::xyx".to_string()); }
      n += 1; if v.xyy().comps() != vec![c[0], c[1], c[1]] { fail.push("Vector2::xyy".to_string()); }
      n += 1; if v.yxx().comps() != vec![c[1], c[0], c[0]] { fail.push("Vector2::yxx".to_string()); }
      n += 1; if v.yxy().comps() != vec![c[1], c[0], c[1]] { fail.push("Vector2::yxy".to_string()); }
      n += 1; if v.yyx().comps() != vec![c[1], c[1], c[0]] { fail.push("Vector2::yyx".to_string()); }
      n += 1; if v.yyy().comps() != vec![c[1], c[1], c[1]] { fail.push("Vector2::yyy".to_string()); }
      n += 1; if v.xxxx().comps() != vec![c[0], c[0], c[0], c[0]] { fail.push("Vector2::xxxx".to_string()); }
      n += 1; if v.xxxy().comps() != vec![c[0], c[0], c[0], c[1]] { fail.push("Vector2::xxxy".to_string()); }
      n += 1; if v.xxyx().comps() != vec![c[0], c[0], c[1], c[0]] { fail.push("Vector2::xxyx".to_string()); }
      n += 1; if v.xxyy().comps() != vec![c[0], c[0], c[1], c[1]] { fail.push("Vector2::xxyy".to_string()); }
      n += 1; if v.xyxx().comps() != vec![c[0], c[1], c[0], c[0]] { fail.push("Vector2::xyxx".to_string()); }
      n += 1; if v.xyxy().comps() != vec![c[0], c[1], c[0], c[1]] { fail.push("Vector2::xyxy".to_string()); }
      n += 1; if v.xyyx().comps() != vec![c[0], c[1], c[1], c[0]] { fail.push("Vector2::xyyx".to_string()); }
      n += 1; if v.xyyy().comps() != vec![c[0], c[1], c[1], c[1]] { fail.push("Vector2::xyyy".to_string()); }
      n += 1; if v.yxxx().comps() != vec![c[1], c[0], c[0], c[0]] { fail.push("Vector2::yxxx".to_string()); }
      n += 1; if v.yxxy().comps() != vec![c[1], c[0], c[0], c[1]] { fail.push("Vector2::yxxy".to_string()); }
      n += 1; if v.yxyx().comps() != vec![c[1], c[0], c[1], c[0]] { fail.push("Vector2::yxyx".to_string()); }
      n += 1; if v.yxyy().comps() != vec![c[1], c[0], c[1], c[1]] { fail.push("Vector2::yxyy".to_string()); }
      n += 1; if v.yyxx().comps() != vec![c[1], c[1], c[0], c[0]] { fail.push("Vector2::yyxx".to_string()); }
      n += 1; if v.yyxy().comps() != vec![c[1], c[1], c[0], c[1]] { fail.push("Vector2::yyxy".to_string()); }
      n += 1; if v.yyyx().comps() != vec![c[1], c[1], c[1], c[0]] { fail.push("Vector2::yyyx".to_string()); }
      n += 1; if v.yyyy().comps() != vec![c[1], c[1], c[1], c[1]] { fail.push("Vector2::yyyy".to_string()); }
    }
    { let v = Vector3::new(c[0], c[1], c[2]);
      n += 1; if v.x().comps() != vec![c[0]] { fail.push("Vector3::x".to_string()); }
      n += 1; if v.y().comps() != vec![c[1]] { fail.push("Vector3::y".to_string()); }
      n += 1; if v.z().comps() != vec![c[2]] { fail.push("Vector3::z".to_string()); }
      n += 1; if v.xx().comps() != vec![c[0], c[0]] { fail.push("Vector3::xx".to_string()); }
      n += 1; if v.xy().comps() != vec![c[0], c[1]] { fail.push("Vector3::xy".to_string()); }
      n += 1; if v.xz().comps() != vec![c[0], c[2]] { fail.push("Vector3::xz".to_string()); }
      n += 1; if v.yx().comps() != vec![c[1], c[0]] { fail.push("Vector3::yx".to_string()); }
      n += 1; if v.yy().comps() != vec![c[1], c[1]] { fail.push("Vector3::yy".to_string()); }
      n += 1; if v.yz().comps() != vec![c[1], c[2]] { fail.push("Vector3::yz".to_string()); }
      n += 1; if v.zx().comps() != vec![c[2], c[0]] { fail.push("Vector3::zx".to_string()); }
      n += 1; if v.zy().comps() != vec![c[2], c[1]] { fail.push("Vector3::zy".to_string()); }
      n += 1; if v.zz().comps() != vec![c[2], c[2]] { fail.push("Vector3::zz".to_string()); }
      n += 1; if v.xxx().comps() != vec![c[0], c[0], c[0]] { fail.push("Vector3::xxx".to_string()); }
      n += 1; if v.xxy().comps() != vec![c[0], c[0], c[1]] { fail.push("Vector3::xxy".to_string()); }
      n += 1; if v.xxz().comps() != vec![c[0], c[0], c[2]] { fail.push("Vector3::xxz".to_string()); }
      n += 1; if v.xyx().comps() != vec![c[0], c[1], c[0]] { fail.push("Vector3::xyx".to_string()); }
      n += 1; if v.xyy().comps() != vec![c[0], c[1], c[1]] { fail.push("Vector3::xyy".to_string()); }
      n += 1; if v.xyz().comps() != vec![c[0], c[1], c[2]] { fail.push("Vector3::xyz".to_string()); }
      n += 1; if v.xzx().comps() != vec![c[0], c[2], c[0]] { fail.push("Vector3::xzx".to_string()); }
      n += 1; if v.xzy().comps() != vec![c[0], c[2], c[1]] { fail.push("Vector3::xzy".to_string()); }
      n += 1; if v.xzz().comps() != vec![c[0], c[2], c[2]] { fail.push("Vector3::xzz".to_string()); }
      n += 1; if v.yxx().comps() != vec![c[1], c[0], c[0]] { fail.push("Vector3::yxx".to_string()); }
      n += 1; if v.yxy().comps() != vec![c[1], c[0], c[1]] { fail.push("Vector3::yxy".to_string()); }
      n += 1; if v.yxz().comps() != vec![c[1], c[0], c[2]] { fail.push("Vector3::yxz".to_string()); }
      n += 1; if v.yyx().comps() != vec![c[1], c[1], c[0]] { fail.push("Vector3::yyx".to_string()); }
      n += 1; if v.yyy().comps() != vec![c[1], c[1], c[1]] { fail.push("Vector3::yyy".to_string()); }
      n += 1; if v.yyz().comps() != vec![c[1], c[1], c[2]] { fail.push("Vector3::yyz".to_string()); }
      n += 1; if v.yzx().comps() != vec![c[1], c[2], c[0]] { fail.push("Vector3::yzx".to_string()); }
      n += 1; if v.yzy().comps() != vec![c[1], c[2], c[1]] { fail.push("Vector3::yzy".to_string()); }
      n += 1; if v.yzz().comps() != vec![c[1], c[2], c[2]] { fail.push("Vector3::yzz".to_string()); }
      n += 1; if v.zxx().comps() != vec![c[2], c[0], c[0]] { fail.push("Vector3::zxx".to_string()); }
      n += 1; if v.zxy().comps() != vec![c[2], c[0], c[1]] { fail.push("Vector3::zxy".to_string()); }
      n += 1; if v.zxz().comps() != vec![c[2], c[0], c[2]] { fail.push("Vector3::zxz".to_string()); }
      n += 1; if v.zyx().comps() != vec![c[2], c[1], c[0]] { fail.push("Vector3::zyx".to_string()); }
      n += 1; if v.zyy().comps() != vec![c[2], c[1], c[1]] { fail.push("Vector3::zyy".to_string()); }
      n += 1; if v.zyz().comps() != vec![c[2], c[1], c[2]] { fail.push("Vector3::zyz".to_string()); }
      n += 1; if v.zzx().comps() != vec![c[2], c[2], c[0]] { fail.push("Vector3::zzx".to_string()); }
      n += 1; if v.zzy().comps() != vec![c[2], c[2], c[1]] { fail.push("Vector3::zzy".to_string()); }
      n += 1; if v.zzz().comps() != vec![c[2], c[2], c[2]] { fail.push("Vector3::zzz".to_string()); }
      n += 1; if v.xxxx().comps() != vec![c[0], c[0], c[0], c[0]] { fail.push("Vector3::xxxx".to_string()); }
      n += 1; if v.xxxy().comps() != vec![c[0], c[0], c[0], c[1]] { fail.push("Vector3::xxxy".to_string()); }
      n += 1; if v.xxxz().comps() != vec![c[0], c[0], c[0], c[2]] { fail.push("Vector3::xxxz".to_string()); }
      n += 1; if v.xxyx().comps() != vec![c[0], c[0], c[1], c[0]] { fail.push("Vector3::xxyx".to_string()); }
      n += 1; if v.xxyy().comps() != vec![c[0], c[0], c[1], c[1]] { fail.push("Vector3::xxyy".to_string()); }
      n += 1; if v.xxyz().comps() != vec![c[0], c[0], c[1], c[2]] { fail.push("Vector3::xxyz".to_string()); }
      n += 1; if v.xxzx().comps() != vec![c[0], c[0], c[2], c[0]] { fail.push("Vector3::xxzx".to_string()); }
      n += 1; if v.xxzy().comps() != vec![c[0], c[0], c[2], c[1]] { fail.push("Vector3::xxzy".to_string()); }
      n += 1; if v.xxzz().comps() != vec![c[0], c[0], c[2], c[2]] { fail.push("Vector3::xxzz".to_string()); }
      n += 1; if v.xyxx().comps() != vec![c[0], c[1], c[0], c[0]] { fail.push("Vector3::xyxx".to_string()); }
      n += 1; if v.xyxy().comps() != vec![c[0], c[1], c[0], c[1]] { fail.push("Vector3::xyxy".to_string()); }
      n += 1; if v.xyxz().comps() != vec![c[0], c[1], c[0], c[2]] { fail.push("Vector3::xyxz".to_string()); }
      n += 1; if v.xyyx().comps() != vec![c[0], c[1], c[1], c[0]] { fail.push("Vector3::xyyx".to_string()); }
      n += 1; if v.xyyy().comps() != vec![c[0], c[1], c[1], c[1]] { fail.push("Vector3::xyyy".to_string()); }
      n += 1; if v.xyyz().comps() != vec![c[0], c[1], c[1], c[2]] { fail.push("Vector3::xyyz".to_string()); }
      n += 1; if v.xyzx().comps() != vec![c[0], c[1], c[2], c[0]] { fail.push("Vector3::xyzx".to_string()); }
      n += 1; if v.xyzy().comps() != vec![c[0], c[1], c[2], c[1]] { fail.push("Vector3::xyzy".to_string()); }
      n += 1; if v.xyzz().comps() != vec![c[0], c[1], c[2], c[2]] { fail.push("Vector3::xyzz".to_string()); }
      n += 1; if v.xzxx().comps() != vec![c[0], c[2], c[0], c[0]] { fail.push("Vector3::xzxx".to_string()); }
      n += 1; if v.xzxy().comps() != vec![c[0], c[2], c[0], c[1]] { fail.push("Vector3::xzxy".to_string()); }
      n += 1; if v.xzxz().comps() != vec![c[0], c[2], c[0], c[2]] { fail.push("Vector3::xzxz".to_string()); }
      n += 1; if v.xzyx().comps() != vec![c[0], c[2], c[1], c[0]] { fail.push("Vector3::xzyx".to_string()); }
      n += 1; if v.xzyy().comps() != vec![c[0], c[2], c[1], c[1]] { fail.push("Vector3::xzyy".to_string()); }
      n += 1; if v.xzyz().comps() != vec![c[0], c[2], c[1], c[2]] { fail.push("Vector3::xzyz".to_string()); }
      n += 1; if v.xzzx().comps() != vec![c[0], c[2], c[2], c[0]] { fail.push("Vector3::xzzx".to_string()); }
      n += 1; if v.xzzy().comps() != vec![c[0], c[2], c[2], c[1]] { fail.push("Vector3::xzzy".to_string()); }
      n += 1; if v.xzzz().comps() != vec![c[0], c[2], c[2], c[2]] { fail.push("Vector3::xzzz".to_string()); }
      n += 1; if v.yxxx().comps() != vec![c[1], c[0], c[0], c[0]] { fail.push("Vector3::yxxx".to_string()); }
      n += 1; if v.yxxy().comps() != vec![c[1], c[0], c[0], c[1]] { fail.push("Vector3::yxxy".to_string()); }
      n += 1; if v.yxxz().comps() != vec![c[1], c[0], c[0], c[2]] { fail.push("Vector3::yxxz".to_string()); }
      n += 1; if v.yxyx().comps() != vec![c[1], c[0], c[1], c[0]] { fail.push("Vector3::yxyx".to_string()); }
      n += 1; if v.yxyy().comps() != vec![c[1], c[0], c[1], c[1]] { fail.push("Vector3::yxyy".to_string()); }
      n += 1; if v.yxyz().comps() != vec![c[1], c[0], c[1], c[2]] { fail.push("Vector3::yxyz".to_string()); }
      n += 1; if v.yxzx().comps() != vec![c[1], c[0], c[2], c[0]] { fail.push("Vector3::yxzx".to_string()); }
      n += 1; if v.yxzy().comps() != vec![c[1], c[0], c[2], c[1]] { fail.push("Vector3::yxzy".to_string()); }
      n += 1; if v.yxzz().comps() != vec![c[1], c[0], c[2], c[2]] { fail.push("Vector3::yxzz".to_string()); }
      n += 1; if v.yyxx().comps() != vec![c[1], c[1], c[0], c[0]] { fail.push("Vector3::yyxx".to_string()); }
      n += 1; if v.yyxy().comps() != vec![c[1], c[1], c[0], c[1]] { fail.push("Vector3::yyxy".to_string()); }
      n += 1; if v.yyxz().comps() != vec![c[1], c[1], c[0], c[2]] { fail.push("Vector3::yyxz".to_string()); }
      n += 1; if v.yyyx().comps() != vec![c[1], c[1], c[1], c[0]] { fail.push("Vector3::yyyx".to_string()); }
      n += 1; if v.yyyy().comps() != vec![c[1], c[1], c[1], c[1]] { fail.push("Vector3::yyyy".to_string()); }
      n += 1; if v.yyyz().comps() != vec![c[1], c[1], c[1], c[2]] { fail.push("Vector3::yyyz".to_string()); }
      n += 1; if v.yyzx().comps() != vec![c[1], c[1], c[2], c[0]] { fail.push("Vector3::yyzx".to_string()); }
      n += 1; if v.yyzy().comps() != vec![c[1], c[1], c[2], c[1]] { fail.push("Vector3::yyzy".to_string()); }
      n += 1; if v.yyzz().comps() != vec![c[1], c[1], c[2], c[2]] { fail.push("Vector3::yyzz".to_string()); }
      n += 1; if v.yzxx().comps() != vec![c[1], c[2], c[0], c[0]] { fail.push("Vector3::yzxx".to_string()); }
      n += 1; if v.yzxy().comps() != vec![c[1], c[2], c[0], c[1]] { fail.push("Vector3::yzxy".to_string()); }
      n += 1; if v.yzxz().comps() != vec![c[1], c[2], c[0], c[2]] { fail.push("Vector3::yzxz".to_string()); }
      n += 1; if v.yzyx().comps() != vec![c[1], c[2], c[1], c[0]] { fail.push("Vector3::yzyx".to_string()); }
      n += 1; if v.yzyy().comps() != vec![c[1], c[2], c[1], c[1]] { fail.push("Vector3::yzyy".to_string()); }
      n += 1; if v.yzyz().comps() != vec![c[1], c[2], c[1], c[2]] { fail.push("Vector3::yzyz".to_string()); }
      n += 1; if v.yzzx().comps() != vec![c[1], c[2], c[2], c[0]] { fail.push("Vector3::yzzx".to_string()); }
      n += 1; if v.yzzy().comps() != vec![c[1], c[2], c[2], c[1]] { fail.push("Vector3::yzzy".to_string()); }
      n += 1; if v.yzzz().comps() != vec![c[1], c[2], c[2], c[2]] { fail.push("Vector3::yzzz".to_string()); }
      n += 1; if v.zxxx().comps() != vec![c[2], c[0], c[0], c[0]] { fail.push("Vector3::zxxx".to_string()); }
      n += 1; if v.zxxy().comps() != vec![c[2], c[0], c[0], c[1]] { fail.push("Vector3::zxxy".to_string()); }
      n += 1; if v.zxxz().comps() != vec![c[2], c[0], c[0], c[2]] { fail.push("Vector3::zxxz".to_string()); }
      n += 1; if v.zxyx().comps() != vec![c[2], c[0], c[1], c[0]] { fail.push("Vector3::zxyx".to_string()); }
      n += 1; if v.zxyy().comps() != vec![c[2], c[0], c[1], c[1]] { fail.push("Vector3::zxyy".to_string()); }
      n += 1; if v.zxyz().comps() != vec![c[2], c[0], c[1], c[2]] { fail.push("Vector3::zxyz".to_string()); }
      n += 1; if v.zxzx().comps() != vec![c[2], c[0], c[2], c[0]] { fail.push("Vector3::zxzx".to_string()); }
      n += 1; if v.zxzy().comps() != vec![c[2], c[0], c[2], c[1]] { fail.push("Vector3::zxzy".to_string()); }
      n += 1; if v.zxzz().comps() != vec![c[2], c[0], c[2], c[2]] { fail.push("Vector3::zxzz".to_string()); }
      n += 1; if v.zyxx().comps() != vec![c[2], c[1], c[0], c[0]] { fail.push("Vector3::zyxx".to_string()); }
      n += 1; if v.zyxy().comps() != vec![c[2], c[1], c[0], c[1]] { fail.push("Vector3::zyxy".to_string()); }
      n += 1; if v.zyxz().comps() != vec![c[2], c[1], c[0], c[2]] { fail.push("Vector3::zyxz".to_string()); }
      n += 1; if v.zyyx().comps() != vec![c[2], c[1], c[1], c[0]] { fail.push("Vector3::zyyx".to_string()); }
      n += 1; if v.zyyy().comps() != vec![c[2], c[1], c[1], c[1]] { fail.push("Vector3::zyyy".to_string()); }
      n += 1; if v.zyyz().comps() != vec![c[2], c[1], c[1], c[2]] { fail.push("Vector3::zyyz".to_string()); }
      n += 1; if v.zyzx().comps() != vec![c[2], c[1], c[2], c[0]] { fail.push("Vector3::zyzx".to_string()); }
      n += 1; if v.zyzy().comps() != vec![c[2], c[1], c[2], c[1]] { fail.push("Vector3::zyzy".to_string()); }
      n += 1; if v.zyzz().comps() != vec![c[2], c[1], c[2], c[2]] { fail.push("Vector3::zyzz".to_string()); }
      n += 1; if v.zzxx().comps() != vec![c[2], c[2], c[0], c[0]] { fail.push("Vector3::zzxx".to_string()); }
      n += 1; if v.zzxy().comps() != vec![c[2], c[2], c[0], c[1]] { fail.push("Vector3::zzxy".to_string()); }
      n += 1; if v.zzxz().comps() != vec![c[2], c[2], c[0], c[2]] { fail.push("Vector3::zzxz".to_string()); }
      n += 1; if v.zzyx().comps() != vec![c[2], c[2], c[1], c[0]] { fail.push("Vector3::zzyx".to_string()); }
      n += 1; if v.zzyy().comps() != vec![c[2], c[2], c[1], c[1]] { fail.push("Vector3::zzyy".to_string()); }
      n += 1; if v.zzyz().comps() != vec![c[2], c[2], c[1], c[2]] { fail.push("Vector3::zzyz".to_string()); }
      n += 1; if v.zzzx().comps() != vec![c[2], c[2], c[2], c[0]] { fail.push("Vector3::zzzx".to_string()); }
      n += 1; if v.zzzy().comps() != vec![c[2], c[2], c[2], c[1]] { fail.push("Vector3::zzzy".to_string()); }
      n += 1; if v.zzzz().comps() != vec![c[2], c[2], c[2], c[2]] { fail.push("Vector3::zzzz".to_string()); }
    }
    { let v = Vector4::new(c[0], c[1], c[2], c[3]);
      n += 1; if v.x().comps() != vec![c[0]] { fail.push("Vector4::x".to_string()); }
      n += 1; if v.y().comps() != vec![c[1]] { fail.push("Vector4::y".to_string()); }
      n += 1; if v.z().comps() != vec![c[2]] { fail.push("Vector4::z".to_string()); }
      n += 1; if v.w().comps() != vec![c[3]] { fail.push("Vector4::w".to_string()); }
      n += 1; if v.xx().comps() != vec![c[0], c[0]] { fail.push("Vector4::xx".to_string()); }
      n += 1; if v.xy().comps() != vec![c[0], c[1]] { fail.push("Vector4::xy".to_string()); }
      n += 1; if v.xz().comps() != vec![c[0], c[2]] { fail.push("Vector4::xz".to_string()); }
      n += 1; if v.xw().comps() != vec![c[0], c[3]] { fail.push("Vector4::xw".to_string()); }
      n += 1; if v.yx().comps() != vec![c[1], c[0]] { fail.push("Vector4::yx".to_string()); }
      n += 1; if v.yy().comps() != vec![c[1], c[1]] { fail.push("Vector4::yy".to_string()); }
      n += 1; if v.yz().comps() != vec![c[1], c[2]] { fail.push("Vector4::yz".to_string()); }
      n += 1; if v.yw().comps() != vec![c[1], c[3]] { fail.push("Vector4::yw".to_string()); }
      n += 1; if v.zx().comps() != vec![c[2], c[0]] { fail.push("Vector4::zx".to_string()); }
      n += 1; if v.zy().comps() != vec![c[2], c[1]] { fail.push("Vector4::zy".to_string()); }
      n += 1; if v.zz().comps() != vec![c[2], c[2]] { fail.push("Vector4::zz".to_string()); }
      n += 1; if v.zw().comps() != vec![c[2], c[3]] { fail.push("Vector4::zw".to_string()); }
      n += 1; if v.wx().comps() != vec![c[3], c[0]] { fail.push("Vector4::wx".to_string()); }
      n += 1; if v.wy().comps() != vec![c[3], c[1]] { fail.push("Vector4::wy".to_string()); }
      n += 1; if v.wz().comps() != vec![c[3], c[2]] { fail.push("Vector4::wz".to_string()); }
      n += 1; if v.ww().comps() != vec![c[3], c[3]] { fail.push("Vector4::ww".to_string()); }
      n += 1; if v.xxx().comps() != vec![c[0], c[0], c[0]] { fail.push("Vector4::xxx".to_string()); }
      n += 1; if v.xxy().comps() != vec![c[0], c[0], c[1]] { fail.push("Vector4::xxy".to_string()); }
      n += 1; if v.xxz().comps() != vec![c[0], c[0], c[2]] { fail.push("Vector4::xxz".to_string()); }
      n += 1; if v.xxw().comps() != vec![c[0], c[0], c[3]] { fail.push("Vector4::xxw".to_string()); }
      n += 1; if v.xyx().comps() != vec![c[0], c[1], c[0]] { fail.push("Vector4::xyx".to_string()); }
      n += 1; if v.xyy().comps() != vec![c[0], c[1], c[1]] { fail.push("Vector4::xyy".to_string()); }
      n += 1; if v.xyz().comps() != vec![c[0], c[1], c[2]] { fail.push("Vector4::xyz".to_string()); }
      n += 1; if v.xyw().comps() != vec![c[0], c[1], c[3]] { fail.push("Vector4::xyw".to_string()); }
      n += 1; if v.xzx().comps() != vec![c[0], c[2], c[0]] { fail.push("Vector4::xzx".to_string()); }
      n += 1; if v.xzy().comps() != vec![c[0], c[2], c[1]] { fail.push("Vector4::xzy".to_string()); }
      n += 1; if v.xzz().comps() != vec![c[0], c[2], c[2]] { fail.push("Vector4::xzz".to_string()); }
      n += 1; if v.xzw().comps() != vec![c[0], c[2], c[3]] { fail.push("Vector4::xzw".to_string()); }
      n += 1; if v.xwx().comps() != vec![c[0], c[3], c[0]] { fail.push("Vector4::xwx".to_string()); }
      n += 1; if v.xwy().comps() != vec![c[0], c[3], c[1]] { fail.push("Vector4::xwy".to_string()); }
      n += 1; if v.xwz().comps() != vec![c[0], c[3], c[2]] { fail.push("Vector4::xwz".to_string()); }
      n += 1; if v.xww().comps() != vec![c[0], c[3], c[3]] { fail.push("Vector4::xww".to_string()); }
      n += 1; if v.yxx().comps() != vec![c[1], c[0], c[0]] { fail.push("Vector4::yxx".to_string()); }
      n += 1; if v.yxy().comps() != vec![c[1], c[0], c[1]] { fail.push("Vector4::yxy".to_string()); }
      n += 1; if v.yxz().comps() != vec![c[1], c[0], c[2]] { fail.push("Vector4::yxz".to_string()); }
      n += 1; if v.yxw().comps() != vec![c[1], c[0], c[3]] { fail.push("Vector4::yxw".to_string()); }
      n += 1; if v.yyx().comps() != vec![c[1], c[1], c[0]] { fail.push("Vector4::yyx".to_string()); }
      n += 1; if v.yyy().comps() != vec![c[1], c[1], c[1]] { fail.push("Vector4::yyy".to_string()); }
      n += 1; if v.yyz().comps() != vec![c[1], c[1], c[2]] { fail.push("Vector4::yyz".to_string()); }
      n += 1; if v.yyw().comps() != vec![c[1], c[1], c[3]] { fail.push("Vector4::yyw".to_string()); }
      n += 1; if v.yzx().comps() != vec![c[1], c[2], c[0]] { fail.push("Vector4::yzx".to_string()); }
      n += 1; if v.yzy().comps() != vec![c[1], c[2], c[1]] { fail.push("Vector4::yzy".to_string()); }
      n += 1; if v.yzz().comps() != vec![c[1], c[2], c[2]] { fail.push("Vector4::yzz".to_string()); }
      n += 1; if v.yzw().comps() != vec![c[1], c[2], c[3]] { fail.push("Vector4::yzw".to_string()); }
      n += 1; if v.ywx().comps() != vec![c[1], c[3], c[0]] { fail.push("Vector4::ywx".to_string()); }
      n += 1; if v.ywy().comps() != vec![c[1], c[3], c[1]] { fail.push("Vector4::ywy".to_string()); }
      n += 1; if v.ywz().comps() != vec![c[1], c[3], c[2]] { fail.push("Vector4::ywz".to_string()); }
      n += 1; if v.yww().comps() != vec![c[1], c[3], c[3]] { fail.push("Vector4::yww".to_string()); }
      n += 1; if v.zxx().comps() != vec![c[2], c[0], c[0]] { fail.push("Vector4::zxx".to_string()); }
      n += 1; if v.zxy().comps() != vec![c[2], c[0], c[1]] { fail.push("Vector4::zxy".to_string()); }
      n += 1; if v.zxz().comps() != vec![c[2], c[0], c[2]] { fail.push("Vector4::zxz".to_string()); }
      n += 1; if v.zxw().comps() != vec![c[2], c[0], c[3]] { fail.push("Vector4::zxw".to_string()); }
      n += 1; if v.zyx().comps() != vec![c[2], c[1], c[0]] { fail.push("Vector4::zyx".to_string()); }
      n += 1; if v.zyy().comps() != vec![c[2], c[1], c[1]] { fail.push("Vector4::zyy".to_string()); }
      n += 1; if v.zyz().comps() != vec![c[2], c[1], c[2]] { fail.push("Vector4::zyz".to_string()); }
      n += 1; if v.zyw().comps() != vec![c[2], c[1], c[3]] { fail.push("Vector4::zyw".to_string()); }
      n += 1; if v.zzx().comps() != vec![c[2], c[2], c[0]] { fail.push("Vector4::zzx".to_string()); }
      n += 1; if v.zzy().comps() != vec![c[2], c[2], c[1]] { fail.push("Vector4::zzy".to_string()); }
      n += 1; if v.zzz().comps() != vec![c[2], c[2], c[2]] { fail.push("Vector4::zzz".to_string()); }
      n += 1; if v.zzw().comps() != vec![c[2], c[2], c[3]] { fail.push("Vector4::zzw".to_string()); }
      n += 1; if v.zwx().comps() != vec![c[2], c[3], c[0]] { fail.push("Vector4::zwx".to_string()); }
      n += 1; if v.zwy().comps() != vec![c[2], c[3], c[1]] { fail.push("Vector4::zwy".to_string()); }
      n += 1; if v.zwz().comps() != vec![c[2], c[3], c[2]] { fail.push("Vector4::zwz".to_string()); }
      n += 1; if v.zww().comps() != vec![c[2], c[3], c[3]] { fail.push("Vector4::zww".to_string()); }
      n += 1; if v.wxx().comps() != vec![c[3], c[0], c[0]] { fail.push("Vector4::wxx".to_string()); }
      n += 1; if v.wxy().comps() != vec![c[3], c[0], c[1]] { fail.push("Vector4::wxy".to_string()); }
      n += 1; if v.wxz().comps() != vec![c[3], c[0], c[2]] { fail.push("Vector4::wxz".to_string()); }
      n += 1; if v.wxw().comps() != vec![c[3], c[0], c[3]] { fail.push("Vector4::wxw".to_string()); }
      n += 1; if v.wyx().comps() != vec![c[3], c[1], c[0]] { fail.push("Vector4::wyx".to_string()); }
      n += 1; if v.wyy().comps() != vec![c[3], c[1], c[1]] { fail.push("Vector4::wyy".to_string()); }
      n += 1; if v.wyz().comps() != vec![c[3], c[1], c[2]] { fail.push("Vector4::wyz".to_string()); }
      n += 1; if v.wyw().comps() != vec![c[3], c[1], c[3]] { fail.push("Vector4::wyw".to_string()); }
      n += 1; if v.wzx().comps() != vec![c[3], c[2], c[0]] { fail.push("Vector4::wzx".to_string()); }
      n += 1; if v.wzy().comps() != vec![c[3], c[2], c[1]] { fail.push("Vector4::wzy".to_string()); }
      n += 1; if v.wzz().comps() != vec![c[3], c[2], c[2]] { fail.push("Vector4::wzz".to_string()); }
      n += 1; if v.wzw().comps() != vec![c[3], c[2], c[3]] { fail.push("Vector4::wzw".to_string()); }
      n += 1; if v.wwx().comps() != vec![c[3], c[3], c[0]] { fail.push("Vector4::wwx".to_string()); }
      n += 1; if v.wwy().comps() != vec![c[3], c[3], c[1]] { fail.push("Vector4::wwy".to_string()); }
      n += 1; if v.wwz().comps() != vec![c[3], c[3], c[2]] { fail.push("Vector4::wwz".to_string()); }
      n += 1; if v.www().comps() != vec![c[3], c[3], c[3]] { fail.push("Vector4::www".to_string()); }
      n += 1; if v.xxxx().comps() != vec![c[0], c[0], c[0], c[0]] { fail.push("Vector4::xxxx".to_string()); }
      n += 1; if v.xxxy().comps() != vec![c[0], c[0], c[0], c[1]] { fail.push("Vector4::xxxy".to_string()); }
      n += 1; if v.xxxz().comps() != vec![c[0], c[0], c[0], c[2]] { fail.push("Vector4::xxxz".to_string()); }
      n += 1; if v.xxxw().comps() != vec![c[0], c[0], c[0], c[3]] { fail.push("Vector4::xxxw".to_string()); }
      n += 1; if v.xxyx().comps() != vec![c[0], c[0], c[1], c[0]] { fail.push("Vector4::xxyx".to_string()); }
      n += 1; if v.xxyy().comps() != vec![c[0], c[0], c[1], c[1]] { fail.push("Vector4::xxyy".to_string()); }
      n += 1; if v.xxyz().comps() != vec![c[0], c[0], c[1], c[2]] { fail.push("Vector4::xxyz".to_string()); }
      n += 1; if v.xxyw().comps() != vec![c[0], c[0], c[1], c[3]] { fail.push("Vector4::xxyw".to_string()); }
      n += 1; if v.xxzx().comps() != vec![c[0], c[0], c[2], c[0]] { fail.push("Vector4::xxzx".to_string()); }
      n += 1; if v.xxzy().comps() != vec![c[0], c[0], c[2], c[1]] { fail.push("Vector4::xxzy".to_string()); }
      n += 1; if v.xxzz().comps() != vec![c[0], c[0], c[2], c[2]] { fail.push("Vector4::xxzz".to_string()); }
      n += 1; if v.xxzw().comps() != vec![c[0], c[0], c[2], c[3]] { fail.push("Vector4::xxzw".to_string()); }
      n += 1; if v.xxwx().comps() != vec![c[0], c[0], c[3], c[0]] { fail.push("Vector4::xxwx".to_string()); }
      n += 1; if v.xxwy().comps() != vec![c[0], c[0], c[3], c[1]] { fail.push("Vector4::xxwy".to_string()); }
      n += 1; if v.xxwz().comps() != vec![c[0], c[0], c[3], c[2]] { fail.push("Vector4::xxwz".to_string()); }
      n += 1; if v.xxww().comps() != vec![c[0], c[0], c[3], c[3]] { fail.push("Vector4::xxww".to_string()); }
      n += 1; if v.xyxx().comps() != vec![c[0], c[1], c[0], c[0]] { fail.push("Vector4::xyxx".to_string()); }
      n += 1; if v.xyxy().comps() != vec![c[0], c[1], c[0], c[1]] { fail.push("Vector4::xyxy".to_string()); }
      n += 1; if v.xyxz().comps() != vec![c[0], c[1], c[0], c[2]] { fail.push("Vector4::xyxz".to_string()); }
      n += 1; if v.xyxw().comps() != vec![c[0], c[1], c[0], c[3]] { fail.push("Vector4::xyxw".to_string()); }
      n += 1; if v.xyyx().comps() != vec![c[0], c[1], c[1], c[0]] { fail.push("Vector4::xyyx".to_string()); }
      n += 1; if v.xyyy().comps() != vec![c[0], c[1], c[1], c[1]] { fail.push("Vector4::xyyy".to_string()); }
      n += 1; if v.xyyz().comps() != vec![c[0], c[1], c[1], c[2]] { fail.push("Vector4::xyyz".to_string()); }
      n += 1; if v.xyyw().comps() != vec![c[0], c[1], c[1], c[3]] { fail.push("Vector4::xyyw".to_string()); }
      n += 1; if v.xyzx().comps() != vec![c[0], c[1], c[2], c[0]] { fail.push("Vector4::xyzx".to_string()); }
      n += 1; if v.xyzy().comps() != vec![c[0], c[1], c[2], c[1]] { fail.push("Vector4::xyzy".to_string()); }
      n += 1; if v.xyzz().comps() != vec![c[0], c[1], c[2], c[2]] { fail.push("Vector4::xyzz".to_string()); }
      n += 1; if v.xyzw().comps() != vec![c[0], c[1], c[2], c[3]] { fail.push("Vector4::xyzw".to_string()); }
      n += 1; if v.xywx().comps() != vec![c[0], c[1], c[3], c[0]] { fail.push("Vector4::xywx".to_string()); }
      n += 1; if v.xywy().comps() != vec![c[0], c[1], c[3], c[1]] { fail.push("Vector4::xywy".to_string()); }
      n += 1; if v.xywz().comps() != vec![c[0], c[1], c[3], c[2]] { fail.push("Vector4::xywz".to_string()); }
      n += 1; if v.xyww().comps() != vec![c[0], c[1], c[3], c[3]] { fail.push("Vector4::xyww".to_string()); }
      n += 1; if v.xzxx().comps() != vec![c[0], c[2], c[0], c[0]] { fail.push("Vector4::xzxx".to_string()); }
      n += 1; if v.xzxy().comps() != vec![c[0], c[2], c[0], c[1]] { fail.push("Vector4::xzxy".to_string()); }
      n += 1; if v.xzxz().comps() != vec![c[0], c[2], c[0], c[2]] { fail.push("Vector4::xzxz".to_string()); }
      n += 1; if v.xzxw().comps() != vec![c[0], c[2], c[0], c[3]] { fail.push("Vector4::xzxw".to_string()); }
      n += 1; if v.xzyx().comps() != vec![c[0], c[2], c[1], c[0]] { fail.push("Vector4::xzyx".to_string()); }
      n += 1; if v.xzyy().comps() != vec![c[0], c[2], c[1], c[1]] { fail.push("Vector4::xzyy".to_string()); }
      n += 1; if v.xzyz().comps() != vec![c[0], c[2], c[1], c[2]] { fail.push("Vector4::xzyz".to_string()); }
      n += 1; if v.xzyw().comps() != vec![c[0], c[2], c[1], c[3]] { fail.push("Vector4::xzyw".to_string()); }
      n += 1; if v.xzzx().comps() != vec![c[0], c[2], c[2], c[0]] { fail.push("Vector4::xzzx".to_string()); }
      n += 1; if v.xzzy().comps() != vec![c[0], c[2], c[2], c[1]] { fail.push("Vector4::xzzy".to_string()); }
      n += 1; if v.xzzz().comps() != vec![c[0], c[2], c[2], c[2]] { fail.push("Vector4::xzzz".to_string()); }
      n += 1; if v.xzzw().comps() != vec![c[0], c[2], c[2], c[3]] { fail.push("Vector4::xzzw".to_string()); }
      n += 1; if v.xzwx().comps() != vec![c[0], c[2], c[3], c[0]] { fail.push("Vector4::xzwx".to_string()); }
      n += 1; if v.xzwy().comps() != vec![c[0], c[2], c[3], c[1]] { fail.push("Vector4::xzwy".to_string()); }
      n += 1; if v.xzwz().comps() != vec![c[0], c[2], c[3], c[2]] { fail.push("Vector4::xzwz".to_string()); }
      n += 1; if v.xzww().comps() != vec![c[0], c[2], c[3], c[3]] { fail.push("Vector4::xzww".to_string()); }
      n += 1; if v.xwxx().comps() != vec![c[0], c[3], c[0], c[0]] { fail.push("Vector4::xwxx".to_string()); }
      n += 1; if v.xwxy().comps() != vec![c[0], c[3], c[0], c[1]] { fail.push("Vector4::xwxy".to_string()); }
      n += 1; if v.xwxz().comps() != vec![c[0], c[3], c[0], c[2]] { fail.push("Vector4::xwxz".to_string()); }
      n += 1; if v.xwxw().comps() != vec![c[0], c[3], c[0], c[3]] { fail.push("Vector4::xwxw".to_string()); }
      n += 1; if v.xwyx().comps() != vec![c[0], c[3], c[1], c[0]] { fail.push("Vector4::xwyx".to_string()); }
      n += 1; if v.xwyy().comps() != vec![c[0], c[3], c[1], c[1]] { fail.push("Vector4::xwyy".to_string()); }
      n += 1; if v.xwyz().comps() != vec![c[0], c[3], c[1], c[2]] { fail.push("Vector4::xwyz".to_string()); }
      n += 1; if v.xwyw().comps() != vec![c[0], c[3], c[1], c[3]] { fail.push("Vector4::xwyw".to_string()); }
      n += 1; if v.xwzx().comps() != vec![c[0], c[3], c[2], c[0]] { fail.push("Vector4::xwzx".to_string()); }
      n += 1; if v.xwzy().comps() != vec![c[0], c[3], c[2], c[1]] { fail.push("Vector4::xwzy".to_string()); }
      n += 1; if v.xwzz().comps() != vec![c[0], c[3], c[2], c[2]] { fail.push("Vector4::xwzz".to_string()); }
      n += 1; if v.xwzw().comps() != vec![c[0], c[3], c[2], c[3]] { fail.push("Vector4::xwzw".to_string()); }
      n += 1; if v.xwwx().comps() != vec![c[0], c[3], c[3], c[0]] { fail.push("Vector4::xwwx".to_string()); }
      n += 1; if v.xwwy().comps() != vec![c[0], c[3], c[3], c[1]] { fail.push("Vector4::xwwy".to_string()); }
      n += 1; if v.xwwz().comps() != vec![c[0], c[3], c[3], c[2]] { fail.push("Vector4::xwwz".to_string()); }
      n += 1; if v.xwww().comps() != vec![c[0], c[3], c[3], c[3]] { fail.push("Vector4::xwww".to_string()); }
      n += 1; if v.yxxx().comps() != vec![c[1], c[0], c[0], c[0]] { fail.push("Vector4::yxxx".to_string()); }
      n += 1; if v.yxxy().comps() != vec![c[1], c[0], c[0], c[1]] { fail.push("Vector4::yxxy".to_string()); }
      n += 1; if v.yxxz().comps() != vec![c[1], c[0], c[0], c[2]] { fail.push("Vector4::yxxz".to_string()); }
      n += 1; if v.yxxw().comps() != vec![c[1], c[0], c[0], c[3]] { fail.push("Vector4::yxxw".to_string()); }
      n += 1; if v.yxyx().comps() != vec![c[1], c[0], c[1], c[0]] { fail.push("Vector4::yxyx".to_string()); }
      n += 1; if v.yxyy().comps() != vec![c[1], c[0], c[1], c[1]] { fail.push("Vector4::yxyy".to_string()); }
      n += 1; if v.yxyz().comps() != vec![c[1], c[0], c[1], c[2]] { fail.push("Vector4::yxyz".to_string()); }
      n += 1; if v.yxyw().comps() != vec![c[1], c[0], c[1], c[3]] { fail.push("Vector4::yxyw".to_string()); }
      n += 1; if v.yxzx().comps() != vec![c[1], c[0], c[2], c[0]] { fail.push("Vector4::yxzx".to_string()); }
      n += 1; if v.yxzy().comps() != vec![c[1], c[0], c[2], c[1]] { fail.push("Vector4::yxzy".to_string()); }
      n += 1; if v.yxzz().comps() != vec![c[1], c[0], c[2], c[2]] { fail.push("Vector4::yxzz".to_string()); }
      n += 1; if v.yxzw().comps() != vec![c[1], c[0], c[2], c[3]] { fail.push("Vector4::yxzw".to_string()); }
      n += 1; if v.yxwx().comps() != vec![c[1], c[0], c[3], c[0]] { fail.push("Vector4::yxwx".to_string()); }
      n += 1; if v.yxwy().comps() != vec![c[1], c[0], c[3], c[1]] { fail.push("Vector4::yxwy".to_string()); }
      n += 1; if v.yxwz().comps() != vec![c[1], c[0], c[3], c[2]] { fail.push("Vector4::yxwz".to_string()); }
      n += 1; if v.yxww().comps() != vec![c[1], c[0], c[3], c[3]] { fail.push("Vector4::yxww".to_string()); }
      n += 1; if v.yyxx().comps() != vec![c[1], c[1], c[0], c[0]] { fail.push("Vector4::yyxx".to_string()); }
      n += 1; if v.yyxy().comps() != vec![c[1], c[1], c[0], c[1]] { fail.push("Vector4::yyxy".to_string()); }
      n += 1; if v.yyxz().comps() != vec![c[1], c[1], c[0], c[2]] { fail.push("Vector4::yyxz".to_string()); }
      n += 1; if v.yyxw().comps() != vec![c[1], c[1], c[0], c[3]] { fail.push("Vector4::yyxw".to_string()); }
      n += 1; if v.yyyx().comps() != vec![c[1], c[1], c[1], c[0]] { fail.push("Vector4::yyyx".to_string()); }
      n += 1; if v.yyyy().comps() != vec![c[1], c[1], c[1], c[1]] { fail.push("Vector4::yyyy".to_string()); }
      n += 1; if v.yyyz().comps() != vec![c[1], c[1], c[1], c[2]] { fail.push("Vector4::yyyz".to_string()); }
      n += 1; if v.yyyw().comps() != vec![c[1], c[1], c[1], c[3]] { fail.push("Vector4::yyyw".to_string()); }
      n += 1; if v.yyzx().comps() != vec![c[1], c[1], c[2], c[0]] { fail.push("Vector4::yyzx".to_string()); }
      n += 1; if v.yyzy().comps() != vec![c[1], c[1], c[2], c[1]] { fail.push("Vector4::yyzy".to_string()); }
      n += 1; if v.yyzz().comps() != vec![c[1], c[1], c[2], c[2]] { fail.push("Vector4::yyzz".to_string()); }
      n += 1; if v.yyzw().comps() != vec![c[1], c[1], c[2], c[3]] { fail.push("Vector4::yyzw".to_string()); }
      n += 1; if v.yywx().comps() != vec![c[1], c[1], c[3], c[0]] { fail.push("Vector4::yywx".to_string()); }
      n += 1; if v.yywy().comps() != vec![c[1], c[1], c[3], c[1]] { fail.push("Vector4::yywy".to_string()); }
      n += 1; if v.yywz().comps() != vec![c[1], c[1], c[3], c[2]] { fail.push("Vector4::yywz".to_string()); }
      n += 1; if v.yyww().comps() != vec![c[1], c[1], c[3], c[3]] { fail.push("Vector4::yyww".to_string()); }
      n += 1; if v.yzxx().comps() != vec![c[1], c[2], c[0], c[0]] { fail.push("Vector4::yzxx".to_string()); }
      n += 1; if v.yzxy().comps() != vec![c[1], c[2], c[0], c[1]] { fail.push("Vector4::yzxy".to_string()); }
      n += 1; if v.yzxz().comps() != vec![c[1], c[2], c[0], c[2]] { fail.push("Vector4::yzxz".to_string()); }
      n += 1; if v.yzxw().comps() != vec![c[1], c[2], c[0], c[3]] { fail.push("Vector4::yzxw".to_string()); }
      n += 1; if v.yzyx().comps() != vec![c[1], c[2], c[1], c[0]] { fail.push("Vector4::yzyx".to_string()); }
      n += 1; if v.yzyy().comps() != vec![c[1], c[2], c[1], c[1]] { fail.push("Vector4::yzyy".to_string()); }
      n += 1; if v.yzyz().comps() != vec![c[1], c[2], c[1], c[2]] { fail.push("Vector4::yzyz".to_string()); }
      n += 1; if v.yzyw().comps() != vec![c[1], c[2], c[1], c[3]] { fail.push("Vector4::yzyw".to_string()); }
      n += 1; if v.yzzx().comps() != vec![c[1], c[2], c[2], c[0]] { fail.push("Vector4::yzzx".to_string()); }
      n += 1; if v.yzzy().comps() != vec![c[1], c[2], c[2], c[1]] { fail.push("Vector4::yzzy".to_string()); }
      n += 1; if v.yzzz().comps() != vec![c[1], c[2], c[2], c[2]] { fail.push("Vector4::yzzz".to_string()); }
      n += 1; if v.yzzw().comps() != vec![c[1], c[2], c[2], c[3]] { fail.push("Vector4::yzzw".to_string()); }
      n += 1; if v.yzwx().comps() != vec![c[1], c[2], c[3], c[0]] { fail.push("Vector4::yzwx".to_string()); }
      n += 1; if v.yzwy().comps() != vec![c[1], c[2], c[3], c[1]] { fail.push("Vector4::yzwy".to_string()); }
      n += 1; if v.yzwz().comps() != vec![c[1], c[2], c[3], c[2]] { fail.push("Vector4::yzwz".to_string()); }
      n += 1; if v.yzww().comps() != vec![c[1], c[2], c[3], c[3]] { fail.push("Vector4::yzww".to_string()); }
      n += 1; if v.ywxx().comps() != vec![c[1], c[3], c[0], c[0]] { fail.push("Vector4::ywxx".to_string()); }
      n += 1; if v.ywxy().comps() != vec![c[1], c[3], c[0], c[1]] { fail.push("Vector4::ywxy".to_string()); }
      n += 1; if v.ywxz().comps() != vec![c[1], c[3], c[0], c[2]] { fail.push("Vector4::ywxz".to_string()); }
      n += 1; if v.ywxw().comps() != vec![c[1], c[3], c[0], c[3]] { fail.push("Vector4::ywxw".to_string()); }
      n += 1; if v.ywyx().comps() != vec![c[1], c[3], c[1], c[0]] { fail.push("Vector4::ywyx".to_string()); }
      n += 1; if v.ywyy().comps() != vec![c[1], c[3], c[1], c[1]] { fail.push("Vector4::ywyy".to_string()); }
      n += 1; if v.ywyz().comps() != vec![c[1], c[3], c[1], c[2]] { fail.push("Vector4::ywyz".to_string()); }
      n += 1; if v.ywyw().comps() != vec![c[1], c[3], c[1], c[3]] { fail.push("Vector4::ywyw".to_string()); }
      n += 1; if v.ywzx().comps() != vec![c[1], c[3], c[2], c[0]] { fail.push("Vector4::ywzx".to_string()); }
      n += 1; if v.ywzy().comps() != vec![c[1], c[3], c[2], c[1]] { fail.push("Vector4::ywzy".to_string()); }
      n += 1; if v.ywzz().comps() != vec![c[1], c[3], c[2], c[2]] { fail.push("Vector4::ywzz".to_string()); }
      n += 1; if v.ywzw().comps() != vec![c[1], c[3], c[2], c[3]] { fail.push("Vector4::ywzw".to_string()); }
      n += 1; if v.ywwx().comps() != vec![c[1], c[3], c[3], c[0]] { fail.push("Vector4::ywwx".to_string()); }
      n += 1; if v.ywwy().comps() != vec![c[1], c[3], c[3], c[1]] { fail.push("Vector4::ywwy".to_string()); }
      n += 1; if v.ywwz().comps() != vec![c[1], c[3], c[3], c[2]] { fail.push("Vector4::ywwz".to_string()); }
      n += 1; if v.ywww().comps() != vec![c[1], c[3], c[3], c[3]] { fail.push("Vector4::ywww".to_string()); }
      n += 1; if v.zxxx().comps() != vec![c[2], c[0], c[0], c[0]] { fail.push("Vector4::zxxx".to_string()); }
      n += 1; if v.zxxy().comps() != vec![c[2], c[0], c[0], c[1]] { fail.push("Vector4::zxxy".to_string()); }
      n += 1; if v.zxxz().comps() != vec![c[2], c[0], c[0], c[2]] { fail.push("Vector4::zxxz".to_string()); }
      n += 1; if v.zxxw().comps() != vec![c[2], c[0], c[0], c[3]] { fail.push("Vector4::zxxw".to_string()); }
      n += 1; if v.zxyx().comps() != vec![c[2], c[0], c[1], c[0]] { fail.push("Vector4::zxyx".to_string()); }
      n += 1; if v.zxyy().comps() != vec![c[2], c[0], c[1], c[1]] { fail.push("Vector4::zxyy".to_string()); }
      n += 1; if v.zxyz().comps() != vec![c[2], c[0], c[1], c[2]] { fail.push("Vector4::zxyz".to_string()); }
      n += 1; if v.zxyw().comps() != vec![c[2], c[0], c[1], c[3]] { fail.push("Vector4::zxyw".to_string()); }
      n += 1; if v.zxzx().comps() != vec![c[2], c[0], c[2], c[0]] { fail.push("Vector4::zxzx".to_string()); }
      n += 1; if v.zxzy().comps() != vec![c[2], c[0], c[2], c[1]] { fail.push("Vector4::zxzy".to_string()); }
      n += 1; if v.zxzz().comps() != vec![c[2], c[0], c[2], c[2]] { fail.push("Vector4::zxzz".to_string()); }
      n += 1; if v.zxzw().comps() != vec![c[2], c[0], c[2], c[3]] { fail.push("Vector4::zxzw".to_string()); }
      n += 1; if v.zxwx().comps() != vec![c[2], c[0], c[3], c[0]] { fail.push("Vector4::zxwx".to_string()); }
      n += 1; if v.zxwy().comps() != vec![c[2], c[0], c[3], c[1]] { fail.push("Vector4::zxwy".to_string()); }
      n += 1; if v.zxwz().comps() != vec![c[2], c[0], c[3], c[2]] { fail.push("Vector4::zxwz".to_string()); }
      n += 1; if v.zxww().comps() != vec![c[2], c[0], c[3], c[3]] { fail.push("Vector4::zxww".to_string()); }
      n += 1; if v.zyxx().comps() != vec![c[2], c[1], c[0], c[0]] { fail.push("Vector4::zyxx".to_string()); }
      n += 1; if v.zyxy().comps() != vec![c[2], c[1], c[0], c[1]] { fail.push("Vector4::zyxy".to_string()); }
      n += 1; if v.zyxz().comps() != vec![c[2], c[1], c[0], c[2]] { fail.push("Vector4::zyxz".to_string()); }
      n += 1; if v.zyxw().comps() != vec![c[2], c[1], c[0], c[3]] { fail.push("Vector4::zyxw".to_string()); }
      n += 1; if v.zyyx().comps() != vec![c[2], c[1], c[1], c[0]] { fail.push("Vector4::zyyx".to_string()); }
      n += 1; if v.zyyy().comps() != vec![c[2], c[1], c[1], c[1]] { fail.push("Vector4::zyyy".to_string()); }
      n += 1; if v.zyyz().comps() != vec![c[2], c[1], c[1], c[2]] { fail.push("Vector4::zyyz".to_string()); }
      n += 1; if v.zyyw().comps() != vec![c[2], c[1], c[1], c[3]] { fail.push("Vector4::zyyw".to_string()); }
      n += 1; if v.zyzx().comps() != vec![c[2], c[1], c[2], c[0]] { fail.push("Vector4::zyzx".to_string()); }
      n += 1; if v.zyzy().comps() != vec![c[2], c[1], c[2], c[1]] { fail.push("Vector4::zyzy".to_string()); }
      n += 1; if v.zyzz().comps() != vec![c[2], c[1], c[2], c[2]] { fail.push("Vector4::zyzz".to_string()); }
      n += 1; if v.zyzw().comps() != vec![c[2], c[1], c[2], c[3]] { fail.push("Vector4::zyzw".to_string()); }
      n += 1; if v.zywx().comps() != vec![c[2], c[1], c[3], c[0]] { fail.push("Vector4::zywx".to_string()); }
      n += 1; if v.zywy().comps() != vec![c[2], c[1], c[3], c[1]] { fail.push("Vector4::zywy".to_string()); }
      n += 1; if v.zywz().comps() != vec![c[2], c[1], c[3], c[2]] { fail.push("Vector4::zywz".to_string()); }
      n += 1; if v.zyww().comps() != vec![c[2], c[1], c[3], c[3]] { fail.push("Vector4::zyww".to_string()); }
      n += 1; if v.zzxx().comps() != vec![c[2], c[2], c[0], c[0]] { fail.push("Vector4::zzxx".to_string()); }
      n += 1; if v.zzxy().comps() != vec![c[2], c[2], c[0], c[1]] { fail.push("Vector4::zzxy".to_string()); }
      n += 1; if v.zzxz().comps() != vec![c[2], c[2], c[0], c[2]] { fail.push("Vector4::zzxz".to_string()); }
      n += 1; if v.zzxw().comps() != vec![c[2], c[2], c[0], c[3]] { fail.push("Vector4::zzxw".to_string()); }
      n += 1; if v.zzyx().comps() != vec![c[2], c[2], c[1], c[0]] { fail.push("Vector4::zzyx".to_string()); }
      n += 1; if v.zzyy().comps() != vec![c[2], c[2], c[1], c[1]] { fail.push("Vector4::zzyy".to_string()); }
      n += 1; if v.zzyz().comps() != vec![c[2], c[2], c[1], c[2]] { fail.push("Vector4::zzyz".to_string()); }
      n += 1; if v.zzyw().comps() != vec![c[2], c[2], c[1], c[3]] { fail.push("Vector4::zzyw".to_string()); }
      n += 1; if v.zzzx().comps() != vec![c[2], c[2], c[2], c[0]] { fail.push("Vector4::zzzx".to_string()); }
      n += 1; if v.zzzy().comps() != vec![c[2], c[2], c[2], c[1]] { fail.push("Vector4::zzzy".to_string()); }
      n += 1; if v.zzzz().comps() != vec![c[2], c[2], c[2], c[2]] { fail.push("Vector4::zzzz".to_string()); }
      n += 1; if v.zzzw().comps() != vec![c[2], c[2], c[2], c[3]] { fail.push("Vector4::zzzw".to_string()); }
      n += 1; if v.zzwx().comps() != vec![c[2], c[2], c[3], c[0]] { fail.push("Vector4::zzwx".to_string()); }
      n += 1; if v.zzwy().comps() != vec![c[2], c[2], c[3], c[1]] { fail.push("Vector4::zzwy".to_string()); }
      n += 1; if v.zzwz().comps() != vec![c[2], c[2], c[3], c[2]] { fail.push("Vector4::zzwz".to_string()); }
      n += 1; if v.zzww().comps() != vec![c[2], c[2], c[3], c[3]] { fail.push("Vector4::zzww".to_string()); }
      n += 1; if v.zwxx().comps() != vec![c[2], c[3], c[0], c[0]] { fail.push("Vector4::zwxx".to_string()); }
      n += 1; if v.zwxy().comps() != vec![c[2], c[3], c[0], c[1]] { fail.push("Vector4::zwxy".to_string()); }
      n += 1; if v.zwxz().comps() != vec![c[2], c[3], c[0], c[2]] { fail.push("Vector4::zwxz".to_string()); }
      n += 1; if v.zwxw().comps() != vec![c[2], c[3], c[0], c[3]] { fail.push("Vector4::zwxw".to_string()); }
      n += 1; if v.zwyx().comps() != vec![c[2], c[3], c[1], c[0]] { fail.push("Vector4::zwyx".to_string()); }
      n += 1; if v.zwyy().comps() != vec![c[2], c[3], c[1], c[1]] { fail.push("Vector4::zwyy".to_string()); }
      n += 1; if v.zwyz().comps() != vec![c[2], c[3], c[1], c[2]] { fail.push("Vector4::zwyz".to_string()); }
      n += 1; if v.zwyw().comps() != vec![c[2], c[3], c[1], c[3]] { fail.push("Vector4::zwyw".to_string()); }
      n += 1; if v.zwzx().comps() != vec![c[2], c[3], c[2], c[0]] { fail.push("Vector4::zwzx".to_string()); }
      n += 1; if v.zwzy().comps() != vec![c[2], c[3], c[2], c[1]] { fail.push("Vector4::zwzy".to_string()); }
      n += 1; if v.zwzz().comps() != vec![c[2], c[3], c[2], c[2]] { fail.push("Vector4::zwzz".to_string()); }
      n += 1; if v.zwzw().comps() != vec![c[2], c[3], c[2], c[3]] { fail.push("Vector4::zwzw".to_string()); }
      n += 1; if v.zwwx().comps() != vec![c[2], c[3], c[3], c[0]] { fail.push("Vector4::zwwx".to_string()); }
      n += 1; if v.zwwy().comps() != vec![c[2], c[3], c[3], c[1]] { fail.push("Vector4::zwwy".to_string()); }
      n += 1; if v.zwwz().comps() != vec![c[2], c[3], c[3], c[2]] { fail.push("Vector4::zwwz".to_string()); }
      n += 1; if v.zwww().comps() != vec![c[2], c[3], c[3], c[3]] { fail.push("Vector4::zwww".to_string()); }
      n += 1; if v.wxxx().comps() != vec![c[3], c[0], c[0], c[0]] { fail.push("Vector4::wxxx".to_string()); }
      n += 1; if v.wxxy().comps() != vec![c[3], c[0], c[0], c[1]] { fail.push("Vector4::wxxy".to_string()); }
      n += 1; if v.wxxz().comps() != vec![c[3], c[0], c[0], c[2]] { fail.push("Vector4::wxxz".to_string()); }
      n += 1; if v.wxxw().comps() != vec![c[3], c[0], c[0], c[3]] { fail.push("Vector4::wxxw".to_string()); }
      n += 1; if v.wxyx().comps() != vec![c[3], c[0], c[1], c[0]] { fail.push("Vector4::wxyx".to_string()); }
      n += 1; if v.wxyy().comps() != vec![c[3], c[0], c[1], c[1]] { fail.push("Vector4::wxyy".to_string()); }
      n += 1; if v.wxyz().comps() != vec![c[3], c[0], c[1], c[2]] { fail.push("Vector4::wxyz".to_string()); }
      n += 1; if v.wxyw().comps() != vec![c[3], c[0], c[1], c[3]] { fail.push("Vector4::wxyw".to_string()); }
      n += 1; if v.wxzx().comps() != vec![c[3], c[0], c[2], c[0]] { fail.push("Vector4::wxzx".to_string()); }
      n += 1; if v.wxzy().comps() != vec![c[3], c[0], c[2], c[1]] { fail.push("Vector4::wxzy".to_string()); }
      n += 1; if v.wxzz().comps() != vec![c[3], c[0], c[2], c[2]] { fail.push("Vector4::wxzz".to_string()); }
      n += 1; if v.wxzw().comps() != vec![c[3], c[0], c[2], c[3]] { fail.push("Vector4::wxzw".to_string()); }
      n += 1; if v.wxwx().comps() != vec![c[3], c[0], c[3], c[0]] { fail.push("Vector4::wxwx".to_string()); }
      n += 1; if v.wxwy().comps() != vec![c[3], c[0], c[3], c[1]] { fail.push("Vector4::wxwy".to_string()); }
      n += 1; if v.wxwz().comps() != vec![c[3], c[0], c[3], c[2]] { fail.push("Vector4::wxwz".to_string()); }
      n += 1; if v.wxww().comps() != vec![c[3], c[0], c[3], c[3]] { fail.push("Vector4::wxww".to_string()); }
      n += 1; if v.wyxx().comps() != vec![c[3], c[1], c[0], c[0]] { fail.push("Vector4::wyxx".to_string()); }
      n += 1; if v.wyxy().comps() != vec![c[3], c[1], c[0], c[1]] { fail.push("Vector4::wyxy".to_string()); }
      n += 1; if v.wyxz().comps() != vec![c[3], c[1], c[0], c[2]] { fail.push("Vector4::wyxz".to_string()); }
      n += 1; if v.wyxw().comps() != vec![c[3], c[1], c[0], c[3]] { fail.push("Vector4::wyxw".to_string()); }
      n += 1; if v.wyyx().comps() != vec![c[3], c[1], c[1], c[0]] { fail.push("Vector4::wyyx".to_string()); }
      n += 1; if v.wyyy().comps() != vec![c[3], c[1], c[1], c[1]] { fail.push("Vector4::wyyy".to_string()); }
      n += 1; if v.wyyz().comps() != vec![c[3], c[1], c[1], c[2]] { fail.push("Vector4::wyyz".to_string()); }
      n += 1; if v.wyyw().comps() != vec![c[3], c[1], c[1], c[3]] { fail.push("Vector4::wyyw".to_string()); }
      n += 1; if v.wyzx().comps() != vec![c[3], c[1], c[2], c[0]] { fail.push("Vector4::wyzx".to_string()); }
      n += 1; if v.wyzy().comps() != vec![c[3], c[1], c[2], c[1]] { fail.push("Vector4::wyzy".to_string()); }
      n += 1; if v.wyzz().comps() != vec![c[3], c[1], c[2], c[2]] { fail.push("Vector4::wyzz".to_string()); }
      n += 1; if v.wyzw().comps() != vec![c[3], c[1], c[2], c[3]] { fail.push("Vector4::wyzw".to_string()); }
      n += 1; if v.wywx().comps() != vec![c[3], c[1], c[3], c[0]] { fail.push("Vector4::wywx".to_string()); }
      n += 1; if v.wywy().comps() != vec![c[3], c[1], c[3], c[1]] { fail.push("Vector4::wywy".to_string()); }
      n += 1; if v.wywz().comps() != vec![c[3], c[1], c[3], c[2]] { fail.push("Vector4::wywz".to_string()); }
      n += 1; if v.wyww().comps() != vec![c[3], c[1], c[3], c[3]] { fail.push("Vector4::wyww".to_string()); }
      n += 1; if v.wzxx().comps() != vec![c[3], c[2], c[0], c[0]] { fail.push("Vector4::wzxx".to_string()); }
      n += 1; if v.wzxy().comps() != vec![c[3], c[2], c[0], c[1]] { fail.push("Vector4::wzxy".to_string()); }
      n += 1; if v.wzxz().comps() != vec![c[3], c[2], c[0], c[2]] { fail.push("Vector4::wzxz".to_string()); }
      n += 1; if v.wzxw().comps() != vec![c[3], c[2], c[0], c[3]] { fail.push("Vector4::wzxw".to_string()); }
      n += 1; if v.wzyx().comps() != vec![c[3], c[2], c[1], c[0]] { fail.push("Vector4::wzyx".to_string()); }
      n += 1; if v.wzyy().comps() != vec![c[3], c[2], c[1], c[1]] { fail.push("Vector4::wzyy".to_string()); }
      n += 1; if v.wzyz().comps() != vec![c[3], c[2], c[1], c[2]] { fail.push("Vector4::wzyz".to_string()); }
      n += 1; if v.wzyw().comps() != vec![c[3], c[2], c[1], c[3]] { fail.push("Vector4::wzyw".to_string()); }
      n += 1; if v.wzzx().comps() != vec![c[3], c[2], c[2], c[0]] { fail.push("Vector4::wzzx".to_string()); }
      n += 1; if v.wzzy().comps() != vec![c[3], c[2], c[2], c[1]] { fail.push("Vector4::wzzy".to_string()); }
      n += 1; if v.wzzz().comps() != vec![c[3], c[2], c[2], c[2]] { fail.push("Vector4::wzzz".to_string()); }
      n += 1; if v.wzzw().comps() != vec![c[3], c[2], c[2], c[3]] { fail.push("Vector4::wzzw".to_string()); }
      n += 1; if v.wzwx().comps() != vec![c[3], c[2], c[3], c[0]] { fail.push("Vector4::wzwx".to_string()); }
      n += 1; if v.wzwy().comps() != vec![c[3], c[2], c[3], c[1]] { fail.push("Vector4::wzwy".to_string()); }
      n += 1; if v.wzwz().comps() != vec![c[3], c[2], c[3], c[2]] { fail.push("Vector4::wzwz".to_string()); }
      n += 1; if v.wzww().comps() != vec![c[3], c[2], c[3], c[3]] { fail.push("Vector4::wzww".to_string()); }
      n += 1; if v.wwxx().comps() != vec![c[3], c[3], c[0], c[0]] { fail.push("Vector4::wwxx".to_string()); }
      n += 1; if v.wwxy().comps() != vec![c[3], c[3], c[0], c[1]] { fail.push("Vector4::wwxy".to_string()); }
      n += 1; if v.wwxz().comps() != vec![c[3], c[3], c[0], c[2]] { fail.push("Vector4::wwxz".to_string()); }
      n += 1; if v.wwxw().comps() != vec![c[3], c[3], c[0], c[3]] { fail.push("Vector4::wwxw".to_string()); }
      n += 1; if v.wwyx().comps() != vec![c[3], c[3], c[1], c[0]] { fail.push("Vector4::wwyx".to_string()); }
      n += 1; if v.wwyy().comps() != vec![c[3], c[3], c[1], c[1]] { fail.push("Vector4::wwyy".to_string()); }
      n += 1; if v.wwyz().comps() != vec![c[3], c[3], c[1], c[2]] { fail.push("Vector4::wwyz".to_string()); }
      n += 1; if v.wwyw().comps() != vec![c[3], c[3], c[1], c[3]] { fail.push("Vector4::wwyw".to_string()); }
      n += 1; if v.wwzx().comps() != vec![c[3], c[3], c[2], c[0]] { fail.push("Vector4::wwzx".to_string()); }
      n += 1; if v.wwzy().comps() != vec![c[3], c[3], c[2], c[1]] { fail.push("Vector4::wwzy".to_string()); }
      n += 1; if v.wwzz().comps() != vec![c[3], c[3], c[2], c[2]] { fail.push("Vector4::wwzz".to_string()); }
      n += 1; if v.wwzw().comps() != vec![c[3], c[3], c[2], c[3]] { fail.push("Vector4::wwzw".to_string()); }
      n += 1; if v.wwwx().comps() != vec![c[3], c[3], c[3], c[0]] { fail.push("Vector4::wwwx".to_string()); }
      n += 1; if v.wwwy().comps() != vec![c[3], c[3], c[3], c[1]] { fail.push("Vector4::wwwy".to_string()); }
      n += 1; if v.wwwz().comps() != vec![c[3], c[3], c[3], c[2]] { fail.push("Vector4::wwwz".to_string()); }
      n += 1; if v.wwww().comps() != vec![c[3], c[3], c[3], c[3]] { fail.push("Vector4::wwww".to_string()); }
    }
    { let v = Point1::new(c[0]);
      n += 1; if v.x().comps() != vec![c[0]] { fail.push("Point1::x".to_string()); }
      n += 1; if v.xx().comps() != vec![c[0], c[0]] { fail.push("Point1::xx".to_string()); }
      n += 1; if v.xxx().comps() != vec![c[0], c[0], c[0]] { fail.push("Point1::xxx".to_string()); }
    }
    { let v = Point2::new(c[0], c[1]);
      n += 1; if v.x().comps() != vec![c[0]] { fail.push("Point2::x".to_string()); }
      n += 1; if v.y().comps() != vec![c[1]] { fail.push("Point2::y".to_string()); }
      n += 1; if v.xx().comps() != vec![c[0], c[0]] { fail.push("Point2::xx".to_string()); }
      n += 1; if v.xy().comps() != vec![c[0], c[1]] { fail.push("Point2::xy".to_string()); }
      n += 1; if v.yx().comps() != vec![c[1], c[0]] { fail.push("Point2::yx".to_string()); }
      n += 1; if v.yy().comps() != vec![c[1], c[1]] { fail.push("Point2::yy".to_string()); }
      n += 1; if v.xxx().comps() != vec![c[0], c[0], c[0]] { fail.push("Point2::xxx".to_string()); }
      n += 1; if v.xxy().comps() != vec![c[0], c[0], c[1]] { fail.push("Point2::xxy".to_string()); }
      n += 1; if v.xyx().comps() != vec![c[0], c[1], c[0]] { fail.push("Point2::xyx".to_string()); }
      n += 1; if v.xyy().comps() != vec![c[0], c[1], c[1]] { fail.push("Point2::xyy".to_string()); }
      n += 1; if v.yxx().comps() != vec![c[1], c[0], c[0]] { fail.push("Point2::yxx".to_string()); }
      n += 1; if v.yxy().comps() != vec![c[1], c[0], c[1]] { fail.push("Point2::yxy".to_string()); }
      n += 1; if v.yyx().comps() != vec![c[1], c[1], c[0]] { fail.push("Point2::yyx".to_string()); }
      n += 1; if v.yyy().comps() != vec![c[1], c[1], c[1]] { fail.push("Point2::yyy".to_string()); }
    }
    { let v = Point3::new(c[0], c[1], c[2]);
      n += 1; if v.x().comps() != vec![c[0]] { fail.push("Point3::x".to_string()); }
      n += 1; if v.y().comps() != vec![c[1]] { fail.push("Point3::y".to_string()); }
      n += 1; if v.z().comps() != vec![c[2]] { fail.push("Point3::z".to_string()); }
      n += 1; if v.xx().comps() != vec![c[0], c[0]] { fail.push("Point3::xx".to_string()); }
      n += 1; if v.xy().comps() != vec![c[0], c[1]] { fail.push("Point3::xy".to_string()); }
      n += 1; if v.xz().comps() != vec![c[0], c[2]] { fail.push("Point3::xz".to_string()); }
      n += 1; if v.yx().comps() != vec![c[1], c[0]] { fail.push("Point3::yx".to_string()); }
      n += 1; if v.yy().comps() != vec![c[1], c[1]] { fail.push("Point3::yy".to_string()); }
      n += 1; if v.yz().comps() != vec![c[1], c[2]] { fail.push("Point3::yz".to_string()); }
      n += 1; if v.zx().comps() != vec![c[2], c[0]] { fail.push("Point3::zx".to_string()); }
      n += 1; if v.zy().comps() != vec![c[2], c[1]] { fail.push("Point3::zy".to_string()); }
      n += 1; if v.zz().comps() != vec![c[2], c[2]] { fail.push("Point3::zz".to_string()); }
      n += 1; if v.xxx().comps() != vec![c[0], c[0], c[0]] { fail.push("Point3::xxx".to_string()); }
      n += 1; if v.xxy().comps() != vec![c[0], c[0], c[1]] { fail.push("Point3::xxy".to_string()); }
      n += 1; if v.xxz().comps() != vec![c[0], c[0], c[2]] { fail.push("Point3::xxz".to_string()); }
      n += 1; if v.xyx().comps() != vec![c[0], c[1], c[0]] { fail.push("Point3::xyx".to_string()); }
      n += 1; if v.xyy().comps() != vec![c[0], c[1], c[1]] { fail.push("Point3::xyy".to_string()); }
      n += 1; if v.xyz().comps() != vec![c[0], c[1], c[2]] { fail.push("Point3::xyz".to_string()); }
      n += 1; if v.xzx().comps() != vec![c[0], c[2], c[0]] { fail.push("Point3::xzx".to_string()); }
      n += 1; if v.xzy().comps() != vec![c[0], c[2], c[1]] { fail.push("Point3::xzy".to_string()); }
      n += 1; if v.xzz().comps() != vec![c[0], c[2], c[2]] { fail.push("Point3::xzz".to_string()); }
      n += 1; if v.yxx().comps() != vec![c[1], c[0], c[0]] { fail.push("Point3::yxx".to_string()); }
      n += 1; if v.yxy().comps() != vec![c[1], c[0], c[1]] { fail.push("Point3::yxy".to_string()); }
      n += 1; if v.yxz().comps() != vec![c[1], c[0], c[2]] { fail.push("Point3::yxz".to_string()); }
      n += 1; if v.yyx().comps() != vec![c[1], c[1], c[0]] { fail.push("Point3::yyx".to_string()); }
      n += 1; if v.yyy().comps() != vec![c[1], c[1], c[1]] { fail.push("Point3::yyy".to_string()); }
      n += 1; if v.yyz().comps() != vec![c[1], c[1], c[2]] { fail.push("Point3::yyz".to_string()); }
      n += 1; if v.yzx().comps() != vec![c[1], c[2], c[0]] { fail.push("Point3::yzx".to_string()); }
      n += 1; if v.yzy().comps() != vec![c[1], c[2], c[1]] { fail.push("Point3::yzy".to_string()); }
      n += 1; if v.yzz().comps() != vec![c[1], c[2], c[2]] { fail.push("Point3::yzz".to_string()); }
      n += 1; if v.zxx().comps() != vec![c[2], c[0], c[0]] { fail.push("Point3::zxx".to_string()); }
      n += 1; if v.zxy().comps() != vec![c[2], c[0], c[1]] { fail.push("Point3::zxy".to_string()); }
      n += 1; if v.zxz().comps() != vec![c[2], c[0], c[2]] { fail.push("Point3::zxz".to_string()); }
      n += 1; if v.zyx().comps() != vec![c[2], c[1], c[0]] { fail.push("Point3::zyx".to_string()); }
      n += 1; if v.zyy().comps() != vec![c[2], c[1], c[1]] { fail.push("Point3::zyy".to_string()); }
      n += 1; if v.zyz().comps() != vec![c[2], c[1], c[2]] { fail.push("Point3::zyz".to_string()); }
      n += 1; if v.zzx().comps() != vec![c[2], c[2], c[0]] { fail.push("Point3::zzx".to_string()); }
      n += 1; if v.zzy().comps() != vec![c[2], c[2], c[1]] { fail.push("Point3::zzy".to_string()); }
      n += 1; if v.zzz().comps() != vec![c[2], c[2], c[2]] { fail.push("Point3::zzz".to_string()); }
    }
    n
}
