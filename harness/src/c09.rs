//! C09 — look_at / look_to constructors (matrix.rs, rotation.rs, quaternion.rs, transform.rs).
#![allow(deprecated)]
use crate::bigrat::BigRat;
use crate::c11::{addv, cat, scale};
use crate::core::*;
use crate::xq::Xq;
use cgmath::*;

fn chk(ok: bool, what: String) -> Result<(), String> {
    if ok { Ok(()) } else { Err(what) }
}
fn zero() -> Xq { Xq::q(0, 1) }
fn one() -> Xq { Xq::q(1, 1) }

/// rows of the rotation matrix of a rational unit quaternion (w, x, y, z): a right-handed orthonormal rational frame
fn rows(ctx: &mut Ctx) -> [Vec<BigRat>; 3] {
    let qv = ctx.unit4(); let (w, x, y, z) = (&qv[0], &qv[1], &qv[2], &qv[3]);
    let two = BigRat::int(2); let o = BigRat::one();
    // columns of M(q); rows of the look_to matrix are taken to be these (any right-handed orthonormal triple will do)
    let c0 = vec![o.sub(&two.mul(&y.mul(y).add(&z.mul(z)))), two.mul(&x.mul(y).add(&w.mul(z))), two.mul(&x.mul(z).sub(&w.mul(y)))];
    let c1 = vec![two.mul(&x.mul(y).sub(&w.mul(z))), o.sub(&two.mul(&x.mul(x).add(&z.mul(z)))), two.mul(&y.mul(z).add(&w.mul(x)))];
    let c2 = vec![two.mul(&x.mul(z).add(&w.mul(y))), two.mul(&y.mul(z).sub(&w.mul(x))), o.sub(&two.mul(&x.mul(x).add(&y.mul(y))))];
    [c0, c1, c2]
}

/// (d, up) with rational |d| and rational |d x up|; `planar`: up in the plane of d and the second frame vector, which makes
/// the look_to_lh(d, up) matrix equal to the transpose of a rational-quaternion rotation matrix (exact conversion to Quaternion)
fn dir_up(ctx: &mut Ctx, planar: bool, sign: i128) -> (Vec<BigRat>, Vec<BigRat>) {
    let [r1, r2, r3] = rows(ctx);
    let g = ctx.generic(3);
    let d = scale(&r3, &g[0].abs().mul(&BigRat::int(sign)));
    let up = if planar {
        addv(&scale(&r3, &g[1]), &scale(&r2, &g[2].abs()))
    } else {
        let u = ctx.unit2();
        addv(&scale(&r3, &g[1]), &addv(&scale(&r2, &u[0].mul(&g[2])), &scale(&r1, &u[1].mul(&g[2]))))
    };
    (d, up)
}
fn dir2(ctx: &mut Ctx) -> Vec<BigRat> { let u = ctx.unit2(); let k = ctx.generic(1).pop().unwrap(); scale(&u, &k) }

pub fn cases(ctx: &mut Ctx) {
    let none = || {};
    for round in 0..6 * ctx.scale {
        let planar = round % 2 == 0;
        let (d, up) = dir_up(ctx, planar, 1);
        let du = cat(&[&d, &up]);
        let tag = if planar { "nt:planar-up" } else { "nt:general-position" };
        ctx.case("m3_look_to_lh", tag, &du, &none, &|x| Matrix3::look_to_lh(v3(x), v3(&x[3..])));
        ctx.case("m3_look_to_rh", tag, &du, &none, &|x| Matrix3::look_to_rh(v3(x), v3(&x[3..])));
        ctx.case("m3_look_at_deprecated", tag, &du, &none, &|x| Matrix3::look_at(v3(x), v3(&x[3..])));
        ctx.case("basis3_look_at", tag, &du, &none, &|x| { let b: Basis3<Xq> = Rotation::look_at(v3(x), v3(&x[3..])); b });
        let eye = ctx.generic(3);
        let edu = cat(&[&eye, &d, &up]);
        ctx.case("m4_look_to_rh", tag, &edu, &none, &|x| Matrix4::look_to_rh(p3(x), v3(&x[3..]), v3(&x[6..])));
        ctx.case("m4_look_to_lh", tag, &edu, &none, &|x| Matrix4::look_to_lh(p3(x), v3(&x[3..]), v3(&x[6..])));
        ctx.case("m4_look_at_dir_deprecated", tag, &edu, &none, &|x| Matrix4::look_at_dir(p3(x), v3(&x[3..]), v3(&x[6..])));
        let center = addv(&eye, &d);
        let ecu = cat(&[&eye, &center, &up]);
        ctx.case("m4_look_at_rh", tag, &ecu, &none, &|x| Matrix4::look_at_rh(p3(x), p3(&x[3..]), v3(&x[6..])));
        ctx.case("m4_look_at_lh", tag, &ecu, &none, &|x| Matrix4::look_at_lh(p3(x), p3(&x[3..]), v3(&x[6..])));
        ctx.case("m4_look_at_deprecated", tag, &ecu, &none, &|x| Matrix4::look_at(p3(x), p3(&x[3..]), v3(&x[6..])));
        ctx.case("m4_t_look_at", tag, &ecu, &none, &|x| { let m: Matrix4<Xq> = Transform::look_at(p3(x), p3(&x[3..]), v3(&x[6..])); m });
        ctx.case("m4_look_at_rh", "nt:via-Transform", &ecu, &none, &|x| { let m: Matrix4<Xq> = Transform::look_at_rh(p3(x), p3(&x[3..]), v3(&x[6..])); m });
        ctx.case("m4_look_at_lh", "nt:via-Transform", &ecu, &none, &|x| { let m: Matrix4<Xq> = Transform::look_at_lh(p3(x), p3(&x[3..]), v3(&x[6..])); m });
        ctx.case("m3_t3_look_at", tag, &ecu, &none, &|x| { let m: Matrix3<Xq> = Transform::<Point3<Xq>>::look_at(p3(x), p3(&x[3..]), v3(&x[6..])); m });
        ctx.case("m3_t3_look_at_rh", tag, &ecu, &none, &|x| { let m: Matrix3<Xq> = Transform::<Point3<Xq>>::look_at_rh(p3(x), p3(&x[3..]), v3(&x[6..])); m });
        ctx.case("m3_t3_look_at_lh", tag, &ecu, &none, &|x| { let m: Matrix3<Xq> = Transform::<Point3<Xq>>::look_at_lh(p3(x), p3(&x[3..]), v3(&x[6..])); m });
        ctx.case("dec_b3_look_at", tag, &ecu, &none, &|x| { let t: Decomposed<Vector3<Xq>, Basis3<Xq>> = Transform::look_at(p3(x), p3(&x[3..]), v3(&x[6..])); t });
        ctx.case("dec_b3_look_at_rh", tag, &ecu, &none, &|x| { let t: Decomposed<Vector3<Xq>, Basis3<Xq>> = Transform::look_at_rh(p3(x), p3(&x[3..]), v3(&x[6..])); t });
        ctx.case("dec_b3_look_at_lh", tag, &ecu, &none, &|x| { let t: Decomposed<Vector3<Xq>, Basis3<Xq>> = Transform::look_at_lh(p3(x), p3(&x[3..]), v3(&x[6..])); t });
        if planar {
            // conversions to Quaternion are exact for these
            ctx.case("quat_look_at", tag, &du, &none, &|x| { let q: Quaternion<Xq> = Rotation::look_at(v3(x), v3(&x[3..])); q });
            ctx.case("dec_q_look_at", tag, &ecu, &none, &|x| { let t: Decomposed<Vector3<Xq>, Quaternion<Xq>> = Transform::look_at(p3(x), p3(&x[3..]), v3(&x[6..])); t });
            ctx.case("dec_q_look_at_lh", tag, &ecu, &none, &|x| { let t: Decomposed<Vector3<Xq>, Quaternion<Xq>> = Transform::look_at_lh(p3(x), p3(&x[3..]), v3(&x[6..])); t });
            // right-handed: the quaternion is built from look_to_lh(eye - center), so take the opposite direction
            let (d2, up2) = dir_up(ctx, true, -1);
            let c2 = addv(&eye, &d2);
            let ecu2 = cat(&[&eye, &c2, &up2]);
            ctx.case("dec_q_look_at_rh", tag, &ecu2, &none, &|x| { let t: Decomposed<Vector3<Xq>, Quaternion<Xq>> = Transform::look_at_rh(p3(x), p3(&x[3..]), v3(&x[6..])); t });
        }
        // 2-D
        let d2 = dir2(ctx);
        let g = ctx.generic(6);
        let up2 = g[..2].to_vec();
        ctx.case("m2_look_at", "nt:2d", &cat(&[&d2, &up2]), &none, &|x| Matrix2::look_at(v2(x), v2(&x[2..])));
        ctx.case("basis2_look_at", "nt:2d", &cat(&[&d2, &up2]), &none, &|x| { let b: Basis2<Xq> = Rotation::look_at(v2(x), v2(&x[2..])); b });
        // up exactly along d (the tie of the comparison) and on either side
        ctx.case("m2_look_at", "nt:2d-up-along-dir", &cat(&[&d2, &scale(&d2, &g[2])]), &none, &|x| Matrix2::look_at(v2(x), v2(&x[2..])));
        for f in [0i128, 1] {
            ctx.case("m2_look_at_stable", "nt:2d", &cat(&[&d2, &[BigRat::int(f)]]), &none, &|x| Matrix2::look_at_stable(v2(x), x[2] != zero()));
        }
        let e2 = g[2..4].to_vec();
        let c2 = addv(&e2, &d2);
        let ecu = cat(&[&e2, &c2, &up2]);
        ctx.case("m3_t2_look_at", "nt:2d", &ecu, &none, &|x| { let m: Matrix3<Xq> = Transform::<Point2<Xq>>::look_at(p2(x), p2(&x[2..]), v2(&x[4..])); m });
        ctx.case("m3_t2_look_at_rh", "nt:2d", &ecu, &none, &|x| { let m: Matrix3<Xq> = Transform::<Point2<Xq>>::look_at_rh(p2(x), p2(&x[2..]), v2(&x[4..])); m });
        ctx.case("m3_t2_look_at_lh", "nt:2d", &ecu, &none, &|x| { let m: Matrix3<Xq> = Transform::<Point2<Xq>>::look_at_lh(p2(x), p2(&x[2..]), v2(&x[4..])); m });
        ctx.case("dec_b2_look_at", "nt:2d", &ecu, &none, &|x| { let t: Decomposed<Vector2<Xq>, Basis2<Xq>> = Transform::look_at(p2(x), p2(&x[2..]), v2(&x[4..])); t });
        ctx.case("dec_b2_look_at_rh", "nt:2d", &ecu, &none, &|x| { let t: Decomposed<Vector2<Xq>, Basis2<Xq>> = Transform::look_at_rh(p2(x), p2(&x[2..]), v2(&x[4..])); t });
        ctx.case("dec_b2_look_at_lh", "nt:2d", &ecu, &none, &|x| { let t: Decomposed<Vector2<Xq>, Basis2<Xq>> = Transform::look_at_lh(p2(x), p2(&x[2..]), v2(&x[4..])); t });
    }
}

fn upper(m: &Matrix4<Xq>) -> Matrix3<Xq> {
    Matrix3::from_cols(m.x.truncate(), m.y.truncate(), m.z.truncate())
}

pub fn preds(ctx: &mut Ctx) {
    let none = || {};
    for round in 0..10 * ctx.scale {
        let planar = round % 2 == 0;
        let (d, up) = dir_up(ctx, planar, 1);
        let eye = ctx.generic(3);
        let pt = ctx.generic(3);
        let inp = cat(&[&eye, &d, &up, &pt]);
        ctx.pred("3-D look_to/look_at: rigid, handedness, eye to origin, up to the half-plane, constructors agree", &inp, &none, &|x| {
            let (eye, d, up, p) = (p3(x), v3(&x[3..]), v3(&x[6..]), p3(&x[9..]));
            let len = d.magnitude();
            for (name, m4, m3, zsign) in [("rh", Matrix4::look_to_rh(eye, d, up), Matrix3::look_to_rh(d, up), -one()), ("lh", Matrix4::look_to_lh(eye, d, up), Matrix3::look_to_lh(d, up), one())] {
                chk(m3 * m3.transpose() == Matrix3::identity() && m3.determinant() == one(), format!("Matrix3::look_to_{}: not a proper rotation", name))?;
                chk(m3 * d == Vector3::new(zero(), zero(), zsign * len), format!("Matrix3::look_to_{}: d goes to {:?}", name, m3 * d))?;
                let u = m3 * up;
                chk(u.x == zero() && u.y > zero(), format!("Matrix3::look_to_{}: up goes to {:?}", name, u))?;
                chk(upper(&m4) == m3 && m4.row(3) == Vector4::new(zero(), zero(), zero(), one()), format!("Matrix4::look_to_{}: rotation part differs from Matrix3's or not affine", name))?;
                chk(m4.transform_point(eye) == Point3::origin(), format!("Matrix4::look_to_{}: eye goes to {:?}", name, m4.transform_point(eye)))?;
                chk(m4.transform_point(p).to_vec() == m3 * (p - eye), format!("Matrix4::look_to_{}: not p -> R (p - eye)", name))?;
            }
            let center = eye + d;
            chk(Matrix4::look_at_rh(eye, center, up) == Matrix4::look_to_rh(eye, d, up) && Matrix4::look_at_lh(eye, center, up) == Matrix4::look_to_lh(eye, d, up), "look_at != look_to(center - eye)".into())?;
            let b3: Basis3<Xq> = Rotation::look_at(d, up);
            let b3m: Matrix3<Xq> = b3.into();
            chk(b3m == Matrix3::look_to_lh(d, up), "Basis3::look_at is not Matrix3::look_to_lh".into())?;
            let t3r: Matrix3<Xq> = Transform::<Point3<Xq>>::look_at_rh(eye, center, up);
            let t3l: Matrix3<Xq> = Transform::<Point3<Xq>>::look_at_lh(eye, center, up);
            let t3: Matrix3<Xq> = Transform::<Point3<Xq>>::look_at(eye, center, up);
            chk(t3r == Matrix3::look_to_rh(d, up) && t3l == Matrix3::look_to_lh(d, up) && t3 == t3l, "Transform<Point3> for Matrix3: look_at_* disagree with look_to_*".into())?;
            let dr: Decomposed<Vector3<Xq>, Basis3<Xq>> = Transform::look_at_rh(eye, center, up);
            let dl: Decomposed<Vector3<Xq>, Basis3<Xq>> = Transform::look_at_lh(eye, center, up);
            let dd: Decomposed<Vector3<Xq>, Basis3<Xq>> = Transform::look_at(eye, center, up);
            chk(dr.transform_point(p) == Matrix4::look_at_rh(eye, center, up).transform_point(p) && dr.scale == one(), "Decomposed::look_at_rh differs from Matrix4::look_at_rh".into())?;
            chk(dl.transform_point(p) == Matrix4::look_at_lh(eye, center, up).transform_point(p) && dl.scale == one(), "Decomposed::look_at_lh differs from Matrix4::look_at_lh".into())?;
            chk(dd.transform_point(p) == dl.transform_point(p), "Decomposed::look_at is not the left-handed one".into())?;
            let m4t: Matrix4<Xq> = Transform::look_at(eye, center, up);
            chk(m4t == Matrix4::look_at_rh(eye, center, up), "Transform::look_at for Matrix4 is not look_at_rh".into())
        });
        if planar {
            ctx.pred("Quaternion::look_at / Decomposed<_, Quaternion> agree with the matrices", &inp, &none, &|x| {
                let (eye, d, up, p) = (p3(x), v3(&x[3..]), v3(&x[6..]), p3(&x[9..]));
                let q: Quaternion<Xq> = Rotation::look_at(d, up);
                let m: Matrix3<Xq> = q.into();
                chk(m == Matrix3::look_to_lh(d, up), "Matrix3::from(Quaternion::look_at) is not Matrix3::look_to_lh".into())?;
                let center = eye + d;
                let dl: Decomposed<Vector3<Xq>, Quaternion<Xq>> = Transform::look_at_lh(eye, center, up);
                chk(dl.transform_point(p) == Matrix4::look_at_lh(eye, center, up).transform_point(p), "Decomposed<_, Quaternion>::look_at_lh differs from Matrix4::look_at_lh".into())?;
                // right-handed towards the opposite direction is the same rotation
                let c2 = eye - d;
                let dr: Decomposed<Vector3<Xq>, Quaternion<Xq>> = Transform::look_at_rh(eye, c2, up);
                chk(dr.transform_point(p) == Matrix4::look_at_rh(eye, c2, up).transform_point(p), "Decomposed<_, Quaternion>::look_at_rh differs from Matrix4::look_at_rh".into())
            });
        }
        let d2 = dir2(ctx);
        let up2 = ctx.generic(2);
        ctx.pred("2-D look_at: orthonormal, first column d/|d|, second on the side of up", &cat(&[&d2, &up2]), &none, &|x| {
            let (d, up) = (v2(x), v2(&x[2..]));
            let m = Matrix2::look_at(d, up);
            chk(m * m.transpose() == Matrix2::identity(), "not orthonormal".into())?;
            chk(m.x * d.magnitude() == d, format!("first column {:?} is not d/|d|", m.x))?;
            chk(m.y.dot(up) >= zero(), format!("second column {:?} is on the other side of up", m.y))?;
            let b: Basis2<Xq> = Rotation::look_at(d, up);
            let bm: Matrix2<Xq> = b.into();
            chk(bm == m, "Basis2::look_at differs from Matrix2::look_at".into())
        });
    }
    // native f64, arbitrary directions, tolerance 1e-9
    for _ in 0..40 * ctx.scale {
        let r: Vec<f64> = (0..9).map(|_| ctx.rng.range(-1000, 1000) as f64 / 64.0 + 0.013).collect();
        ctx.pred_evals += 1;
        let (eye, d, up) = (Point3::new(r[0], r[1], r[2]), Vector3::new(r[3], r[4], r[5]), Vector3::new(r[6], r[7], r[8]));
        let mut bad = None;
        for (name, m4, m3, zs) in [("rh", Matrix4::look_to_rh(eye, d, up), Matrix3::look_to_rh(d, up), -1.0), ("lh", Matrix4::look_to_lh(eye, d, up), Matrix3::look_to_lh(d, up), 1.0)] {
            let e = m4.transform_point(eye).to_vec().magnitude();
            let dd = (m3 * d - Vector3::new(0.0, 0.0, zs * d.magnitude())).magnitude();
            let u = m3 * up;
            let orth = (m3 * m3.transpose() - Matrix3::identity()).x.magnitude() + (m3 * m3.transpose() - Matrix3::identity()).y.magnitude() + (m3 * m3.transpose() - Matrix3::identity()).z.magnitude();
            if e > 1e-9 || dd > 1e-9 || u.x.abs() > 1e-9 || u.y <= 0.0 || orth > 1e-9 || (m3.determinant() - 1.0).abs() > 1e-9 { bad = Some(format!("look_to_{} (native f64)", name)); }
        }
        if let Some(dt) = bad {
            ctx.pred_fails.push(PredFail { pred: "native-f64:look_to".into(), inp: r.iter().map(|x| BigRat::from_f64(*x)).collect(), detail: dt });
        }
    }
}
