//! C14 — lerp (VectorSpace default), Quaternion::nlerp, Quaternion::slerp.
use crate::bigrat::BigRat;
use crate::c11::{addv, cat, frame, q, scale};
use crate::core::*;
use crate::xq::{self, Xq};
use cgmath::*;
use num_traits::Float;

fn chk(ok: bool, what: String) -> Result<(), String> {
    if ok { Ok(()) } else { Err(what) }
}
fn zero() -> Xq { Xq::q(0, 1) }
fn one() -> Xq { Xq::q(1, 1) }

fn cs_of_t(t: &BigRat) -> (BigRat, BigRat) {
    let t2 = t.mul(t); let den = BigRat::one().add(&t2);
    (BigRat::one().sub(&t2).div(&den), t.add(t).div(&den))
}

/// unit quaternions a, b at a rational angle phi (tan(phi/2) = tp) in a rational plane of R^4, and an amount t for which
/// a(1-t) + b t has rational length (the chord point in the direction psi with tan(psi/2) = s * tp)
fn nlerp_input(ctx: &mut Ctx, tp: &BigRat, s: &BigRat, negate_b: bool) -> Vec<BigRat> {
    let (e1, e2) = frame(ctx, 4);
    let (cphi, sphi) = cs_of_t(tp);
    let (cpsi, spsi) = cs_of_t(&s.mul(tp));
    let rho = BigRat::one().div(&cpsi.add(&spsi.mul(tp)));
    let t = rho.mul(&spsi).div(&sphi);
    let a = e1.clone();
    let mut b = addv(&scale(&e1, &cphi), &scale(&e2, &sphi));
    if negate_b { b = scale(&b, &BigRat::int(-1)); }
    cat(&[&a, &b, &[t]])
}

/// unit quaternions on the oracle's lattice: a at 0, b at k*beta in a rational plane; returns (a, b)
fn lattice_quats(ctx: &mut Ctx, tn: i128, td: i128, k: i64, negate_b: bool) -> (Vec<BigRat>, Vec<BigRat>, BigRat) {
    let (e1, e2) = frame(ctx, 4);
    xq::reset();
    let base = xq::set_base_t(tn, td);
    let (s, c) = Xq::new(base.v.mul(&BigRat::int(k as i128))).sin_cos();
    let mut b = addv(&scale(&e1, &c.rat()), &scale(&e2, &s.rat()));
    if negate_b { b = scale(&b, &BigRat::int(-1)); }
    (e1, b, base.v.clone())
}

pub fn cases(ctx: &mut Ctx) {
    let none = || {};
    for _ in 0..4 * ctx.scale {
        // lerp: generic values, t generic, 0 and 1
        for t in [ctx.generic(1).pop().unwrap(), BigRat::zero(), BigRat::one(), q(-3, 2)] {
            let g = ctx.generic(8);
            ctx.case("v1_lerp", "nt:generic", &cat(&[&g[..2], &[t.clone()]]), &none, &|x| v1(x).lerp(v1(&x[1..]), x[2]));
            ctx.case("v2_lerp", "nt:generic", &cat(&[&g[..4], &[t.clone()]]), &none, &|x| v2(x).lerp(v2(&x[2..]), x[4]));
            ctx.case("v3_lerp", "nt:generic", &cat(&[&g[..6], &[t.clone()]]), &none, &|x| v3(x).lerp(v3(&x[3..]), x[6]));
            ctx.case("v4_lerp", "nt:generic", &cat(&[&g[..8], &[t.clone()]]), &none, &|x| v4(x).lerp(v4(&x[4..]), x[8]));
            ctx.case("quat_lerp", "nt:generic", &cat(&[&g[..8], &[t.clone()]]), &none, &|x| qn(x).lerp(qn(&x[4..]), x[8]));
        }
        // nlerp (and slerp beyond the threshold, which is nlerp): rational-length chord points
        for (tp, tag) in [(ctx.generic(1).pop().unwrap().div(&BigRat::int(13)), "nt:generic-angle"), (q(1, 100), "nt:close(dot>0.9995)"), (q(1, 64), "nt:just-above-threshold"), (q(9, 10), "nt:nearly-right-angle")] {
            for neg in [false, true] {
                let s = q(ctx.rng.range(1, 9) as i128, 10);
                let inp = nlerp_input(ctx, &tp.abs(), &s, neg);
                let tg = if neg { format!("{}-negated", tag) } else { tag.to_string() };
                ctx.case("quat_nlerp", &tg, &inp, &none, &|x| qn(x).nlerp(qn(&x[4..]), x[8]));
                if tag.starts_with("nt:close") || tag.starts_with("nt:just-above") {
                    ctx.case("quat_slerp", &tg, &inp, &none, &|x| qn(x).slerp(qn(&x[4..]), x[8]));
                }
                // endpoints
                for t in [BigRat::zero(), BigRat::one()] {
                    let mut e = inp.clone(); e[8] = t;
                    ctx.case("quat_nlerp", "nt:endpoint", &e, &none, &|x| qn(x).nlerp(qn(&x[4..]), x[8]));
                    if tag.starts_with("nt:close") { ctx.case("quat_slerp", "nt:endpoint-close", &e, &none, &|x| qn(x).slerp(qn(&x[4..]), x[8])); }
                }
            }
        }
        // slerp in the exact region: lattice angle k*beta, t = j/k
        for (tn, td, kmaxo, tag) in [(1i128, ctx.rng.range(5, 20) as i128, None, "nt:lattice"), (1, 63, Some(1i64), "nt:just-below-threshold"), (1, 3, Some(2), "nt:wide")] {
            xq::reset();
            let beta = xq::set_base_t(tn, td).beta;
            let kmax = kmaxo.unwrap_or(((std::f64::consts::FRAC_PI_2 / beta).floor() as i64).max(1).min(8));
            let k = ctx.rng.range(1, kmax);
            for neg in [false, true] {
                let (a, b, _) = lattice_quats(ctx, tn, td, k, neg);
                let setup = move || { xq::set_base_t(tn, td); };
                for j in 0..=k {
                    let t = q(j as i128, k as i128);
                    let tg = if j == 0 || j == k { "nt:endpoint-exact" } else { tag };
                    ctx.case("quat_slerp", tg, &cat(&[&a, &b, &[t]]), &setup, &|x| qn(x).slerp(qn(&x[4..]), x[8]));
                }
            }
        }
    }
}

pub fn preds(ctx: &mut Ctx) {
    let none = || {};
    for _ in 0..6 * ctx.scale {
        let g = ctx.generic(9);
        ctx.pred("lerp = a + (b - a) t, a at 0, b at 1", &g, &none, &|x| {
            let (a, b, t) = (v4(x), v4(&x[4..]), x[8]);
            chk(a.lerp(b, t) == a + (b - a) * t && a.lerp(b, zero()) == a && a.lerp(b, one()) == b, "Vector4::lerp".into())?;
            let (p, r) = (qn(x), qn(&x[4..]));
            chk(p.lerp(r, t) == p + (r - p) * t && p.lerp(r, zero()) == p && p.lerp(r, one()) == r, "Quaternion::lerp".into())?;
            let (a, b) = (v3(x), v3(&x[4..]));
            chk(a.lerp(b, t) == a + (b - a) * t && a.lerp(b, zero()) == a && a.lerp(b, one()) == b, "Vector3::lerp".into())?;
            let (a, b) = (v2(x), v2(&x[4..]));
            chk(a.lerp(b, t) == a + (b - a) * t && a.lerp(b, zero()) == a && a.lerp(b, one()) == b, "Vector2::lerp".into())?;
            let (a, b) = (v1(x), v1(&x[4..]));
            chk(a.lerp(b, t) == a + (b - a) * t && a.lerp(b, zero()) == a && a.lerp(b, one()) == b, "Vector1::lerp".into())
        });
        for (tp, neg) in [(ctx.generic(1).pop().unwrap().abs().div(&BigRat::int(13)), false), (q(1, 100), true), (q(9, 10), true), (q(2, 3), false)] {
            let s = q(ctx.rng.range(1, 9) as i128, 10);
            let inp = nlerp_input(ctx, &tp, &s, neg);
            ctx.pred("nlerp: unit, on the shorter arc between a and +-b, exact endpoints", &inp, &none, &|x| {
                let (a, b, t) = (qn(x), qn(&x[4..]), x[8]);
                let r = a.nlerp(b, t);
                chk(r.magnitude2() == one(), format!("|nlerp|^2 = {:?}", r.magnitude2()))?;
                let bp = if a.dot(b) < zero() { -b } else { b };
                let d = a.dot(bp);
                let den = one() - d * d;
                let (al, be) = ((r.dot(a) - d * r.dot(bp)) / den, (r.dot(bp) - d * r.dot(a)) / den);
                chk(a * al + bp * be == r, "nlerp is not in the plane of a and b".into())?;
                chk(al >= zero() && be >= zero(), format!("nlerp is not between a and +-b: coefficients {:?}, {:?}", al, be))?;
                chk(a.nlerp(b, zero()) == a && a.nlerp(b, one()) == bp, "nlerp endpoints".into())
            });
        }
        let (tn, td) = (1i128, ctx.rng.range(5, 20) as i128);
        xq::reset();
        let beta = xq::set_base_t(tn, td).beta;
        let kmax = ((std::f64::consts::FRAC_PI_2 / beta).floor() as i64).max(1).min(8);
        let k = ctx.rng.range(1, kmax);
        for neg in [false, true] {
            let (a, b, v) = lattice_quats(ctx, tn, td, k, neg);
            let setup = move || { xq::set_base_t(tn, td); };
            for j in 0..=k {
                let t = q(j as i128, k as i128);
                let arc = v.mul(&BigRat::int(j as i128));
                ctx.pred("slerp: unit, constant angular speed, on the shorter arc, exact endpoints", &cat(&[&a, &b, &[t, arc]]), &setup, &|x| {
                    let (a, b, t) = (qn(x), qn(&x[4..]), x[8]);
                    let r = a.slerp(b, t);
                    chk(r.magnitude2() == one(), format!("|slerp|^2 = {:?}", r.magnitude2()))?;
                    chk(a.dot(r) == Rad(x[9]).cos(), format!("a . slerp(t) = {:?} but cos(t theta) = {:?}", a.dot(r), Rad(x[9]).cos()))?;
                    let bp = if a.dot(b) < zero() { -b } else { b };
                    let d = a.dot(bp);
                    let den = one() - d * d;
                    let (al, be) = ((r.dot(a) - d * r.dot(bp)) / den, (r.dot(bp) - d * r.dot(a)) / den);
                    chk(a * al + bp * be == r && al >= zero() && be >= zero(), "slerp is not on the arc between a and +-b".into())?;
                    if t == zero() { chk(r == a, "slerp(0) != a".into())?; }
                    if t == one() { chk(r == bp, "slerp(1) != +-b".into())?; }
                    Ok(())
                });
            }
        }
    }
    // native f64: random unit quaternions at every separation, a multi-scale sweep around the threshold, nearly opposite pairs
    for i in 0..120 * ctx.scale {
        let r: Vec<f64> = (0..8).map(|_| ctx.rng.range(-1000, 1000) as f64 / 64.0 + 0.013).collect();
        let a = Quaternion::new(r[0], r[1], r[2], r[3]).normalize();
        let c = Quaternion::new(r[4], r[5], r[6], r[7]);
        let c = (c - a * a.dot(c)).normalize();              // unit, orthogonal to a
        let th = match i % 6 {
            0 => (ctx.rng.below(3000) as f64) / 1000.0 + 0.05,                        // anywhere in (0, pi)
            1 => 0.9995f64.acos() * (1.0 + (ctx.rng.range(-50, 50) as f64) * 1e-4),    // around the threshold
            2 => 0.9995f64.acos() * (1.0 + (ctx.rng.range(-50, 50) as f64) * 1e-9),
            3 => (ctx.rng.below(300) as f64 + 1.0) / 10000.0,                          // close together
            4 => std::f64::consts::PI - (ctx.rng.below(300) as f64 + 1.0) / 10000.0,   // nearly opposite
            _ => std::f64::consts::FRAC_PI_2 + (ctx.rng.range(-100, 100) as f64) * 1e-5, // around a right angle (dot changes sign)
        };
        let b = a * th.cos() + c * th.sin();
        let t = (ctx.rng.below(1001) as f64) / 1000.0;
        ctx.pred_evals += 1;
        let whole = a.dot(b).abs().min(1.0).acos();
        let bp = if a.dot(b) < 0.0 { -b } else { b };
        let mut bad = None;
        for (name, r, tol) in [("slerp", a.slerp(b, t), if a.dot(b).abs() <= 0.9995 { 1e-7 } else { 1e-5 }), ("nlerp", a.nlerp(b, t), f64::INFINITY)] {
            let arc = a.dot(r).min(1.0).max(-1.0).acos();
            if (r.magnitude() - 1.0).abs() > 1e-12 { bad = Some(format!("{} is not a unit quaternion", name)); }
            if (arc - t * whole).abs() > tol { bad = Some(format!("{}: arc {:e} differs from t * whole arc {:e} by more than {:e}", name, arc, t * whole, tol)); }
            // on the arc between a and bp: non-negative coordinates in the (a, bp) plane
            let d = a.dot(bp); let den = 1.0 - d * d;
            if den > 1e-6 {
                let (al, be) = ((r.dot(a) - d * r.dot(bp)) / den, (r.dot(bp) - d * r.dot(a)) / den);
                if al < -1e-9 || be < -1e-9 || (a * al + bp * be - r).magnitude() > 1e-9 { bad = Some(format!("{} leaves the shorter arc", name)); }
            }
        }
        if (a.slerp(b, 0.0) - a).magnitude() > 1e-12 || (a.slerp(b, 1.0) - bp).magnitude() > 1e-9 || (a.nlerp(b, 0.0) - a).magnitude() > 1e-12 || (a.nlerp(b, 1.0) - bp).magnitude() > 1e-12 {
            bad = Some("endpoints".into());
        }
        if let Some(dt) = bad {
            ctx.pred_fails.push(PredFail { pred: "native-f64:slerp/nlerp".into(), inp: [a.s, a.v.x, a.v.y, a.v.z, b.s, b.v.x, b.v.y, b.v.z, t].iter().map(|x| BigRat::from_f64(*x)).collect(), detail: dt });
        }
    }
}
