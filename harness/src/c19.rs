//! C19 — numeric cast of compound values (all 12 x 12 primitive scalar pairs, run natively).
use crate::bigrat::BigRat;
use crate::core::*;
use cgmath::*;
use num_traits::NumCast;

pub trait Enc: Copy {
    fn enc(self) -> BigRat;
}
fn special(code: i128) -> BigRat { BigRat::from_i(999_999_999_999_999_000 + code, 7) }
macro_rules! enc_int { ($($t:ty),*) => { $( impl Enc for $t { fn enc(self) -> BigRat { BigRat::int(self as i128) } } )* } }
enc_int!(u8, u16, u32, u64, usize, i8, i16, i32, i64, isize);
impl Enc for f64 {
    fn enc(self) -> BigRat {
        if self.is_nan() { special(1) } else if self == f64::INFINITY { special(2) } else if self == f64::NEG_INFINITY { special(3) } else { BigRat::from_f64(self) }
    }
}
impl Enc for f32 { fn enc(self) -> BigRat { (self as f64).enc() } }

/// values of a source type: typical distinct values first, then the specials (extremes, non-finite, fractional)
pub trait Vals: Sized { fn typical() -> Vec<Self>; fn specials() -> Vec<Self>; }
macro_rules! vals_uint { ($($t:ty),*) => { $( impl Vals for $t {
    fn typical() -> Vec<$t> { (1..=16).map(|k| (k * 3 + 1) as $t).collect() }
    fn specials() -> Vec<$t> { vec![<$t>::MAX, 0, 200 as $t, <$t>::MAX / 2 + 1] } } )* } }
macro_rules! vals_int { ($($t:ty),*) => { $( impl Vals for $t {
    fn typical() -> Vec<$t> { (1..=16).map(|k| ((k * 3 + 1) * if k % 2 == 0 { 1 } else { -1 }) as $t).collect() }
    fn specials() -> Vec<$t> { vec![<$t>::MAX, <$t>::MIN, -1, 0, 100 as $t] } } )* } }
macro_rules! vals_float { ($($t:ty),*) => { $( impl Vals for $t {
    fn typical() -> Vec<$t> { (1..=16).map(|k| (k as $t) * 1.25 * if k % 2 == 0 { 1.0 } else { -1.0 }).collect() }
    fn specials() -> Vec<$t> { vec![<$t>::NAN, <$t>::INFINITY, <$t>::NEG_INFINITY, <$t>::MAX, <$t>::MIN, 1.0e30, -1.5, 0.75, 255.5, 256.0, 65536.0, -129.0, 4294967296.0, 9.3e18, 1.9e19, 0.0] } } )* } }
vals_uint!(u8, u16, u32, u64, usize);
vals_int!(i8, i16, i32, i64, isize);
vals_float!(f32, f64);

fn record<S: Enc + NumCast + Copy, T: Enc + NumCast + Copy>(ctx: &mut Ctx, f: &str, tag: &str, src: &[S], out: Option<Vec<T>>) {
    // inputs: source values, success flags and results of the SCALAR cast (the oracle), position by position
    let mut inp: Vec<BigRat> = src.iter().map(|s| s.enc()).collect();
    let scal: Vec<Option<T>> = src.iter().map(|s| <T as NumCast>::from(*s)).collect();
    inp.extend(scal.iter().map(|o| BigRat::int(if o.is_some() { 1 } else { 0 })));
    inp.extend(scal.iter().map(|o| match o { Some(t) => t.enc(), None => BigRat::zero() }));
    let out = match out { Some(v) => Out::Q(v.iter().map(|t| t.enc()).collect()), None => Out::None };
    ctx.cases.push(Case { f: f.to_string(), inp, orc: Default::default(), out, tag: tag.to_string() });
}

/// predicate evaluated natively: compound cast = all-or-nothing of the scalar casts, position-faithful
fn check<S: Enc + NumCast + Copy, T: Enc + NumCast + Copy>(ctx: &mut Ctx, name: &str, src: &[S], out: &Option<Vec<T>>) {
    let scal: Vec<Option<T>> = src.iter().map(|s| <T as NumCast>::from(*s)).collect();
    let want: Option<Vec<BigRat>> = if scal.iter().all(|o| o.is_some()) { Some(scal.iter().map(|o| o.unwrap().enc()).collect()) } else { None };
    let got: Option<Vec<BigRat>> = out.as_ref().map(|v| v.iter().map(|t| t.enc()).collect());
    ctx.pred_evals += 1;
    if want != got {
        ctx.pred_fails.push(PredFail { pred: name.to_string(), inp: src.iter().map(|s| s.enc()).collect(),
            detail: format!("cast returned {:?}, scalar casts give {:?}", got, want) });
    }
}

fn run_pair<S: Enc + NumCast + Copy + Vals, T: Enc + NumCast + Copy>(ctx: &mut Ctx, sn: &str, tn: &str) {
    let typ = S::typical();
    let sp = S::specials();
    let tag = format!("nt:{}->{}", sn, tn);
    let pname = |t: &str| format!("cast:{}:{}->{}", t, sn, tn);
    macro_rules! go {
        ($n:expr, $f:expr, $build:expr, $flat:expr, $specials:expr) => {{
            let n: usize = $n;
            let mut sets: Vec<Vec<S>> = vec![typ[..n].to_vec()];
            for (si, s) in sp.iter().enumerate() {
                if si >= $specials { break; }
                for pos in 0..n { let mut v = typ[..n].to_vec(); v[pos] = *s; sets.push(v); }
            }
            for v in sets {
                let out: Option<Vec<T>> = $build(&v).cast::<T>().map($flat);
                record::<S, T>(ctx, $f, &tag, &v, out.clone());
                check::<S, T>(ctx, &pname($f), &v, &out);
            }
        }};
    }
    go!(1, "v1_cast", |x: &[S]| Vector1::new(x[0]), |r: Vector1<T>| vec![r.x], 2);
    go!(2, "v2_cast", |x: &[S]| Vector2::new(x[0], x[1]), |r: Vector2<T>| vec![r.x, r.y], 2);
    go!(3, "v3_cast", |x: &[S]| Vector3::new(x[0], x[1], x[2]), |r: Vector3<T>| vec![r.x, r.y, r.z], 2);
    go!(4, "v4_cast", |x: &[S]| Vector4::new(x[0], x[1], x[2], x[3]), |r: Vector4<T>| vec![r.x, r.y, r.z, r.w], 16);
    go!(1, "p1_cast", |x: &[S]| Point1::new(x[0]), |r: Point1<T>| vec![r.x], 2);
    go!(2, "p2_cast", |x: &[S]| Point2::new(x[0], x[1]), |r: Point2<T>| vec![r.x, r.y], 2);
    go!(3, "p3_cast", |x: &[S]| Point3::new(x[0], x[1], x[2]), |r: Point3<T>| vec![r.x, r.y, r.z], 3);
    go!(4, "m2_cast", |x: &[S]| Matrix2::new(x[0], x[1], x[2], x[3]), |r: Matrix2<T>| vec![r.x.x, r.x.y, r.y.x, r.y.y], 2);
    go!(9, "m3_cast", |x: &[S]| Matrix3::new(x[0], x[1], x[2], x[3], x[4], x[5], x[6], x[7], x[8]),
        |r: Matrix3<T>| vec![r.x.x, r.x.y, r.x.z, r.y.x, r.y.y, r.y.z, r.z.x, r.z.y, r.z.z], 1);
    go!(16, "m4_cast", |x: &[S]| Matrix4::new(x[0], x[1], x[2], x[3], x[4], x[5], x[6], x[7], x[8], x[9], x[10], x[11], x[12], x[13], x[14], x[15]),
        |r: Matrix4<T>| vec![r.x.x, r.x.y, r.x.z, r.x.w, r.y.x, r.y.y, r.y.z, r.y.w, r.z.x, r.z.y, r.z.z, r.z.w, r.w.x, r.w.y, r.w.z, r.w.w], 1);
}

fn run_quat<S: Enc + NumCast + Copy + Vals, T: Enc + BaseFloat>(ctx: &mut Ctx, sn: &str, tn: &str) {
    let typ = S::typical();
    let tag = format!("nt:{}->{}", sn, tn);
    let mut sets: Vec<Vec<S>> = vec![typ[..4].to_vec()];
    for s in S::specials() { for pos in 0..4 { let mut v = typ[..4].to_vec(); v[pos] = s; sets.push(v); } }
    for v in sets {
        // flattened as s, x, y, z
        let out: Option<Vec<T>> = Quaternion::new(v[0], v[1], v[2], v[3]).cast::<T>().map(|r| vec![r.s, r.v.x, r.v.y, r.v.z]);
        record::<S, T>(ctx, "quat_cast", &tag, &v, out.clone());
        check::<S, T>(ctx, &format!("cast:quat_cast:{}->{}", sn, tn), &v, &out);
    }
}

macro_rules! all_targets {
    ($ctx:ident, $S:ty, $sn:expr) => {{
        run_pair::<$S, u8>($ctx, $sn, "u8"); run_pair::<$S, u16>($ctx, $sn, "u16"); run_pair::<$S, u32>($ctx, $sn, "u32");
        run_pair::<$S, u64>($ctx, $sn, "u64"); run_pair::<$S, usize>($ctx, $sn, "usize");
        run_pair::<$S, i8>($ctx, $sn, "i8"); run_pair::<$S, i16>($ctx, $sn, "i16"); run_pair::<$S, i32>($ctx, $sn, "i32");
        run_pair::<$S, i64>($ctx, $sn, "i64"); run_pair::<$S, isize>($ctx, $sn, "isize");
        run_pair::<$S, f32>($ctx, $sn, "f32"); run_pair::<$S, f64>($ctx, $sn, "f64");
        run_quat::<$S, f32>($ctx, $sn, "f32"); run_quat::<$S, f64>($ctx, $sn, "f64");
    }};
}

pub fn cases(ctx: &mut Ctx) {
    all_targets!(ctx, u8, "u8"); all_targets!(ctx, u16, "u16"); all_targets!(ctx, u32, "u32"); all_targets!(ctx, u64, "u64");
    all_targets!(ctx, usize, "usize"); all_targets!(ctx, i8, "i8"); all_targets!(ctx, i16, "i16"); all_targets!(ctx, i32, "i32");
    all_targets!(ctx, i64, "i64"); all_targets!(ctx, isize, "isize"); all_targets!(ctx, f32, "f32"); all_targets!(ctx, f64, "f64");
}
pub fn preds(_ctx: &mut Ctx) {}
