//! C02 — inverse, determinant, transpose, swaps (src/matrix.rs).
use crate::bigrat::BigRat;
use crate::core::*;
use crate::xq::Xq;
use cgmath::*;

fn ix(x: Xq) -> usize {
    match x.rat().n.to_i128() {
        Some(v) if v >= 0 && v < 1_000_000 => v as usize,
        _ => usize::MAX,
    }
}
fn chk(ok: bool, what: &str) -> Result<(), String> {
    if ok { Ok(()) } else { Err(what.to_string()) }
}
/// n x n matrix whose last column is a rational combination of the others (exactly singular)
fn singular(ctx: &mut Ctx, n: usize) -> Vec<BigRat> {
    let g = ctx.generic(n * (n - 1) + n - 1);
    let mut m: Vec<BigRat> = g[..n * (n - 1)].to_vec();
    for r in 0..n {
        let mut s = BigRat::zero();
        for c in 0..n - 1 {
            s = s.add(&g[n * (n - 1) + c].mul(&m[c * n + r]));
        }
        m.push(s);
    }
    // move the dependent column to a random position
    let k = ctx.rng.below(n as u64) as usize;
    for r in 0..n {
        m.swap(k * n + r, (n - 1) * n + r);
    }
    m
}
/// singular matrix + tiny perturbation of one entry: determinant tiny but non-zero
fn nearly_singular(ctx: &mut Ctx, n: usize) -> Vec<BigRat> {
    let mut m = singular(ctx, n);
    let k = ctx.rng.below((n * n) as u64) as usize;
    m[k] = m[k].add(&BigRat::from_i(1, 1_000_000_000_000));
    m
}

/// determinant non-zero but far below the approx tolerance (2^-52): `invert` must still return the exact inverse
/// (the property says None *exactly* when the determinant is zero, not when it is ulps-close to zero)
fn negligible_det(ctx: &mut Ctx, n: usize) -> Vec<BigRat> {
    let mut m = singular(ctx, n);
    let k = ctx.rng.below((n * n) as u64) as usize;
    m[k] = m[k].add(&BigRat::new(crate::bigrat::BigInt::one(), crate::bigrat::BigInt::one().shl(70)));
    m
}

pub fn cases(ctx: &mut Ctx) {
    for _ in 0..40 * ctx.scale {
        let g = ctx.generic(16);
        ctx.case("m2_determinant", "generic", &g[..4], &|| (), &|x| m2(x).determinant());
        ctx.case("m3_determinant", "generic", &g[..9], &|| (), &|x| m3(x).determinant());
        ctx.case("m4_determinant", "generic", &g[..16], &|| (), &|x| m4(x).determinant());
        ctx.case("m2_invert", "generic", &g[..4], &|| (), &|x| m2(x).invert());
        ctx.case("m3_invert", "generic", &g[..9], &|| (), &|x| m3(x).invert());
        ctx.case("m4_invert", "generic", &g[..16], &|| (), &|x| m4(x).invert());
        ctx.case("m3_inverse_transform", "generic", &g[..9], &|| (), &|x| Transform::<Point3<Xq>>::inverse_transform(&m3(x)));
        ctx.case("m4_inverse_transform", "generic", &g[..16], &|| (), &|x| m4(x).inverse_transform());
        ctx.case("m2_transpose_self", "generic", &g[..4], &|| (), &|x| { let mut m = m2(x); m.transpose_self(); m });
        ctx.case("m3_transpose_self", "generic", &g[..9], &|| (), &|x| { let mut m = m3(x); m.transpose_self(); m });
        ctx.case("m4_transpose_self", "generic", &g[..16], &|| (), &|x| { let mut m = m4(x); m.transpose_self(); m });
    }
    for _ in 0..12 * ctx.scale {
        for n in 2..=4usize {
            for (tag, m) in [("nt:singular", singular(ctx, n)), ("nt:nearly-singular", nearly_singular(ctx, n)), ("nt:negligible-det", negligible_det(ctx, n))] {
                match n {
                    2 => { ctx.case("m2_invert", tag, &m, &|| (), &|x| m2(x).invert()); ctx.case("m2_determinant", tag, &m, &|| (), &|x| m2(x).determinant()); }
                    3 => { ctx.case("m3_invert", tag, &m, &|| (), &|x| m3(x).invert()); ctx.case("m3_determinant", tag, &m, &|| (), &|x| m3(x).determinant());
                           ctx.case("m3_inverse_transform", tag, &m, &|| (), &|x| Transform::<Point3<Xq>>::inverse_transform(&m3(x))); }
                    _ => { ctx.case("m4_invert", tag, &m, &|| (), &|x| m4(x).invert()); ctx.case("m4_determinant", tag, &m, &|| (), &|x| m4(x).determinant());
                           ctx.case("m4_inverse_transform", tag, &m, &|| (), &|x| m4(x).inverse_transform()); }
                }
            }
        }
    }
    // swaps and replace_col on every index pair, in and out of range (exhaustive over 0..=n+1 and usize::MAX)
    let g = ctx.generic(20);
    let big: i128 = 18446744073709551615;
    for n in 2..=4usize {
        let mut idxs: Vec<i128> = (0..=(n as i128)).collect();
        idxs.push(big);
        for &a in &idxs {
            for &b in &idxs {
                let mut inp: Vec<BigRat> = g[..n * n].to_vec();
                inp.push(BigRat::int(a));
                inp.push(BigRat::int(b));
                let k = n * n;
                match n {
                    2 => { ctx.case("m2_swap_rows", "index", &inp, &|| (), &|x| { let mut m = m2(x); m.swap_rows(ix(x[k]), ix(x[k + 1])); m });
                           ctx.case("m2_swap_columns", "index", &inp, &|| (), &|x| { let mut m = m2(x); m.swap_columns(ix(x[k]), ix(x[k + 1])); m }); }
                    3 => { ctx.case("m3_swap_rows", "index", &inp, &|| (), &|x| { let mut m = m3(x); m.swap_rows(ix(x[k]), ix(x[k + 1])); m });
                           ctx.case("m3_swap_columns", "index", &inp, &|| (), &|x| { let mut m = m3(x); m.swap_columns(ix(x[k]), ix(x[k + 1])); m }); }
                    _ => { ctx.case("m4_swap_rows", "index", &inp, &|| (), &|x| { let mut m = m4(x); m.swap_rows(ix(x[k]), ix(x[k + 1])); m });
                           ctx.case("m4_swap_columns", "index", &inp, &|| (), &|x| { let mut m = m4(x); m.swap_columns(ix(x[k]), ix(x[k + 1])); m }); }
                }
            }
        }
        // swap_elements: all in-range quadruples for n = 2,3; for n = 4 all in-range; plus out-of-range in each slot
        let inr: Vec<i128> = (0..(n as i128)).collect();
        let mut quads: Vec<[i128; 4]> = vec![];
        for &a in &inr { for &b in &inr { for &c in &inr { for &d in &inr { quads.push([a, b, c, d]); } } } }
        for slot in 0..4 { for bad in [n as i128, big] { let mut q = [0i128, 1, 1, 0]; q[slot] = bad; quads.push(q); } }
        for q in quads {
            let mut inp: Vec<BigRat> = g[..n * n].to_vec();
            for v in q { inp.push(BigRat::int(v)); }
            let k = n * n;
            match n {
                2 => ctx.case("m2_swap_elements", "index", &inp, &|| (), &|x| { let mut m = m2(x); m.swap_elements((ix(x[k]), ix(x[k + 1])), (ix(x[k + 2]), ix(x[k + 3]))); m }),
                3 => ctx.case("m3_swap_elements", "index", &inp, &|| (), &|x| { let mut m = m3(x); m.swap_elements((ix(x[k]), ix(x[k + 1])), (ix(x[k + 2]), ix(x[k + 3]))); m }),
                _ => ctx.case("m4_swap_elements", "index", &inp, &|| (), &|x| { let mut m = m4(x); m.swap_elements((ix(x[k]), ix(x[k + 1])), (ix(x[k + 2]), ix(x[k + 3]))); m }),
            }
        }
        for &c in &idxs {
            let mut inp: Vec<BigRat> = g[..n * n].to_vec();
            inp.push(BigRat::int(c));
            inp.extend_from_slice(&g[16..16 + n]);
            let k = n * n;
            match n {
                2 => ctx.case("m2_replace_col", "index", &inp, &|| (), &|x| { let mut m = m2(x); let old = m.replace_col(ix(x[k]), v2(&x[k + 1..])); (m, old) }),
                3 => ctx.case("m3_replace_col", "index", &inp, &|| (), &|x| { let mut m = m3(x); let old = m.replace_col(ix(x[k]), v3(&x[k + 1..])); (m, old) }),
                _ => ctx.case("m4_replace_col", "index", &inp, &|| (), &|x| { let mut m = m4(x); let old = m.replace_col(ix(x[k]), v4(&x[k + 1..])); (m, old) }),
            }
        }
    }
}

fn leibniz(n: usize, e: &dyn Fn(usize, usize) -> Xq) -> Xq {
    // sum over permutations (Heap-free: recursive expansion)
    fn go(n: usize, row: usize, used: &mut Vec<bool>, perm: &mut Vec<usize>, e: &dyn Fn(usize, usize) -> Xq, acc: &mut Xq) {
        if row == n {
            let mut inv = 0;
            for i in 0..n { for j in i + 1..n { if perm[i] > perm[j] { inv += 1; } } }
            let mut p = Xq::q(if inv % 2 == 0 { 1 } else { -1 }, 1);
            for i in 0..n { p = p * e(perm[i], i); }
            *acc = *acc + p;
            return;
        }
        for c in 0..n {
            if !used[c] { used[c] = true; perm.push(c); go(n, row + 1, used, perm, e, acc); perm.pop(); used[c] = false; }
        }
    }
    let mut acc = Xq::q(0, 1);
    go(n, 0, &mut vec![false; n], &mut vec![], e, &mut acc);
    acc
}

pub fn preds(ctx: &mut Ctx) {
    for round in 0..36 * ctx.scale {
        let g = ctx.generic(32);
        let (a4, a3, a2): (Vec<BigRat>, Vec<BigRat>, Vec<BigRat>) = match round % 3 {
            0 => (g[..16].to_vec(), g[..9].to_vec(), g[..4].to_vec()),
            1 => (singular(ctx, 4), singular(ctx, 3), singular(ctx, 2)),
            _ => (nearly_singular(ctx, 4), nearly_singular(ctx, 3), nearly_singular(ctx, 2)),
        };
        let mut i4 = a4.clone(); i4.extend_from_slice(&g[16..32]);
        ctx.pred("m4:inverse", &i4, &|| (), &|x| {
            let (m, b) = (m4(x), m4(&x[16..]));
            let det = m.determinant();
            chk(det == leibniz(4, &|c, r| m[c][r]), "determinant = Leibniz expansion")?;
            chk((m * b).determinant() == det * b.determinant(), "det(A*B) = det A * det B")?;
            chk(m.transpose().determinant() == det, "det invariant under transpose")?;
            chk(m.transpose().transpose() == m, "transpose involution")?;
            chk((m * b).transpose() == b.transpose() * m.transpose(), "(A*B)^T = B^T A^T")?;
            let mut t = m; t.transpose_self();
            chk(t == m.transpose(), "transpose_self = transpose")?;
            chk(m.inverse_transform() == m.invert(), "inverse_transform = invert")?;
            match m.invert() {
                None => chk(det == Xq::q(0, 1), "invert = None only when det = 0"),
                Some(n) => { chk(det != Xq::q(0, 1), "invert = Some only when det != 0")?;
                             chk(m * n == Matrix4::identity() && n * m == Matrix4::identity(), "M*N = N*M = identity") }
            }
        });
        let mut i3 = a3.clone(); i3.extend_from_slice(&g[16..25]);
        ctx.pred("m3:inverse", &i3, &|| (), &|x| {
            let (m, b) = (m3(x), m3(&x[9..]));
            let det = m.determinant();
            chk(det == leibniz(3, &|c, r| m[c][r]), "determinant = Leibniz expansion")?;
            chk((m * b).determinant() == det * b.determinant(), "det(A*B) = det A * det B")?;
            chk(m.transpose().determinant() == det, "det invariant under transpose")?;
            chk(m.transpose().transpose() == m, "transpose involution")?;
            chk((m * b).transpose() == b.transpose() * m.transpose(), "(A*B)^T = B^T A^T")?;
            let mut t = m; t.transpose_self();
            chk(t == m.transpose(), "transpose_self = transpose")?;
            chk(Transform::<Point3<Xq>>::inverse_transform(&m) == m.invert(), "inverse_transform = invert")?;
            chk(Transform::<Point2<Xq>>::inverse_transform(&m) == m.invert(), "inverse_transform (2-D) = invert")?;
            match m.invert() {
                None => chk(det == Xq::q(0, 1), "invert = None only when det = 0"),
                Some(n) => { chk(det != Xq::q(0, 1), "invert = Some only when det != 0")?;
                             chk(m * n == Matrix3::identity() && n * m == Matrix3::identity(), "M*N = N*M = identity") }
            }
        });
        let mut i2 = a2.clone(); i2.extend_from_slice(&g[16..20]);
        ctx.pred("m2:inverse", &i2, &|| (), &|x| {
            let (m, b) = (m2(x), m2(&x[4..]));
            let det = m.determinant();
            chk(det == leibniz(2, &|c, r| m[c][r]), "determinant = Leibniz expansion")?;
            chk((m * b).determinant() == det * b.determinant(), "det(A*B) = det A * det B")?;
            chk(m.transpose().determinant() == det, "det invariant under transpose")?;
            chk((m * b).transpose() == b.transpose() * m.transpose(), "(A*B)^T = B^T A^T")?;
            let mut t = m; t.transpose_self();
            chk(t == m.transpose(), "transpose_self = transpose")?;
            match m.invert() {
                None => chk(det == Xq::q(0, 1), "invert = None only when det = 0"),
                Some(n) => { chk(det != Xq::q(0, 1), "invert = Some only when det != 0")?;
                             chk(m * n == Matrix2::identity() && n * m == Matrix2::identity(), "M*N = N*M = identity") }
            }
        });
    }
    // swaps: exchange exactly the named rows / columns / elements
    let g = ctx.generic(20);
    for a in 0..4usize { for b in 0..4usize {
        let mut inp = g[..16].to_vec(); inp.push(BigRat::int(a as i128)); inp.push(BigRat::int(b as i128));
        ctx.pred("m4:swaps", &inp, &|| (), &|x| {
            let m = m4(x); let (a, b) = (ix(x[16]), ix(x[17]));
            let tr = |i: usize| if i == a { b } else if i == b { a } else { i };
            let mut r = m; r.swap_rows(a, b);
            let mut c = m; c.swap_columns(a, b);
            for cc in 0..4 { for rr in 0..4 {
                chk(r[cc][rr] == m[cc][tr(rr)], "swap_rows")?;
                chk(c[cc][rr] == m[tr(cc)][rr], "swap_columns")?;
            } }
            let mut e = m; e.swap_elements((a, b), (b, a));
            for cc in 0..4 { for rr in 0..4 {
                let want = if (cc, rr) == (a, b) { m[b][a] } else if (cc, rr) == (b, a) { m[a][b] } else { m[cc][rr] };
                chk(e[cc][rr] == want, "swap_elements")?;
            } }
            let mut p = m; let src = v4(&x[0..4]) * x[5];
            let old = p.replace_col(a, src);
            chk(old == m[a] && p[a] == src, "replace_col")?;
            for cc in 0..4 { if cc != a { chk(p[cc] == m[cc], "replace_col leaves other columns")?; } }
            Ok(())
        });
        if a < 3 && b < 3 {
            let mut inp = g[..9].to_vec(); inp.push(BigRat::int(a as i128)); inp.push(BigRat::int(b as i128));
            ctx.pred("m3:swaps", &inp, &|| (), &|x| {
                let m = m3(x); let (a, b) = (ix(x[9]), ix(x[10]));
                let tr = |i: usize| if i == a { b } else if i == b { a } else { i };
                let mut r = m; r.swap_rows(a, b);
                let mut c = m; c.swap_columns(a, b);
                for cc in 0..3 { for rr in 0..3 {
                    chk(r[cc][rr] == m[cc][tr(rr)], "swap_rows")?;
                    chk(c[cc][rr] == m[tr(cc)][rr], "swap_columns")?;
                } }
                let mut p = m; let src = v3(&x[0..3]) * x[5];
                let old = p.replace_col(a, src);
                chk(old == m[a] && p[a] == src, "replace_col")
            });
        }
        if a < 2 && b < 2 {
            let mut inp = g[..4].to_vec(); inp.push(BigRat::int(a as i128)); inp.push(BigRat::int(b as i128));
            ctx.pred("m2:swaps", &inp, &|| (), &|x| {
                let m = m2(x); let (a, b) = (ix(x[4]), ix(x[5]));
                let tr = |i: usize| if i == a { b } else if i == b { a } else { i };
                let mut r = m; r.swap_rows(a, b);
                let mut c = m; c.swap_columns(a, b);
                for cc in 0..2 { for rr in 0..2 {
                    chk(r[cc][rr] == m[cc][tr(rr)], "swap_rows")?;
                    chk(c[cc][rr] == m[tr(cc)][rr], "swap_columns")?;
                } }
                Ok(())
            });
        }
    } }
}
