//! C06 — angle and axis-angle constructors (matrix.rs, rotation.rs, quaternion.rs).
use crate::bigrat::BigRat;
use crate::core::*;
use crate::xq::{self, Xq};
use cgmath::*;

fn chk(ok: bool, what: &str) -> Result<(), String> {
    if ok { Ok(()) } else { Err(what.to_string()) }
}
fn one() -> Xq { Xq::q(1, 1) }

/// a rational angle: (theta in radians, theta in degrees, base parameters); theta = 2k*v so half angles are exact
fn angle(ctx: &mut Ctx) -> (BigRat, BigRat, (i128, i128)) {
    let (tn, td) = ctx.base_t();
    xq::reset();
    let base = xq::set_base_t(tn, td);
    let mut k = ctx.rng.range(-7, 7);
    if k == 0 { k = 3; }
    let th = base.v.mul(&BigRat::int(2 * k as i128));
    let c = BigRat::from_f64(std::f64::consts::PI / 180.0);
    let deg = th.div(&c);
    (th, deg, (tn, td))
}

macro_rules! unit_cases {
    ($ctx:ident, $A:ident, $sfx:expr, $t:expr, $axis:expr, $setup:expr) => {{
        let nm = |s: &str| format!("{}{}", s, $sfx);
        let t1 = vec![$t.clone()];
        let at: Vec<BigRat> = $axis.iter().cloned().chain(std::iter::once($t.clone())).collect();
        $ctx.case(&nm("m2_from_angle"), "nt:angle", &t1, $setup, &|x| Matrix2::from_angle($A(x[0])));
        $ctx.case(&nm("basis2_from_angle"), "nt:angle", &t1, $setup, &|x| { let b: Basis2<Xq> = Rotation2::from_angle($A(x[0])); b });
        $ctx.case(&nm("m3_from_angle_x"), "nt:angle", &t1, $setup, &|x| Matrix3::from_angle_x($A(x[0])));
        $ctx.case(&nm("m3_from_angle_y"), "nt:angle", &t1, $setup, &|x| Matrix3::from_angle_y($A(x[0])));
        $ctx.case(&nm("m3_from_angle_z"), "nt:angle", &t1, $setup, &|x| Matrix3::from_angle_z($A(x[0])));
        $ctx.case(&nm("m3_from_axis_angle"), "nt:axis-angle", &at, $setup, &|x| Matrix3::from_axis_angle(v3(x), $A(x[3])));
        $ctx.case(&nm("m4_from_angle_x"), "nt:angle", &t1, $setup, &|x| Matrix4::from_angle_x($A(x[0])));
        $ctx.case(&nm("m4_from_angle_y"), "nt:angle", &t1, $setup, &|x| Matrix4::from_angle_y($A(x[0])));
        $ctx.case(&nm("m4_from_angle_z"), "nt:angle", &t1, $setup, &|x| Matrix4::from_angle_z($A(x[0])));
        $ctx.case(&nm("m4_from_axis_angle"), "nt:axis-angle", &at, $setup, &|x| Matrix4::from_axis_angle(v3(x), $A(x[3])));
        $ctx.case(&nm("basis3_from_angle_x"), "nt:angle", &t1, $setup, &|x| { let b: Basis3<Xq> = Rotation3::from_angle_x($A(x[0])); b });
        $ctx.case(&nm("basis3_from_angle_y"), "nt:angle", &t1, $setup, &|x| { let b: Basis3<Xq> = Rotation3::from_angle_y($A(x[0])); b });
        $ctx.case(&nm("basis3_from_angle_z"), "nt:angle", &t1, $setup, &|x| { let b: Basis3<Xq> = Rotation3::from_angle_z($A(x[0])); b });
        $ctx.case(&nm("basis3_from_axis_angle"), "nt:axis-angle", &at, $setup, &|x| { let b: Basis3<Xq> = Rotation3::from_axis_angle(v3(x), $A(x[3])); b });
        $ctx.case(&nm("quat_from_angle_x"), "nt:angle", &t1, $setup, &|x| { let q: Quaternion<Xq> = Rotation3::from_angle_x($A(x[0])); q });
        $ctx.case(&nm("quat_from_angle_y"), "nt:angle", &t1, $setup, &|x| { let q: Quaternion<Xq> = Rotation3::from_angle_y($A(x[0])); q });
        $ctx.case(&nm("quat_from_angle_z"), "nt:angle", &t1, $setup, &|x| { let q: Quaternion<Xq> = Rotation3::from_angle_z($A(x[0])); q });
        $ctx.case(&nm("quat_from_axis_angle"), "nt:axis-angle", &at, $setup, &|x| Quaternion::from_axis_angle(v3(x), $A(x[3])));
    }};
}

pub fn cases(ctx: &mut Ctx) {
    for _ in 0..24 * ctx.scale {
        let (th, deg, (tn, td)) = angle(ctx);
        let setup = move || { xq::set_base_t(tn, td); };
        let axis = ctx.unit3();
        unit_cases!(ctx, Rad, "", th, axis, &setup);
        unit_cases!(ctx, Deg, "_deg", deg, axis, &setup);
        // a non-unit axis: the constructors do not normalise (documented precondition) -- still the same formula
        let g = ctx.generic(3);
        let at: Vec<BigRat> = g.iter().cloned().chain(std::iter::once(th.clone())).collect();
        ctx.case("m3_from_axis_angle", "generic-axis", &at, &setup, &|x| Matrix3::from_axis_angle(v3(x), Rad(x[3])));
        ctx.case("quat_from_axis_angle", "generic-axis", &at, &setup, &|x| Quaternion::from_axis_angle(v3(x), Rad(x[3])));
        // Basis2 / Basis3 operations on exact rotations
        xq::reset(); xq::set_base_t(tn, td);
        let k2 = ctx.rng.range(1, 6);
        let th2 = xq::set_base_t(tn, td).v.mul(&BigRat::int(k2 as i128));
        let fl = |m: &dyn Flat| -> Vec<BigRat> { let mut v = vec![]; m.flat(&mut v); rats(&v) };
        let b2a = fl(&Basis2::from_angle(Rad(Xq::new(th.clone()))));
        let b2b = fl(&Basis2::from_angle(Rad(Xq::new(th2.clone()))));
        let (q1, q2) = (ctx.unit4(), ctx.unit4());
        xq::reset();
        let b3a = fl(&Basis3::from_quaternion(&qn(&q1.iter().map(|r| Xq::new(r.clone())).collect::<Vec<_>>())));
        let b3b = fl(&Basis3::from_quaternion(&qn(&q2.iter().map(|r| Xq::new(r.clone())).collect::<Vec<_>>())));
        let w = ctx.generic(3);
        let cat = |parts: &[&[BigRat]]| -> Vec<BigRat> { parts.iter().flat_map(|p| p.iter().cloned()).collect() };
        ctx.case("basis2_mul", "nt:rotation", &cat(&[&b2a, &b2b]), &setup, &|x| b2(x) * b2(&x[4..]));
        ctx.case("basis2_invert", "nt:rotation", &b2a, &setup, &|x| b2(x).invert());
        ctx.case("basis2_rotate_vector", "nt:rotation", &cat(&[&b2a, &w[..2]]), &setup, &|x| b2(x).rotate_vector(v2(&x[4..6])));
        ctx.case("basis2_rotate_point", "nt:rotation", &cat(&[&b2a, &w[..2]]), &setup, &|x| b2(x).rotate_point(p2(&x[4..6])));
        ctx.case("basis3_mul", "nt:rotation", &cat(&[&b3a, &b3b]), &|| (), &|x| b3(x) * b3(&x[9..]));
        ctx.case("basis3_invert", "nt:rotation", &b3a, &|| (), &|x| b3(x).invert());
        ctx.case("basis3_rotate_vector", "nt:rotation", &cat(&[&b3a, &w]), &|| (), &|x| b3(x).rotate_vector(v3(&x[9..12])));
        ctx.case("basis3_rotate_point", "nt:rotation", &cat(&[&b3a, &w]), &|| (), &|x| b3(x).rotate_point(p3(&x[9..12])));
        ctx.case("q_invert", "nt:rotation", &q1, &|| (), &|x| qn(x).invert());
        ctx.case("q_rotate_point", "nt:rotation", &cat(&[&q1, &w]), &|| (), &|x| qn(x).rotate_point(p3(&x[4..7])));
    }
    ctx.case("basis2_one", "const", &[], &|| (), &|_| Basis2::<Xq>::one());
    ctx.case("basis3_one", "const", &[], &|| (), &|_| Basis3::<Xq>::one());
}

pub fn preds(ctx: &mut Ctx) {
    for _ in 0..40 * ctx.scale {
        let (th, deg, (tn, td)) = angle(ctx);
        let setup = move || { xq::set_base_t(tn, td); };
        let axis = ctx.unit3();
        let v = ctx.generic(3);
        let inp: Vec<BigRat> = axis.iter().chain(v.iter()).cloned().chain([th.clone(), deg.clone()]).collect();
        ctx.pred("axis-angle:rodrigues", &inp, &setup, &|x| {
            let (a, v, t, d) = (v3(x), v3(&x[3..6]), Rad(x[6]), Deg(x[7]));
            let (s, c) = Rad::sin_cos(t);
            let want = v * c + a.cross(v) * s + a * (a.dot(v) * (one() - c));
            let m3 = Matrix3::from_axis_angle(a, t);
            let m4 = Matrix4::from_axis_angle(a, t);
            let b3: Basis3<Xq> = Rotation3::from_axis_angle(a, t);
            let q = Quaternion::from_axis_angle(a, t);
            chk(m3 * v == want, "Matrix3::from_axis_angle is Rodrigues' rotation")?;
            chk(m4.transform_vector(v) == want, "Matrix4::from_axis_angle")?;
            chk(b3.rotate_vector(v) == want, "Basis3::from_axis_angle")?;
            chk(q * v == want, "Quaternion::from_axis_angle")?;
            chk(m3 * a == a, "fixes the axis")?;
            chk(m3 * m3.transpose() == Matrix3::identity() && m3.determinant() == one(), "orthonormal, det +1")?;
            // degrees describe the same rotation
            chk(Matrix3::from_axis_angle(a, d) == m3 && Quaternion::from_axis_angle(a, d) == q, "Deg and Rad agree")?;
            // from_angle_x/y/z are from_axis_angle about the unit axes
            chk(Matrix3::from_angle_x(t) == Matrix3::from_axis_angle(Vector3::unit_x(), t), "from_angle_x")?;
            chk(Matrix3::from_angle_y(t) == Matrix3::from_axis_angle(Vector3::unit_y(), t), "from_angle_y")?;
            chk(Matrix3::from_angle_z(t) == Matrix3::from_axis_angle(Vector3::unit_z(), t), "from_angle_z")?;
            chk(Matrix4::from_angle_x(t) == Matrix4::from_axis_angle(Vector3::unit_x(), t), "Matrix4::from_angle_x")?;
            chk(Matrix4::from_angle_y(t) == Matrix4::from_axis_angle(Vector3::unit_y(), t), "Matrix4::from_angle_y")?;
            chk(Matrix4::from_angle_z(t) == Matrix4::from_axis_angle(Vector3::unit_z(), t), "Matrix4::from_angle_z")?;
            let bx: Basis3<Xq> = Rotation3::from_angle_x(t); let by: Basis3<Xq> = Rotation3::from_angle_y(t); let bz: Basis3<Xq> = Rotation3::from_angle_z(t);
            chk(*bx.as_ref() == Matrix3::from_angle_x(t) && *by.as_ref() == Matrix3::from_angle_y(t) && *bz.as_ref() == Matrix3::from_angle_z(t), "Basis3::from_angle_*")?;
            let qx: Quaternion<Xq> = Rotation3::from_angle_x(t);
            chk(qx == Quaternion::from_axis_angle(Vector3::unit_x(), t), "Quaternion::from_angle_x")?;
            // 2-D
            let m2 = Matrix2::from_angle(t);
            chk(m2 * Vector2::unit_x() == Vector2::new(c, s) && m2 * Vector2::unit_y() == Vector2::new(-s, c), "Matrix2::from_angle columns")?;
            let b2: Basis2<Xq> = Rotation2::from_angle(t);
            chk(*b2.as_ref() == m2, "Basis2::from_angle")?;
            // angles add about a common axis
            let t2 = Rad(x[6] + x[6]);
            chk(m3 * m3 == Matrix3::from_axis_angle(a, t2), "angles add (Matrix3)")?;
            chk(q * q == Quaternion::from_axis_angle(a, t2), "angles add (Quaternion)")?;
            chk(m2 * m2 == Matrix2::from_angle(t2), "angles add (Matrix2)")?;
            // r * invert(r) = one, rotate_point = rotate_vector(p - origin)
            chk(q * q.invert() == Quaternion::one(), "q * invert(q) = one")?;
            chk(b3 * b3.invert() == Basis3::one() && b2 * b2.invert() == Basis2::one(), "basis * invert = one")?;
            let p = Point3::from_vec(v);
            chk(q.rotate_point(p) == Point3::from_vec(q.rotate_vector(p - Point3::origin())), "rotate_point (Quaternion)")?;
            chk(b3.rotate_point(p) == Point3::from_vec(b3.rotate_vector(p - Point3::origin())), "rotate_point (Basis3)")?;
            let p2_ = Point2::new(v.x, v.y);
            chk(b2.rotate_point(p2_) == Point2::from_vec(b2.rotate_vector(p2_ - Point2::origin())), "rotate_point (Basis2)")
        });
    }
}
